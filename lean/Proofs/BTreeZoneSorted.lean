import Proofs.BTreeZoneStore
/-!
Every operation of the C20 model keeps the node store and the delegation index strictly sorted in
canonical order with lower-case keys — for every variant, with no guard (clause "names iterate in
canonical order").
-/
namespace Model
namespace BTZ

theorem NWF_of_keys_eq {l l' : Nodes} (hk : l'.map (·.1) = l.map (·.1)) (h : NWF l) : NWF l' := by
  have h1 : (l.map (·.1)).Pairwise (fun a b => cmpOrder a b < 0) := by
    rw [List.pairwise_map]; exact h.1
  refine ⟨?_, ?_⟩
  · have : (l'.map (·.1)).Pairwise (fun a b => cmpOrder a b < 0) := by rw [hk]; exact h1
    rw [List.pairwise_map] at this; exact this
  · intro e he
    have : e.1 ∈ l'.map (·.1) := List.mem_map_of_mem he
    rw [hk] at this
    obtain ⟨e', he', hee⟩ := List.mem_map.mp this
    rw [← hee]; exact h.2 e' he'

theorem vname_LC {cfg : Cfg} {n k : Name} (h : vname cfg n = .ok k) : LC k := by
  unfold vname at h
  split at h
  · injection h with h; rw [← h]; exact LC_lowerName _
  · cases h

structure VerWF (ver : Ver) : Prop where
  nodes : NWF ver.nodes
  delegs : DWF ver.delegs

theorem glueStep_fst (c : List Name) (b : Bool) (e : Name × Node) : (glueStep c b e).1 = e.1 := rfl

theorem glueStepFixed_fst (s : Nodes) (b : Bool) (e : Name × Node) : (glueStepFixed s b e).1 = e.1 := by
  unfold glueStepFixed; split <;> rfl

theorem updateGlue_keys (v : Variant) (ver : Ver) (name : Name) (b : Bool) :
    (updateGlue v ver name b).nodes.map (·.1) = ver.nodes.map (·.1) := by
  unfold updateGlue
  have key : ∀ (sub' : Nodes),
      sub'.map (·.1) = ((ver.nodes.dropWhile (fun e => decide (cmpOrder e.1 name ≤ 0))).takeWhile
        (fun e => isSubdomain e.1 name)).map (·.1) →
      (ver.nodes.takeWhile (fun e => decide (cmpOrder e.1 name ≤ 0)) ++ sub' ++
        (ver.nodes.dropWhile (fun e => decide (cmpOrder e.1 name ≤ 0))).dropWhile (fun e => isSubdomain e.1 name)).map (·.1)
        = ver.nodes.map (·.1) := by
    intro sub' hs
    rw [List.map_append, List.map_append, hs, ← List.map_append, ← List.map_append, List.append_assoc,
      List.takeWhile_append_dropWhile, List.takeWhile_append_dropWhile]
  split
  · apply key
    rw [List.map_map]
    apply List.map_congr_left
    intro e _; exact glueStepFixed_fst _ _ _
  · apply key
    rw [List.map_map]
    apply List.map_congr_left
    intro e _; rfl

theorem foldl_dins_DWF {d : List Name} {l : Nodes} (hd : DWF d) (hl : ∀ e ∈ l, LC e.1) :
    DWF (l.foldl (fun d e => dins d e.1) d) := by
  induction l generalizing d with
  | nil => exact hd
  | cons e r ih =>
    simp only [List.foldl_cons]
    exact ih (DWF_dins hd (hl e List.mem_cons_self)) (fun a ha => hl a (List.mem_cons_of_mem _ ha))

theorem updateGlue_VerWF {v : Variant} {ver : Ver} {name : Name} {b : Bool} (h : VerWF ver) :
    VerWF (updateGlue v ver name b) := by
  have hn : NWF (updateGlue v ver name b).nodes := NWF_of_keys_eq (updateGlue_keys v ver name b) h.nodes
  refine ⟨hn, ?_⟩
  unfold updateGlue
  split
  · simp only
    split
    · exact DWF_filter _ h.delegs
    · apply foldl_dins_DWF h.delegs
      intro e he
      have he' := (List.mem_filter.mp he).1
      obtain ⟨e0, he0, rfl⟩ := List.mem_map.mp he'
      rw [glueStepFixed_fst]
      have : e0 ∈ ver.nodes :=
        (List.dropWhile_sublist _).subset ((List.takeWhile_sublist _).subset he0)
      exact h.nodes.2 e0 this
  · exact h.delegs

theorem maybeCow_VerWF {v : Variant} {cfg : Cfg} {ver : Ver} {name : Name} (h : VerWF ver) (hk : LC name) :
    VerWF (maybeCow v cfg ver name).1 := by
  unfold maybeCow
  exact ⟨NWF_nins h.nodes hk, h.delegs⟩

theorem putNS_VerWF {v : Variant} {ver1 : Ver} {node0 : Node} {name : Name} {k : RdKey} (h : VerWF ver1)
    (hk : LC name) : VerWF (putNS v ver1 node0 name k).1 := by
  unfold putNS
  split
  · split
    · exact updateGlue_VerWF (ver := { ver1 with delegs := dins ver1.delegs name }) ⟨h.nodes, DWF_dins h.delegs hk⟩
    · exact h
  · exact h

theorem putFinish_VerWF {v : Variant} {ver2 : Ver} {node1 : Node} {name : Name} {k : RdKey} (h : VerWF ver2)
    (hk : LC name) : VerWF (putFinish v ver2 node1 name k) := by
  unfold putFinish
  split
  · have h3 : VerWF (updateGlue v { ver2 with delegs := ddel ver2.delegs name } name false) :=
      updateGlue_VerWF (ver := { ver2 with delegs := ddel ver2.delegs name }) ⟨h.nodes, DWF_ddel h.delegs⟩
    exact ⟨NWF_nins h3.nodes hk, h3.delegs⟩
  · exact ⟨NWF_nins h.nodes hk, h.delegs⟩

theorem putRdataset_VerWF {v : Variant} {cfg : Cfg} {ver ver' : Ver} {n : Name} {k : RdKey} (h : VerWF ver)
    (hr : putRdataset v cfg ver n k = .ok ver') : VerWF ver' := by
  unfold putRdataset at hr
  split at hr
  · cases hr
  · rename_i name hname
    have hk := vname_LC hname
    injection hr with hr
    rw [← hr]
    exact putFinish_VerWF (putNS_VerWF (maybeCow_VerWF h hk) hk) hk

theorem delNS_VerWF {v : Variant} {ver1 : Ver} {node0 : Node} {name : Name} {k : RdKey} (h : VerWF ver1) :
    VerWF (delNS v ver1 node0 name k).1 := by
  unfold delNS
  split
  · exact updateGlue_VerWF (ver := { ver1 with delegs := ddel ver1.delegs name }) ⟨h.nodes, DWF_ddel h.delegs⟩
  · exact h

theorem delFinish_VerWF {ver2 : Ver} {node1 : Node} {name : Name} {k : RdKey} (h : VerWF ver2) (hk : LC name) :
    VerWF (delFinish ver2 node1 name k) := by
  unfold delFinish
  split
  · exact ⟨NWF_ndel h.nodes, h.delegs⟩
  · exact ⟨NWF_nins h.nodes hk, h.delegs⟩

theorem deleteRdataset_VerWF {v : Variant} {cfg : Cfg} {ver ver' : Ver} {n : Name} {k : RdKey} (h : VerWF ver)
    (hr : deleteRdataset v cfg ver n k = .ok ver') : VerWF ver' := by
  unfold deleteRdataset at hr
  split at hr
  · cases hr
  · rename_i name hname
    have hk := vname_LC hname
    injection hr with hr
    rw [← hr]
    exact delFinish_VerWF (delNS_VerWF (maybeCow_VerWF h hk)) hk

theorem deleteNode_VerWF {v : Variant} {cfg : Cfg} {ver ver' : Ver} {n : Name} (h : VerWF ver)
    (hr : deleteNode v cfg ver n = .ok ver') : VerWF ver' := by
  unfold deleteNode at hr
  split at hr
  · cases hr
  · rename_i name hname
    split at hr
    · injection hr with hr; rw [← hr]; exact h
    · rename_i node _
      injection hr with hr
      rw [← hr]
      have h1 : VerWF (if node.flags.deleg then
          updateGlue v { ver with delegs := ddel ver.delegs name } name false else ver) := by
        split
        · exact updateGlue_VerWF (ver := { ver with delegs := ddel ver.delegs name }) ⟨h.nodes, DWF_ddel h.delegs⟩
        · exact h
      exact ⟨NWF_ndel h1.nodes, h1.delegs⟩

theorem applyOp_VerWF {v : Variant} {cfg : Cfg} {ver ver' : Ver} {op : Op} (h : VerWF ver)
    (hr : applyOp v cfg ver op = .ok ver') : VerWF ver' := by
  cases op with
  | put name k =>
    simp only [applyOp] at hr
    split at hr
    · cases hr
    · split at hr
      · cases hr
      · exact putRdataset_VerWF h hr
  | delName name => exact deleteNode_VerWF h hr
  | delRds name k =>
    simp only [applyOp] at hr
    split at hr
    · cases hr
    · injection hr with hr; rw [← hr]; exact h
    · exact deleteRdataset_VerWF h hr
  | delRdata name k hit =>
    simp only [applyOp] at hr
    split at hr
    · cases hr
    · injection hr with hr; rw [← hr]; exact h
    · split at hr
      · exact deleteRdataset_VerWF h hr
      · exact putRdataset_VerWF h hr

theorem stepOp_VerWF {v : Variant} {cfg : Cfg} {ver : Ver} {op : Op} (h : VerWF ver) :
    VerWF (stepOp v cfg ver op) := by
  unfold stepOp
  split
  · rename_i ver' hr; exact applyOp_VerWF h hr
  · exact h

theorem foldl_stepOp_VerWF {v : Variant} {cfg : Cfg} {ver : Ver} {ops : List Op} (h : VerWF ver) :
    VerWF (ops.foldl (stepOp v cfg) ver) := by
  induction ops generalizing ver with
  | nil => exact h
  | cons op r ih => exact ih (stepOp_VerWF h)

/-- well-formedness of a committed zone state -/
def ZWF : ZState → Prop
  | none => True
  | some (nodes, delegs) => NWF nodes ∧ DWF delegs

theorem runTxn_ZWF {v : Variant} {cfg : Cfg} {z : ZState} {t : Txn} (h : ZWF z) : ZWF (runTxn v cfg z t) := by
  unfold runTxn
  split
  · exact h
  · rename_i ver hb
    have hv : VerWF ver := by
      unfold beginTxn at hb
      split at hb
      · injection hb with hb; rw [← hb]; exact ⟨NWF_nil, DWF_nil⟩
      · split at hb
        · rename_i nodes delegs
          injection hb with hb; rw [← hb]; exact ⟨h.1, h.2⟩
        · cases hb
    have := foldl_stepOp_VerWF (v := v) (cfg := cfg) (ops := t.ops) hv
    unfold endTxn
    split
    · exact ⟨this.nodes, this.delegs⟩
    · exact h

theorem runHist_ZWF {v : Variant} {cfg : Cfg} {z : ZState} {h : List Txn} (hz : ZWF z) :
    ZWF (runHist v cfg z h) := by
  unfold runHist
  induction h generalizing z with
  | nil => exact hz
  | cons t r ih => exact ih (runTxn_ZWF hz)

end BTZ
end Model

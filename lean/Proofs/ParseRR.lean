import Proofs.ParseBasic
import Proofs.MessageCompress
/-! Parsing back what the (relative) renderer wrote: names, RDATA of the modelled shapes, one resource record.
Origin-free (absolute names) throughout: this is the "equal to the original whenever it uses absolute names"
half of the property. -/
namespace Model

variable {Rs : RelSpec}

/-- a name equal to `full` up to ASCII case is readable at `pos` in `W` and occupies `len` octets there -/
def NameAt (Rs : RelSpec) (W : Bytes) (pos len : Nat) (full : Name) : Prop :=
  ∃ ls, Dec W pos pos ls (pos + len) ∧ Rs.R (ls ++ [[]]) full

theorem NameAt.mono {W pos len full} (h : NameAt Rs W pos len full) (ext : Bytes) : NameAt Rs (W ++ ext) pos len full := by
  obtain ⟨ls, hd, hr⟩ := h
  exact ⟨ls, hd.mono ext, hr⟩

theorem getName_of_NameAt {W : Bytes} {pos len : Nat} {full : Name} (h : NameAt Rs W pos len full) (hwf : WfName full)
    (endp : Nat) (he : pos + len ≤ endp) (hw : endp ≤ W.length) :
    ∃ n', getName W endp pos = .ok (n', pos + len) ∧ Rs.R n' full := by
  obtain ⟨ls, hd, hr⟩ := h
  exact ⟨ls ++ [[]], getName_of_Dec hd endp he hw (wfName_of_lowerEq _ _ (Rs.toEqv hr) hwf), hr⟩

theorem wireName_none {n full : Name} (h : wireName n none = some full) : full = n ∧ isAbs n = true := by
  unfold wireName at h
  split at h
  · rename_i ha; simp at h; exact ⟨h.symm, ha⟩
  · simp at h

/-- writing a name (no origin): table stays sound and the name is readable where it was written -/
theorem nameExt_at (A : Bytes) (t : CTable) (n : Name) (q : Bytes × CTable) (hok : NameOk Rs none n)
    (hs : TableSound Rs.R A t) (h : nameExt A.length t n none = some q) :
    TableSound Rs.R (A ++ q.1) (t ++ q.2) ∧ NameAt Rs (A ++ q.1) A.length q.1.length n ∧ WfName n := by
  obtain ⟨full, hw, hwf, habs, hg⟩ := hok
  obtain ⟨rfl, _⟩ := wireName_none hw
  unfold nameExt at h
  rw [hw] at h
  simp at h
  rw [← h]
  obtain ⟨s1, ls, hd, hr⟩ := Rs.sound A t full hwf habs hg hs
  exact ⟨s1, ⟨ls, hd, hr⟩, hwf⟩

/-! ### similarity of parsed and original values: equal except for the ASCII case of compressed names -/

def RData.sim (Rs : RelSpec) : RData → RData → Prop
  | .raw a, .raw b => a = b
  | .name1 a, .name1 b => Rs.R a b
  | .mx p a, .mx q b => p = q ∧ Rs.R a b
  | .soa m r a b c d e, .soa m' r' a' b' c' d' e' =>
    Rs.R m m' ∧ Rs.R r r' ∧ a = a' ∧ b = b' ∧ c = c' ∧ d = d' ∧ e = e'
  | _, _ => False

/-- field ranges of an rdata (what `struct.pack` accepts) and legality of its names -/
def RData.valid (Rs : RelSpec) : RData → Prop
  | .raw _ => True
  | .name1 n => NameOk Rs none n
  | .mx p n => p < 65536 ∧ NameOk Rs none n
  | .soa m r a b c d e =>
    NameOk Rs none m ∧ NameOk Rs none r ∧ a < 4294967296 ∧ b < 4294967296 ∧ c < 4294967296 ∧ d < 4294967296 ∧ e < 4294967296

theorem RData.valid_namesOk {rd : RData} (h : rd.valid Rs) : rd.namesOk Rs none := by
  cases rd with
  | raw b => trivial
  | name1 n => exact h
  | mx p n => exact h.2
  | soa m r a b c d e => exact ⟨h.1, h.2.1⟩

theorem slice_at (W X Y Z : Bytes) (hW : W = X ++ Y ++ Z) (i n : Nat) (hi : i = X.length) (hn : n = Y.length) :
    slice W i n = Y := by
  subst hW; exact slice_mid' X Y Z i n hi hn

/-- the RDATA written by the renderer is parsed back (inside `restrict_to` = up to the end of what was written) -/
theorem rdataExt_parse (A : Bytes) (t : CTable) (rd : RData) (q : Bytes × CTable) (post : Bytes) (rdtype : Nat)
    (hshape : shapeOf rdtype = rd.shape) (hv : rd.valid Rs) (hs : TableSound Rs.R A t)
    (h : rdataExt A.length t none rd = some q) :
    ∃ rd', parseRData (A ++ q.1 ++ post) A.length (A.length + q.1.length) none rdtype = .ok rd' ∧ rd'.sim Rs rd := by
  obtain ⟨qe, qn⟩ := q
  have hlenW : A.length + qe.length ≤ (A ++ qe ++ post).length := by simp
  dsimp only at *
  cases rd with
  | raw b =>
    simp [rdataExt] at h
    obtain ⟨rfl, rfl⟩ := h
    refine ⟨.raw b, ?_, rfl⟩
    unfold parseRData
    rw [hshape]
    simp only [RData.shape]
    have : A.length + b.length - A.length = b.length := by omega
    rw [this, slice_mid]
  | name1 n =>
    simp only [rdataExt] at h
    obtain ⟨_, hat, hwf⟩ := nameExt_at A t n (qe, qn) hv hs h
    obtain ⟨n', hg, hn'⟩ := getName_of_NameAt (hat.mono post) hwf (A.length + qe.length) (Nat.le_refl _) hlenW
    refine ⟨.name1 n', ?_, hn'⟩
    unfold parseRData
    rw [hshape]
    simp only [RData.shape, hg, relTo]
    simp
  | mx p n =>
    simp only [rdataExt] at h
    cases h1 : nameExt (A.length + 2) t n none with
    | none => rw [h1] at h; simp at h
    | some q1 =>
      rw [h1] at h; simp at h; obtain ⟨rfl, rfl⟩ := h
      have hl : (A ++ u16 p).length = A.length + 2 := by simp [u16]
      obtain ⟨_, hat, hwf⟩ := nameExt_at (A ++ u16 p) t n q1 hv.2 (hs.mono _) (by rw [hl]; exact h1)
      have hW : A ++ (u16 p ++ q1.1) ++ post = (A ++ u16 p ++ q1.1) ++ post := by simp [List.append_assoc]
      have hat' := hat.mono post
      rw [hl] at hat'
      have hlenW' : A.length + 2 + q1.1.length ≤ (A ++ u16 p ++ q1.1 ++ post).length := by simp [u16]; omega
      obtain ⟨n', hg, hn'⟩ := getName_of_NameAt hat' hwf (A.length + 2 + q1.1.length) (Nat.le_refl _) hlenW'
      refine ⟨.mx p n', ?_, rfl, hn'⟩
      unfold parseRData
      rw [hshape]
      simp only [RData.shape]
      have hlen : (u16 p ++ q1.1).length = 2 + q1.1.length := by simp [u16]; omega
      have h2 : ¬ (A.length + (u16 p ++ q1.1).length - A.length < 2) := by rw [hlen]; omega
      simp only [h2, if_false]
      rw [hW]
      have hend : A.length + (u16 p ++ q1.1).length = A.length + 2 + q1.1.length := by rw [hlen]; omega
      rw [hend, hg]
      simp only [relTo]
      have hs2 : slice (A ++ u16 p ++ q1.1 ++ post) A.length 2 = u16 p :=
        slice_at _ A (u16 p) (q1.1 ++ post) (by simp [List.append_assoc]) _ _ rfl rfl
      rw [hs2, beVal_u16 p hv.1]
      simp
  | soa m r a b c d e =>
    simp only [rdataExt] at h
    cases h1 : nameExt A.length t m none with
    | none => rw [h1] at h; simp at h
    | some q1 =>
      rw [h1] at h; simp only at h
      cases h2 : nameExt (A.length + q1.1.length) (t ++ q1.2) r none with
      | none => rw [h2] at h; simp at h
      | some q2 =>
        rw [h2] at h; simp only at h; cases h
        obtain ⟨hm, hr, ha, hb, hc, hd, he⟩ := hv
        obtain ⟨s1, hat1, hwf1⟩ := nameExt_at A t m q1 hm hs h1
        have hl : (A ++ q1.1).length = A.length + q1.1.length := by simp
        obtain ⟨_, hat2, hwf2⟩ := nameExt_at (A ++ q1.1) (t ++ q1.2) r q2 hr s1 (by rw [hl]; exact h2)
        -- the whole buffer
        have hW : A ++ (q1.1 ++ q2.1 ++ u32 a ++ u32 b ++ u32 c ++ u32 d ++ u32 e) ++ post
            = A ++ q1.1 ++ (q2.1 ++ u32 a ++ u32 b ++ u32 c ++ u32 d ++ u32 e ++ post) := by simp [List.append_assoc]
        have hW2 : A ++ (q1.1 ++ q2.1 ++ u32 a ++ u32 b ++ u32 c ++ u32 d ++ u32 e) ++ post
            = A ++ q1.1 ++ q2.1 ++ (u32 a ++ u32 b ++ u32 c ++ u32 d ++ u32 e ++ post) := by simp [List.append_assoc]
        have hat1' := hat1.mono (q2.1 ++ u32 a ++ u32 b ++ u32 c ++ u32 d ++ u32 e ++ post)
        rw [← hW] at hat1'
        have hat2' := hat2.mono (u32 a ++ u32 b ++ u32 c ++ u32 d ++ u32 e ++ post)
        rw [← hW2, hl] at hat2'
        have htot : (q1.1 ++ q2.1 ++ u32 a ++ u32 b ++ u32 c ++ u32 d ++ u32 e).length = q1.1.length + q2.1.length + 20 := by
          simp [u32]; omega
        have hWlen : (A ++ (q1.1 ++ q2.1 ++ u32 a ++ u32 b ++ u32 c ++ u32 d ++ u32 e) ++ post).length
            = A.length + q1.1.length + q2.1.length + 20 + post.length := by
          simp [u32]; omega
        obtain ⟨m', hg1, hm'⟩ := getName_of_NameAt hat1' hwf1 (A.length + (q1.1.length + q2.1.length + 20))
          (by omega) (by rw [hWlen]; omega)
        obtain ⟨r', hg2, hr'⟩ := getName_of_NameAt hat2' hwf2 (A.length + (q1.1.length + q2.1.length + 20))
          (by omega) (by rw [hWlen]; omega)
        refine ⟨.soa m' r' a b c d e, ?_, hm', hr', rfl, rfl, rfl, rfl, rfl⟩
        unfold parseRData
        rw [hshape]
        simp only [RData.shape, htot, hg1, hg2, relTo]
        have c1 : ¬ (A.length + (q1.1.length + q2.1.length + 20) - (A.length + q1.1.length + q2.1.length) < 20) := by omega
        have c2 : ¬ (A.length + q1.1.length + q2.1.length + 20 ≠ A.length + (q1.1.length + q2.1.length + 20)) := by omega
        simp only [c1, c2, if_false]
        -- the five integers
        have sa : slice (A ++ (q1.1 ++ q2.1 ++ u32 a ++ u32 b ++ u32 c ++ u32 d ++ u32 e) ++ post)
            (A.length + q1.1.length + q2.1.length) 4 = u32 a :=
          slice_at _ (A ++ q1.1 ++ q2.1) (u32 a) (u32 b ++ u32 c ++ u32 d ++ u32 e ++ post)
            (by simp [List.append_assoc]) _ _ (by simp; omega) rfl
        have sb : slice (A ++ (q1.1 ++ q2.1 ++ u32 a ++ u32 b ++ u32 c ++ u32 d ++ u32 e) ++ post)
            (A.length + q1.1.length + q2.1.length + 4) 4 = u32 b :=
          slice_at _ (A ++ q1.1 ++ q2.1 ++ u32 a) (u32 b) (u32 c ++ u32 d ++ u32 e ++ post)
            (by simp [List.append_assoc]) _ _ (by simp [u32]; omega) rfl
        have sc : slice (A ++ (q1.1 ++ q2.1 ++ u32 a ++ u32 b ++ u32 c ++ u32 d ++ u32 e) ++ post)
            (A.length + q1.1.length + q2.1.length + 8) 4 = u32 c :=
          slice_at _ (A ++ q1.1 ++ q2.1 ++ u32 a ++ u32 b) (u32 c) (u32 d ++ u32 e ++ post)
            (by simp [List.append_assoc]) _ _ (by simp [u32]; omega) rfl
        have sd : slice (A ++ (q1.1 ++ q2.1 ++ u32 a ++ u32 b ++ u32 c ++ u32 d ++ u32 e) ++ post)
            (A.length + q1.1.length + q2.1.length + 12) 4 = u32 d :=
          slice_at _ (A ++ q1.1 ++ q2.1 ++ u32 a ++ u32 b ++ u32 c) (u32 d) (u32 e ++ post)
            (by simp [List.append_assoc]) _ _ (by simp [u32]; omega) rfl
        have se : slice (A ++ (q1.1 ++ q2.1 ++ u32 a ++ u32 b ++ u32 c ++ u32 d ++ u32 e) ++ post)
            (A.length + q1.1.length + q2.1.length + 16) 4 = u32 e :=
          slice_at _ (A ++ q1.1 ++ q2.1 ++ u32 a ++ u32 b ++ u32 c ++ u32 d) (u32 e) post
            (by simp [List.append_assoc]) _ _ (by simp [u32]; omega) rfl
        rw [sa, sb, sc, sd, se, beVal_u32 a ha, beVal_u32 b hb, beVal_u32 c hc, beVal_u32 d hd, beVal_u32 e he]

end Model

namespace Model

theorem ttlClamp_lt : ConstsC03.ttlClampAbove < 4294967296 := by decide

/-- one resource record written by the renderer (no origin, not OPT/TSIG, not an update message) is parsed back
and handed to `find_rrset`/`add` with the owner up to ASCII case and the RDATA up to the case of its names -/
theorem parseRR_of_rrExt (cfg : PCfg) (horg : cfg.origin = none) (A post : Bytes) (t : CTable) (owner : Name)
    (rdtype rdclass ttl : Nat) (rd : RData) (q : Bytes × CTable) (sec count i : Nat) (st : PState)
    (hcur : st.cur = A.length) (hs : TableSound Rs.R A t) (hown : NameOk Rs none owner) (hv : rd.valid Rs)
    (hshape : shapeOf rdtype = rd.shape) (ht : rdtype < 65536) (hc : rdclass < 65536)
    (httl : ttl ≤ ConstsC03.ttlClampAbove) (hns : rdtype ≠ ConstsC03.typeOPT ∧ rdtype ≠ ConstsC03.typeTSIG)
    (h : rrExt owner rdtype rdclass ttl none A.length t rd = .ok q) :
    ∃ owner' rd', Rs.R owner' owner ∧ rd'.sim Rs rd ∧
      parseRR cfg false (A ++ q.1 ++ post) sec count i st =
        .ok ({ st with cur := A.length + q.1.length }.setSection sec
          (sectionAdd (st.section sec) owner' rdclass rdtype (rdCovers rdtype rd') none cfg.oneRRPerRRset
            (some (rd', ttl)))) := by
  obtain ⟨qe, qn⟩ := q
  unfold rrExt at h
  cases h1 : nameExt A.length t owner none with
  | none => rw [h1] at h; simp at h
  | some q1 =>
    rw [h1] at h; simp only at h
    cases h3 : rdataExt (A.length + q1.1.length + 10) (t ++ q1.2) none rd with
    | none => rw [h3] at h; simp at h
    | some q3 =>
      rw [h3] at h; simp only at h
      by_cases hbig : q3.1.length > 65535
      · simp [hbig] at h
      · simp only [hbig, if_false] at h
        cases h
        have hblen : q3.1.length < 65536 := by omega
        -- the owner
        obtain ⟨s1, hat, hwf⟩ := nameExt_at A t owner q1 hown hs h1
        -- the buffer in its various bracketings
        let hdr := u16 rdtype ++ u16 rdclass ++ u32 ttl ++ u16 q3.1.length
        have hhdr : hdr.length = 10 := by simp [hdr, u16, u32]
        have hW1 : A ++ (q1.1 ++ u16 rdtype ++ u16 rdclass ++ u32 ttl ++ u16 q3.1.length ++ q3.1) ++ post
            = (A ++ q1.1) ++ (hdr ++ q3.1 ++ post) := by simp [hdr, List.append_assoc]
        have hW2 : A ++ (q1.1 ++ u16 rdtype ++ u16 rdclass ++ u32 ttl ++ u16 q3.1.length ++ q3.1) ++ post
            = (A ++ q1.1 ++ hdr) ++ q3.1 ++ post := by simp [hdr, List.append_assoc]
        have hlW : (A ++ (q1.1 ++ u16 rdtype ++ u16 rdclass ++ u32 ttl ++ u16 q3.1.length ++ q3.1) ++ post).length
            = A.length + q1.1.length + 10 + q3.1.length + post.length := by
          rw [hW2]; simp [hhdr]; omega
        have hat' := hat.mono (hdr ++ q3.1 ++ post)
        rw [← hW1] at hat'
        obtain ⟨owner', hg, hown'⟩ := getName_of_NameAt hat' hwf _ (by rw [hlW]; omega) (Nat.le_refl _)
        -- the RDATA
        have hlA' : (A ++ q1.1 ++ hdr).length = A.length + q1.1.length + 10 := by simp [hhdr]; omega
        obtain ⟨rd', hprd, hsim⟩ := rdataExt_parse (A ++ q1.1 ++ hdr) (t ++ q1.2) rd q3 post rdtype hshape hv
          (s1.mono hdr) (by rw [hlA']; exact h3)
        rw [← hW2, hlA'] at hprd
        refine ⟨owner', rd', hown', hsim, ?_⟩
        -- the ten fixed octets
        have st1 : slice (A ++ (q1.1 ++ u16 rdtype ++ u16 rdclass ++ u32 ttl ++ u16 q3.1.length ++ q3.1) ++ post)
            (A.length + q1.1.length) 2 = u16 rdtype :=
          slice_at _ (A ++ q1.1) (u16 rdtype) (u16 rdclass ++ u32 ttl ++ u16 q3.1.length ++ q3.1 ++ post)
            (by simp [List.append_assoc]) _ _ (by simp) rfl
        have st2 : slice (A ++ (q1.1 ++ u16 rdtype ++ u16 rdclass ++ u32 ttl ++ u16 q3.1.length ++ q3.1) ++ post)
            (A.length + q1.1.length + 2) 2 = u16 rdclass :=
          slice_at _ (A ++ q1.1 ++ u16 rdtype) (u16 rdclass) (u32 ttl ++ u16 q3.1.length ++ q3.1 ++ post)
            (by simp [List.append_assoc]) _ _ (by simp [u16]; omega) rfl
        have st3 : slice (A ++ (q1.1 ++ u16 rdtype ++ u16 rdclass ++ u32 ttl ++ u16 q3.1.length ++ q3.1) ++ post)
            (A.length + q1.1.length + 4) 4 = u32 ttl :=
          slice_at _ (A ++ q1.1 ++ u16 rdtype ++ u16 rdclass) (u32 ttl) (u16 q3.1.length ++ q3.1 ++ post)
            (by simp [List.append_assoc]) _ _ (by simp [u16]; omega) rfl
        have st4 : slice (A ++ (q1.1 ++ u16 rdtype ++ u16 rdclass ++ u32 ttl ++ u16 q3.1.length ++ q3.1) ++ post)
            (A.length + q1.1.length + 8) 2 = u16 q3.1.length :=
          slice_at _ (A ++ q1.1 ++ u16 rdtype ++ u16 rdclass ++ u32 ttl) (u16 q3.1.length) (q3.1 ++ post)
            (by simp [List.append_assoc]) _ _ (by simp [u16, u32]; omega) rfl
        have httl' : ttl < 4294967296 := by have := ttlClamp_lt; omega
        unfold parseRR
        rw [hcur, hg]
        simp only [horg]
        have c10 : ¬ ((A ++ (q1.1 ++ u16 rdtype ++ u16 rdclass ++ u32 ttl ++ u16 q3.1.length ++ q3.1) ++ post).length
            - (A.length + q1.1.length) < 10) := by rw [hlW]; omega
        simp only [c10, if_false, st1, st2, st3, st4, beVal_u16 rdtype ht, beVal_u16 rdclass hc, beVal_u32 ttl httl',
          beVal_u16 _ hblen]
        have hsp : ¬ (rdtype = ConstsC03.typeOPT ∨ rdtype = ConstsC03.typeTSIG) := by
          intro hh; rcases hh with hh | hh
          · exact hns.1 hh
          · exact hns.2 hh
        simp only [hsp, if_false, parseRRHeader, Bool.not_false, if_true, Bool.false_eq_true]
        have clen : ¬ (q3.1.length > (A ++ (q1.1 ++ u16 rdtype ++ u16 rdclass ++ u32 ttl ++ u16 q3.1.length ++ q3.1) ++ post).length
            - (A.length + q1.1.length + 10)) := by rw [hlW]; omega
        simp only [clen, if_false, hns.1, hns.2, hprd]
        have hclamp : ¬ ttl > ConstsC03.ttlClampAbove := by omega
        simp only [hclamp, if_false, Bool.or_false]
        have hfin : A.length + (q1.1 ++ u16 rdtype ++ u16 rdclass ++ u32 ttl ++ u16 q3.1.length ++ q3.1).length
            = A.length + q1.1.length + 10 + q3.1.length := by simp [u16, u32]; omega
        rw [hfin]

end Model

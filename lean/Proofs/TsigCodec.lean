import Model.Tsig
import Proofs.TsigFlip
import Proofs.TsigName
/-! The TSIG RDATA codec: what `TSIG._to_wire` writes, `TSIG.from_wire_parser` reads back. -/
namespace Model.Tsig
open Model Model.NameOrder Rfc8945

/-- a 16-bit field right after a prefix -/
theorem rd16_mid (a b : Bytes) (n : Nat) (hn : n < 65536) : rd16 (a ++ (u16 n ++ b)) a.length = n := by
  have := rd16_u16 n hn a b
  rwa [List.append_assoc] at this

theorem rd16_mid' (a b : Bytes) (n k : Nat) (hn : n < 65536) (hk : k = a.length) : rd16 (a ++ (u16 n ++ b)) k = n := by
  subst hk; exact rd16_mid a b n hn

theorem slice_mid (a m b : Bytes) (i j : Nat) (hi : i = a.length) (hj : j = a.length + m.length) :
    slice (a ++ (m ++ b)) i j = m := by
  subst hi; subst hj
  unfold slice
  rw [← List.append_assoc, List.take_append_of_le_length (by simp), List.take_of_length_le (by simp)]
  simp

theorem rd48_mid (a b : Bytes) (t k : Nat) (ht : t < 281474976710656) (hk : k = a.length) :
    rd48 (a ++ (be 6 t ++ b)) k = t := by
  subst hk
  have hsplit : be 6 t = u16 (t / 4294967296) ++ (u16 (t / 65536 % 65536) ++ u16 (t % 65536)) := by
    have := be6_split (t / 4294967296) (t / 65536 % 65536) (t % 65536) (by omega) (by omega) (by omega)
    have e : t / 4294967296 * 4294967296 + (t / 65536 % 65536 * 65536 + t % 65536) = t := by omega
    rw [e] at this
    rw [this, u16_eq_be, u16_eq_be, u16_eq_be, List.append_assoc]
  rw [hsplit]
  unfold rd48 rd32
  have h1 : rd16 (a ++ ((u16 (t / 4294967296) ++ (u16 (t / 65536 % 65536) ++ u16 (t % 65536))) ++ b)) a.length
      = t / 4294967296 := by
    rw [List.append_assoc]; exact rd16_mid a _ _ (by omega)
  have h2 : rd16 (a ++ ((u16 (t / 4294967296) ++ (u16 (t / 65536 % 65536) ++ u16 (t % 65536))) ++ b)) (a.length + 2)
      = t / 65536 % 65536 := by
    have e : a ++ ((u16 (t / 4294967296) ++ (u16 (t / 65536 % 65536) ++ u16 (t % 65536))) ++ b)
        = (a ++ u16 (t / 4294967296)) ++ (u16 (t / 65536 % 65536) ++ (u16 (t % 65536) ++ b)) := by
      simp [List.append_assoc]
    rw [e]; exact rd16_mid' _ _ _ _ (by omega) (by simp [u16])
  have h3 : rd16 (a ++ ((u16 (t / 4294967296) ++ (u16 (t / 65536 % 65536) ++ u16 (t % 65536))) ++ b)) (a.length + 2 + 2)
      = t % 65536 := by
    have e : a ++ ((u16 (t / 4294967296) ++ (u16 (t / 65536 % 65536) ++ u16 (t % 65536))) ++ b)
        = (a ++ u16 (t / 4294967296) ++ u16 (t / 65536 % 65536)) ++ (u16 (t % 65536) ++ b) := by
      simp [List.append_assoc]
    rw [e]; exact rd16_mid' _ _ _ _ (by omega) (by simp [u16])
  rw [h1, h2, h3]; omega

/-- what the constructor of a TSIG rdata and the 16-bit length fields admit -/
structure RdataOk (rd : Rdata) : Prop where
  algWf : WfName rd.algorithm
  algAbs : isAbs rd.algorithm = true
  time : rd.timeSigned < 281474976710656
  fudge : rd.fudge < 65536
  mac : rd.mac.length < 65536
  oid : rd.originalId < 65536
  err : rd.error ≤ ConstsC14.rcodeMax
  other : rd.other.length < 65536

theorem rdataWire_shape (rd : Rdata) (post : Bytes) :
    rdataWire rd ++ post = toWire rd.algorithm ++ (be 6 rd.timeSigned ++ (u16 rd.fudge ++ (u16 rd.mac.length ++ (rd.mac ++
      (u16 rd.originalId ++ (u16 rd.error ++ (u16 rd.other.length ++ (rd.other ++ post)))))))) := by
  unfold rdataWire
  rw [timeEncoded_eq_be, ← u16_eq_be]
  simp [List.append_assoc]

/-- `from_wire_parser (to_wire rd) = rd`, wherever the RDATA stands and whatever follows it: the parser is
restricted to the RDATA's own length -/
theorem rdataParse_rdataWire_post (A : Bytes) (rd : Rdata) (post : Bytes) (hok : RdataOk rd) :
    rdataParse (A ++ rdataWire rd ++ post) A.length (A.length + (rdataWire rd).length) = .ok rd := by
  obtain ⟨ls, hls, hp⟩ := abs_split rd.algorithm hok.algWf hok.algAbs
  -- the algorithm name: decoded inside the RDATA only
  have hname : nameAt (A ++ rdataWire rd ++ post) (A.length + (rdataWire rd).length) (nameFuel (A ++ rdataWire rd ++ post))
      A.length A.length A.length [] = .ok (rd.algorithm, A.length + (toWire rd.algorithm).length) := by
    rw [nameAt_fuel, fromWireAux_take _ _ _ _ _ _ (by simp)]
    have htake : (A ++ rdataWire rd ++ post).take (A.length + (rdataWire rd).length) = A ++ rdataWire rd := by
      rw [List.take_append_of_le_length (by simp)]
      exact List.take_of_length_le (by simp)
    rw [htake]
    have hsh := rdataWire_shape rd []
    simp only [List.append_nil] at hsh
    rw [hsh]
    generalize (be 6 rd.timeSigned ++ (u16 rd.fudge ++ (u16 rd.mac.length ++ (rd.mac ++
      (u16 rd.originalId ++ (u16 rd.error ++ (u16 rd.other.length ++ rd.other))))))) = r1
    have hd := Dec_plain ls hp A r1 A.length
    rw [← hls] at hd
    have hrun := fromWireAux_of_Dec hd A.length []
    have hw : A ++ (toWire rd.algorithm ++ r1) = A ++ toWire rd.algorithm ++ r1 := by simp
    have hlen : A.length + (toWire rd.algorithm ++ r1).length = (A ++ toWire rd.algorithm ++ r1).length := by simp <;> omega
    rw [hw, hlen, hrun]
    simp only [List.nil_append, ← hls]
    congr 2
    omega
  have hLen : (rdataWire rd).length = (toWire rd.algorithm).length + 10 + rd.mac.length + 6 + rd.other.length := by
    have := congrArg List.length (rdataWire_shape rd [])
    simp [be_length, u16] at this
    omega
  unfold rdataParse
  rw [hname]
  simp only [validate_ok _ hok.algWf]
  generalize hp0 : A.length + (toWire rd.algorithm).length = p
  rw [List.append_assoc, rdataWire_shape rd post, ← List.append_assoc]
  have hpa : (A ++ toWire rd.algorithm).length = p := by simp; omega
  have hend : A.length + (rdataWire rd).length = p + 10 + rd.mac.length + 6 + rd.other.length := by omega
  rw [hend]
  generalize hP : A ++ toWire rd.algorithm = P at *
  have t1 : rd48 (P ++ (be 6 rd.timeSigned ++ (u16 rd.fudge ++ (u16 rd.mac.length ++ (rd.mac ++
      (u16 rd.originalId ++ (u16 rd.error ++ (u16 rd.other.length ++ (rd.other ++ post))))))))) p = rd.timeSigned :=
    rd48_mid P _ _ p hok.time hpa.symm
  have e2 : P ++ (be 6 rd.timeSigned ++ (u16 rd.fudge ++ (u16 rd.mac.length ++ (rd.mac ++
      (u16 rd.originalId ++ (u16 rd.error ++ (u16 rd.other.length ++ (rd.other ++ post))))))))
      = (P ++ be 6 rd.timeSigned) ++ (u16 rd.fudge ++ (u16 rd.mac.length ++ (rd.mac ++
      (u16 rd.originalId ++ (u16 rd.error ++ (u16 rd.other.length ++ (rd.other ++ post))))))) := by simp
  have e3 : P ++ (be 6 rd.timeSigned ++ (u16 rd.fudge ++ (u16 rd.mac.length ++ (rd.mac ++
      (u16 rd.originalId ++ (u16 rd.error ++ (u16 rd.other.length ++ (rd.other ++ post))))))))
      = (P ++ be 6 rd.timeSigned ++ u16 rd.fudge) ++ (u16 rd.mac.length ++ (rd.mac ++
      (u16 rd.originalId ++ (u16 rd.error ++ (u16 rd.other.length ++ (rd.other ++ post)))))) := by simp
  have e4 : P ++ (be 6 rd.timeSigned ++ (u16 rd.fudge ++ (u16 rd.mac.length ++ (rd.mac ++
      (u16 rd.originalId ++ (u16 rd.error ++ (u16 rd.other.length ++ (rd.other ++ post))))))))
      = (P ++ be 6 rd.timeSigned ++ u16 rd.fudge ++ u16 rd.mac.length) ++ (rd.mac ++
      (u16 rd.originalId ++ (u16 rd.error ++ (u16 rd.other.length ++ (rd.other ++ post))))) := by simp
  have e5 : P ++ (be 6 rd.timeSigned ++ (u16 rd.fudge ++ (u16 rd.mac.length ++ (rd.mac ++
      (u16 rd.originalId ++ (u16 rd.error ++ (u16 rd.other.length ++ (rd.other ++ post))))))))
      = (P ++ be 6 rd.timeSigned ++ u16 rd.fudge ++ u16 rd.mac.length ++ rd.mac) ++
      (u16 rd.originalId ++ (u16 rd.error ++ (u16 rd.other.length ++ (rd.other ++ post)))) := by simp
  have e6 : P ++ (be 6 rd.timeSigned ++ (u16 rd.fudge ++ (u16 rd.mac.length ++ (rd.mac ++
      (u16 rd.originalId ++ (u16 rd.error ++ (u16 rd.other.length ++ (rd.other ++ post))))))))
      = (P ++ be 6 rd.timeSigned ++ u16 rd.fudge ++ u16 rd.mac.length ++ rd.mac ++ u16 rd.originalId) ++
      (u16 rd.error ++ (u16 rd.other.length ++ (rd.other ++ post))) := by simp
  have e7 : P ++ (be 6 rd.timeSigned ++ (u16 rd.fudge ++ (u16 rd.mac.length ++ (rd.mac ++
      (u16 rd.originalId ++ (u16 rd.error ++ (u16 rd.other.length ++ (rd.other ++ post))))))))
      = (P ++ be 6 rd.timeSigned ++ u16 rd.fudge ++ u16 rd.mac.length ++ rd.mac ++ u16 rd.originalId ++ u16 rd.error) ++
      (u16 rd.other.length ++ (rd.other ++ post)) := by simp
  have e8 : P ++ (be 6 rd.timeSigned ++ (u16 rd.fudge ++ (u16 rd.mac.length ++ (rd.mac ++
      (u16 rd.originalId ++ (u16 rd.error ++ (u16 rd.other.length ++ (rd.other ++ post))))))))
      = (P ++ be 6 rd.timeSigned ++ u16 rd.fudge ++ u16 rd.mac.length ++ rd.mac ++ u16 rd.originalId ++ u16 rd.error
        ++ u16 rd.other.length) ++ (rd.other ++ post) := by simp
  generalize hW : P ++ (be 6 rd.timeSigned ++ (u16 rd.fudge ++ (u16 rd.mac.length ++ (rd.mac ++
      (u16 rd.originalId ++ (u16 rd.error ++ (u16 rd.other.length ++ (rd.other ++ post)))))))) = W at *
  have t2 : rd16 W (p + 6) = rd.fudge := by
    rw [e2]; exact rd16_mid' _ _ _ _ hok.fudge (by simp [be_length]; omega)
  have t3 : rd16 W (p + 8) = rd.mac.length := by
    rw [e3]; exact rd16_mid' _ _ _ _ hok.mac (by simp [be_length, u16]; omega)
  have t4 : slice W (p + 10) (p + 10 + rd.mac.length) = rd.mac := by
    rw [e4]; exact slice_mid _ _ _ _ _ (by simp [be_length, u16]; omega) (by simp [be_length, u16]; omega)
  have t5 : rd16 W (p + 10 + rd.mac.length) = rd.originalId := by
    rw [e5]; exact rd16_mid' _ _ _ _ hok.oid (by simp [be_length, u16]; omega)
  have herr : rd.error < 65536 := by have := hok.err; simp [ConstsC14.rcodeMax] at this; omega
  have t6 : rd16 W (p + 10 + rd.mac.length + 2) = rd.error := by
    rw [e6]; exact rd16_mid' _ _ _ _ herr (by simp [be_length, u16]; omega)
  have t7 : rd16 W (p + 10 + rd.mac.length + 4) = rd.other.length := by
    rw [e7]; exact rd16_mid' _ _ _ _ hok.other (by simp [be_length, u16]; omega)
  have t8 : slice W (p + 10 + rd.mac.length + 6) (p + 10 + rd.mac.length + 6 + rd.other.length) = rd.other := by
    rw [e8]; exact slice_mid _ _ _ _ _ (by simp [be_length, u16]; omega) (by simp [be_length, u16]; omega)
  simp only [t1, t2, t3, t4, t5, t6, t7, t8]
  have c1 : ¬ p + 10 > p + 10 + rd.mac.length + 6 + rd.other.length := by omega
  have c2 : ¬ p + 10 + rd.mac.length > p + 10 + rd.mac.length + 6 + rd.other.length := by omega
  have c3 : ¬ p + 10 + rd.mac.length + 6 > p + 10 + rd.mac.length + 6 + rd.other.length := by omega
  have c5 : ¬ rd.error > ConstsC14.rcodeMax := by have := hok.err; omega
  simp [c1, c2, c3, c5]

theorem rdataParse_rdataWire (A : Bytes) (rd : Rdata) (hok : RdataOk rd) :
    rdataParse (A ++ rdataWire rd) A.length (A ++ rdataWire rd).length = .ok rd := by
  have := rdataParse_rdataWire_post A rd [] hok
  simpa using this

end Model.Tsig

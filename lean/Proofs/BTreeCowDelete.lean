import Proofs.BTreeCowBalance
/-!
Mechanism-level proofs, part 10: `minimum`, `_get_node` + element assignment, and the step of `delete` before
the recursion, on the heap.
-/
namespace Model.BTreeCow
open Model.BTree

theorem hMinimum_sim {H : Heap} : ∀ {h a : Nat}, HT H h a → hMinimum H h a = minimum h (absN H h a) := by
  intro h
  induction h with
  | zero =>
    intro a ht
    unfold hMinimum
    simp [ht.2, absN, minimum]
  | succ h ih =>
    intro a ht
    have hlen := ht.2.2.1
    cases hk : (rd H a).kids with
    | nil => rw [hk] at hlen; simp at hlen
    | cons k ks =>
      have := ih (HT_kid (k := k) ht (by rw [hk]; simp))
      unfold hMinimum
      simp [ht.2.1, absN_succ, minimum, hk, kidA, this]

/-- the heap `_get_node` + assignment at height `h` simulates `replaceAt` -/
theorem hReplaceAt_sim {c t : Nat} (key : Nat) (s : Elt) : ∀ (h : Nat) (H : Heap) (a : Nat), Good c H h a →
    Shape t h (absN H h a) → Sorted (flat (absN H h a)) →
    Upd c H (hReplaceAt h H a key s).1 h a (replaceAt h (absN H h a) key s).1 ∧
    (hReplaceAt h H a key s).2 = (replaceAt h (absN H h a) key s).2 := by
  intro h
  induction h with
  | zero =>
    intro H a g hsh hso
    have hleaf : (rd H a).leaf = true := g.ht.2
    have habs : absN H 0 a = .leaf (rd H a).elts := rfl
    unfold hReplaceAt
    rw [habs]
    unfold replaceAt
    simp only [Node.elts]
    by_cases heq : (searchInNode (rd H a).elts key).2 = true
    · simp only [heq, if_true]
      exact ⟨upd_elts g _ (fun h0 => absurd rfl h0), trivial⟩
    · simp only [heq, Bool.false_eq_true, if_false, hleaf, if_true]
      exact ⟨Upd.refl g.ht g.nodup, trivial⟩
  | succ h ih =>
    intro H a g hsh hso
    have hleaf : (rd H a).leaf = false := g.ht.2.1
    have hkids : Kids t h (rd H a).elts ((rd H a).kids.map (absN H h)) := shape_node_iff.mp hsh
    have hso' : Sorted (flat (.node (rd H a).elts ((rd H a).kids.map (absN H h)))) := hso
    have hes := sorted_elts hso'
    unfold hReplaceAt
    rw [absN_succ]
    unfold replaceAt
    simp only [Node.elts]
    rcases search_cases key hes with ⟨el, er, hesplit, hl, hr, hres⟩ | ⟨el, e0, er, hesplit, h0, hl, hr, hres⟩
    · simp only [hres, Bool.false_eq_true, if_false, hleaf]
      have hlen := g.ht.2.2.1
      obtain ⟨kl, k0, kr, hk, hkl⟩ := split_at_lt (rd H a).kids el.length (by rw [hesplit] at hlen; simp at hlen; omega)
      rw [← hkl]
      have hkid : kidAt ((rd H a).kids.map (absN H h)) kl.length = absN H h k0 := by
        rw [hk]; exact kidAt_map_at rfl
      obtain ⟨k1, hcw, ucow, hkids1, helts1, gk1, habs1, _, _, _, so1, _⟩ := cowChild_spec g hk
      rw [hcw, hkid]
      simp only []
      generalize (cowChild H a kl.length).1 = H1 at ucow hkids1 helts1 gk1 habs1 so1
      have g1 := good_of_upd g ucow
      have hk0mem : absN H h k0 ∈ (rd H a).kids.map (absN H h) := by rw [hk]; simp
      have hk0 := hkids.2 _ hk0mem
      have hcsd : (rd H a).kids.map (absN H h) = kl.map (absN H h) ++ absN H h k0 :: kr.map (absN H h) := by
        rw [hk]; simp
      have hs' := hso'
      rw [hesplit, hcsd, flat_node_split el er _ _ _ (by simp [hkl])] at hs'
      have hsc := (sorted_append_iff.mp (sorted_append_iff.mp hs').1).2.1
      obtain ⟨r1, r2⟩ := ih H1 k1 gk1 (by rw [habs1]; exact hk0.1) (by rw [habs1]; exact hsc)
      rw [habs1] at r1 r2
      rcases hrc : hReplaceAt h H1 k1 key s with ⟨H2, old⟩
      rw [hrc] at r1 r2
      simp only [] at r1 r2 ⊢
      obtain ⟨uc, _⟩ := upd_child g1 hkids1 r1
      have hl1 : kl.map (absN H1 h) = kl.map (absN H h) :=
        List.map_congr_left (fun j hj => (kid_same_off so1 g.nodup g.ht (by rw [hk]; simp [hj])).1)
      have hr1 : kr.map (absN H1 h) = kr.map (absN H h) :=
        List.map_congr_left (fun j hj => (kid_same_off so1 g.nodup g.ht (by rw [hk]; simp [hj])).1)
      rw [hl1, hr1, helts1] at uc
      rcases hpc : replaceAt h (absN H h k0) key s with ⟨c', pold⟩
      rw [hpc] at uc r2
      simp only [] at uc r2 ⊢
      have hset : setAt ((rd H a).kids.map (absN H h)) kl.length c' =
          kl.map (absN H h) ++ c' :: kr.map (absN H h) := by
        rw [hcsd]; exact setAt_at (by simp)
      rw [hset]
      exact ⟨Upd.trans ucow uc, r2⟩
    · simp only [hres, if_true]
      have hlen : (setAt (rd H a).elts el.length s).length = (rd H a).elts.length := by
        rw [hesplit, setAt_at rfl]; simp
      exact ⟨upd_elts g (setAt (rd H a).elts el.length s) (fun _ => hlen), by first | rfl | trivial⟩

/-- the heap step before the recursion of `delete` (`maybe_cow_child`, `balance` if minimal, search again):
it follows the persistent `delPrep`, and the child to recurse into is owned -/
theorem hDelPrep_sim {c t : Nat} {H : Heap} {h p : Nat} {kl kr : List Nat} {k0 : Nat} {el er : List Elt} {key : Nat}
    (ht : 2 ≤ t) (g : Good c H (h + 1) p) (hk : (rd H p).kids = kl ++ k0 :: kr) (hes : (rd H p).elts = el ++ er)
    (hkl : kl.length = el.length)
    (hkids : Kids t h (rd H p).elts ((rd H p).kids.map (absN H h)))
    (hso : Sorted (flat (absN H (h + 1) p)))
    (hne : (rd H k0).elts.length = minKeys t → 1 ≤ (rd H p).elts.length)
    (hwl : ∀ x ∈ el, x.1 < key) (hwr : ∀ x ∈ er, key < x.1) :
    ∃ H2 ch es1 cs1 i1, hDelPrep t H p kl.length key = (H2, some ch) ∧
      delPrep t (rd H p).elts ((rd H p).kids.map (absN H h)) kl.length key = some (es1, cs1, i1) ∧
      Upd c H H2 (h + 1) p (.node es1 cs1) ∧
      ∃ pre post, (rd H2 p).kids = pre ++ ch :: post ∧ pre.length = i1 ∧ (rd H2 ch).creator = c := by
  have hcsd : (rd H p).kids.map (absN H h) = kl.map (absN H h) ++ absN H h k0 :: kr.map (absN H h) := by
    rw [hk]; simp
  have hkid : kidAt ((rd H p).kids.map (absN H h)) kl.length = absN H h k0 := by rw [hk]; exact kidAt_map_at rfl
  obtain ⟨k1, hcw, ucow, hkids1, helts1, gk1, habs1, hke, _, _, so1, _⟩ := cowChild_spec g hk
  unfold hDelPrep delPrep
  rw [hcw, hkid]
  simp only []
  generalize (cowChild H p kl.length).1 = H1 at ucow hkids1 helts1 gk1 habs1 hke so1
  have g1 := good_of_upd g ucow
  obtain ⟨e1, e2⟩ := abs_node_inj ucow.abs
  have e2' : (rd H1 p).kids.map (absN H1 h) = (rd H p).kids.map (absN H h) := by rw [e2]
  have hmineq : isMinimalC t (rd H1 k1) = isMinimal t (absN H h k0) := by
    simp [isMinimalC, isMinimal, absN_elts, hke]
  rw [hmineq]
  cases hmn : isMinimal t (absN H h k0) with
  | false =>
    simp only [Bool.false_eq_true, if_false]
    exact ⟨H1, k1, _, _, _, rfl, rfl, ucow, kl, kr, hkids1, rfl, gk1.own⟩
  | true =>
    simp only [if_true]
    have hminlen : (rd H k0).elts.length = minKeys t := by
      have : (absN H h k0).elts.length = minKeys t := by simpa [isMinimal] using hmn
      rwa [absN_elts] at this
    have hocc1 : ∀ j ∈ (rd H1 p).kids, minKeys t ≤ (rd H1 j).elts.length := by
      intro j hj
      have hm : absN H1 h j ∈ (rd H1 p).kids.map (absN H1 h) := List.mem_map_of_mem hj
      rw [e2'] at hm
      have := (hkids.2 _ hm).2.1
      rwa [absN_elts] at this
    obtain ⟨H2, es1, cs1, b1, b2, b3, pre, ch, post, b4, b5, b6, b7, b8⟩ :=
      balance_heap ht g1 hkids1 gk1.own hocc1 (by rw [helts1]; exact hne hminlen)
    rw [helts1, e2'] at b2
    rw [helts1] at b6 b7 b8
    rw [b1, b2]
    simp only []
    -- the persistent side: where the search lands
    have hkids' := hkids
    have hso' : Sorted (flat (.node (rd H p).elts ((rd H p).kids.map (absN H h)))) := hso
    rw [hes, hcsd] at hkids' hso' b2
    have hcl : (kl.map (absN H h)).length = el.length := by simp [hkl]
    obtain ⟨r, j, q1, q2, q3, q4, q5⟩ := balance_spec_at (key := key) ht hkids' hcl hso'
      (by simpa [isMinimal] using hmn) (by rw [← hes]; exact hne hminlen) hwl hwr
    rw [← hkl] at q1
    rw [q1] at b2
    simp only [Option.some.injEq] at b2
    subst b2
    obtain ⟨el1, er1, cl1, c1, cr1, w1, w2, w3, w4, w5, w6, w7, w8, w9, w10⟩ := q2
    simp only [Prod.mk.injEq] at w1
    obtain ⟨w1a, w1b⟩ := w1
    have hs1 : Sorted (flat (.node (el1 ++ er1) (cl1 ++ c1 :: cr1))) := by rw [w4]; exact hso'
    have hsearch := search_unique_lt (sorted_elts hs1) w5 w6
    obtain ⟨e3, _⟩ := abs_node_inj b3.abs
    rw [e3, w1a, hsearch]
    simp only []
    -- the heap index is the same
    have hpre : pre.length = j := by
      rw [w1a] at b6 b7 b8 q3 q4 q5
      rw [hes] at b6 b7 b8
      have hcases : (el1 ++ er1).length = (el ++ er).length ∨ (el1 ++ er1).length + 1 = (el ++ er).length := by omega
      rcases hcases with hc | hc
      · rw [b6 hc, q3 hc, hkl]
      · by_cases hel0 : el = []
        · have hkl0 : kl = [] := by
            cases kl with
            | nil => rfl
            | cons a l => rw [hel0] at hkl; simp at hkl
          rw [b7 hc hkl0, q4 hc hel0]
        · have hkl0 : kl ≠ [] := by
            intro e; rw [e] at hkl
            cases el with
            | nil => exact hel0 rfl
            | cons a l => simp at hkl
          have := b8 hc hkl0
          have := q5 hc hel0
          omega
    have hkid2 : kidA (rd H2 p).kids el1.length = ch := by
      rw [b4]; exact kidA_at (by rw [hpre, w10])
    rw [hkid2]
    exact ⟨H2, ch, _, _, _, rfl, rfl, Upd.trans ucow (w1a ▸ b3), pre, post, b4, by rw [hpre, w10], b5⟩

end Model.BTreeCow

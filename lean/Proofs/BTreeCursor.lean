import Proofs.BTreeTree
/-!
Layer L5, part 1: a cursor position as a zipper.  The parents stack of a cursor determines the elements
before and after the current node's subtree (`ctx`); a position inside the current node splits that
node's flattening (`upTo` / `from`); `_seek_least` and `_seek_greatest` keep the position.
-/
namespace Model.BTree

/-- elements of an internal node's flattening before child `i` -/
def nodeBefore (es : List Elt) (cs : List Node) (i : Nat) : List Elt := LF (cs.take i) (es.take i)
/-- elements of an internal node's flattening after child `i` -/
def nodeAfter (es : List Elt) (cs : List Node) (i : Nat) : List Elt := RF (cs.drop (i + 1)) (es.drop i)

theorem node_flat_at {es : List Elt} {cs : List Node} {i : Nat} (hlen : cs.length = es.length + 1)
    (hi : i ≤ es.length) :
    flat (.node es cs) = nodeBefore es cs i ++ flat (kidAt cs i) ++ nodeAfter es cs i := by
  obtain ⟨el, er, rfl, hel⟩ := split_at es i hi
  obtain ⟨cl, c, cr, rfl, hcl⟩ := split_at_lt cs i (by omega)
  have h : cl.length = el.length := by omega
  subst hel
  rw [flat_node_split el er cl c cr h]
  simp only [nodeBefore, nodeAfter, kidAt_at h]
  rw [← h, take_at, drop_at_succ, h, take_at, drop_at]

/-- the part of a node's flattening before position `i`; for an internal node the position is either
just before child `i` (`afterChild = false`) or just after it (`afterChild = true`) -/
def upTo (n : Node) (i : Nat) (afterChild : Bool) : List Elt :=
  match n with
  | .leaf es => es.take i
  | .node es cs => nodeBefore es cs i ++ (if afterChild then flat (kidAt cs i) else [])

/-- the part of a node's flattening from position `i` on -/
def fromPos (n : Node) (i : Nat) (afterChild : Bool) : List Elt :=
  match n with
  | .leaf es => es.drop i
  | .node es cs => (if afterChild then [] else flat (kidAt cs i)) ++ nodeAfter es cs i

theorem upTo_fromPos {t h : Nat} {n : Node} (hn : Shape t h n) (i : Nat) (b : Bool) (hi : i ≤ n.elts.length) :
    upTo n i b ++ fromPos n i b = flat n := by
  cases h with
  | zero => obtain ⟨es, rfl⟩ := shape_zero hn; simp [upTo, fromPos]
  | succ h =>
    obtain ⟨es, cs, rfl, hlen, _⟩ := shape_succ hn
    rw [node_flat_at hlen (by simpa [Node.elts] using hi)]
    cases b <;> simp [upTo, fromPos]

/-! ## the parents stack -/

/-- the elements before / after the subtree reached through the stack (top of the stack first) -/
def ctx : List (Node × Nat) → List Elt × List Elt
  | [] => ([], [])
  | (p, j) :: ps => ((ctx ps).1 ++ nodeBefore p.elts p.children j, nodeAfter p.elts p.children j ++ (ctx ps).2)

/-- `n` (of height `h`) is reached from `root` through the stack `ps` -/
def PathOk (t : Nat) (root : Node) : Nat → Node → List (Node × Nat) → Prop
  | h, n, [] => n = root ∧ Shape t h n
  | h, n, (p, j) :: ps =>
    j < p.children.length ∧ kidAt p.children j = n ∧ Shape t h n ∧ PathOk t root (h + 1) p ps

theorem pathOk_shape {t : Nat} {root : Node} {h : Nat} {n : Node} {ps : List (Node × Nat)}
    (hp : PathOk t root h n ps) : Shape t h n := by
  cases ps with
  | nil => exact hp.2
  | cons pj ps => obtain ⟨p, j⟩ := pj; exact hp.2.2.1

theorem zipper {t : Nat} {root : Node} : ∀ {ps : List (Node × Nat)} {h : Nat} {n : Node},
    PathOk t root h n ps → flat root = (ctx ps).1 ++ flat n ++ (ctx ps).2 := by
  intro ps
  induction ps with
  | nil => intro h n hp; simp [ctx, hp.1]
  | cons pj ps ih =>
    intro h n hp
    obtain ⟨p, j⟩ := pj
    obtain ⟨hj, hkid, _, hpp⟩ := hp
    have hps := pathOk_shape hpp
    obtain ⟨es, cs, rfl, hlen, _⟩ := shape_succ hps
    rw [ih hpp, node_flat_at hlen (i := j) (by simp [Node.children] at hj; omega)]
    simp only [Node.children] at hkid
    simp [ctx, Node.elts, Node.children, hkid]

/-- pushing the current internal node: the child at index `i` -/
theorem pathOk_push {t : Nat} {root : Node} {h : Nat} {es : List Elt} {cs : List Node} {ps : List (Node × Nat)}
    {i : Nat} (hp : PathOk t root (h + 1) (.node es cs) ps) (hi : i < cs.length) :
    PathOk t root h (kidAt cs i) ((.node es cs, i) :: ps) := by
  have hs := pathOk_shape hp
  obtain ⟨_, _, heq, hlen, hk⟩ := shape_succ hs
  cases heq
  refine ⟨by simpa [Node.children] using hi, by simp [Node.children], ?_, hp⟩
  have hmem : kidAt cs i ∈ cs := by
    simp only [kidAt, List.getD_eq_getElem?_getD, List.getElem?_eq_getElem hi, Option.getD_some]
    exact List.getElem_mem _
  exact (hk _ hmem).1

/-! ## stepping inside a node -/

theorem take_succ_eltAt {es : List Elt} {i : Nat} (h : i < es.length) :
    es.take (i + 1) = es.take i ++ [eltAt es i] := by
  obtain ⟨a, x, b, rfl, ha⟩ := split_at_lt es i h
  subst ha
  rw [take_at_succ, take_at, eltAt_append_cons]

theorem drop_eq_eltAt_cons {es : List Elt} {i : Nat} (h : i < es.length) :
    es.drop i = eltAt es i :: es.drop (i + 1) := by
  obtain ⟨a, x, b, rfl, ha⟩ := split_at_lt es i h
  subst ha
  rw [drop_at, drop_at_succ, eltAt_append_cons]

/-- reading element `i` of an internal node moves from "after child `i`" to "before child `i+1`" -/
theorem node_step {es : List Elt} {cs : List Node} {i : Nat} (hlen : cs.length = es.length + 1)
    (hi : i < es.length) :
    nodeAfter es cs i = eltAt es i :: (flat (kidAt cs (i + 1)) ++ nodeAfter es cs (i + 1)) ∧
    nodeBefore es cs (i + 1) = nodeBefore es cs i ++ flat (kidAt cs i) ++ [eltAt es i] := by
  obtain ⟨el, x, er, rfl, hel⟩ := split_at_lt es i hi
  obtain ⟨cl, c, rest, rfl, hcl⟩ := split_at_lt cs i (by omega)
  cases rest with
  | nil => simp at hlen; omega
  | cons c' cr =>
    have h : cl.length = el.length := by omega
    subst hel
    constructor
    · simp only [nodeAfter]
      rw [← h, drop_at_succ, h, drop_at, eltAt_append_cons, ← h, kidAt_append_cons_succ]
      have e1 : (cl ++ c :: c' :: cr).drop (cl.length + 1 + 1) = cr := by
        have := drop_at_succ (cl ++ [c]) cr c'
        simpa using this
      have e2 : (el ++ x :: er).drop (cl.length + 1) = er := by rw [h]; exact drop_at_succ _ _ _
      rw [e1, e2, RF_cons]
    · simp only [nodeBefore]
      rw [take_at_succ, take_at, ← h, take_at_succ, take_at, kidAt_append_cons, eltAt_at h.symm]
      exact LF_snoc cl c el x h

theorem nodeBefore_zero (es : List Elt) (cs : List Node) : nodeBefore es cs 0 = [] := by
  simp [nodeBefore, LF]

theorem nodeAfter_last {es : List Elt} {cs : List Node} (hlen : cs.length = es.length + 1) :
    nodeAfter es cs es.length = [] := by
  simp [nodeAfter, RF, List.drop_eq_nil_of_le, hlen]

theorem nodeBefore_last {es : List Elt} {cs : List Node} (hlen : cs.length = es.length + 1) :
    nodeBefore es cs es.length ++ flat (kidAt cs es.length) = flat (.node es cs) := by
  rw [node_flat_at hlen (Nat.le_refl _), nodeAfter_last hlen]; simp

/-! ## `_seek_least` / `_seek_greatest` -/

/-- `_seek_least` from "before child `i`" of `n` ends in a leaf at index 0, at the same position -/
theorem seekLeast_spec {t : Nat} {root : Node} : ∀ (f h : Nat) (n : Node) (i : Nat) (ps : List (Node × Nat)),
    h ≤ f → PathOk t root h n ps → i ≤ n.elts.length →
    ∃ l ps', seekLeast f n i ps = (l, (if h = 0 then i else 0), ps') ∧ PathOk t root 0 l ps' ∧
      (ctx ps').1 ++ upTo l (if h = 0 then i else 0) false = (ctx ps).1 ++ upTo n i false ∧
      fromPos l (if h = 0 then i else 0) false ++ (ctx ps').2 = fromPos n i false ++ (ctx ps).2 ∧
      ps.length ≤ ps'.length ∧ ps'.length ≤ ps.length + h := by
  intro f
  induction f with
  | zero =>
    intro h n i ps hf hp hi
    have : h = 0 := by omega
    subst this
    obtain ⟨es, rfl⟩ := shape_zero (pathOk_shape hp)
    exact ⟨.leaf es, ps, by simp [seekLeast], hp, by simp, by simp, by omega, by omega⟩
  | succ f ih =>
    intro h n i ps hf hp hi
    cases h with
    | zero =>
      obtain ⟨es, rfl⟩ := shape_zero (pathOk_shape hp)
      exact ⟨.leaf es, ps, by simp [seekLeast], hp, by simp, by simp, by omega, by omega⟩
    | succ h =>
      obtain ⟨es, cs, rfl, hlen, hk⟩ := shape_succ (pathOk_shape hp)
      simp only [Node.elts] at hi
      have hic : i < cs.length := by omega
      have hp' := pathOk_push hp hic
      obtain ⟨l, ps', h1, h2, h3, h4, h5, h6⟩ := ih h (kidAt cs i) 0 ((.node es cs, i) :: ps) (by omega) hp' (by omega)
      have hz : (if h = 0 then 0 else 0) = 0 := by split <;> rfl
      rw [hz] at h1 h3 h4
      simp only [Nat.add_one_ne_zero, if_false]
      refine ⟨l, ps', by simp [seekLeast, h1], h2, ?_, ?_, by simp at h5; omega, by simp at h6; omega⟩
      · rw [h3]
        have hs := pathOk_shape hp'
        have : upTo (kidAt cs i) 0 false = [] := by
          cases h with
          | zero => obtain ⟨ces, hce⟩ := shape_zero hs; rw [hce]; simp [upTo]
          | succ h => obtain ⟨ces, ccs, hce, _, _⟩ := shape_succ hs; rw [hce]; simp [upTo, nodeBefore_zero]
        rw [this]
        simp [ctx, Node.elts, Node.children, upTo]
      · rw [h4]
        have hs := pathOk_shape hp'
        have hfl : fromPos (kidAt cs i) 0 false = flat (kidAt cs i) := by
          have := upTo_fromPos hs 0 false (by omega)
          have hz : upTo (kidAt cs i) 0 false = [] := by
            cases h with
            | zero => obtain ⟨ces, hce⟩ := shape_zero hs; rw [hce]; simp [upTo]
            | succ h => obtain ⟨ces, ccs, hce, _, _⟩ := shape_succ hs; rw [hce]; simp [upTo, nodeBefore_zero]
          rw [hz] at this; simpa using this
        rw [hfl]
        simp [ctx, Node.elts, Node.children, fromPos]

/-- `_seek_greatest` from "after child `i`" of `n` (for a leaf: index `i`) ends in a leaf at its end (for a
leaf: index `i`), at the same position -/
theorem seekGreatest_spec {t : Nat} {root : Node} : ∀ (f h : Nat) (n : Node) (i : Nat) (ps : List (Node × Nat)),
    h ≤ f → PathOk t root h n ps → i ≤ n.elts.length →
    ∃ l ps', seekGreatest f n i ps = (l, (if h = 0 then i else l.elts.length), ps') ∧ PathOk t root 0 l ps' ∧
      (ctx ps').1 ++ upTo l (if h = 0 then i else l.elts.length) true = (ctx ps).1 ++ upTo n i true ∧
      fromPos l (if h = 0 then i else l.elts.length) true ++ (ctx ps').2 = fromPos n i true ++ (ctx ps).2 ∧
      ps.length ≤ ps'.length ∧ ps'.length ≤ ps.length + h := by
  intro f
  induction f with
  | zero =>
    intro h n i ps hf hp hi
    have : h = 0 := by omega
    subst this
    obtain ⟨es, rfl⟩ := shape_zero (pathOk_shape hp)
    exact ⟨.leaf es, ps, by simp [seekGreatest], hp, by simp, by simp, by omega, by omega⟩
  | succ f ih =>
    intro h n i ps hf hp hi
    cases h with
    | zero =>
      obtain ⟨es, rfl⟩ := shape_zero (pathOk_shape hp)
      exact ⟨.leaf es, ps, by simp [seekGreatest], hp, by simp, by simp, by omega, by omega⟩
    | succ h =>
      obtain ⟨es, cs, rfl, hlen, hk⟩ := shape_succ (pathOk_shape hp)
      simp only [Node.elts] at hi
      have hic : i < cs.length := by omega
      have hp' := pathOk_push hp hic
      have hs := pathOk_shape hp'
      obtain ⟨l, ps', h1, h2, h3, h4, h5, h6⟩ :=
        ih h (kidAt cs i) (kidAt cs i).elts.length ((.node es cs, i) :: ps) (by omega) hp' (by omega)
      -- the child taken at its end is all of the child
      have hall : upTo (kidAt cs i) (kidAt cs i).elts.length true = flat (kidAt cs i) ∧
          fromPos (kidAt cs i) (kidAt cs i).elts.length true = [] := by
        cases h with
        | zero =>
          obtain ⟨ces, hce⟩ := shape_zero hs
          rw [hce]; simp [upTo, fromPos, Node.elts]
        | succ h =>
          obtain ⟨ces, ccs, hce, hclen, _⟩ := shape_succ hs
          rw [hce]
          simp only [upTo, fromPos, Node.elts, if_true, List.nil_append]
          exact ⟨nodeBefore_last hclen, nodeAfter_last hclen⟩
      have hidx : (if h = 0 then (kidAt cs i).elts.length else l.elts.length) = l.elts.length := by
        split
        · rename_i h0
          subst h0
          obtain ⟨ces, hce⟩ := shape_zero hs
          have : seekGreatest f (kidAt cs i) (kidAt cs i).elts.length ((.node es cs, i) :: ps)
              = (kidAt cs i, (kidAt cs i).elts.length, (.node es cs, i) :: ps) := by
            rw [hce]; cases f <;> simp [seekGreatest]
          rw [this] at h1
          simp only [if_true, Prod.mk.injEq] at h1
          rw [← h1.1]
        · rfl
      rw [hidx] at h1 h3 h4
      simp only [Nat.add_one_ne_zero, if_false]
      refine ⟨l, ps', by simp [seekGreatest, h1], h2, ?_, ?_, by simp at h5; omega, by simp at h6; omega⟩
      · rw [h3, hall.1]
        simp [ctx, Node.elts, Node.children, upTo]
      · rw [h4, hall.2]
        simp [ctx, Node.elts, Node.children, fromPos]

end Model.BTree

import Model.Tokenizer
import Model.ZoneFile
/-! `dns.ttl.from_text` inverts the decimal rendering of a TTL and evaluates the BIND 8 unit form. -/
namespace Model

theorem digitsVal_decAux (f n : Nat) (acc : List Nat) (h : n < 10 ^ f) :
    digitsVal (decAux f n acc) 0 = digitsVal acc n := by
  induction f generalizing n acc with
  | zero =>
    have : n = 0 := by simpa using h
    subst this; simp [decAux]
  | succ f ih =>
    unfold decAux
    split
    · simp [digitsVal]
    · rename_i hn
      have : n / 10 < 10 ^ f := by
        have : n < 10 ^ f * 10 := by simpa [Nat.pow_succ] using h
        omega
      rw [ih (n / 10) _ this]
      simp only [digitsVal]
      congr 1
      omega

theorem digitsVal_natToDec (n : Nat) : digitsVal (natToDec n) 0 = n := by
  unfold natToDec
  rw [digitsVal_decAux (n + 1) n [] (Nat.lt_of_lt_of_le (Nat.lt_pow_self (by decide : 1 < 10)) (Nat.pow_le_pow_right (by decide) (Nat.le_succ n)))]
  rfl

theorem decAux_all (f n : Nat) (acc : List Nat) (h : acc.all isDecimal = true) :
    (decAux f n acc).all isDecimal = true := by
  induction f generalizing n acc with
  | zero => simpa [decAux] using h
  | succ f ih =>
    unfold decAux
    split
    · rename_i hn
      simp only [List.all_cons, h, Bool.and_true]
      simp [isDecimal]; omega
    · apply ih
      simp only [List.all_cons, h, Bool.and_true]
      simp [isDecimal]; omega

theorem decAux_ne_nil (f n : Nat) (acc : List Nat) (h : acc ≠ []) : decAux f n acc ≠ [] := by
  induction f generalizing n acc with
  | zero => simpa [decAux] using h
  | succ f ih =>
    unfold decAux
    split
    · simp
    · exact ih _ _ (by simp)

theorem natToDec_all (n : Nat) : (natToDec n).all isDecimal = true := decAux_all _ _ _ rfl

theorem natToDec_ne_nil (n : Nat) : natToDec n ≠ [] := by
  unfold natToDec decAux
  split
  · simp
  · exact decAux_ne_nil _ _ _ (by simp)

/-- the unit loop reads a run of decimal digits into `current` -/
theorem ttlLoop_digits (ds rest : List Nat) (total cur : Nat) (nd : Bool) (h : ds.all isDecimal = true) (hne : ds ≠ []) :
    ttlLoop (ds ++ rest) total cur nd = ttlLoop rest total (digitsVal ds cur) false := by
  induction ds generalizing cur nd with
  | nil => exact absurd rfl hne
  | cons d ds ih =>
    simp only [List.all_cons, Bool.and_eq_true] at h
    simp only [List.cons_append, ttlLoop, h.1, if_true, digitsVal]
    cases ds with
    | nil => simp [digitsVal]
    | cons d' ds' => exact ih _ _ h.2 (by simp)

/-- a TTL unit letter and its multiplier -/
def unitMult (u : Nat) : Option Nat :=
  if lowerAscii u = 119 then some 604800 else if lowerAscii u = 100 then some 86400
  else if lowerAscii u = 104 then some 3600 else if lowerAscii u = 109 then some 60
  else if lowerAscii u = 115 then some 1 else none

/-- the BIND 8 rendering of a list of `(count, unit letter)` groups, and its value -/
def unitsText : List (Nat × Nat) → List Nat
  | [] => []
  | (v, u) :: rest => natToDec v ++ u :: unitsText rest

def unitsValue : List (Nat × Nat) → Nat
  | [] => 0
  | (v, u) :: rest => v * (unitMult u).getD 0 + unitsValue rest

theorem unitMult_cases (u m : Nat) (h : unitMult u = some m) :
    (lowerAscii u = 119 ∧ m = 604800) ∨ (lowerAscii u = 100 ∧ m = 86400) ∨ (lowerAscii u = 104 ∧ m = 3600) ∨
    (lowerAscii u = 109 ∧ m = 60) ∨ (lowerAscii u = 115 ∧ m = 1) := by
  unfold unitMult at h
  split at h
  · left; exact ⟨by assumption, by cases h; rfl⟩
  · split at h
    · right; left; exact ⟨by assumption, by cases h; rfl⟩
    · split at h
      · right; right; left; exact ⟨by assumption, by cases h; rfl⟩
      · split at h
        · right; right; right; left; exact ⟨by assumption, by cases h; rfl⟩
        · split at h
          · right; right; right; right; exact ⟨by assumption, by cases h; rfl⟩
          · cases h

theorem unitMult_not_decimal (u m : Nat) (h : unitMult u = some m) : isDecimal u = false := by
  have hc := unitMult_cases u m h
  simp only [isDecimal, decide_eq_false_iff_not]
  intro hd
  have : lowerAscii u = u := by unfold lowerAscii; split <;> omega
  rw [this] at hc
  omega

theorem ttlLoop_units (gs : List (Nat × Nat)) (total : Nat) (hu : ∀ g ∈ gs, (unitMult g.2).isSome) :
    ttlLoop (unitsText gs) total 0 true = .ok (total + unitsValue gs) := by
  induction gs generalizing total with
  | nil => simp [unitsText, ttlLoop, unitsValue]
  | cons g rest ih =>
    obtain ⟨v, u⟩ := g
    have hsome := hu (v, u) (by simp)
    obtain ⟨m, hm⟩ := Option.isSome_iff_exists.mp hsome
    simp only at hm
    have hnd := unitMult_not_decimal u m hm
    simp only [unitsText]
    rw [ttlLoop_digits (natToDec v) _ total 0 true (natToDec_all v) (natToDec_ne_nil v), digitsVal_natToDec]
    have hrest := ih (total + v * m) (fun g hg => hu g (by simp [hg]))
    have hval : total + unitsValue ((v, u) :: rest) = total + v * m + unitsValue rest := by
      simp only [unitsValue, hm, Option.getD_some]; omega
    rw [hval, ← hrest]
    simp only [ttlLoop, hnd, Bool.false_eq_true, if_false]
    rcases unitMult_cases u m hm with ⟨hc, rfl⟩ | ⟨hc, rfl⟩ | ⟨hc, rfl⟩ | ⟨hc, rfl⟩ | ⟨hc, rfl⟩ <;> simp [hc]

theorem unitsText_not_all_decimal (g : Nat × Nat) (rest : List (Nat × Nat)) (h : (unitMult g.2).isSome) :
    (unitsText (g :: rest)).all isDecimal = false := by
  obtain ⟨v, u⟩ := g
  obtain ⟨m, hm⟩ := Option.isSome_iff_exists.mp h
  have hnd := unitMult_not_decimal u m hm
  simp only [unitsText, List.all_append, List.all_cons, hnd, Bool.false_and, Bool.and_false]

end Model

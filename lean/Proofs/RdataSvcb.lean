import Model.RdataSchema
import Model.RdataIrregular
import Model.RdataTable
import Proofs.RdataBytes
import Proofs.RdataCodec
import Proofs.RdataSound
import Proofs.RdataLoc
/-! SVCB / HTTPS (C02): the object-level view `svcbPost` (ascending keys, a repeated key keeps the last value,
AliasMode has no parameters, mandatory keys present, no-default-alpn needs alpn) is a fixed point of itself. -/
namespace Model

def keyOf (p : Val) : Nat := p.fst.toNat

/-- keys strictly increasing, all `≥ lo` -/
def strictFrom : Nat → List Val → Bool
  | _, [] => true
  | lo, p :: ps => decide (lo ≤ keyOf p) && strictFrom (keyOf p + 1) ps

theorem dedupLast_sub : ∀ (ps : List Val), ∀ p ∈ dedupLast ps, p ∈ ps := by
  intro ps
  induction ps with
  | nil => intro p h; simp [dedupLast] at h
  | cons a as ih =>
    intro p h
    cases as with
    | nil => simpa [dedupLast] using h
    | cons b bs =>
      simp only [dedupLast] at h
      split at h
      · exact List.mem_cons_of_mem _ (ih p h)
      · rcases List.mem_cons.1 h with rfl | h'
        · simp
        · exact List.mem_cons_of_mem _ (ih p h')

theorem dedupLast_head_ge (lo : Nat) : ∀ ps, nonDecFrom lo ps = true → ∀ p ∈ dedupLast ps, lo ≤ keyOf p := by
  intro ps h p hp
  have hp' := dedupLast_sub ps p hp
  clear hp
  induction ps generalizing lo with
  | nil => simp at hp'
  | cons a as ih =>
    simp only [nonDecFrom, Bool.and_eq_true, decide_eq_true_eq] at h
    rcases List.mem_cons.1 hp' with rfl | h'
    · exact h.1
    · have := ih (a.fst.toNat) h.2 h'
      unfold keyOf at *; omega

theorem strictFrom_cons (lo : Nat) (p : Val) (ps : List Val) :
    strictFrom lo (p :: ps) = true ↔ lo ≤ p.fst.toNat ∧ strictFrom (p.fst.toNat + 1) ps = true := by
  show (decide (lo ≤ keyOf p) && strictFrom (keyOf p + 1) ps) = true ↔ _
  rw [Bool.and_eq_true]
  constructor
  · intro h; exact ⟨of_decide_eq_true h.1, h.2⟩
  · intro h; exact ⟨decide_eq_true h.1, h.2⟩

theorem nonDecFrom_cons (lo : Nat) (p : Val) (ps : List Val) :
    nonDecFrom lo (p :: ps) = true ↔ lo ≤ p.fst.toNat ∧ nonDecFrom p.fst.toNat ps = true := by
  simp [nonDecFrom]

theorem dedupLast_strict : ∀ (ps : List Val) (lo : Nat), nonDecFrom lo ps = true → strictFrom lo (dedupLast ps) = true := by
  intro ps
  induction ps with
  | nil => intro lo _; simp [dedupLast, strictFrom]
  | cons a as ih =>
    intro lo h
    rw [nonDecFrom_cons] at h
    cases as with
    | nil => simp [dedupLast, strictFrom, keyOf, h.1]
    | cons b bs =>
      simp only [dedupLast]
      have h2 := h.2
      rw [nonDecFrom_cons] at h2
      split
      · rename_i heq
        exact ih lo ((nonDecFrom_cons _ _ _).2 ⟨by omega, h2.2⟩)
      · rename_i hne
        rw [strictFrom_cons]
        exact ⟨h.1, ih _ ((nonDecFrom_cons _ _ _).2 ⟨by omega, h2.2⟩)⟩

theorem strictFrom_mono : ∀ (qs : List Val) (x y : Nat), x ≤ y → strictFrom y qs = true → strictFrom x qs = true := by
  intro qs x y hxy hq
  cases qs with
  | nil => simp [strictFrom]
  | cons q qs =>
    rw [strictFrom_cons] at hq ⊢
    exact ⟨by omega, hq.2⟩

theorem strict_nonDec : ∀ (ps : List Val) (lo : Nat), strictFrom lo ps = true → nonDecFrom lo ps = true := by
  intro ps
  induction ps with
  | nil => intro lo _; simp [nonDecFrom]
  | cons a as ih =>
    intro lo h
    rw [strictFrom_cons] at h
    rw [nonDecFrom_cons]
    exact ⟨h.1, ih _ (strictFrom_mono as _ _ (Nat.le_succ _) h.2)⟩

theorem strict_dedup : ∀ (ps : List Val) (lo : Nat), strictFrom lo ps = true → dedupLast ps = ps := by
  intro ps
  induction ps with
  | nil => intro _ _; simp [dedupLast]
  | cons a as ih =>
    intro lo h
    cases as with
    | nil => simp [dedupLast]
    | cons b bs =>
      rw [strictFrom_cons] at h
      have h2 := h.2
      rw [strictFrom_cons] at h2
      simp only [dedupLast]
      have hne : ¬ a.fst.toNat = b.fst.toNat := by omega
      simp only [hne, if_false]
      congr 1
      exact ih (a.fst.toNat + 1) h.2

theorem svcb_shape (o : Option Name) (r : Val) (h : valid svcbSchema o r = true) :
    ∃ prio t raw, r = .pair (.nat prio) (.pair (.name t) (.list raw)) ∧
      valid u16 o (.nat prio) = true ∧ valid nm o (.name t) = true ∧
      ∀ x ∈ raw, valid (.bind u16 svcbSel 8 (fun i => .sub 2 (svcbBody i))) o x = true := by
  simp only [svcbSchema, Schema.seq, valid, validWith] at h
  cases r <;> simp [validWith] at h
  rename_i a b
  obtain ⟨h1, h2⟩ := h
  cases a <;> simp [validWith] at h1
  cases b <;> simp [validWith] at h2
  rename_i prio c d
  obtain ⟨h2, h3⟩ := h2
  cases c <;> simp [validWith] at h2
  cases d <;> simp [validWith] at h3
  rename_i t raw
  refine ⟨prio, t, raw, rfl, ?_, ?_, ?_⟩
  · simpa [valid, validWith, u16] using h1
  · simpa [valid, validWith, nm] using h2
  · intro x hx; simpa [valid] using h3 x hx

theorem svcbPostCore_idem (prio : Nat) (raw ps : List Val) (h : svcbPostCore prio raw = some ps) :
    svcbPostCore prio ps = some ps ∧ ∀ p ∈ ps, p ∈ raw := by
  unfold svcbPostCore at h
  split at h
  · simp at h
  · rename_i hA
    split at h
    · simp at h
    · rename_i hB
      split at h
      · rename_i hC
        simp at h; subst h
        have hnd : nonDecFrom 0 raw = true := by simpa using hB
        have hstrict := dedupLast_strict raw 0 hnd
        have hdd := strict_dedup _ 0 hstrict
        have hnd2 := strict_nonDec _ 0 hstrict
        refine ⟨?_, dedupLast_sub raw⟩
        have hA' : ¬(prio = 0 ∧ (!(dedupLast raw).isEmpty) = true) := by
          intro hh
          apply hA
          refine ⟨hh.1, ?_⟩
          cases raw with
          | nil => simp [dedupLast] at hh
          | cons x xs => simp
        unfold svcbPostCore
        simp only [hA', if_false, hnd2, hdd, Bool.not_true, Bool.false_eq_true, hC, if_true]
      · simp at h

/-- the object-level view of a valid raw SVCB record is itself a valid raw record and its own view -/
theorem svcb_post_post (o : Option Name) (r w : Val) (h : valid svcbSchema o r = true) (hw : svcbPost r = some w) :
    valid svcbSchema o w = true ∧ svcbPost w = some w := by
  obtain ⟨prio, t, raw, rfl, h1, h2, h3⟩ := svcb_shape o r h
  simp only [svcbPost, Val.fst, Val.snd, Val.toNat, Val.toList, Option.map_eq_some_iff] at hw
  obtain ⟨ps, hps, rfl⟩ := hw
  obtain ⟨hid, hsub⟩ := svcbPostCore_idem prio raw ps hps
  constructor
  · simp only [svcbSchema, Schema.seq, valid, validWith, Bool.and_eq_true, List.all_eq_true]
    refine ⟨by simpa [valid, validWith, u16] using h1, by simpa [valid, validWith, nm] using h2, ?_⟩
    intro x hx
    simpa [valid] using h3 x (hsub x hx)
  · simp only [svcbPost, Val.fst, Val.snd, Val.toNat, Val.toList, hid, Option.map_some]

end Model

import Model.ZoneFile
import Proofs.TokenizerLayout
import Proofs.TokenizerTTL
import Proofs.ZoneFileHeader
import Proofs.ZoneFileInterp
/-!
One record line in the writer's canonical shape `owner SP ttl SP class SP type <rdata> NL` is read back as
exactly one record.  RDATA text is abstract: all that is asked of it is that `dns.rdata.from_text`, started
right after the type token, returns the rdata and stops after the end of the line (`RdataReads`) — the C05
interface.
-/
namespace Model

/-- the first `get(want_leading=True, want_comment=True)` of a line that starts with an identifier -/
theorem get_first_ident (w T : List Nat) (hw : identOK w = true) (hne : w ≠ []) (hT : startsDelim T) :
    (after 0 false (w ++ T)).get true true = .ok (identToken w, after 0 false T) := by
  obtain ⟨dch, rest, rfl, hd⟩ := hT
  cases w with
  | nil => exact absurd rfl hne
  | cons c r =>
    have hnw := identOK_head_not_ws c r hw 0
    have hnw' : ¬ (c = 32 ∨ c = 9) := by
      intro h; apply hnw; rcases h with h | h
      · exact Or.inl h
      · exact Or.inr (Or.inl h)
    unfold TState.get
    simp only [after, Bool.false_eq_true, if_false]
    have hs : skipWs (decide (0 > 0)) (c :: r ++ dch :: rest) = (0, c :: r ++ dch :: rest) := by
      simp only [List.cons_append, skipWs]
      simp [hnw']
    simp only [hs]
    simp only [gt_iff_lt, Nat.lt_irrefl, and_false, if_false]
    have := getLoop_ident true (c :: r) { ml := 0, q := false } dch rest hw rfl rfl rfl hd (by simp)
    simp only [List.nil_append, List.cons_append] at this ⊢
    rw [this]
    simp [identToken]

/-- `get(want_leading=True)` hands back an ungotten identifier -/
theorem get_leading_ungotten (d : Nat) (pq : Bool) (T w : List Nat) :
    ({ after d pq T with ungotten := some (identToken w) } : TState).get (wantLeading := true) =
      .ok (identToken w, after d pq T) := by
  simp [TState.get, identToken, after]

/-- what the RDATA text of a record must satisfy (the C05 interface): parsed right after the type token, with
the rest of the file behind it, `dns.rdata.from_text` yields the rdata and its comment and consumes the line -/
def RdataReads (ty : Nat) (rdText : List Nat) (rd : Rdata) (comment : Option (List Nat))
    (co : Option Name) (rel : Bool) (zo : Option Name) (gfix : Bool) : Prop :=
  startsDelim rdText ∧
  ∀ rest, rdataFromText ty (after 0 false (rdText ++ rest)) co rel zo gfix = .ok (rd, comment, after 0 false rest)

/-- owner text, TTL text, class text, type text of a canonical line and the side conditions under which they are
the tokens the reader sees -/
structure LineOK (ow ttlT clsT tyT : List Nat) (co zo n : Name) (ttl ty : Nat) : Prop where
  ow_ok : identOK ow = true
  ow_ne : ow ≠ []
  ow_nodollar : ow.head? ≠ some 36
  ow_name : (identToken ow).asName (some co) false none = .ok n
  in_zone : isSubdomain n zo = true
  ttl_ok : identOK ttlT = true
  ttl_ne : ttlT ≠ []
  ttl_val : ttlOf ttlT = some ttl
  cls_ok : identOK clsT = true
  cls_ne : clsT ≠ []
  cls_val : classFromText clsT = some 1
  ty_ok : identOK tyT = true
  ty_ne : tyT ≠ []
  ty_val : typeFromText tyT = some ty

/-- the parser state after the record: the SOA-minimum default is picked up when no default is known yet -/
def afterRecord (r : PState) (n : Name) (ttl ty : Nat) (rd : Rdata) (rest : List Nat) : PState :=
  let r1 : PState := { r with tok := after 0 false rest, lastName := some n, lastTTL := ttl, lastTTLKnown := true }
  if !r1.defaultTTLKnown ∧ ty = tSOA then
    match rd with
    | .soa _ _ _ _ _ _ minimum => { r1 with defaultTTL := minimum, defaultTTLKnown := true }
    | _ => r1
  else r1

/-- **one canonical record line is read as one record** -/
theorem lineStep_record (r : PState) (ow ttlT clsT tyT rdText rest : List Nat) (co zo n m : Name) (ttl ty : Nat)
    (rd : Rdata) (comment : Option (List Nat))
    (hco : r.currentOrigin = some co) (hzo : r.zoneOrigin = some zo)
    (htok : r.tok = after 0 false (ow ++ (32 :: (ttlT ++ (32 :: (clsT ++ (32 :: (tyT ++ (rdText ++ rest)))))))))
    (hl : LineOK ow ttlT clsT tyT co zo n ttl ty)
    (hm : ownerInZone r.relativize n zo = .ok m)
    (hrd : RdataReads ty rdText rd comment (some co) r.relativize (some zo) r.gfix) :
    lineStep r = .ok (.entry ⟨m, ttl, ty, ⟨rd, comment⟩⟩, afterRecord r n ttl ty rd rest) := by
  have sp1 : sepDepth 0 [SepItem.sp] = some 0 := rfl
  have hT1 : startsDelim (32 :: (ttlT ++ (32 :: (clsT ++ (32 :: (tyT ++ (rdText ++ rest))))))) :=
    ⟨32, _, rfl, by decide⟩
  -- the first token of the line
  have hg := get_first_ident ow _ hl.ow_ok hl.ow_ne hT1
  unfold lineStep
  simp only [bind, Except.bind, liftT, htok, hg]
  have hne1 : (identToken ow).ttype ≠ .eof := by simp [identToken]
  have hne2 : (identToken ow).ttype ≠ .eol := by simp [identToken]
  have hne3 : (identToken ow).ttype ≠ .comment := by simp [identToken]
  have hval : (identToken ow).value.head? ≠ some 36 := hl.ow_nodollar
  simp only [hne1, hne2, hne3, hval, if_false, unget_after]
  -- `_rr_line`: owner
  have hown : rrOwner { r with tok := { after 0 false (32 :: (ttlT ++ (32 :: (clsT ++ (32 :: (tyT ++ (rdText ++ rest))))))) with
        ungotten := some (identToken ow) } } =
      .ok (some m, { r with tok := after 0 false (32 :: (ttlT ++ (32 :: (clsT ++ (32 :: (tyT ++ (rdText ++ rest))))))),
                            lastName := some n }) := by
    have hgl := get_leading_ungotten 0 false (32 :: (ttlT ++ (32 :: (clsT ++ (32 :: (tyT ++ (rdText ++ rest))))))) ow
    rw [rrOwner_explicit
      { r with tok := { after 0 false (32 :: (ttlT ++ (32 :: (clsT ++ (32 :: (tyT ++ (rdText ++ rest))))))) with
        ungotten := some (identToken ow) } }
      (identToken ow) (after 0 false _) co zo n hco hzo hgl
      (by simp [identToken]) hl.ow_name hl.in_zone]
    simp only [hm, Except.map]
  unfold rrParse
  simp only [bind, Except.bind, hown]
  -- header
  have hfirst : getIdent (after 0 false (32 :: (ttlT ++ (32 :: (clsT ++ (32 :: (tyT ++ (rdText ++ rest)))))))) =
      .ok (identToken ttlT, after 0 false (renderSep [SepItem.sp] ++ (clsT ++ (renderSep [SepItem.sp] ++ (tyT ++ (rdText ++ rest)))))) := by
    have := getIdent_word [SepItem.sp] ttlT (32 :: (clsT ++ (32 :: (tyT ++ (rdText ++ rest))))) 0 0 false sp1 hl.ttl_ok hl.ttl_ne
      ⟨32, _, rfl, by decide⟩
    simpa [renderSep, SepItem.render] using this
  have hT : startsDelim (rdText ++ rest) := by
    obtain ⟨c, cs, h1, h2⟩ := hrd.1
    exact ⟨c, cs ++ rest, by simp [h1], h2⟩
  have hh := rrHeader_ttl_class
    { r with tok := after 0 false (32 :: (ttlT ++ (32 :: (clsT ++ (32 :: (tyT ++ (rdText ++ rest))))))), lastName := some n }
    [SepItem.sp] [SepItem.sp] ttlT clsT tyT (rdText ++ rest) 0 0 0 ttl ty hfirst sp1 sp1 (by simp) hT
    hl.cls_ok hl.cls_ne hl.ty_ok hl.ty_ne hl.ttl_val hl.cls_val hl.ty_val
  simp only [hh]
  -- rdata
  unfold rrFinish
  simp only [bind, Except.bind, hco, hzo, hrd.2 rest]
  unfold afterRecord
  by_cases hc : r.defaultTTLKnown = false ∧ ty = tSOA
  · cases rd <;> simp [hc, pure, Except.pure, hco, hzo]
  · simp [hc, pure, Except.pure, hco, hzo]

/-! ## a whole file of canonical record lines -/

theorem afterRecord_fields (r : PState) (n : Name) (ttl ty : Nat) (rd : Rdata) (rest : List Nat) :
    (afterRecord r n ttl ty rd rest).tok = after 0 false rest ∧
    (afterRecord r n ttl ty rd rest).currentOrigin = r.currentOrigin ∧
    (afterRecord r n ttl ty rd rest).zoneOrigin = r.zoneOrigin ∧
    (afterRecord r n ttl ty rd rest).relativize = r.relativize ∧
    (afterRecord r n ttl ty rd rest).gfix = r.gfix := by
  unfold afterRecord
  simp only
  split
  · cases rd <;> simp
  · simp

/-- a record line as the writer prints it; `rdText` starts at the separator after the type and ends with the newline -/
structure RecLine where
  ow : List Nat
  ttlT : List Nat
  clsT : List Nat
  tyT : List Nat
  rdText : List Nat
  n : Name          -- absolute owner
  m : Name          -- owner as stored in the zone
  ttl : Nat
  ty : Nat
  rd : Rdata
  comment : Option (List Nat)

def RecLine.text (l : RecLine) : List Nat :=
  l.ow ++ (32 :: (l.ttlT ++ (32 :: (l.clsT ++ (32 :: (l.tyT ++ l.rdText))))))

def RecLine.entry (l : RecLine) : Entry := ⟨l.m, l.ttl, l.ty, ⟨l.rd, l.comment⟩⟩

def linesText : List RecLine → List Nat
  | [] => []
  | l :: rest => l.text ++ linesText rest

/-- side conditions of one line under origin `zo` (no `$ORIGIN` change: current origin = zone origin) -/
def RecLine.Good (l : RecLine) (zo : Name) (rel gfix : Bool) : Prop :=
  LineOK l.ow l.ttlT l.clsT l.tyT zo zo l.n l.ttl l.ty ∧
  ownerInZone rel l.n zo = .ok l.m ∧
  RdataReads l.ty l.rdText l.rd l.comment (some zo) rel (some zo) gfix

/-- the parser state after each line, and the trace of records -/
def traceOfLines : List RecLine → PState → Trace
  | [], r => .done r
  | l :: rest, r =>
    let r' := afterRecord r l.n l.ttl l.ty l.rd (linesText rest)
    .entry r'.effOrigin l.entry (traceOfLines rest r')

theorem afterRecord_saved (r : PState) (n : Name) (ttl ty : Nat) (rd : Rdata) (rest : List Nat) :
    (afterRecord r n ttl ty rd rest).saved = r.saved := by
  unfold afterRecord
  simp only
  split
  · cases rd <;> simp
  · simp

/-- the end of the top file (no `$INCLUDE` pending) -/
theorem lineStep_eof (r : PState) (h : r.tok = after 0 false []) (hsv : r.saved = []) : lineStep r = .ok (.eof, r) := by
  unfold lineStep
  simp [h, hsv, after, TState.get, skipWs, getLoop, stepEof, finishTok, liftT, bind, Except.bind, pure, Except.pure]

/-- **the parser's trace of a file of canonical record lines is the list of their records** -/
theorem parseTrace_lines (ls : List RecLine) (r : PState) (zo : Name) (fuel : Nat) (hf : ls.length < fuel)
    (hco : r.currentOrigin = some zo) (hzo : r.zoneOrigin = some zo)
    (htok : r.tok = after 0 false (linesText ls)) (hsv : r.saved = [])
    (hg : ∀ l ∈ ls, l.Good zo r.relativize r.gfix) :
    parseTrace fuel r = traceOfLines ls r := by
  induction ls generalizing r fuel with
  | nil =>
    cases fuel with
    | zero => simp at hf
    | succ f =>
      simp only [parseTrace, traceOfLines]
      rw [lineStep_eof r (by simpa [linesText] using htok) hsv]
  | cons l rest ih =>
    cases fuel with
    | zero => simp at hf
    | succ f =>
      obtain ⟨h1, h2, h3⟩ := hg l (by simp)
      have hstep := lineStep_record r l.ow l.ttlT l.clsT l.tyT l.rdText (linesText rest) zo zo l.n l.m l.ttl l.ty
        l.rd l.comment hco hzo (by simpa [linesText, RecLine.text, List.append_assoc] using htok) h1 h2 h3
      simp only [parseTrace, traceOfLines, hstep, RecLine.entry]
      obtain ⟨f1, f2, f3, f4, f5⟩ := afterRecord_fields r l.n l.ttl l.ty l.rd (linesText rest)
      rw [ih (afterRecord r l.n l.ttl l.ty l.rd (linesText rest)) f (by simpa using hf) (f2 ▸ hco) (f3 ▸ hzo) f1
        (by rw [afterRecord_saved]; exact hsv) (by rw [f4, f5]; exact fun l' hl' => hg l' (by simp [hl']))]

end Model

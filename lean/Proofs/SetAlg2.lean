import Proofs.SetAlg
import Proofs.NameOrder
import Model.Rdataset
/-!
Helper lemmas for C07, part 2: record value semantics (`Rdata.__eq__/__hash__/_cmp`) and `Rdataset`
(`add` refusal rules, singleton replacement, TTL minimisation over histories, refinement of the
overridden update methods to the `Set` algebra).
-/
namespace Model
namespace RdsProofs
open SetAlg

/-! ## records -/

theorem rdEq_iff (a b : Rd) :
    rdEq a b = true ↔ a.cls = b.cls ∧ a.typ = b.typ ∧ a.rel = b.rel ∧ a.dig = b.dig := by
  unfold rdEq
  by_cases h1 : a.cls = b.cls <;> by_cases h2 : a.typ = b.typ <;> by_cases h3 : a.rel = b.rel <;>
    simp [h1, h2, h3]

theorem rdEq_iff_eq (a b : Rd) : rdEq a b = true ↔ a = b := by
  rw [rdEq_iff]
  cases a; cases b
  simp

theorem digCmp_lt (x y : Bytes) : digCmp x y < 0 ↔ x < y := by
  unfold digCmp
  have hr := NameOrder.cmpBytes_range x y
  have hlt := NameOrder.cmpBytes_lt x y
  have heq := NameOrder.cmpBytes_eq x y
  by_cases e : x = y
  · subst e
    have : ¬ x < x := List.lt_irrefl _
    simp [this]
  · simp only [e, if_false]
    split
    · constructor
      · intro h0; omega
      · intro h1; have := hlt.2 h1; omega
    · constructor
      · intro _
        apply hlt.1
        rcases hr with r | r | r
        · omega
        · exact absurd (heq.1 r) e
        · omega
      · intro _; omega

theorem digCmp_eq (x y : Bytes) : digCmp x y = 0 ↔ x = y := by
  unfold digCmp
  by_cases e : x = y
  · simp [e]
  · simp only [e, if_false, iff_false]
    split <;> omega

theorem digCmp_gt (x y : Bytes) : digCmp x y > 0 ↔ y < x := by
  unfold digCmp
  have hr := NameOrder.cmpBytes_range x y
  have hgt := NameOrder.cmpBytes_gt x y
  by_cases e : x = y
  · subst e
    have : ¬ x < x := List.lt_irrefl _
    simp [this]
  · simp only [e, if_false]
    split
    · rename_i hc
      constructor
      · intro _; exact hgt.1 hc
      · intro _; omega
    · rename_i hc
      constructor
      · intro h0; omega
      · intro h1; exact absurd (hgt.2 h1) hc

/-- specification of record order: relative records first, then octet order of the canonical encoding -/
def rdLt (a b : Rd) : Prop := (a.rel = true ∧ b.rel = false) ∨ (a.rel = b.rel ∧ a.dig < b.dig)

theorem rdCmp_lt (a b : Rd) : rdCmp a b < 0 ↔ rdLt a b := by
  unfold rdCmp rdLt
  have := digCmp_lt a.dig b.dig
  cases ha : a.rel <;> cases hb : b.rel <;> simp [this]

theorem rdCmp_eq (a b : Rd) : rdCmp a b = 0 ↔ a.rel = b.rel ∧ a.dig = b.dig := by
  unfold rdCmp
  have := digCmp_eq a.dig b.dig
  cases ha : a.rel <;> cases hb : b.rel <;> simp [this]

theorem rdCmp_gt (a b : Rd) : rdCmp a b > 0 ↔ rdLt b a := by
  unfold rdCmp rdLt
  have := digCmp_gt a.dig b.dig
  cases ha : a.rel <;> cases hb : b.rel <;> simp [this]

theorem rdLt_irrefl (a : Rd) : ¬ rdLt a a := by
  unfold rdLt
  rintro (⟨p, q⟩ | ⟨_, q⟩)
  · rw [p] at q; cases q
  · exact List.lt_irrefl _ q

theorem rdLt_trans {a b c : Rd} (h1 : rdLt a b) (h2 : rdLt b c) : rdLt a c := by
  unfold rdLt at *
  rcases h1 with ⟨p, q⟩ | ⟨p, q⟩ <;> rcases h2 with ⟨p', q'⟩ | ⟨p', q'⟩
  · rw [q] at p'; cases p'
  · left; exact ⟨p, p' ▸ q⟩
  · left; exact ⟨p ▸ p', q'⟩
  · right; exact ⟨p.trans p', List.lt_trans q q'⟩

/-! ## Rdataset.add, step by step -/

theorem updateTtl_fields (s : Rds) (t : Nat) : (updateTtl s t).items = s.items ∧
    (updateTtl s t).cls = s.cls ∧ (updateTtl s t).typ = s.typ ∧ (updateTtl s t).covers = s.covers := by
  unfold updateTtl
  split
  · simp
  · split <;> simp

theorem updateTtl_ttl (s : Rds) (t : Nat) :
    (updateTtl s t).ttl = if s.items = [] then t else min t s.ttl := by
  unfold updateTtl
  by_cases h : s.items = []
  · simp [h]
  · have : s.items.length ≠ 0 := fun e => h (List.length_eq_zero_iff.1 e)
    simp only [this, h, if_false]
    split
    · simp only; omega
    · omega

theorem mergeTtl_fields (s : Rds) (ttl : Option Nat) : (mergeTtl s ttl).items = s.items ∧
    (mergeTtl s ttl).cls = s.cls ∧ (mergeTtl s ttl).typ = s.typ ∧ (mergeTtl s ttl).covers = s.covers := by
  cases ttl with
  | none => exact ⟨rfl, rfl, rfl, rfl⟩
  | some t => exact updateTtl_fields s t

theorem coversStep_fields (s : Rds) (rd : Rd) : (coversStep s rd).1.items = s.items ∧
    (coversStep s rd).1.cls = s.cls ∧ (coversStep s rd).1.typ = s.typ ∧ (coversStep s rd).1.ttl = s.ttl := by
  unfold coversStep
  split
  · split
    · simp
    · split <;> simp
  · simp

theorem insertStep_fields (sing : List Nat) (s : Rds) (rd : Rd) :
    (insertStep sing s rd).cls = s.cls ∧ (insertStep sing s rd).typ = s.typ ∧
    (insertStep sing s rd).covers = s.covers ∧ (insertStep sing s rd).ttl = s.ttl ∧
    (insertStep sing s rd).items =
      (if rd.typ ∈ sing ∧ s.items.length > 0 then [rd] else SetAlg.add s.items rd) := by
  unfold insertStep
  by_cases h : rd.typ ∈ sing ∧ s.items.length > 0
  · simp [h, SetAlg.add]
  · simp [h]

/-- a record of another class or type is refused and nothing changes -/
theorem rdsAdd_incompatible (sing : List Nat) (s : Rds) (rd : Rd) (ttl : Option Nat)
    (h : s.cls ≠ rd.cls ∨ s.typ ≠ rd.typ) : rdsAdd sing s rd ttl = (s, some .incompatibleTypes) := by
  unfold rdsAdd
  simp [h]

/-- a signature covering another type is refused; records and `covers` are unchanged -/
theorem rdsAdd_differingCovers (sing : List Nat) (s : Rds) (rd : Rd) (ttl : Option Nat)
    (hc : s.cls = rd.cls) (ht : s.typ = rd.typ) (hsig : s.typ = 46 ∨ s.typ = 24)
    (hne : ¬ (s.items = [] ∧ s.covers = 0)) (hcov : s.covers ≠ rd.covers) :
    (rdsAdd sing s rd ttl).2 = some .differingCovers ∧ (rdsAdd sing s rd ttl).1.items = s.items ∧
      (rdsAdd sing s rd ttl).1.covers = s.covers := by
  unfold rdsAdd
  have h0 : ¬ (s.cls ≠ rd.cls ∨ s.typ ≠ rd.typ) := by simp [hc, ht]
  simp only [h0, if_false]
  obtain ⟨e1, _, e3, e4⟩ := mergeTtl_fields s ttl
  have hcs : coversStep (mergeTtl s ttl) rd = (mergeTtl s ttl, some .differingCovers) := by
    unfold coversStep
    have hl : ¬ ((mergeTtl s ttl).items.length = 0 ∧ (mergeTtl s ttl).covers = 0) := by
      rw [e1, e4]; rintro ⟨a, b⟩; exact hne ⟨List.length_eq_zero_iff.1 a, b⟩
    have hsig' : (mergeTtl s ttl).typ = 46 ∨ (mergeTtl s ttl).typ = 24 := by rw [e3]; exact hsig
    have hcov' : (mergeTtl s ttl).covers ≠ rd.covers := by rw [e4]; exact hcov
    rw [if_pos hsig', if_neg hl, if_pos hcov']
  rw [hcs]
  exact ⟨rfl, e1, e4⟩

/-- a successful `add` to a set whose type is not SIG/RRSIG -/
theorem rdsAdd_ok (sing : List Nat) (s : Rds) (rd : Rd) (ttl : Option Nat)
    (hc : s.cls = rd.cls) (ht : s.typ = rd.typ) (hns : ¬ (s.typ = 46 ∨ s.typ = 24)) :
    rdsAdd sing s rd ttl = (insertStep sing (mergeTtl s ttl) rd, none) := by
  unfold rdsAdd
  have h0 : ¬ (s.cls ≠ rd.cls ∨ s.typ ≠ rd.typ) := by simp [hc, ht]
  simp only [h0, if_false]
  have hcs : coversStep (mergeTtl s ttl) rd = (mergeTtl s ttl, none) := by
    unfold coversStep
    have : ¬ ((mergeTtl s ttl).typ = 46 ∨ (mergeTtl s ttl).typ = 24) := by
      rw [(mergeTtl_fields s ttl).2.2.1]; exact hns
    simp [this]
  rw [hcs]

/-- whatever the outcome, `add` leaves class and type alone, and its TTL is the merged one (or untouched) -/
theorem rdsAdd_fields (sing : List Nat) (s : Rds) (rd : Rd) (ttl : Option Nat) :
    (rdsAdd sing s rd ttl).1.cls = s.cls ∧ (rdsAdd sing s rd ttl).1.typ = s.typ ∧
    (rdsAdd sing s rd ttl).1.ttl =
      (if s.cls ≠ rd.cls ∨ s.typ ≠ rd.typ then s.ttl else (mergeTtl s ttl).ttl) := by
  unfold rdsAdd
  by_cases h0 : s.cls ≠ rd.cls ∨ s.typ ≠ rd.typ
  · simp [h0]
  · simp only [h0, if_false]
    obtain ⟨_, e2, e3, _⟩ := mergeTtl_fields s ttl
    obtain ⟨_, c2, c3, c4⟩ := coversStep_fields (mergeTtl s ttl) rd
    cases hcs : coversStep (mergeTtl s ttl) rd with
    | mk s2 err =>
      rw [hcs] at c2 c3 c4
      simp only at c2 c3 c4
      cases err with
      | some e => exact ⟨c2.trans e2, c3.trans e3, c4⟩
      | none =>
        obtain ⟨i1, i2, _, i4, _⟩ := insertStep_fields sing s2 rd
        exact ⟨i1.trans (c2.trans e2), i2.trans (c3.trans e3), i4.trans c4⟩

/-- invariant of an rdataset: duplicate-free, and every record has the set's class and type -/
def WfRds (s : Rds) : Prop := s.items.Nodup ∧ ∀ r ∈ s.items, r.cls = s.cls ∧ r.typ = s.typ

theorem insertStep_wf (sing : List Nat) (s : Rds) (rd : Rd) (h : WfRds s)
    (hc : s.cls = rd.cls) (ht : s.typ = rd.typ) : WfRds (insertStep sing s rd) := by
  obtain ⟨i1, i2, _, _, i5⟩ := insertStep_fields sing s rd
  unfold WfRds
  rw [i1, i2, i5]
  by_cases hs : rd.typ ∈ sing ∧ s.items.length > 0
  · simp only [hs, and_self, if_true]
    refine ⟨by simp, ?_⟩
    intro r hr
    simp at hr
    subst hr
    exact ⟨hc.symm, ht.symm⟩
  · simp only [hs, if_false]
    refine ⟨nodup_add _ _ h.1, ?_⟩
    intro r hr
    rw [mem_add] at hr
    rcases hr with hr | hr
    · exact h.2 r hr
    · subst hr; exact ⟨hc.symm, ht.symm⟩

theorem wf_of_fields (s s' : Rds) (h : WfRds s) (e1 : s'.items = s.items) (e2 : s'.cls = s.cls)
    (e3 : s'.typ = s.typ) : WfRds s' := by
  unfold WfRds; rw [e1, e2, e3]; exact h

/-- `add` keeps the invariant whatever the outcome -/
theorem rdsAdd_wf (sing : List Nat) (s : Rds) (rd : Rd) (ttl : Option Nat) (h : WfRds s) :
    WfRds (rdsAdd sing s rd ttl).1 := by
  unfold rdsAdd
  by_cases h0 : s.cls ≠ rd.cls ∨ s.typ ≠ rd.typ
  · simp only [h0, if_true]; exact h
  · simp only [h0, if_false]
    have hc : s.cls = rd.cls := Classical.byContradiction fun x => h0 (Or.inl x)
    have ht : s.typ = rd.typ := Classical.byContradiction fun x => h0 (Or.inr x)
    obtain ⟨e1, e2, e3, _⟩ := mergeTtl_fields s ttl
    obtain ⟨c1, c2, c3, _⟩ := coversStep_fields (mergeTtl s ttl) rd
    have hw2 : WfRds (coversStep (mergeTtl s ttl) rd).1 :=
      wf_of_fields s _ h (c1.trans e1) (c2.trans e2) (c3.trans e3)
    cases hcs : coversStep (mergeTtl s ttl) rd with
    | mk s2 err =>
      rw [hcs] at hw2 c2 c3
      simp only at hw2 c2 c3
      cases err with
      | some e => exact hw2
      | none => exact insertStep_wf sing s2 rd hw2 ((c2.trans e2).trans hc) ((c3.trans e3).trans ht)

/-! ## the loops that dispatch to the overridden `add` -/

theorem rdsAddAll_fields (sing : List Nat) (s : Rds) (xs : List Rd) :
    (rdsAddAll sing s xs).1.cls = s.cls ∧ (rdsAddAll sing s xs).1.typ = s.typ ∧
      (rdsAddAll sing s xs).1.ttl = s.ttl := by
  induction xs generalizing s with
  | nil => exact ⟨rfl, rfl, rfl⟩
  | cons x xs ih =>
    obtain ⟨a1, a2, a3⟩ := rdsAdd_fields sing s x none
    have a3' : (rdsAdd sing s x none).1.ttl = s.ttl := by
      rw [a3]; split <;> rfl
    unfold rdsAddAll
    cases hadd : rdsAdd sing s x none with
    | mk s' err =>
      rw [hadd] at a1 a2 a3'
      simp only at a1 a2 a3'
      cases err with
      | some e => exact ⟨a1, a2, a3'⟩
      | none =>
        obtain ⟨b1, b2, b3⟩ := ih s'
        exact ⟨b1.trans a1, b2.trans a2, b3.trans a3'⟩

theorem rdsAddAll_wf (sing : List Nat) (s : Rds) (xs : List Rd) (h : WfRds s) :
    WfRds (rdsAddAll sing s xs).1 := by
  induction xs generalizing s with
  | nil => exact h
  | cons x xs ih =>
    have hw := rdsAdd_wf sing s x none h
    unfold rdsAddAll
    cases hadd : rdsAdd sing s x none with
    | mk s' err =>
      rw [hadd] at hw
      cases err with
      | some e => exact hw
      | none => exact ih s' hw

/-- for a type that is neither a singleton nor a signature, adding a list of records of the set's own class
and type is exactly `Set.union_update` on the items: the overridden `add` changes nothing -/
theorem rdsAddAll_refines (sing : List Nat) (s : Rds) (xs : List Rd)
    (hsing : s.typ ∉ sing) (hns : ¬ (s.typ = 46 ∨ s.typ = 24))
    (hx : ∀ r ∈ xs, r.cls = s.cls ∧ r.typ = s.typ) :
    rdsAddAll sing s xs = ({ s with items := SetAlg.unionUpdate s.items xs }, none) := by
  induction xs generalizing s with
  | nil => simp [rdsAddAll, SetAlg.unionUpdate]
  | cons x xs ih =>
    obtain ⟨xc, xt⟩ := hx x (by simp)
    have hadd := rdsAdd_ok sing s x none xc.symm xt.symm hns
    obtain ⟨i1, i2, i3, i4, i5⟩ := insertStep_fields sing s x
    have hnot : ¬ (x.typ ∈ sing ∧ s.items.length > 0) := by
      rw [xt]; exact fun h => hsing h.1
    simp only [hnot, if_false] at i5
    have hs' : insertStep sing (mergeTtl s none) x = { s with items := SetAlg.add s.items x } := by
      show insertStep sing s x = _
      cases hh : insertStep sing s x
      rw [hh] at i1 i2 i3 i4 i5
      simp only at i1 i2 i3 i4 i5
      subst i1 i2 i3 i4 i5
      rfl
    unfold rdsAddAll
    rw [hadd, hs']
    simp only
    rw [ih { s with items := SetAlg.add s.items x } hsing hns (fun r hr => hx r (by simp [hr]))]
    simp [SetAlg.unionUpdate]

/-! ## TTL over histories -/

/-- every mutating operation of an rdataset; the other operand of a binary operation is any rdataset value,
the `…Self` constructors are the aliased calls (`self is other`) -/
inductive Op where
  | add (rd : Rd) (ttl : Option Nat)
  | updateTtl (t : Nat)
  | unionUpdate (o : Rds) | unionUpdateSelf
  | interUpdate (o : Rds) | interUpdateSelf
  | update (o : Rds) | updateSelf
  | diffUpdate (o : Rds) | diffUpdateSelf
  | symDiffUpdate (o : Rds) | symDiffUpdateSelf
  | remove (rd : Rd) | discard (rd : Rd) | pop | clear
  | delItem (i : Nat) | delSlice (a : Nat) (b : Option Nat) (st : Nat)

/-- the state after an operation (whether or not it raised) -/
def step (sing : List Nat) (s : Rds) : Op → Rds
  | .add rd ttl => (rdsAdd sing s rd ttl).1
  | .updateTtl t => updateTtl s t
  | .unionUpdate o => (rdsUnionUpdate sing s o false).1
  | .unionUpdateSelf => (rdsUnionUpdate sing s s true).1
  | .interUpdate o => (rdsInterUpdate s o false).1
  | .interUpdateSelf => (rdsInterUpdate s s true).1
  | .update o => (rdsUpdate sing s o).1
  | .updateSelf => (rdsUpdate sing s s).1
  | .diffUpdate o => (rdsDiffUpdate s o false).1
  | .diffUpdateSelf => (rdsDiffUpdate s s true).1
  | .symDiffUpdate o => (rdsSymDiffUpdate sing s o false).1
  | .symDiffUpdateSelf => (rdsSymDiffUpdate sing s s true).1
  | .remove rd => (match SetAlg.remove s.items rd with | some v => { s with items := v } | none => s)
  | .discard rd => { s with items := SetAlg.discard s.items rd }
  | .pop => (match SetAlg.pop s.items with | some (_, v) => { s with items := v } | none => s)
  | .clear => { s with items := [] }
  | .delItem i => (match SetAlg.delItem s.items i with | some v => { s with items := v } | none => s)
  | .delSlice a b st => { s with items := SetAlg.delSlice s.items a b st }

/-- the TTL an operation merges into the set (the argument of the `update_ttl` call it makes), if any;
read off the call, not off the model's state change -/
def merged (s : Rds) : Op → Option Nat
  | .add rd ttl => if s.cls ≠ rd.cls ∨ s.typ ≠ rd.typ then none else ttl
  | .updateTtl t => some t
  | .unionUpdate o => some o.ttl
  | .unionUpdateSelf => some s.ttl
  | .interUpdate o => some o.ttl
  | .interUpdateSelf => some s.ttl
  | .update o => some o.ttl
  | .updateSelf => some s.ttl
  | .symDiffUpdate o => some o.ttl
  | _ => none

/-- the TTLs merged since a merge last found the set empty -/
def ghostStep (g : List Nat) (s : Rds) (op : Op) : List Nat :=
  match merged s op with
  | some t => if s.items = [] then [t] else t :: g
  | none => g

def run (sing : List Nat) : Rds × List Nat → List Op → Rds × List Nat
  | p, [] => p
  | (s, g), op :: ops => run sing (step sing s op, ghostStep g s op) ops

def minOf : List Nat → Nat
  | [] => 0
  | [x] => x
  | x :: y :: r => min x (minOf (y :: r))

theorem minOf_cons (t : Nat) (g : List Nat) (h : g ≠ []) : minOf (t :: g) = min t (minOf g) := by
  cases g with
  | nil => exact absurd rfl h
  | cons y r => rfl

theorem step_ttl (sing : List Nat) (s : Rds) (op : Op) :
    (step sing s op).ttl = (match merged s op with | some t => (updateTtl s t).ttl | none => s.ttl) := by
  cases op with
  | add rd ttl =>
    simp only [step, merged]
    rw [(rdsAdd_fields sing s rd ttl).2.2]
    by_cases h0 : s.cls ≠ rd.cls ∨ s.typ ≠ rd.typ
    · simp [h0]
    · simp only [h0, if_false]
      cases ttl <;> rfl
  | updateTtl t => rfl
  | unionUpdate o =>
    simp only [step, merged, rdsUnionUpdate, Bool.false_eq_true, if_false]
    exact (rdsAddAll_fields sing _ _).2.2
  | unionUpdateSelf => simp [step, merged, rdsUnionUpdate]
  | interUpdate o => simp [step, merged, rdsInterUpdate]
  | interUpdateSelf => simp [step, merged, rdsInterUpdate]
  | update o =>
    simp only [step, merged, rdsUpdate]
    exact (rdsAddAll_fields sing _ _).2.2
  | updateSelf =>
    simp only [step, merged, rdsUpdate]
    exact (rdsAddAll_fields sing _ _).2.2
  | diffUpdate o => simp [step, merged, rdsDiffUpdate]
  | diffUpdateSelf => simp [step, merged, rdsDiffUpdate]
  | symDiffUpdate o =>
    simp only [step, merged, rdsSymDiffUpdate, Bool.false_eq_true, if_false]
    have hu : (rdsUnionUpdate sing s o false).1.ttl = (updateTtl s o.ttl).ttl := by
      simp only [rdsUnionUpdate, Bool.false_eq_true, if_false]
      exact (rdsAddAll_fields sing _ _).2.2
    cases hh : rdsUnionUpdate sing s o false with
    | mk s1 err =>
      rw [hh] at hu
      cases err with
      | some e => exact hu
      | none => simpa [rdsDiffUpdate] using hu
  | symDiffUpdateSelf => simp [step, merged, rdsSymDiffUpdate]
  | remove rd =>
    simp only [step, merged]
    split <;> rfl
  | discard rd => rfl
  | pop =>
    simp only [step, merged]
    split <;> rfl
  | clear => rfl
  | delItem i =>
    simp only [step, merged]
    split <;> rfl
  | delSlice a b st => rfl

/-- the invariant: the TTL is the minimum of the TTLs merged since a merge last found the set empty -/
theorem ttl_invariant (sing : List Nat) (s : Rds) (g : List Nat) (op : Op)
    (h : g ≠ [] ∧ s.ttl = minOf g) :
    ghostStep g s op ≠ [] ∧ (step sing s op).ttl = minOf (ghostStep g s op) := by
  rw [step_ttl]
  unfold ghostStep
  cases hm : merged s op with
  | none => exact h
  | some t =>
    simp only
    rw [updateTtl_ttl]
    by_cases he : s.items = []
    · simp [he, minOf]
    · simp only [he, if_false]
      refine ⟨by simp, ?_⟩
      rw [minOf_cons t g h.1, h.2]

theorem run_ttl (sing : List Nat) (ops : List Op) (s : Rds) (g : List Nat)
    (h : g ≠ [] ∧ s.ttl = minOf g) :
    (run sing (s, g) ops).2 ≠ [] ∧ (run sing (s, g) ops).1.ttl = minOf (run sing (s, g) ops).2 := by
  induction ops generalizing s g with
  | nil => exact h
  | cons op ops ih =>
    simp only [run]
    exact ih _ _ (ttl_invariant sing s g op h)

end RdsProofs
end Model

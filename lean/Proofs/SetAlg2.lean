import Proofs.SetAlg
import Proofs.NameOrder
import Model.Rdataset
/-!
Helper lemmas for C07, part 2: record value semantics (`Rdata.__eq__/__hash__/_cmp`) and `Rdataset`
(`add` refusal rules, singleton replacement, TTL minimisation over histories, refinement of the
overridden update methods to the `Set` algebra).
-/
namespace Model
namespace RdsProofs
open SetAlg

/-! ## records -/

theorem rdEq_iff (a b : Rd) :
    rdEq a b = true ↔ a.cls = b.cls ∧ a.typ = b.typ ∧ a.rel = b.rel ∧ a.dig = b.dig := by
  unfold rdEq
  by_cases h1 : a.cls = b.cls <;> by_cases h2 : a.typ = b.typ <;> by_cases h3 : a.rel = b.rel <;>
    simp [h1, h2, h3]

theorem rdEq_iff_eq (a b : Rd) : rdEq a b = true ↔ a = b := by
  rw [rdEq_iff]
  cases a; cases b
  simp

/-- specification of record order: relative records first, then octet order of the canonical encoding -/
def rdLt (a b : Rd) : Prop := (a.rel = true ∧ b.rel = false) ∨ (a.rel = b.rel ∧ a.dig < b.dig)

theorem rdCmp_lt (a b : Rd) : rdCmp a b < 0 ↔ rdLt a b := by
  unfold rdCmp rdLt
  by_cases h : a.rel = b.rel
  · simp only [h, bne_self_eq_false, Bool.false_eq_true, if_false, true_and]
    by_cases e : a.dig = b.dig
    · simp only [e, if_true]
      have : ¬ b.dig < b.dig := List.lt_irrefl _
      constructor
      · intro h0; omega
      · rintro (⟨h1, h2⟩ | h1)
        · rw [h] at h1; rw [h1] at h2; cases h2
        · exact absurd h1 this
    · simp only [e, if_false]
      have hr := NameOrder.cmpBytes_range a.dig b.dig
      have hlt := NameOrder.cmpBytes_lt a.dig b.dig
      have hgt := NameOrder.cmpBytes_gt a.dig b.dig
      have heq := NameOrder.cmpBytes_eq a.dig b.dig
      split
      · rename_i hc
        constructor
        · intro h0; omega
        · rintro (⟨h1, h2⟩ | h1)
          · rw [h] at h1; rw [h1] at h2; cases h2
          · have := hlt.2 h1; omega
      · rename_i hc
        constructor
        · intro _
          right
          apply hlt.1
          rcases hr with r | r | r
          · omega
          · exact absurd (heq.1 r) e
          · omega
        · intro _; omega
  · have hne : (a.rel != b.rel) = true := by simp [h]
    simp only [hne, if_true]
    cases ha : a.rel <;> cases hb : b.rel <;> simp_all

theorem rdCmp_eq (a b : Rd) : rdCmp a b = 0 ↔ a.rel = b.rel ∧ a.dig = b.dig := by
  unfold rdCmp
  by_cases h : a.rel = b.rel
  · simp only [h, bne_self_eq_false, Bool.false_eq_true, if_false, true_and]
    by_cases e : a.dig = b.dig
    · simp [e]
    · simp only [e, if_false, iff_false]
      split <;> omega
  · have hne : (a.rel != b.rel) = true := by simp [h]
    simp only [hne, if_true, h, false_and, iff_false]
    split <;> omega

theorem rdCmp_gt (a b : Rd) : rdCmp a b > 0 ↔ rdLt b a := by
  have h1 := rdCmp_lt a b
  have h2 := rdCmp_eq a b
  have h3 := rdCmp_lt b a
  -- trichotomy of the specification
  unfold rdLt at *
  constructor
  · intro h
    have n1 : ¬ ((a.rel = true ∧ b.rel = false) ∨ (a.rel = b.rel ∧ a.dig < b.dig)) := fun x => by
      have := h1.2 x; omega
    have n2 : ¬ (a.rel = b.rel ∧ a.dig = b.dig) := fun x => by have := h2.2 x; omega
    by_cases hr : a.rel = b.rel
    · right
      refine ⟨hr.symm, ?_⟩
      have hlt : ¬ a.dig < b.dig := fun x => n1 (Or.inr ⟨hr, x⟩)
      have hne : a.dig ≠ b.dig := fun x => n2 ⟨hr, x⟩
      have := NameOrder.cmpBytes_range a.dig b.dig
      have := NameOrder.cmpBytes_lt a.dig b.dig
      have := NameOrder.cmpBytes_eq a.dig b.dig
      have := NameOrder.cmpBytes_gt a.dig b.dig
      apply (NameOrder.cmpBytes_gt a.dig b.dig).1
      rcases NameOrder.cmpBytes_range a.dig b.dig with r | r | r
      · exact absurd ((NameOrder.cmpBytes_lt a.dig b.dig).1 (by omega)) hlt
      · exact absurd ((NameOrder.cmpBytes_eq a.dig b.dig).1 r) hne
      · omega
    · left
      cases ha : a.rel <;> cases hb : b.rel <;> simp_all
  · intro h
    have : rdCmp b a < 0 := h3.2 h
    -- a < b and a = b are excluded by asymmetry / irreflexivity of the specification
    have n1 : ¬ rdCmp a b < 0 := by
      intro x
      have hx := h1.1 x
      rcases h with ⟨p, q⟩ | ⟨p, q⟩ <;> rcases hx with ⟨p', q'⟩ | ⟨p', q'⟩
      · rw [p'] at q; cases q
      · rw [p'] at p; rw [p] at q; cases q
      · rw [← p] at p'; rw [p'] at q'; cases q'
      · exact List.lt_asymm q q'
    have n2 : ¬ rdCmp a b = 0 := by
      intro x
      obtain ⟨p', q'⟩ := h2.1 x
      rcases h with ⟨p, q⟩ | ⟨p, q⟩
      · rw [p'] at q; rw [p] at q; cases q
      · rw [q'] at q; exact List.lt_irrefl _ q
    omega

theorem rdLt_trans {a b c : Rd} (h1 : rdLt a b) (h2 : rdLt b c) : rdLt a c := by
  unfold rdLt at *
  rcases h1 with ⟨p, q⟩ | ⟨p, q⟩ <;> rcases h2 with ⟨p', q'⟩ | ⟨p', q'⟩
  · rw [q] at p'; cases p'
  · left; exact ⟨p, p' ▸ q⟩
  · left; exact ⟨p ▸ p', q'⟩
  · right; exact ⟨p.trans p', List.lt_trans q q'⟩

/-! ## Rdataset.add -/

/-- invariant of an rdataset: duplicate-free, and every record has the set's class and type -/
def WfRds (s : Rds) : Prop := s.items.Nodup ∧ ∀ r ∈ s.items, r.cls = s.cls ∧ r.typ = s.typ

theorem updateTtl_items (s : Rds) (t : Nat) : (updateTtl s t).items = s.items ∧
    (updateTtl s t).cls = s.cls ∧ (updateTtl s t).typ = s.typ ∧ (updateTtl s t).covers = s.covers := by
  unfold updateTtl
  split
  · simp
  · split <;> simp

theorem updateTtl_ttl (s : Rds) (t : Nat) :
    (updateTtl s t).ttl = if s.items = [] then t else min t s.ttl := by
  unfold updateTtl
  by_cases h : s.items = []
  · simp [h]
  · have : s.items.length ≠ 0 := fun e => h (List.length_eq_zero_iff.1 e)
    simp only [this, h, if_false]
    split
    · simp only; omega
    · omega

/-- a record of another class or type is refused and nothing changes -/
theorem rdsAdd_incompatible (sing : List Nat) (s : Rds) (rd : Rd) (ttl : Option Nat)
    (h : s.cls ≠ rd.cls ∨ s.typ ≠ rd.typ) : rdsAdd sing s rd ttl = (s, some .incompatibleTypes) := by
  unfold rdsAdd
  simp [h]

/-- a signature covering another type is refused; the records are unchanged (the TTL has already been merged) -/
theorem rdsAdd_differingCovers (sing : List Nat) (s : Rds) (rd : Rd) (ttl : Option Nat)
    (hc : s.cls = rd.cls) (ht : s.typ = rd.typ) (hsig : s.typ = 46 ∨ s.typ = 24)
    (hne : ¬ (s.items = [] ∧ s.covers = 0)) (hcov : s.covers ≠ rd.covers) :
    (rdsAdd sing s rd ttl).2 = some .differingCovers ∧ (rdsAdd sing s rd ttl).1.items = s.items ∧
      (rdsAdd sing s rd ttl).1.covers = s.covers := by
  unfold rdsAdd
  have h0 : ¬ (s.cls ≠ rd.cls ∨ s.typ ≠ rd.typ) := by simp [hc, ht]
  simp only [h0, if_false]
  cases ttl with
  | none =>
    simp only
    have hl : ¬ (s.items.length = 0 ∧ s.covers = 0) := by
      rintro ⟨a, b⟩; exact hne ⟨List.length_eq_zero_iff.1 a, b⟩
    simp [hsig, hl, hcov]
  | some t =>
    simp only
    obtain ⟨e1, _, e3, e4⟩ := updateTtl_items s t
    have hl : ¬ ((updateTtl s t).items.length = 0 ∧ (updateTtl s t).covers = 0) := by
      rw [e1, e4]; rintro ⟨a, b⟩; exact hne ⟨List.length_eq_zero_iff.1 a, b⟩
    have hsig' : (updateTtl s t).typ = 46 ∨ (updateTtl s t).typ = 24 := by rw [e3]; exact hsig
    have hcov' : (updateTtl s t).covers ≠ rd.covers := by rw [e4]; exact hcov
    simp [hsig', hl, hcov', e1, e4]

/-- what a successful `add` does to the records, for types other than SIG/RRSIG -/
theorem rdsAdd_ok (sing : List Nat) (s : Rds) (rd : Rd) (ttl : Option Nat)
    (hc : s.cls = rd.cls) (ht : s.typ = rd.typ) (hns : ¬ (s.typ = 46 ∨ s.typ = 24)) :
    (rdsAdd sing s rd ttl).2 = none ∧
      (rdsAdd sing s rd ttl).1.items =
        (if rd.typ ∈ sing ∧ s.items.length > 0 then [rd] else SetAlg.add s.items rd) ∧
      (rdsAdd sing s rd ttl).1.cls = s.cls ∧ (rdsAdd sing s rd ttl).1.typ = s.typ ∧
      (rdsAdd sing s rd ttl).1.covers = s.covers ∧
      (rdsAdd sing s rd ttl).1.ttl = (match ttl with | some t => (updateTtl s t).ttl | none => s.ttl) := by
  unfold rdsAdd
  have h0 : ¬ (s.cls ≠ rd.cls ∨ s.typ ≠ rd.typ) := by simp [hc, ht]
  simp only [h0, if_false]
  cases ttl with
  | none =>
    simp only [hns, if_false]
    by_cases hs : rd.typ ∈ sing ∧ s.items.length > 0
    · simp [hs, SetAlg.add]
    · simp [hs]
  | some t =>
    obtain ⟨e1, e2, e3, e4⟩ := updateTtl_items s t
    have hns' : ¬ ((updateTtl s t).typ = 46 ∨ (updateTtl s t).typ = 24) := by rw [e3]; exact hns
    simp only [hns', if_false, e1]
    by_cases hs : rd.typ ∈ sing ∧ s.items.length > 0
    · simp [hs, SetAlg.add, e2, e3, e4]
    · simp [hs, e1, e2, e3, e4]

/-- `add` keeps the invariant (whatever the outcome) -/
theorem rdsAdd_wf (sing : List Nat) (s : Rds) (rd : Rd) (ttl : Option Nat) (h : WfRds s) :
    WfRds (rdsAdd sing s rd ttl).1 ∧ (rdsAdd sing s rd ttl).1.cls = s.cls ∧ (rdsAdd sing s rd ttl).1.typ = s.typ := by
  unfold rdsAdd
  by_cases h0 : s.cls ≠ rd.cls ∨ s.typ ≠ rd.typ
  · simp only [h0, if_true]; exact ⟨h, rfl, rfl⟩
  · simp only [h0, if_false]
    have hc : s.cls = rd.cls := by
      apply Classical.byContradiction; intro x; exact h0 (Or.inl x)
    have ht : s.typ = rd.typ := by
      apply Classical.byContradiction; intro x; exact h0 (Or.inr x)
    -- generalise over the state after the optional TTL merge
    have key : ∀ s1 : Rds, s1.items = s.items → s1.cls = s.cls → s1.typ = s.typ →
        let step2 : RdsR :=
          if s1.typ = 46 ∨ s1.typ = 24 then
            if s1.items.length = 0 ∧ s1.covers = 0 then ({ s1 with covers := rd.covers }, none)
            else if s1.covers ≠ rd.covers then (s1, some .differingCovers)
            else (s1, none)
          else (s1, none)
        WfRds (match step2 with
          | (s2, some e) => ((s2, some e) : RdsR)
          | (s2, none) =>
            let s3 := if rd.typ ∈ sing ∧ s2.items.length > 0 then { s2 with items := [] } else s2
            ({ s3 with items := SetAlg.add s3.items rd }, none)).1 ∧
        (match step2 with
          | (s2, some e) => ((s2, some e) : RdsR)
          | (s2, none) =>
            let s3 := if rd.typ ∈ sing ∧ s2.items.length > 0 then { s2 with items := [] } else s2
            ({ s3 with items := SetAlg.add s3.items rd }, none)).1.cls = s.cls ∧
        (match step2 with
          | (s2, some e) => ((s2, some e) : RdsR)
          | (s2, none) =>
            let s3 := if rd.typ ∈ sing ∧ s2.items.length > 0 then { s2 with items := [] } else s2
            ({ s3 with items := SetAlg.add s3.items rd }, none)).1.typ = s.typ := by
      intro s1 hi hcl hty
      have hwf1 : WfRds s1 := by
        unfold WfRds; rw [hi, hcl, hty]; exact h
      have addwf : ∀ s2 : Rds, WfRds s2 → s2.cls = s.cls → s2.typ = s.typ →
          WfRds ({ (if rd.typ ∈ sing ∧ s2.items.length > 0 then { s2 with items := [] } else s2) with
            items := SetAlg.add (if rd.typ ∈ sing ∧ s2.items.length > 0 then { s2 with items := [] } else s2).items rd }) := by
        intro s2 hw2 c2 t2
        by_cases hs : rd.typ ∈ sing ∧ s2.items.length > 0
        · simp only [hs, and_self, if_true]
          refine ⟨by simp [SetAlg.add], ?_⟩
          intro r hr
          simp [SetAlg.add] at hr
          subst hr
          simp only
          exact ⟨(c2.trans hc).symm, (t2.trans ht).symm⟩
        · simp only [hs, if_false]
          refine ⟨nodup_add _ _ hw2.1, ?_⟩
          intro r hr
          rw [mem_add] at hr
          rcases hr with hr | hr
          · exact hw2.2 r hr
          · subst hr; exact ⟨(c2.trans hc).symm, (t2.trans ht).symm⟩
      simp only
      by_cases hsig : s1.typ = 46 ∨ s1.typ = 24
      · simp only [hsig, if_true]
        by_cases he : s1.items.length = 0 ∧ s1.covers = 0
        · simp only [he, and_self, if_true]
          have hw : WfRds { s1 with covers := rd.covers } := hwf1
          have := addwf { s1 with covers := rd.covers } hw hcl hty
          refine ⟨this, ?_, ?_⟩
          · split <;> simp [hcl]
          · split <;> simp [hty]
        · simp only [he, if_false]
          by_cases hcv : s1.covers ≠ rd.covers
          · simp only [hcv, if_true]
            exact ⟨hwf1, hcl, hty⟩
          · simp only [hcv, if_false]
            refine ⟨addwf s1 hwf1 hcl hty, ?_, ?_⟩
            · split <;> simp [hcl]
            · split <;> simp [hty]
      · simp only [hsig, if_false]
        refine ⟨addwf s1 hwf1 hcl hty, ?_, ?_⟩
        · split <;> simp [hcl]
        · split <;> simp [hty]
    cases ttl with
    | none => exact key s rfl rfl rfl
    | some t =>
      obtain ⟨e1, e2, e3, _⟩ := updateTtl_items s t
      exact key (updateTtl s t) e1 e2 e3

end RdsProofs
end Model

import Proofs.BTreeCowSteal
/-!
Mechanism-level proofs, part 6: `optimize_in_order_insertion`, the loop of `insert_nonfull` and
`insert_nonfull` itself on the heap simulate `Model.BTree` and write only owned cells.
-/
namespace Model.BTreeCow
open Model.BTree

/-- reading the fields of an owned internal node off its abstraction -/
theorem abs_node_inj {H : Heap} {h p : Nat} {es : List Elt} {cs : List Node}
    (h1 : absN H (h + 1) p = .node es cs) : (rd H p).elts = es ∧ (rd H p).kids.map (absN H h) = cs := by
  rw [absN_succ] at h1
  injection h1 with h2 h3
  exact ⟨h2, h3⟩

theorem kidAt_map_at {H : Heap} {h : Nat} {kl kr : List Nat} {k : Nat} {n : Nat} (hn : kl.length = n) :
    kidAt ((kl ++ k :: kr).map (absN H h)) n = absN H h k := by
  simp only [List.map_append, List.map_cons]
  exact kidAt_at (by simpa using hn)

/-! ## `optimize_in_order_insertion` -/

theorem optLoop_sim {c t : Nat} {h p s : Nat} {kl kr : List Nat} : ∀ (k : Nat) (H : Heap) (r : Nat),
    Good c H (h + 1) p → (rd H p).kids = kl ++ s :: r :: kr → (rd H s).creator = c →
    Kids t h (rd H p).elts ((rd H p).kids.map (absN H h)) →
    Upd c H (hOptLoop t k H s p kl.length) (h + 1) p
      (.node (optLoop t k (rd H p).elts ((rd H p).kids.map (absN H h)) kl.length).1
             (optLoop t k (rd H p).elts ((rd H p).kids.map (absN H h)) kl.length).2) := by
  intro k
  induction k with
  | zero => intro H r g hk hs hkids; (simp only [hOptLoop, optLoop]; exact Upd.refl (c := c) g.ht g.nodup)
  | succ k ih =>
    intro H r g hk hs hkids
    unfold hOptLoop optLoop
    have hkid : kidAt ((rd H p).kids.map (absN H h)) kl.length = absN H h s := by
      rw [hk]; exact kidAt_map_at rfl
    rw [hkid, absN_elts]
    by_cases hlt : (rd H s).elts.length < maxKeys t
    · simp only [hlt, if_true]
      have hrmem : absN H h r ∈ (rd H p).kids.map (absN H h) := by rw [hk]; simp
      have hocc : minKeys t ≤ (rd H r).elts.length := by
        have := (hkids.2 _ hrmem).2.1
        rwa [absN_elts] at this
      obtain ⟨hmin, hnmin⟩ := rightSteal_sim (t := t) g hk hs hocc
      cases hm : isMinimalC t (rd H r) with
      | true =>
        obtain ⟨h1, h2⟩ := hmin hm
        rw [h1, h2]
        exact Upd.refl (c := c) g.ht g.nodup
      | false =>
        obtain ⟨es', cs', r1, h1, h2, h3, h4, h5⟩ := hnmin hm
        rw [h1]
        rcases hst : hTryRightSteal t H s p kl.length with ⟨H4, b⟩
        rw [hst] at h2 h3 h4 h5
        simp only [] at h2 h3 h4 h5 ⊢
        subst h2
        have g4 := good_of_upd g h3
        obtain ⟨e1, e2⟩ := abs_node_inj h3.abs
        have hkids' : Kids t h es' cs' :=
          (tryRightSteal_preserves hkids (by rw [hkid, absN_elts]; exact hlt) h1).1
        have := ih H4 r1 g4 h4 (by rw [h3.creator s (HT_lt (HT_kid g.ht (by rw [hk]; simp)))]; exact hs)
          (by rw [e1, e2]; exact hkids')
        rw [e1, e2] at this
        exact Upd.trans h3 this
    · simp only [hlt, if_false]
      exact Upd.refl (c := c) g.ht g.nodup

theorem optimize_sim {c t : Nat} {H : Heap} {h p : Nat} (i : Nat) (g : Good c H (h + 1) p)
    (hkids : Kids t h (rd H p).elts ((rd H p).kids.map (absN H h))) (hi : i < (rd H p).kids.length) :
    Upd c H (hOptimize t H p i) (h + 1) p
      (.node (optimizeInOrder t (rd H p).elts ((rd H p).kids.map (absN H h)) i).1
             (optimizeInOrder t (rd H p).elts ((rd H p).kids.map (absN H h)) i).2) := by
  unfold hOptimize optimizeInOrder
  by_cases h0 : i = 0
  · simp only [h0, if_true]; exact Upd.refl (c := c) g.ht g.nodup
  · simp only [h0, if_false]
    obtain ⟨kl, l0, rest, hk, hkl⟩ := split_at_lt (rd H p).kids (i - 1) (by omega)
    cases rest with
    | nil => rw [hk] at hi; simp at hi; omega
    | cons ch kr =>
      have hidx : i - 1 = kl.length := hkl.symm
      rw [hidx]
      have hkidA : kidA (rd H p).kids kl.length = l0 := by rw [hk]; exact kidA_at rfl
      have hkid : kidAt ((rd H p).kids.map (absN H h)) kl.length = absN H h l0 := by
        rw [hk]; exact kidAt_map_at rfl
      rw [hkidA, hkid, absN_elts]
      by_cases hfull : (rd H l0).elts.length = maxKeys t
      · simp only [hfull, if_true]; exact Upd.refl (c := c) g.ht g.nodup
      · simp only [hfull, if_false]
        obtain ⟨l1, hcw, ucow, hkids1, helts1, gl1, _, _, _, _, _, _⟩ := cowChild_spec g hk
        rw [hcw]
        simp only []
        generalize (cowChild H p kl.length).1 = H1 at ucow hkids1 helts1 gl1
        obtain ⟨e1, e2⟩ := abs_node_inj ucow.abs
        have e1' : (rd H1 p).elts = (rd H p).elts := helts1
        have e2' : (rd H1 p).kids.map (absN H1 h) = (rd H p).kids.map (absN H h) := by
          rw [e2]
        have := optLoop_sim (t := t) (maxKeys t + 1) H1 ch (good_of_upd g ucow) hkids1 gl1.own
          (by rw [e1', e2']; exact hkids)
        rw [e1', e2'] at this
        exact Upd.trans ucow this

/-! ## `insert_nonfull` -/

/-- the heap `insert_nonfull` at height `h` simulates the persistent one -/
def InsSim (c t : Nat) (io : Bool) (h : Nat) : Prop :=
  ∀ (H : Heap) (a : Nat) (e : Elt), Good c H h a → Shape t h (absN H h a) → Sorted (flat (absN H h a)) →
    (rd H a).elts.length < maxKeys t →
    Upd c H (hInsertNonfull t io h H a e).1 h a (insertNonfull t io h (absN H h a) e).1 ∧
    (hInsertNonfull t io h H a e).2 = (insertNonfull t io h (absN H h a) e).2

theorem insLoop_sim {c t : Nat} {io : Bool} {h : Nat} (ht : 2 ≤ t) (e : Elt) (hrec : InsSim c t io h) {p : Nat} :
    ∀ (k : Nat) (H : Heap), Good c H (h + 1) p → Shape t (h + 1) (absN H (h + 1) p) →
    Sorted (flat (absN H (h + 1) p)) →
    Upd c H (hInsLoop t io (fun H' a => hInsertNonfull t io h H' a e) e k H p).1 (h + 1) p
      (insLoop t io (fun n => insertNonfull t io h n e) e k (rd H p).elts ((rd H p).kids.map (absN H h))).1 ∧
    (hInsLoop t io (fun H' a => hInsertNonfull t io h H' a e) e k H p).2 =
      (insLoop t io (fun n => insertNonfull t io h n e) e k (rd H p).elts ((rd H p).kids.map (absN H h))).2 := by
  intro k
  induction k with
  | zero =>
    intro H g hsh hso
    exact ⟨by simp only [hInsLoop, insLoop]; exact Upd.refl (c := c) g.ht g.nodup, by simp [hInsLoop, insLoop]⟩
  | succ k ih =>
    intro H g hsh hso
    have hkids : Kids t h (rd H p).elts ((rd H p).kids.map (absN H h)) := shape_node_iff.mp hsh
    have hso' : Sorted (flat (.node (rd H p).elts ((rd H p).kids.map (absN H h)))) := hso
    have hes := sorted_elts hso'
    unfold hInsLoop insLoop
    rcases search_cases e.1 hes with ⟨el, er, hesplit, hl, hr, hres⟩ | ⟨el, e0, er, hesplit, h0, hl, hr, hres⟩
    · -- not in this node
      simp only [hres, Bool.false_eq_true, if_false]
      have hlen := g.ht.2.2.1
      obtain ⟨kl, k0, kr, hk, hkl⟩ := split_at_lt (rd H p).kids el.length (by rw [hesplit] at hlen; simp at hlen; omega)
      rw [← hkl]
      have hkid : kidAt ((rd H p).kids.map (absN H h)) kl.length = absN H h k0 := by
        rw [hk]; exact kidAt_map_at rfl
      obtain ⟨k1, hcw, ucow, hkids1, helts1, gk1, habs1, hke, _, _, so1, _⟩ := cowChild_spec g hk
      rw [hcw, hkid]
      simp only []
      generalize (cowChild H p kl.length).1 = H1 at ucow hkids1 helts1 gk1 habs1 hke so1
      have g1 := good_of_upd g ucow
      obtain ⟨_, e2⟩ := abs_node_inj ucow.abs
      have e2' : (rd H1 p).kids.map (absN H1 h) = (rd H p).kids.map (absN H h) := by rw [e2]
      have hmaxeq : isMaximalC t (rd H1 k1) = isMaximal t (absN H h k0) := by
        simp [isMaximalC, isMaximal, absN_elts, hke]
      rw [hmaxeq]
      have hk0mem : absN H h k0 ∈ (rd H p).kids.map (absN H h) := by rw [hk]; simp
      have hk0 := hkids.2 _ hk0mem
      cases hmx : isMaximal t (absN H h k0) with
      | true =>
        simp only [if_true]
        have hmaxlen : (rd H1 k1).elts.length = maxKeys t := by
          have : (absN H h k0).elts.length = maxKeys t := by simpa [isMaximal] using hmx
          rw [hke]; rwa [absN_elts] at this
        -- the persistent side: adopt lands on the same index
        have hcsd : (rd H p).kids.map (absN H h) = kl.map (absN H h) ++ absN H h k0 :: kr.map (absN H h) := by
          rw [hk]; simp
        have hkids' := hkids
        rw [hesplit, hcsd] at hkids' hso'
        have hcl : (kl.map (absN H h)).length = el.length := by simp [hkl]
        have hmaxk0 : (absN H h k0).elts.length = maxKeys t := by simpa [isMaximal] using hmx
        obtain ⟨had, hk2, hfl2, _, _⟩ := adopt_after_split (by omega) hkids' hcl hso' hmaxk0
        have hjidx : (searchInNode (rd H1 p).elts (eltAt (rd H1 k1).elts (minKeys t)).1).1 = kl.length := by
          rw [helts1, hesplit, hke]
          have hmid : (split t (absN H h k0)).2.1 = eltAt (rd H k0).elts (minKeys t) := by
            cases h <;> simp [absN, split]
          rw [← hmid]
          obtain ⟨hl', hr', hll, hrl, hflat⟩ := split_spec (t := t) (by omega) hk0.1 hmaxk0
          have hs' := hso'
          rw [flat_node_split el er _ _ _ hcl] at hs'
          have ⟨hs1, _, hcross⟩ := sorted_append_iff.mp hs'
          have ⟨_, _, hcrossL⟩ := sorted_append_iff.mp hs1
          have hm : (split t (absN H h k0)).2.1 ∈ flat (absN H h k0) := by rw [hflat]; simp
          have := search_unique_lt (by rw [← hesplit]; exact hes)
            (fun x hx => hcrossL x (mem_LF_of_mem hx) _ hm)
            (fun x hx => hcross _ (by simp [hm]) x (mem_RF_of_mem hx))
          rw [this]; exact hkl.symm
        have hsa := split_adopt_spec (t := t) (by omega) g1 hkids1 gk1 hmaxlen hjidx
        simp only [] at hsa
        rcases hsp : hSplit t H1 k1 with ⟨H2, m, r⟩
        rw [hsp] at hsa
        simp only [] at hsa ⊢
        generalize hH3 : hAdopt H2 p k1 m r = H3 at hsa
        have g3 := good_of_upd g1 hsa
        -- the new abstraction equals the persistent adopt
        have hnew : Node.node (insAt (rd H1 p).elts kl.length (split t (absN H1 h k1)).2.1)
            (kl.map (absN H1 h) ++ (split t (absN H1 h k1)).1 :: (split t (absN H1 h k1)).2.2 :: kr.map (absN H1 h)) =
            .node (el ++ (split t (absN H h k0)).2.1 :: er)
              (kl.map (absN H h) ++ (split t (absN H h k0)).1 :: (split t (absN H h k0)).2.2 :: kr.map (absN H h)) := by
          have hl1 : kl.map (absN H1 h) = kl.map (absN H h) :=
            List.map_congr_left (fun j hj => (kid_same_off so1 g.nodup g.ht (by rw [hk]; simp [hj])).1)
          have hr1 : kr.map (absN H1 h) = kr.map (absN H h) :=
            List.map_congr_left (fun j hj => (kid_same_off so1 g.nodup g.ht (by rw [hk]; simp [hj])).1)
          rw [habs1, hl1, hr1, helts1, hesplit, insAt_at hkl.symm]
        rw [hnew] at hsa
        obtain ⟨e3, e4⟩ := abs_node_inj hsa.abs
        have hsh3 : Shape t (h + 1) (absN H3 (h + 1) p) := by rw [hsa.abs]; exact shape_node_iff.mpr hk2
        have hso3 : Sorted (flat (absN H3 (h + 1) p)) := by rw [hsa.abs, hfl2]; exact hso'
        obtain ⟨i1, i2⟩ := ih H3 g3 hsh3 hso3
        rw [e3, e4] at i1 i2
        -- the persistent loop takes the same branch
        have hpers : adopt (rd H p).elts (setAt ((rd H p).kids.map (absN H h)) kl.length (split t (absN H h k0)).1)
            (split t (absN H h k0)).1 (split t (absN H h k0)).2.1 (split t (absN H h k0)).2.2 =
            (el ++ (split t (absN H h k0)).2.1 :: er,
             kl.map (absN H h) ++ (split t (absN H h k0)).1 :: (split t (absN H h k0)).2.2 :: kr.map (absN H h)) := by
          rw [hesplit, hcsd, hkl]; exact had
        rcases hps : split t (absN H h k0) with ⟨pl, pm, pr⟩
        rw [hps] at hpers i1 i2
        simp only [] at hpers i1 i2 ⊢
        rw [hpers]
        simp only []
        exact ⟨Upd.trans ucow (Upd.trans hsa i1), i2⟩
      | false =>
        simp only [Bool.false_eq_true, if_false]
        have hnotmax : (absN H h k0).elts.length ≠ maxKeys t := by simpa [isMaximal] using hmx
        have hk1lt : (rd H1 k1).elts.length < maxKeys t := by
          rw [hke]; have := hk0.2.2; rw [absN_elts] at this hnotmax; omega
        -- the child
        have hcsd : (rd H p).kids.map (absN H h) = kl.map (absN H h) ++ absN H h k0 :: kr.map (absN H h) := by
          rw [hk]; simp
        have hkids' := hkids
        rw [hesplit, hcsd] at hkids' hso'
        have hcl : (kl.map (absN H h)).length = el.length := by simp [hkl]
        have hs' := hso'
        rw [flat_node_split el er _ _ _ hcl] at hs'
        have hsc := (sorted_append_iff.mp (sorted_append_iff.mp hs').1).2.1
        obtain ⟨r1, r2⟩ := hrec H1 k1 e gk1 (by rw [habs1]; exact hk0.1) (by rw [habs1]; exact hsc) hk1lt
        rw [habs1] at r1 r2
        rcases hrc : hInsertNonfull t io h H1 k1 e with ⟨H2, old⟩
        rw [hrc] at r1 r2
        simp only [] at r1 r2 ⊢
        obtain ⟨uc, hrdp2⟩ := upd_child g1 hkids1 r1
        -- the persistent child
        have hspec := insertNonfull_spec ht io e h (absN H h k0) hk0.1 hsc (by rw [absN_elts]; rw [hke] at hk1lt; exact hk1lt)
        rcases hpc : insertNonfull t io h (absN H h k0) e with ⟨c', pold⟩
        rw [hpc] at r1 r2 hspec uc
        simp only [] at r1 r2 uc
        subst r2
        have hl1 : kl.map (absN H1 h) = kl.map (absN H h) :=
          List.map_congr_left (fun j hj => (kid_same_off so1 g.nodup g.ht (by rw [hk]; simp [hj])).1)
        have hr1 : kr.map (absN H1 h) = kr.map (absN H h) :=
          List.map_congr_left (fun j hj => (kid_same_off so1 g.nodup g.ht (by rw [hk]; simp [hj])).1)
        rw [hl1, hr1, helts1] at uc
        have hdesc := ins_descend_spec hkids' hcl hso' hl hr hspec (by rw [absN_elts]; rw [hke] at hk1lt; exact hk1lt)
        have hset : setAt ((rd H p).kids.map (absN H h)) kl.length c' =
            kl.map (absN H h) ++ c' :: kr.map (absN H h) := by
          rw [hcsd]; exact setAt_at (by simp)
        rw [hset]
        have u2 : Upd c H H2 (h + 1) p (.node (rd H p).elts (kl.map (absN H h) ++ c' :: kr.map (absN H h))) :=
          Upd.trans ucow uc
        cases io with
        | false => exact ⟨u2, rfl⟩
        | true =>
          simp only [if_true]
          have g2 := good_of_upd g u2
          obtain ⟨e5, e6⟩ := abs_node_inj u2.abs
          have hk2 : Kids t h (rd H2 p).elts ((rd H2 p).kids.map (absN H2 h)) := by
            rw [e5, e6, hesplit]; exact shape_node_iff.mp hdesc.shape
          have hilt : kl.length < (rd H2 p).kids.length := by
            have := congrArg List.length e6
            simp at this
            rw [this]; omega
          have := optimize_sim (t := t) kl.length g2 hk2 hilt
          rw [e5, e6] at this
          exact ⟨Upd.trans u2 this, by first | rfl | trivial⟩
    · -- found in this node: replace
      simp only [hres, if_true]
      have hlen : (setAt (rd H p).elts el.length e).length = (rd H p).elts.length := by
        rw [hesplit, setAt_at rfl]; simp
      have := upd_elts g (setAt (rd H p).elts el.length e) (fun _ => hlen)
      exact ⟨this, by first | rfl | trivial⟩

theorem insertNonfull_sim {c t : Nat} (ht : 2 ≤ t) (io : Bool) : ∀ h, InsSim c t io h := by
  intro h
  induction h with
  | zero =>
    intro H a e g hsh hso hlt
    have hleaf : (rd H a).leaf = true := g.ht.2
    have habs : absN H 0 a = .leaf (rd H a).elts := rfl
    unfold hInsertNonfull
    rw [habs]
    unfold insertNonfull
    simp only []
    rw [if_pos hleaf]
    rcases hs : searchInNode (rd H a).elts e.1 with ⟨i, eq⟩
    simp only []
    cases eq with
    | true =>
      simp only [if_true]
      exact ⟨upd_elts g (setAt (rd H a).elts i e) (fun h0 => absurd rfl h0), trivial⟩
    | false =>
      simp only [Bool.false_eq_true, if_false]
      exact ⟨upd_elts g (insAt (rd H a).elts i e) (fun h0 => absurd rfl h0), trivial⟩
  | succ h ih =>
    intro H a e g hsh hso hlt
    have hleaf : (rd H a).leaf = false := g.ht.2.1
    unfold hInsertNonfull
    simp only [hleaf, Bool.false_eq_true, if_false]
    rw [absN_succ]
    unfold insertNonfull
    exact insLoop_sim ht e ih 2 H g hsh hso

end Model.BTreeCow

import Model.Name
import Proofs.NameText
/-! Helper lemmas for C01: wire decoding (`from_wire_parser`) against a relational description `Dec`. -/
namespace Model

/-- shape of a successful decode: the name ends with the root label and the restored parser
position never exceeds the end of the buffer. -/
theorem fwAux_shape (w : Bytes) (endp cur bp f : Nat) (acc : List Label) :
    ∀ n f', fromWireAux w endp cur bp f acc = .ok (n, f') →
      (∃ m, n = acc ++ m ++ [[]]) ∧ f' ≤ max f endp := by
  fun_induction fromWireAux w endp cur bp f acc with
  | case1 cur bp f acc h h0 =>
    intro n f' e
    simp at e
    obtain ⟨rfl, rfl⟩ := e
    exact ⟨⟨[], by simp⟩, by omega⟩
  | case2 => intro n f' e; simp at e
  | case3 cur bp f acc h h0 h1 h2 ih =>
    intro n f' e
    obtain ⟨⟨m, hm⟩, hf⟩ := ih n f' e
    refine ⟨⟨List.take w[cur] (List.drop (cur + 1) w) :: m, ?_⟩, by omega⟩
    rw [hm]; simp
  | case4 => intro n f' e; simp at e
  | case5 cur bp f acc h h0 h1 h2 h3 h4 ih =>
    intro n f' e
    obtain ⟨⟨m, hm⟩, hf⟩ := ih n f' e
    exact ⟨⟨m, hm⟩, by omega⟩
  | case6 => intro n f' e; simp at e
  | case7 => intro n f' e; simp at e
  | case8 => intro n f' e; simp at e

/-- `Dec w cur bp ls fwd`: reading a name at `cur` with pointer bound `bp` yields the labels `ls`
(without the root label) and reads forward up to `fwd`.  Pointers must target offsets `< bp`. -/
inductive Dec (w : Bytes) : Nat → Nat → List Label → Nat → Prop
  | root (cur bp : Nat) : w[cur]? = some 0 → Dec w cur bp [] (cur + 1)
  | label (cur bp c : Nat) (ls : List Label) (fwd : Nat) :
      w[cur]? = some c → 0 < c → c < Consts.ptrLabelMin → cur + 1 + c ≤ w.length →
      Dec w (cur + 1 + c) bp ls fwd →
      Dec w cur bp ((w.drop (cur + 1)).take c :: ls) (max (cur + 1 + c) fwd)
  | ptr (cur bp c lo : Nat) (ls : List Label) (fwd : Nat) :
      w[cur]? = some c → Consts.ptrTagMin ≤ c → w[cur + 1]? = some lo →
      (c % 64) * 256 + lo < bp →
      Dec w ((c % 64) * 256 + lo) ((c % 64) * 256 + lo) ls fwd →
      Dec w cur bp ls (max (cur + 2) fwd)

theorem labelMin_le_tagMin : Consts.ptrLabelMin ≤ Consts.ptrTagMin := by decide
theorem labelMin_pos : 0 < Consts.ptrLabelMin := by decide

theorem Dec.fwd_le {w : Bytes} {cur bp : Nat} {ls : List Label} {fwd : Nat} (h : Dec w cur bp ls fwd) :
    cur < fwd ∧ fwd ≤ w.length := by
  induction h with
  | root cur bp h0 =>
    have := (List.getElem?_eq_some_iff.mp h0).1
    omega
  | label cur bp c ls fwd h0 hc hc' hlen _ ih => omega
  | ptr cur bp c lo ls fwd h0 hc h1 ht _ ih =>
    have := (List.getElem?_eq_some_iff.mp h1).1
    omega

/-- the executable decoder computes what `Dec` describes -/
theorem fromWireAux_of_Dec {w : Bytes} {cur bp : Nat} {ls : List Label} {fwd : Nat}
    (h : Dec w cur bp ls fwd) (f : Nat) (acc : List Label) :
    fromWireAux w w.length cur bp f acc = .ok (acc ++ ls ++ [[]], max f fwd) := by
  induction h generalizing f acc with
  | root cur bp h0 =>
    obtain ⟨hlt, hv⟩ := List.getElem?_eq_some_iff.mp h0
    rw [fromWireAux]
    simp [hlt, hv]
  | label cur bp c ls fwd h0 hc hc' hlen _ ih =>
    obtain ⟨hlt, hv⟩ := List.getElem?_eq_some_iff.mp h0
    rw [fromWireAux]
    have h1 : ¬ c = 0 := by omega
    have h2 : ¬ c > w.length - (cur + 1) := by omega
    simp only [hlt, Nat.le_refl, and_self, dite_true, hv, h1, if_false, hc', if_true, h2]
    rw [ih]
    have : max (max (max f (cur + 1)) (cur + 1 + c)) fwd = max f (max (cur + 1 + c) fwd) := by omega
    simp [this]
  | ptr cur bp c lo ls fwd h0 hc h1 ht _ ih =>
    obtain ⟨hlt, hv⟩ := List.getElem?_eq_some_iff.mp h0
    obtain ⟨hlt1, hv1⟩ := List.getElem?_eq_some_iff.mp h1
    have hmin := labelMin_le_tagMin
    have hpos := labelMin_pos
    rw [fromWireAux]
    have a1 : ¬ c = 0 := by omega
    have a2 : ¬ c < Consts.ptrLabelMin := by omega
    have a3 : ¬ (c % 64) * 256 + lo ≥ bp := by omega
    simp only [hlt, Nat.le_refl, and_self, dite_true, hv, a1, if_false, a2, hc, ge_iff_le, if_true, hlt1, hv1, a3]
    rw [ih]
    have : max (max (max f (cur + 1)) (cur + 2)) fwd = max f (max (cur + 2) fwd) := by omega
    simp [this]

theorem getElem?_append_left' {α} (a b : List α) (i : Nat) (x : α) (h : a[i]? = some x) :
    (a ++ b)[i]? = some x := by
  have := (List.getElem?_eq_some_iff.mp h).1
  rw [List.getElem?_append_left this]; exact h

theorem take_drop_append_left {α} (a b : List α) (i c : Nat) (h : i + c ≤ a.length) :
    ((a ++ b).drop i).take c = (a.drop i).take c := by
  rw [List.drop_append_of_le_length (by omega)]
  rw [List.take_append_of_le_length (by simp; omega)]

/-- decoding is stable under extension of the buffer (later bytes cannot change an earlier name) -/
theorem Dec.mono {w : Bytes} {cur bp : Nat} {ls : List Label} {fwd : Nat} (h : Dec w cur bp ls fwd)
    (ext : Bytes) : Dec (w ++ ext) cur bp ls fwd := by
  induction h with
  | root cur bp h0 => exact Dec.root cur bp (getElem?_append_left' _ _ _ _ h0)
  | label cur bp c ls fwd h0 hc hc' hlen _ ih =>
    have := Dec.label (w := w ++ ext) cur bp c ls fwd (getElem?_append_left' _ _ _ _ h0) hc hc'
      (by simp; omega) ih
    rw [take_drop_append_left w ext (cur + 1) c (by omega)] at this
    exact this
  | ptr cur bp c lo ls fwd h0 hc h1 ht _ ih =>
    exact Dec.ptr cur bp c lo ls fwd (getElem?_append_left' _ _ _ _ h0) hc
      (getElem?_append_left' _ _ _ _ h1) ht ih

/-- a larger pointer bound accepts at least as much -/
theorem Dec.bp_mono {w : Bytes} {cur bp : Nat} {ls : List Label} {fwd : Nat} (h : Dec w cur bp ls fwd)
    (bp' : Nat) (hb : bp ≤ bp') : Dec w cur bp' ls fwd := by
  induction h generalizing bp' with
  | root cur bp h0 => exact Dec.root cur bp' h0
  | label cur bp c ls fwd h0 hc hc' hlen _ ih => exact Dec.label cur bp' c ls fwd h0 hc hc' hlen (ih bp' hb)
  | ptr cur bp c lo ls fwd h0 hc h1 ht hd _ => exact Dec.ptr cur bp' c lo ls fwd h0 hc h1 (by omega) hd

/-- labels of an uncompressed name: all non-empty and shorter than 64 -/
def PlainLabels (ls : List Label) : Prop := ∀ l ∈ ls, 0 < l.length ∧ l.length < Consts.ptrLabelMin

theorem toWire_append (a b : Name) : toWire (a ++ b) = toWire a ++ toWire b := by
  simp [toWire]

theorem toWire_root : toWire [[]] = [0] := by simp [toWire]

theorem Dec_plain (ls : List Label) (hp : PlainLabels ls) (A post : Bytes) (bp : Nat) :
    Dec (A ++ toWire (ls ++ [[]]) ++ post) A.length bp ls (A.length + (toWire (ls ++ [[]])).length) := by
  induction ls generalizing A with
  | nil =>
    have : (A ++ toWire ([] ++ [[]]) ++ post)[A.length]? = some 0 := by
      simp [toWire]
    have := Dec.root (w := A ++ toWire ([] ++ [[]]) ++ post) A.length bp this
    simpa [toWire] using this
  | cons l rest ih =>
    have hl := hp l (by simp)
    have hrest : PlainLabels rest := fun x hx => hp x (by simp [hx])
    have e : A ++ toWire (l :: rest ++ [[]]) ++ post =
        (A ++ l.length :: l) ++ toWire (rest ++ [[]]) ++ post := by
      simp [toWire]
    have ih' := ih hrest (A ++ l.length :: l)
    rw [← e] at ih'
    have hget : (A ++ toWire (l :: rest ++ [[]]) ++ post)[A.length]? = some l.length := by
      simp [toWire]
    have hlen : A.length + 1 + l.length ≤ (A ++ toWire (l :: rest ++ [[]]) ++ post).length := by
      simp [toWire]; omega
    have hcur : (A ++ l.length :: l).length = A.length + 1 + l.length := by simp; omega
    rw [hcur] at ih'
    have := Dec.label (w := A ++ toWire (l :: rest ++ [[]]) ++ post) A.length bp l.length rest _
      hget hl.1 hl.2 hlen ih'
    have htake : ((A ++ toWire (l :: rest ++ [[]]) ++ post).drop (A.length + 1)).take l.length = l := by
      have : A ++ toWire (l :: rest ++ [[]]) ++ post = (A ++ [l.length]) ++ (l ++ (toWire (rest ++ [[]]) ++ post)) := by
        simp [toWire]
      rw [this, List.drop_left' (by simp), List.take_left' rfl]
    rw [htake] at this
    have hfw : max (A.length + 1 + l.length) ((A ++ l.length :: l).length + (toWire (rest ++ [[]])).length)
        = A.length + (toWire (l :: rest ++ [[]])).length := by
      simp [toWire]; omega
    rw [hcur] at hfw
    rw [← hfw]
    exact this

/-- an absolute well-formed name splits into plain labels and the root -/
theorem abs_split (n : Name) (h : WfName n) (ha : isAbs n = true) :
    ∃ ls, n = ls ++ [[]] ∧ PlainLabels ls := by
  have hne : n ≠ [] := by
    intro e; subst e; simp [isAbs] at ha
  have hlast : n.getLast hne = [] := by
    unfold isAbs at ha
    split at ha
    · rename_i hh
      rw [List.getLast?_eq_some_getLast hne] at hh
      simpa using hh
    · simp at ha
  refine ⟨n.dropLast, ?_, ?_⟩
  · conv => lhs; rw [← List.dropLast_concat_getLast hne, hlast]
  · intro l hl
    have h1 := h.2.2 l hl
    have h2 := h.1 l (List.dropLast_subset n hl)
    have : Consts.maxLabel < Consts.ptrLabelMin := by decide
    constructor
    · cases l with
      | nil => exact absurd rfl h1
      | cons => simp
    · omega

end Model

namespace Model

/-- completeness: every successful run of the decoder is described by `Dec`, i.e. it only followed
pointers to offsets strictly below the running bound (which starts at the name's own offset and
is lowered to each pointer target). -/
theorem Dec_of_fromWireAux (w : Bytes) (cur bp f : Nat) (acc : List Label) :
    ∀ n f', fromWireAux w w.length cur bp f acc = .ok (n, f') →
      ∃ ls fwd, Dec w cur bp ls fwd ∧ n = acc ++ ls ++ [[]] ∧ f' = max f fwd := by
  fun_induction fromWireAux w w.length cur bp f acc with
  | case1 cur bp f acc h h0 =>
    intro n f' e
    simp at e
    obtain ⟨rfl, rfl⟩ := e
    refine ⟨[], cur + 1, Dec.root cur bp ?_, by simp, rfl⟩
    rw [List.getElem?_eq_some_iff]; exact ⟨h.1, h0⟩
  | case2 => intro n f' e; simp at e
  | case3 cur bp f acc h h0 h1 h2 ih =>
    intro n f' e
    obtain ⟨ls, fwd, hd, hn, hf⟩ := ih n f' e
    refine ⟨_ :: ls, _, Dec.label cur bp w[cur] ls fwd ?_ (by omega) h1 (by omega) hd, ?_, ?_⟩
    · rw [List.getElem?_eq_some_iff]; exact ⟨h.1, rfl⟩
    · rw [hn]; simp
    · omega
  | case4 => intro n f' e; simp at e
  | case5 cur bp f acc h h0 h1 h2 h3 h4 ih =>
    intro n f' e
    obtain ⟨ls, fwd, hd, hn, hf⟩ := ih n f' e
    refine ⟨ls, _, Dec.ptr cur bp w[cur] w[cur + 1] ls fwd ?_ h2 ?_ (by omega) hd, hn, ?_⟩
    · rw [List.getElem?_eq_some_iff]; exact ⟨h.1, rfl⟩
    · rw [List.getElem?_eq_some_iff]; exact ⟨h3, rfl⟩
    · omega
  | case6 => intro n f' e; simp at e
  | case7 => intro n f' e; simp at e
  | case8 => intro n f' e; simp at e

end Model

import Model.Resolver
/-!
Helper lemmas for C16, part 1: candidate names, `resolve_chaining`, the cache as a timed map,
single-step facts about `query_result` / `next_nameserver`.
-/
namespace Model.Resolver
open Model

/-! ## names -/

theorem validate_ok {n r : Name} (h : validate n = .ok r) : r = n := by
  unfold validate at h
  split at h
  · cases h
  · split at h
    · cases h
    · split at h
      · split at h
        · cases h
        · cases h; rfl
      · cases h; rfl

theorem concatenate_ok {a b r : Name} (h : concatenate a b = .ok r) : r = a ++ b := by
  unfold concatenate at h
  split at h
  · cases h
  · exact validate_ok h

theorem concatAll_ok {q : Name} : ∀ {l : List Name} {r : List Name}, concatAll q l = .ok r → r = l.map (q ++ ·)
  | [], r, h => by simp [concatAll] at h; simp [h]
  | s :: rest, r, h => by
    unfold concatAll at h
    split at h
    · cases h
    · rename_i c hc
      split at h
      · cases h
      · rename_i cs hcs
        cases h
        simp [concatenate_ok hc, concatAll_ok hcs]

/-! ## `find_rrset` -/

theorem findRRset_some {sec : List RRset} {n : Name} {cls ty : Nat} {a : RRset}
    (h : findRRset sec n cls ty = some a) :
    a ∈ sec ∧ sameName a.owner n = true ∧ a.rdclass = cls ∧ a.rdtype = ty := by
  unfold findRRset at h
  have hm := List.mem_of_find?_eq_some h
  have hp := List.find?_some h
  simp only [Bool.and_eq_true, beq_iff_eq] at hp
  exact ⟨hm, hp.1.1, hp.1.2, hp.2⟩

theorem findSoa_some {sec : List Soa} {n : Name} {cls : Nat} {a : Soa}
    (h : findSoa sec n cls = some a) : a ∈ sec ∧ sameName a.owner n = true ∧ a.rdclass = cls := by
  unfold findSoa at h
  have hm := List.mem_of_find?_eq_some h
  have hp := List.find?_some h
  simp only [Bool.and_eq_true, beq_iff_eq] at hp
  exact ⟨hm, hp.1, hp.2⟩

/-! ## the CNAME walk -/

/-- minimum of `m` and a list of TTLs -/
def listMin (m : Nat) (l : List Nat) : Nat := l.foldl min m

theorem listMin_append (m : Nat) (a b : List Nat) : listMin m (a ++ b) = listMin (listMin m a) b := by
  simp [listMin, List.foldl_append]

theorem listMin_le_init (m : Nat) (l : List Nat) : listMin m l ≤ m := by
  induction l generalizing m with
  | nil => simp [listMin]
  | cons x xs ih =>
    have := ih (min m x)
    simp only [listMin, List.foldl_cons] at this ⊢
    omega

theorem listMin_le_mem (m : Nat) (l : List Nat) : ∀ x ∈ l, listMin m l ≤ x := by
  induction l generalizing m with
  | nil => simp
  | cons y ys ih =>
    intro x hx
    simp only [listMin, List.foldl_cons]
    rcases List.mem_cons.mp hx with rfl | hx
    · have := listMin_le_init (min m x) ys
      simp only [listMin] at this
      omega
    · exact ih (min m y) x hx

/-- `links` is a CNAME path through the answer section `sec` leading from `a` to `b` -/
def IsCnamePath (sec : List RRset) (cls : Nat) : Name → List RRset → Name → Prop
  | a, [], b => a = b
  | a, c :: rest, b =>
    c ∈ sec ∧ sameName c.owner a = true ∧ c.rdclass = cls ∧ c.rdtype = tyCNAME ∧ IsCnamePath sec cls c.target rest b

theorem IsCnamePath_append {sec : List RRset} {cls : Nat} :
    ∀ {a : Name} {l1 : List RRset} {b : Name} {l2 : List RRset} {c : Name},
      IsCnamePath sec cls a l1 b → IsCnamePath sec cls b l2 c → IsCnamePath sec cls a (l1 ++ l2) c
  | a, [], b, l2, c, h1, h2 => by simp [IsCnamePath] at h1; subst h1; simpa using h2
  | a, x :: xs, b, l2, c, h1, h2 => by
    simp only [IsCnamePath] at h1
    simp only [List.cons_append, IsCnamePath]
    exact ⟨h1.1, h1.2.1, h1.2.2.1, h1.2.2.2.1, IsCnamePath_append h1.2.2.2.2 h2⟩

/-- everything `chainLoop` guarantees, for arbitrary accumulators -/
theorem chainLoop_spec (sec : List RRset) (cls ty : Nat) :
    ∀ (f : Nat) (q : Name) (m : Nat) (cn : List RRset) (s : ChainState), chainLoop sec cls ty f q m cn = s →
      ∃ ext : List RRset, s.cnames = cn ++ ext ∧ IsCnamePath sec cls q ext s.qname ∧
        (s.tooLong = true → ext.length = f ∧ s.answer = none) ∧ (s.tooLong = false → ext.length < f) ∧
        (∀ a, s.answer = some a → a ∈ sec ∧ sameName a.owner s.qname = true ∧ a.rdclass = cls ∧ a.rdtype = ty ∧
            s.minTtl = listMin m (ext.map (·.ttl) ++ [a.ttl])) ∧
        (s.answer = none → s.minTtl = listMin m (ext.map (·.ttl)) ∧
            (s.tooLong = false → findRRset sec s.qname cls ty = none ∧
              (ty ≠ tyCNAME → findRRset sec s.qname cls tyCNAME = none)))
  | 0, q, m, cn, s, hs => by
    refine ⟨[], ?_⟩
    subst hs
    simp [chainLoop, IsCnamePath, listMin]
  | f + 1, q, m, cn, s, hs => by
    unfold chainLoop at hs
    split at hs
    · rename_i a ha
      obtain ⟨h1, h2, h3, h4⟩ := findRRset_some ha
      refine ⟨[], ?_⟩
      subst hs
      simp [IsCnamePath, listMin, h1, h2, h3, h4]
    · rename_i hnone
      split at hs
      · rename_i hty
        split at hs
        · rename_i c hc
          obtain ⟨c1, c2, c3, c4⟩ := findRRset_some hc
          obtain ⟨ext, e1, e2, e3, e4, e5, e6⟩ := chainLoop_spec sec cls ty f c.target (min m c.ttl) (cn ++ [c]) s hs
          refine ⟨c :: ext, ?_, ?_, ?_, ?_, ?_, ?_⟩
          · simp [e1]
          · simp only [IsCnamePath]; exact ⟨c1, c2, c3, c4, e2⟩
          · intro h; have := e3 h; simp [this.1, this.2]
          · intro h; have := e4 h; simp; omega
          · intro a ha
            obtain ⟨x1, x2, x3, x4, x5⟩ := e5 a ha
            refine ⟨x1, x2, x3, x4, ?_⟩
            simp only [List.map_cons, List.cons_append, x5, listMin, List.foldl_cons]
          · intro ha
            obtain ⟨x1, x2⟩ := e6 ha
            refine ⟨?_, x2⟩
            simp only [List.map_cons, x1, listMin, List.foldl_cons]
        · rename_i hc
          refine ⟨[], ?_⟩
          subst hs
          simp [IsCnamePath, listMin, hnone, hc]
      · rename_i hty
        refine ⟨[], ?_⟩
        subst hs
        have : ty = tyCNAME := by simpa using hty
        subst this
        simp [IsCnamePath, listMin, hnone]

/-! ## the negative-caching walk -/

/-- the owner names at which `resolve_chaining` looks for an SOA: the name, its parent, … up to the root
(or the empty name for a relative name) -/
def ancestors : Name → List Name
  | [] => [[]]
  | l :: rest => (l :: rest) :: (if l = [] ∧ rest = [] then [] else ancestors rest)

theorem soaWalk_spec (auth : List Soa) (cls : Nat) : ∀ (n : Name) (m : Nat),
    soaWalk auth cls n m =
      match (ancestors n).findSome? (fun a => findSoa auth a cls) with
      | some s => min m (min s.ttl s.minimum)
      | none => m
  | [], m => by
    simp only [soaWalk, ancestors, List.findSome?_cons, List.findSome?_nil]
    cases findSoa auth [] cls <;> simp
  | l :: rest, m => by
    simp only [soaWalk, ancestors, List.findSome?_cons]
    cases h : findSoa auth (l :: rest) cls with
    | some s => simp
    | none =>
      simp only
      by_cases hr : l = [] ∧ rest = []
      · simp [hr]
      · simp only [hr, if_false]
        exact soaWalk_spec auth cls rest m

theorem soaWalk_le (auth : List Soa) (cls : Nat) (n : Name) (m : Nat) : soaWalk auth cls n m ≤ m := by
  rw [soaWalk_spec]
  split
  · exact Nat.min_le_left _ _
  · exact Nat.le_refl _

/-! ## the cache as a timed map -/

theorem find_filter_ne (c : Cache) (k k' : Key) (hk : k' ≠ k) :
    List.find? (fun e => e.1 == k') (List.filter (fun e => !(e.1 == k)) c) = List.find? (fun e => e.1 == k') c := by
  induction c with
  | nil => rfl
  | cons x xs ih =>
    simp only [List.filter_cons]
    by_cases hx : x.1 = k
    · have h1 : (x.1 == k) = true := by simp [hx]
      have h2 : (x.1 == k') = false := by
        simp only [hx, beq_eq_false_iff_ne, ne_eq]; exact fun h => hk h.symm
      simp only [h1, Bool.not_true, Bool.false_eq_true, if_false, List.find?_cons, h2, ih]
    · have h1 : (x.1 == k) = false := by simp [hx]
      simp only [h1, Bool.not_false, if_true, List.find?_cons, ih]

theorem find_filter_self (c : Cache) (k : Key) :
    List.find? (fun e => e.1 == k) (List.filter (fun e => !(e.1 == k)) c) = none := by
  rw [List.find?_eq_none]
  intro x hx
  have := (List.mem_filter.mp hx).2
  simpa using this

theorem cacheGet_put (c : Cache) (k k' : Key) (a : Answer) (now : Nat) :
    cacheGet (cachePut c k a) k' now =
      if k' = k then (if a.expiration ≤ now then none else some a) else cacheGet c k' now := by
  unfold cacheGet cachePut
  by_cases hk : k' = k
  · subst hk
    simp only [List.find?_append, find_filter_self, Option.none_or, List.find?_cons, beq_self_eq_true, if_true]
  · simp only [hk, if_false, List.find?_append, find_filter_ne c k k' hk]
    have h3 : (k == k') = false := by
      simp only [beq_eq_false_iff_ne, ne_eq]; exact fun h => hk h.symm
    cases hf : List.find? (fun e => e.1 == k') c with
    | some e => simp
    | none => simp [h3]

end Model.Resolver

import Model.Cache
import Proofs.Cache
import Proofs.CacheLru
/-! Helper lemmas for C17, part 4: `LRUCache` refines a timed map plus a recency list. -/
namespace Model.Cache

/-- The specification of the LRU cache: the timed map of `Proofs.Cache` (most recent `put` of each key that was not
flushed — it knows nothing of eviction, expiry or the ring) and, next to it, the list of keys currently held,
most recently used first.  Eviction is `take`: only the tail of the recency list is ever dropped. -/
structure SpecL where
  m : TMap
  recency : List Key
  max : Nat
  now : Nat

def specInitL (n : Int) (t0 : Nat) : SpecL := { m := fun _ => none, recency := [], max := clampMax n, now := t0 }

def without (l : List Key) (k : Key) : List Key := l.filter (fun x => x ≠ k)

def specStepL (p : SpecL) (op : Op) : SpecL :=
  match op with
  | .get k =>
    if k ∈ p.recency then
      match p.m k with
      | some a => if a.exp ≤ p.now then { p with recency := without p.recency k }       -- found expired: dropped
                  else { p with recency := k :: without p.recency k }                    -- hit: most recently used
      | none => { p with recency := without p.recency k }
    else p
  | .put k a => { p with m := specStep p.m (.put k a), recency := k :: (without p.recency k).take (p.max - 1) }
  | .flush k => { p with m := specStep p.m (.flush k), recency := without p.recency k }
  | .flushAll => { p with m := specStep p.m .flushAll, recency := [] }
  | .setMax n => { p with max := clampMax n, recency := p.recency.take (clampMax n) }
  | .adv dt => { p with now := p.now + dt }
  | _ => p

def specRunL (p : SpecL) (ops : List Op) : SpecL := ops.foldl specStepL p

/-- what a lookup must return: the most recent stored answer of the key if the key is still held and the answer
has not expired -/
def specGetL (p : SpecL) (k : Key) : Out := if k ∈ p.recency then specGet p.m p.now k else .none

/-- the timed-map component is the history function `specRun`, whatever was evicted or expired -/
theorem specRunL_m (p : SpecL) (ops : List Op) : (specRunL p ops).m = specRun p.m ops := by
  induction ops generalizing p with
  | nil => rfl
  | cons op rest ih =>
    simp only [specRunL, specRun, List.foldl_cons] at ih ⊢
    rw [ih]
    congr 1
    cases op <;> simp only [specStepL, specStep]
    case get k =>
      split
      · split
        · split <;> rfl
        · rfl
      · rfl

theorem keys_removeKey (r : List Node) (k : Key) : (removeKey r k).map (·.key) = without (r.map (·.key)) k := by
  induction r with
  | nil => rfl
  | cons x rest ih =>
    unfold removeKey without at ih ⊢
    simp only [ne_eq, decide_not] at ih ⊢
    by_cases hx : x.key = k <;> simp [hx, ih]

theorem mem_keys_iff_findNode (r : List Node) (k : Key) : k ∈ r.map (·.key) ↔ ∃ n, findNode r k = some n := by
  constructor
  · intro h
    cases hf : findNode r k with
    | some n => exact ⟨n, rfl⟩
    | none =>
      obtain ⟨n, hn, hk⟩ := List.mem_map.mp h
      exact absurd hk (findNode_none hf n hn)
  · rintro ⟨n, hn⟩
    have := findNode_some hn
    exact List.mem_map.mpr ⟨n, this.1, this.2⟩

structure RefLS (s : LState) (p : SpecL) : Prop where
  keys : s.ring.map (·.key) = p.recency
  vals : RefL s p.m
  max : s.maxSize = p.max
  now : s.now = p.now

theorem refLS_step (s : LState) (p : SpecL) (op : Op) (hi : InvL s) (h : RefLS s p) :
    RefLS (stepL s op).1 (specStepL p op) := by
  have hv := refL_step s p.m op hi.maxPos h.vals
  cases op with
  | get k =>
    simp only [specStep] at hv
    simp only [stepL, specStepL] at hv ⊢
    cases hf : findNode s.ring k with
    | none =>
      have hnot : k ∉ p.recency := by
        rw [← h.keys]; intro hm
        obtain ⟨n, hn⟩ := (mem_keys_iff_findNode s.ring k).mp hm
        rw [hf] at hn; cases hn
      rw [hf] at hv
      simp only [hnot, if_false]
      exact ⟨h.keys, hv, h.max, h.now⟩
    | some n =>
      have hn := findNode_some hf
      have hin : k ∈ p.recency := by rw [← h.keys]; exact (mem_keys_iff_findNode s.ring k).mpr ⟨n, hf⟩
      have hm : p.m k = some n.ans := by have := h.vals n hn.1; rw [hn.2] at this; exact this
      rw [hf] at hv
      simp only [hin, if_true, hm, ← h.now]
      by_cases he : n.ans.exp ≤ s.now
      · simp only [he, if_true] at hv ⊢
        exact ⟨by simp only; rw [keys_removeKey, h.keys], hv, h.max, rfl⟩
      · simp only [he, if_false] at hv ⊢
        exact ⟨by simp only [List.map_cons]; rw [keys_removeKey, h.keys, hn.2], hv, h.max, rfl⟩
  | put k a =>
    refine ⟨?_, hv, ?_, ?_⟩
    · rw [stepL_put s k a hi.maxPos]
      simp only [specStepL, List.map_cons, List.map_take]
      rw [keys_removeKey, h.keys, h.max]
    · simp only [stepL, specStepL]; exact h.max
    · simp only [stepL, specStepL]; exact h.now
  | flush k =>
    simp only [stepL, specStepL] at hv ⊢
    exact ⟨by simp only; rw [keys_removeKey, h.keys], hv, h.max, h.now⟩
  | flushAll =>
    simp only [stepL, specStepL] at hv ⊢
    exact ⟨rfl, hv, h.max, h.now⟩
  | setMax n =>
    simp only [specStep] at hv
    simp only [stepL, specStepL] at hv ⊢
    rw [evictTo_eq_take _ (by omega)] at hv ⊢
    exact ⟨by simp only [List.map_take, Nat.add_sub_cancel]; rw [h.keys], hv, rfl, h.now⟩
  | adv dt =>
    simp only [stepL, specStepL, specStep] at hv ⊢
    exact ⟨h.keys, hv, h.max, by simp only; rw [h.now]⟩
  | hits => simp only [stepL, specStepL, specStep] at hv ⊢; exact ⟨h.keys, hv, h.max, h.now⟩
  | misses => simp only [stepL, specStepL, specStep] at hv ⊢; exact ⟨h.keys, hv, h.max, h.now⟩
  | reset => simp only [stepL, specStepL, specStep] at hv ⊢; exact ⟨h.keys, hv, h.max, h.now⟩
  | snapshot => simp only [stepL, specStepL, specStep] at hv ⊢; exact ⟨h.keys, hv, h.max, h.now⟩
  | hitsFor k =>
    simp only [specStep] at hv
    simp only [stepL, specStepL] at hv ⊢
    split
    · rename_i hf; rw [hf] at hv; exact ⟨h.keys, hv, h.max, h.now⟩
    · rename_i n hf
      rw [hf] at hv
      split
      · rename_i he; simp only [he, if_true] at hv; exact ⟨h.keys, hv, h.max, h.now⟩
      · rename_i he; simp only [he, if_false] at hv; exact ⟨h.keys, hv, h.max, h.now⟩

theorem refLS_run (s : LState) (p : SpecL) (ops : List Op) (hi : InvL s) (h : RefLS s p) :
    RefLS (runL s ops).1 (specRunL p ops) := by
  induction ops generalizing s p with
  | nil => exact h
  | cons op rest ih =>
    simp only [runL, specRunL, List.foldl_cons]
    exact ih _ _ (invL_step s op hi) (refLS_step s p op hi h)

theorem refLS_init (n : Int) (t0 : Nat) : RefLS (initL n t0) (specInitL n t0) :=
  { keys := rfl, vals := (fun _ hx => nomatch hx), max := rfl, now := rfl }

theorem get_of_refLS (s : LState) (p : SpecL) (k : Key) (h : RefLS s p) :
    (stepL s (.get k)).2 = specGetL p k := by
  simp only [stepL, specGetL]
  cases hf : findNode s.ring k with
  | none =>
    have hnot : k ∉ p.recency := by
      rw [← h.keys]; intro hm
      obtain ⟨n, hn⟩ := (mem_keys_iff_findNode s.ring k).mp hm
      rw [hf] at hn; cases hn
    simp [hnot]
  | some n =>
    have hn := findNode_some hf
    have hin : k ∈ p.recency := by rw [← h.keys]; exact (mem_keys_iff_findNode s.ring k).mpr ⟨n, hf⟩
    have hm : p.m k = some n.ans := by have := h.vals n hn.1; rw [hn.2] at this; exact this
    simp only [hin, if_true, specGet, hm, ← h.now]
    by_cases he : n.ans.exp ≤ s.now <;> simp [he]

end Model.Cache

namespace Model.Cache

/-! ### per-key hit counts (`LRUCacheNode.hits`, `get_hits_for_key`) -/

/-- what the per-key counter must be: hits of that key since it was last stored -/
def hitsStep (h : Key → Nat) (op : Op) (out : Out) : Key → Nat :=
  match op, out with
  | .put k _, _ => fun k' => if k' = k then 0 else h k'
  | .get k, .val _ => fun k' => if k' = k then h k + 1 else h k'
  | _, _ => h

def hitsSpec (h : Key → Nat) : List (Op × Out) → Key → Nat
  | [] => h
  | (op, out) :: rest => hitsSpec (hitsStep h op out) rest

def HitsOk (s : LState) (h : Key → Nat) : Prop := ∀ n ∈ s.ring, n.hits = h n.key

theorem hitsOk_step (s : LState) (h : Key → Nat) (op : Op) (hm : 1 ≤ s.maxSize) (hk : HitsOk s h) :
    HitsOk (stepL s op).1 (hitsStep h op (stepL s op).2) := by
  cases op with
  | get k =>
    simp only [stepL]
    split
    · exact hk
    · rename_i n hf
      have hn := findNode_some hf
      split
      · simp only [hitsStep]
        exact fun x hx => hk x (mem_removeKey.mp hx).1
      · simp only [hitsStep]
        intro x hx
        rcases List.mem_cons.mp hx with e | hx
        · subst e; simp only [hn.2, if_true]; rw [hk n hn.1, hn.2]
        · have := mem_removeKey.mp hx
          simp only [this.2, if_false]; exact hk x this.1
  | put k a =>
    intro x hx
    rw [stepL_put s k a hm] at hx
    simp only [stepL, hitsStep]
    rcases List.mem_cons.mp hx with e | hx
    · subst e; simp
    · have := mem_removeKey.mp (List.mem_of_mem_take hx)
      simp only [this.2, if_false]; exact hk x this.1
  | flush k => simp only [stepL, hitsStep]; exact fun x hx => hk x (mem_removeKey.mp hx).1
  | flushAll => simp only [stepL, hitsStep]; exact fun x hx => nomatch hx
  | setMax n =>
    simp only [stepL, hitsStep]
    rw [evictTo_eq_take _ (by omega)]
    exact fun x hx => hk x (List.mem_of_mem_take hx)
  | adv dt => exact hk
  | hits => exact hk
  | misses => exact hk
  | hitsFor k =>
    simp only [stepL]
    split
    · exact hk
    · split <;> exact hk
  | reset => exact hk
  | snapshot => exact hk

theorem hitsOk_run (s : LState) (h : Key → Nat) (ops : List Op) (hi : InvL s) (hk : HitsOk s h) :
    HitsOk (runL s ops).1 (hitsSpec h (ops.zip (runL s ops).2)) := by
  induction ops generalizing s h with
  | nil => exact hk
  | cons op rest ih =>
    simp only [runL, List.zip_cons_cons, hitsSpec]
    exact ih _ _ (invL_step s op hi) (hitsOk_step s h op hi.maxPos hk)

end Model.Cache

import Model.Resolver
import Proofs.Resolver
import Proofs.ResolverStep
import Proofs.ResolverRun
import Proofs.ResolverTrace
/-!
Helper lemmas for C16, part 9: `NoNameservers` is raised exactly when every configured nameserver has proved broken
for the current candidate name.
-/
set_option linter.unusedSimpArgs false
namespace Model.Resolver
open Model

/-- the servers that proved broken for the candidate in progress, read off an event list (`B` = those known before) -/
def brokenAfter (env : Env) : List Server → List Event → List Server
  | B, [] => B
  | _, .candidate _ :: es => brokenAfter env [] es
  | B, .sleep _ :: es => brokenAfter env B es
  | B, .query q s tcp _ out :: es => brokenAfter env (if provesBroken env q tcp out then s :: B else B) es

theorem brokenAfter_append (env : Env) : ∀ (a b : List Event) (B : List Server),
    brokenAfter env B (a ++ b) = brokenAfter env (brokenAfter env B a) b
  | [], b, B => rfl
  | .candidate _ :: es, b, B => by simp [brokenAfter, brokenAfter_append env es b]
  | .sleep _ :: es, b, B => by simp [brokenAfter, brokenAfter_append env es b]
  | .query .. :: es, b, B => by simp [brokenAfter, brokenAfter_append env es b]

/-- the monitor's `broken` field is `brokenAfter` -/
theorem monAll_broken (env : Env) : ∀ (es : List Event) (m m' : MonSt), monAll env m es = some m' →
    m'.broken = brokenAfter env m.broken es
  | [], m, m', h => by simp [monAll] at h; subst h; rfl
  | e :: es, m, m', h => by
    obtain ⟨m1, h1, h2⟩ := monAll_cons_some h
    have ih := monAll_broken env es m1 m' h2
    rw [ih]
    cases e with
    | candidate _ =>
      simp only [monStep] at h1
      split at h1
      · cases h1
      · cases h1; rfl
    | sleep _ =>
      simp only [monStep] at h1
      split at h1
      · cases h1
      · cases h1; rfl
    | query q s tcp t out =>
      simp only [monStep] at h1
      split at h1
      · cases h1
      · split at h1
        · cases h1; rfl
        · cases h1

theorem brokenAfter_evs0 (env : Env) (B : List Server) (b ms : Nat) :
    brokenAfter env B (if b ≠ 0 then [Event.sleep ms] else []) = B := by
  split <;> simp [brokenAfter]

/-- coverage: every configured server is still usable or has proved broken for this candidate -/
def Cov (env : Env) (B : List Server) (st : St) : Prop :=
  match st.phase with
  | .needRequest => env.cfg.servers ≠ [] → ∃ s ∈ env.cfg.servers, s ∉ B
  | .querying =>
    (∀ s ∈ st.nameservers, s ∈ env.cfg.servers) ∧ (∀ s ∈ env.cfg.servers, s ∈ st.nameservers ∨ s ∈ B)

theorem afterPick_cov (env : Env) (q : Name) (ns : Server) (tcp : Bool) (b : Nat) (st1 : St) (B : List Server)
    (hq : st1.qname = q) (htcp : st1.tcpAttempt = tcp) (hphase : st1.phase = .querying)
    (hnd : st1.nameservers.Nodup) (hns : ns ∈ st1.nameservers) (hnb : ns ∉ B)
    (hsub : ∀ s ∈ st1.nameservers, s ∈ env.cfg.servers)
    (hcov : ∀ s ∈ env.cfg.servers, s ∈ st1.nameservers ∨ s ∈ B) :
    (∀ evs st', afterPick env q ns tcp b st1 = .cont evs st' → Cov env (brokenAfter env B evs) st') ∧
    (∀ evs r st', afterPick env q ns tcp b st1 = .done evs r st' →
        r ≠ .noNameservers ∧ ns ∉ brokenAfter env B evs) := by
  unfold afterPick
  simp only
  split
  · refine ⟨(fun _ _ h => by cases h), ?_⟩
    intro evs r st' h
    cases h
    exact ⟨by simp, by rw [brokenAfter_evs0]; exact hnb⟩
  · rename_i timeout hto
    generalize doQuery st1.script timeout = dq
    have hbr : ∀ x, brokenAfter env B ((if b ≠ 0 then [Event.sleep (sleepFor env b st1.now)] else []) ++
        [Event.query q ns tcp timeout x]) = if provesBroken env q tcp x then ns :: B else B := by
      intro x
      rw [brokenAfter_append, brokenAfter_evs0]
      simp [brokenAfter]
    split
    · rename_i r st4 hqr
      refine ⟨(fun _ _ h => by cases h), ?_⟩
      intro evs r' st' h
      cases h
      have hnbk := queryResult_decisive_not_broken.1 r st4 hqr
      simp only at hnbk
      rw [hq, htcp] at hnbk
      refine ⟨?_, by rw [hbr, hnbk]; simpa using hnb⟩
      rcases (queryResult_raise hqr).2.2.2.2 with rfl | rfl <;> simp
    · rename_i a d st4 hqr
      refine ⟨(fun _ _ h => by cases h), ?_⟩
      intro evs r' st' h
      cases h
      have hnbk := queryResult_decisive_not_broken.2.1 a d st4 hqr
      simp only at hnbk
      rw [hq, htcp] at hnbk
      exact ⟨by simp, by rw [hbr, hnbk]; simpa using hnb⟩
    · rename_i done st4 hqr
      refine ⟨?_, (fun _ _ _ h => by cases h)⟩
      intro evs st' h
      obtain ⟨hf, _, _⟩ := queryResult_ret_frame hqr
      obtain ⟨f1, _⟩ := hf
      obtain ⟨b1, b2, _⟩ := queryResult_broken hqr
      simp only at f1 b1 b2
      rw [hq, htcp] at b1 b2
      cases h
      rw [hbr]
      cases done
      · simp only [Bool.false_eq_true, if_false]
        unfold Cov
        rw [f1, hphase]
        simp only
        cases hpb : provesBroken env q tcp dq.1
        · rw [b2 hpb]
          simpa using ⟨hsub, hcov⟩
        · rw [b1 hpb]
          simp only [if_true]
          refine ⟨fun s hs => hsub s (List.mem_of_mem_erase hs), ?_⟩
          intro s hs
          rcases hcov s hs with h1 | h1
          · by_cases hsn : s = ns
            · right; rw [hsn]; simp
            · left; rw [hnd.mem_erase_iff]; exact ⟨hsn, h1⟩
          · right; exact List.mem_cons_of_mem _ h1
      · simp only [if_true]
        have hnbk := queryResult_decisive_not_broken.2.2 st4 hqr
        simp only at hnbk
        rw [hq, htcp] at hnbk
        unfold Cov
        simp only [hnbk, Bool.false_eq_true, if_false]
        intro _
        exact ⟨ns, hsub ns hns, hnb⟩

def m0 : MonSt := { broken := [], pending := none }

def InvNoNs (env : Env) (pre : List Event) (st : St) : Prop :=
  ∃ m, monAll env m0 pre = some m ∧ Rel m st ∧ Cov env m.broken st

/-- `NoNameservers` ⇔ every configured server has proved broken for the candidate in progress -/
def PostNoNs (env : Env) (evs : List Event) (r : Result) : Prop :=
  (r = .noNameservers → ∀ s ∈ env.cfg.servers, s ∈ brokenAfter env [] evs) ∧
  (env.cfg.servers ≠ [] → (∀ s ∈ env.cfg.servers, s ∈ brokenAfter env [] evs) → r = .noNameservers)

theorem step_noNs (env : Env) (hnodup : env.cfg.servers.Nodup) (pre : List Event) (st : St)
    (hinv : InvNoNs env pre st) :
    (∀ evs st', step env st = .cont evs st' → InvNoNs env (pre ++ evs) st') ∧
    (∀ evs r st', step env st = .done evs r st' → PostNoNs env (pre ++ evs) r) := by
  obtain ⟨m, hm, hrel, hcov⟩ := hinv
  have hB : m.broken = brokenAfter env [] pre := monAll_broken env pre m0 m hm
  obtain ⟨m', hm', hrel'⟩ := step_mon env hnodup st m hrel
  have hB' : m'.broken = brokenAfter env m.broken (step env st).evs := monAll_broken env _ m m' hm'
  have hpre : ∀ evs, brokenAfter env [] (pre ++ evs) = brokenAfter env m.broken evs := by
    intro evs; rw [brokenAfter_append, ← hB]
  -- the monitor side of the invariant is `step_mon`; what is left is the coverage
  have key : (∀ evs st', step env st = .cont evs st' → Cov env (brokenAfter env m.broken evs) st') ∧
      (∀ evs r st', step env st = .done evs r st' →
        (r = .noNameservers → ∀ s ∈ env.cfg.servers, s ∈ brokenAfter env m.broken evs) ∧
        (env.cfg.servers ≠ [] → (∀ s ∈ env.cfg.servers, s ∈ brokenAfter env m.broken evs) → r = .noNameservers)) := by
    unfold Rel at hrel
    unfold Cov at hcov
    unfold step
    split
    · rename_i hphase
      rw [hphase] at hrel hcov
      simp only at hrel hcov
      have hs := nextRequest_spec env st.qnames st
      have hdone : ∀ r, (r = Result.noAnswer ∨ (∃ nx, r = .nxdomain env.qnamesToTry nx) ∨ ∃ a, r = .answer a) →
          (r = .noNameservers → ∀ s ∈ env.cfg.servers, s ∈ brokenAfter env m.broken []) ∧
          (env.cfg.servers ≠ [] → (∀ s ∈ env.cfg.servers, s ∈ brokenAfter env m.broken []) → r = .noNameservers) := by
        intro r hr
        refine ⟨?_, ?_⟩
        · intro h; rcases hr with rfl | ⟨nx, rfl⟩ | ⟨a, rfl⟩ <;> cases h
        · intro hne hall
          obtain ⟨s, hs1, hs2⟩ := hcov hne
          exact absurd (hall s hs1) hs2
      split
      · rename_i r hr
        rw [hr] at hs
        refine ⟨(fun _ _ h => by cases h), ?_⟩
        intro evs r' st' h
        cases h
        apply hdone
        rcases hs with hs | ⟨nx, h1, _⟩
        · exact Or.inl hs.1
        · exact Or.inr (Or.inl ⟨nx, h1⟩)
      · rename_i a hr
        refine ⟨(fun _ _ h => by cases h), ?_⟩
        intro evs r' st' h
        cases h
        exact hdone _ (Or.inr (Or.inr ⟨a, rfl⟩))
      · rename_i st2 hr
        rw [hr] at hs
        obtain ⟨_, _, p1, p2, _⟩ := hs
        refine ⟨?_, (fun _ _ _ h => by cases h)⟩
        intro evs st' h
        cases h
        unfold Cov
        rw [p1]
        simp only [brokenAfter, p2]
        exact ⟨fun s hs => hs, fun s hs => Or.inl hs⟩
    · rename_i hphase
      rw [hphase] at hrel hcov
      simp only at hrel hcov
      obtain ⟨hnd, hcd, hsub, hbr, hp0, hp1⟩ := hrel
      obtain ⟨hsubS, hcovS⟩ := hcov
      split
      · rename_i r hr
        refine ⟨(fun _ _ h => by cases h), ?_⟩
        intro evs r' st' h
        cases h
        obtain ⟨h1, h2⟩ := nextNameserver_raise hr
        refine ⟨?_, fun _ _ => h1⟩
        intro _ s hs
        simp only [brokenAfter]
        rcases h2 with ⟨_, _, c3⟩ | ⟨c1, c2⟩
        · rcases hcovS s hs with h | h
          · rw [c3] at h; cases h
          · exact h
        · obtain ⟨p, hp, _⟩ := hp1 c1
          rw [c2] at hp; cases hp
      · rename_i ns tcp b st1 hns
        obtain ⟨⟨g1, g2, g3, g4, g5, g6, g7, g8⟩, r1, r2, r3, hcase⟩ := nextNameserver_ok hns
        have hns_mem : ns ∈ st.nameservers := by
          rcases hcase with c | c | c
          · obtain ⟨p, q1, _, q3, _⟩ := hp1 c.1
            have : p = ns := by rw [q1] at c; exact Option.some.inj c.2.1
            exact this ▸ q3
          · exact hsub ns (by rw [c.2.1]; simp)
          · rw [c.2.2.1]; simp
        have hcovr := afterPick_cov env st.qname ns tcp b st1 m.broken g3 r2 (by rw [g1]; exact hphase)
          (by rw [g5]; exact hnd) (by rw [g5]; exact hns_mem) (fun h => hbr ns h hns_mem)
          (by rw [g5]; exact hsubS) (by rw [g5]; exact hcovS)
        refine ⟨hcovr.1, ?_⟩
        intro evs r st' h
        obtain ⟨d1, d2⟩ := hcovr.2 evs r st' h
        refine ⟨fun h => absurd h d1, ?_⟩
        intro _ hall
        exact absurd (hall ns (hsubS ns hns_mem)) d2
  refine ⟨?_, ?_⟩
  · intro evs st' h
    rw [h] at hm' hB'
    simp only [StepR.evs] at hm' hB'
    refine ⟨m', by rw [monAll_append, hm]; simpa using hm', hrel' evs st' h, ?_⟩
    rw [hB']
    exact key.1 evs st' h
  · intro evs r st' h
    unfold PostNoNs
    rw [hpre]
    exact key.2 evs r st' h

/-- `brokenAfter` made explicit: a server in it was known broken before and no new candidate was started, or some
query to it in the list had an outcome that proves it broken and no candidate was started after that query -/
theorem mem_brokenAfter (env : Env) : ∀ (evs : List Event) (B : List Server) (s : Server),
    s ∈ brokenAfter env B evs →
      (s ∈ B ∧ ∀ e ∈ evs, isCandidate e = false) ∨
      (∃ pre q tcp t out post, evs = pre ++ .query q s tcp t out :: post ∧ provesBroken env q tcp out = true ∧
        ∀ e ∈ post, isCandidate e = false)
  | [], B, s, h => Or.inl ⟨h, by simp⟩
  | .candidate c :: es, B, s, h => by
    simp only [brokenAfter] at h
    rcases mem_brokenAfter env es [] s h with ⟨h1, _⟩ | ⟨pre, q, tcp, t, out, post, e1, e2, e3⟩
    · cases h1
    · exact Or.inr ⟨.candidate c :: pre, q, tcp, t, out, post, by simp [e1], e2, e3⟩
  | .sleep ms :: es, B, s, h => by
    simp only [brokenAfter] at h
    rcases mem_brokenAfter env es B s h with ⟨h1, h2⟩ | ⟨pre, q, tcp, t, out, post, e1, e2, e3⟩
    · refine Or.inl ⟨h1, ?_⟩
      intro e he
      rcases List.mem_cons.mp he with rfl | he
      · rfl
      · exact h2 e he
    · exact Or.inr ⟨.sleep ms :: pre, q, tcp, t, out, post, by simp [e1], e2, e3⟩
  | .query q' s' tcp' t' out' :: es, B, s, h => by
    simp only [brokenAfter] at h
    rcases mem_brokenAfter env es _ s h with ⟨h1, h2⟩ | ⟨pre, q, tcp, t, out, post, e1, e2, e3⟩
    · by_cases hpb : provesBroken env q' tcp' out' = true
      · simp only [hpb, if_true] at h1
        rcases List.mem_cons.mp h1 with rfl | h1
        · exact Or.inr ⟨[], q', tcp', t', out', es, by simp, hpb, h2⟩
        · refine Or.inl ⟨h1, ?_⟩
          intro e he
          rcases List.mem_cons.mp he with rfl | he
          · rfl
          · exact h2 e he
      · simp only [hpb, Bool.false_eq_true, if_false] at h1
        refine Or.inl ⟨h1, ?_⟩
        intro e he
        rcases List.mem_cons.mp he with rfl | he
        · rfl
        · exact h2 e he
    · exact Or.inr ⟨.query q' s' tcp' t' out' :: pre, q, tcp, t, out, post, by simp [e1], e2, e3⟩

import Proofs.DnssecBitmap
import Proofs.RdataTextField3
/-! Type bitmaps (NSEC / NSEC3 / CSYNC): the mnemonic list printed by `Bitmap.to_text` is read back by
`Bitmap.from_text` to the same windows, for every canonical window list (C05).  The exactness of `from_rdtypes`
(`fromRdtypes_exact`) comes from the C15 proofs; what is added here is that the canonical window list of a type set is
unique, and that printing enumerates exactly the types of the windows. -/
namespace Model
open Dnssec

/-! ### every octet produced by `from_rdtypes` is an octet -/

def BytesOk (s : BmState) : Prop := (∀ x ∈ s.bitmap, x < 256) ∧ ∀ w ∈ s.windows, ∀ x ∈ w.2, x < 256

theorem shift80_lt (b : Nat) : 0x80 >>> b < 256 := by
  have : 0x80 >>> b ≤ 0x80 := Nat.shiftRight_le _ _
  omega

theorem or_lt_256 (x y : Nat) (hx : x < 256) (hy : y < 256) : x ||| y < 256 :=
  Nat.or_lt_two_pow (n := 8) hx hy

theorem mem_set_lt (l : Bytes) (i v : Nat) (hl : ∀ x ∈ l, x < 256) (hv : v < 256) : ∀ x ∈ l.set i v, x < 256 := by
  intro x hx
  rcases List.mem_or_eq_of_mem_set hx with h | h
  · exact hl x h
  · omega

theorem getD_lt (l : Bytes) (i : Nat) (hl : ∀ x ∈ l, x < 256) : l.getD i 0 < 256 := by
  rw [List.getD_eq_getElem?_getD]
  cases h : l[i]? with
  | none => simp
  | some v => simp; exact hl v (List.mem_of_getElem? h)

theorem bmFlush_bytes (s : BmState) (h : BytesOk s) : ∀ w ∈ bmFlush s, ∀ x ∈ w.2, x < 256 := by
  intro w hw x hx
  unfold bmFlush at hw
  split at hw
  · simp at hw
    rcases hw with hw | hw
    · exact h.2 w hw x hx
    · subst hw; exact h.1 x (List.mem_of_mem_take hx)
  · exact h.2 w hw x hx

theorem bmStep_bytes (s : BmState) (t : Nat) (h : BytesOk s) : BytesOk (bmStep s t) := by
  unfold bmStep
  split
  · exact h
  · have hrep : ∀ x ∈ List.replicate 32 0, x < 256 := by intro x hx; simp at hx; omega
    dsimp only
    by_cases hw : t / 256 ≠ s.window
    · rw [if_pos hw]
      refine ⟨?_, ?_⟩
      · exact mem_set_lt _ _ _ hrep (or_lt_256 _ _ (getD_lt _ _ hrep) (shift80_lt _))
      · exact bmFlush_bytes s h
    · rw [if_neg hw]
      refine ⟨?_, h.2⟩
      exact mem_set_lt _ _ _ h.1 (or_lt_256 _ _ (getD_lt _ _ h.1) (shift80_lt _))

theorem bmFold_bytes (ts : List Nat) (s : BmState) (h : BytesOk s) : BytesOk (ts.foldl bmStep s) := by
  induction ts generalizing s with
  | nil => exact h
  | cons t r ih => exact ih _ (bmStep_bytes s t h)

theorem fromRdtypes_bytes (ts : List Nat) : ∀ w ∈ fromRdtypes ts, ∀ x ∈ w.2, x < 256 := by
  unfold fromRdtypes
  apply bmFlush_bytes
  apply bmFold_bytes
  refine ⟨?_, by simp [bmInit]⟩
  intro x hx; simp [bmInit] at hx; omega

/-! ### the canonical window list of a type set is unique -/

structure CanonW (w : Nat × Bytes) : Prop where
  win : w.1 < 256
  ne : w.2 ≠ []
  len : w.2.length ≤ 32
  last : w.2.getLast? ≠ some 0
  oct : ∀ x ∈ w.2, x < 256

def Canon (ws : List (Nat × Bytes)) : Prop := ws.Pairwise (fun a b => a.1 < b.1) ∧ ∀ w ∈ ws, CanonW w

theorem byte_ext (x y : Nat) (hx : x < 256) (hy : y < 256) (h : ∀ j, j < 8 → msbBit x j = msbBit y j) : x = y := by
  apply Nat.eq_of_testBit_eq
  intro i
  by_cases hi : i < 8
  · have := h (7 - i) (by omega)
    unfold msbBit at this
    have e : 7 - (7 - i) = i := by omega
    rw [e] at this; exact this
  · have h1 : x < 2 ^ i := Nat.lt_of_lt_of_le hx (by
      have : 2 ^ 8 ≤ 2 ^ i := Nat.pow_le_pow_right (by omega) (by omega)
      simpa using this)
    have h2 : y < 2 ^ i := Nat.lt_of_lt_of_le hy (by
      have : 2 ^ 8 ≤ 2 ^ i := Nat.pow_le_pow_right (by omega) (by omega)
      simpa using this)
    rw [Nat.testBit_lt_two_pow h1, Nat.testBit_lt_two_pow h2]

theorem exists_bit (x : Nat) (hx : x < 256) (h0 : x ≠ 0) : ∃ j, j < 8 ∧ msbBit x j = true := by
  apply Classical.byContradiction
  intro hc
  apply h0
  apply byte_ext x 0 hx (by omega)
  intro j hj
  rw [msbBit_zero]
  cases h : msbBit x j with
  | false => rfl
  | true => exact absurd ⟨j, hj, h⟩ hc

theorem getD_len_le (l : Bytes) (k : Nat) (h : l.length ≤ k) : l.getD k 0 = 0 := by
  rw [List.getD_eq_getElem?_getD, List.getElem?_eq_none h]; rfl

theorem type_parts (w k j : Nat) (hk : k < 32) (hj : j < 8) :
    (w * 256 + k * 8 + j) / 256 = w ∧ (w * 256 + k * 8 + j) % 256 / 8 = k ∧ (w * 256 + k * 8 + j) % 8 = j := by
  omega

theorem winHas_iff (w : Nat × Bytes) (k j : Nat) (hk : k < 32) (hj : j < 8) :
    winHas w (w.1 * 256 + k * 8 + j) ↔ msbBit (w.2.getD k 0) j = true := by
  obtain ⟨a, b, c⟩ := type_parts w.1 k j hk hj
  unfold winHas
  rw [a, b, c]
  simp

theorem canonW_has (w : Nat × Bytes) (h : CanonW w) : ∃ t, winHas w t := by
  have hpos : 0 < w.2.length := List.length_pos_iff.mpr h.ne
  have hl : w.2.getLast? = some (w.2.getD (w.2.length - 1) 0) := by
    rw [List.getLast?_eq_getElem?, List.getD_eq_getElem?_getD, List.getElem?_eq_getElem (by omega)]
    rfl
  have hne : w.2.getD (w.2.length - 1) 0 ≠ 0 := by
    intro e; apply h.last; rw [hl, e]
  have hlt : w.2.getD (w.2.length - 1) 0 < 256 := getD_lt _ _ h.oct
  obtain ⟨j, hj, hb⟩ := exists_bit _ hlt hne
  exact ⟨w.1 * 256 + (w.2.length - 1) * 8 + j, (winHas_iff w _ j (by have := h.len; omega) hj).mpr hb⟩

theorem winHas_win (w : Nat × Bytes) (t : Nat) (h : winHas w t) : t / 256 = w.1 := h.1.symm

theorem bitmap_eq (a b : Nat × Bytes) (ha : CanonW a) (hb : CanonW b) (hw : a.1 = b.1)
    (h : ∀ t, winHas a t ↔ winHas b t) : a.2 = b.2 := by
  have hget : ∀ k, a.2.getD k 0 = b.2.getD k 0 := by
    intro k
    by_cases hk : k < 32
    · apply byte_ext _ _ (getD_lt _ _ ha.oct) (getD_lt _ _ hb.oct)
      intro j hj
      have h1 := winHas_iff a k j hk hj
      have h2 := winHas_iff b k j hk hj
      rw [← hw] at h2
      have := (h (a.1 * 256 + k * 8 + j))
      cases hx : msbBit (a.2.getD k 0) j with
      | true =>
        have := h2.mp (this.mp (h1.mpr hx))
        rw [this]
      | false =>
        cases hy : msbBit (b.2.getD k 0) j with
        | false => rfl
        | true =>
          have := h1.mp (this.mpr (h2.mpr hy))
          rw [hx] at this; cases this
    · rw [getD_len_le _ _ (by have := ha.len; omega), getD_len_le _ _ (by have := hb.len; omega)]
  have lastne : ∀ w : Nat × Bytes, CanonW w → w.2.getD (w.2.length - 1) 0 ≠ 0 := by
    intro w hc
    have hpos : 0 < w.2.length := List.length_pos_iff.mpr hc.ne
    have hl : w.2.getLast? = some (w.2.getD (w.2.length - 1) 0) := by
      rw [List.getLast?_eq_getElem?, List.getD_eq_getElem?_getD, List.getElem?_eq_getElem (by omega)]
      rfl
    intro e; apply hc.last; rw [hl, e]
  have hposa : 0 < a.2.length := List.length_pos_iff.mpr ha.ne
  have hposb : 0 < b.2.length := List.length_pos_iff.mpr hb.ne
  have hlen : a.2.length = b.2.length := by
    rcases Nat.lt_trichotomy a.2.length b.2.length with h1 | h1 | h1
    · exfalso
      apply lastne b hb
      rw [← hget, getD_len_le _ _ (by omega)]
    · exact h1
    · exfalso
      apply lastne a ha
      rw [hget, getD_len_le _ _ (by omega)]
  apply List.ext_getElem hlen
  intro i h1 h2
  have := hget i
  rw [List.getD_eq_getElem?_getD, List.getD_eq_getElem?_getD, List.getElem?_eq_getElem h1, List.getElem?_eq_getElem h2] at this
  simpa using this

theorem canon_ext (A B : List (Nat × Bytes)) (hA : Canon A) (hB : Canon B)
    (h : ∀ t, bitmapHas A t ↔ bitmapHas B t) : A = B := by
  induction A generalizing B with
  | nil =>
    cases B with
    | nil => rfl
    | cons b bs =>
      exfalso
      obtain ⟨t, ht⟩ := canonW_has b (hB.2 b (by simp))
      have : bitmapHas [] t := (h t).mpr ⟨b, by simp, ht⟩
      obtain ⟨w, hw, _⟩ := this
      simp at hw
  | cons a as ih =>
    cases B with
    | nil =>
      exfalso
      obtain ⟨t, ht⟩ := canonW_has a (hA.2 a (by simp))
      have : bitmapHas [] t := (h t).mp ⟨a, by simp, ht⟩
      obtain ⟨w, hw, _⟩ := this
      simp at hw
    | cons b bs =>
      have ca := hA.2 a (by simp)
      have cb := hB.2 b (by simp)
      have hpa := List.pairwise_cons.mp hA.1
      have hpb := List.pairwise_cons.mp hB.1
      -- the first windows have the same number
      have le1 : b.1 ≤ a.1 := by
        obtain ⟨t, ht⟩ := canonW_has a ca
        obtain ⟨w, hw, hwt⟩ := (h t).mp ⟨a, by simp, ht⟩
        have e1 := winHas_win a t ht
        have e2 := winHas_win w t hwt
        simp at hw
        rcases hw with rfl | hw
        · omega
        · have := hpb.1 w hw; omega
      have le2 : a.1 ≤ b.1 := by
        obtain ⟨t, ht⟩ := canonW_has b cb
        obtain ⟨w, hw, hwt⟩ := (h t).mpr ⟨b, by simp, ht⟩
        have e1 := winHas_win b t ht
        have e2 := winHas_win w t hwt
        simp at hw
        rcases hw with rfl | hw
        · omega
        · have := hpa.1 w hw; omega
      have hwin : a.1 = b.1 := by omega
      have hsame : ∀ t, winHas a t ↔ winHas b t := by
        intro t
        constructor
        · intro ht
          obtain ⟨w, hw, hwt⟩ := (h t).mp ⟨a, by simp, ht⟩
          simp at hw
          rcases hw with rfl | hw
          · exact hwt
          · have := hpb.1 w hw
            have e1 := winHas_win a t ht
            have e2 := winHas_win w t hwt
            omega
        · intro ht
          obtain ⟨w, hw, hwt⟩ := (h t).mpr ⟨b, by simp, ht⟩
          simp at hw
          rcases hw with rfl | hw
          · exact hwt
          · have := hpa.1 w hw
            have e1 := winHas_win b t ht
            have e2 := winHas_win w t hwt
            omega
      have hbm := bitmap_eq a b ca cb hwin hsame
      have hab : a = b := Prod.ext hwin hbm
      subst hab
      congr 1
      apply ih bs ⟨hpa.2, fun w hw => hA.2 w (by simp [hw])⟩ ⟨hpb.2, fun w hw => hB.2 w (by simp [hw])⟩
      intro t
      constructor
      · intro ⟨w, hw, hwt⟩
        obtain ⟨v, hv, hvt⟩ := (h t).mp ⟨w, by simp [hw], hwt⟩
        simp at hv
        rcases hv with rfl | hv
        · have := hpa.1 w hw
          have e1 := winHas_win v t hvt
          have e2 := winHas_win w t hwt
          omega
        · exact ⟨v, hv, hvt⟩
      · intro ⟨w, hw, hwt⟩
        obtain ⟨v, hv, hvt⟩ := (h t).mpr ⟨w, by simp [hw], hwt⟩
        simp at hv
        rcases hv with rfl | hv
        · have := hpb.1 w hw
          have e1 := winHas_win v t hvt
          have e2 := winHas_win w t hwt
          omega
        · exact ⟨v, hv, hvt⟩

/-! ### printing enumerates exactly the types of the windows -/

theorem mem_windowTypesFrom (w : Nat) (bm : Bytes) (i t : Nat) :
    t ∈ windowTypesFrom w i bm ↔ ∃ k j, k < bm.length ∧ j < 8 ∧ msbBit (bm.getD k 0) j = true ∧ t = w * 256 + (i + k) * 8 + j := by
  induction bm generalizing i with
  | nil => simp [windowTypesFrom]
  | cons byte rest ih =>
    simp only [windowTypesFrom, List.mem_append, List.mem_map, List.mem_filter, List.mem_range, ih]
    constructor
    · rintro (⟨j, ⟨hj, hb⟩, rfl⟩ | ⟨k, j, hk, hj, hb, rfl⟩)
      · exact ⟨0, j, by simp, hj, by simpa [msbBit] using hb, by simp⟩
      · refine ⟨k + 1, j, by simp; omega, hj, by simpa using hb, by omega⟩
    · rintro ⟨k, j, hk, hj, hb, rfl⟩
      cases k with
      | zero => exact Or.inl ⟨j, ⟨hj, by simpa [msbBit] using hb⟩, by simp⟩
      | succ k' =>
        refine Or.inr ⟨k', j, by simp at hk; omega, hj, by simpa using hb, by omega⟩

theorem mem_windowTypes (w : Nat × Bytes) (hlen : w.2.length ≤ 32) (t : Nat) : t ∈ windowTypes w ↔ winHas w t := by
  unfold windowTypes
  rw [mem_windowTypesFrom]
  constructor
  · rintro ⟨k, j, hk, hj, hb, rfl⟩
    have hk32 : k < 32 := by omega
    have := (winHas_iff w k j hk32 hj).mpr hb
    simpa using this
  · intro h
    have hw := h.1
    have hb := h.2
    have hk : t % 256 / 8 < w.2.length := by
      apply Classical.byContradiction
      intro hc
      rw [getD_len_le _ _ (by omega), msbBit_zero] at hb
      cases hb
    refine ⟨t % 256 / 8, t % 8, hk, by omega, hb, ?_⟩
    rw [hw]; omega

/-- a window list as `Bitmap.from_wire_parser`/`from_text` produce it and that text can express: canonical, and without
the bit of type 0 -/
def WfWins (ws : List (Nat × Bytes)) : Prop :=
  Canon ws ∧ ∀ w ∈ ws, w.1 = 0 → msbBit (w.2.getD 0 0) 0 = false

theorem allTypes_spec (ws : List (Nat × Bytes)) (h : WfWins ws) :
    (∀ t, t ∈ ws.flatMap windowTypes ↔ bitmapHas ws t) ∧ (∀ t ∈ ws.flatMap windowTypes, 0 < t ∧ t < 65536) := by
  have hmem : ∀ t, t ∈ ws.flatMap windowTypes ↔ bitmapHas ws t := by
    intro t
    simp only [List.mem_flatMap, bitmapHas]
    constructor
    · rintro ⟨w, hw, ht⟩
      exact ⟨w, hw, (mem_windowTypes w (h.1.2 w hw).len t).mp ht⟩
    · rintro ⟨w, hw, ht⟩
      exact ⟨w, hw, (mem_windowTypes w (h.1.2 w hw).len t).mpr ht⟩
  refine ⟨hmem, ?_⟩
  intro t ht
  obtain ⟨w, hw, hwt⟩ := (hmem t).mp ht
  have hc := h.1.2 w hw
  have h1 := hwt.1
  constructor
  · apply Classical.byContradiction
    intro h0
    have e : t = 0 := by omega
    subst e
    have hb : msbBit (w.2.getD (0 % 256 / 8) 0) (0 % 8) = true := hwt.2
    have h1' : w.1 = 0 := by simpa using h1
    have := h.2 w hw h1'
    have e : w.2.getD (0 % 256 / 8) 0 = w.2.getD 0 0 := rfl
    rw [e, show (0 % 8 = 0) from rfl, this] at hb; cases hb
  · have := hc.win
    omega

theorem fromRdtypes_windows (ws : List (Nat × Bytes)) (h : WfWins ws) : fromRdtypes (ws.flatMap windowTypes) = ws := by
  obtain ⟨hmem, hrange⟩ := allTypes_spec ws h
  obtain ⟨e1, e2, e3⟩ := fromRdtypes_exact (ws.flatMap windowTypes) hrange
  have hb := fromRdtypes_bytes (ws.flatMap windowTypes)
  apply canon_ext _ _ ?_ h.1
  · intro t; rw [e1 t, hmem t]
  · refine ⟨e2, ?_⟩
    intro w hw
    obtain ⟨a, b, c, d⟩ := e3 w hw
    exact ⟨a, b, c, d, hb w hw⟩

/-! ### the bitmap tail: text, tokens, parse -/

theorem headNotHash_identToks' (chunks : List (List Nat)) (h : ∀ ch ∈ chunks, Plain ch) :
    ∀ t, (identToks chunks).head? = some t → NotHash t := by
  intro t ht
  cases chunks with
  | nil => simp [identToks] at ht
  | cons c cs =>
    simp [identToks] at ht; subst ht
    exact notHash_plain c (h c (by simp))


theorem joinSep_append (sep : List Nat) (a b : List (List Nat)) (ha : a ≠ []) (hb : b ≠ []) :
    joinSep sep (a ++ b) = joinSep sep a ++ sep ++ joinSep sep b := by
  induction a with
  | nil => exact absurd rfl ha
  | cons x xs ih =>
    cases xs with
    | nil =>
      cases b with
      | nil => exact absurd rfl hb
      | cons y ys => simp [joinSep]
    | cons z zs =>
      have := ih (by simp)
      simp only [List.cons_append] at this ⊢
      simp only [joinSep] at this ⊢
      rw [this]; simp

theorem flatMap_sp_join (Ls : List (List (List Nat))) (hne : ∀ l ∈ Ls, l ≠ []) (h0 : Ls ≠ []) :
    Ls.flatMap (fun l => 32 :: joinSep [32] l) = 32 :: joinSep [32] Ls.flatten := by
  induction Ls with
  | nil => exact absurd rfl h0
  | cons l rest ih =>
    have hl := hne l (by simp)
    cases rest with
    | nil => simp
    | cons m ms =>
      have := ih (fun x hx => hne x (by simp [hx])) (by simp)
      rw [List.flatMap_cons, this]
      have hfl : (m :: ms).flatten ≠ [] := by
        have hm := hne m (by simp)
        cases m with
        | nil => exact absurd rfl hm
        | cons a as => simp
      have e : (l :: m :: ms).flatten = l ++ (m :: ms).flatten := by simp
      rw [e, joinSep_append [32] l _ hl hfl]
      simp

theorem windowTypes_ne_nil (w : Nat × Bytes) (h : CanonW w) : windowTypes w ≠ [] := by
  obtain ⟨t, ht⟩ := canonW_has w h
  have := (mem_windowTypes w h.len t).mpr ht
  intro e; rw [e] at this; simp at this

def bitmapNames (ws : List (Nat × Bytes)) : List (List Nat) := (ws.flatMap windowTypes).map rdtypeToText

theorem bitmapText_eq (ws : List (Nat × Bytes)) (h : WfWins ws) (hne : ws ≠ []) :
    bitmapText ws = 32 :: joinSep [32] (bitmapNames ws) := by
  unfold bitmapText bitmapNames
  have h1 : (ws.flatMap fun w => 32 :: joinSep [32] ((windowTypes w).map rdtypeToText)) =
      (ws.map fun w => (windowTypes w).map rdtypeToText).flatMap (fun l => 32 :: joinSep [32] l) := by
    rw [List.flatMap_map]
  rw [h1, flatMap_sp_join _ ?_ (by simpa using hne)]
  · congr 2
    rw [List.map_flatMap]
    simp [List.flatMap, List.map_map]
  · intro l hl
    simp only [List.mem_map] at hl
    obtain ⟨w, hw, rfl⟩ := hl
    have := windowTypes_ne_nil w (h.1.2 w hw)
    simpa using this

theorem bitmap_types_parse (ts : List Nat) (h : ∀ t ∈ ts, 0 < t ∧ t < 65536) :
    parseTail.types (identToks (ts.map rdtypeToText)) = some ts := by
  induction ts with
  | nil => simp [identToks, parseTail.types]
  | cons t r ih =>
    obtain ⟨h0, h1⟩ := h t (by simp)
    obtain ⟨a, b, _⟩ := rdtype_rt t (by omega)
    have ih' := ih (fun x hx => h x (by simp [hx]))
    have hne : t ≠ 0 := by omega
    have e : identToks ((t :: r).map rdtypeToText) = ⟨.ident, rdtypeToText t⟩ :: identToks (r.map rdtypeToText) := by
      simp [identToks]
    rw [e]
    simp only [parseTail.types, unescapeCP_plain_all _ b, a, ih', hne, if_false]

theorem bitmap_tail_rt (vals : List FV) (ws : List (Nat × Bytes)) (h : WfWins ws) :
    (ws.all fun w => (windowTypes w).all fun t => decide (t ≤ 65535)) = true ∧
    (ws ≠ [] → Lexes (joinSep [32] (bitmapNames ws)) (identToks (bitmapNames ws))) ∧
    parseTail vals .bitmap (identToks (bitmapNames ws)) = some (some (.wl ws)) ∧
    (∀ t, (identToks (bitmapNames ws)).head? = some t → NotHash t) := by
  obtain ⟨hmem, hrange⟩ := allTypes_spec ws h
  have hplain : ∀ ch ∈ bitmapNames ws, ch ≠ [] ∧ Plain ch := by
    intro ch hch
    simp only [bitmapNames, List.mem_map] at hch
    obtain ⟨t, ht, rfl⟩ := hch
    obtain ⟨_, b, c⟩ := rdtype_rt t (by have := hrange t ht; omega)
    exact ⟨c, b⟩
  refine ⟨?_, ?_, ?_, ?_⟩
  · rw [List.all_eq_true]
    intro w hw
    rw [List.all_eq_true]
    intro t ht
    have := hrange t (List.mem_flatMap.mpr ⟨w, hw, ht⟩)
    simp; omega
  · intro _
    exact lexes_joinSep_chunks _ [32] blanks_space (by simp) hplain
  · have := bitmap_types_parse (ws.flatMap windowTypes) hrange
    simp only [parseTail, bitmapNames, this, Option.map_some, fromRdtypes_windows ws h]
  · exact headNotHash_identToks' _ (fun ch hch => (hplain ch hch).2)

/-! ### NSEC3 next hashed owner (base32hex) -/

def B32C (c : Nat) : Prop := (48 ≤ c ∧ c ≤ 57) ∨ (97 ≤ c ∧ c ≤ 118)

theorem b32Char_range (v : Nat) (hv : v < 32) : B32C (b32Char v) := by
  unfold b32Char B32C
  by_cases h : v < 10
  · simp [h]; omega
  · simp [h]; omega

theorem b32hexEncode_range (s : Bytes) (hs : ∀ x ∈ s, x < 256) : ∀ c ∈ b32hexEncode s, B32C c := by
  fun_induction b32hexEncode s with
  | case1 => intro c hc; simp at hc
  | case2 a =>
    have ha := hs a (by simp)
    intro c hc; simp at hc
    rcases hc with e | e <;> subst e <;> exact b32Char_range _ (by omega)
  | case3 a b =>
    have ha := hs a (by simp); have hb := hs b (by simp)
    intro c hc; simp at hc
    rcases hc with e | e | e | e <;> subst e <;> exact b32Char_range _ (by omega)
  | case4 a b c =>
    have ha := hs a (by simp); have hb := hs b (by simp); have hc' := hs c (by simp)
    intro x hx; simp at hx
    rcases hx with e | e | e | e | e <;> subst e <;> exact b32Char_range _ (by omega)
  | case5 a b c d =>
    have ha := hs a (by simp); have hb := hs b (by simp); have hc' := hs c (by simp); have hd := hs d (by simp)
    intro x hx; simp at hx
    rcases hx with e | e | e | e | e | e | e <;> subst e <;> exact b32Char_range _ (by omega)
  | case6 a b c d e rest ih =>
    have ha := hs a (by simp); have hb := hs b (by simp); have hc' := hs c (by simp); have hd := hs d (by simp)
    have he := hs e (by simp)
    intro x hx; simp at hx
    rcases hx with h | h | h | h | h | h | h | h | h
    · subst h; exact b32Char_range _ (by omega)
    · subst h; exact b32Char_range _ (by omega)
    · subst h; exact b32Char_range _ (by omega)
    · subst h; exact b32Char_range _ (by omega)
    · subst h; exact b32Char_range _ (by omega)
    · subst h; exact b32Char_range _ (by omega)
    · subst h; exact b32Char_range _ (by omega)
    · subst h; exact b32Char_range _ (by omega)
    · exact ih (fun y hy => hs y (by simp [hy])) x h

theorem b32hexEncode_plain (s : Bytes) (hs : ∀ x ∈ s, x < 256) : Plain (b32hexEncode s) := by
  intro c hc
  have := b32hexEncode_range s hs c hc
  unfold B32C at this
  simp [isDelim]; omega

theorem b32hexEncode_ne_nil (s : Bytes) (h : s ≠ []) : b32hexEncode s ≠ [] := by
  match s, h with
  | [_], _ => simp [b32hexEncode]
  | [_, _], _ => simp [b32hexEncode]
  | [_, _, _], _ => simp [b32hexEncode]
  | [_, _, _, _], _ => simp [b32hexEncode]
  | _ :: _ :: _ :: _ :: _ :: _, _ => simp [b32hexEncode]

/-- the NSEC3 `next` field; `hcodec` is the base32 contract `b32decode(b32encode(s)) = s` on this value (the model's
codec is executable, so the hypothesis is decidable for any concrete value; `base64.b32*` itself is external) -/
theorem field_b32hex (st : Style) (env : PEnv) (s : Bytes) (hs : ∀ x ∈ s, x < 256) (hne : s ≠ []) (hl : s.length ≤ 255)
    (hcodec : b32hexDecode (b32hexEncode s) = some s) :
    FieldRT st env .b32hex (.b s) (b32hexEncode s) ⟨.ident, b32hexEncode s⟩ := by
  have hp := b32hexEncode_plain s hs
  refine ⟨rfl, lexes_plain _ (b32hexEncode_ne_nil s hne) hp, ?_, notHash_plain _ hp⟩
  have h128 : (b32hexEncode s).any (fun c => decide (c ≥ 128)) = false := by
    rw [List.any_eq_false]
    intro c hc
    have := b32hexEncode_range s hs c hc
    unfold B32C at this
    simp; omega
  have hle : ¬ s.length > 255 := by omega
  simp [parseField, parseFieldExtra, unescapeCP_plain_all _ hp, h128, hcodec, hle]

end Model

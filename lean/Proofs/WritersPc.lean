import Model.Writers
/-! Program-point classes of the writer-admission model and their evaluation lemmas (generated text, kept static). -/
namespace Model.Writers

/-- program points at which the thread holds `_version_lock` -/
def holdsLock : Pc → Bool
  | .wTest | .wMkTxn | .wClrEv | .wRelA | .wNewEv | .wAppend | .wRelB | .cAppend | .cPrune | .cNodes | .eTxnNone | .eTestW | .ePop | .eSet | .eRel | .rdPick | .rdAdd | .rdRel | .xRemove | .xPrune | .xRel => true
  | _ => false

@[simp, grind =] theorem holdsLock_idle : holdsLock .idle = false := rfl
@[simp, grind =] theorem holdsLock_wInit : holdsLock .wInit = false := rfl
@[simp, grind =] theorem holdsLock_wAcq : holdsLock .wAcq = false := rfl
@[simp, grind =] theorem holdsLock_wTest : holdsLock .wTest = true := rfl
@[simp, grind =] theorem holdsLock_wMkTxn : holdsLock .wMkTxn = true := rfl
@[simp, grind =] theorem holdsLock_wClrEv : holdsLock .wClrEv = true := rfl
@[simp, grind =] theorem holdsLock_wRelA : holdsLock .wRelA = true := rfl
@[simp, grind =] theorem holdsLock_wNewEv : holdsLock .wNewEv = true := rfl
@[simp, grind =] theorem holdsLock_wAppend : holdsLock .wAppend = true := rfl
@[simp, grind =] theorem holdsLock_wRelB : holdsLock .wRelB = true := rfl
@[simp, grind =] theorem holdsLock_wWait : holdsLock .wWait = false := rfl
@[simp, grind =] theorem holdsLock_wSetupId : holdsLock .wSetupId = false := rfl
@[simp, grind =] theorem holdsLock_wSetupCopy : holdsLock .wSetupCopy = false := rfl
@[simp, grind =] theorem holdsLock_wReturn : holdsLock .wReturn = false := rfl
@[simp, grind =] theorem holdsLock_wBody : holdsLock .wBody = false := rfl
@[simp, grind =] theorem holdsLock_cAcq : holdsLock .cAcq = false := rfl
@[simp, grind =] theorem holdsLock_cAppend : holdsLock .cAppend = true := rfl
@[simp, grind =] theorem holdsLock_cPrune : holdsLock .cPrune = true := rfl
@[simp, grind =] theorem holdsLock_cNodes : holdsLock .cNodes = true := rfl
@[simp, grind =] theorem holdsLock_rAcq : holdsLock .rAcq = false := rfl
@[simp, grind =] theorem holdsLock_eTxnNone : holdsLock .eTxnNone = true := rfl
@[simp, grind =] theorem holdsLock_eTestW : holdsLock .eTestW = true := rfl
@[simp, grind =] theorem holdsLock_ePop : holdsLock .ePop = true := rfl
@[simp, grind =] theorem holdsLock_eSet : holdsLock .eSet = true := rfl
@[simp, grind =] theorem holdsLock_eRel : holdsLock .eRel = true := rfl
@[simp, grind =] theorem holdsLock_rdAcq : holdsLock .rdAcq = false := rfl
@[simp, grind =] theorem holdsLock_rdPick : holdsLock .rdPick = true := rfl
@[simp, grind =] theorem holdsLock_rdAdd : holdsLock .rdAdd = true := rfl
@[simp, grind =] theorem holdsLock_rdRel : holdsLock .rdRel = true := rfl
@[simp, grind =] theorem holdsLock_rdRet : holdsLock .rdRet = false := rfl
@[simp, grind =] theorem holdsLock_rdBody : holdsLock .rdBody = false := rfl
@[simp, grind =] theorem holdsLock_xAcq : holdsLock .xAcq = false := rfl
@[simp, grind =] theorem holdsLock_xRemove : holdsLock .xRemove = true := rfl
@[simp, grind =] theorem holdsLock_xPrune : holdsLock .xPrune = true := rfl
@[simp, grind =] theorem holdsLock_xRel : holdsLock .xRel = true := rfl
@[simp, grind =] theorem holdsLock_done : holdsLock .done = false := rfl

/-- program points at which the thread owns the open write transaction (`_write_txn`) -/
def isOwner : Pc → Bool
  | .wClrEv | .wRelA | .wSetupId | .wSetupCopy | .wReturn | .wBody | .cAcq | .cAppend | .cPrune | .cNodes | .rAcq | .eTxnNone => true
  | _ => false

@[simp, grind =] theorem isOwner_idle : isOwner .idle = false := rfl
@[simp, grind =] theorem isOwner_wInit : isOwner .wInit = false := rfl
@[simp, grind =] theorem isOwner_wAcq : isOwner .wAcq = false := rfl
@[simp, grind =] theorem isOwner_wTest : isOwner .wTest = false := rfl
@[simp, grind =] theorem isOwner_wMkTxn : isOwner .wMkTxn = false := rfl
@[simp, grind =] theorem isOwner_wClrEv : isOwner .wClrEv = true := rfl
@[simp, grind =] theorem isOwner_wRelA : isOwner .wRelA = true := rfl
@[simp, grind =] theorem isOwner_wNewEv : isOwner .wNewEv = false := rfl
@[simp, grind =] theorem isOwner_wAppend : isOwner .wAppend = false := rfl
@[simp, grind =] theorem isOwner_wRelB : isOwner .wRelB = false := rfl
@[simp, grind =] theorem isOwner_wWait : isOwner .wWait = false := rfl
@[simp, grind =] theorem isOwner_wSetupId : isOwner .wSetupId = true := rfl
@[simp, grind =] theorem isOwner_wSetupCopy : isOwner .wSetupCopy = true := rfl
@[simp, grind =] theorem isOwner_wReturn : isOwner .wReturn = true := rfl
@[simp, grind =] theorem isOwner_wBody : isOwner .wBody = true := rfl
@[simp, grind =] theorem isOwner_cAcq : isOwner .cAcq = true := rfl
@[simp, grind =] theorem isOwner_cAppend : isOwner .cAppend = true := rfl
@[simp, grind =] theorem isOwner_cPrune : isOwner .cPrune = true := rfl
@[simp, grind =] theorem isOwner_cNodes : isOwner .cNodes = true := rfl
@[simp, grind =] theorem isOwner_rAcq : isOwner .rAcq = true := rfl
@[simp, grind =] theorem isOwner_eTxnNone : isOwner .eTxnNone = true := rfl
@[simp, grind =] theorem isOwner_eTestW : isOwner .eTestW = false := rfl
@[simp, grind =] theorem isOwner_ePop : isOwner .ePop = false := rfl
@[simp, grind =] theorem isOwner_eSet : isOwner .eSet = false := rfl
@[simp, grind =] theorem isOwner_eRel : isOwner .eRel = false := rfl
@[simp, grind =] theorem isOwner_rdAcq : isOwner .rdAcq = false := rfl
@[simp, grind =] theorem isOwner_rdPick : isOwner .rdPick = false := rfl
@[simp, grind =] theorem isOwner_rdAdd : isOwner .rdAdd = false := rfl
@[simp, grind =] theorem isOwner_rdRel : isOwner .rdRel = false := rfl
@[simp, grind =] theorem isOwner_rdRet : isOwner .rdRet = false := rfl
@[simp, grind =] theorem isOwner_rdBody : isOwner .rdBody = false := rfl
@[simp, grind =] theorem isOwner_xAcq : isOwner .xAcq = false := rfl
@[simp, grind =] theorem isOwner_xRemove : isOwner .xRemove = false := rfl
@[simp, grind =] theorem isOwner_xPrune : isOwner .xPrune = false := rfl
@[simp, grind =] theorem isOwner_xRel : isOwner .xRel = false := rfl
@[simp, grind =] theorem isOwner_done : isOwner .done = false := rfl

/-- program points of a writer whose event is in the waiter queue -/
def queuedPc : Pc → Bool
  | .wRelB | .wWait => true
  | _ => false

@[simp, grind =] theorem queuedPc_idle : queuedPc .idle = false := rfl
@[simp, grind =] theorem queuedPc_wInit : queuedPc .wInit = false := rfl
@[simp, grind =] theorem queuedPc_wAcq : queuedPc .wAcq = false := rfl
@[simp, grind =] theorem queuedPc_wTest : queuedPc .wTest = false := rfl
@[simp, grind =] theorem queuedPc_wMkTxn : queuedPc .wMkTxn = false := rfl
@[simp, grind =] theorem queuedPc_wClrEv : queuedPc .wClrEv = false := rfl
@[simp, grind =] theorem queuedPc_wRelA : queuedPc .wRelA = false := rfl
@[simp, grind =] theorem queuedPc_wNewEv : queuedPc .wNewEv = false := rfl
@[simp, grind =] theorem queuedPc_wAppend : queuedPc .wAppend = false := rfl
@[simp, grind =] theorem queuedPc_wRelB : queuedPc .wRelB = true := rfl
@[simp, grind =] theorem queuedPc_wWait : queuedPc .wWait = true := rfl
@[simp, grind =] theorem queuedPc_wSetupId : queuedPc .wSetupId = false := rfl
@[simp, grind =] theorem queuedPc_wSetupCopy : queuedPc .wSetupCopy = false := rfl
@[simp, grind =] theorem queuedPc_wReturn : queuedPc .wReturn = false := rfl
@[simp, grind =] theorem queuedPc_wBody : queuedPc .wBody = false := rfl
@[simp, grind =] theorem queuedPc_cAcq : queuedPc .cAcq = false := rfl
@[simp, grind =] theorem queuedPc_cAppend : queuedPc .cAppend = false := rfl
@[simp, grind =] theorem queuedPc_cPrune : queuedPc .cPrune = false := rfl
@[simp, grind =] theorem queuedPc_cNodes : queuedPc .cNodes = false := rfl
@[simp, grind =] theorem queuedPc_rAcq : queuedPc .rAcq = false := rfl
@[simp, grind =] theorem queuedPc_eTxnNone : queuedPc .eTxnNone = false := rfl
@[simp, grind =] theorem queuedPc_eTestW : queuedPc .eTestW = false := rfl
@[simp, grind =] theorem queuedPc_ePop : queuedPc .ePop = false := rfl
@[simp, grind =] theorem queuedPc_eSet : queuedPc .eSet = false := rfl
@[simp, grind =] theorem queuedPc_eRel : queuedPc .eRel = false := rfl
@[simp, grind =] theorem queuedPc_rdAcq : queuedPc .rdAcq = false := rfl
@[simp, grind =] theorem queuedPc_rdPick : queuedPc .rdPick = false := rfl
@[simp, grind =] theorem queuedPc_rdAdd : queuedPc .rdAdd = false := rfl
@[simp, grind =] theorem queuedPc_rdRel : queuedPc .rdRel = false := rfl
@[simp, grind =] theorem queuedPc_rdRet : queuedPc .rdRet = false := rfl
@[simp, grind =] theorem queuedPc_rdBody : queuedPc .rdBody = false := rfl
@[simp, grind =] theorem queuedPc_xAcq : queuedPc .xAcq = false := rfl
@[simp, grind =] theorem queuedPc_xRemove : queuedPc .xRemove = false := rfl
@[simp, grind =] theorem queuedPc_xPrune : queuedPc .xPrune = false := rfl
@[simp, grind =] theorem queuedPc_xRel : queuedPc .xRel = false := rfl
@[simp, grind =] theorem queuedPc_done : queuedPc .done = false := rfl

/-- program points of the writer whose event is `_write_event` (the exclusive right to proceed) -/
def tokenPc : Pc → Bool
  | .wWait | .wAcq | .wTest | .wMkTxn | .wClrEv => true
  | _ => false

@[simp, grind =] theorem tokenPc_idle : tokenPc .idle = false := rfl
@[simp, grind =] theorem tokenPc_wInit : tokenPc .wInit = false := rfl
@[simp, grind =] theorem tokenPc_wAcq : tokenPc .wAcq = true := rfl
@[simp, grind =] theorem tokenPc_wTest : tokenPc .wTest = true := rfl
@[simp, grind =] theorem tokenPc_wMkTxn : tokenPc .wMkTxn = true := rfl
@[simp, grind =] theorem tokenPc_wClrEv : tokenPc .wClrEv = true := rfl
@[simp, grind =] theorem tokenPc_wRelA : tokenPc .wRelA = false := rfl
@[simp, grind =] theorem tokenPc_wNewEv : tokenPc .wNewEv = false := rfl
@[simp, grind =] theorem tokenPc_wAppend : tokenPc .wAppend = false := rfl
@[simp, grind =] theorem tokenPc_wRelB : tokenPc .wRelB = false := rfl
@[simp, grind =] theorem tokenPc_wWait : tokenPc .wWait = true := rfl
@[simp, grind =] theorem tokenPc_wSetupId : tokenPc .wSetupId = false := rfl
@[simp, grind =] theorem tokenPc_wSetupCopy : tokenPc .wSetupCopy = false := rfl
@[simp, grind =] theorem tokenPc_wReturn : tokenPc .wReturn = false := rfl
@[simp, grind =] theorem tokenPc_wBody : tokenPc .wBody = false := rfl
@[simp, grind =] theorem tokenPc_cAcq : tokenPc .cAcq = false := rfl
@[simp, grind =] theorem tokenPc_cAppend : tokenPc .cAppend = false := rfl
@[simp, grind =] theorem tokenPc_cPrune : tokenPc .cPrune = false := rfl
@[simp, grind =] theorem tokenPc_cNodes : tokenPc .cNodes = false := rfl
@[simp, grind =] theorem tokenPc_rAcq : tokenPc .rAcq = false := rfl
@[simp, grind =] theorem tokenPc_eTxnNone : tokenPc .eTxnNone = false := rfl
@[simp, grind =] theorem tokenPc_eTestW : tokenPc .eTestW = false := rfl
@[simp, grind =] theorem tokenPc_ePop : tokenPc .ePop = false := rfl
@[simp, grind =] theorem tokenPc_eSet : tokenPc .eSet = false := rfl
@[simp, grind =] theorem tokenPc_eRel : tokenPc .eRel = false := rfl
@[simp, grind =] theorem tokenPc_rdAcq : tokenPc .rdAcq = false := rfl
@[simp, grind =] theorem tokenPc_rdPick : tokenPc .rdPick = false := rfl
@[simp, grind =] theorem tokenPc_rdAdd : tokenPc .rdAdd = false := rfl
@[simp, grind =] theorem tokenPc_rdRel : tokenPc .rdRel = false := rfl
@[simp, grind =] theorem tokenPc_rdRet : tokenPc .rdRet = false := rfl
@[simp, grind =] theorem tokenPc_rdBody : tokenPc .rdBody = false := rfl
@[simp, grind =] theorem tokenPc_xAcq : tokenPc .xAcq = false := rfl
@[simp, grind =] theorem tokenPc_xRemove : tokenPc .xRemove = false := rfl
@[simp, grind =] theorem tokenPc_xPrune : tokenPc .xPrune = false := rfl
@[simp, grind =] theorem tokenPc_xRel : tokenPc .xRel = false := rfl
@[simp, grind =] theorem tokenPc_done : tokenPc .done = false := rfl

end Model.Writers

import Model.Writers
/-! Program-point classes of the writer-admission model and their evaluation lemmas (generated text, kept static). -/
namespace Model.Writers

/-- program points at which the thread holds `_version_lock` -/
def holdsLock : Pc → Bool
  | .wTest | .wMkTxn | .wClrEv | .wRelA | .wNewEv | .wAppend | .wRelB | .cAppend | .cPrune | .cNodes | .cUndo | .eTxnNone | .eTestW | .ePop | .eSet | .eRel | .rdPick | .rdAdd | .rdRel | .rdFail | .xRemove | .xPrune | .xRel => true
  | _ => false

@[simp, grind =] theorem holdsLock_idle : holdsLock .idle = false := rfl
@[simp, grind =] theorem holdsLock_wInit : holdsLock .wInit = false := rfl
@[simp, grind =] theorem holdsLock_wAcq : holdsLock .wAcq = false := rfl
@[simp, grind =] theorem holdsLock_wTest : holdsLock .wTest = true := rfl
@[simp, grind =] theorem holdsLock_wMkTxn : holdsLock .wMkTxn = true := rfl
@[simp, grind =] theorem holdsLock_wClrEv : holdsLock .wClrEv = true := rfl
@[simp, grind =] theorem holdsLock_wRelA : holdsLock .wRelA = true := rfl
@[simp, grind =] theorem holdsLock_wNewEv : holdsLock .wNewEv = true := rfl
@[simp, grind =] theorem holdsLock_wAppend : holdsLock .wAppend = true := rfl
@[simp, grind =] theorem holdsLock_wRelB : holdsLock .wRelB = true := rfl
@[simp, grind =] theorem holdsLock_wWait : holdsLock .wWait = false := rfl
@[simp, grind =] theorem holdsLock_wSetupId : holdsLock .wSetupId = false := rfl
@[simp, grind =] theorem holdsLock_wSetupCopy : holdsLock .wSetupCopy = false := rfl
@[simp, grind =] theorem holdsLock_wReturn : holdsLock .wReturn = false := rfl
@[simp, grind =] theorem holdsLock_wBody : holdsLock .wBody = false := rfl
@[simp, grind =] theorem holdsLock_cAcq : holdsLock .cAcq = false := rfl
@[simp, grind =] theorem holdsLock_cAppend : holdsLock .cAppend = true := rfl
@[simp, grind =] theorem holdsLock_cPrune : holdsLock .cPrune = true := rfl
@[simp, grind =] theorem holdsLock_cNodes : holdsLock .cNodes = true := rfl
@[simp, grind =] theorem holdsLock_cUndo : holdsLock .cUndo = true := rfl
@[simp, grind =] theorem holdsLock_rAcq : holdsLock .rAcq = false := rfl
@[simp, grind =] theorem holdsLock_eTxnNone : holdsLock .eTxnNone = true := rfl
@[simp, grind =] theorem holdsLock_eTestW : holdsLock .eTestW = true := rfl
@[simp, grind =] theorem holdsLock_ePop : holdsLock .ePop = true := rfl
@[simp, grind =] theorem holdsLock_eSet : holdsLock .eSet = true := rfl
@[simp, grind =] theorem holdsLock_eRel : holdsLock .eRel = true := rfl
@[simp, grind =] theorem holdsLock_rdAcq : holdsLock .rdAcq = false := rfl
@[simp, grind =] theorem holdsLock_rdPick : holdsLock .rdPick = true := rfl
@[simp, grind =] theorem holdsLock_rdAdd : holdsLock .rdAdd = true := rfl
@[simp, grind =] theorem holdsLock_rdRel : holdsLock .rdRel = true := rfl
@[simp, grind =] theorem holdsLock_rdFail : holdsLock .rdFail = true := rfl
@[simp, grind =] theorem holdsLock_rdRet : holdsLock .rdRet = false := rfl
@[simp, grind =] theorem holdsLock_rdBody : holdsLock .rdBody = false := rfl
@[simp, grind =] theorem holdsLock_xAcq : holdsLock .xAcq = false := rfl
@[simp, grind =] theorem holdsLock_xRemove : holdsLock .xRemove = true := rfl
@[simp, grind =] theorem holdsLock_xPrune : holdsLock .xPrune = true := rfl
@[simp, grind =] theorem holdsLock_xRel : holdsLock .xRel = true := rfl
@[simp, grind =] theorem holdsLock_done : holdsLock .done = false := rfl

/-- program points at which the thread owns the open write transaction (`_write_txn`) -/
def isOwner : Pc → Bool
  | .wClrEv | .wRelA | .wSetupId | .wSetupCopy | .wReturn | .wBody | .cAcq | .cAppend | .cPrune | .cNodes | .cUndo | .rAcq | .eTxnNone => true
  | _ => false

@[simp, grind =] theorem isOwner_idle : isOwner .idle = false := rfl
@[simp, grind =] theorem isOwner_wInit : isOwner .wInit = false := rfl
@[simp, grind =] theorem isOwner_wAcq : isOwner .wAcq = false := rfl
@[simp, grind =] theorem isOwner_wTest : isOwner .wTest = false := rfl
@[simp, grind =] theorem isOwner_wMkTxn : isOwner .wMkTxn = false := rfl
@[simp, grind =] theorem isOwner_wClrEv : isOwner .wClrEv = true := rfl
@[simp, grind =] theorem isOwner_wRelA : isOwner .wRelA = true := rfl
@[simp, grind =] theorem isOwner_wNewEv : isOwner .wNewEv = false := rfl
@[simp, grind =] theorem isOwner_wAppend : isOwner .wAppend = false := rfl
@[simp, grind =] theorem isOwner_wRelB : isOwner .wRelB = false := rfl
@[simp, grind =] theorem isOwner_wWait : isOwner .wWait = false := rfl
@[simp, grind =] theorem isOwner_wSetupId : isOwner .wSetupId = true := rfl
@[simp, grind =] theorem isOwner_wSetupCopy : isOwner .wSetupCopy = true := rfl
@[simp, grind =] theorem isOwner_wReturn : isOwner .wReturn = true := rfl
@[simp, grind =] theorem isOwner_wBody : isOwner .wBody = true := rfl
@[simp, grind =] theorem isOwner_cAcq : isOwner .cAcq = true := rfl
@[simp, grind =] theorem isOwner_cAppend : isOwner .cAppend = true := rfl
@[simp, grind =] theorem isOwner_cPrune : isOwner .cPrune = true := rfl
@[simp, grind =] theorem isOwner_cNodes : isOwner .cNodes = true := rfl
@[simp, grind =] theorem isOwner_cUndo : isOwner .cUndo = true := rfl
@[simp, grind =] theorem isOwner_rAcq : isOwner .rAcq = true := rfl
@[simp, grind =] theorem isOwner_eTxnNone : isOwner .eTxnNone = true := rfl
@[simp, grind =] theorem isOwner_eTestW : isOwner .eTestW = false := rfl
@[simp, grind =] theorem isOwner_ePop : isOwner .ePop = false := rfl
@[simp, grind =] theorem isOwner_eSet : isOwner .eSet = false := rfl
@[simp, grind =] theorem isOwner_eRel : isOwner .eRel = false := rfl
@[simp, grind =] theorem isOwner_rdAcq : isOwner .rdAcq = false := rfl
@[simp, grind =] theorem isOwner_rdPick : isOwner .rdPick = false := rfl
@[simp, grind =] theorem isOwner_rdAdd : isOwner .rdAdd = false := rfl
@[simp, grind =] theorem isOwner_rdRel : isOwner .rdRel = false := rfl
@[simp, grind =] theorem isOwner_rdFail : isOwner .rdFail = false := rfl
@[simp, grind =] theorem isOwner_rdRet : isOwner .rdRet = false := rfl
@[simp, grind =] theorem isOwner_rdBody : isOwner .rdBody = false := rfl
@[simp, grind =] theorem isOwner_xAcq : isOwner .xAcq = false := rfl
@[simp, grind =] theorem isOwner_xRemove : isOwner .xRemove = false := rfl
@[simp, grind =] theorem isOwner_xPrune : isOwner .xPrune = false := rfl
@[simp, grind =] theorem isOwner_xRel : isOwner .xRel = false := rfl
@[simp, grind =] theorem isOwner_done : isOwner .done = false := rfl

/-- program points of a writer whose event is in the waiter queue -/
def queuedPc : Pc → Bool
  | .wRelB | .wWait => true
  | _ => false

@[simp, grind =] theorem queuedPc_idle : queuedPc .idle = false := rfl
@[simp, grind =] theorem queuedPc_wInit : queuedPc .wInit = false := rfl
@[simp, grind =] theorem queuedPc_wAcq : queuedPc .wAcq = false := rfl
@[simp, grind =] theorem queuedPc_wTest : queuedPc .wTest = false := rfl
@[simp, grind =] theorem queuedPc_wMkTxn : queuedPc .wMkTxn = false := rfl
@[simp, grind =] theorem queuedPc_wClrEv : queuedPc .wClrEv = false := rfl
@[simp, grind =] theorem queuedPc_wRelA : queuedPc .wRelA = false := rfl
@[simp, grind =] theorem queuedPc_wNewEv : queuedPc .wNewEv = false := rfl
@[simp, grind =] theorem queuedPc_wAppend : queuedPc .wAppend = false := rfl
@[simp, grind =] theorem queuedPc_wRelB : queuedPc .wRelB = true := rfl
@[simp, grind =] theorem queuedPc_wWait : queuedPc .wWait = true := rfl
@[simp, grind =] theorem queuedPc_wSetupId : queuedPc .wSetupId = false := rfl
@[simp, grind =] theorem queuedPc_wSetupCopy : queuedPc .wSetupCopy = false := rfl
@[simp, grind =] theorem queuedPc_wReturn : queuedPc .wReturn = false := rfl
@[simp, grind =] theorem queuedPc_wBody : queuedPc .wBody = false := rfl
@[simp, grind =] theorem queuedPc_cAcq : queuedPc .cAcq = false := rfl
@[simp, grind =] theorem queuedPc_cAppend : queuedPc .cAppend = false := rfl
@[simp, grind =] theorem queuedPc_cPrune : queuedPc .cPrune = false := rfl
@[simp, grind =] theorem queuedPc_cNodes : queuedPc .cNodes = false := rfl
@[simp, grind =] theorem queuedPc_cUndo : queuedPc .cUndo = false := rfl
@[simp, grind =] theorem queuedPc_rAcq : queuedPc .rAcq = false := rfl
@[simp, grind =] theorem queuedPc_eTxnNone : queuedPc .eTxnNone = false := rfl
@[simp, grind =] theorem queuedPc_eTestW : queuedPc .eTestW = false := rfl
@[simp, grind =] theorem queuedPc_ePop : queuedPc .ePop = false := rfl
@[simp, grind =] theorem queuedPc_eSet : queuedPc .eSet = false := rfl
@[simp, grind =] theorem queuedPc_eRel : queuedPc .eRel = false := rfl
@[simp, grind =] theorem queuedPc_rdAcq : queuedPc .rdAcq = false := rfl
@[simp, grind =] theorem queuedPc_rdPick : queuedPc .rdPick = false := rfl
@[simp, grind =] theorem queuedPc_rdAdd : queuedPc .rdAdd = false := rfl
@[simp, grind =] theorem queuedPc_rdRel : queuedPc .rdRel = false := rfl
@[simp, grind =] theorem queuedPc_rdFail : queuedPc .rdFail = false := rfl
@[simp, grind =] theorem queuedPc_rdRet : queuedPc .rdRet = false := rfl
@[simp, grind =] theorem queuedPc_rdBody : queuedPc .rdBody = false := rfl
@[simp, grind =] theorem queuedPc_xAcq : queuedPc .xAcq = false := rfl
@[simp, grind =] theorem queuedPc_xRemove : queuedPc .xRemove = false := rfl
@[simp, grind =] theorem queuedPc_xPrune : queuedPc .xPrune = false := rfl
@[simp, grind =] theorem queuedPc_xRel : queuedPc .xRel = false := rfl
@[simp, grind =] theorem queuedPc_done : queuedPc .done = false := rfl

/-- program points of the writer whose event is `_write_event` (the exclusive right to proceed) -/
def tokenPc : Pc → Bool
  | .wWait | .wAcq | .wTest | .wMkTxn | .wClrEv => true
  | _ => false

@[simp, grind =] theorem tokenPc_idle : tokenPc .idle = false := rfl
@[simp, grind =] theorem tokenPc_wInit : tokenPc .wInit = false := rfl
@[simp, grind =] theorem tokenPc_wAcq : tokenPc .wAcq = true := rfl
@[simp, grind =] theorem tokenPc_wTest : tokenPc .wTest = true := rfl
@[simp, grind =] theorem tokenPc_wMkTxn : tokenPc .wMkTxn = true := rfl
@[simp, grind =] theorem tokenPc_wClrEv : tokenPc .wClrEv = true := rfl
@[simp, grind =] theorem tokenPc_wRelA : tokenPc .wRelA = false := rfl
@[simp, grind =] theorem tokenPc_wNewEv : tokenPc .wNewEv = false := rfl
@[simp, grind =] theorem tokenPc_wAppend : tokenPc .wAppend = false := rfl
@[simp, grind =] theorem tokenPc_wRelB : tokenPc .wRelB = false := rfl
@[simp, grind =] theorem tokenPc_wWait : tokenPc .wWait = true := rfl
@[simp, grind =] theorem tokenPc_wSetupId : tokenPc .wSetupId = false := rfl
@[simp, grind =] theorem tokenPc_wSetupCopy : tokenPc .wSetupCopy = false := rfl
@[simp, grind =] theorem tokenPc_wReturn : tokenPc .wReturn = false := rfl
@[simp, grind =] theorem tokenPc_wBody : tokenPc .wBody = false := rfl
@[simp, grind =] theorem tokenPc_cAcq : tokenPc .cAcq = false := rfl
@[simp, grind =] theorem tokenPc_cAppend : tokenPc .cAppend = false := rfl
@[simp, grind =] theorem tokenPc_cPrune : tokenPc .cPrune = false := rfl
@[simp, grind =] theorem tokenPc_cNodes : tokenPc .cNodes = false := rfl
@[simp, grind =] theorem tokenPc_cUndo : tokenPc .cUndo = false := rfl
@[simp, grind =] theorem tokenPc_rAcq : tokenPc .rAcq = false := rfl
@[simp, grind =] theorem tokenPc_eTxnNone : tokenPc .eTxnNone = false := rfl
@[simp, grind =] theorem tokenPc_eTestW : tokenPc .eTestW = false := rfl
@[simp, grind =] theorem tokenPc_ePop : tokenPc .ePop = false := rfl
@[simp, grind =] theorem tokenPc_eSet : tokenPc .eSet = false := rfl
@[simp, grind =] theorem tokenPc_eRel : tokenPc .eRel = false := rfl
@[simp, grind =] theorem tokenPc_rdAcq : tokenPc .rdAcq = false := rfl
@[simp, grind =] theorem tokenPc_rdPick : tokenPc .rdPick = false := rfl
@[simp, grind =] theorem tokenPc_rdAdd : tokenPc .rdAdd = false := rfl
@[simp, grind =] theorem tokenPc_rdRel : tokenPc .rdRel = false := rfl
@[simp, grind =] theorem tokenPc_rdFail : tokenPc .rdFail = false := rfl
@[simp, grind =] theorem tokenPc_rdRet : tokenPc .rdRet = false := rfl
@[simp, grind =] theorem tokenPc_rdBody : tokenPc .rdBody = false := rfl
@[simp, grind =] theorem tokenPc_xAcq : tokenPc .xAcq = false := rfl
@[simp, grind =] theorem tokenPc_xRemove : tokenPc .xRemove = false := rfl
@[simp, grind =] theorem tokenPc_xPrune : tokenPc .xPrune = false := rfl
@[simp, grind =] theorem tokenPc_xRel : tokenPc .xRel = false := rfl
@[simp, grind =] theorem tokenPc_done : tokenPc .done = false := rfl

/-- the private copy has been taken and the body has not run yet -/
def snapAPc : Pc → Bool
  | .wReturn | .wBody => true
  | _ => false

@[simp, grind =] theorem snapAPc_idle : snapAPc .idle = false := rfl
@[simp, grind =] theorem snapAPc_wInit : snapAPc .wInit = false := rfl
@[simp, grind =] theorem snapAPc_wAcq : snapAPc .wAcq = false := rfl
@[simp, grind =] theorem snapAPc_wTest : snapAPc .wTest = false := rfl
@[simp, grind =] theorem snapAPc_wMkTxn : snapAPc .wMkTxn = false := rfl
@[simp, grind =] theorem snapAPc_wClrEv : snapAPc .wClrEv = false := rfl
@[simp, grind =] theorem snapAPc_wRelA : snapAPc .wRelA = false := rfl
@[simp, grind =] theorem snapAPc_wNewEv : snapAPc .wNewEv = false := rfl
@[simp, grind =] theorem snapAPc_wAppend : snapAPc .wAppend = false := rfl
@[simp, grind =] theorem snapAPc_wRelB : snapAPc .wRelB = false := rfl
@[simp, grind =] theorem snapAPc_wWait : snapAPc .wWait = false := rfl
@[simp, grind =] theorem snapAPc_wSetupId : snapAPc .wSetupId = false := rfl
@[simp, grind =] theorem snapAPc_wSetupCopy : snapAPc .wSetupCopy = false := rfl
@[simp, grind =] theorem snapAPc_wReturn : snapAPc .wReturn = true := rfl
@[simp, grind =] theorem snapAPc_wBody : snapAPc .wBody = true := rfl
@[simp, grind =] theorem snapAPc_cAcq : snapAPc .cAcq = false := rfl
@[simp, grind =] theorem snapAPc_cAppend : snapAPc .cAppend = false := rfl
@[simp, grind =] theorem snapAPc_cPrune : snapAPc .cPrune = false := rfl
@[simp, grind =] theorem snapAPc_cNodes : snapAPc .cNodes = false := rfl
@[simp, grind =] theorem snapAPc_cUndo : snapAPc .cUndo = false := rfl
@[simp, grind =] theorem snapAPc_rAcq : snapAPc .rAcq = false := rfl
@[simp, grind =] theorem snapAPc_eTxnNone : snapAPc .eTxnNone = false := rfl
@[simp, grind =] theorem snapAPc_eTestW : snapAPc .eTestW = false := rfl
@[simp, grind =] theorem snapAPc_ePop : snapAPc .ePop = false := rfl
@[simp, grind =] theorem snapAPc_eSet : snapAPc .eSet = false := rfl
@[simp, grind =] theorem snapAPc_eRel : snapAPc .eRel = false := rfl
@[simp, grind =] theorem snapAPc_rdAcq : snapAPc .rdAcq = false := rfl
@[simp, grind =] theorem snapAPc_rdPick : snapAPc .rdPick = false := rfl
@[simp, grind =] theorem snapAPc_rdAdd : snapAPc .rdAdd = false := rfl
@[simp, grind =] theorem snapAPc_rdRel : snapAPc .rdRel = false := rfl
@[simp, grind =] theorem snapAPc_rdFail : snapAPc .rdFail = false := rfl
@[simp, grind =] theorem snapAPc_rdRet : snapAPc .rdRet = false := rfl
@[simp, grind =] theorem snapAPc_rdBody : snapAPc .rdBody = false := rfl
@[simp, grind =] theorem snapAPc_xAcq : snapAPc .xAcq = false := rfl
@[simp, grind =] theorem snapAPc_xRemove : snapAPc .xRemove = false := rfl
@[simp, grind =] theorem snapAPc_xPrune : snapAPc .xPrune = false := rfl
@[simp, grind =] theorem snapAPc_xRel : snapAPc .xRel = false := rfl
@[simp, grind =] theorem snapAPc_done : snapAPc .done = false := rfl

/-- the body has run and the thread is committing (before `self.nodes = version.nodes` has been executed) -/
def commitPc : Pc → Bool
  | .cAcq | .cAppend | .cPrune | .cNodes | .cUndo => true
  | _ => false

@[simp, grind =] theorem commitPc_idle : commitPc .idle = false := rfl
@[simp, grind =] theorem commitPc_wInit : commitPc .wInit = false := rfl
@[simp, grind =] theorem commitPc_wAcq : commitPc .wAcq = false := rfl
@[simp, grind =] theorem commitPc_wTest : commitPc .wTest = false := rfl
@[simp, grind =] theorem commitPc_wMkTxn : commitPc .wMkTxn = false := rfl
@[simp, grind =] theorem commitPc_wClrEv : commitPc .wClrEv = false := rfl
@[simp, grind =] theorem commitPc_wRelA : commitPc .wRelA = false := rfl
@[simp, grind =] theorem commitPc_wNewEv : commitPc .wNewEv = false := rfl
@[simp, grind =] theorem commitPc_wAppend : commitPc .wAppend = false := rfl
@[simp, grind =] theorem commitPc_wRelB : commitPc .wRelB = false := rfl
@[simp, grind =] theorem commitPc_wWait : commitPc .wWait = false := rfl
@[simp, grind =] theorem commitPc_wSetupId : commitPc .wSetupId = false := rfl
@[simp, grind =] theorem commitPc_wSetupCopy : commitPc .wSetupCopy = false := rfl
@[simp, grind =] theorem commitPc_wReturn : commitPc .wReturn = false := rfl
@[simp, grind =] theorem commitPc_wBody : commitPc .wBody = false := rfl
@[simp, grind =] theorem commitPc_cAcq : commitPc .cAcq = true := rfl
@[simp, grind =] theorem commitPc_cAppend : commitPc .cAppend = true := rfl
@[simp, grind =] theorem commitPc_cPrune : commitPc .cPrune = true := rfl
@[simp, grind =] theorem commitPc_cNodes : commitPc .cNodes = true := rfl
@[simp, grind =] theorem commitPc_cUndo : commitPc .cUndo = true := rfl
@[simp, grind =] theorem commitPc_rAcq : commitPc .rAcq = false := rfl
@[simp, grind =] theorem commitPc_eTxnNone : commitPc .eTxnNone = false := rfl
@[simp, grind =] theorem commitPc_eTestW : commitPc .eTestW = false := rfl
@[simp, grind =] theorem commitPc_ePop : commitPc .ePop = false := rfl
@[simp, grind =] theorem commitPc_eSet : commitPc .eSet = false := rfl
@[simp, grind =] theorem commitPc_eRel : commitPc .eRel = false := rfl
@[simp, grind =] theorem commitPc_rdAcq : commitPc .rdAcq = false := rfl
@[simp, grind =] theorem commitPc_rdPick : commitPc .rdPick = false := rfl
@[simp, grind =] theorem commitPc_rdAdd : commitPc .rdAdd = false := rfl
@[simp, grind =] theorem commitPc_rdRel : commitPc .rdRel = false := rfl
@[simp, grind =] theorem commitPc_rdFail : commitPc .rdFail = false := rfl
@[simp, grind =] theorem commitPc_rdRet : commitPc .rdRet = false := rfl
@[simp, grind =] theorem commitPc_rdBody : commitPc .rdBody = false := rfl
@[simp, grind =] theorem commitPc_xAcq : commitPc .xAcq = false := rfl
@[simp, grind =] theorem commitPc_xRemove : commitPc .xRemove = false := rfl
@[simp, grind =] theorem commitPc_xPrune : commitPc .xPrune = false := rfl
@[simp, grind =] theorem commitPc_xRel : commitPc .xRel = false := rfl
@[simp, grind =] theorem commitPc_done : commitPc .done = false := rfl

/-- the version id has been taken and the version has not been appended yet -/
def vidPc : Pc → Bool
  | .wSetupCopy | .wReturn | .wBody | .cAcq | .cAppend => true
  | _ => false

@[simp, grind =] theorem vidPc_idle : vidPc .idle = false := rfl
@[simp, grind =] theorem vidPc_wInit : vidPc .wInit = false := rfl
@[simp, grind =] theorem vidPc_wAcq : vidPc .wAcq = false := rfl
@[simp, grind =] theorem vidPc_wTest : vidPc .wTest = false := rfl
@[simp, grind =] theorem vidPc_wMkTxn : vidPc .wMkTxn = false := rfl
@[simp, grind =] theorem vidPc_wClrEv : vidPc .wClrEv = false := rfl
@[simp, grind =] theorem vidPc_wRelA : vidPc .wRelA = false := rfl
@[simp, grind =] theorem vidPc_wNewEv : vidPc .wNewEv = false := rfl
@[simp, grind =] theorem vidPc_wAppend : vidPc .wAppend = false := rfl
@[simp, grind =] theorem vidPc_wRelB : vidPc .wRelB = false := rfl
@[simp, grind =] theorem vidPc_wWait : vidPc .wWait = false := rfl
@[simp, grind =] theorem vidPc_wSetupId : vidPc .wSetupId = false := rfl
@[simp, grind =] theorem vidPc_wSetupCopy : vidPc .wSetupCopy = true := rfl
@[simp, grind =] theorem vidPc_wReturn : vidPc .wReturn = true := rfl
@[simp, grind =] theorem vidPc_wBody : vidPc .wBody = true := rfl
@[simp, grind =] theorem vidPc_cAcq : vidPc .cAcq = true := rfl
@[simp, grind =] theorem vidPc_cAppend : vidPc .cAppend = true := rfl
@[simp, grind =] theorem vidPc_cPrune : vidPc .cPrune = false := rfl
@[simp, grind =] theorem vidPc_cNodes : vidPc .cNodes = false := rfl
@[simp, grind =] theorem vidPc_cUndo : vidPc .cUndo = false := rfl
@[simp, grind =] theorem vidPc_rAcq : vidPc .rAcq = false := rfl
@[simp, grind =] theorem vidPc_eTxnNone : vidPc .eTxnNone = false := rfl
@[simp, grind =] theorem vidPc_eTestW : vidPc .eTestW = false := rfl
@[simp, grind =] theorem vidPc_ePop : vidPc .ePop = false := rfl
@[simp, grind =] theorem vidPc_eSet : vidPc .eSet = false := rfl
@[simp, grind =] theorem vidPc_eRel : vidPc .eRel = false := rfl
@[simp, grind =] theorem vidPc_rdAcq : vidPc .rdAcq = false := rfl
@[simp, grind =] theorem vidPc_rdPick : vidPc .rdPick = false := rfl
@[simp, grind =] theorem vidPc_rdAdd : vidPc .rdAdd = false := rfl
@[simp, grind =] theorem vidPc_rdRel : vidPc .rdRel = false := rfl
@[simp, grind =] theorem vidPc_rdFail : vidPc .rdFail = false := rfl
@[simp, grind =] theorem vidPc_rdRet : vidPc .rdRet = false := rfl
@[simp, grind =] theorem vidPc_rdBody : vidPc .rdBody = false := rfl
@[simp, grind =] theorem vidPc_xAcq : vidPc .xAcq = false := rfl
@[simp, grind =] theorem vidPc_xRemove : vidPc .xRemove = false := rfl
@[simp, grind =] theorem vidPc_xPrune : vidPc .xPrune = false := rfl
@[simp, grind =] theorem vidPc_xRel : vidPc .xRel = false := rfl
@[simp, grind =] theorem vidPc_done : vidPc .done = false := rfl

/-- owner of the write transaction that has not yet published its nodes -/
def preCommitPc : Pc → Bool
  | .wClrEv | .wRelA | .wSetupId | .wSetupCopy | .wReturn | .wBody | .cAcq | .cAppend | .cPrune | .cNodes | .cUndo => true
  | _ => false

@[simp, grind =] theorem preCommitPc_idle : preCommitPc .idle = false := rfl
@[simp, grind =] theorem preCommitPc_wInit : preCommitPc .wInit = false := rfl
@[simp, grind =] theorem preCommitPc_wAcq : preCommitPc .wAcq = false := rfl
@[simp, grind =] theorem preCommitPc_wTest : preCommitPc .wTest = false := rfl
@[simp, grind =] theorem preCommitPc_wMkTxn : preCommitPc .wMkTxn = false := rfl
@[simp, grind =] theorem preCommitPc_wClrEv : preCommitPc .wClrEv = true := rfl
@[simp, grind =] theorem preCommitPc_wRelA : preCommitPc .wRelA = true := rfl
@[simp, grind =] theorem preCommitPc_wNewEv : preCommitPc .wNewEv = false := rfl
@[simp, grind =] theorem preCommitPc_wAppend : preCommitPc .wAppend = false := rfl
@[simp, grind =] theorem preCommitPc_wRelB : preCommitPc .wRelB = false := rfl
@[simp, grind =] theorem preCommitPc_wWait : preCommitPc .wWait = false := rfl
@[simp, grind =] theorem preCommitPc_wSetupId : preCommitPc .wSetupId = true := rfl
@[simp, grind =] theorem preCommitPc_wSetupCopy : preCommitPc .wSetupCopy = true := rfl
@[simp, grind =] theorem preCommitPc_wReturn : preCommitPc .wReturn = true := rfl
@[simp, grind =] theorem preCommitPc_wBody : preCommitPc .wBody = true := rfl
@[simp, grind =] theorem preCommitPc_cAcq : preCommitPc .cAcq = true := rfl
@[simp, grind =] theorem preCommitPc_cAppend : preCommitPc .cAppend = true := rfl
@[simp, grind =] theorem preCommitPc_cPrune : preCommitPc .cPrune = true := rfl
@[simp, grind =] theorem preCommitPc_cNodes : preCommitPc .cNodes = true := rfl
@[simp, grind =] theorem preCommitPc_cUndo : preCommitPc .cUndo = true := rfl
@[simp, grind =] theorem preCommitPc_rAcq : preCommitPc .rAcq = false := rfl
@[simp, grind =] theorem preCommitPc_eTxnNone : preCommitPc .eTxnNone = false := rfl
@[simp, grind =] theorem preCommitPc_eTestW : preCommitPc .eTestW = false := rfl
@[simp, grind =] theorem preCommitPc_ePop : preCommitPc .ePop = false := rfl
@[simp, grind =] theorem preCommitPc_eSet : preCommitPc .eSet = false := rfl
@[simp, grind =] theorem preCommitPc_eRel : preCommitPc .eRel = false := rfl
@[simp, grind =] theorem preCommitPc_rdAcq : preCommitPc .rdAcq = false := rfl
@[simp, grind =] theorem preCommitPc_rdPick : preCommitPc .rdPick = false := rfl
@[simp, grind =] theorem preCommitPc_rdAdd : preCommitPc .rdAdd = false := rfl
@[simp, grind =] theorem preCommitPc_rdRel : preCommitPc .rdRel = false := rfl
@[simp, grind =] theorem preCommitPc_rdFail : preCommitPc .rdFail = false := rfl
@[simp, grind =] theorem preCommitPc_rdRet : preCommitPc .rdRet = false := rfl
@[simp, grind =] theorem preCommitPc_rdBody : preCommitPc .rdBody = false := rfl
@[simp, grind =] theorem preCommitPc_xAcq : preCommitPc .xAcq = false := rfl
@[simp, grind =] theorem preCommitPc_xRemove : preCommitPc .xRemove = false := rfl
@[simp, grind =] theorem preCommitPc_xPrune : preCommitPc .xPrune = false := rfl
@[simp, grind =] theorem preCommitPc_xRel : preCommitPc .xRel = false := rfl
@[simp, grind =] theorem preCommitPc_done : preCommitPc .done = false := rfl

/-- the new version is in `_versions` but `zone.nodes` is still the old one -/
def appendedPc : Pc → Bool
  | .cPrune | .cNodes | .cUndo => true
  | _ => false

@[simp, grind =] theorem appendedPc_idle : appendedPc .idle = false := rfl
@[simp, grind =] theorem appendedPc_wInit : appendedPc .wInit = false := rfl
@[simp, grind =] theorem appendedPc_wAcq : appendedPc .wAcq = false := rfl
@[simp, grind =] theorem appendedPc_wTest : appendedPc .wTest = false := rfl
@[simp, grind =] theorem appendedPc_wMkTxn : appendedPc .wMkTxn = false := rfl
@[simp, grind =] theorem appendedPc_wClrEv : appendedPc .wClrEv = false := rfl
@[simp, grind =] theorem appendedPc_wRelA : appendedPc .wRelA = false := rfl
@[simp, grind =] theorem appendedPc_wNewEv : appendedPc .wNewEv = false := rfl
@[simp, grind =] theorem appendedPc_wAppend : appendedPc .wAppend = false := rfl
@[simp, grind =] theorem appendedPc_wRelB : appendedPc .wRelB = false := rfl
@[simp, grind =] theorem appendedPc_wWait : appendedPc .wWait = false := rfl
@[simp, grind =] theorem appendedPc_wSetupId : appendedPc .wSetupId = false := rfl
@[simp, grind =] theorem appendedPc_wSetupCopy : appendedPc .wSetupCopy = false := rfl
@[simp, grind =] theorem appendedPc_wReturn : appendedPc .wReturn = false := rfl
@[simp, grind =] theorem appendedPc_wBody : appendedPc .wBody = false := rfl
@[simp, grind =] theorem appendedPc_cAcq : appendedPc .cAcq = false := rfl
@[simp, grind =] theorem appendedPc_cAppend : appendedPc .cAppend = false := rfl
@[simp, grind =] theorem appendedPc_cPrune : appendedPc .cPrune = true := rfl
@[simp, grind =] theorem appendedPc_cNodes : appendedPc .cNodes = true := rfl
@[simp, grind =] theorem appendedPc_cUndo : appendedPc .cUndo = true := rfl
@[simp, grind =] theorem appendedPc_rAcq : appendedPc .rAcq = false := rfl
@[simp, grind =] theorem appendedPc_eTxnNone : appendedPc .eTxnNone = false := rfl
@[simp, grind =] theorem appendedPc_eTestW : appendedPc .eTestW = false := rfl
@[simp, grind =] theorem appendedPc_ePop : appendedPc .ePop = false := rfl
@[simp, grind =] theorem appendedPc_eSet : appendedPc .eSet = false := rfl
@[simp, grind =] theorem appendedPc_eRel : appendedPc .eRel = false := rfl
@[simp, grind =] theorem appendedPc_rdAcq : appendedPc .rdAcq = false := rfl
@[simp, grind =] theorem appendedPc_rdPick : appendedPc .rdPick = false := rfl
@[simp, grind =] theorem appendedPc_rdAdd : appendedPc .rdAdd = false := rfl
@[simp, grind =] theorem appendedPc_rdRel : appendedPc .rdRel = false := rfl
@[simp, grind =] theorem appendedPc_rdFail : appendedPc .rdFail = false := rfl
@[simp, grind =] theorem appendedPc_rdRet : appendedPc .rdRet = false := rfl
@[simp, grind =] theorem appendedPc_rdBody : appendedPc .rdBody = false := rfl
@[simp, grind =] theorem appendedPc_xAcq : appendedPc .xAcq = false := rfl
@[simp, grind =] theorem appendedPc_xRemove : appendedPc .xRemove = false := rfl
@[simp, grind =] theorem appendedPc_xPrune : appendedPc .xPrune = false := rfl
@[simp, grind =] theorem appendedPc_xRel : appendedPc .xRel = false := rfl
@[simp, grind =] theorem appendedPc_done : appendedPc .done = false := rfl

/-- a reader that has been given its version -/
def readerHasPc : Pc → Bool
  | .rdAdd | .rdRel | .rdRet | .rdBody | .xAcq | .xRemove | .xPrune | .xRel => true
  | _ => false

@[simp, grind =] theorem readerHasPc_idle : readerHasPc .idle = false := rfl
@[simp, grind =] theorem readerHasPc_wInit : readerHasPc .wInit = false := rfl
@[simp, grind =] theorem readerHasPc_wAcq : readerHasPc .wAcq = false := rfl
@[simp, grind =] theorem readerHasPc_wTest : readerHasPc .wTest = false := rfl
@[simp, grind =] theorem readerHasPc_wMkTxn : readerHasPc .wMkTxn = false := rfl
@[simp, grind =] theorem readerHasPc_wClrEv : readerHasPc .wClrEv = false := rfl
@[simp, grind =] theorem readerHasPc_wRelA : readerHasPc .wRelA = false := rfl
@[simp, grind =] theorem readerHasPc_wNewEv : readerHasPc .wNewEv = false := rfl
@[simp, grind =] theorem readerHasPc_wAppend : readerHasPc .wAppend = false := rfl
@[simp, grind =] theorem readerHasPc_wRelB : readerHasPc .wRelB = false := rfl
@[simp, grind =] theorem readerHasPc_wWait : readerHasPc .wWait = false := rfl
@[simp, grind =] theorem readerHasPc_wSetupId : readerHasPc .wSetupId = false := rfl
@[simp, grind =] theorem readerHasPc_wSetupCopy : readerHasPc .wSetupCopy = false := rfl
@[simp, grind =] theorem readerHasPc_wReturn : readerHasPc .wReturn = false := rfl
@[simp, grind =] theorem readerHasPc_wBody : readerHasPc .wBody = false := rfl
@[simp, grind =] theorem readerHasPc_cAcq : readerHasPc .cAcq = false := rfl
@[simp, grind =] theorem readerHasPc_cAppend : readerHasPc .cAppend = false := rfl
@[simp, grind =] theorem readerHasPc_cPrune : readerHasPc .cPrune = false := rfl
@[simp, grind =] theorem readerHasPc_cNodes : readerHasPc .cNodes = false := rfl
@[simp, grind =] theorem readerHasPc_cUndo : readerHasPc .cUndo = false := rfl
@[simp, grind =] theorem readerHasPc_rAcq : readerHasPc .rAcq = false := rfl
@[simp, grind =] theorem readerHasPc_eTxnNone : readerHasPc .eTxnNone = false := rfl
@[simp, grind =] theorem readerHasPc_eTestW : readerHasPc .eTestW = false := rfl
@[simp, grind =] theorem readerHasPc_ePop : readerHasPc .ePop = false := rfl
@[simp, grind =] theorem readerHasPc_eSet : readerHasPc .eSet = false := rfl
@[simp, grind =] theorem readerHasPc_eRel : readerHasPc .eRel = false := rfl
@[simp, grind =] theorem readerHasPc_rdAcq : readerHasPc .rdAcq = false := rfl
@[simp, grind =] theorem readerHasPc_rdPick : readerHasPc .rdPick = false := rfl
@[simp, grind =] theorem readerHasPc_rdAdd : readerHasPc .rdAdd = true := rfl
@[simp, grind =] theorem readerHasPc_rdRel : readerHasPc .rdRel = true := rfl
@[simp, grind =] theorem readerHasPc_rdFail : readerHasPc .rdFail = false := rfl
@[simp, grind =] theorem readerHasPc_rdRet : readerHasPc .rdRet = true := rfl
@[simp, grind =] theorem readerHasPc_rdBody : readerHasPc .rdBody = true := rfl
@[simp, grind =] theorem readerHasPc_xAcq : readerHasPc .xAcq = true := rfl
@[simp, grind =] theorem readerHasPc_xRemove : readerHasPc .xRemove = true := rfl
@[simp, grind =] theorem readerHasPc_xPrune : readerHasPc .xPrune = true := rfl
@[simp, grind =] theorem readerHasPc_xRel : readerHasPc .xRel = true := rfl
@[simp, grind =] theorem readerHasPc_done : readerHasPc .done = false := rfl

/-- program points a reader thread can be at -/
def readerPc : Pc → Bool
  | .idle | .rdAcq | .rdPick | .rdAdd | .rdRel | .rdFail | .rdRet | .rdBody | .xAcq | .xRemove | .xPrune | .xRel | .done => true
  | _ => false

@[simp, grind =] theorem readerPc_idle : readerPc .idle = true := rfl
@[simp, grind =] theorem readerPc_wInit : readerPc .wInit = false := rfl
@[simp, grind =] theorem readerPc_wAcq : readerPc .wAcq = false := rfl
@[simp, grind =] theorem readerPc_wTest : readerPc .wTest = false := rfl
@[simp, grind =] theorem readerPc_wMkTxn : readerPc .wMkTxn = false := rfl
@[simp, grind =] theorem readerPc_wClrEv : readerPc .wClrEv = false := rfl
@[simp, grind =] theorem readerPc_wRelA : readerPc .wRelA = false := rfl
@[simp, grind =] theorem readerPc_wNewEv : readerPc .wNewEv = false := rfl
@[simp, grind =] theorem readerPc_wAppend : readerPc .wAppend = false := rfl
@[simp, grind =] theorem readerPc_wRelB : readerPc .wRelB = false := rfl
@[simp, grind =] theorem readerPc_wWait : readerPc .wWait = false := rfl
@[simp, grind =] theorem readerPc_wSetupId : readerPc .wSetupId = false := rfl
@[simp, grind =] theorem readerPc_wSetupCopy : readerPc .wSetupCopy = false := rfl
@[simp, grind =] theorem readerPc_wReturn : readerPc .wReturn = false := rfl
@[simp, grind =] theorem readerPc_wBody : readerPc .wBody = false := rfl
@[simp, grind =] theorem readerPc_cAcq : readerPc .cAcq = false := rfl
@[simp, grind =] theorem readerPc_cAppend : readerPc .cAppend = false := rfl
@[simp, grind =] theorem readerPc_cPrune : readerPc .cPrune = false := rfl
@[simp, grind =] theorem readerPc_cNodes : readerPc .cNodes = false := rfl
@[simp, grind =] theorem readerPc_cUndo : readerPc .cUndo = false := rfl
@[simp, grind =] theorem readerPc_rAcq : readerPc .rAcq = false := rfl
@[simp, grind =] theorem readerPc_eTxnNone : readerPc .eTxnNone = false := rfl
@[simp, grind =] theorem readerPc_eTestW : readerPc .eTestW = false := rfl
@[simp, grind =] theorem readerPc_ePop : readerPc .ePop = false := rfl
@[simp, grind =] theorem readerPc_eSet : readerPc .eSet = false := rfl
@[simp, grind =] theorem readerPc_eRel : readerPc .eRel = false := rfl
@[simp, grind =] theorem readerPc_rdAcq : readerPc .rdAcq = true := rfl
@[simp, grind =] theorem readerPc_rdPick : readerPc .rdPick = true := rfl
@[simp, grind =] theorem readerPc_rdAdd : readerPc .rdAdd = true := rfl
@[simp, grind =] theorem readerPc_rdRel : readerPc .rdRel = true := rfl
@[simp, grind =] theorem readerPc_rdFail : readerPc .rdFail = true := rfl
@[simp, grind =] theorem readerPc_rdRet : readerPc .rdRet = true := rfl
@[simp, grind =] theorem readerPc_rdBody : readerPc .rdBody = true := rfl
@[simp, grind =] theorem readerPc_xAcq : readerPc .xAcq = true := rfl
@[simp, grind =] theorem readerPc_xRemove : readerPc .xRemove = true := rfl
@[simp, grind =] theorem readerPc_xPrune : readerPc .xPrune = true := rfl
@[simp, grind =] theorem readerPc_xRel : readerPc .xRel = true := rfl
@[simp, grind =] theorem readerPc_done : readerPc .done = true := rfl

/-- number of steps of the lock holder until it releases `_version_lock` (longest path) -/
def lockFuel : Pc → Nat
  | .wTest => 4
  | .wMkTxn => 3
  | .wClrEv => 2
  | .wRelA => 1
  | .wNewEv => 3
  | .wAppend => 2
  | .wRelB => 1
  | .cAppend => 8
  | .cPrune => 7
  | .cNodes => 6
  | .cUndo => 6
  | .eTxnNone => 5
  | .eTestW => 4
  | .ePop => 3
  | .eSet => 2
  | .eRel => 1
  | .rdPick => 3
  | .rdAdd => 2
  | .rdRel => 1
  | .rdFail => 1
  | .xRemove => 3
  | .xPrune => 2
  | .xRel => 1
  | _ => 0

@[simp, grind =] theorem lockFuel_idle : lockFuel .idle = 0 := rfl
@[simp, grind =] theorem lockFuel_wInit : lockFuel .wInit = 0 := rfl
@[simp, grind =] theorem lockFuel_wAcq : lockFuel .wAcq = 0 := rfl
@[simp, grind =] theorem lockFuel_wTest : lockFuel .wTest = 4 := rfl
@[simp, grind =] theorem lockFuel_wMkTxn : lockFuel .wMkTxn = 3 := rfl
@[simp, grind =] theorem lockFuel_wClrEv : lockFuel .wClrEv = 2 := rfl
@[simp, grind =] theorem lockFuel_wRelA : lockFuel .wRelA = 1 := rfl
@[simp, grind =] theorem lockFuel_wNewEv : lockFuel .wNewEv = 3 := rfl
@[simp, grind =] theorem lockFuel_wAppend : lockFuel .wAppend = 2 := rfl
@[simp, grind =] theorem lockFuel_wRelB : lockFuel .wRelB = 1 := rfl
@[simp, grind =] theorem lockFuel_wWait : lockFuel .wWait = 0 := rfl
@[simp, grind =] theorem lockFuel_wSetupId : lockFuel .wSetupId = 0 := rfl
@[simp, grind =] theorem lockFuel_wSetupCopy : lockFuel .wSetupCopy = 0 := rfl
@[simp, grind =] theorem lockFuel_wReturn : lockFuel .wReturn = 0 := rfl
@[simp, grind =] theorem lockFuel_wBody : lockFuel .wBody = 0 := rfl
@[simp, grind =] theorem lockFuel_cAcq : lockFuel .cAcq = 0 := rfl
@[simp, grind =] theorem lockFuel_cAppend : lockFuel .cAppend = 8 := rfl
@[simp, grind =] theorem lockFuel_cPrune : lockFuel .cPrune = 7 := rfl
@[simp, grind =] theorem lockFuel_cNodes : lockFuel .cNodes = 6 := rfl
@[simp, grind =] theorem lockFuel_cUndo : lockFuel .cUndo = 6 := rfl
@[simp, grind =] theorem lockFuel_rAcq : lockFuel .rAcq = 0 := rfl
@[simp, grind =] theorem lockFuel_eTxnNone : lockFuel .eTxnNone = 5 := rfl
@[simp, grind =] theorem lockFuel_eTestW : lockFuel .eTestW = 4 := rfl
@[simp, grind =] theorem lockFuel_ePop : lockFuel .ePop = 3 := rfl
@[simp, grind =] theorem lockFuel_eSet : lockFuel .eSet = 2 := rfl
@[simp, grind =] theorem lockFuel_eRel : lockFuel .eRel = 1 := rfl
@[simp, grind =] theorem lockFuel_rdAcq : lockFuel .rdAcq = 0 := rfl
@[simp, grind =] theorem lockFuel_rdPick : lockFuel .rdPick = 3 := rfl
@[simp, grind =] theorem lockFuel_rdAdd : lockFuel .rdAdd = 2 := rfl
@[simp, grind =] theorem lockFuel_rdRel : lockFuel .rdRel = 1 := rfl
@[simp, grind =] theorem lockFuel_rdFail : lockFuel .rdFail = 1 := rfl
@[simp, grind =] theorem lockFuel_rdRet : lockFuel .rdRet = 0 := rfl
@[simp, grind =] theorem lockFuel_rdBody : lockFuel .rdBody = 0 := rfl
@[simp, grind =] theorem lockFuel_xAcq : lockFuel .xAcq = 0 := rfl
@[simp, grind =] theorem lockFuel_xRemove : lockFuel .xRemove = 3 := rfl
@[simp, grind =] theorem lockFuel_xPrune : lockFuel .xPrune = 2 := rfl
@[simp, grind =] theorem lockFuel_xRel : lockFuel .xRel = 1 := rfl
@[simp, grind =] theorem lockFuel_done : lockFuel .done = 0 := rfl

theorem lockFuel_le (p : Pc) : lockFuel p ≤ 8 := by cases p <;> simp
theorem lockFuel_pos_iff (p : Pc) : 0 < lockFuel p ↔ holdsLock p = true := by cases p <;> simp

/-- steps left, for the thread the next admission is waiting for (owner of the open transaction, then the same thread waking the head of the queue, then the token holder), until that admission -/
def stageFuel : Pc → Nat
  | .wClrEv => 32
  | .wRelA => 31
  | .wSetupId => 30
  | .wSetupCopy => 29
  | .wReturn => 28
  | .wBody => 27
  | .cAcq => 26
  | .rAcq => 26
  | .cAppend => 25
  | .cPrune => 24
  | .cNodes => 23
  | .cUndo => 23
  | .eTxnNone => 22
  | .eTestW => 14
  | .ePop => 13
  | .eSet => 12
  | .wWait => 4
  | .wAcq => 3
  | .wTest => 2
  | .wMkTxn => 1
  | _ => 0

@[simp, grind =] theorem stageFuel_idle : stageFuel .idle = 0 := rfl
@[simp, grind =] theorem stageFuel_wInit : stageFuel .wInit = 0 := rfl
@[simp, grind =] theorem stageFuel_wAcq : stageFuel .wAcq = 3 := rfl
@[simp, grind =] theorem stageFuel_wTest : stageFuel .wTest = 2 := rfl
@[simp, grind =] theorem stageFuel_wMkTxn : stageFuel .wMkTxn = 1 := rfl
@[simp, grind =] theorem stageFuel_wClrEv : stageFuel .wClrEv = 32 := rfl
@[simp, grind =] theorem stageFuel_wRelA : stageFuel .wRelA = 31 := rfl
@[simp, grind =] theorem stageFuel_wNewEv : stageFuel .wNewEv = 0 := rfl
@[simp, grind =] theorem stageFuel_wAppend : stageFuel .wAppend = 0 := rfl
@[simp, grind =] theorem stageFuel_wRelB : stageFuel .wRelB = 0 := rfl
@[simp, grind =] theorem stageFuel_wWait : stageFuel .wWait = 4 := rfl
@[simp, grind =] theorem stageFuel_wSetupId : stageFuel .wSetupId = 30 := rfl
@[simp, grind =] theorem stageFuel_wSetupCopy : stageFuel .wSetupCopy = 29 := rfl
@[simp, grind =] theorem stageFuel_wReturn : stageFuel .wReturn = 28 := rfl
@[simp, grind =] theorem stageFuel_wBody : stageFuel .wBody = 27 := rfl
@[simp, grind =] theorem stageFuel_cAcq : stageFuel .cAcq = 26 := rfl
@[simp, grind =] theorem stageFuel_cAppend : stageFuel .cAppend = 25 := rfl
@[simp, grind =] theorem stageFuel_cPrune : stageFuel .cPrune = 24 := rfl
@[simp, grind =] theorem stageFuel_cNodes : stageFuel .cNodes = 23 := rfl
@[simp, grind =] theorem stageFuel_cUndo : stageFuel .cUndo = 23 := rfl
@[simp, grind =] theorem stageFuel_rAcq : stageFuel .rAcq = 26 := rfl
@[simp, grind =] theorem stageFuel_eTxnNone : stageFuel .eTxnNone = 22 := rfl
@[simp, grind =] theorem stageFuel_eTestW : stageFuel .eTestW = 14 := rfl
@[simp, grind =] theorem stageFuel_ePop : stageFuel .ePop = 13 := rfl
@[simp, grind =] theorem stageFuel_eSet : stageFuel .eSet = 12 := rfl
@[simp, grind =] theorem stageFuel_eRel : stageFuel .eRel = 0 := rfl
@[simp, grind =] theorem stageFuel_rdAcq : stageFuel .rdAcq = 0 := rfl
@[simp, grind =] theorem stageFuel_rdPick : stageFuel .rdPick = 0 := rfl
@[simp, grind =] theorem stageFuel_rdAdd : stageFuel .rdAdd = 0 := rfl
@[simp, grind =] theorem stageFuel_rdRel : stageFuel .rdRel = 0 := rfl
@[simp, grind =] theorem stageFuel_rdFail : stageFuel .rdFail = 0 := rfl
@[simp, grind =] theorem stageFuel_rdRet : stageFuel .rdRet = 0 := rfl
@[simp, grind =] theorem stageFuel_rdBody : stageFuel .rdBody = 0 := rfl
@[simp, grind =] theorem stageFuel_xAcq : stageFuel .xAcq = 0 := rfl
@[simp, grind =] theorem stageFuel_xRemove : stageFuel .xRemove = 0 := rfl
@[simp, grind =] theorem stageFuel_xPrune : stageFuel .xPrune = 0 := rfl
@[simp, grind =] theorem stageFuel_xRel : stageFuel .xRel = 0 := rfl
@[simp, grind =] theorem stageFuel_done : stageFuel .done = 0 := rfl

/-- own steps a reader has left until it is finished (`reader()` returns at 6, `_end_read` at 0) -/
def readerFuel : Pc → Nat
  | .idle => 11
  | .rdAcq => 10
  | .rdPick => 9
  | .rdAdd => 8
  | .rdRel => 7
  | .rdFail => 1
  | .rdRet => 6
  | .rdBody => 5
  | .xAcq => 4
  | .xRemove => 3
  | .xPrune => 2
  | .xRel => 1
  | _ => 0

@[simp, grind =] theorem readerFuel_idle : readerFuel .idle = 11 := rfl
@[simp, grind =] theorem readerFuel_wInit : readerFuel .wInit = 0 := rfl
@[simp, grind =] theorem readerFuel_wAcq : readerFuel .wAcq = 0 := rfl
@[simp, grind =] theorem readerFuel_wTest : readerFuel .wTest = 0 := rfl
@[simp, grind =] theorem readerFuel_wMkTxn : readerFuel .wMkTxn = 0 := rfl
@[simp, grind =] theorem readerFuel_wClrEv : readerFuel .wClrEv = 0 := rfl
@[simp, grind =] theorem readerFuel_wRelA : readerFuel .wRelA = 0 := rfl
@[simp, grind =] theorem readerFuel_wNewEv : readerFuel .wNewEv = 0 := rfl
@[simp, grind =] theorem readerFuel_wAppend : readerFuel .wAppend = 0 := rfl
@[simp, grind =] theorem readerFuel_wRelB : readerFuel .wRelB = 0 := rfl
@[simp, grind =] theorem readerFuel_wWait : readerFuel .wWait = 0 := rfl
@[simp, grind =] theorem readerFuel_wSetupId : readerFuel .wSetupId = 0 := rfl
@[simp, grind =] theorem readerFuel_wSetupCopy : readerFuel .wSetupCopy = 0 := rfl
@[simp, grind =] theorem readerFuel_wReturn : readerFuel .wReturn = 0 := rfl
@[simp, grind =] theorem readerFuel_wBody : readerFuel .wBody = 0 := rfl
@[simp, grind =] theorem readerFuel_cAcq : readerFuel .cAcq = 0 := rfl
@[simp, grind =] theorem readerFuel_cAppend : readerFuel .cAppend = 0 := rfl
@[simp, grind =] theorem readerFuel_cPrune : readerFuel .cPrune = 0 := rfl
@[simp, grind =] theorem readerFuel_cNodes : readerFuel .cNodes = 0 := rfl
@[simp, grind =] theorem readerFuel_cUndo : readerFuel .cUndo = 0 := rfl
@[simp, grind =] theorem readerFuel_rAcq : readerFuel .rAcq = 0 := rfl
@[simp, grind =] theorem readerFuel_eTxnNone : readerFuel .eTxnNone = 0 := rfl
@[simp, grind =] theorem readerFuel_eTestW : readerFuel .eTestW = 0 := rfl
@[simp, grind =] theorem readerFuel_ePop : readerFuel .ePop = 0 := rfl
@[simp, grind =] theorem readerFuel_eSet : readerFuel .eSet = 0 := rfl
@[simp, grind =] theorem readerFuel_eRel : readerFuel .eRel = 0 := rfl
@[simp, grind =] theorem readerFuel_rdAcq : readerFuel .rdAcq = 10 := rfl
@[simp, grind =] theorem readerFuel_rdPick : readerFuel .rdPick = 9 := rfl
@[simp, grind =] theorem readerFuel_rdAdd : readerFuel .rdAdd = 8 := rfl
@[simp, grind =] theorem readerFuel_rdRel : readerFuel .rdRel = 7 := rfl
@[simp, grind =] theorem readerFuel_rdFail : readerFuel .rdFail = 1 := rfl
@[simp, grind =] theorem readerFuel_rdRet : readerFuel .rdRet = 6 := rfl
@[simp, grind =] theorem readerFuel_rdBody : readerFuel .rdBody = 5 := rfl
@[simp, grind =] theorem readerFuel_xAcq : readerFuel .xAcq = 4 := rfl
@[simp, grind =] theorem readerFuel_xRemove : readerFuel .xRemove = 3 := rfl
@[simp, grind =] theorem readerFuel_xPrune : readerFuel .xPrune = 2 := rfl
@[simp, grind =] theorem readerFuel_xRel : readerFuel .xRel = 1 := rfl
@[simp, grind =] theorem readerFuel_done : readerFuel .done = 0 := rfl

/-- the thread has ended its write transaction and is about to wake the head of the queue -/
def endPc : Pc → Bool
  | .eTestW | .ePop | .eSet => true
  | _ => false

@[simp, grind =] theorem endPc_idle : endPc .idle = false := rfl
@[simp, grind =] theorem endPc_wInit : endPc .wInit = false := rfl
@[simp, grind =] theorem endPc_wAcq : endPc .wAcq = false := rfl
@[simp, grind =] theorem endPc_wTest : endPc .wTest = false := rfl
@[simp, grind =] theorem endPc_wMkTxn : endPc .wMkTxn = false := rfl
@[simp, grind =] theorem endPc_wClrEv : endPc .wClrEv = false := rfl
@[simp, grind =] theorem endPc_wRelA : endPc .wRelA = false := rfl
@[simp, grind =] theorem endPc_wNewEv : endPc .wNewEv = false := rfl
@[simp, grind =] theorem endPc_wAppend : endPc .wAppend = false := rfl
@[simp, grind =] theorem endPc_wRelB : endPc .wRelB = false := rfl
@[simp, grind =] theorem endPc_wWait : endPc .wWait = false := rfl
@[simp, grind =] theorem endPc_wSetupId : endPc .wSetupId = false := rfl
@[simp, grind =] theorem endPc_wSetupCopy : endPc .wSetupCopy = false := rfl
@[simp, grind =] theorem endPc_wReturn : endPc .wReturn = false := rfl
@[simp, grind =] theorem endPc_wBody : endPc .wBody = false := rfl
@[simp, grind =] theorem endPc_cAcq : endPc .cAcq = false := rfl
@[simp, grind =] theorem endPc_cAppend : endPc .cAppend = false := rfl
@[simp, grind =] theorem endPc_cPrune : endPc .cPrune = false := rfl
@[simp, grind =] theorem endPc_cNodes : endPc .cNodes = false := rfl
@[simp, grind =] theorem endPc_cUndo : endPc .cUndo = false := rfl
@[simp, grind =] theorem endPc_rAcq : endPc .rAcq = false := rfl
@[simp, grind =] theorem endPc_eTxnNone : endPc .eTxnNone = false := rfl
@[simp, grind =] theorem endPc_eTestW : endPc .eTestW = true := rfl
@[simp, grind =] theorem endPc_ePop : endPc .ePop = true := rfl
@[simp, grind =] theorem endPc_eSet : endPc .eSet = true := rfl
@[simp, grind =] theorem endPc_eRel : endPc .eRel = false := rfl
@[simp, grind =] theorem endPc_rdAcq : endPc .rdAcq = false := rfl
@[simp, grind =] theorem endPc_rdPick : endPc .rdPick = false := rfl
@[simp, grind =] theorem endPc_rdAdd : endPc .rdAdd = false := rfl
@[simp, grind =] theorem endPc_rdRel : endPc .rdRel = false := rfl
@[simp, grind =] theorem endPc_rdFail : endPc .rdFail = false := rfl
@[simp, grind =] theorem endPc_rdRet : endPc .rdRet = false := rfl
@[simp, grind =] theorem endPc_rdBody : endPc .rdBody = false := rfl
@[simp, grind =] theorem endPc_xAcq : endPc .xAcq = false := rfl
@[simp, grind =] theorem endPc_xRemove : endPc .xRemove = false := rfl
@[simp, grind =] theorem endPc_xPrune : endPc .xPrune = false := rfl
@[simp, grind =] theorem endPc_xRel : endPc .xRel = false := rfl
@[simp, grind =] theorem endPc_done : endPc .done = false := rfl

/-- program points that acquire `_version_lock` -/
def acqPc : Pc → Bool
  | .wAcq | .cAcq | .rAcq | .rdAcq | .xAcq => true
  | _ => false

@[simp, grind =] theorem acqPc_idle : acqPc .idle = false := rfl
@[simp, grind =] theorem acqPc_wInit : acqPc .wInit = false := rfl
@[simp, grind =] theorem acqPc_wAcq : acqPc .wAcq = true := rfl
@[simp, grind =] theorem acqPc_wTest : acqPc .wTest = false := rfl
@[simp, grind =] theorem acqPc_wMkTxn : acqPc .wMkTxn = false := rfl
@[simp, grind =] theorem acqPc_wClrEv : acqPc .wClrEv = false := rfl
@[simp, grind =] theorem acqPc_wRelA : acqPc .wRelA = false := rfl
@[simp, grind =] theorem acqPc_wNewEv : acqPc .wNewEv = false := rfl
@[simp, grind =] theorem acqPc_wAppend : acqPc .wAppend = false := rfl
@[simp, grind =] theorem acqPc_wRelB : acqPc .wRelB = false := rfl
@[simp, grind =] theorem acqPc_wWait : acqPc .wWait = false := rfl
@[simp, grind =] theorem acqPc_wSetupId : acqPc .wSetupId = false := rfl
@[simp, grind =] theorem acqPc_wSetupCopy : acqPc .wSetupCopy = false := rfl
@[simp, grind =] theorem acqPc_wReturn : acqPc .wReturn = false := rfl
@[simp, grind =] theorem acqPc_wBody : acqPc .wBody = false := rfl
@[simp, grind =] theorem acqPc_cAcq : acqPc .cAcq = true := rfl
@[simp, grind =] theorem acqPc_cAppend : acqPc .cAppend = false := rfl
@[simp, grind =] theorem acqPc_cPrune : acqPc .cPrune = false := rfl
@[simp, grind =] theorem acqPc_cNodes : acqPc .cNodes = false := rfl
@[simp, grind =] theorem acqPc_cUndo : acqPc .cUndo = false := rfl
@[simp, grind =] theorem acqPc_rAcq : acqPc .rAcq = true := rfl
@[simp, grind =] theorem acqPc_eTxnNone : acqPc .eTxnNone = false := rfl
@[simp, grind =] theorem acqPc_eTestW : acqPc .eTestW = false := rfl
@[simp, grind =] theorem acqPc_ePop : acqPc .ePop = false := rfl
@[simp, grind =] theorem acqPc_eSet : acqPc .eSet = false := rfl
@[simp, grind =] theorem acqPc_eRel : acqPc .eRel = false := rfl
@[simp, grind =] theorem acqPc_rdAcq : acqPc .rdAcq = true := rfl
@[simp, grind =] theorem acqPc_rdPick : acqPc .rdPick = false := rfl
@[simp, grind =] theorem acqPc_rdAdd : acqPc .rdAdd = false := rfl
@[simp, grind =] theorem acqPc_rdRel : acqPc .rdRel = false := rfl
@[simp, grind =] theorem acqPc_rdFail : acqPc .rdFail = false := rfl
@[simp, grind =] theorem acqPc_rdRet : acqPc .rdRet = false := rfl
@[simp, grind =] theorem acqPc_rdBody : acqPc .rdBody = false := rfl
@[simp, grind =] theorem acqPc_xAcq : acqPc .xAcq = true := rfl
@[simp, grind =] theorem acqPc_xRemove : acqPc .xRemove = false := rfl
@[simp, grind =] theorem acqPc_xPrune : acqPc .xPrune = false := rfl
@[simp, grind =] theorem acqPc_xRel : acqPc .xRel = false := rfl
@[simp, grind =] theorem acqPc_done : acqPc .done = false := rfl

theorem stageFuel_lt (p : Pc) : stageFuel p < 40 := by cases p <;> simp
theorem readerFuel_le (p : Pc) : readerFuel p ≤ 11 := by cases p <;> simp

theorem snapAPc_owner (p : Pc) : snapAPc p = true → isOwner p = true := by cases p <;> simp
theorem commitPc_owner (p : Pc) : commitPc p = true → isOwner p = true := by cases p <;> simp
theorem vidPc_owner (p : Pc) : vidPc p = true → isOwner p = true := by cases p <;> simp
theorem preCommitPc_owner (p : Pc) : preCommitPc p = true → isOwner p = true := by cases p <;> simp
theorem appendedPc_owner (p : Pc) : appendedPc p = true → isOwner p = true := by cases p <;> simp
theorem queuedPc_iff (p : Pc) : queuedPc p = true ↔ p = .wRelB ∨ p = .wWait := by cases p <;> simp
theorem tokenPc_iff (p : Pc) : tokenPc p = true ↔ p = .wWait ∨ p = .wAcq ∨ p = .wTest ∨ p = .wMkTxn ∨ p = .wClrEv := by
  cases p <;> simp

end Model.Writers

import Model.Dnssec
import Proofs.NameText
import Proofs.DnssecBasic
import Proofs.DnssecRrsig
/-! C15: argument normalisation of `nsec3_hash` (salt and algorithm spellings, textual domain) and the NSEC3
owner name built from the hash. -/
namespace Model
namespace Dnssec

/-! ## salt spellings -/

def hexDigitN (upper : Bool) (n : Nat) : Nat := if n < 10 then 48 + n else (if upper then 55 else 87) + n

/-- the hexadecimal spelling of an octet string (`bytes.hex()`, lower or upper case) -/
def hexText (upper : Bool) (b : Bytes) : List Nat := b.flatMap fun x => [hexDigitN upper (x / 16), hexDigitN upper (x % 16)]

theorem hexValN_digit (upper : Bool) (n : Nat) (h : n < 16) : hexValN (hexDigitN upper n) = some n := by
  have : ∀ u : Bool, ∀ n, n < 16 → hexValN (hexDigitN u n) = some n := by decide
  exact this upper n h

theorem hexWs_digit (upper : Bool) (n : Nat) (h : n < 16) : hexWs (hexDigitN upper n) = false := by
  have : ∀ u : Bool, ∀ n, n < 16 → hexWs (hexDigitN u n) = false := by decide
  exact this upper n h

theorem pyFromHex_hexText (upper : Bool) (b : Bytes) (hb : ∀ x ∈ b, x < 256) :
    pyFromHex (hexText upper b) = some b := by
  induction b with
  | nil => rfl
  | cons x xs ih =>
    have hx : x < 256 := hb x (by simp)
    have h1 : x / 16 < 16 := by omega
    have h2 : x % 16 < 16 := by omega
    have ih' := ih (fun y hy => hb y (by simp [hy]))
    have : hexText upper (x :: xs) = hexDigitN upper (x / 16) :: hexDigitN upper (x % 16) :: hexText upper xs := by
      simp [hexText]
    rw [this]
    unfold pyFromHex
    simp only [hexWs_digit upper _ h1, hexValN_digit upper _ h1, hexValN_digit upper _ h2, ih', Bool.false_eq_true, if_false]
    congr 2
    omega

theorem hexText_length (upper : Bool) (b : Bytes) : (hexText upper b).length = 2 * b.length := by
  induction b with
  | nil => rfl
  | cons x xs ih =>
    have : hexText upper (x :: xs) = hexDigitN upper (x / 16) :: hexDigitN upper (x % 16) :: hexText upper xs := by
      simp [hexText]
    rw [this]; simp [ih]; omega

/-- the three spellings of a salt (`None`/empty, hexadecimal text in either case, octets) denote the same octets -/
theorem saltEncode_forms (upper : Bool) (b : Bytes) (hb : ∀ x ∈ b, x < 256) :
    saltEncode (.text (hexText upper b)) = .ok b ∧ saltEncode (.bytes b) = .ok b ∧ saltEncode .none = .ok [] := by
  refine ⟨?_, rfl, rfl⟩
  unfold saltEncode
  have : (hexText upper b).length % 2 = 0 := by rw [hexText_length]; omega
  simp [this, pyFromHex_hexText upper b hb]

/-! ## the owner name -/

theorem ftRun_plain (t : List Nat) (h : ∀ c ∈ t, c ≠ 46 ∧ c ≠ 92) (L : List Label) (lab : Label) :
    ftRun ⟨L, lab, none⟩ t = .ok ⟨L, lab ++ t, none⟩ := by
  induction t generalizing lab with
  | nil => simp [ftRun]
  | cons c cs ih =>
    obtain ⟨h1, h2⟩ := h c (by simp)
    simp only [ftRun, ftStep, h1, h2, if_false]
    rw [ih (fun x hx => h x (by simp [hx]))]
    simp

/-- text without dots and backslashes is one label; with an origin it is that label prepended to the origin -/
theorem fromText_plain (t : List Nat) (o : Name) (h : ∀ c ∈ t, c ≠ 46 ∧ c ≠ 92) (hne : t ≠ []) (h64 : t ≠ [64]) :
    fromText t (some o) = validate (t :: o) := by
  have h46 : t ≠ [46] := by
    intro e; subst e; exact (h 46 (by simp)).1 rfl
  unfold fromText
  simp only [h64, if_false, hne, h46, ftInit, ftRun_plain t h [] [], List.nil_append, Option.isSome_none,
    Bool.false_eq_true]
  simp [hne]

theorem b32Hex_ok (x : Nat) : b32Hex (x % 32) ≠ 46 ∧ b32Hex (x % 32) ≠ 92 := by
  have : ∀ i, i < 32 → b32Hex i ≠ 46 ∧ b32Hex i ≠ 92 := by decide
  exact this _ (Nat.mod_lt _ (by decide))

theorem b32Group_ok (a b c d e : Nat) : ∀ ch ∈ b32Group b32Hex a b c d e, ch ≠ 46 ∧ ch ≠ 92 := by
  intro ch hch
  simp only [b32Group, List.mem_cons, List.mem_nil_iff, or_false] at hch
  rcases hch with rfl | rfl | rfl | rfl | rfl | rfl | rfl | rfl <;> exact b32Hex_ok _

theorem b32encode_ok (bs : Bytes) : ∀ ch ∈ b32encode b32Hex bs, ch ≠ 46 ∧ ch ≠ 92 := by
  induction bs using b32encode.induct with
  | case1 a b c d e rest ih =>
    intro ch hch
    simp only [b32encode, List.mem_append] at hch
    rcases hch with h | h
    · exact b32Group_ok _ _ _ _ _ ch h
    · exact ih ch h
  | case2 a b c d =>
    intro ch hch
    simp only [b32encode, List.mem_append] at hch
    rcases hch with h | h
    · exact b32Group_ok _ _ _ _ _ ch (List.mem_of_mem_take h)
    · simp at h; subst h; decide
  | case3 a b c =>
    intro ch hch
    simp only [b32encode, List.mem_append] at hch
    rcases hch with h | h
    · exact b32Group_ok _ _ _ _ _ ch (List.mem_of_mem_take h)
    · simp at h; subst h; decide
  | case4 a b =>
    intro ch hch
    simp only [b32encode, List.mem_append] at hch
    rcases hch with h | h
    · exact b32Group_ok _ _ _ _ _ ch (List.mem_of_mem_take h)
    · simp at h; subst h; decide
  | case5 a =>
    intro ch hch
    simp only [b32encode, List.mem_append] at hch
    rcases hch with h | h
    · exact b32Group_ok _ _ _ _ _ ch (List.mem_of_mem_take h)
    · simp at h; subst h; decide
  | case6 => intro ch hch; simp [b32encode] at hch

theorem b32encode_length_ge (bs : Bytes) (h : bs ≠ []) : 2 ≤ (b32encode b32Hex bs).length := by
  cases bs with
  | nil => exact absurd rfl h
  | cons a r =>
    cases r with
    | nil => simp [b32encode, b32Group]
    | cons b r =>
      cases r with
      | nil => simp [b32encode, b32Group]
      | cons c r =>
        cases r with
        | nil => simp [b32encode, b32Group]
        | cons d r =>
          cases r with
          | nil => simp [b32encode, b32Group]
          | cons e r => simp [b32encode, b32Group]

end Dnssec
end Model

import Proofs.BTreeShape
/-!
The structural steps of the B-tree (`split`, the element movements of `try_left_steal` /
`try_right_steal`, `merge`) preserve the shape invariant and the flattening of the parent.
-/
namespace Model.BTree

/-- the children part of `Shape t (h+1) (.node es cs)` -/
def Kids (t h : Nat) (es : List Elt) (cs : List Node) : Prop :=
  cs.length = es.length + 1 ∧ ∀ c ∈ cs, Shape t h c ∧ Occ t c

theorem shape_node_iff {t h : Nat} {es : List Elt} {cs : List Node} :
    Shape t (h + 1) (.node es cs) ↔ Kids t h es cs := shape_succ_node t h es cs

theorem inter_merge (cs rc : List (List Elt)) (es re : List Elt) (p : Elt) (h : cs.length = es.length + 1) :
    inter (cs ++ rc) (es ++ p :: re) = inter cs es ++ p :: inter rc re := by
  induction cs generalizing es with
  | nil => simp at h
  | cons x cs ih =>
    cases es with
    | nil =>
      have : cs = [] := by cases cs <;> simp_all
      subst this
      simp [inter]
    | cons e es =>
      simp only [List.length_cons, Nat.add_right_cancel_iff] at h
      simp [inter, ih es h]

/-! ## list facts at a split point -/

theorem take_at {α} (a b : List α) : (a ++ b).take a.length = a := by simp
theorem drop_at {α} (a b : List α) : (a ++ b).drop a.length = b := by simp
theorem drop_at_succ {α} (a b : List α) (x : α) : (a ++ x :: b).drop (a.length + 1) = b := by
  have := drop_at (a ++ [x]) b
  simpa using this
theorem take_at_succ {α} (a b : List α) (x : α) : (a ++ x :: b).take (a.length + 1) = a ++ [x] := by
  have := take_at (a ++ [x]) b
  simpa using this

theorem snoc_of_pos {α} (l : List α) (h : 0 < l.length) : ∃ l' x, l = l' ++ [x] := by
  have hne : l ≠ [] := by intro h0; subst h0; simp at h
  exact ⟨l.dropLast, l.getLast hne, (List.dropLast_concat_getLast hne).symm⟩

@[simp] theorem eltAt_concat_last (l : List Elt) (x : Elt) : eltAt (l ++ [x]) ((l ++ [x]).length - 1) = x := by
  have : (l ++ [x]).length - 1 = l.length := by simp
  rw [this]; exact eltAt_append_cons _ _ _

@[simp] theorem kidAt_concat_last (l : List Node) (x : Node) : kidAt (l ++ [x]) ((l ++ [x]).length - 1) = x := by
  have : (l ++ [x]).length - 1 = l.length := by simp
  rw [this]; exact kidAt_append_cons _ _ _

/-! ## `split` -/

theorem split_spec {t h : Nat} {c : Node} (ht : 1 ≤ t) (hc : Shape t h c) (hmax : c.elts.length = maxKeys t) :
    Shape t h (split t c).1 ∧ Shape t h (split t c).2.2 ∧
    (split t c).1.elts.length = minKeys t ∧ (split t c).2.2.elts.length = minKeys t ∧
    flat c = flat (split t c).1 ++ (split t c).2.1 :: flat (split t c).2.2 := by
  cases h with
  | zero =>
    obtain ⟨es, rfl⟩ := shape_zero hc
    simp only [Node.elts, maxKeys] at hmax
    obtain ⟨a, m, b, rfl, ha⟩ := split_at_lt es (minKeys t) (by simp [minKeys]; omega)
    simp only [split, ← ha, take_at, drop_at_succ, eltAt_append_cons, Node.elts, flat_leaf, shape_zero_leaf,
      true_and]
    simp [minKeys] at ha hmax ⊢
    omega
  | succ h =>
    obtain ⟨es, cs, rfl, hlen, hkids⟩ := shape_succ hc
    simp only [Node.elts, maxKeys] at hmax
    obtain ⟨a, m, b, rfl, ha⟩ := split_at_lt es (minKeys t) (by simp [minKeys]; omega)
    obtain ⟨ca, cb, rfl, hca⟩ := split_at cs (minKeys t + 1) (by simp [minKeys] at hlen ha hmax ⊢; omega)
    have hca' : ca.length = a.length + 1 := by omega
    have e1 : (a ++ m :: b).take (minKeys t) = a := by rw [← ha]; exact take_at _ _
    have e2 : (a ++ m :: b).drop (minKeys t + 1) = b := by rw [← ha]; exact drop_at_succ _ _ _
    have e3 : eltAt (a ++ m :: b) (minKeys t) = m := by rw [← ha]; exact eltAt_append_cons _ _ _
    have e4 : (ca ++ cb).take (minKeys t + 1) = ca := by rw [← hca]; exact take_at _ _
    have e5 : (ca ++ cb).drop (minKeys t + 1) = cb := by rw [← hca]; exact drop_at _ _
    simp only [split, e1, e2, e3, e4, e5, Node.elts, shape_node_iff, Kids]
    simp only [List.length_append, List.length_cons, minKeys] at hlen ha hmax hca ⊢
    refine ⟨⟨by omega, fun c hc => hkids c (by simp [hc])⟩, ⟨by omega, fun c hc => hkids c (by simp [hc])⟩,
      by omega, by omega, ?_⟩
    simp only [flat_node, List.map_append]
    exact inter_merge _ _ _ _ _ (by simp; omega)

/-! ## element movements between two adjacent children -/

theorem stealFromRight_spec {t h : Nat} {s r : Node} (p : Elt) (hs : Shape t h s) (hr : Shape t h r)
    (hne : 0 < r.elts.length) :
    Shape t h (stealFromRight s r p).1 ∧ Shape t h (stealFromRight s r p).2.2 ∧
    (stealFromRight s r p).1.elts.length = s.elts.length + 1 ∧
    (stealFromRight s r p).2.2.elts.length + 1 = r.elts.length ∧
    flat (stealFromRight s r p).1 ++ (stealFromRight s r p).2.1 :: flat (stealFromRight s r p).2.2
      = flat s ++ p :: flat r := by
  cases h with
  | zero =>
    obtain ⟨se, rfl⟩ := shape_zero hs
    obtain ⟨re, rfl⟩ := shape_zero hr
    cases re with
    | nil => simp [Node.elts] at hne
    | cons r0 re => simp [stealFromRight, Node.elts]
  | succ h =>
    obtain ⟨se, sc, rfl, hslen, hsk⟩ := shape_succ hs
    obtain ⟨re, rc, rfl, hrlen, hrk⟩ := shape_succ hr
    cases re with
    | nil => simp [Node.elts] at hne
    | cons r0 re =>
      cases rc with
      | nil => simp at hrlen
      | cons c rc =>
        simp only [stealFromRight, Node.elts, shape_node_iff, Kids]
        simp only [List.length_append, List.length_cons, List.length_nil] at hrlen ⊢
        refine ⟨⟨by omega, ?_⟩, ⟨by omega, fun x hx => hrk x (by simp [hx])⟩, trivial, trivial, ?_⟩
        · intro x hx
          rcases List.mem_append.mp hx with hx | hx
          · exact hsk x hx
          · simp at hx; subst hx; exact hrk x (by simp)
        · simp only [flat_node, List.map_append, List.map_cons, List.map_nil]
          rw [inter_merge _ _ _ _ _ (by simpa using hslen)]
          simp [inter]

theorem stealFromLeft_spec {t h : Nat} {l s : Node} (p : Elt) (hl : Shape t h l) (hs : Shape t h s)
    (hne : 0 < l.elts.length) :
    Shape t h (stealFromLeft l s p).1 ∧ Shape t h (stealFromLeft l s p).2.2 ∧
    (stealFromLeft l s p).1.elts.length + 1 = l.elts.length ∧
    (stealFromLeft l s p).2.2.elts.length = s.elts.length + 1 ∧
    flat (stealFromLeft l s p).1 ++ (stealFromLeft l s p).2.1 :: flat (stealFromLeft l s p).2.2
      = flat l ++ p :: flat s := by
  cases h with
  | zero =>
    obtain ⟨le, rfl⟩ := shape_zero hl
    obtain ⟨se, rfl⟩ := shape_zero hs
    simp only [Node.elts] at hne
    obtain ⟨le', x, rfl⟩ := snoc_of_pos le hne
    simp [stealFromLeft, Node.elts]
  | succ h =>
    obtain ⟨le, lc, rfl, hllen, hlk⟩ := shape_succ hl
    obtain ⟨se, sc, rfl, hslen, hsk⟩ := shape_succ hs
    simp only [Node.elts] at hne
    obtain ⟨le', x, rfl⟩ := snoc_of_pos le hne
    obtain ⟨lc', z, rfl⟩ := snoc_of_pos lc (by omega)
    have e3 : (le' ++ [x]).isEmpty = false := by simp
    have e4 : (lc' ++ [z]).isEmpty = false := by simp
    simp only [stealFromLeft, e3, e4, Bool.false_eq_true, or_self, if_false, List.dropLast_concat,
      eltAt_concat_last, kidAt_concat_last, Node.elts, shape_node_iff, Kids]
    simp only [List.length_append, List.length_cons, List.length_nil] at hllen ⊢
    refine ⟨⟨by omega, fun c hc => hlk c (by simp [hc])⟩, ⟨by omega, ?_⟩, trivial, trivial, ?_⟩
    · intro c hc
      rcases List.mem_cons.mp hc with rfl | hc
      · exact hlk c (by simp)
      · exact hsk c hc
    · simp only [flat_node, List.map_append, List.map_cons, List.map_nil]
      have : lc'.length = le'.length + 1 := by omega
      rw [inter_merge _ _ _ _ _ (by simpa using this)]
      simp [inter]

theorem mergeNodes_spec {t h : Nat} {s r : Node} (p : Elt) (hs : Shape t h s) (hr : Shape t h r) :
    Shape t h (mergeNodes s p r) ∧
    (mergeNodes s p r).elts.length = s.elts.length + 1 + r.elts.length ∧
    flat (mergeNodes s p r) = flat s ++ p :: flat r := by
  cases h with
  | zero =>
    obtain ⟨se, rfl⟩ := shape_zero hs
    obtain ⟨re, rfl⟩ := shape_zero hr
    simp [mergeNodes, Node.elts]
    omega
  | succ h =>
    obtain ⟨se, sc, rfl, hslen, hsk⟩ := shape_succ hs
    obtain ⟨re, rc, rfl, hrlen, hrk⟩ := shape_succ hr
    simp only [mergeNodes, Node.elts, Node.children, shape_node_iff, Kids, List.length_append, List.length_cons]
    refine ⟨⟨by omega, ?_⟩, by omega, ?_⟩
    · intro c hc
      rcases List.mem_append.mp hc with hc | hc
      · exact hsk c hc
      · exact hrk c hc
    · simp only [flat_node, List.map_append]
      exact inter_merge _ _ _ _ _ (by simpa using hslen)

/-! ## the same steps seen from the parent -/

theorem flat_node_split2 (el er : List Elt) (p : Elt) (cl : List Node) (s r : Node) (cr : List Node)
    (h : cl.length = el.length) :
    flat (.node (el ++ p :: er) (cl ++ s :: r :: cr)) = LF cl el ++ (flat s ++ p :: flat r) ++ RF cr er := by
  rw [flat_node_split el (p :: er) cl s (r :: cr) h, RF_cons]
  simp

theorem kids_mem {t h : Nat} {es : List Elt} {cs : List Node} (hk : Kids t h es cs) {c : Node} (hc : c ∈ cs) :
    Shape t h c ∧ Occ t c := hk.2 c hc

/-- replacing one child -/
theorem kids_replace1 {t h : Nat} {el er : List Elt} {cl cr : List Node} {c c' : Node}
    (hk : Kids t h (el ++ er) (cl ++ c :: cr)) (hc' : Shape t h c' ∧ Occ t c') :
    Kids t h (el ++ er) (cl ++ c' :: cr) := by
  refine ⟨by simpa using hk.1, ?_⟩
  intro x hx
  rcases List.mem_append.mp hx with hx | hx
  · exact hk.2 x (by simp [hx])
  · rcases List.mem_cons.mp hx with rfl | hx
    · exact hc'
    · exact hk.2 x (by simp [hx])

/-- replacing two adjacent children and their separator (steal) -/
theorem kids_replace2 {t h : Nat} {el er : List Elt} {p up : Elt} {cl cr : List Node} {s r s' r' : Node}
    (hk : Kids t h (el ++ p :: er) (cl ++ s :: r :: cr)) (hs' : Shape t h s' ∧ Occ t s')
    (hr' : Shape t h r' ∧ Occ t r') :
    Kids t h (el ++ up :: er) (cl ++ s' :: r' :: cr) := by
  refine ⟨by simpa using hk.1, ?_⟩
  intro x hx
  rcases List.mem_append.mp hx with hx | hx
  · exact hk.2 x (by simp [hx])
  · rcases List.mem_cons.mp hx with rfl | hx
    · exact hs'
    · rcases List.mem_cons.mp hx with rfl | hx
      · exact hr'
      · exact hk.2 x (by simp [hx])

/-- replacing two adjacent children and their separator by one child (merge) -/
theorem kids_merge2 {t h : Nat} {el er : List Elt} {p : Elt} {cl cr : List Node} {s r m : Node}
    (hk : Kids t h (el ++ p :: er) (cl ++ s :: r :: cr)) (hm : Shape t h m ∧ Occ t m) :
    Kids t h (el ++ er) (cl ++ m :: cr) := by
  refine ⟨by have := hk.1; simp at this ⊢; omega, ?_⟩
  intro x hx
  rcases List.mem_append.mp hx with hx | hx
  · exact hk.2 x (by simp [hx])
  · rcases List.mem_cons.mp hx with rfl | hx
    · exact hm
    · exact hk.2 x (by simp [hx])

/-- replacing one child by two children and a separator (split + adopt) -/
theorem kids_split2 {t h : Nat} {el er : List Elt} {m : Elt} {cl cr : List Node} {c l r : Node}
    (hk : Kids t h (el ++ er) (cl ++ c :: cr)) (hl : Shape t h l ∧ Occ t l) (hr : Shape t h r ∧ Occ t r) :
    Kids t h (el ++ m :: er) (cl ++ l :: r :: cr) := by
  refine ⟨by have := hk.1; simp at this ⊢; omega, ?_⟩
  intro x hx
  rcases List.mem_append.mp hx with hx | hx
  · exact hk.2 x (by simp [hx])
  · rcases List.mem_cons.mp hx with rfl | hx
    · exact hl
    · rcases List.mem_cons.mp hx with rfl | hx
      · exact hr
      · exact hk.2 x (by simp [hx])

end Model.BTree

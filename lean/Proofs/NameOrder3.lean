import Proofs.NameOrder2
/-!
Helper lemmas for C06, part 3: relativity of pieces of a name, comparison lemmas for names sharing
a suffix, `parent`, `split`, `relativize`/`derelativize`.
-/
namespace Model
namespace NameOrder

/-! ## relativity of pieces -/

theorem isAbs_append (a b : Name) (hb : b ≠ []) : isAbs (a ++ b) = isAbs b := by
  unfold isAbs
  rw [List.getLast?_append]
  cases hb' : b.getLast? with
  | none => exact absurd (List.getLast?_eq_none_iff.1 hb') hb
  | some x => simp

theorem isAbs_cons (x : Label) (s : Name) (hs : s ≠ []) : isAbs (x :: s) = isAbs s := by
  have := isAbs_append [x] s hs
  simpa using this

theorem isAbs_singleton (x : Label) : isAbs [x] = true ↔ x = [] := by
  unfold isAbs; cases x <;> simp

theorem ne_nil_of_isAbs {a : Name} (h : isAbs a = true) : a ≠ [] := by
  intro e; subst e; simp [isAbs] at h

theorem isAbs_of_suffix (a b : Name) (hb : b ≠ []) (hs : b <:+ a) : isAbs a = isAbs b := by
  obtain ⟨t, rfl⟩ := hs
  exact isAbs_append t b hb

/-- a proper prefix of a well-formed name is relative -/
theorem isAbs_take_false (a : Name) (h : WfName a) (k : Nat) (hk : k < a.length) : isAbs (a.take k) = false := by
  unfold isAbs
  cases hl : (a.take k).getLast? with
  | none => rfl
  | some x =>
    have hx : x ∈ a.dropLast := by
      rw [List.getLast?_eq_some_iff] at hl
      obtain ⟨ys, hys⟩ := hl
      have hp : (ys ++ [x]) <+: a := hys ▸ List.take_prefix k a
      obtain ⟨t, ht⟩ := hp
      have htne : t ≠ [] := by
        intro e; subst e
        have : (a.take k).length = a.length := by rw [hys, ← ht]; simp
        rw [List.length_take] at this; omega
      rw [← ht, List.dropLast_append_of_ne_nil htne]
      simp
    have := h.2.2 x hx
    cases x with
    | nil => exact absurd rfl this
    | cons _ _ => rfl

/-! ## `WfName` depends only on the label lengths -/

theorem lens_of_lower_eq (x y : Name) (h : lowerName x = lowerName y) :
    x.map List.length = y.map List.length := by
  have := congrArg (List.map List.length) h
  simpa [lowerName, lowerLabel, List.map_map, Function.comp_def] using this

theorem wf_congr (x y : Name) (h : lowerName x = lowerName y) (hx : WfName x) : WfName y := by
  have hm := lens_of_lower_eq x y h
  obtain ⟨h1, h2, h3⟩ := hx
  refine ⟨?_, ?_, ?_⟩
  · intro l hl
    have : l.length ∈ y.map List.length := List.mem_map.2 ⟨l, hl, rfl⟩
    rw [← hm] at this
    obtain ⟨l', hl', e⟩ := List.mem_map.1 this
    rw [← e]; exact h1 l' hl'
  · have e : ∀ n : Name, wireLen n = ((n.map List.length).map (· + 1)).sum := by
      intro n; simp [wireLen, List.map_map, Function.comp_def]
    rw [e y, ← hm, ← e x]; exact h2
  · intro l hl he
    have : l.length ∈ y.dropLast.map List.length := List.mem_map.2 ⟨l, hl, rfl⟩
    rw [List.map_dropLast, ← hm, ← List.map_dropLast] at this
    obtain ⟨l', hl', e⟩ := List.mem_map.1 this
    have hne := h3 l' hl'
    subst he
    simp at e
    exact hne e

theorem dropLast_subset_of_prefix {α} (p a : List α) (h : p <+: a) : ∀ x ∈ p.dropLast, x ∈ a.dropLast := by
  obtain ⟨t, rfl⟩ := h
  intro x hx
  by_cases ht : t = []
  · subst ht; simpa using hx
  · rw [List.dropLast_append_of_ne_nil ht]
    exact List.mem_append_left _ (List.dropLast_subset _ hx)

theorem wireLen_append (a b : Name) : wireLen (a ++ b) = wireLen a + wireLen b := by
  simp [wireLen, List.sum_append]

theorem wf_take (a : Name) (h : WfName a) (k : Nat) : WfName (a.take k) := by
  obtain ⟨h1, h2, h3⟩ := h
  refine ⟨fun l hl => h1 l (List.mem_of_mem_take hl), ?_, ?_⟩
  · have := wireLen_append (a.take k) (a.drop k)
    rw [List.take_append_drop] at this
    omega
  · intro l hl
    exact h3 l (dropLast_subset_of_prefix _ _ (List.take_prefix k a) l hl)

/-! ## comparing names that share a suffix -/

theorem revLower_append (a b : Name) : revLower (a ++ b) = revLower b ++ revLower a := by
  simp [revLower, lowerName]

theorem revLower_cons (x : Label) (s : Name) : revLower (x :: s) = revLower s ++ [lowerLabel x] := by
  simp [revLower, lowerName]

theorem lt_append_of_ne_nil {α} [LT α] (l m : List α) (hm : m ≠ []) : l < l ++ m := by
  induction l with
  | nil =>
    cases m with
    | nil => exact absurd rfl hm
    | cons a t => exact List.nil_lt_cons a t
  | cons a l ih => exact List.cons_lt_cons_iff.2 (Or.inr ⟨rfl, ih⟩)

/-- names differing first (from the right) at a label that is smaller on the left -/
theorem lt_core (P Q s : Name) (x y : Label) (hs : s ≠ []) (hxy : lowerLabel x < lowerLabel y) :
    canonLt (P ++ x :: s) (Q ++ y :: s) := by
  right
  refine ⟨?_, ?_⟩
  · rw [isAbs_append _ _ (by simp), isAbs_append _ _ (by simp), isAbs_cons _ _ hs, isAbs_cons _ _ hs]
  · rw [revLower_append, revLower_append, revLower_cons, revLower_cons, List.append_assoc, List.append_assoc]
    apply List.append_left_lt
    exact List.cons_lt_cons_iff.2 (Or.inl hxy)

/-- a name precedes its proper subdomains -/
theorem lt_sub (P s : Name) (hs : s ≠ []) (hP : P ≠ []) : canonLt s (P ++ s) := by
  right
  refine ⟨(isAbs_append P s hs).symm, ?_⟩
  rw [revLower_append]
  apply lt_append_of_ne_nil
  simpa [revLower, lowerName] using hP

theorem label_lt_append (x : Label) (c : Nat) (t : Label) : lowerLabel x < lowerLabel (x ++ c :: t) := by
  simp only [lowerLabel, List.map_append, List.map_cons]
  exact lt_append_of_ne_nil _ _ (by simp)

theorem label_lt_bump (init : Label) (a b : Nat) (t u : Label) (h : lowerOctet a < lowerOctet b) :
    lowerLabel (init ++ a :: t) < lowerLabel (init ++ b :: u) := by
  simp only [lowerLabel, List.map_append, List.map_cons]
  exact List.append_left_lt (List.cons_lt_cons_iff.2 (Or.inl h))

/-! ## parent / split -/

theorem nameEq_iff (a b : Name) : nameEq a b = true ↔ lowerName a = lowerName b := by
  unfold nameEq
  rw [← cmpOrder_eq_iff]
  simp

theorem parent_spec (a p : Name) (h : parent a = .ok p) :
    p = a.drop 1 ∧ p.length + 1 = a.length ∧ fullcompare a p = (2, 1, p.length) := by
  unfold parent at h
  split at h
  · cases h
  · rename_i hne
    have hp := validate_eq _ _ h
    have h1 : ¬ lowerName a = lowerName [[]] := fun e => hne (Or.inl ((nameEq_iff _ _).2 e))
    have h2 : ¬ lowerName a = lowerName [] := fun e => hne (Or.inr ((nameEq_iff _ _).2 e))
    cases a with
    | nil => exact absurd rfl h2
    | cons x s =>
      simp only [List.drop_succ_cons, List.drop_zero] at hp
      subst hp
      have hrel : isAbs (x :: p) = isAbs p := by
        cases p with
        | nil =>
          have : x ≠ [] := by
            intro e; subst e; exact h1 rfl
          cases x with
          | nil => exact absurd rfl this
          | cons _ _ => rfl
        | cons y t => exact isAbs_cons x _ (by simp)
      have := fullcompare_suffix (x :: p) p hrel (List.suffix_cons x p)
      simp only [List.length_cons] at this
      refine ⟨rfl, rfl, ?_⟩
      rw [this, if_neg (by omega)]
      congr 2
      omega

theorem split_spec (a x y : Name) (d : Nat) (h : split a d = .ok (x, y)) :
    x ++ y = a ∧ y.length = d ∧ d ≤ a.length := by
  unfold split at h
  simp only at h
  split at h
  · rename_i h0
    simp only [Except.ok.injEq, Prod.mk.injEq] at h
    obtain ⟨rfl, rfl⟩ := h
    simp [h0]
  · split at h
    · rename_i h1
      simp only [Except.ok.injEq, Prod.mk.injEq] at h
      obtain ⟨rfl, rfl⟩ := h
      simp [h1]
    · split at h
      · cases h
      · rename_i h0 h1 h2
        cases hv1 : validate (a.take (a.length - d)) with
        | error e => simp [hv1, bind, Except.bind] at h
        | ok r1 =>
          cases hv2 : validate (a.drop (a.length - d)) with
          | error e => simp [hv1, hv2, bind, Except.bind] at h
          | ok r2 =>
            simp only [hv1, hv2, bind, Except.bind, pure, Except.pure, Except.ok.injEq, Prod.mk.injEq] at h
            obtain ⟨rfl, rfl⟩ := h
            rw [validate_eq _ _ hv1, validate_eq _ _ hv2]
            refine ⟨List.take_append_drop _ _, ?_, by omega⟩
            rw [List.length_drop]; omega

/-- the suffix returned by `split` at depth `d > 0` is a superdomain sharing exactly `d` labels -/
theorem split_reln (a x y : Name) (d : Nat) (h : split a d = .ok (x, y)) (hd : 0 < d) :
    fullcompare a y = (if a.length = d then 3 else 2, (a.length : Int) - d, d) := by
  obtain ⟨h1, h2, _⟩ := split_spec a x y d h
  have hy : y ≠ [] := by intro e; subst e; simp at h2; omega
  have hs : y <:+ a := ⟨x, h1⟩
  have := fullcompare_suffix a y (isAbs_of_suffix a y hy hs) hs
  rw [h2] at this
  exact this

/-! ## relativize / derelativize -/

/-- derelativize, then relativize: byte-identical -/
theorem derel_rel (n o r : Name) (hn : WfName n) (hrel : isAbs n = false) (ho : isAbs o = true)
    (h : derelativize n o = .ok r) : r = n ++ o ∧ relativize r o = .ok n := by
  unfold derelativize concatenate at h
  simp only [hrel, Bool.not_false, if_true, Bool.false_eq_true, false_and, if_false] at h
  have hr := validate_eq _ _ h
  subst hr
  refine ⟨rfl, ?_⟩
  have hone : o ≠ [] := ne_nil_of_isAbs ho
  have hsub : isSubdomain (n ++ o) o = true := by
    rw [isSubdomain_iff]
    refine ⟨isAbs_append n o hone, ?_⟩
    exact (List.suffix_append n o).map _
  have hpos : o.length ≠ 0 := fun e => hone (List.length_eq_zero_iff.1 e)
  unfold relativize sliceToNeg
  rw [hsub]
  simp only [if_true, hpos, if_false, List.length_append, Nat.add_sub_cancel, List.take_left' rfl]
  exact validate_ok n hn

/-- relativize, then derelativize: the name is restored (equal as a name; byte-identical when the
origin is byte-for-byte a suffix) -/
theorem rel_derel (a o : Name) (ha : WfName a)
    (hyp : isAbs a = true ∨ (isSubdomain a o = true ∧ o ≠ [])) :
    ∃ r a', relativize a o = .ok r ∧ derelativize r o = .ok a' ∧ lowerName a' = lowerName a ∧
      (o <:+ a → a' = a) := by
  unfold relativize
  cases hsub : isSubdomain a o with
  | false =>
    have habs : isAbs a = true := by
      rcases hyp with h | ⟨h, _⟩
      · exact h
      · rw [hsub] at h; cases h
    refine ⟨a, a, by simp, ?_, rfl, fun _ => rfl⟩
    unfold derelativize
    simp [habs]
  | true =>
    simp only [if_true]
    obtain ⟨hrel, hsuf⟩ := (isSubdomain_iff a o).1 hsub
    have hone : o ≠ [] := by
      rcases hyp with h | ⟨_, h⟩
      · exact ne_nil_of_isAbs (by rw [← hrel]; exact h)
      · exact h
    have hlen : o.length ≤ a.length := by
      have := hsuf.length_le; simpa [lowerName] using this
    have hopos : 0 < o.length := List.length_pos_iff.2 hone
    let k := a.length - o.length
    have hlow : lowerName o = lowerName (a.drop k) := by
      obtain ⟨t, ht⟩ := hsuf
      have e1 : lowerName (a.drop k) = (lowerName a).drop k := by simp [lowerName, List.map_drop]
      rw [e1, ← ht]
      have : k = t.length := by
        have := congrArg List.length ht
        simp [lowerName] at this
        show a.length - o.length = t.length
        omega
      rw [this, List.drop_left' rfl]
    have hrwf : WfName (a.take k) := wf_take a ha k
    have hrrel : isAbs (a.take k) = false := isAbs_take_false a ha k (by show a.length - o.length < a.length; omega)
    have hlow2 : lowerName (a.take k ++ o) = lowerName a := by
      have : lowerName (a.take k ++ o) = lowerName (a.take k) ++ lowerName o := by simp [lowerName]
      rw [this, hlow]
      have : lowerName (a.take k) ++ lowerName (a.drop k) = lowerName (a.take k ++ a.drop k) := by simp [lowerName]
      rw [this, List.take_append_drop]
    have hslice : sliceToNeg a o.length = a.take k := by
      unfold sliceToNeg; rw [if_neg (by omega)]
    rw [hslice]
    refine ⟨a.take k, a.take k ++ o, validate_ok _ hrwf, ?_, hlow2, ?_⟩
    · unfold derelativize concatenate
      simp only [hrrel, Bool.not_false, if_true, Bool.false_eq_true, false_and, if_false]
      exact validate_ok _ (wf_congr a _ hlow2.symm ha)
    · rintro ⟨t, ht⟩
      have : t.length = k := by
        have := congrArg List.length ht
        simp at this
        show t.length = a.length - o.length
        omega
      rw [← ht, ← this, List.take_left' rfl]

end NameOrder
end Model

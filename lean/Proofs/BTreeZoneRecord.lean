import Proofs.BTreeZoneBounds
/-!
Glue between the invariant `Good` and the statements of record in `Props/C20.lean`.
-/
namespace Model
namespace BTZ

/-- what C20 says about a committed state: every node carries exactly the flags the documentation defines
from the zone content (`ORIGIN` on the apex; `DELEGATION` on every non-apex NS owner with no non-apex NS owner
above it; `GLUE` on every name strictly beneath such an owner), and the delegation index is exactly the list of
those delegation points, in canonical order -/
def FlagsAndIndexRight (cfg : Cfg) : ZState → Prop
  | none => True
  | some (nodes, delegs) => (∀ e ∈ nodes, e.2.flags = flagsSpec cfg nodes e.1) ∧ delegs = delegsSpec cfg nodes

theorem flagsAndIndexRight_of_good {cfg : Cfg} {z : ZState} (h : ZGood cfg z) : FlagsAndIndexRight cfg z := by
  cases z with
  | none => trivial
  | some p =>
    obtain ⟨N, D⟩ := p
    have hc := Good.toConsistent h
    unfold consistent at hc
    rw [Bool.and_eq_true, beq_iff_eq] at hc
    exact ⟨h.flags, hc.2⟩

theorem zGood_init (cfg : Cfg) (init : Bool) : ZGood cfg (initState init) := by
  unfold initState; split
  · exact Good_empty cfg
  · trivial

theorem ZWF_init (init : Bool) : ZWF (initState init) := by
  unfold initState; split
  · exact ⟨NWF_nil, DWF_nil⟩
  · trivial

/-- what C20 says about `bounds(q)` on a committed state: the result is the one the specification assigns to
the validated name (`KeyError` for a name outside the zone; the assertion of the code when the zone has no
visible name at or before it, i.e. no apex node) -/
def BoundsRight (v : Variant) (cfg : Cfg) (q : Name) : ZState → Prop
  | none => True
  | some (nodes, delegs) =>
    bounds v cfg nodes delegs q =
      match vname cfg q with
      | .error e => .error e
      | .ok name =>
        match boundsSpec cfg nodes name with
        | some b => .ok b
        | none => .error .assertion

theorem boundsRight_of_good {v : Variant} {cfg : Cfg} (hc : WfCfg cfg) {z : ZState} (h : ZGood cfg z) {q : Name}
    (hq : NoInnerEmpty q) (hgd : queryGuard v cfg q z = true) : BoundsRight v cfg q z := by
  cases z with
  | none => trivial
  | some p =>
    obtain ⟨N, D⟩ := p
    simp only [BoundsRight, bounds]
    simp only [queryGuard] at hgd
    cases hv : vname cfg q with
    | error e => rfl
    | ok name =>
      rw [hv] at hgd
      simp only at hgd ⊢
      exact boundsAt_eq_spec h hc (vname_LC hv) (vname_inzone hc hq hv) hgd

theorem queryGuard_intended (cfg : Cfg) (q : Name) (z : ZState) : queryGuard intended cfg q z = true := by
  cases z with
  | none => rfl
  | some p =>
    obtain ⟨N, D⟩ := p
    simp only [queryGuard]
    split
    · rfl
    · simp [boundsGuard, intended]

end BTZ
end Model

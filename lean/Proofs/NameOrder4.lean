import Proofs.NameOrder3
/-!
Helper lemmas for C06, part 4: RFC 4471 successor / predecessor are strictly monotone
(`_absolute_successor`, `_absolute_predecessor`, `_handle_relativity_and_call`).
-/
namespace Model
namespace NameOrder

/-! ## octet bumps: the `@`→`[`, `Z`→`{` and `[`→`@` special cases are what makes these hold -/

theorem bump_lt (o : Nat) :
    lowerOctet o < lowerOctet (if o = 64 then 91 else if o = 90 then 123 else o + 1) := by
  unfold lowerOctet
  repeat' split
  all_goals omega

theorem debump_lt (o : Nat) (h : o ≠ 0) :
    lowerOctet (if o = 91 then 64 else o - 1) < lowerOctet o := by
  unfold lowerOctet
  repeat' split
  all_goals omega

theorem dropWhile_cons_spec {α} (p : α → Bool) (L : List α) (o : α) (r : List α)
    (h : L.dropWhile p = o :: r) : ∃ t, L = t ++ o :: r := by
  induction L with
  | nil => simp at h
  | cons a L ih =>
    simp only [List.dropWhile_cons] at h
    split at h
    · obtain ⟨t, ht⟩ := ih h
      exact ⟨a :: t, by simp [ht]⟩
    · simp only [List.cons.injEq] at h
      obtain ⟨rfl, rfl⟩ := h
      exact ⟨[], rfl⟩

/-- incrementing the least significant non-0xFF octet (and truncating after it) yields a larger label -/
theorem incrLabel_spec (l l' : Label) (h : incrLabel l = some l') : lowerLabel l < lowerLabel l' := by
  unfold incrLabel at h
  split at h
  · cases h
  · rename_i o restRev hd
    simp only [Option.some.injEq] at h
    subst h
    obtain ⟨t, ht⟩ := dropWhile_cons_spec _ _ _ _ hd
    have hl : l = restRev.reverse ++ o :: t.reverse := by
      have := congrArg List.reverse ht
      simpa using this
    have := label_lt_bump restRev.reverse o (if o = 64 then 91 else if o = 90 then 123 else o + 1)
      t.reverse [] (bump_lt o)
    rw [← hl] at this
    exact this

/-! ## successor -/

def tryExtend (x : Label) (s : Name) : Option Name :=
  if x.length < 63 then
    match validate ((x ++ [0]) :: s) with
    | .ok nm => some nm
    | .error _ => none
  else none

theorem tryExtend_spec (x : Label) (s nm : Name) (h : tryExtend x s = some nm) :
    nm = (x ++ [0]) :: s ∧ WfName nm := by
  unfold tryExtend at h
  split at h
  · split at h
    · rename_i hv
      simp only [Option.some.injEq] at h
      subst h
      have e := validate_eq _ _ hv
      exact ⟨e, e ▸ wf_of_validate _ _ hv⟩
    · cases h
  · cases h

/-- a result of successor/predecessor other than the wrap-around: a legal name below the origin -/
def Below (o r : Name) : Prop := WfName r ∧ lowerName o <:+ lowerName r

theorem below_cons (o : Name) (y : Label) (s : Name) (hw : WfName (y :: s)) (hs : lowerName o <:+ lowerName s) :
    Below o (y :: s) :=
  ⟨hw, List.suffix_cons_iff.2 (Or.inr hs)⟩

theorem absSuccLoop_cons (o : Name) (x : Label) (s : Name) :
    absSuccLoop o (x :: s) =
      if nameEq (x :: s) o then .ok o
      else match tryExtend x s with
        | some nm => .ok nm
        | none =>
          match incrLabel x with
          | some l' => validate (l' :: s)
          | none => absSuccLoop o s := by
  rw [absSuccLoop]
  rfl

/-- the loop of `_absolute_successor`: started on a suffix `cur` of the name (which is below the origin),
it returns the origin or a legal name below the origin that sorts after every name ending in `cur` -/
theorem absSuccLoop_gt (o : Name) (ho : isAbs o = true) (cur : Name) :
    ∀ (pre r : Name), lowerName o <:+ lowerName cur → absSuccLoop o cur = .ok r →
      r = o ∨ (canonLt (pre ++ cur) r ∧ Below o r) := by
  induction cur with
  | nil =>
    intro pre r _ h
    simp only [absSuccLoop, Except.ok.injEq] at h
    exact Or.inl h.symm
  | cons x s ih =>
    intro pre r hsub h
    rw [absSuccLoop_cons] at h
    split at h
    · simp only [Except.ok.injEq] at h
      exact Or.inl h.symm
    · rename_i hne
      have hs : lowerName o <:+ lowerName s := by
        have : lowerName (x :: s) = lowerLabel x :: lowerName s := rfl
        rw [this, List.suffix_cons_iff] at hsub
        rcases hsub with e | e
        · exfalso; apply hne
          exact (nameEq_iff _ _).2 e.symm
        · exact e
      have hsne : s ≠ [] := by
        intro e; subst e
        have : lowerName o = [] := by simpa [lowerName] using hs
        have : o = [] := by simpa [lowerName] using this
        exact ne_nil_of_isAbs ho this
      split at h
      · rename_i nm hte
        simp only [Except.ok.injEq] at h
        subst h
        obtain ⟨e, hw⟩ := tryExtend_spec _ _ _ hte
        rw [e] at hw ⊢
        exact Or.inr ⟨lt_core pre [] s x (x ++ [0]) hsne (label_lt_append x 0 []), below_cons o _ s hw hs⟩
      · split at h
        · rename_i l' hinc
          have hw := wf_of_validate _ _ h
          rw [validate_eq _ _ h]
          exact Or.inr ⟨lt_core pre [] s x l' hsne (incrLabel_spec x l' hinc), below_cons o _ s hw hs⟩
        · rcases ih (pre ++ [x]) r hs h with e | e
          · exact Or.inl e
          · exact Or.inr ⟨by simpa using e.1, e.2⟩

/-- `_absolute_successor`, under its documented precondition (absolute name below the absolute origin) -/
theorem absoluteSuccessor_gt (n o r : Name) (p : Bool) (hn : isAbs n = true) (ho : isAbs o = true)
    (hsub : isSubdomain n o = true) (h : absoluteSuccessor n o p = .ok r) :
    r = o ∨ (canonLt n r ∧ Below o r) := by
  have hsuf := ((isSubdomain_iff n o).1 hsub).2
  unfold absoluteSuccessor at h
  simp only at h
  split at h
  · rename_i nm hpre
    simp only [Except.ok.injEq] at h
    subst h
    split at hpre
    · split at hpre
      · rename_i hv
        simp only [Option.some.injEq] at hpre
        subst hpre
        have hw := wf_of_validate _ _ hv
        rw [validate_eq _ _ hv]
        exact Or.inr ⟨lt_sub [[0]] n (ne_nil_of_isAbs hn) (by simp), below_cons o _ n hw hsuf⟩
      · cases hpre
    · cases hpre
  · have := absSuccLoop_gt o ho n [] r hsuf h
    simpa using this

/-- what `_handle_relativity_and_call` does for an absolute name -/
theorem handleRelativity_abs (f : Name → Name → Bool → Except NameErr Name) (n o r : Name) (p : Bool)
    (hn : isAbs n = true) (h : handleRelativity f n o p = .ok r) :
    isAbs o = true ∧ isSubdomain n o = true ∧ f n o p = .ok r := by
  unfold handleRelativity at h
  by_cases ho : isAbs o = true
  · by_cases hsub : isSubdomain n o = true
    · simp only [ho, hn, hsub, Bool.not_true, Bool.false_eq_true, if_false] at h
      cases hf : f n o p with
      | error e => rw [hf] at h; cases h
      | ok r' =>
        rw [hf] at h
        simp only [Except.ok.injEq] at h
        subst h
        exact ⟨ho, hsub, rfl⟩
    · simp [ho, hn, hsub] at h
  · simp [ho] at h

/-! ## predecessor -/

theorem padToMaxLabel_spec (l : Label) (s : Name) : ∃ t, padToMaxLabel l s = l ++ t := by
  unfold padToMaxLabel
  simp only
  split
  · exact ⟨[], by simp⟩
  · exact ⟨_, rfl⟩

theorem padToMaxName_spec (n r : Name) (h : padToMaxName n = .ok r) : ∃ P, r = P ++ n := by
  unfold padToMaxName at h
  exact ⟨_, validate_eq _ _ h⟩

/-- `_absolute_predecessor` for an absolute name below (and other than) the origin -/
theorem absolutePredecessor_lt (n o r : Name) (p : Bool) (hn : isAbs n = true)
    (hsuf : lowerName o <:+ lowerName n)
    (h : absolutePredecessor n o p = .ok r) : nameEq n o = true ∨ (canonLt r n ∧ Below o r) := by
  by_cases he : nameEq n o = true
  · exact Or.inl he
  · right
    cases n with
    | nil => simp [isAbs] at hn
    | cons lsl suffix =>
      have hs' : lowerName o <:+ lowerName suffix := by
        have : lowerName (lsl :: suffix) = lowerLabel lsl :: lowerName suffix := rfl
        rw [this, List.suffix_cons_iff] at hsuf
        rcases hsuf with e | e
        · exfalso; apply he
          exact (nameEq_iff _ _).2 e.symm
        · exact e
      unfold absolutePredecessor at h
      rw [if_neg he] at h
      simp only at h
      by_cases h0 : lsl = [0]
      · -- the least label is the single minimal octet: the parent
        rw [if_pos h0] at h
        obtain ⟨hp, _, _⟩ := parent_spec _ _ h
        simp only [List.drop_succ_cons, List.drop_zero] at hp
        have hw : WfName r := by
          unfold parent at h
          split at h
          · cases h
          · have := wf_of_validate _ _ h
            simpa [hp] using this
        subst hp
        have hs : r ≠ [] := by
          intro e; subst e
          rw [isAbs_singleton] at hn
          rw [hn] at h0; cases h0
        exact ⟨lt_sub [lsl] r hs (by simp), hw, hs'⟩
      · rw [if_neg h0] at h
        cases hlast : lsl.getLast? with
        | none => rw [hlast] at h; cases h
        | some lo =>
          rw [hlast] at h
          simp only at h
          obtain ⟨init, hinit⟩ := List.getLast?_eq_some_iff.1 hlast
          have hdl : lsl.dropLast = init := by rw [hinit]; simp
          have hs : suffix ≠ [] := by
            intro e; subst e
            rw [isAbs_singleton] at hn
            rw [hn] at hlast; cases hlast
          simp only [hdl] at h
          -- the new least label is smaller than the old one
          have key : ∀ (P : Name) (nl : Label), lowerLabel nl < lowerLabel lsl →
              canonLt (P ++ nl :: suffix) (lsl :: suffix) := by
            intro P nl hlt
            exact lt_core P [] suffix nl lsl hs hlt
          have hnl : lowerLabel (if lo = 0 then init
              else padToMaxLabel (init ++ [if lo = 91 then 64 else lo - 1]) suffix) < lowerLabel lsl := by
            rw [hinit]
            split
            · exact label_lt_append init lo []
            · rename_i hlo
              obtain ⟨t, ht⟩ := padToMaxLabel_spec (init ++ [if lo = 91 then 64 else lo - 1]) suffix
              rw [ht, List.append_assoc]
              exact label_lt_bump init _ lo _ [] (debump_lt lo hlo)
          split at h
          · cases h
          · rename_i nm hv
            have hnm := validate_eq _ _ hv
            split at h
            · obtain ⟨P, hP⟩ := padToMaxName_spec _ _ h
              have hw : WfName r := by
                unfold padToMaxName at h
                have := wf_of_validate _ _ h
                rw [← validate_eq _ _ h] at this
                exact this
              rw [hP, hnm]
              refine ⟨key P _ hnl, by rw [← hnm, ← hP]; exact hw, ?_⟩
              have : lowerName (P ++ (if lo = 0 then init
                  else padToMaxLabel (init ++ [if lo = 91 then 64 else lo - 1]) suffix) :: suffix) =
                  lowerName P ++ lowerLabel (if lo = 0 then init
                  else padToMaxLabel (init ++ [if lo = 91 then 64 else lo - 1]) suffix) :: lowerName suffix := by
                simp [lowerName]
              rw [this]
              exact List.suffix_append_of_suffix (List.suffix_cons_iff.2 (Or.inr hs'))
            · simp only [Except.ok.injEq] at h
              have hw : WfName nm := by
                have := wf_of_validate _ _ hv
                rw [← hnm] at this; exact this
              rw [← h, hnm]
              exact ⟨key [] _ hnl, by rw [← hnm]; exact hw, List.suffix_cons_iff.2 (Or.inr hs')⟩

end NameOrder
end Model

import Proofs.ParseOpt
/-! Render-then-parse of a whole message, now with the EDNS OPT record (no padding, no TSIG). -/
namespace Model

variable {Rs : RelSpec}

/-- well-formed message (absolute names, not an update, no TSIG, no padding request), with or without OPT -/
structure MsgOkE (Rs : RelSpec) (m : Message) : Prop where
  origin : m.origin = none
  id : m.id < 65536
  flags : m.flags < 65536
  notUpdate : isUpdate m.flags = false
  opt : ∀ o, m.opt = some o → OptOk o
  pad : m.pad = 0
  noTsig : m.tsig = none
  q : ∀ r ∈ m.q, QOk Rs r
  an : ∀ r ∈ m.an, RRsetOk Rs r
  au : ∀ r ∈ m.au, RRsetOk Rs r
  ad : ∀ r ∈ m.ad, RRsetOk Rs r
  keysAn : m.an.Pairwise (fun a b => keyMatch b.name b.rdclass b.rdtype b.covers none a = false)
  keysAu : m.au.Pairwise (fun a b => keyMatch b.name b.rdclass b.rdtype b.covers none a = false)
  keysAd : m.ad.Pairwise (fun a b => keyMatch b.name b.rdclass b.rdtype b.covers none a = false)
  counts : m.q.length < 65536 ∧ rrCount m.an < 65536 ∧ rrCount m.au < 65536 ∧ rrCount m.ad + 1 < 65536

/-- questions and the record sets of the three sections, read from `H ++ items ++ post` -/
theorem parse_body (cfg : PCfg) (horg : cfg.origin = none) (hnorr : cfg.oneRRPerRRset = false) (m : Message)
    (hq0 : ∀ r ∈ m.q, QOk Rs r) (han : ∀ r ∈ m.an, RRsetOk Rs r) (hau : ∀ r ∈ m.au, RRsetOk Rs r) (had : ∀ r ∈ m.ad, RRsetOk Rs r)
    (kan : m.an.Pairwise (fun a b => keyMatch b.name b.rdclass b.rdtype b.covers none a = false))
    (kau : m.au.Pairwise (fun a b => keyMatch b.name b.rdclass b.rdtype b.covers none a = false))
    (kad : m.ad.Pairwise (fun a b => keyMatch b.name b.rdclass b.rdtype b.covers none a = false))
    (H : Bytes) (hH : H.length = 12) (q : Bytes × CTable) (hq : itemsExt none 12 [] m.items = .ok q)
    (post : Bytes) (c1 c2 c3 : Nat) :
    ∃ qs' an' au' ad', SimList (RRset.sim Rs) qs' m.q ∧ SimList (RRset.sim Rs) an' m.an ∧ SimList (RRset.sim Rs) au' m.au ∧
      SimList (RRset.sim Rs) ad' m.ad ∧ TableSound Rs.R (H ++ q.1) q.2 ∧
      ∃ k1 k2 k3 : Nat,
        parseQuestions cfg false (H ++ q.1 ++ post) m.q.length { cur := 12 } = .ok { cur := k1, q := qs' } ∧
        parseSection cfg false (H ++ q.1 ++ post) 1 c1 (rrCount m.an) 0 { cur := k1, q := qs' }
          = .ok { cur := k2, q := qs', an := an' } ∧
        parseSection cfg false (H ++ q.1 ++ post) 2 c2 (rrCount m.au) 0 { cur := k2, q := qs', an := an' }
          = .ok { cur := k3, q := qs', an := an', au := au' } ∧
        parseSection cfg false (H ++ q.1 ++ post) 3 c3 (rrCount m.ad) 0 { cur := k3, q := qs', an := an', au := au' }
          = .ok { cur := 12 + q.1.length, q := qs', an := an', au := au', ad := ad' } := by
  simp only [Message.items] at hq
  rw [itemsExt_append, itemsExt_append, itemsExt_append] at hq
  cases hqq : itemsExt none 12 [] (m.q.map fun r => Item.q r.name r.rdtype r.rdclass) with
  | error e => rw [hqq] at hq; simp at hq
  | ok qq =>
    rw [hqq] at hq; simp only at hq
    cases hqa : itemsExt none (12 + qq.1.length) ([] ++ qq.2) (m.an.map (Item.rr 1)) with
    | error e => rw [hqa] at hq; simp at hq
    | ok qa =>
      rw [hqa] at hq; simp only at hq
      cases hqu : itemsExt none (12 + (qq.1 ++ qa.1).length) ([] ++ (qq.2 ++ qa.2)) (m.au.map (Item.rr 2)) with
      | error e => rw [hqu] at hq; simp at hq
      | ok qu =>
        rw [hqu] at hq; simp only at hq
        cases hqd : itemsExt none (12 + (qq.1 ++ qa.1 ++ qu.1).length) ([] ++ (qq.2 ++ qa.2 ++ qu.2)) (m.ad.map (Item.rr 3)) with
        | error e => rw [hqd] at hq; simp at hq
        | ok qd =>
          rw [hqd] at hq; simp only at hq; cases hq
          simp only
          -- questions
          rw [← hH] at hqq
          obtain ⟨qs', hpq, hsq, hsndq⟩ := parseQuestions_items cfg horg m.q H (qa.1 ++ qu.1 ++ qd.1 ++ post) [] qq
            { cur := 12 } (by simp [hH]) (tableSound_nil H) hq0 hqq
          have hwq : H ++ qq.1 ++ (qa.1 ++ qu.1 ++ qd.1 ++ post) = H ++ (qq.1 ++ qa.1 ++ qu.1 ++ qd.1) ++ post := by
            simp [List.append_assoc]
          rw [hwq] at hpq
          -- answer
          have hlA1 : (H ++ qq.1).length = 12 + qq.1.length := by simp [hH]
          rw [← hlA1] at hqa
          obtain ⟨an', hpa, hsa, hsnda⟩ := parseSection_rrsets cfg horg hnorr 1 m.an (H ++ qq.1) (qu.1 ++ qd.1 ++ post)
            ([] ++ qq.2) qa c1 0
            { cur := H.length + qq.1.length, q := [] ++ qs' } [] (by simp) hsndq (by simp [PState.section])
            han (keys_nil m.an) kan hqa
          have hwa : H ++ qq.1 ++ qa.1 ++ (qu.1 ++ qd.1 ++ post) = H ++ (qq.1 ++ qa.1 ++ qu.1 ++ qd.1) ++ post := by
            simp [List.append_assoc]
          rw [hwa] at hpa
          -- authority
          have hlA2 : (H ++ qq.1 ++ qa.1).length = 12 + (qq.1 ++ qa.1).length := by simp [hH] <;> omega
          rw [← hlA2] at hqu
          have hsnda' : TableSound Rs.R (H ++ qq.1 ++ qa.1) ([] ++ (qq.2 ++ qa.2)) := by
            simpa [List.append_assoc] using hsnda
          obtain ⟨au', hpu, hsu, hsndu⟩ := parseSection_rrsets cfg horg hnorr 2 m.au (H ++ qq.1 ++ qa.1) (qd.1 ++ post)
            ([] ++ (qq.2 ++ qa.2)) qu c2 0
            { cur := (H ++ qq.1).length + qa.1.length, q := [] ++ qs', an := [] ++ an' }
            [] (by simp <;> omega) hsnda' (by simp [PState.section])
            hau (keys_nil m.au) kau hqu
          have hwu : H ++ qq.1 ++ qa.1 ++ qu.1 ++ (qd.1 ++ post) = H ++ (qq.1 ++ qa.1 ++ qu.1 ++ qd.1) ++ post := by
            simp [List.append_assoc]
          rw [hwu] at hpu
          -- additional
          have hlA3 : (H ++ qq.1 ++ qa.1 ++ qu.1).length = 12 + (qq.1 ++ qa.1 ++ qu.1).length := by simp [hH] <;> omega
          rw [← hlA3] at hqd
          have hsndu' : TableSound Rs.R (H ++ qq.1 ++ qa.1 ++ qu.1) ([] ++ (qq.2 ++ qa.2 ++ qu.2)) := by
            simpa [List.append_assoc] using hsndu
          obtain ⟨ad', hpd, hsd, hsndd⟩ := parseSection_rrsets cfg horg hnorr 3 m.ad (H ++ qq.1 ++ qa.1 ++ qu.1) post
            ([] ++ (qq.2 ++ qa.2 ++ qu.2)) qd c3 0
            { cur := (H ++ qq.1 ++ qa.1).length + qu.1.length, q := [] ++ qs', an := [] ++ an', au := [] ++ au' }
            [] (by simp <;> omega) hsndu' (by simp [PState.section])
            had (keys_nil m.ad) kad hqd
          have hwd : H ++ qq.1 ++ qa.1 ++ qu.1 ++ qd.1 ++ post = H ++ (qq.1 ++ qa.1 ++ qu.1 ++ qd.1) ++ post := by
            simp [List.append_assoc]
          rw [hwd] at hpd
          refine ⟨qs', an', au', ad', hsq, hsa, hsu, hsd, ?_, H.length + qq.1.length, (H ++ qq.1).length + qa.1.length,
            (H ++ qq.1 ++ qa.1).length + qu.1.length, ?_, ?_, ?_, ?_⟩
          · simpa [List.append_assoc] using hsndd
          · simpa using hpq
          · simpa [PState.setSection] using hpa
          · simpa [PState.setSection] using hpu
          · have : (H ++ qq.1 ++ qa.1 ++ qu.1).length + qd.1.length = 12 + (qq.1 ++ qa.1 ++ qu.1 ++ qd.1).length := by
              simp [hH]; omega
            rw [this] at hpd
            simpa [PState.setSection] using hpd

end Model

namespace Model

variable {Rs : RelSpec}

def hdrBytes (m : Message) (c3 : Nat) : Bytes :=
  u16 m.id ++ u16 m.flags ++ u16 m.q.length ++ u16 (rrCount m.an) ++ u16 (rrCount m.au) ++ u16 c3

theorem hdrBytes_length (m : Message) (c3 : Nat) : (hdrBytes m c3).length = 12 := by simp [hdrBytes, u16]

theorem endTrack_stepOk {s : RState} {start : Nat} {o : Bytes} {t : CTable} {sec n : Nat} {s' : RState}
    (h : stepToExcept (s.endTrack start o t sec n) = .ok s') :
    s' = { s with out := o, tbl := t, counts := s.counts.bump sec n } := by
  unfold RState.endTrack at h
  split at h
  · simp [stepToExcept] at h
  · simp [stepToExcept] at h; exact h.symm

theorem finish_tail {X : Step} {w : Bytes}
    (h : (match (match stepToExcept X with
            | .error e => (Except.error e : Except RErr RState)
            | .ok r => .ok r.writeHeader) with
          | .ok r' => (Except.ok r'.out : Except RErr Bytes)
          | .error e => .error e) = .ok w) :
    ∃ r, stepToExcept X = .ok r ∧ w = r.writeHeader.out := by
  cases hst : stepToExcept X with
  | error e => rw [hst] at h; simp at h
  | ok r => rw [hst] at h; simp at h; exact ⟨r, rfl, h.symm⟩

/-- wire form of a message without TSIG and without padding: header, items, then the OPT record if any -/
theorem toWire_shape_opt (m : Message) (lim : Nat) (w : Bytes) (hpad : m.pad = 0) (hts : m.tsig = none)
    (h : m.toWire lim false = .ok w) :
    ∃ q, itemsExt m.origin 12 [] m.items = .ok q ∧
      match m.opt with
      | none => w = hdrBytes m (rrCount m.ad) ++ q.1
      | some o => ∃ p, rrsetExt (12 + q.1.length) q.2 m.origin (optRRset o) = .ok p ∧ p.2.2 = 1 ∧
          w = hdrBytes m (rrCount m.ad + 1) ++ q.1 ++ p.1 := by
  rw [toWire_eq] at h
  have hb : m.tsigReserve = .ok 0 := by simp [Message.tsigReserve, hts]
  rw [hb] at h
  simp only at h
  rw [renderSections_eq] at h
  cases hbase : m.base (clampSize lim m.requestPayload) m.optReserve 0 with
  | error e => rw [hbase] at h; simp at h
  | ok r2 =>
    rw [hbase] at h
    simp only at h
    obtain ⟨c0, i0, f0⟩ := base_fields m _ _ _ r2 hbase
    obtain ⟨hi2, _, _⟩ := base_inv m _ _ _ r2 hbase
    obtain ⟨o2, t2, og2⟩ := base_out m _ _ _ r2 hbase
    cases hit : r2.addItems m.items with
    | error e => rw [hit] at h; simp at h
    | ok p =>
      obtain ⟨r3, big⟩ := p
      rw [hit] at h
      simp only at h
      cases big with
      | true => simp [RState.afterItems] at h
      | false =>
        simp only [RState.afterItems, Bool.false_eq_true, if_false] at h
        obtain ⟨q, hq, ho, htb, hor⟩ := addItems_rel _ _ _ hit
        have hc := addItems_counts _ _ _ hit
        obtain ⟨_, _, _, i3, f3, _, _⟩ := addItems_inv _ _ _ _ hi2 hit
        rw [c0, countItems_message] at hc
        rw [o2, t2, og2] at hq
        simp only [List.length_replicate] at hq
        refine ⟨q, hq, ?_⟩
        unfold finishOut RState.finish at h
        cases hopt : m.opt with
        | none =>
          simp only [hopt, hts] at h
          simp at h
          rw [← h]
          simp only [hdrBytes, RState.writeHeader, RState.releaseReserved, hc, i3, i0, f3, f0, ho, o2]
          rw [List.drop_append_of_le_length (by simp)]
          simp
        | some o =>
          simp only [hopt, hts, hpad, addOpt_zero, RState.addOptCore, ne_eq, not_true_eq_false, if_false] at h
          have hrel := addItem_rel r3.releaseReserved (.rr ConstsC03.secADDITIONAL (optRRset o))
          simp only [RState.addItem] at hrel
          rw [hrel] at h
          cases hsec : r3.releaseReserved.setSection (Item.rr ConstsC03.secADDITIONAL (optRRset o)).sec with
          | error e => rw [hsec] at h; simp [stepToExcept] at h
          | ok s0 =>
            obtain ⟨rfl, _⟩ := setSection_ok hsec
            rw [hsec] at h
            simp only [itemExt] at h
            have e1 : r3.releaseReserved.out = List.replicate 12 0 ++ q.1 := by
              simp only [RState.releaseReserved]; rw [ho, o2]
            have e2 : r3.releaseReserved.tbl = q.2 := by
              simp only [RState.releaseReserved]; rw [htb, t2]; simp
            have e3 : r3.releaseReserved.origin = m.origin := by
              simp only [RState.releaseReserved]; rw [hor, og2]
            simp only [e1, e2, e3] at h
            have hl : (List.replicate 12 0 ++ q.1 : Bytes).length = 12 + q.1.length := by
              simp only [List.length_append, List.length_replicate]
            rw [hl] at h
            cases hx : rrsetExt (12 + q.1.length) q.2 m.origin (optRRset o) with
            | error e => rw [hx] at h; simp [stepToExcept] at h
            | ok p =>
              rw [hx] at h
              simp only at h
              have hp1 : p.2.2 = 1 := by
                unfold rrsetExt at hx
                simp only [optRRset, List.length_cons, List.length_nil] at hx
                simp only [show ¬ (0 + 1 = 0) by omega, if_false] at hx
                split at hx
                · simp at hx
                · simp at hx; rw [← hx]
              refine ⟨p, hx, hp1, ?_⟩
              obtain ⟨r5, hst, hw5⟩ := finish_tail h
              have := endTrack_stepOk hst
              subst this
              rw [hw5]
              simp only [hdrBytes, RState.writeHeader, RState.releaseReserved, hc, i3, i0, f3, f0, Counts.bump, Item.sec,
                secADD, hp1]
              simp

end Model

namespace Model

variable {Rs : RelSpec}

theorem parse_header (m : Message) (c3 : Nat) (rest : Bytes) :
    slice (hdrBytes m c3 ++ rest) 0 2 = u16 m.id ∧ slice (hdrBytes m c3 ++ rest) 2 2 = u16 m.flags ∧
    slice (hdrBytes m c3 ++ rest) 4 2 = u16 m.q.length ∧ slice (hdrBytes m c3 ++ rest) 6 2 = u16 (rrCount m.an) ∧
    slice (hdrBytes m c3 ++ rest) 8 2 = u16 (rrCount m.au) ∧ slice (hdrBytes m c3 ++ rest) 10 2 = u16 c3 := by
  refine ⟨?_, ?_, ?_, ?_, ?_, ?_⟩
  · exact slice_at _ [] (u16 m.id) (u16 m.flags ++ u16 m.q.length ++ u16 (rrCount m.an) ++ u16 (rrCount m.au) ++ u16 c3 ++ rest)
      (by simp [hdrBytes, List.append_assoc]) _ _ rfl rfl
  · exact slice_at _ (u16 m.id) (u16 m.flags) (u16 m.q.length ++ u16 (rrCount m.an) ++ u16 (rrCount m.au) ++ u16 c3 ++ rest)
      (by simp [hdrBytes, List.append_assoc]) _ _ rfl rfl
  · exact slice_at _ (u16 m.id ++ u16 m.flags) (u16 m.q.length) (u16 (rrCount m.an) ++ u16 (rrCount m.au) ++ u16 c3 ++ rest)
      (by simp [hdrBytes, List.append_assoc]) _ _ rfl rfl
  · exact slice_at _ (u16 m.id ++ u16 m.flags ++ u16 m.q.length) (u16 (rrCount m.an)) (u16 (rrCount m.au) ++ u16 c3 ++ rest)
      (by simp [hdrBytes, List.append_assoc]) _ _ rfl rfl
  · exact slice_at _ (u16 m.id ++ u16 m.flags ++ u16 m.q.length ++ u16 (rrCount m.an)) (u16 (rrCount m.au)) (u16 c3 ++ rest)
      (by simp [hdrBytes, List.append_assoc]) _ _ rfl rfl
  · exact slice_at _ (u16 m.id ++ u16 m.flags ++ u16 m.q.length ++ u16 (rrCount m.an) ++ u16 (rrCount m.au)) (u16 c3) rest
      (by simp [hdrBytes, List.append_assoc]) _ _ rfl rfl

/-- render-then-parse: absolute names, any opcode but UPDATE, with or without the EDNS OPT record -/
theorem parse_toWire_opt (m : Message) (lim : Nat) (w : Bytes) (hok : MsgOkE Rs m) (h : m.toWire lim false = .ok w)
    (cfg : PCfg) (horg : cfg.origin = none) (hnorr : cfg.oneRRPerRRset = false) :
    ∃ m', parseMessage cfg w = .ok m' ∧ m'.sim Rs m := by
  obtain ⟨q, hq, hshape⟩ := toWire_shape_opt m lim w hok.pad hok.noTsig h
  rw [hok.origin] at hq
  obtain ⟨cq, can, cau, cad⟩ := hok.counts
  cases hopt : m.opt with
  | none =>
    rw [hopt] at hshape
    simp only at hshape
    obtain ⟨qs', an', au', ad', hsq, hsa, hsu, hsd, _, k1, k2, k3, hp0, hp1, hp2, hp3⟩ :=
      parse_body cfg horg hnorr m hok.q hok.an hok.au hok.ad hok.keysAn hok.keysAu hok.keysAd
        (hdrBytes m (rrCount m.ad)) (hdrBytes_length _ _) q hq [] (rrCount m.an) (rrCount m.au) (rrCount m.ad)
    have hw : hdrBytes m (rrCount m.ad) ++ q.1 ++ [] = w := by rw [hshape]; simp
    rw [hw] at hp0 hp1 hp2 hp3
    obtain ⟨s0, s2, s4, s6, s8, s10⟩ := parse_header m (rrCount m.ad) q.1
    rw [← hshape] at s0 s2 s4 s6 s8 s10
    refine ⟨{ id := m.id, flags := m.flags, origin := cfg.origin, q := qs', an := an', au := au', ad := ad' }, ?_,
      rfl, rfl, hsq, hsa, hsu, hsd, by simp [hopt], by simp [hok.noTsig]⟩
    unfold parseMessage
    have hwl : ¬ w.length < 12 := by rw [hshape]; simp [hdrBytes_length]
    simp only [hwl, if_false, s0, s2, s4, s6, s8, s10, beVal_u16 _ hok.id, beVal_u16 _ hok.flags, beVal_u16 _ cq,
      beVal_u16 _ can, beVal_u16 _ cau, beVal_u16 _ (show rrCount m.ad < 65536 by omega), hok.notUpdate, hp0, hp1, hp2, hp3]
    have hend : w.length - (12 + q.1.length) = 0 := by rw [hshape]; simp [hdrBytes_length]
    simp [hend]
  | some o =>
    rw [hopt] at hshape
    simp only at hshape
    obtain ⟨p, hp, hp1', hshape⟩ := hshape
    rw [hok.origin] at hp
    obtain ⟨qs', an', au', ad', hsq, hsa, hsu, hsd, hsnd, k1, k2, k3, hp0, hp1, hp2, hp3⟩ :=
      parse_body cfg horg hnorr m hok.q hok.an hok.au hok.ad hok.keysAn hok.keysAu hok.keysAd
        (hdrBytes m (rrCount m.ad + 1)) (hdrBytes_length _ _) q hq p.1 (rrCount m.an) (rrCount m.au) (rrCount m.ad + 1)
    rw [← hshape] at hp0 hp1 hp2 hp3
    obtain ⟨s0, s2, s4, s6, s8, s10⟩ := parse_header m (rrCount m.ad + 1) (q.1 ++ p.1)
    have hw2 : hdrBytes m (rrCount m.ad + 1) ++ (q.1 ++ p.1) = w := by rw [hshape]; simp [List.append_assoc]
    rw [hw2] at s0 s2 s4 s6 s8 s10
    -- the OPT record
    have hlA : (hdrBytes m (rrCount m.ad + 1) ++ q.1).length = 12 + q.1.length := by simp [hdrBytes_length]
    rw [← hlA] at hp
    obtain ⟨hpo, _, _⟩ := parseRR_opt cfg horg false (hdrBytes m (rrCount m.ad + 1) ++ q.1) [] q.2 o p (rrCount m.ad + 1)
      (0 + rrCount m.ad) { cur := 12 + q.1.length, q := qs', an := an', au := au', ad := ad' }
      (by simp [hdrBytes_length]) hsnd (hok.opt o hopt) rfl hp
    have hw3 : hdrBytes m (rrCount m.ad + 1) ++ q.1 ++ p.1 ++ [] = w := by rw [hshape]; simp
    rw [hw3] at hpo
    refine ⟨{ id := m.id, flags := m.flags, origin := cfg.origin, q := qs', an := an', au := au', ad := ad', opt := some o }, ?_,
      rfl, rfl, hsq, hsa, hsu, hsd, by simp [hopt], by simp [hok.noTsig]⟩
    unfold parseMessage
    have hwl : ¬ w.length < 12 := by rw [hshape]; simp [hdrBytes_length] <;> omega
    simp only [hwl, if_false, s0, s2, s4, s6, s8, s10, beVal_u16 _ hok.id, beVal_u16 _ hok.flags, beVal_u16 _ cq,
      beVal_u16 _ can, beVal_u16 _ cau, beVal_u16 _ cad, hok.notUpdate, hp0, hp1, hp2]
    rw [parseSection_add, hp3]
    simp only [parseSection, secADD] at hpo ⊢
    rw [hpo]
    simp
    intro _
    rw [hshape]; simp only [List.length_append, hdrBytes_length]; omega

end Model

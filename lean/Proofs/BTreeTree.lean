import Proofs.BTreeRoot
/-!
The tree handle (`BTree` / `BTreeDict` / `BTreeSet`): well-formedness of a handle and the refinement
statements for `insert_element` and `_delete` at that level.
-/
namespace Model.BTree

/-- a well-formed tree handle: `t ≥ 3` (the constructor's guard), a well-formed root, and `size` equal to
the number of stored elements -/
structure TreeWf (tr : Tree) : Prop where
  t_ok : 3 ≤ tr.t
  wf : Wf tr.t tr.root
  size_ok : tr.size = (flat tr.root).length

theorem empty_treeWf {t : Nat} (ht : 3 ≤ t) (io ca : Bool) :
    TreeWf (Tree.empty t io ca) ∧ RootOk (Tree.empty t io ca).root := by
  refine ⟨⟨ht, ⟨⟨0, by simp [Tree.empty]⟩, by simp [Tree.empty, Node.elts], by simp [Tree.empty]⟩,
    by simp [Tree.empty]⟩, Or.inl (by simp [Tree.empty, Node.isLeaf])⟩

theorem tree_insert_spec {tr : Tree} (e : Elt) (hw : TreeWf tr) (hm : tr.immutable = false) :
    TreeWf (tr.insert e).1 ∧ (tr.insert e).1.items = insSorted e tr.items ∧
    (tr.insert e).2 = .ok (lookup tr.items e.1) ∧
    (RootOk tr.root → RootOk (tr.insert e).1.root) ∧
    (tr.insert e).1.t = tr.t ∧ (tr.insert e).1.immutable = false ∧
    (tr.insert e).1.inOrder = tr.inOrder ∧ (tr.insert e).1.collapseAlways = tr.collapseAlways := by
  have ht2 : 2 ≤ tr.t := by have := hw.t_ok; omega
  obtain ⟨h1, h2, h3⟩ := insertRoot_spec ht2 tr.inOrder e hw.wf
  have hrk := insertRoot_rootOk ht2 tr.inOrder e hw.wf
  unfold Tree.insert
  simp only [hm, Bool.false_eq_true, if_false]
  rcases hir : insertRoot tr.t tr.inOrder tr.root e with ⟨r, old⟩
  rw [hir] at h1 h2 h3 hrk
  simp only [] at h1 h2 h3 hrk ⊢
  refine ⟨⟨hw.t_ok, h1, ?_⟩, h2, by simp [h3, Tree.items], hrk, ?_⟩
  · simp only []
    rw [h2, h3]
    exact size_insert hw.wf.sorted hw.size_ok
  · simp

/-- the common part of the two `_delete` statements -/
theorem tree_delete_of_root {tr : Tree} (k : Nat) (hw : TreeWf tr) (hm : tr.immutable = false)
    (hroot : Wf tr.t (deleteRoot tr.collapseAlways tr.t tr.root k none).1 ∧
      flat (deleteRoot tr.collapseAlways tr.t tr.root k none).1 = delKey k (flat tr.root) ∧
      (deleteRoot tr.collapseAlways tr.t tr.root k none).2 = .ok (lookup (flat tr.root) k)) :
    TreeWf (tr.delete k none).1 ∧ (tr.delete k none).1.items = delKey k tr.items ∧
    (tr.delete k none).2 = .ok (lookup tr.items k) ∧
    (tr.delete k none).1.root = (deleteRoot tr.collapseAlways tr.t tr.root k none).1 := by
  obtain ⟨h1, h2, h3⟩ := hroot
  unfold Tree.delete
  simp only [hm, Bool.false_eq_true, if_false]
  rcases hdr : deleteRoot tr.collapseAlways tr.t tr.root k none with ⟨r, res⟩
  rw [hdr] at h1 h2 h3
  simp only [] at h1 h2 h3
  subst h3
  simp only []
  refine ⟨⟨hw.t_ok, h1, ?_⟩, h2, ?_⟩
  · simp only []
    rw [h2]
    exact size_delete hw.wf.sorted hw.size_ok
  · simp [Tree.items]

/-- the full shape as plain data: every node in preorder with its kind, elements and number of children
(what the correspondence check compares) -/
def shapeCode (n : Node) : List (Bool × List Elt × Nat) :=
  (preorder n).map fun x => (x.isLeaf, x.elts, x.children.length)

theorem frozen_insert {tr : Tree} (e : Elt) (h : tr.immutable = true) : tr.insert e = (tr, .immutableErr) := by
  simp [Tree.insert, h]

theorem frozen_delete {tr : Tree} (k : Nat) (x : Option Elt) (h : tr.immutable = true) :
    tr.delete k x = (tr, .immutableErr) := by
  simp [Tree.delete, h]

end Model.BTree

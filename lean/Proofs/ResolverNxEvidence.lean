import Model.Resolver
import Proofs.Resolver
import Proofs.ResolverStep
import Proofs.ResolverRun
import Proofs.ResolverCache
/-!
Helper lemmas for C16, part 10: where NXDOMAIN evidence comes from.  Every name recorded in `nxdomain_responses` was
either answered with a validated NXDOMAIN response during this resolution, or has a live NXDOMAIN entry under
`(name, ANY, class)` in the cache *the resolution started with*.
-/
set_option linter.unusedSimpArgs false
namespace Model.Resolver
open Model

/-- a query of this resolution for (a spelling of) `n` got a validated NXDOMAIN response -/
def EvNx (env : Env) (evs : List Event) (n : Name) : Prop :=
  ∃ q' ns tcp t r c, Event.query q' ns tcp t (.resp r) ∈ evs ∧ r.rcode = rcNXDOMAIN ∧
    resolveChaining env.maxChain r q' env.rdclass env.rdtype = .ok c ∧ sameName q' n = true

/-- the initial cache holds an NXDOMAIN entry for `n`, alive at some instant -/
def CachedNx0 (env : Env) (c0 : Cache) (n : Name) : Prop :=
  ∃ a t, cacheGet c0 (mkKey n tyANY env.rdclass) t = some a ∧ a.rcode = rcNXDOMAIN

def Evid (env : Env) (c0 : Cache) (evs : List Event) (n : Name) : Prop := EvNx env evs n ∨ CachedNx0 env c0 n

/-- provenance of the NXDOMAIN entries of a cache: initial, or put by this resolution after a validated response -/
def Prov (env : Env) (c0 : Cache) (evs : List Event) (c : Cache) : Prop :=
  ∀ n t a, cacheGet c (mkKey n tyANY env.rdclass) t = some a → a.rcode = rcNXDOMAIN →
    cacheGet c0 (mkKey n tyANY env.rdclass) t = some a ∨ EvNx env evs n

theorem EvNx_mono {env : Env} {a b : List Event} {n : Name} (h : EvNx env a n) : EvNx env (a ++ b) n := by
  obtain ⟨q', ns, tcp, t, r, c, h1, h2⟩ := h
  exact ⟨q', ns, tcp, t, r, c, List.mem_append_left _ h1, h2⟩

theorem Evid_mono {env : Env} {c0 : Cache} {a b : List Event} {n : Name} (h : Evid env c0 a n) :
    Evid env c0 (a ++ b) n := by
  rcases h with h | h
  · exact Or.inl (EvNx_mono h)
  · exact Or.inr h

theorem Prov_mono {env : Env} {c0 : Cache} {a b : List Event} {c : Cache} (h : Prov env c0 a c) :
    Prov env c0 (a ++ b) c := by
  intro n t x h1 h2
  rcases h n t x h1 h2 with h | h
  · exact Or.inl h
  · exact Or.inr (EvNx_mono h)

theorem sameName_of_mkKey {n m : Name} {ty cls : Nat} (h : mkKey n ty cls = mkKey m ty cls) : sameName n m = true := by
  simp only [mkKey, Prod.mk.injEq] at h
  simp [sameName, h.1]

theorem mkKey_of_sameName {n m : Name} (ty cls : Nat) (h : sameName n m = true) : mkKey n ty cls = mkKey m ty cls := by
  simp only [sameName, beq_iff_eq] at h
  simp [mkKey, h]

theorem sameName_trans {a b c : Name} (h1 : sameName a b = true) (h2 : sameName b c = true) : sameName a c = true := by
  simp only [sameName, beq_iff_eq] at *
  rw [h1, h2]

theorem mkAnswer_ok {mc : Nat} {q : Name} {ty cls qcls qty : Nat} {r : Resp} {srv : Option Nat} {now : Nat}
    {a : Answer} (h : mkAnswer mc q ty cls qcls qty r srv now = .ok a) :
    (∃ c, resolveChaining mc r q qcls qty = .ok c) ∧ a.rcode = r.rcode := by
  unfold mkAnswer at h
  cases hc : resolveChaining mc r q qcls qty with
  | error e => simp [hc] at h
  | ok c =>
    simp only [hc, Except.ok.injEq] at h
    subst h
    exact ⟨⟨c, rfl⟩, rfl⟩

theorem mem_recordNx {nx : List Name} {q p : Name} (h : p ∈ recordNx nx q) : p ∈ nx ∨ p = q := by
  unfold recordNx at h
  split at h
  · exact Or.inl h
  · rcases List.mem_append.mp h with h | h
    · exact Or.inl h
    · simp only [List.mem_singleton] at h; exact Or.inr h

/-! ## `next_request`: names recorded from the cache -/

def CachedNxAt (env : Env) (st : St) (p : Name) : Prop :=
  ∃ a, cacheGet st.cache (mkKey p tyANY env.rdclass) st.now = some a ∧ a.rcode = rcNXDOMAIN

def NRSrc (env : Env) (st : St) : NextReq → Prop
  | .raise (.nxdomain _ nx) => ∀ p ∈ nx, p ∈ st.nxNames ∨ CachedNxAt env st p
  | .raise _ => True
  | .hit _ => True
  | .request st' => ∀ p ∈ st'.nxNames, p ∈ st.nxNames ∨ CachedNxAt env st p

theorem nextRequest_src (env : Env) : ∀ (qs : List Name) (st : St), NRSrc env st (nextRequest env qs st)
  | [], st => by
    simp only [nextRequest, NRSrc]
    exact fun p hp => Or.inl hp
  | q :: rest, st => by
    have hbuild : NRSrc env st (.request
        { st with phase := .querying, qnames := rest, qname := q,
                  nameservers := env.cfg.servers, current := env.cfg.servers, nameserver := none,
                  tcpAttempt := false, retryWithTcp := false, backoff := env.bo.init }) := by
      simp only [NRSrc]
      exact fun p hp => Or.inl hp
    unfold nextRequest
    simp only
    split
    · split
      · split <;> simp [NRSrc]
      · split
        · rename_i a ha
          split
          · rename_i hnx
            have ih := nextRequest_src env rest
              { st with qnames := rest, qname := q, nxNames := recordNx st.nxNames q }
            generalize nextRequest env rest
              { st with qnames := rest, qname := q, nxNames := recordNx st.nxNames q } = res at ih
            have hstep : ∀ p, (p ∈ recordNx st.nxNames q ∨
                CachedNxAt env { st with qnames := rest, qname := q, nxNames := recordNx st.nxNames q } p) →
                p ∈ st.nxNames ∨ CachedNxAt env st p := by
              intro p hp
              rcases hp with hp | hp
              · rcases mem_recordNx hp with hp | rfl
                · exact Or.inl hp
                · exact Or.inr ⟨a, ha, hnx⟩
              · exact Or.inr hp
            cases res with
            | raise r =>
              cases r <;> simp only [NRSrc] at ih ⊢
              exact fun p hp => hstep p (ih p hp)
            | hit a2 => simp [NRSrc]
            | request st' =>
              simp only [NRSrc] at ih ⊢
              exact fun p hp => hstep p (ih p hp)
          · exact hbuild
        · exact hbuild
    · exact hbuild

/-! ## `query_result`: names recorded and cache entries put after a response -/

theorem Prov_put_noerror {env : Env} {c0 : Cache} {evs : List Event} {c : Cache} {K : Key} {A : Answer}
    (h : Prov env c0 evs c) (hA : A.rcode = rcNOERROR) : Prov env c0 evs (cachePut c K A) := by
  intro n t a h1 h2
  rw [cacheGet_put] at h1
  split at h1
  · split at h1
    · cases h1
    · cases h1
      rw [hA] at h2
      cases h2
  · exact h n t a h1 h2

theorem Prov_put_nx {env : Env} {c0 : Cache} {evs : List Event} {c : Cache} {q : Name} {A : Answer}
    (h : Prov env c0 evs c) (hq : EvNx env evs q) :
    Prov env c0 evs (cachePut c (mkKey q tyANY env.rdclass) A) := by
  intro n t a h1 h2
  rw [cacheGet_put] at h1
  split at h1
  · rename_i hk
    right
    obtain ⟨q', ns, tcp, t', r, c', e1, e2, e3, e4⟩ := hq
    exact ⟨q', ns, tcp, t', r, c', e1, e2, e3, sameName_trans e4 (sameName_of_mkKey hk.symm)⟩
  · exact h n t a h1 h2

theorem queryResult_evid (env : Env) (c0 : Cache) (pre : List Event) (st : St) (ns : Server) (tcp : Bool) (t : Nat)
    (out : Outcome) (hnx : ∀ n ∈ st.nxNames, Evid env c0 pre n) (hprov : Prov env c0 pre st.cache) :
    (∀ n ∈ (queryResult env st ns out).st.nxNames, Evid env c0 (pre ++ [.query st.qname ns tcp t out]) n) ∧
    Prov env c0 (pre ++ [.query st.qname ns tcp t out]) (queryResult env st ns out).st.cache := by
  have hnx' : ∀ n ∈ st.nxNames, Evid env c0 (pre ++ [.query st.qname ns tcp t out]) n :=
    fun n hn => Evid_mono (hnx n hn)
  have hprov' : Prov env c0 (pre ++ [.query st.qname ns tcp t out]) st.cache := Prov_mono hprov
  cases out with
  | exc k =>
    cases k <;> cases hta : st.tcpAttempt <;>
      simp only [queryResult, QR.st, removeNs, hta, Bool.false_eq_true, if_true, if_false] <;>
      exact ⟨hnx', hprov'⟩
  | resp r =>
    simp only [queryResult]
    split
    · -- NOERROR
      split
      · exact ⟨hnx', hprov'⟩
      · rename_i a ha
        have hrc : a.rcode = rcNOERROR := by rw [(mkAnswer_ok ha).2]; assumption
        have hp2 : Prov env c0 (pre ++ [.query st.qname ns tcp t (.resp r)])
            (if env.cfg.cacheOn = true then
              { st with cache := cachePut st.cache (mkKey st.qname env.rdtype env.rdclass) a } else st).cache := by
          split
          · exact Prov_put_noerror hprov' hrc
          · exact hprov'
        have hn2 : (if env.cfg.cacheOn = true then
              { st with cache := cachePut st.cache (mkKey st.qname env.rdtype env.rdclass) a } else st).nxNames
              = st.nxNames := by split <;> rfl
        split
        · exact ⟨by simp only [QR.st]; rw [hn2]; exact hnx', hp2⟩
        · exact ⟨by simp only [QR.st]; rw [hn2]; exact hnx', hp2⟩
    · split
      · -- NXDOMAIN
        rename_i hrc
        split
        · exact ⟨hnx', hprov'⟩
        · rename_i a ha
          obtain ⟨⟨c, hc⟩, _⟩ := mkAnswer_ok ha
          have hev : EvNx env (pre ++ [.query st.qname ns tcp t (.resp r)]) st.qname :=
            ⟨st.qname, ns, tcp, t, r, c, by simp, hrc, hc, sameName_refl _⟩
          simp only [QR.st]
          refine ⟨?_, ?_⟩
          · intro n hn
            have hn' : n ∈ recordNx st.nxNames st.qname := by
              split at hn <;> exact hn
            rcases mem_recordNx hn' with h | rfl
            · exact hnx' n h
            · exact Or.inl hev
          · split
            · exact Prov_put_nx hprov' hev
            · exact hprov'
      · split
        · exact ⟨hnx', hprov'⟩
        · split <;> exact ⟨hnx', hprov'⟩

def InvE (env : Env) (c0 : Cache) (pre : List Event) (st : St) : Prop :=
  (∀ n ∈ st.nxNames, Evid env c0 pre n) ∧ Prov env c0 pre st.cache

theorem afterPick_evid (env : Env) (c0 : Cache) (pre : List Event) (ns : Server) (tcp : Bool) (b : Nat) (st1 : St)
    (hinv : InvE env c0 pre st1) :
    InvE env c0 (pre ++ (afterPick env st1.qname ns tcp b st1).evs) (afterPick env st1.qname ns tcp b st1).st := by
  obtain ⟨hnx, hprov⟩ := hinv
  unfold afterPick
  simp only
  split
  · exact ⟨fun n hn => Evid_mono (hnx n hn), Prov_mono hprov⟩
  · rename_i timeout _
    have h := queryResult_evid env c0
      (pre ++ (if b ≠ 0 then [Event.sleep (sleepFor env b st1.now)] else []))
      { st1 with now := st1.now + sleepFor env b st1.now + (doQuery st1.script timeout).2.1,
                 script := (doQuery st1.script timeout).2.2 } ns tcp timeout (doQuery st1.script timeout).1
      (fun n hn => Evid_mono (hnx n hn)) (Prov_mono hprov)
    simp only [List.append_assoc] at h
    split
    · rename_i r st4 hq
      rw [hq] at h
      exact h
    · rename_i a d st4 hq
      rw [hq] at h
      exact h
    · rename_i d st4 hq
      rw [hq] at h
      cases d <;> exact h

/-- the names an NXDOMAIN result carries all have evidence -/
def PostE (env : Env) (c0 : Cache) (evs : List Event) (r : Result) : Prop :=
  ∀ qs rs, r = .nxdomain qs rs → ∀ n ∈ rs, Evid env c0 evs n

theorem Evid_of_cachedAt {env : Env} {c0 : Cache} {pre : List Event} {st : St} {p : Name}
    (hprov : Prov env c0 pre st.cache) (h : CachedNxAt env st p) : Evid env c0 pre p := by
  obtain ⟨a, ha, hr⟩ := h
  rcases hprov p st.now a ha hr with h | h
  · exact Or.inr ⟨a, st.now, h, hr⟩
  · exact Or.inl h

theorem step_evid (env : Env) (c0 : Cache) (pre : List Event) (st : St) (hinv : InvE env c0 pre st) :
    (∀ evs st', step env st = .cont evs st' → InvE env c0 (pre ++ evs) st') ∧
    (∀ evs r st', step env st = .done evs r st' → PostE env c0 (pre ++ evs) r) := by
  obtain ⟨hnx, hprov⟩ := hinv
  unfold step
  split
  · have hsrc := nextRequest_src env st.qnames st
    have hs := nextRequest_spec env st.qnames st
    split
    · rename_i r hr
      rw [hr] at hsrc
      refine ⟨(fun _ _ h => by cases h), ?_⟩
      intro evs r' st' h
      cases h
      intro qs rs hrs
      subst hrs
      simp only [NRSrc] at hsrc
      intro n hn
      simp only [List.append_nil]
      rcases hsrc n hn with h | h
      · exact hnx n h
      · exact Evid_of_cachedAt hprov h
    · refine ⟨(fun _ _ h => by cases h), ?_⟩
      intro evs r' st' h
      cases h
      intro qs rs hrs
      cases hrs
    · rename_i st2 hr
      rw [hr] at hsrc hs
      refine ⟨?_, (fun _ _ _ h => by cases h)⟩
      intro evs st' h
      cases h
      simp only [NRSrc] at hsrc
      obtain ⟨_, _, _, _, _, _, _, _, p7, _⟩ := hs
      refine ⟨?_, by rw [p7]; exact Prov_mono hprov⟩
      intro n hn
      rcases hsrc n hn with h | h
      · exact Evid_mono (hnx n h)
      · exact Evid_mono (Evid_of_cachedAt hprov h)
  · split
    · rename_i r hr
      refine ⟨(fun _ _ h => by cases h), ?_⟩
      intro evs r' st' h
      cases h
      intro qs rs hrs
      rw [(nextNameserver_raise hr).1] at hrs
      cases hrs
    · rename_i ns tcp b st1 hns
      obtain ⟨⟨g1, g2, g3, g4, g5, g6, g7, g8⟩, _⟩ := nextNameserver_ok hns
      have he := afterPick_evid env c0 pre ns tcp b st1 ⟨by rw [g4]; exact hnx, by rw [g7]; exact hprov⟩
      rw [g3] at he
      refine ⟨?_, ?_⟩
      · intro evs st' h
        rw [h] at he
        exact he
      · intro evs r st' h
        intro qs rs hrs
        rcases afterPick_done_ne h with rfl | rfl | rfl | ⟨a, rfl⟩ <;> cases hrs

theorem Evid_sameName {env : Env} {c0 : Cache} {evs : List Event} {n q : Name} (h : Evid env c0 evs n)
    (hs : sameName n q = true) : Evid env c0 evs q := by
  rcases h with ⟨q', ns, tcp, t, r, c, e1, e2, e3, e4⟩ | ⟨a, t, h1, h2⟩
  · exact Or.inl ⟨q', ns, tcp, t, r, c, e1, e2, e3, sameName_trans e4 hs⟩
  · exact Or.inr ⟨a, t, by rw [← mkKey_of_sameName tyANY env.rdclass hs]; exact h1, h2⟩

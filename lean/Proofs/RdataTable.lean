import Model.RdataSchema
import Model.RdataIrregular
import Model.RdataTable
import Proofs.RdataCodec
/-! static well-formedness of every schema of the table (C02) -/
namespace Model

theorem hip_wf : wf hipSchema = true := by
  simp only [wf, hipSchema, sdwf, Schema.seq, Bool.and_eq_true, List.all_eq_true]
  refine ⟨by decide, ?_⟩
  intro i _
  simp [minLen]

set_option maxRecDepth 100000 in
theorem tableRest_wf : ∀ e ∈ tableRest, wf e.schema = true := by decide

theorem table_wf' : ∀ e ∈ table, wf e.schema = true := by
  intro e he
  rcases List.mem_cons.1 he with rfl | h
  · exact hip_wf
  · exact tableRest_wf e h

/-- whatever `lookup` returns (a table entry or the generic entry) has a well-formed schema -/
theorem lookup_wf (c t : Nat) : wf (lookup c t).schema = true := by
  unfold lookup
  split
  · rename_i e he; exact table_wf' e (List.mem_of_find?_eq_some he)
  · split
    · rename_i e he; exact table_wf' e (List.mem_of_find?_eq_some he)
    · simp [genericEntry, Entry.schema, wf, sdwf]

/-- the as-shipped OPT variant is not a table entry -/
theorem table_not_shipped : ∀ e ∈ table, e.kind.isShipped = false := by decide

theorem lookup_mem_or_generic (c t : Nat) : lookup c t ∈ table ∨ lookup c t = genericEntry c t := by
  unfold lookup
  split
  · rename_i e he; exact Or.inl (List.mem_of_find?_eq_some he)
  · split
    · rename_i e he; exact Or.inl (List.mem_of_find?_eq_some he)
    · exact Or.inr rfl

end Model

import Proofs.BTreeCowSteal2
import Proofs.BTreeCowRoot
/-!
Mechanism-level proofs, part 9: `balance` on the heap (try_left_steal, try_right_steal, merge with the right
sibling, or `maybe_cow_child` of the left sibling and merge into it).
-/
namespace Model.BTreeCow
open Model.BTree

theorem hTryLeftSteal_zero (t : Nat) (H : Heap) (s p : Nat) : hTryLeftSteal t H s p 0 = (H, false) := by
  simp [hTryLeftSteal]

theorem hTryRightSteal_short {t : Nat} {H : Heap} {s p i : Nat} (h : ¬ i + 1 < (rd H p).kids.length) :
    hTryRightSteal t H s p i = (H, false) := by
  simp [hTryRightSteal, h]

/-- `child.balance(parent, index)` for the owned child at index `|kl|`: the heap follows the persistent
`balance`, and the child to continue in is owned: the same index after a steal or a merge of the leftmost
child, the (copied) left sibling after a merge into it. -/
theorem balance_heap {c t : Nat} {H : Heap} {h p c0 : Nat} {kl kr : List Nat} (ht : 2 ≤ t)
    (g : Good c H (h + 1) p) (hk : (rd H p).kids = kl ++ c0 :: kr) (hown : (rd H c0).creator = c)
    (hocc : ∀ j ∈ (rd H p).kids, minKeys t ≤ (rd H j).elts.length) (hne : 1 ≤ (rd H p).elts.length) :
    ∃ H2 es1 cs1, hBalance t H c0 p kl.length = some H2 ∧
      balance t (rd H p).elts ((rd H p).kids.map (absN H h)) kl.length = some (es1, cs1) ∧
      Upd c H H2 (h + 1) p (.node es1 cs1) ∧
      ∃ pre ch post, (rd H2 p).kids = pre ++ ch :: post ∧ (rd H2 ch).creator = c ∧
        (es1.length = (rd H p).elts.length → pre.length = kl.length) ∧
        (es1.length + 1 = (rd H p).elts.length → kl = [] → pre.length = 0) ∧
        (es1.length + 1 = (rd H p).elts.length → kl ≠ [] → pre.length + 1 = kl.length) := by
  have hlen := g.ht.2.2.1
  have hminpos : 1 ≤ minKeys t := by simp [minKeys]; omega
  have hc0lt : c0 < H.size := HT_lt (HT_kid g.ht (by rw [hk]; simp))
  -- a steal keeps the number of elements of the parent
  have hsamelen : ∀ {H4 : Heap} {es' : List Elt} {cs' : List Node} {ks : List Nat},
      Upd c H H4 (h + 1) p (.node es' cs') → (rd H4 p).kids = ks → ks.length = (rd H p).kids.length →
      es'.length = (rd H p).elts.length := by
    intro H4 es' cs' ks u hks hl
    obtain ⟨e1, _⟩ := abs_node_inj u.abs
    have := u.ht.2.2.1
    rw [e1, hks] at this
    omega
  by_cases hkl : kl = []
  · -- leftmost child
    subst hkl
    simp only [List.nil_append, List.length_nil] at hk ⊢
    cases kr with
    | nil => rw [hk] at hlen; simp only [List.length_cons, List.length_nil] at hlen; omega
    | cons r kr =>
      obtain ⟨hmin, hnmin⟩ := rightSteal_sim (t := t) (kl := []) g (by simpa using hk) hown
        (hocc r (by rw [hk]; simp))
      simp only [List.length_nil] at hmin hnmin
      unfold hBalance balance
      rw [hTryLeftSteal_zero, tryLeftSteal_zero]
      simp only []
      cases hm : isMinimalC t (rd H r) with
      | true =>
        obtain ⟨h1, h2⟩ := hmin hm
        rw [h1, h2]
        simp only [if_true]
        obtain ⟨H2, es', cs', m1, m2, m3, m4⟩ := merge_sim (kl := []) g (by simpa using hk) hown
        simp only [List.length_nil, List.nil_append] at m1 m2 m4
        refine ⟨H2, es', cs', m1, m2, m3, [], c0, kr, by simpa using m4, ?_, by simp, by simp, by simp⟩
        rw [m3.creator c0 hc0lt]; exact hown
      | false =>
        obtain ⟨es', cs', r1, h1, h2, h3, h4, _⟩ := hnmin hm
        rw [h1]
        rcases hst : hTryRightSteal t H c0 p 0 with ⟨H4, b⟩
        rw [hst] at h2 h3 h4
        simp only [] at h2 h3 h4 ⊢
        subst h2
        simp only []
        have hl' := hsamelen h3 h4 (by rw [hk]; simp)
        refine ⟨H4, es', cs', rfl, rfl, h3, [], c0, r1 :: kr, by simpa using h4, ?_, by simp, by simp, by simp⟩
        rw [h3.creator c0 hc0lt]; exact hown
  · -- there is a left sibling
    obtain ⟨kl', l0, rfl⟩ := snoc_of_pos kl (by cases kl <;> simp_all)
    have hk' : (rd H p).kids = kl' ++ l0 :: c0 :: kr := by rw [hk]; simp
    have hidx : (kl' ++ [l0]).length = kl'.length + 1 := by simp
    rw [hidx]
    obtain ⟨hlmin, hlnmin⟩ := leftSteal_sim (t := t) g hk' hown (hocc l0 (by rw [hk']; simp)) hminpos
    unfold hBalance balance
    cases hml : isMinimalC t (rd H l0) with
    | false =>
      obtain ⟨es', cs', l1, h1, h2, h3, h4⟩ := hlnmin hml
      rw [h1]
      rcases hst : hTryLeftSteal t H c0 p (kl'.length + 1) with ⟨H4, b⟩
      rw [hst] at h2 h3 h4
      simp only [] at h2 h3 h4 ⊢
      subst h2
      simp only []
      have hl' := hsamelen h3 h4 (by rw [hk']; simp)
      refine ⟨H4, es', cs', rfl, rfl, h3, kl' ++ [l1], c0, kr, by simpa using h4, ?_, by simp, by intro _ hf; simp at hf, by intro hf; omega⟩
      rw [h3.creator c0 hc0lt]; exact hown
    | true =>
      obtain ⟨h1, h2⟩ := hlmin hml
      rw [h1, h2]
      simp only []
      -- the merge into the (copied) left sibling, used in two branches
      have hmergeL : ∃ H2 es1 cs1,
          (let (H1, left) := cowChild H p (kl'.length + 1 - 1); hMerge H1 left p (kl'.length + 1 - 1)) = some H2 ∧
          merge (rd H p).elts ((rd H p).kids.map (absN H h)) (kl'.length + 1 - 1) = some (es1, cs1) ∧
          Upd c H H2 (h + 1) p (.node es1 cs1) ∧
          ∃ l1, (rd H2 p).kids = kl' ++ l1 :: kr ∧ (rd H2 l1).creator = c ∧ es1.length + 1 = (rd H p).elts.length := by
        rw [Nat.add_sub_cancel]
        obtain ⟨l1, hcw, ucow, hkids1, helts1, gl1, _, _, _, _, _, _⟩ := cowChild_spec g hk'
        rw [hcw]
        simp only []
        generalize (cowChild H p kl'.length).1 = H1 at ucow hkids1 helts1 gl1
        have g1 := good_of_upd g ucow
        obtain ⟨H2, es', cs', m1, m2, m3, m4⟩ := merge_sim g1 hkids1 gl1.own
        obtain ⟨e1, e2⟩ := abs_node_inj ucow.abs
        have e2' : (rd H1 p).kids.map (absN H1 h) = (rd H p).kids.map (absN H h) := by rw [e2]
        rw [helts1, e2'] at m2
        refine ⟨H2, es', cs', m1, m2, Upd.trans ucow m3, l1, m4, ?_, ?_⟩
        · rw [m3.creator l1 (HT_lt gl1.ht)]; exact gl1.own
        · -- the persistent merge removes one element
          have hl := hlen
          rw [hk'] at hl
          have hi : kl'.length < (rd H p).elts.length := by simp at hl; omega
          obtain ⟨el, pe, er, hes, hel⟩ := split_at_lt (rd H p).elts kl'.length hi
          have hcs : (rd H p).kids.map (absN H h) =
              kl'.map (absN H h) ++ absN H h l0 :: absN H h c0 :: kr.map (absN H h) := by rw [hk']; simp
          have := merge_eq el er pe (kl'.map (absN H h)) (absN H h l0) (absN H h c0) (kr.map (absN H h)) (by simp [hel])
          rw [hel, ← hes, ← hcs, m2] at this
          simp only [Option.some.injEq, Prod.mk.injEq] at this
          rw [this.1, hes]; simp; omega
      cases kr with
      | nil =>
        have hshort : ¬ kl'.length + 1 + 1 < (rd H p).kids.length := by rw [hk']; simp
        have hshort' : ¬ kl'.length + 1 + 1 < ((rd H p).kids.map (absN H h)).length := by simpa using hshort
        rw [hTryRightSteal_short hshort, tryRightSteal_none_of_short _ _ _ _ hshort']
        simp only [Nat.add_one_ne_zero, if_false]
        obtain ⟨H2, es1, cs1, a1, a2, a3, l1, a4, a5, a6⟩ := hmergeL
        exact ⟨H2, es1, cs1, a1, a2, a3, kl', l1, [], a4, a5, by omega, by simp, by simp⟩
      | cons r kr' =>
        have hk'' : (rd H p).kids = (kl' ++ [l0]) ++ c0 :: r :: kr' := by rw [hk']; simp
        obtain ⟨hmin, hnmin⟩ := rightSteal_sim (t := t) g hk'' hown (hocc r (by rw [hk']; simp))
        rw [hidx] at hmin hnmin
        cases hm : isMinimalC t (rd H r) with
        | true =>
          obtain ⟨r1, r2⟩ := hmin hm
          rw [r1, r2]
          simp only [Nat.add_one_ne_zero, if_false]
          obtain ⟨H2, es1, cs1, a1, a2, a3, l1, a4, a5, a6⟩ := hmergeL
          exact ⟨H2, es1, cs1, a1, a2, a3, kl', l1, r :: kr', a4, a5, by omega, by simp, by simp⟩
        | false =>
          obtain ⟨es', cs', r1, q1, q2, q3, q4, _⟩ := hnmin hm
          rw [q1]
          rcases hst : hTryRightSteal t H c0 p (kl'.length + 1) with ⟨H4, b⟩
          rw [hst] at q2 q3 q4
          simp only [] at q2 q3 q4 ⊢
          subst q2
          simp only []
          have hl' := hsamelen q3 q4 (by rw [hk']; simp)
          refine ⟨H4, es', cs', rfl, rfl, q3, kl' ++ [l0], c0, r1 :: kr', by simpa using q4, ?_, by simp, by intro _ hf; simp at hf, by intro hf; omega⟩
          rw [q3.creator c0 hc0lt]; exact hown

end Model.BTreeCow

import Proofs.BTreeCursor5
/-!
The user-level API as thin layers over the tree: registered cursors (parked by every mutation), full iteration,
and the `BTreeDict` / `BTreeSet` methods with the `MutableMapping` / `MutableSet` mixins.
-/
namespace Model.BTree

theorem tree_get_refines {tr : Tree} (hw : TreeWf tr) (k : Nat) : tr.get k = lookup tr.items k := by
  obtain ⟨h, hs⟩ := hw.wf.shape
  unfold Tree.get Tree.items
  rw [height_of_shape hs]
  exact get_refines_aux tr.t k h tr.root hs hw.wf.sorted

/-! ## iteration -/

theorem iterLoop_spec {t : Nat} {root : Node} {Hr : Nat} (hr : Shape t Hr root) :
    ∀ (R : List Elt) (fuel : Nat) (c : Cursor) (D : List Elt), CurInv t root c D R → c.parked = false →
      R.length < fuel → iterLoop root fuel c = R := by
  intro R
  induction R with
  | nil =>
    intro fuel c D hinv hp hf
    cases fuel with
    | zero => omega
    | succ f =>
      obtain ⟨h1, _, _⟩ := next_spec hr c D [] hp hinv
      unfold iterLoop
      rcases hn : c.next root with ⟨c', r⟩
      rw [hn] at h1
      simp only [List.head?_nil] at h1
      subst h1
      rfl
  | cons e R ih =>
    intro fuel c D hinv hp hf
    cases fuel with
    | zero => omega
    | succ f =>
      obtain ⟨h1, h2, h3⟩ := next_spec hr c D (e :: R) hp hinv
      unfold iterLoop
      rcases hn : c.next root with ⟨c', r⟩
      rw [hn] at h1 h2 h3
      simp only [List.head?_cons, List.tail_cons, Option.toList_some] at h1 h2
      subst h1
      simp only []
      rw [ih f c' (D ++ [e]) h2 h3 (by simp at hf; omega)]

/-- `list(tree)` / `__iter__` without interleaved mutations lists the elements in order -/
theorem iter_eq_items {tr : Tree} (hw : TreeWf tr) : tr.iter = tr.items := by
  obtain ⟨Hr, hr⟩ := hw.wf.shape
  unfold Tree.iter
  exact iterLoop_spec hr (flat tr.root) (tr.size + 1) {} [] ((boundary_inv tr.t tr.root {} rfl rfl rfl).1 rfl) rfl
    (by rw [hw.size_ok]; omega)

/-! ## registered cursors -/

/-- every mutation that is not rejected parks every registered cursor and leaves the unregistered ones alone -/
theorem insert_parks {tc : TreeC} (e : Elt) (hm : tc.tree.immutable = false) :
    (tc.insert e).1.cursors = tc.cursors.map (fun bc => if bc.1 then (bc.1, bc.2.park) else bc) ∧
    (tc.insert e).1.tree = (tc.tree.insert e).1 ∧ (tc.insert e).2 = (tc.tree.insert e).2 := by
  simp [TreeC.insert, hm, TreeC.parkAll]

theorem delete_parks {tc : TreeC} (k : Nat) (x : Option Elt) (hm : tc.tree.immutable = false) :
    (tc.delete k x).1.cursors = tc.cursors.map (fun bc => if bc.1 then (bc.1, bc.2.park) else bc) ∧
    (tc.delete k x).1.tree = (tc.tree.delete k x).1 ∧ (tc.delete k x).2 = (tc.tree.delete k x).2 := by
  simp [TreeC.delete, hm, TreeC.parkAll]

theorem frozen_keeps_cursors {tc : TreeC} (e : Elt) (k : Nat) (x : Option Elt) (hm : tc.tree.immutable = true) :
    tc.insert e = (tc, .immutableErr) ∧ tc.delete k x = (tc, .immutableErr) := by
  simp [TreeC.insert, TreeC.delete, hm]

theorem parked_getElem {cs : List (Bool × Cursor)} {i : Nat} {c : Cursor}
    (h : cs[i]? = some (true, c)) :
    (cs.map (fun bc => if bc.1 then (bc.1, bc.2.park) else bc))[i]? = some (true, c.park) := by
  simp [List.getElem?_map, h]

/-- the elements of a sorted listing after the bound of `K` -/
theorem splitAt_after {K : Nat} {D R : List Elt} (hs : Sorted (D ++ R)) (h : SplitAt K false D R) :
    R = (D ++ R).filter (fun x => decide (K < x.1)) := by
  simp only [SplitAt, Bool.false_eq_true, if_false] at h
  rw [List.filter_append]
  have h1 : D.filter (fun x => decide (K < x.1)) = [] := by
    rw [List.filter_eq_nil_iff]
    intro x hx
    have := h.1 x hx
    simp; omega
  have h2 : R.filter (fun x => decide (K < x.1)) = R := by
    rw [List.filter_eq_self]
    intro x hx
    simpa using h.2 x hx
  rw [h1, h2]; rfl

/-! ## `BTreeDict` -/

theorem dict_getitem {tr : Tree} (hw : TreeWf tr) (k : Nat) :
    Dict.getitem tr k = (match lookup tr.items k with | some e => .ok e.2 | none => .error .keyError) := by
  unfold Dict.getitem
  rw [tree_get_refines hw]
  cases lookup tr.items k <;> rfl

theorem dict_contains {tr : Tree} (hw : TreeWf tr) (k : Nat) :
    Dict.contains tr k = (lookup tr.items k).isSome := by
  simp only [Dict.contains, dict_getitem hw]
  cases lookup tr.items k <;> rfl

theorem dict_get {tr : Tree} (hw : TreeWf tr) (k : Nat) :
    Dict.get tr k = (lookup tr.items k).map (·.2) := by
  simp only [Dict.get, dict_getitem hw]
  cases lookup tr.items k <;> rfl

theorem dict_setitem {tc : TreeC} (k v : Nat) (hw : TreeWf tc.tree) (hm : tc.tree.immutable = false) :
    TreeWf (Dict.setitem tc k v).1.tree ∧ (Dict.setitem tc k v).1.tree.items = insSorted (k, v) tc.tree.items ∧
    (Dict.setitem tc k v).2 = .ok () := by
  obtain ⟨h1, h2, h3, _⟩ := tree_insert_spec (k, v) hw hm
  obtain ⟨_, p2, p3⟩ := insert_parks (tc := tc) (k, v) hm
  simp only [Dict.setitem, p2, p3, h3, apiErrOf]
  exact ⟨h1, h2, rfl⟩

theorem lookup_mem_key {l : List Elt} {k : Nat} {e : Elt} (h : lookup l k = some e) : e.1 = k := by
  induction l with
  | nil => simp [lookup] at h
  | cons a l ih =>
    simp only [lookup] at h
    split at h
    · rename_i ha; simp at h; subst h; exact ha
    · exact ih h

theorem dict_delitem {tc : TreeC} (k : Nat) (hw : TreeWf tc.tree) (hr : RootOk tc.tree.root)
    (hm : tc.tree.immutable = false) (hv : tc.tree.collapseAlways = true) :
    TreeWf (Dict.delitem tc k).1.tree ∧ RootOk (Dict.delitem tc k).1.tree.root ∧
    (Dict.delitem tc k).1.tree.items = delKey k tc.tree.items ∧
    (Dict.delitem tc k).2 = (if (lookup tc.tree.items k).isSome then .ok () else .error .keyError) := by
  have ht2 : 2 ≤ tc.tree.t := by have := hw.t_ok; omega
  have hd := deleteRoot_intended ht2 k hw.wf hr
  rw [← hv] at hd
  obtain ⟨d1, d2, d3, d4⟩ := hd
  obtain ⟨a, b, c, d⟩ := tree_delete_of_root k hw hm ⟨d1, d3, d4⟩
  obtain ⟨_, p2, p3⟩ := delete_parks (tc := tc) k none hm
  have hdel : Dict.delitem tc k = ((tc.delete k none).1,
      if (lookup tc.tree.items k).isSome then .ok () else .error .keyError) := by
    simp only [Dict.delitem, p3, c, apiErrOf]
    cases lookup tc.tree.items k <;> rfl
  rw [hdel]
  simp only [p2]
  exact ⟨a, by rw [d]; exact d2, b, trivial⟩

theorem dict_pop {tc : TreeC} (k : Nat) (hw : TreeWf tc.tree) (hr : RootOk tc.tree.root)
    (hm : tc.tree.immutable = false) (hv : tc.tree.collapseAlways = true) :
    (Dict.pop tc k).2 = (match lookup tc.tree.items k with | some e => .ok e.2 | none => .error .keyError) ∧
    (Dict.pop tc k).1.tree.items = delKey k tc.tree.items := by
  obtain ⟨_, _, d3, d4⟩ := dict_delitem k hw hr hm hv
  simp only [Dict.pop, dict_getitem hw]
  cases hl : lookup tc.tree.items k with
  | none =>
    simp only []
    refine ⟨by first | rfl | trivial, ?_⟩
    rw [delKey_of_ne]
    intro x hx hxk
    -- an element with this key would be found
    have : lookup tc.tree.items k ≠ none := by
      clear d3 d4
      generalize tc.tree.items = l at hx
      induction l with
      | nil => simp at hx
      | cons a l ih =>
        simp only [lookup]
        split
        · simp
        · rename_i hne
          rcases List.mem_cons.mp hx with rfl | hx
          · exact absurd hxk hne
          · exact ih hx
    exact this hl
  | some e =>
    simp only []
    rw [hl] at d4
    simp only [Option.isSome_some, if_true] at d4
    rw [d4]
    exact ⟨rfl, d3⟩

theorem dict_keys {tr : Tree} (hw : TreeWf tr) : Dict.keys tr = tr.items.map (·.1) := by
  simp only [Dict.keys, iter_eq_items hw]

/-- looking every key of a sorted listing up again returns the listing -/
theorem filterMap_lookup_self {l : List Elt} (hs : Sorted l) (f : Elt → Elt) (hf : ∀ e, f e = e) :
    (l.map (·.1)).filterMap (fun k => (lookup l k).map f) = l := by
  suffices h : ∀ (pre : List Elt), Sorted (pre ++ l) →
      (l.map (·.1)).filterMap (fun k => (lookup (pre ++ l) k).map f) = l from h [] (by simpa using hs)
  clear hs
  induction l with
  | nil => intro pre _; rfl
  | cons a l ih =>
    intro pre hsp
    have hpre : ∀ x ∈ pre, x.1 < a.1 := fun x hx => (sorted_append_iff.mp hsp).2.2 x hx a (by simp)
    simp only [List.map_cons, List.filterMap_cons]
    rw [lookup_found hpre]
    simp only [Option.map_some, hf]
    congr 1
    have := ih (pre ++ [a]) (by simpa using hsp)
    simpa using this

theorem dict_items {tr : Tree} (hw : TreeWf tr) : Dict.items tr = tr.items := by
  simp only [Dict.items, dict_keys hw]
  have : (fun k => (Dict.get tr k).map fun v => (k, v)) = fun k => (lookup tr.items k).map (fun e => (e.1, e.2)) := by
    funext k
    rw [dict_get hw]
    cases hl : lookup tr.items k with
    | none => rfl
    | some e => simp [lookup_mem_key hl]
  rw [this]
  exact filterMap_lookup_self (l := tr.items) hw.wf.sorted _ (fun e => rfl)

theorem dict_values {tr : Tree} (hw : TreeWf tr) : Dict.values tr = tr.items.map (·.2) := by
  simp only [Dict.values, dict_keys hw]
  have : (Dict.get tr) = fun k => (lookup tr.items k).map (·.2) := by funext k; exact dict_get hw k
  rw [this]
  have h := filterMap_lookup_self (l := tr.items) hw.wf.sorted id (fun e => rfl)
  have h2 : (tr.items.map (·.1)).filterMap (fun k => (lookup tr.items k).map (·.2)) =
      ((tr.items.map (·.1)).filterMap (fun k => (lookup tr.items k).map id)).map (·.2) := by
    rw [List.map_filterMap]
    congr 1
    funext k
    cases lookup tr.items k <;> rfl
  rw [h2, h]

/-! ## `BTreeSet` -/

theorem set_contains {tr : Tree} (hw : TreeWf tr) (k : Nat) :
    SetApi.contains tr k = (lookup tr.items k).isSome := by
  simp only [SetApi.contains, tree_get_refines hw]

theorem set_add {tc : TreeC} (k : Nat) (hw : TreeWf tc.tree) (hm : tc.tree.immutable = false) :
    TreeWf (SetApi.add tc k).1.tree ∧ (SetApi.add tc k).1.tree.items = insSorted (k, 0) tc.tree.items ∧
    (SetApi.add tc k).2 = .ok () := by
  obtain ⟨h1, h2, h3, _⟩ := tree_insert_spec (k, 0) hw hm
  obtain ⟨_, p2, p3⟩ := insert_parks (tc := tc) (k, 0) hm
  simp only [SetApi.add, p2, p3, h3, apiErrOf]
  exact ⟨h1, h2, rfl⟩

theorem set_discard {tc : TreeC} (k : Nat) (hw : TreeWf tc.tree) (hr : RootOk tc.tree.root)
    (hm : tc.tree.immutable = false) (hv : tc.tree.collapseAlways = true) :
    TreeWf (SetApi.discard tc k).1.tree ∧ RootOk (SetApi.discard tc k).1.tree.root ∧
    (SetApi.discard tc k).1.tree.items = delKey k tc.tree.items ∧ (SetApi.discard tc k).2 = .ok () := by
  have ht2 : 2 ≤ tc.tree.t := by have := hw.t_ok; omega
  have hd := deleteRoot_intended ht2 k hw.wf hr
  rw [← hv] at hd
  obtain ⟨d1, d2, d3, d4⟩ := hd
  obtain ⟨a, b, c, d⟩ := tree_delete_of_root k hw hm ⟨d1, d3, d4⟩
  obtain ⟨_, p2, p3⟩ := delete_parks (tc := tc) k none hm
  simp only [SetApi.discard, p2, p3, c, apiErrOf]
  exact ⟨a, by rw [d]; exact d2, b, rfl⟩

theorem set_remove {tc : TreeC} (k : Nat) (hw : TreeWf tc.tree) (hr : RootOk tc.tree.root)
    (hm : tc.tree.immutable = false) (hv : tc.tree.collapseAlways = true) :
    ((lookup tc.tree.items k).isSome = true → (SetApi.remove tc k).2 = .ok () ∧
        (SetApi.remove tc k).1.tree.items = delKey k tc.tree.items) ∧
    ((lookup tc.tree.items k).isSome = false → SetApi.remove tc k = (tc, .error .keyError)) := by
  obtain ⟨_, _, d3, d4⟩ := set_discard k hw hr hm hv
  simp only [SetApi.remove, set_contains hw]
  constructor
  · intro h; simp only [h, if_true]; exact ⟨d4, d3⟩
  · intro h; simp [h]

theorem set_members {tr : Tree} (hw : TreeWf tr) : SetApi.members tr = tr.items.map (·.1) := by
  simp only [SetApi.members, iter_eq_items hw]

end Model.BTree

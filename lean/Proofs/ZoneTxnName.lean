import Model.ZoneTxn
/-! `_validate_name`: an owner given relative to the origin and the same owner given absolute yield the same key (C10). -/
namespace Model.ZT
open Model

theorem cmpBytes_self (a : Bytes) : cmpBytes a a = 0 := by
  induction a with
  | nil => rfl
  | cons x xs ih => simp [cmpBytes, ih]

theorem fcLoop_self (xs : List Label) (k : Nat) : fcLoop xs xs k = none := by
  induction xs generalizing k with
  | nil => rfl
  | cons x xs ih =>
    unfold fcLoop
    simp [cmpLabel, cmpBytes_self, ih]

theorem isAbs_append (r o : Name) (ho : isAbs o = true) : isAbs (r ++ o) = true := by
  unfold isAbs at ho ⊢
  rw [List.getLast?_append]
  cases h : o.getLast? with
  | none => rw [h] at ho; simp at ho
  | some l => rw [h] at ho; simpa using ho

theorem origin_length_pos (o : Name) (ho : isAbs o = true) : o.length > 0 := by
  unfold isAbs at ho
  cases o with
  | nil => simp at ho
  | cons a b => simp

theorem isSubdomain_append (r o : Name) (ho : isAbs o = true) : isSubdomain (r ++ o) o = true := by
  unfold isSubdomain fullcompare
  have h1 := isAbs_append r o ho
  simp only [h1, ho, bne_self_eq_false, Bool.false_eq_true, if_false]
  have hmin : min (r ++ o).length o.length = o.length := by simp [List.length_append]
  rw [hmin]
  have htake : (r ++ o).reverse.take o.length = o.reverse := by
    rw [List.reverse_append]
    rw [List.take_append_of_le_length (by simp)]
    rw [List.take_of_length_le (by simp)]
  have htake2 : o.reverse.take o.length = o.reverse := List.take_of_length_le (by simp)
  rw [htake, htake2, fcLoop_self]
  simp only [List.length_append]
  have h2 : ¬ (((r.length + o.length : Nat) : Int) - (o.length : Int) < 0) := by omega
  rw [if_neg h2]
  by_cases hr : (((r.length + o.length : Nat) : Int) - (o.length : Int) > 0)
  · rw [if_pos hr]; rfl
  · rw [if_neg hr]; rfl

theorem isAbs_lower_ne (a b : Name) (ha : isAbs a = false) (hb : isAbs b = true) : lowerName a ≠ lowerName b := by
  intro e
  have h1 : isAbs (lowerName a) = isAbs a := by
    unfold isAbs lowerName
    rw [List.getLast?_map]
    cases a.getLast? with
    | none => rfl
    | some l => cases l <;> simp [lowerLabel]
  have h2 : isAbs (lowerName b) = isAbs b := by
    unfold isAbs lowerName
    rw [List.getLast?_map]
    cases b.getLast? with
    | none => rfl
    | some l => cases l <;> simp [lowerLabel]
  rw [e, h2, hb] at h1
  rw [ha] at h1
  exact absurd h1 (by simp)

/-- The origin is a legal absolute name. -/
structure WfOrigin (cfg : Cfg) : Prop where
  abs : isAbs cfg.origin = true
  valid : validate cfg.origin = .ok cfg.origin

/-- `_validate_name` maps the relative spelling `r` and the absolute spelling `r ++ origin` of an owner to the same key. -/
theorem validateName_rel_abs (cfg : Cfg) (ho : WfOrigin cfg) (r : Name) (hr : isAbs r = false)
    (hv : validate r = .ok r) (hfull : validate (r ++ cfg.origin) = .ok (r ++ cfg.origin)) :
    validateName cfg r = validateName cfg (r ++ cfg.origin) := by
  unfold validateName
  have h1 := isAbs_append r cfg.origin ho.abs
  have h2 := isSubdomain_append r cfg.origin ho.abs
  simp only [hr, h1, h2, Bool.false_eq_true, if_false, if_true, Bool.not_true]
  have hd : derelativize r cfg.origin = .ok (r ++ cfg.origin) := by
    unfold derelativize concatenate
    simp [hr, hfull]
  have hrel : relativize (r ++ cfg.origin) cfg.origin = .ok r := by
    unfold relativize sliceToNeg
    have hpos := origin_length_pos cfg.origin ho.abs
    have hne : ¬ cfg.origin.length = 0 := by omega
    simp [h2, hne, hv]
  rw [hd, hrel]
  cases cfg.relativize <;> simp

/-- the "SOA only at the origin" test (intended variant) does not depend on the spelling either -/
theorem soaNameOk_rel_abs (cfg : Cfg) (hd10 : cfg.d10 = false) (ho : WfOrigin cfg) (r : Name) (hr : isAbs r = false) :
    soaNameOk cfg r = soaNameOk cfg (r ++ cfg.origin) := by
  unfold soaNameOk
  simp only [hd10, Bool.false_eq_true, if_false]
  by_cases hnil : r = []
  · subst hnil; simp
  · -- a non-empty relative name is no spelling of the origin, and neither is anything longer than the origin
    have hlen : ∀ x : Name, lowerName (r ++ cfg.origin) = lowerName x → x.length = r.length + cfg.origin.length := by
      intro x e
      have := congrArg List.length e
      simp [lowerName] at this; omega
    have hrpos : r.length > 0 := by cases r <;> simp_all
    have hone : cfg.origin.length > 0 := by
      have := ho.abs; unfold isAbs at this
      cases h : cfg.origin with
      | nil => rw [h] at this; simp at this
      | cons a b => simp
    have e1 : (lowerName r == lowerName cfg.origin) = false := by
      simpa using isAbs_lower_ne r cfg.origin hr ho.abs
    have e2 : (lowerName (r ++ cfg.origin) == lowerName cfg.origin) = false := by
      simp; intro e; have := hlen _ e; omega
    have e3 : (r == ([] : Name)) = false := by simpa using hnil
    have e4 : ((r ++ cfg.origin) == ([] : Name)) = false := by
      simp; intro e; exact absurd e hnil
    unfold effectiveOrigin
    cases cfg.relativize with
    | true =>
      have e5 : (lowerName r == lowerName ([] : Name)) = false := by
        simp [lowerName]; exact hnil
      have e6 : (lowerName (r ++ cfg.origin) == lowerName ([] : Name)) = false := by
        simp [lowerName]; intro e; exact absurd e hnil
      simp [e1, e2, e3, e4, e5, e6]
    | false => simp [e1, e2, e3, e4]

end Model.ZT

import Proofs.BTreeZoneRewrite
/-!
`update_glue_flag` pointwise: the repaired walk as a map over the store, its effect on the index, and the fact
that the walk as shipped coincides with the repaired one when no NS owner sits strictly below the name (the
guard that excludes D16).
-/
namespace Model
namespace BTZ

/-- the repaired step on the node at `k` -/
def fixedNode (N : Nodes) (name : Name) (b : Bool) (k : Name) (nd : Node) : Node :=
  (glueStepFixed (N.filter (fun e => properSub e.1 name)) b (k, nd)).2

theorem fixedNode_rds (N : Nodes) (name : Name) (b : Bool) (k : Name) (nd : Node) :
    (fixedNode N name b k nd).rds = nd.rds := by
  unfold fixedNode glueStepFixed; split <;> rfl

theorem fixedNode_true (N : Nodes) (name : Name) (k : Name) (nd : Node) :
    (fixedNode N name true k nd).flags = { origin := false, deleg := false, glue := true } := by
  simp [fixedNode, glueStepFixed]

theorem updateGlue_congr {v v' : Variant} (h : v.fixNested = v'.fixNested) (ver : Ver) (name : Name) (b : Bool) :
    updateGlue v ver name b = updateGlue v' ver name b := by
  unfold updateGlue; rw [h]

theorem updateGlue_fixed_nodes {v : Variant} (hv : v.fixNested = true) {ver : Ver} (hN : NWF ver.nodes)
    {name : Name} (hn : LC name) (b : Bool) :
    (updateGlue v ver name b).nodes =
      ver.nodes.map (fun e => (e.1, if properSub e.1 name then fixedNode ver.nodes name b e.1 e.2 else e.2)) := by
  have hseg := (walk_segments hN hn).2.2.2
  have hmap := walk_map hN hn
    (glueStepFixed ((ver.nodes.dropWhile (fun e => decide (cmpOrder e.1 name ≤ 0))).takeWhile
      (fun e => isSubdomain e.1 name)) b) (glueStepFixed_fst _ _)
  unfold updateGlue
  simp only [hv, if_true]
  rw [hmap, hseg]
  rfl

theorem updateGlue_fixed_delegs_true {v : Variant} (hv : v.fixNested = true) (ver : Ver) (name : Name) :
    (updateGlue v ver name true).delegs = ver.delegs.filter (fun d => !properSub d name) := by
  unfold updateGlue; simp [hv]

theorem mem_foldl_dins {d : List Name} {l : Nodes} (hd : DWF d) (hl : ∀ e ∈ l, LC e.1) (a : Name) :
    a ∈ l.foldl (fun d e => dins d e.1) d ↔ a ∈ d ∨ ∃ e ∈ l, e.1 = a := by
  induction l generalizing d with
  | nil => simp
  | cons e r ih =>
    simp only [List.foldl_cons]
    rw [ih (DWF_dins hd (hl e List.mem_cons_self)) (fun x hx => hl x (List.mem_cons_of_mem _ hx)),
      mem_dins hd.2 (hl e List.mem_cons_self)]
    constructor
    · rintro ((h | h) | ⟨x, hx, h⟩)
      · exact Or.inr ⟨e, List.mem_cons_self, h.symm⟩
      · exact Or.inl h
      · exact Or.inr ⟨x, List.mem_cons_of_mem _ hx, h⟩
    · rintro (h | ⟨x, hx, h⟩)
      · exact Or.inl (Or.inr h)
      · rcases List.mem_cons.mp hx with hx | hx
        · rw [hx] at h; exact Or.inl (Or.inl h.symm)
        · exact Or.inr ⟨x, hx, h⟩

theorem updateGlue_fixed_delegs_false {v : Variant} (hv : v.fixNested = true) {ver : Ver} (hN : NWF ver.nodes)
    (hD : DWF ver.delegs) {name : Name} (hn : LC name) (a : Name) :
    a ∈ (updateGlue v ver name false).delegs ↔
      a ∈ ver.delegs ∨ ∃ nd, (a, nd) ∈ ver.nodes ∧ properSub a name = true ∧
        (fixedNode ver.nodes name false a nd).flags.deleg = true := by
  have hseg := (walk_segments hN hn).2.2.2
  unfold updateGlue
  simp only [hv, if_true, Bool.false_eq_true, if_false]
  rw [hseg, mem_foldl_dins hD]
  · constructor
    · rintro (h | ⟨e, he, h⟩)
      · exact Or.inl h
      · right
        obtain ⟨he1, he2⟩ := List.mem_filter.mp he
        obtain ⟨e0, he0, rfl⟩ := List.mem_map.mp he1
        obtain ⟨hm, hp⟩ := List.mem_filter.mp he0
        rw [glueStepFixed_fst] at h
        subst h
        exact ⟨e0.2, hm, hp, he2⟩
    · rintro (h | ⟨nd, hm, hp, hd⟩)
      · exact Or.inl h
      · right
        refine ⟨glueStepFixed (ver.nodes.filter (fun e => properSub e.1 name)) false (a, nd), ?_, ?_⟩
        · apply List.mem_filter.mpr
          exact ⟨List.mem_map.mpr ⟨(a, nd), List.mem_filter.mpr ⟨hm, hp⟩, rfl⟩, hd⟩
        · exact glueStepFixed_fst _ _ _
  · intro e he
    obtain ⟨he1, _⟩ := List.mem_filter.mp he
    obtain ⟨e0, he0, rfl⟩ := List.mem_map.mp he1
    rw [glueStepFixed_fst]
    exact hN.2 e0 (List.mem_filter.mp he0).1

/-- the `nsAbove` test of the repaired step is "an NS owner strictly between" -/
theorem fixedNode_false_flags {N : Nodes} (hN : NWF N) {name k : Name} (nd : Node) :
    (fixedNode N name false k nd).flags.origin = false ∧
    ((fixedNode N name false k nd).flags.glue = true ↔ NSBetween N k name) ∧
    ((fixedNode N name false k nd).flags.deleg = true ↔ hasNS nd.rds = true ∧ ¬ NSBetween N k name) := by
  have hb : ((N.filter (fun e => properSub e.1 name)).any (fun a => properSub k a.1 && hasNS a.2.rds)) = true
      ↔ NSBetween N k name := by
    rw [List.any_eq_true]
    constructor
    · rintro ⟨e, he, hp⟩
      obtain ⟨hm, hpn⟩ := List.mem_filter.mp he
      simp only [Bool.and_eq_true] at hp
      exact ⟨e.1, hN.2 e hm, ⟨e.2, mem_nget hN hm, hp.2⟩, hp.1, hpn⟩
    · rintro ⟨a, ha, ⟨nda, hg, hns⟩, hp, hpn⟩
      exact ⟨(a, nda), List.mem_filter.mpr ⟨nget_some_mem hN.2 ha hg, hpn⟩, by simp [hp, hns]⟩
  simp only [fixedNode, glueStepFixed, Bool.false_eq_true, if_false]
  refine ⟨trivial, hb, ?_⟩
  rw [Bool.and_eq_true, Bool.not_eq_true', ← hb]
  simp

/-- D16 guard: with no NS owner (hence no delegation, and only plain flags) strictly below `name`, the walk as
shipped does what the repaired walk does -/
theorem updateGlue_guarded (v : Variant) {ver : Ver} (hN : NWF ver.nodes) {name : Name} (hn : LC name) (b : Bool)
    (h1 : ∀ e ∈ ver.nodes, properSub e.1 name = true →
      e.2.flags.origin = false ∧ e.2.flags.deleg = false ∧ hasNS e.2.rds = false)
    (h2 : ∀ d ∈ ver.delegs, properSub d name = false) :
    updateGlue v ver name b = updateGlue intended ver name b := by
  by_cases hv : v.fixNested = true
  · exact updateGlue_congr (by rw [hv]; rfl) ver name b
  · have hv' : v.fixNested = false := by simpa using hv
    obtain ⟨_, hs2, _, hseg⟩ := walk_segments hN hn
    have hsubmem : ∀ e ∈ (ver.nodes.dropWhile (fun e => decide (cmpOrder e.1 name ≤ 0))).takeWhile
        (fun e => isSubdomain e.1 name), e ∈ ver.nodes ∧ properSub e.1 name = true := by
      intro e he
      exact ⟨(List.dropWhile_sublist _).subset ((List.takeWhile_sublist _).subset he), hs2 e he⟩
    -- the two steps agree on every element of the subtree
    have hstep : ∀ e ∈ (ver.nodes.dropWhile (fun e => decide (cmpOrder e.1 name ≤ 0))).takeWhile
        (fun e => isSubdomain e.1 name),
        glueStep ver.changed b e = glueStepFixed ((ver.nodes.dropWhile (fun e => decide (cmpOrder e.1 name ≤ 0))).takeWhile
        (fun e => isSubdomain e.1 name)) b e := by
      intro e he
      obtain ⟨hm, hp⟩ := hsubmem e he
      obtain ⟨f1, f2, f3⟩ := h1 e hm hp
      have hany : ((ver.nodes.dropWhile (fun e => decide (cmpOrder e.1 name ≤ 0))).takeWhile
          (fun e => isSubdomain e.1 name)).any (fun a => properSub e.1 a.1 && hasNS a.2.rds) = false := by
        rw [List.any_eq_false]
        intro a ha
        obtain ⟨hma, hpa⟩ := hsubmem a ha
        simp [(h1 a hma hpa).2.2]
      unfold glueStep glueStepFixed
      cases b
      · simp only [Bool.false_eq_true, if_false, hany, f3, Bool.false_and]
        split
        · have : e.2.flags = { origin := false, deleg := false, glue := e.2.flags.glue } := by
            apply flags_ext <;> simp [f1, f2]
          rw [this]
        · rfl
      · simp only [if_true]
        split
        · have : e.2.flags = { origin := false, deleg := false, glue := e.2.flags.glue } := by
            apply flags_ext <;> simp [f1, f2]
          rw [this]
        · rfl
    have hmap := List.map_congr_left hstep
    unfold updateGlue
    simp only [hv', Bool.false_eq_true, if_false, intended, if_true]
    rw [hmap]
    congr 1
    cases b
    · simp only [Bool.false_eq_true, if_false]
      have : (((ver.nodes.dropWhile (fun e => decide (cmpOrder e.1 name ≤ 0))).takeWhile
          (fun e => isSubdomain e.1 name)).map (glueStepFixed ((ver.nodes.dropWhile (fun e => decide (cmpOrder e.1 name ≤ 0))).takeWhile
          (fun e => isSubdomain e.1 name)) false)).filter (fun e => e.2.flags.deleg) = [] := by
        rw [List.filter_eq_nil_iff]
        intro x hx
        obtain ⟨e, he, rfl⟩ := List.mem_map.mp hx
        obtain ⟨hm, hp⟩ := hsubmem e he
        simp [glueStepFixed, (h1 e hm hp).2.2]
      rw [this]; rfl
    · simp only [if_true]
      symm
      rw [List.filter_eq_self]
      intro d hd
      simp [h2 d hd]

end BTZ
end Model

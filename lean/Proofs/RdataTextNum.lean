import Model.RdataText
/-! Numerals: decimal and hexadecimal printing/parsing lemmas (C05). -/
namespace Model

theorem decVal_append (a : List Nat) (d : Nat) : decVal (a ++ [d]) = decVal a * 10 + (d - 48) := by
  simp [decVal, List.foldl_append]

theorem decVal_natToDec (n : Nat) : decVal (natToDec n) = n := by
  fun_induction natToDec n with
  | case1 n h => simp [decVal]
  | case2 n h ih => rw [decVal_append, ih]; omega

theorem natToDec_digits (n : Nat) : ∀ c ∈ natToDec n, 48 ≤ c ∧ c ≤ 57 := by
  fun_induction natToDec n with
  | case1 n h => intro c hc; simp at hc; omega
  | case2 n h ih =>
    intro c hc
    simp at hc
    rcases hc with hc | hc
    · exact ih c hc
    · omega

theorem natToDec_all_isDigit (v : Nat) : (natToDec v).all isDigit = true := by
  rw [List.all_eq_true]; intro c hc
  have := natToDec_digits v c hc
  simp [isDigit]; omega

theorem natToDec_ne_nil (n : Nat) : natToDec n ≠ [] := by
  fun_induction natToDec n with
  | case1 n h => simp
  | case2 n h ih => simp


theorem natToDec_head48 (n : Nat) (h : (natToDec n).head? = some 48) : natToDec n = [48] := by
  fun_induction natToDec n with
  | case1 n hn => simp at h; subst h; rfl
  | case2 n hn ih =>
    exfalso
    have hne := natToDec_ne_nil (n / 10)
    have hh : (natToDec (n / 10) ++ [48 + n % 10]).head? = (natToDec (n / 10)).head? := by
      cases hx : natToDec (n / 10) with
      | nil => exact absurd hx hne
      | cons a as => simp
    rw [hh] at h
    have := ih h
    have hv := decVal_natToDec (n / 10)
    rw [this] at hv
    simp [decVal] at hv
    omega

/-! ## split / join -/

theorem splitOn_append_sep (sep : Nat) (a b : List Nat) (h : sep ∉ a) :
    splitOn sep (a ++ sep :: b) = a :: splitOn sep b := by
  induction a with
  | nil => simp [splitOn]
  | cons c a' ih =>
    have hc : c ≠ sep := fun e => h (by simp [e])
    have ha : sep ∉ a' := fun e => h (by simp [e])
    simp [splitOn, hc, ih ha]

theorem splitOn_no_sep (sep : Nat) (a : List Nat) (h : sep ∉ a) : splitOn sep a = [a] := by
  induction a with
  | nil => simp [splitOn]
  | cons c a' ih =>
    have hc : c ≠ sep := fun e => h (by simp [e])
    have ha : sep ∉ a' := fun e => h (by simp [e])
    simp [splitOn, hc, ih ha]

theorem natToDec_no (sep : Nat) (hs : sep < 48 ∨ 57 < sep) (n : Nat) : sep ∉ natToDec n := by
  intro hmem
  have := natToDec_digits n sep hmem
  omega

/-! ## IPv4 -/

theorem ip4PartOk_natToDec (n : Nat) : ip4PartOk (natToDec n) = true := by
  unfold ip4PartOk
  have hne := natToDec_ne_nil n
  have hd : (natToDec n).all isDigit = true := by
    rw [List.all_eq_true]; intro c hc
    have := natToDec_digits n c hc
    simp [isDigit]; omega
  have h3 : (decide ((natToDec n).length > 1) && (natToDec n).head? == some 48) = false := by
    by_cases hh : (natToDec n).head? = some 48
    · have := natToDec_head48 n hh
      simp [this]
    · simp [hh]
  simp [hne, hd, h3]

theorem ip4_roundtrip (a b c d : Nat) (ha : a < 256) (hb : b < 256) (hc : c < 256) (hd : d < 256) :
    ∃ t, ip4Ntoa [a, b, c, d] = some t ∧ ip4Aton t = some [a, b, c, d] := by
  refine ⟨_, rfl, ?_⟩
  have n46 : ∀ n, 46 ∉ natToDec n := natToDec_no 46 (by omega)
  unfold ip4Aton
  have hs : splitOn 46 (natToDec a ++ 46 :: (natToDec b ++ 46 :: (natToDec c ++ 46 :: natToDec d)))
      = [natToDec a, natToDec b, natToDec c, natToDec d] := by
    rw [splitOn_append_sep 46 _ _ (n46 a), splitOn_append_sep 46 _ _ (n46 b), splitOn_append_sep 46 _ _ (n46 c),
      splitOn_no_sep 46 _ (n46 d)]
  simp only [hs]
  simp [ip4PartOk_natToDec, decVal_natToDec]
  omega


/-! ## Python `int()` on a plain decimal numeral -/

theorem digitsUS_digits (base : Nat) (ds : List Nat) (hd : ∀ c ∈ ds, 48 ≤ c ∧ c < 48 + base) (acc : Nat) (nd : Bool) :
    digitsUS base ds acc nd =
      if ds = [] then (if nd then none else some acc) else some (ds.foldl (fun a d => a * base + (d - 48)) acc) := by
  induction ds generalizing acc nd with
  | nil => simp [digitsUS]
  | cons c cs ih =>
    have hc := hd c (by simp)
    simp only [digitsUS, hc.1, hc.2, and_self, if_true]
    rw [ih (fun x hx => hd x (by simp [hx]))]
    by_cases hcs : cs = []
    · subst hcs; simp
    · simp [hcs]

theorem dropWhile_head_false (p : Nat → Bool) (s : List Nat) (h : ∀ c ∈ s, p c = false) : s.dropWhile p = s := by
  cases s with
  | nil => rfl
  | cons c cs => simp [List.dropWhile, h c (by simp)]

theorem stripIntSpace_id (s : List Nat) (h : ∀ c ∈ s, isIntSpace c = false) : stripIntSpace s = s := by
  unfold stripIntSpace
  rw [dropWhile_head_false _ s h, dropWhile_head_false _ s.reverse (fun c hc => h c (by simpa using hc))]
  simp

theorem pyInt10_natToDec (n : Nat) : pyInt 10 (natToDec n) = some (false, n) := by
  have hdig := natToDec_digits n
  have hns : ∀ c ∈ natToDec n, isIntSpace c = false := by
    intro c hc; have := hdig c hc; simp [isIntSpace]; omega
  have hd10 : ∀ c ∈ natToDec n, 48 ≤ c ∧ c < 48 + 10 := by
    intro c hc; have := hdig c hc; omega
  have hval : (natToDec n).foldl (fun a d => a * 10 + (d - 48)) 0 = n := decVal_natToDec n
  unfold pyInt
  rw [stripIntSpace_id _ hns]
  cases hs : natToDec n with
  | nil => exact absurd hs (natToDec_ne_nil n)
  | cons c cs =>
    have hc := hdig c (by rw [hs]; simp)
    have h45 : c ≠ 45 := by omega
    have h43 : c ≠ 43 := by omega
    have hdig' : ∀ x ∈ c :: cs, 48 ≤ x ∧ x < 48 + 10 := by rw [← hs]; exact hd10
    have hval' : (c :: cs).foldl (fun a d => a * 10 + (d - 48)) 0 = n := by rw [← hs]; exact hval
    have key : digitsUS 10 (c :: cs) 0 true = some n := by
      rw [digitsUS_digits 10 _ hdig']; simp only [List.cons_ne_nil, if_false]; rw [hval']
    have hsign : pySign (c :: cs) = (false, c :: cs) := by
      unfold pySign
      split
      · rename_i h1; simp at h1; exact absurd h1.1 h45
      · rename_i h1; simp at h1; exact absurd h1.1 h43
      · rfl
    have hbody : pyBody 10 (c :: cs) = digitsUS 10 (c :: cs) 0 true := by
      unfold pyBody
      split
      · simp
      · rfl
    simp [hsign, hbody, key]

end Model

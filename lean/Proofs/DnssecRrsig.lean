import Model.Dnssec
import Proofs.NameText
import Proofs.DnssecBasic
/-! Helper lemmas for C15: pointer-free decoding of canonical names; the RRSIG signing input against RFC 4034 §3.1.8.1. -/
namespace Model
namespace Dnssec

/-! ## canonical forms never use compression -/

/-- A decoder for *uncompressed* names only: every length octet must be `< 64`, so a compression pointer
(`0xC0..`) or a reserved label type is rejected.  Returns the name and the unread rest. -/
def decodeNoPtr : Nat → Bytes → Option (Name × Bytes)
  | 0, _ => none
  | _ + 1, [] => none
  | f + 1, n :: rest =>
    if n = 0 then some ([[]], rest)
    else if n < 64 ∧ n ≤ rest.length then
      match decodeNoPtr f (rest.drop n) with
      | some (m, r) => some (rest.take n :: m, r)
      | none => none
    else none

theorem isAbs_cons_cons (a b : Label) (t : Name) : isAbs (a :: b :: t) = isAbs (b :: t) := by
  simp [isAbs, List.getLast?_cons_cons]

theorem decodeNoPtr_toWire (n : Name) (hl : ∀ l ∈ n, l.length ≤ 63) (hne : ∀ l ∈ n.dropLast, l ≠ [])
    (ha : isAbs n = true) (rest : Bytes) :
    decodeNoPtr n.length (toWire n ++ rest) = some (n, rest) := by
  induction n with
  | nil => simp [isAbs] at ha
  | cons l t ih =>
    cases t with
    | nil =>
      have : l = [] := by
        simp [isAbs] at ha
        split at ha <;> simp_all
      subst this
      simp [toWire, decodeNoPtr]
    | cons l2 t2 =>
      have hl0 : l ≠ [] := hne l (by simp [List.dropLast])
      have hlen : l.length ≤ 63 := hl l (by simp)
      have hpos : l.length ≠ 0 := by
        intro h; exact hl0 (List.length_eq_zero_iff.mp h)
      have ih' := ih (fun x hx => hl x (by simp [hx]))
        (fun x hx => hne x (by simp [List.dropLast]; right; exact hx))
        (by rw [isAbs_cons_cons] at ha; exact ha)
      have hw : toWire (l :: l2 :: t2) ++ rest = l.length :: (l ++ (toWire (l2 :: t2) ++ rest)) := by
        simp [toWire]
      rw [hw]
      simp only [List.length_cons] at ih' ⊢
      unfold decodeNoPtr
      simp only [hpos, if_false]
      have hc : l.length < 64 ∧ l.length ≤ (l ++ (toWire (l2 :: t2) ++ rest)).length := by
        constructor
        · omega
        · simp
      simp only [hc, and_self, if_true, List.drop_left, List.take_left]
      rw [ih']

theorem lowerName_length (n : Name) : (lowerName n).length = n.length := by simp [lowerName]

theorem lowerName_wf_parts (n : Name) (hl : ∀ l ∈ n, l.length ≤ 63) (hne : ∀ l ∈ n.dropLast, l ≠ []) :
    (∀ l ∈ lowerName n, l.length ≤ 63) ∧ (∀ l ∈ (lowerName n).dropLast, l ≠ []) := by
  constructor
  · intro l hlm
    simp only [lowerName, List.mem_map] at hlm
    obtain ⟨x, hx, rfl⟩ := hlm
    simp [lowerLabel]; exact hl x hx
  · intro l hlm
    simp only [lowerName, ← List.map_dropLast, List.mem_map] at hlm
    obtain ⟨x, hx, rfl⟩ := hlm
    intro h
    apply hne x hx
    simpa [lowerLabel] using h

theorem isAbs_lowerName (n : Name) : isAbs (lowerName n) = isAbs n := by
  unfold isAbs lowerName
  rw [List.getLast?_map]
  cases h : n.getLast? with
  | none => simp
  | some l =>
    cases l with
    | nil => simp [lowerLabel]
    | cons a as => simp [lowerLabel]

/-! ## RFC 4034 §3.1.8.1 / RFC 4035 §5.3.2, written independently of the model -/

namespace Rfc

/-- RFC 4034 §3.1.3: the number of labels of the owner name, not counting the root label nor a leading `*` -/
def labelCount (fqdn : Name) : Nat :=
  fqdn.dropLast.length - (if fqdn.head? = some [42] then 1 else 0)

/-- RFC 4035 §5.3.2: `name = fqdn` if `rrsig_labels = fqdn_labels`; otherwise
`name = "*." | the rightmost rrsig_label labels of the fqdn` -/
def sigOwner (fqdn : Name) (labels : Nat) : Name :=
  if labels = labelCount fqdn then fqdn
  else [42] :: (fqdn.dropLast.drop (fqdn.dropLast.length - labels) ++ [[]])

/-- `RR(i) = owner | type | class | TTL | RDATA length | RDATA`, owner in canonical form, TTL = Original TTL -/
def rr (owner : Name) (ty cls ttl : Nat) (rdata : Bytes) : Bytes :=
  toWire (lowerName owner) ++ be16 ty ++ be16 cls ++ be32 ttl ++ be16 rdata.length ++ rdata

/-- `RRSIG_RDATA | RR(1) | RR(2)…`: the RRSIG RDATA fields without the signature, signer's name in canonical form -/
def sigData (s : RRSig) (signerFqdn ownerFqdn : Name) (ty cls : Nat) (sortedCanon : List Bytes) : Bytes :=
  be16 s.typeCovered ++ [s.algorithm, s.labels] ++ be32 s.originalTtl ++ be32 s.expiration ++ be32 s.inception
    ++ be16 s.keyTag ++ toWire (lowerName signerFqdn)
    ++ sortedCanon.flatMap (rr (sigOwner ownerFqdn s.labels) ty cls s.originalTtl)

end Rfc

theorem abs_eq_dropLast_append (n : Name) (ha : isAbs n = true) : n = n.dropLast ++ [[]] := by
  have hne : n ≠ [] := by intro h; subst h; simp [isAbs] at ha
  have hl : n.getLast hne = [] := by
    unfold isAbs at ha
    rw [List.getLast?_eq_some_getLast hne] at ha
    split at ha
    · rename_i h; simpa using h.symm
    · simp at ha
  conv => lhs; rw [← List.dropLast_concat_getLast hne, hl]

theorem rrRecord_eq (owner : Name) (ty cls ttl : Nat) (rd : Bytes) :
    rrRecord (toWire (lowerName owner)) (be16 ty ++ be16 cls ++ be32 ttl) rd = Rfc.rr owner ty cls ttl rd := by
  simp [rrRecord, Rfc.rr]

/-- the owner name the code digests equals the RFC 4035 §5.3.2 name, for an accepted label count -/
theorem owner_eq_sigOwner (rrname : Name) (labels : Nat) (ha : isAbs rrname = true)
    (hl : labels ≤ Rfc.labelCount rrname) (hw : rrname.head? = some wildLabel → labels = Rfc.labelCount rrname) :
    (if (labels : Int) < (rrname.length : Int) - 1 then wildLabel :: rrname.drop (rrname.length - (labels + 1)) else rrname)
      = Rfc.sigOwner rrname labels := by
  obtain ⟨d, rfl⟩ : ∃ d, rrname = d ++ [[]] := ⟨_, abs_eq_dropLast_append rrname ha⟩
  unfold Rfc.sigOwner Rfc.labelCount at *
  simp only [List.dropLast_concat, List.length_append, List.length_cons, List.length_nil, wildLabel] at *
  by_cases hwild : (d ++ [[]]).head? = some [42]
  · have hw' := hw hwild
    simp only [hwild, if_true] at hw' hl ⊢
    cases d with
    | nil => simp at hwild
    | cons h t =>
      simp at hwild
      subst hwild
      simp only [List.length_cons] at hw' ⊢
      have hlt : (labels : Int) < ((t.length + 1 + (0 + 1) : Nat) : Int) - 1 := by omega
      have hk : t.length + 1 + (0 + 1) - (labels + 1) = 1 := by omega
      simp only [hlt, if_true, hk]
      have : labels = t.length + 1 - 1 := hw'
      simp [this]
  · simp only [hwild, if_false, Nat.sub_zero] at hl ⊢
    by_cases heq : labels = d.length
    · subst heq
      have hn : ¬ ((d.length : Int) < ((d.length + (0 + 1) : Nat) : Int) - 1) := by omega
      simp only [hn, if_false, if_true]
    · have hlt : (labels : Int) < ((d.length + (0 + 1) : Nat) : Int) - 1 := by omega
      simp only [hlt, if_true, heq, if_false]
      congr 1
      have hk : d.length + (0 + 1) - (labels + 1) = d.length - labels := by omega
      rw [hk, List.drop_append_of_le_length (by omega)]

theorem isAbs_concat_nil (d : Name) : isAbs (d ++ [[]]) = true := by
  simp [isAbs]

theorem isAbs_sigOwner (rrname : Name) (labels : Nat) (ha : isAbs rrname = true) :
    isAbs (Rfc.sigOwner rrname labels) = true := by
  unfold Rfc.sigOwner
  split
  · exact ha
  · have := isAbs_concat_nil ([42] :: List.drop (rrname.dropLast.length - labels) rrname.dropLast)
    simpa using this

theorem length_of_abs (n : Name) (ha : isAbs n = true) : n.length = n.dropLast.length + 1 := by
  conv => lhs; rw [abs_eq_dropLast_append n ha]
  simp

/-- The signing input of the model equals RFC 4034 §3.1.8.1 for absolute signer and owner and an accepted
label count. -/
theorem rrsigData_eq_rfc (t : CanonTable) (sig : RRSig) (origin : Option Name) (rrname : Name)
    (rdtype rdclass : Nat) (rdatas : List Rdata) (ds : List Bytes)
    (hs : isAbs sig.signer = true) (hr : isAbs rrname = true)
    (hl : sig.labels ≤ Rfc.labelCount rrname)
    (hw : rrname.head? = some wildLabel → sig.labels = Rfc.labelCount rrname)
    (hd : mapExcept (fun rd => toDigestable t rdclass rdtype rd origin) rdatas = .ok ds) :
    rrsigData t sig origin rrname rdtype rdclass rdatas =
      .ok (Rfc.sigData sig sig.signer rrname rdtype rdclass (insSort bytesLe ds)) := by
  have hlen := length_of_abs rrname hr
  have hcount : Rfc.labelCount rrname ≤ rrname.dropLast.length := by
    unfold Rfc.labelCount; omega
  have hc1 : ¬ (rrname.head? = some wildLabel ∧ (sig.labels : Int) ≠ (rrname.length : Int) - 2) := by
    rintro ⟨h1, h2⟩
    have := hw h1
    unfold Rfc.labelCount at this
    simp only [wildLabel] at h1
    simp only [h1, if_true] at this
    have hpos : rrname.dropLast.length ≥ 1 := by
      cases hrr : rrname with
      | nil => rw [hrr] at h1; simp at h1
      | cons a b =>
        cases b with
        | nil =>
          rw [hrr] at h1 hr; simp at h1; subst h1
          simp [isAbs] at hr
        | cons _ _ => simp
    omega
  have hc2 : ¬ ((rrname.length : Int) - 1 < (sig.labels : Int)) := by omega
  have hown := owner_eq_sigOwner rrname sig.labels hr hl hw
  have habs := isAbs_sigOwner rrname sig.labels hr
  have hfin : (Except.ok (rrsigHeader sig ++ toWire (lowerName sig.signer) ++
          List.flatMap (rrRecord (toWire (lowerName (Rfc.sigOwner rrname sig.labels)))
              (be16 rdtype ++ be16 rdclass ++ be32 sig.originalTtl)) (insSort bytesLe ds)) : Except DErr Bytes) =
      Except.ok (Rfc.sigData sig sig.signer rrname rdtype rdclass (insSort bytesLe ds)) := by
    have hf : rrRecord (toWire (lowerName (Rfc.sigOwner rrname sig.labels)))
        (be16 rdtype ++ be16 rdclass ++ be32 sig.originalTtl) =
        Rfc.rr (Rfc.sigOwner rrname sig.labels) rdtype rdclass sig.originalTtl := by
      funext rd; exact rrRecord_eq _ _ _ _ rd
    rw [hf]
    simp [Rfc.sigData, rrsigHeader, List.append_assoc]
  unfold rrsigData
  simp only [derelativizeD, hs, hr, if_true, nameWireFile, nameDigestable, nameWireNoFile,
      hc1, hc2, if_false, hown, habs, hd, hfin]

/-- General form: relative signer and owner names are completed by the origin first (`derelativize`), then the
signing input is RFC 4034 §3.1.8.1 over the completed names.  `hw`: the RRSIG RDATA itself must be renderable
with the completed signer as origin (`rrsig.to_wire(origin=signer)`, of which only the first 18 octets are used). -/
theorem rrsigData_eq_rfc_rel (t : CanonTable) (sig : RRSig) (origin : Option Name) (rrname : Name)
    (rdtype rdclass : Nat) (rdatas : List Rdata) (ds : List Bytes) (signer owner : Name) (w : Bytes)
    (hs : derelativizeD sig.signer origin = .ok signer) (hsa : isAbs signer = true)
    (hw : nameWireFile sig.signer (some signer) false = .ok w)
    (hr : derelativizeD rrname origin = .ok owner) (hoa : isAbs owner = true)
    (hl : sig.labels ≤ Rfc.labelCount owner)
    (hwild : owner.head? = some wildLabel → sig.labels = Rfc.labelCount owner)
    (hd : mapExcept (fun rd => toDigestable t rdclass rdtype rd origin) rdatas = .ok ds) :
    rrsigData t sig origin rrname rdtype rdclass rdatas =
      .ok (Rfc.sigData sig signer owner rdtype rdclass (insSort bytesLe ds)) := by
  have hlen := length_of_abs owner hoa
  have hcount : Rfc.labelCount owner ≤ owner.dropLast.length := by
    unfold Rfc.labelCount; omega
  have hc1 : ¬ (owner.head? = some wildLabel ∧ (sig.labels : Int) ≠ (owner.length : Int) - 2) := by
    rintro ⟨h1, h2⟩
    have := hwild h1
    unfold Rfc.labelCount at this
    simp only [wildLabel] at h1
    simp only [h1, if_true] at this
    have hpos : owner.dropLast.length ≥ 1 := by
      cases hrr : owner with
      | nil => rw [hrr] at h1; simp at h1
      | cons a b =>
        cases b with
        | nil =>
          rw [hrr] at h1 hoa; simp at h1; subst h1
          simp [isAbs] at hoa
        | cons _ _ => simp
    omega
  have hc2 : ¬ ((owner.length : Int) - 1 < (sig.labels : Int)) := by omega
  have hown := owner_eq_sigOwner owner sig.labels hoa hl hwild
  have habs := isAbs_sigOwner owner sig.labels hoa
  have hfin : (Except.ok (rrsigHeader sig ++ toWire (lowerName signer) ++
          List.flatMap (rrRecord (toWire (lowerName (Rfc.sigOwner owner sig.labels)))
              (be16 rdtype ++ be16 rdclass ++ be32 sig.originalTtl)) (insSort bytesLe ds)) : Except DErr Bytes) =
      Except.ok (Rfc.sigData sig signer owner rdtype rdclass (insSort bytesLe ds)) := by
    have hf : rrRecord (toWire (lowerName (Rfc.sigOwner owner sig.labels)))
        (be16 rdtype ++ be16 rdclass ++ be32 sig.originalTtl) =
        Rfc.rr (Rfc.sigOwner owner sig.labels) rdtype rdclass sig.originalTtl := by
      funext rd; exact rrRecord_eq _ _ _ _ rd
    rw [hf]
    simp [Rfc.sigData, rrsigHeader, List.append_assoc]
  unfold rrsigData
  simp only [hs, hw, hr, nameDigestable, nameWireNoFile, hsa, if_true, hc1, hc2, if_false, hown, habs, hd, hfin]

/-- outside the accepted label counts the code raises ValidationFailure -/
theorem rrsigData_rejects (t : CanonTable) (sig : RRSig) (origin : Option Name) (rrname : Name)
    (rdtype rdclass : Nat) (rdatas : List Rdata)
    (hs : isAbs sig.signer = true) (hr : isAbs rrname = true)
    (hbad : sig.labels > Rfc.labelCount rrname ∨
            (rrname.head? = some wildLabel ∧ sig.labels ≠ Rfc.labelCount rrname)) :
    rrsigData t sig origin rrname rdtype rdclass rdatas = .error .validation := by
  have hlen := length_of_abs rrname hr
  unfold rrsigData
  by_cases hwild : rrname.head? = some wildLabel
  · have hpos : rrname.dropLast.length ≥ 1 := by
      simp only [wildLabel] at hwild
      cases hrr : rrname with
      | nil => rw [hrr] at hwild; simp at hwild
      | cons a b =>
        cases b with
        | nil =>
          rw [hrr] at hwild hr; simp at hwild; subst hwild
          simp [isAbs] at hr
        | cons _ _ => simp
    have hne : sig.labels ≠ Rfc.labelCount rrname := by
      rcases hbad with h | h
      · omega
      · exact h.2
    have hcnt : Rfc.labelCount rrname = rrname.dropLast.length - 1 := by
      unfold Rfc.labelCount; simp only [wildLabel] at hwild; simp [hwild]
    have : (sig.labels : Int) ≠ (rrname.length : Int) - 2 := by omega
    simp [derelativizeD, hs, hr, nameWireFile, nameDigestable, nameWireNoFile, hwild, this]
  · have hgt : sig.labels > Rfc.labelCount rrname := by
      rcases hbad with h | h
      · exact h
      · exact absurd h.1 hwild
    have hcnt : Rfc.labelCount rrname = rrname.dropLast.length := by
      unfold Rfc.labelCount; simp only [wildLabel] at hwild; simp [hwild]
    have h2 : (rrname.length : Int) - 1 < (sig.labels : Int) := by omega
    simp [derelativizeD, hs, hr, nameWireFile, nameDigestable, nameWireNoFile, hwild, h2]

end Dnssec
end Model

import Proofs.XfrFlat
import Proofs.XfrZone
/-!
# Specification vocabulary of C13: zone versions, the AXFR / IXFR streams a server sends for them,
divisions of a record stream into messages, and the reduction of a chunked run to the flat run.
-/
namespace Model.Xfr

/-- an apex SOA: its rdata and its TTL -/
structure Soa where
  rdata : Rdata
  ttl : Nat

/-- A zone version as a server holds it: the apex SOA and the other rrsets. -/
structure Version where
  soa : Soa
  body : List RRset

/-- the apex SOA rrset -/
def soaRR (o : Name) (s : Soa) : RRset := ⟨o, soaType, s.ttl, [s.rdata]⟩

/-- the apex SOA record -/
def soaRec (o : Name) (s : Soa) : RR := ⟨o, soaType, s.rdata, s.ttl⟩

/-- the content of a version as a zone -/
def zoneOf (o : Name) (v : Version) : Zone := recsOfAll v.body ++ [soaRec o v.soa]

/-- rrsets a server may send in the body of a transfer of the zone at `o`: in the zone, not empty, and
not of type SOA (the apex SOA travels separately; a zone has no other SOA) -/
def BodyOk (o : Name) (l : List RRset) : Prop :=
  ∀ rs ∈ l, rs.rdtype ≠ soaType ∧ isSubdomain rs.owner o = true ∧ rs.rdatas ≠ []

/-- `AXFR` response for version `v`: SOA, every other rrset, SOA again -/
def axfrStream (o : Name) (v : Version) : List RRset := soaRR o v.soa :: (v.body ++ [soaRR o v.soa])

/-- one incremental step: the records removed, the new SOA, the records added -/
structure Step where
  dels : List RR
  soa : Soa
  adds : List RR

/-- the difference sequences of an IXFR response, starting from the version whose SOA is `cur` -/
def ixfrSteps (o : Name) (cur : Soa) : List Step → List RRset
  | [] => []
  | st :: rest =>
    soaRR o cur :: (st.dels.map single ++ (soaRR o st.soa :: (st.adds.map single ++ ixfrSteps o st.soa rest)))

/-- the SOA of the last step (the server's current SOA) -/
def lastSoa (cur : Soa) : List Step → Soa
  | [] => cur
  | st :: rest => lastSoa st.soa rest

/-- `IXFR` response (RFC 1995): current SOA, the difference sequences oldest first, current SOA -/
def ixfrStream (o : Name) (cur : Soa) (steps : List Step) : List RRset :=
  soaRR o (lastSoa cur steps) :: (ixfrSteps o cur steps ++ [soaRR o (lastSoa cur steps)])

/-- A division of the record stream `recs` into response messages of a transfer with configuration `c`:
rcode NOERROR, question absent or the right one, first message not empty; later messages may be empty. -/
structure Chunks (c : Config) (recs : List RRset) (msgs : List Msg) : Prop where
  flat : msgs.flatMap (·.answer) = recs
  hdr : ∀ m ∈ msgs, m.rcode = 0 ∧ (m.question = [] ∨ ∃ o rest, c.origin = some o ∧ m.question = (o, c.rdtype) :: rest)
  first : ∀ m ∈ msgs.head?, m.answer ≠ []

/-- the transfer fed as one flat list of rrsets (shipped variant; TCP, so nothing depends on message ends) -/
def flatRun (c : Config) (z0 : Zone) (recs : List RRset) : R :=
  match Inbound.init c.origin z0 c.rdtype c.serial c.isUdp with
  | .error e => .error (e, z0)
  | .ok s0 =>
    match recs with
    | [] => .error (.FormError, z0)
    | rr0 :: rest =>
      match firstSoa (openTxn s0) rr0 false with
      | .error e => .error e
      | .ok s1 => procAnswers false s1 rest

theorem init_props {o z t ser u s} (h : Inbound.init o z t ser u = .ok s) :
    o = some s.origin ∧ s.rdtype = t ∧ s.isUdp = u ∧ s.zone = z ∧ s.soa = none ∧ s.txn = none ∧ s.done = false ∧
      s.serial = ser ∧ s.expectingSOA = false ∧ s.deleteMode = false := by
  unfold Inbound.init at h
  repeat' split at h
  all_goals first | (cases h; done) | (cases h; simp_all)

theorem firstSoa_tcp {s : Inbound} (hu : s.isUdp = false) (rr : RRset) (b b' : Bool) :
    firstSoa s rr b = firstSoa s rr b' := by
  unfold firstSoa; simp [hu]

theorem headerErr_of_chunk {c : Config} {s : Inbound} {m : Msg} (ho : c.origin = some s.origin)
    (ht : s.rdtype = c.rdtype)
    (h : m.rcode = 0 ∧ (m.question = [] ∨ ∃ o rest, c.origin = some o ∧ m.question = (o, c.rdtype) :: rest)) :
    headerErr s m = none := by
  unfold headerErr headerErrOf
  rcases h with ⟨hr, hq | ⟨o, rest, hco, hq⟩⟩
  · simp [hr, hq]
  · rw [ho] at hco; cases hco
    simp [hr, hq, ht]

/-- Over TCP, for every division of the stream into messages: if the flat run completes, so does the
chunked run, in the same state. -/
theorem run_of_flat {c : Config} {z0 : Zone} {recs : List RRset} {msgs : List Msg} {s' : Inbound}
    (hu : c.isUdp = false) (hc : Chunks c recs msgs) (hf : flatRun c z0 recs = .ok s') (hd : s'.done = true) :
    run false c z0 msgs = ⟨none, s'.zone⟩ := by
  unfold flatRun at hf
  unfold run
  cases hi : Inbound.init c.origin z0 c.rdtype c.serial c.isUdp with
  | error e => rw [hi] at hf; cases hf
  | ok s0 =>
    rw [hi] at hf
    have ip := init_props hi
    simp only [] at hf ⊢
    cases recs with
    | nil => cases hf
    | cons rr0 rest =>
      simp only [] at hf
      cases msgs with
      | nil => have := hc.flat; simp at this
      | cons m0 ms =>
        have hfirst := hc.first m0 (by simp)
        cases hm0 : m0.answer with
        | nil => exact absurd hm0 hfirst
        | cons a0 rest0 =>
          have hflat := hc.flat
          simp only [List.flatMap_cons, hm0, List.cons_append, List.cons.injEq] at hflat
          obtain ⟨ha0, hrest⟩ := hflat
          subst ha0
          have o := openTxn_props s0
          have hu0 : (openTxn s0).isUdp = false := by rw [o.1.2.2.1, ip.2.2.1]; exact hu
          cases h1 : firstSoa (openTxn s0) a0 false with
          | error e => rw [h1] at hf; cases hf
          | ok s1 =>
            rw [h1] at hf
            simp only [] at hf
            rw [← hrest] at hf
            obtain ⟨s2, h2, h3, h4⟩ := procAnswers_append_ok hf
            have f1 := firstSoa_ok h1
            have st2 := procAnswers_ok h2
            have hu2 : s2.isUdp = false := by rw [st2.1.2.2.1, f1.2.2.2.2.1]; exact hu0
            have hhdr0 : headerErr (openTxn s0) m0 = none :=
              headerErr_of_chunk (by rw [o.1.1]; exact ip.1) (by rw [o.1.2.1]; exact ip.2.1) (hc.hdr m0 (by simp))
            have hsoa0 : (openTxn s0).soa = none := by rw [o.1.2.2.2]; exact ip.2.2.2.2.1
            have hpm : procMessage false s0 m0 = .ok s2 := by
              unfold procMessage
              rw [hhdr0]
              simp only []
              unfold procBody
              rw [hsoa0, hm0]
              simp only []
              rw [firstSoa_tcp hu0 a0 rest0.isEmpty false, h1]
              simp only []
              rw [h2]
              simp [udpCheck, hu2]
            unfold runLoop
            rw [hpm]
            simp only []
            by_cases hd2 : s2.done = true
            · simp only [hd2, if_true]; rw [(h4 hd2).2]
            · have hd2' : s2.done = false := by simpa using hd2
              simp only [hd2', Bool.false_eq_true, if_false]
              have r := st2.2 hd2'
              have htx1 : s1.txn.isSome = true := by rw [f1.2.1]; exact o.2.2.2.1
              have hl := runLoop_flat_done ms s2 s' (by rw [st2.1.2.2.2, f1.2.2.2.2.2]; rfl) (r.2 htx1) hu2 hd2' ?_ h3 hd
              · rw [hl]
              · intro m hm
                refine headerErr_of_chunk ?_ ?_ (hc.hdr m (by simp [hm]))
                · rw [st2.1.1, f1.2.2.1, o.1.1]; exact ip.1
                · rw [st2.1.2.1, f1.2.2.2.1, o.1.2.1]; exact ip.2.1

end Model.Xfr

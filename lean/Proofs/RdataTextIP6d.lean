import Proofs.RdataTextIP6c
/-! IPv6 text codec, part 4: embedded IPv4 forms and the round trip `inet_aton (inet_ntoa a) = a` (C05). -/
namespace Model

theorem hex2_pair (b0 b1 : Nat) (h0 : b0 < 256) (h1 : b1 < 256) : hex2 b0 ++ hex2 b1 = hex4 (b0 * 256 + b1) := by
  simp only [hex2, hex4, List.cons_append, List.nil_append]
  have e1 : (b0 * 256 + b1) / 4096 % 16 = b0 / 16 % 16 := by omega
  have e2 : (b0 * 256 + b1) / 256 % 16 = b0 % 16 := by omega
  have e3 : (b0 * 256 + b1) / 16 % 16 = b1 / 16 % 16 := by omega
  have e4 : (b0 * 256 + b1) % 16 = b1 % 16 := by omega
  rw [e1, e2, e3, e4]

theorem hex4_hexChunk (g : Nat) : HexChunk (hex4 g) := by
  refine ⟨by simp [hex4], by simp [hex4], ?_⟩
  intro x hx
  simp [hex4] at hx
  rcases hx with e | e | e | e <;> subst e <;> exact hexDigitLower_isHexL _ (by omega)

theorem pad4_hex4 (g : Nat) : pad4 (hex4 g) = hex4 g := by simp [pad4, hex4]

theorem hex4_zero : hex4 0 = [48, 48, 48, 48] := by decide

theorem hex4_ffff : hex4 65535 = [102, 102, 102, 102] := by decide

/-- the dotted-quad text of four octets -/
def v4Text (b0 b1 b2 b3 : Nat) : List Nat :=
  natToDec b0 ++ 46 :: (natToDec b1 ++ 46 :: (natToDec b2 ++ 46 :: natToDec b3))

theorem v4Text_facts (b0 b1 b2 b3 : Nat) (h0 : b0 < 256) (h1 : b1 < 256) (h2 : b2 < 256) (h3 : b3 < 256) :
    58 ∉ v4Text b0 b1 b2 b3 ∧ isDottedQuadShape (v4Text b0 b1 b2 b3) = true ∧
    ip4Aton (v4Text b0 b1 b2 b3) = some [b0, b1, b2, b3] ∧
    (∃ i d, v4Text b0 b1 b2 b3 = i ++ [d] ∧ 48 ≤ d ∧ d ≤ 57) := by
  have n46 : ∀ n, 46 ∉ natToDec n := natToDec_no 46 (by omega)
  have n58 : ∀ n, 58 ∉ natToDec n := natToDec_no 58 (by omega)
  have hs : splitOn 46 (v4Text b0 b1 b2 b3) = [natToDec b0, natToDec b1, natToDec b2, natToDec b3] := by
    unfold v4Text
    rw [splitOn_append_sep 46 _ _ (n46 b0), splitOn_append_sep 46 _ _ (n46 b1), splitOn_append_sep 46 _ _ (n46 b2),
      splitOn_no_sep 46 _ (n46 b3)]
  refine ⟨?_, ?_, ?_, ?_⟩
  · unfold v4Text
    intro hm
    simp only [List.mem_append, List.mem_cons] at hm
    rcases hm with h | h | h | h | h | h | h
    · exact n58 _ h
    · omega
    · exact n58 _ h
    · omega
    · exact n58 _ h
    · omega
    · exact n58 _ h
  · unfold isDottedQuadShape
    rw [hs]
    have hd : ∀ n, (natToDec n).all isDigit = true := natToDec_all_isDigit
    have hne : ∀ n, (natToDec n).isEmpty = false := by
      intro n
      cases h : natToDec n with
      | nil => exact absurd h (natToDec_ne_nil n)
      | cons _ _ => rfl
    simp [hd, hne]
  · obtain ⟨t, ht, hat⟩ := ip4_roundtrip b0 b1 b2 b3 h0 h1 h2 h3
    have hn : ip4Ntoa [b0, b1, b2, b3] = some (v4Text b0 b1 b2 b3) := rfl
    rw [hn] at ht
    injection ht with ht
    rw [ht]; exact hat
  · obtain ⟨i, d, hid⟩ := ne_nil_split_last (natToDec b3) (natToDec_ne_nil b3)
    have hd := natToDec_digits b3 d (by rw [hid]; simp)
    refine ⟨natToDec b0 ++ 46 :: (natToDec b1 ++ 46 :: (natToDec b2 ++ 46 :: i)), d, ?_, hd⟩
    unfold v4Text
    rw [hid]; simp

theorem endsWith_snoc (x : List Nat) (d c : Nat) (h : d ≠ c) : endsWith (x ++ [d]) [c] = false := by
  simp [endsWith, startsWith, h]

theorem pair_lt (b0 b1 : Nat) (h0 : b0 < 256) (h1 : b1 < 256) : b0 * 256 + b1 < 65536 := by omega

theorem pair_divmod (b0 b1 : Nat) (h1 : b1 < 256) : [(b0 * 256 + b1) / 256, (b0 * 256 + b1) % 256] = [b0, b1] := by
  simp; omega

/-- shapes C: `::a.b.c.d` and `::ffff:a.b.c.d` -/
theorem aton_embedded (ffff : Bool) (b0 b1 b2 b3 : Nat) (h0 : b0 < 256) (h1 : b1 < 256) (h2 : b2 < 256) (h3 : b3 < 256) :
    ip6Aton ((if ffff then [58, 58, 102, 102, 102, 102, 58] else [58, 58]) ++ v4Text b0 b1 b2 b3) =
      some (List.replicate 10 0 ++ (if ffff then [255, 255] else [0, 0]) ++ [b0, b1, b2, b3]) := by
  have g1 := pair_lt b0 b1 h0 h1
  have g2 := pair_lt b2 b3 h2 h3
  have hb01 := pair_divmod b0 b1 h1
  have hb23 := pair_divmod b2 b3 h3
  have hX1 := hex2_pair b0 b1 h0 h1
  have hX2 := hex2_pair b2 b3 h2 h3
  generalize b0 * 256 + b1 = G1 at g1 hb01 hX1
  generalize b2 * 256 + b3 = G2 at g2 hb23 hX2
  obtain ⟨v58, vdot, vaton, i, d, hid, hd1, hd2⟩ := v4Text_facts b0 b1 b2 b3 h0 h1 h2 h3
  generalize hV : v4Text b0 b1 b2 b3 = V at *
  have hVne : V ≠ [] := by rw [hid]; simp
  have hd58 : d ≠ 58 := by omega
  have hd10 : d ≠ 10 := by omega
  cases ffff with
  | false =>
    simp only [Bool.false_eq_true, if_false]
    have ht : ([58, 58] ++ V) = (58 :: 58 :: i) ++ [d] := by rw [hid]; simp
    have e1 : endsWith ([58, 58] ++ V) [58] = false := by rw [ht]; exact endsWith_snoc _ d 58 hd58
    have e3 : endsWith ([58, 58] ++ V) [10] = false := by rw [ht]; exact endsWith_snoc _ d 10 hd10
    have s1 : startsWith ([58, 58] ++ V) [58] = true := by simp [startsWith]
    have s2 : startsWith ([58, 58] ++ V) [58, 58] = true := by simp [startsWith]
    have hne : [58, 58] ++ V ≠ [] := by simp
    have hne2 : [58, 58] ++ V ≠ [58, 58] := by simp [hVne]
    have hsplit : splitOn 58 ([58, 58] ++ V) = [[], [], V] := by
      simp [splitOn, splitOn_no_sep 58 V v58]
    have hv : v4Ending ([58, 58] ++ V) = .ok (some (58 :: 58 :: J [hex4 G1, hex4 G2])) := by
      unfold v4Ending dropFinalNewline
      simp only [e3, Bool.false_eq_true, if_false]
      unfold splitLast
      rw [hsplit]
      simp only [List.reverse_cons, List.reverse_nil, List.nil_append, List.cons_append, vdot, vaton]
      rw [← hX1, ← hX2]
      simp [joinWith, J]
    have hchunks : ∀ c ∈ [hex4 G1, hex4 G2], HexChunk c := by
      intro c hc
      simp at hc
      rcases hc with e | e
      · rw [e]; exact hex4_hexChunk _
      · rw [e]; exact hex4_hexChunk _
    rw [ip6Aton_eq_tail _ hne (by rw [e1]; rfl) (by rw [s1, s2]; rfl) hne2, hv]
    simp only
    rw [atonTail_lead [hex4 G1, hex4 G2] hchunks (by simp) (by simp)]
    have : (List.replicate (8 - (1 + [hex4 G1, hex4 G2].length) + 1) [48, 48, 48, 48] ++ [hex4 G1, hex4 G2].map pad4)
        = ([0, 0, 0, 0, 0, 0, G1, G2].map hex4) := by
      simp only [List.length_cons, List.length_nil, List.map_cons, List.map_nil, pad4_hex4, hex4_zero]
      rfl
    rw [this, unhexlify_groups _ (by intro g hg; simp at hg; rcases hg with e | e | e | e | e | e | e | e <;> omega)]
    have hb : bytesOfGroups [0, 0, 0, 0, 0, 0, G1, G2] = List.replicate 12 0 ++ ([G1 / 256, G1 % 256] ++ [G2 / 256, G2 % 256]) := by
      simp [bytesOfGroups, List.replicate]
    rw [hb, hb01, hb23]
    rfl
  | true =>
    simp only [if_true]
    have ht : ([58, 58, 102, 102, 102, 102, 58] ++ V) = (58 :: 58 :: 102 :: 102 :: 102 :: 102 :: 58 :: i) ++ [d] := by
      rw [hid]; simp
    have e1 : endsWith ([58, 58, 102, 102, 102, 102, 58] ++ V) [58] = false := by rw [ht]; exact endsWith_snoc _ d 58 hd58
    have e3 : endsWith ([58, 58, 102, 102, 102, 102, 58] ++ V) [10] = false := by rw [ht]; exact endsWith_snoc _ d 10 hd10
    have s1 : startsWith ([58, 58, 102, 102, 102, 102, 58] ++ V) [58] = true := by simp [startsWith]
    have s2 : startsWith ([58, 58, 102, 102, 102, 102, 58] ++ V) [58, 58] = true := by simp [startsWith]
    have hne : [58, 58, 102, 102, 102, 102, 58] ++ V ≠ [] := by simp
    have hne2 : [58, 58, 102, 102, 102, 102, 58] ++ V ≠ [58, 58] := by simp
    have hsplit : splitOn 58 ([58, 58, 102, 102, 102, 102, 58] ++ V) = [[], [], [102, 102, 102, 102], V] := by
      simp [splitOn, splitOn_no_sep 58 V v58]
    have hv : v4Ending ([58, 58, 102, 102, 102, 102, 58] ++ V)
        = .ok (some (58 :: 58 :: J [hex4 65535, hex4 G1, hex4 G2])) := by
      unfold v4Ending dropFinalNewline
      simp only [e3, Bool.false_eq_true, if_false]
      unfold splitLast
      rw [hsplit]
      simp only [List.reverse_cons, List.reverse_nil, List.nil_append, List.cons_append, vdot, vaton]
      rw [← hX1, ← hX2, hex4_ffff]
      simp [joinWith, J]
    have hchunks : ∀ c ∈ [hex4 65535, hex4 G1, hex4 G2], HexChunk c := by
      intro c hc
      simp at hc
      rcases hc with e | e | e
      · rw [e]; exact hex4_hexChunk _
      · rw [e]; exact hex4_hexChunk _
      · rw [e]; exact hex4_hexChunk _
    rw [ip6Aton_eq_tail _ hne (by rw [e1]; rfl) (by rw [s1, s2]; rfl) hne2, hv]
    simp only
    rw [atonTail_lead [hex4 65535, hex4 G1, hex4 G2] hchunks (by simp) (by simp)]
    have : (List.replicate (8 - (1 + [hex4 65535, hex4 G1, hex4 G2].length) + 1) [48, 48, 48, 48] ++
          [hex4 65535, hex4 G1, hex4 G2].map pad4)
        = ([0, 0, 0, 0, 0, 65535, G1, G2].map hex4) := by
      simp only [List.length_cons, List.length_nil, List.map_cons, List.map_nil, pad4_hex4, hex4_zero]
      rfl
    rw [this, unhexlify_groups _ (by intro g hg; simp at hg; rcases hg with e | e | e | e | e | e | e | e <;> omega)]
    have hb : bytesOfGroups [0, 0, 0, 0, 0, 65535, G1, G2]
        = List.replicate 10 0 ++ [255, 255] ++ ([G1 / 256, G1 % 256] ++ [G2 / 256, G2 % 256]) := by
      simp [bytesOfGroups, List.replicate]
    rw [hb, hb01, hb23]
    rfl

end Model

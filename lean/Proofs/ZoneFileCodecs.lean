import Model.ZoneFile
import Proofs.ZoneFileLineG
import Proofs.ZoneFileOwnerText
/-!
Concrete RDATA codecs as instances of the reader's interface `RdataReads`: what `to_styled_text` prints for A,
NS/CNAME/PTR, MX, SOA, TXT and the RFC 3597 generic form is read back by `dns.rdata.from_text` — after any padding,
under any chunking of hex data, with or without a trailing comment — and the line is consumed.
-/
namespace Model

/-! ## end of line, with or without a comment -/

/-- what follows the RDATA text on its line: ` ;comment` (if any) and the newline -/
def lineEnd (kc : Option (List Nat)) : List Nat :=
  (match kc with | some c => 32 :: 59 :: c | none => []) ++ [10]

theorem get_lineEnd (kc : Option (List Nat)) (hc : ∀ t ∈ kc, 10 ∉ t) (pq : Bool) (rest : List Nat) :
    (after 0 pq (lineEnd kc ++ rest)).get = .ok (eolToken kc, after 0 false rest) := by
  cases kc with
  | none =>
    have := get_end [] none rest 0 pq rfl (by simp)
    simpa [lineEnd, renderSep, trailingText] using this
  | some c =>
    have := get_end [SepItem.sp] (some c) rest 0 pq rfl hc
    simpa [lineEnd, renderSep, SepItem.render, trailingText, List.append_assoc] using this

theorem getEol_lineEnd (kc : Option (List Nat)) (hc : ∀ t ∈ kc, 10 ∉ t) (pq : Bool) (rest : List Nat) :
    (after 0 pq (lineEnd kc ++ rest)).getEol = .ok (eolToken kc, after 0 false rest) := by
  simp [TState.getEol, bind, Except.bind, get_lineEnd kc hc pq rest, eolToken, Token.isEolOrEof, pure, Except.pure]

theorem lineEnd_startsDelim (kc : Option (List Nat)) (rest : List Nat) : startsDelim (lineEnd kc ++ rest) := by
  cases kc <;> simp [lineEnd, startsDelim, isDelim, delimiters]

/-! ## reading one field -/

theorem get_ungot (s : TState) (t : Token) (h : s.ungotten = none) (ht1 : t.ttype ≠ .whitespace) (ht2 : t.ttype ≠ .comment) :
    ({ s with ungotten := some t } : TState).get = .ok (t, s) := by
  cases s
  simp only at h
  subst h
  simp [TState.get, ht1, ht2]

/-- the field parsers, given what `get()` returns -/
theorem getName_of_get (s s1 : TState) (w : List Nat) (co : Option Name) (rel : Bool) (zo : Option Name) (t : Name)
    (hg : s.get = .ok (identToken w, s1)) (hn : (identToken w).asName co rel zo = .ok t) :
    s.getName co rel zo = .ok (t, s1) := by
  simp [TState.getName, bind, Except.bind, hg, hn, pure, Except.pure]

theorem unescape_noesc (w : List Nat) (h : hasEsc w = false) : (identToken w).unescape = .ok (identToken w) := by
  simp [Token.unescape, identToken, h]

theorem getIdentifier_of_get (s s1 : TState) (w : List Nat) (hg : s.get = .ok (identToken w, s1)) (he : hasEsc w = false) :
    s.getIdentifier = .ok (w, s1) := by
  simp only [TState.getIdentifier, bind, Except.bind, hg, unescape_noesc w he]
  simp [identToken, Token.isIdentifier, pure, Except.pure]

theorem getTTL_of_get (s s1 : TState) (n : Nat) (hg : s.get = .ok (identToken (natToDec n), s1)) (hn : n ≤ Consts.maxTTL) :
    s.getTTL = .ok (n, s1) := by
  have he : hasEsc (natToDec n) = false := by
    have := natToDec_all n
    simp only [hasEsc, List.contains_eq_mem, decide_eq_false_iff_not]
    intro hm
    have := (List.all_eq_true.mp this) 92 hm
    simp [isDecimal] at this
  have hv : ttlFromText (natToDec n) = .ok n := by
    have := ttlOf_natToDec n hn
    unfold ttlOf at this
    cases h : ttlFromText (natToDec n) with
    | ok v => simp [h] at this; rw [this]
    | error e => simp [h] at this
  simp only [TState.getTTL, bind, Except.bind, hg, unescape_noesc _ he]
  simp [identToken, Token.isIdentifier, hv, pure, Except.pure]

/-! ## Python `int()` on a decimal string -/

theorem pyDigits_decimal (ds : List Nat) (h : ds.all isDecimal = true) (b : Bool) (hb : ds = [] → b = true) :
    pyDigits ds b = some ds := by
  induction ds generalizing b with
  | nil => simp [pyDigits, hb rfl]
  | cons d r ih =>
    simp only [List.all_cons, Bool.and_eq_true] at h
    simp only [pyDigits, h.1, if_true, ih h.2 true (fun _ => rfl), Option.map_some]

theorem dropWhile_head_false {α} (p : α → Bool) (a : α) (l : List α) (h : p a = false) : (a :: l).dropWhile p = a :: l := by
  simp [List.dropWhile, h]

theorem decimal_not_space (d : Nat) (h : isDecimal d = true) : isPySpace d = false := by
  simp only [isDecimal, decide_eq_true_eq] at h
  simp [isPySpace]; omega

theorem stripSpaces_decimal (ds : List Nat) (h : ds.all isDecimal = true) : stripSpaces ds = ds := by
  unfold stripSpaces
  cases ds with
  | nil => rfl
  | cons d r =>
    have hd : isPySpace d = false := decimal_not_space d (by simpa using (List.all_eq_true.mp h) d (by simp))
    rw [dropWhile_head_false _ _ _ hd]
    have hl : ∀ x ∈ (d :: r).reverse.head?, isPySpace x = false := by
      intro x hx
      have : x ∈ (d :: r).reverse := List.mem_of_mem_head? hx
      exact decimal_not_space x ((List.all_eq_true.mp h) x (by simp at this; simp; exact this.symm))
    cases hr : (d :: r).reverse with
    | nil => simp at hr
    | cons x xs =>
      rw [hr] at hl
      rw [dropWhile_head_false _ _ _ (hl x (by simp)), ← hr, List.reverse_reverse]

theorem pyInt_decimal (d : Nat) (r : List Nat) (h : (d :: r).all isDecimal = true) :
    pyInt (d :: r) = some ((digitsVal (d :: r) 0 : Nat) : Int) := by
  have hdd : isDecimal d = true := (List.all_eq_true.mp h) d (by simp)
  have h45 : d ≠ 45 := by simp [isDecimal] at hdd; omega
  have h43 : d ≠ 43 := by simp [isDecimal] at hdd; omega
  have hs : signSplit (d :: r) = (false, d :: r) := by
    unfold signSplit
    split
    · rename_i h2; simp at h2; exact absurd h2.1 h45
    · rename_i h2; simp at h2; exact absurd h2.1 h43
    · rfl
  unfold pyInt
  rw [stripSpaces_decimal _ h]
  simp [hs, hdd, pyDigits_decimal _ h false (by simp)]

theorem pyInt_natToDec (n : Nat) : pyInt (natToDec n) = some (n : Int) := by
  have hall := natToDec_all n
  have hne := natToDec_ne_nil n
  have hv := digitsVal_natToDec n
  cases hd : natToDec n with
  | nil => exact absurd hd hne
  | cons d r =>
    rw [hd] at hall hv
    rw [pyInt_decimal d r hall, hv]

theorem getUint_of_get (bound : Nat) (s s1 : TState) (n : Nat) (hg : s.get = .ok (identToken (natToDec n), s1))
    (hn : n ≤ bound) : s.getUint bound = .ok (n, s1) := by
  have he : hasEsc (natToDec n) = false := by
    have := natToDec_all n
    simp only [hasEsc, List.contains_eq_mem, decide_eq_false_iff_not]
    intro hm
    have := (List.all_eq_true.mp this) 92 hm
    simp [isDecimal] at this
  simp only [TState.getUint, bind, Except.bind, hg, unescape_noesc _ he]
  have h1 : ¬ bound < n := by omega
  have h2 : ¬ ((n : Int) < 0) := by omega
  simp [Token.asUint, Token.asInt, identToken, Token.isIdentifier, pyInt_natToDec, h1, h2, pure, Except.pure]

/-! ## the frame of `dns.rdata.from_text` for a known type written in its own syntax -/

theorem rdataFromText_typed (ty : Nat) (s s1 s2 s3 : TState) (t1 tk : Token) (rd : Rdata) (co : Option Name) (rel : Bool)
    (zo : Option Name) (gfix : Bool)
    (hgen : isGenericType ty = false) (hmod : isModelledType ty = true)
    (hget : s.get = .ok (t1, s1)) (hnot : ¬ (t1.isIdentifier = true ∧ t1.value = [92, 35]))
    (htyped : rdataFromTextTyped ty { s1 with ungotten := some t1 } co rel zo = .ok (rd, s2))
    (heol : s2.getEol = .ok (tk, s3)) :
    rdataFromText ty s co rel zo gfix = .ok (rd, tk.comment, s3) := by
  have hu := get_ungotten_none s s1 t1 false false hget
  unfold rdataFromText
  simp only [hgen, hmod, Bool.false_eq_true, if_false, Bool.not_true, bind, Except.bind, liftT, hget, unget_ok s1 t1 hu,
    hnot, htyped, heol]
  simp [wrapSyntax, pure, Except.pure]

theorem get_field (b w T : List Nat) (hb : Blank b) (hw : identOK w = true) (hne : w ≠ []) (hT : startsDelim T) :
    (after 0 false (b ++ (w ++ T))).get = .ok (identToken w, after 0 false T) := by
  have := get_blank_word b (.ident w) T hb (by simp [Word.ok, hw, hne]) hT
  simpa [Word.text, Word.token, Word.isQuoted, identToken] using this

theorem get_ungot_ident (s : TState) (w : List Nat) (h : s.ungotten = none) :
    ({ s with ungotten := some (identToken w) } : TState).get = .ok (identToken w, s) :=
  get_ungot s (identToken w) h (by simp [identToken]) (by simp [identToken])

theorem eolToken_comment (kc : Option (List Nat)) : (eolToken kc).comment = kc := rfl

theorem not_generic_marker (w : List Nat) (h : w ≠ [92, 35]) :
    ¬ ((identToken w).isIdentifier = true ∧ (identToken w).value = [92, 35]) := by
  simp [identToken, h]

/-- A -/
theorem rdataReads_A_gen (b w addr : List Nat) (kc : Option (List Nat)) (co : Option Name) (rel : Bool) (zo : Option Name)
    (gfix : Bool) (hb : Blank b) (hbn : b ≠ []) (hkc : ∀ t ∈ kc, 10 ∉ t)
    (hw : identOK w = true) (hne : w ≠ []) (hnot : w ≠ [92, 35]) (hesc : hasEsc w = false)
    (hval : inetAton (w.flatMap utf8) = some addr) :
    RdataReads tA (b ++ (w ++ lineEnd kc)) (.a addr) kc co rel zo gfix := by
  refine ⟨blank_startsDelim _ _ hb hbn, ?_⟩
  intro rest
  have e : (b ++ (w ++ lineEnd kc)) ++ rest = b ++ (w ++ (lineEnd kc ++ rest)) := by simp
  rw [e]
  have hg := get_field b w (lineEnd kc ++ rest) hb hw hne (lineEnd_startsDelim kc rest)
  have := rdataFromText_typed tA _ _ (after 0 false (lineEnd kc ++ rest)) (after 0 false rest) _ (eolToken kc) (.a addr)
    co rel zo gfix (by decide) (by decide) hg (not_generic_marker w hnot)
    (by
      unfold rdataFromTextTyped
      simp only [if_true, bind, Except.bind, liftT,
        getIdentifier_of_get _ _ w (get_ungot_ident (after 0 false (lineEnd kc ++ rest)) w rfl) hesc, hval, pure, Except.pure])
    (getEol_lineEnd kc hkc false rest)
  simpa [eolToken_comment] using this

/-- NS / CNAME / PTR: one name -/
theorem rdataReads_name1 (ty : Nat) (hty : isName1Type ty = true) (b w : List Nat) (t : Name) (kc : Option (List Nat))
    (co : Option Name) (rel : Bool) (zo : Option Name) (gfix : Bool)
    (hb : Blank b) (hbn : b ≠ []) (hkc : ∀ x ∈ kc, 10 ∉ x)
    (hw : identOK w = true) (hne : w ≠ []) (hnot : w ≠ [92, 35])
    (hname : (identToken w).asName co rel zo = .ok t) :
    RdataReads ty (b ++ (w ++ lineEnd kc)) (.name1 t) kc co rel zo gfix := by
  refine ⟨blank_startsDelim _ _ hb hbn, ?_⟩
  intro rest
  have e : (b ++ (w ++ lineEnd kc)) ++ rest = b ++ (w ++ (lineEnd kc ++ rest)) := by simp
  rw [e]
  have hg := get_field b w (lineEnd kc ++ rest) hb hw hne (lineEnd_startsDelim kc rest)
  have hcases : ty = 2 ∨ ty = 5 ∨ ty = 12 := by
    have := hty
    simp only [isName1Type, tNS, tCNAME, tPTR] at this
    exact of_decide_eq_true this
  have hgen : isGenericType ty = false := by
    rcases hcases with h | h | h <;> subst h <;> decide
  have hmod : isModelledType ty = true := by simp [isModelledType, hty]
  have hA : ty ≠ tA := by
    rcases hcases with h | h | h <;> subst h <;> decide
  have := rdataFromText_typed ty _ _ (after 0 false (lineEnd kc ++ rest)) (after 0 false rest) _ (eolToken kc) (.name1 t)
    co rel zo gfix hgen hmod hg (not_generic_marker w hnot)
    (by
      unfold rdataFromTextTyped
      simp only [hA, if_false, hty, if_true, bind, Except.bind, liftT,
        getName_of_get _ _ w co rel zo t (get_ungot_ident (after 0 false (lineEnd kc ++ rest)) w rfl) hname, pure, Except.pure])
    (getEol_lineEnd kc hkc false rest)
  simpa [eolToken_comment] using this

theorem sp_blank : Blank [32] := blank_cons blank_nil

theorem natToDec_not_marker (n : Nat) : natToDec n ≠ [92, 35] := by
  intro h
  have := natToDec_all n
  rw [h] at this
  simp [isDecimal] at this

theorem sp_startsDelim (T : List Nat) : startsDelim (32 :: T) := ⟨32, T, rfl, by decide⟩

/-- MX: preference and exchange -/
theorem rdataReads_MX (b w : List Nat) (p : Nat) (t : Name) (kc : Option (List Nat))
    (co : Option Name) (rel : Bool) (zo : Option Name) (gfix : Bool)
    (hb : Blank b) (hbn : b ≠ []) (hkc : ∀ x ∈ kc, 10 ∉ x) (hp : p ≤ 65535)
    (hw : identOK w = true) (hne : w ≠ [])
    (hname : (identToken w).asName co rel zo = .ok t) :
    RdataReads tMX (b ++ (natToDec p ++ (32 :: (w ++ lineEnd kc)))) (.mx p t) kc co rel zo gfix := by
  refine ⟨blank_startsDelim _ _ hb hbn, ?_⟩
  intro rest
  have e : (b ++ (natToDec p ++ (32 :: (w ++ lineEnd kc)))) ++ rest =
      b ++ (natToDec p ++ (32 :: (w ++ (lineEnd kc ++ rest)))) := by simp
  rw [e]
  obtain ⟨d1, d2⟩ := natToDec_token p
  have hg := get_field b (natToDec p) (32 :: (w ++ (lineEnd kc ++ rest))) hb d1 d2 (sp_startsDelim _)
  have hg2 : (after 0 false (32 :: (w ++ (lineEnd kc ++ rest)))).get = .ok (identToken w, after 0 false (lineEnd kc ++ rest)) :=
    get_field [32] w _ sp_blank hw hne (lineEnd_startsDelim kc rest)
  have := rdataFromText_typed tMX _ _ (after 0 false (lineEnd kc ++ rest)) (after 0 false rest) _ (eolToken kc) (.mx p t)
    co rel zo gfix (by decide) (by decide) hg (not_generic_marker _ (natToDec_not_marker p))
    (by
      unfold rdataFromTextTyped
      have h1 : tMX ≠ tA := by decide
      have h2 : isName1Type tMX = false := by decide
      simp only [h1, h2, if_false, if_true, Bool.false_eq_true, bind, Except.bind, liftT,
        getUint_of_get 65535 _ _ p (get_ungot_ident (after 0 false (32 :: (w ++ (lineEnd kc ++ rest)))) _ rfl) hp,
        getName_of_get _ _ w co rel zo t hg2 hname, pure, Except.pure])
    (getEol_lineEnd kc hkc false rest)
  simpa [eolToken_comment] using this

/-- the RDATA text of an SOA: two names, the serial and the four timers, separated by single blanks -/
def soaText (mt rt : List Nat) (se rf rtv ex mi : Nat) (tail : List Nat) : List Nat :=
  mt ++ (32 :: (rt ++ (32 :: (natToDec se ++ (32 :: (natToDec rf ++ (32 :: (natToDec rtv ++ (32 :: (natToDec ex ++
    (32 :: (natToDec mi ++ tail))))))))))))

theorem soaText_join (mt rt : List Nat) (se rf rtv ex mi : Nat) :
    joinWith [32] [mt, rt, natToDec se, natToDec rf, natToDec rtv, natToDec ex, natToDec mi] = soaText mt rt se rf rtv ex mi [] := by
  simp [joinWith, soaText, List.append_assoc]

/-- SOA -/
theorem rdataReads_SOA (b mt rt : List Nat) (m r : Name) (se rf rtv ex mi : Nat) (kc : Option (List Nat))
    (co : Option Name) (rel : Bool) (zo : Option Name) (gfix : Bool)
    (hb : Blank b) (hbn : b ≠ []) (hkc : ∀ x ∈ kc, 10 ∉ x)
    (hm : identOK mt = true) (hmn : mt ≠ []) (hmk : mt ≠ [92, 35]) (hr : identOK rt = true) (hrn : rt ≠ [])
    (hmname : (identToken mt).asName co rel zo = .ok m) (hrname : (identToken rt).asName co rel zo = .ok r)
    (hse : se ≤ 4294967295) (hrf : rf ≤ Consts.maxTTL) (hrt : rtv ≤ Consts.maxTTL) (hex : ex ≤ Consts.maxTTL)
    (hmi : mi ≤ Consts.maxTTL) :
    RdataReads tSOA (b ++ soaText mt rt se rf rtv ex mi (lineEnd kc)) (.soa m r se rf rtv ex mi) kc co rel zo gfix := by
  refine ⟨blank_startsDelim _ _ hb hbn, ?_⟩
  intro rest
  have e : (b ++ soaText mt rt se rf rtv ex mi (lineEnd kc)) ++ rest = b ++ soaText mt rt se rf rtv ex mi (lineEnd kc ++ rest) := by
    simp [soaText, List.append_assoc]
  rw [e]
  unfold soaText
  have tok := fun n => natToDec_token n
  have hg := get_field b mt (32 :: (rt ++ (32 :: (natToDec se ++ (32 :: (natToDec rf ++ (32 :: (natToDec rtv ++ (32 :: (natToDec ex ++ (32 :: (natToDec mi ++ (lineEnd kc ++ rest))))))))))))) hb hm hmn (sp_startsDelim _)
  have g2 : (after 0 false (32 :: (rt ++ (32 :: (natToDec se ++ (32 :: (natToDec rf ++ (32 :: (natToDec rtv ++ (32 :: (natToDec ex ++ (32 :: (natToDec mi ++ (lineEnd kc ++ rest)))))))))))))).get = .ok (identToken (rt), after 0 false (32 :: (natToDec se ++ (32 :: (natToDec rf ++ (32 :: (natToDec rtv ++ (32 :: (natToDec ex ++ (32 :: (natToDec mi ++ (lineEnd kc ++ rest)))))))))))) :=
    get_field [32] (rt) (32 :: (natToDec se ++ (32 :: (natToDec rf ++ (32 :: (natToDec rtv ++ (32 :: (natToDec ex ++ (32 :: (natToDec mi ++ (lineEnd kc ++ rest))))))))))) sp_blank hr hrn (sp_startsDelim _)
  have g3 : (after 0 false (32 :: (natToDec se ++ (32 :: (natToDec rf ++ (32 :: (natToDec rtv ++ (32 :: (natToDec ex ++ (32 :: (natToDec mi ++ (lineEnd kc ++ rest)))))))))))).get = .ok (identToken (natToDec se), after 0 false (32 :: (natToDec rf ++ (32 :: (natToDec rtv ++ (32 :: (natToDec ex ++ (32 :: (natToDec mi ++ (lineEnd kc ++ rest)))))))))) :=
    get_field [32] (natToDec se) (32 :: (natToDec rf ++ (32 :: (natToDec rtv ++ (32 :: (natToDec ex ++ (32 :: (natToDec mi ++ (lineEnd kc ++ rest))))))))) sp_blank (tok se).1 (tok se).2 (sp_startsDelim _)
  have g4 : (after 0 false (32 :: (natToDec rf ++ (32 :: (natToDec rtv ++ (32 :: (natToDec ex ++ (32 :: (natToDec mi ++ (lineEnd kc ++ rest)))))))))).get = .ok (identToken (natToDec rf), after 0 false (32 :: (natToDec rtv ++ (32 :: (natToDec ex ++ (32 :: (natToDec mi ++ (lineEnd kc ++ rest)))))))) :=
    get_field [32] (natToDec rf) (32 :: (natToDec rtv ++ (32 :: (natToDec ex ++ (32 :: (natToDec mi ++ (lineEnd kc ++ rest))))))) sp_blank (tok rf).1 (tok rf).2 (sp_startsDelim _)
  have g5 : (after 0 false (32 :: (natToDec rtv ++ (32 :: (natToDec ex ++ (32 :: (natToDec mi ++ (lineEnd kc ++ rest)))))))).get = .ok (identToken (natToDec rtv), after 0 false (32 :: (natToDec ex ++ (32 :: (natToDec mi ++ (lineEnd kc ++ rest)))))) :=
    get_field [32] (natToDec rtv) (32 :: (natToDec ex ++ (32 :: (natToDec mi ++ (lineEnd kc ++ rest))))) sp_blank (tok rtv).1 (tok rtv).2 (sp_startsDelim _)
  have g6 : (after 0 false (32 :: (natToDec ex ++ (32 :: (natToDec mi ++ (lineEnd kc ++ rest)))))).get = .ok (identToken (natToDec ex), after 0 false (32 :: (natToDec mi ++ (lineEnd kc ++ rest)))) :=
    get_field [32] (natToDec ex) (32 :: (natToDec mi ++ (lineEnd kc ++ rest))) sp_blank (tok ex).1 (tok ex).2 (sp_startsDelim _)
  have g7 : (after 0 false (32 :: (natToDec mi ++ (lineEnd kc ++ rest)))).get = .ok (identToken (natToDec mi), after 0 false (lineEnd kc ++ rest)) :=
    get_field [32] (natToDec mi) (lineEnd kc ++ rest) sp_blank (tok mi).1 (tok mi).2 (lineEnd_startsDelim kc rest)
  have := rdataFromText_typed tSOA _ _ (after 0 false (lineEnd kc ++ rest)) (after 0 false rest) _ (eolToken kc)
    (.soa m r se rf rtv ex mi) co rel zo gfix (by decide) (by decide) hg (not_generic_marker mt hmk)
    (by
      unfold rdataFromTextTyped
      have h1 : tSOA ≠ tA := by decide
      have h2 : isName1Type tSOA = false := by decide
      have h3 : tSOA ≠ tMX := by decide
      have h4 : tSOA ≠ tTXT := by decide
      simp only [h1, h2, h3, h4, if_false, if_true, Bool.false_eq_true, bind, Except.bind, liftT,
        getName_of_get _ _ mt co rel zo m (get_ungot_ident (after 0 false _) mt rfl) hmname,
        getName_of_get _ _ rt co rel zo r g2 hrname,
        getUint_of_get 4294967295 _ _ se g3 hse,
        getTTL_of_get _ _ rf g4 hrf, getTTL_of_get _ _ rtv g5 hrt, getTTL_of_get _ _ ex g6 hex,
        getTTL_of_get _ _ mi g7 hmi, pure, Except.pure])
    (getEol_lineEnd kc hkc false rest)
  simpa [eolToken_comment] using this

end Model

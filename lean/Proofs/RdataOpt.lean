import Model.RdataSchema
import Model.RdataIrregular
import Model.RdataTable
import Proofs.RdataBytes
import Proofs.RdataCodec
import Proofs.RdataSound
import Proofs.RdataLoc
import Proofs.RdataApl
/-! OPT (C02): the object-level view of the EDNS options (`optPost`: ECS address masked to the source prefix
length, EDE text without trailing NULs) is a fixed point of itself and stays valid. -/
namespace Model

/-! ## UTF-8: dropping trailing NULs keeps a string well formed -/

theorem isCont_zero : isCont 0 = false := by decide

/-- a well-formed string followed by NUL: the part before the NUL is well formed -/
theorem utf8Ok_before_nul : ∀ (n : Nat) (s zs : Bytes), s.length ≤ n → utf8Ok (s ++ 0 :: zs) = true → utf8Ok s = true := by
  intro n
  induction n with
  | zero =>
    intro s zs hl _
    have : s = [] := List.length_eq_zero_iff.mp (by omega)
    subst this; simp [utf8Ok]
  | succ n ih =>
    intro s zs hl h
    match s, hl, h with
    | [], _, _ => simp [utf8Ok]
    | a :: tl, hl, h =>
      simp only [List.cons_append] at h
      unfold utf8Ok at h ⊢
      simp only [List.length_cons] at hl
      by_cases h1 : a ≤ 0x7F
      · simp only [h1, if_true] at h ⊢
        exact ih tl zs (by omega) h
      · simp only [h1, if_false] at h ⊢
        by_cases h2 : (0xC2 ≤ a && a ≤ 0xDF) = true
        · simp only [h2, if_true] at h ⊢
          match tl, hl, h with
          | [], _, h => simp [isCont_zero] at h
          | b :: r, hl, h =>
            simp only [List.cons_append, Bool.and_eq_true] at h ⊢
            simp only [List.length_cons] at hl
            exact ⟨h.1, ih r zs (by omega) h.2⟩
        · simp only [h2, Bool.false_eq_true, if_false] at h ⊢
          by_cases h3 : (0xE0 ≤ a && a ≤ 0xEF) = true
          · simp only [h3, if_true] at h ⊢
            match tl, hl, h with
            | [], _, h =>
              simp only [List.nil_append] at h
              cases zs with
              | nil => simp at h
              | cons z zs' =>
                simp only [Bool.and_eq_true] at h
                have := h.1.1
                split at this <;> simp [isCont] at this
            | [b], _, h =>
              simp [isCont_zero] at h
            | b :: c :: r, hl, h =>
              simp only [List.cons_append, Bool.and_eq_true] at h ⊢
              simp only [List.length_cons] at hl
              exact ⟨⟨h.1.1, h.1.2⟩, ih r zs (by omega) h.2⟩
          · simp only [h3, Bool.false_eq_true, if_false] at h ⊢
            by_cases h4 : (0xF0 ≤ a && a ≤ 0xF4) = true
            · simp only [h4, if_true] at h ⊢
              match tl, hl, h with
              | [], _, h =>
                simp only [List.nil_append] at h
                match zs, h with
                | [], h => simp at h
                | [_], h => simp at h
                | z :: z' :: zs', h =>
                  simp only [Bool.and_eq_true] at h
                  have := h.1.1.1
                  split at this <;> simp [isCont] at this
              | [b], _, h =>
                simp only [List.cons_append, List.nil_append] at h
                cases zs with
                | nil => simp at h
                | cons z zs' => simp [isCont_zero] at h
              | [b, c], _, h => simp [isCont_zero] at h
              | b :: c :: d :: r, hl, h =>
                simp only [List.cons_append, Bool.and_eq_true] at h ⊢
                simp only [List.length_cons] at hl
                exact ⟨⟨⟨h.1.1.1, h.1.1.2⟩, h.1.2⟩, ih r zs (by omega) h.2⟩
            · simp [h4] at h

theorem utf8Ok_replicate_zero (s : Bytes) : ∀ k, utf8Ok (s ++ List.replicate k 0) = true → utf8Ok s = true := by
  intro k
  induction k generalizing s with
  | zero => intro h; simpa using h
  | succ k ih =>
    intro h
    rw [List.replicate_succ] at h
    exact utf8Ok_before_nul s.length s _ (Nat.le_refl _) h

theorem utf8Ok_strip (b : Bytes) (h : utf8Ok b = true) : utf8Ok (stripNulAll b) = true := by
  obtain ⟨k, hk⟩ := strip_decomp b
  rw [hk] at h
  exact utf8Ok_replicate_zero _ k h

/-! ## ECS mask -/

theorem ecsMask_of_zero (src : Nat) (b : Bytes) (h : src % 8 = 0) : ecsMask src b = b := by
  simp [ecsMask, h]

theorem ecsMask_nil (src : Nat) : ecsMask src [] = [] := by
  unfold ecsMask; split <;> simp

theorem ecsMask_snoc (src : Nat) (init : Bytes) (last : Nat) (h : src % 8 ≠ 0) :
    ecsMask src (init ++ [last]) = init ++ [last / 2 ^ (8 - src % 8) * 2 ^ (8 - src % 8)] := by
  simp [ecsMask, h]

theorem snoc_cases (b : Bytes) : b = [] ∨ ∃ init last, b = init ++ [last] := by
  cases hb : b.reverse with
  | nil => left; simpa using hb
  | cons x xs =>
    right
    refine ⟨xs.reverse, x, ?_⟩
    have := congrArg List.reverse hb
    simpa using this

theorem ecsMask_length (src : Nat) (b : Bytes) : (ecsMask src b).length = b.length := by
  by_cases h : src % 8 = 0
  · rw [ecsMask_of_zero _ _ h]
  · rcases snoc_cases b with rfl | ⟨init, last, rfl⟩
    · rw [ecsMask_nil]
    · rw [ecsMask_snoc _ _ _ h]; simp

theorem ecsMask_idem (src : Nat) (b : Bytes) : ecsMask src (ecsMask src b) = ecsMask src b := by
  by_cases h : src % 8 = 0
  · rw [ecsMask_of_zero _ _ h, ecsMask_of_zero _ _ h]
  · rcases snoc_cases b with rfl | ⟨init, last, rfl⟩
    · rw [ecsMask_nil, ecsMask_nil]
    · rw [ecsMask_snoc _ _ _ h, ecsMask_snoc _ _ _ h]
      have hpos : 0 < 2 ^ (8 - src % 8) := Nat.pow_pos (by omega)
      rw [Nat.mul_div_cancel _ hpos]

theorem ecsOk_hdr (h : Val) (a b : Bytes) : ecsOk (.pair h (.bytes a)) = ecsOk (.pair h (.bytes b)) := rfl

/-! ## one option -/

theorem optSel_lt (v : Val) : optSel v < 7 := by
  unfold optSel
  simp only []
  split
  · omega
  split
  · omega
  split
  · omega
  split
  · omega
  split
  · omega
  split
  · omega
  omega

def optItemSchema : Schema := .bind u16 optSel 7 (fun i => .sub 2 (optBody i))

theorem optSchema_eq : optSchema = .rep optItemSchema := rfl

theorem opt_item_shape (o : Option Name) (it : Val) (h : valid optItemSchema o it = true) :
    ∃ t body, it = .pair (.nat t) body ∧ t < 65536 ∧
      valid (optBody (optSel (.nat t))) o body = true ∧ (enc (optBody (optSel (.nat t))) o body).length < 65536 := by
  simp only [optItemSchema, valid, validWith] at h
  cases it <;> simp [validWith] at h
  rename_i x y
  obtain ⟨⟨h1, h2⟩, h3⟩ := h
  obtain ⟨t, rfl, ht⟩ := valid_uint h1
  refine ⟨t, y, rfl, by simpa using ht, ?_, ?_⟩
  · simpa [valid] using h3.1
  · simpa using h3.2

theorem opt_item_valid (o : Option Name) (t : Nat) (body : Val) (ht : t < 65536)
    (hv : valid (optBody (optSel (.nat t))) o body = true)
    (hl : (enc (optBody (optSel (.nat t))) o body).length < 65536) :
    valid optItemSchema o (.pair (.nat t) body) = true := by
  have hsel : optSel (.nat t) < 7 := optSel_lt _
  simp only [optItemSchema, valid, validWith, Bool.and_eq_true, decide_eq_true_eq]
  simp only [valid] at hv
  exact ⟨⟨by simpa [u16] using ht, hsel⟩, hv, by simpa using hl⟩

/-- the object-level view of a valid option is a valid option, and it is its own view -/
theorem opt_item_fix (o : Option Name) (it : Val) (h : valid optItemSchema o it = true) :
    valid optItemSchema o (optItemPost it) = true ∧ optItemPost (optItemPost it) = optItemPost it := by
  obtain ⟨t, body, rfl, ht, hv, hl⟩ := opt_item_shape o it h
  by_cases h8 : t = 8
  · subst h8
    have hs : optSel (.nat 8) = 0 := by simp [optSel, Val.toNat]
    rw [hs] at hv hl
    simp only [optBody, ecsSchema, Schema.seq, valid, validWith, Bool.and_eq_true] at hv
    obtain ⟨hb, hok⟩ := hv
    cases body <;> simp [validWith] at hb
    rename_i hdr addr
    obtain ⟨⟨hh, hsl⟩, ha⟩ := hb
    obtain ⟨fam, r1, rfl, hf, hh⟩ := valid_pair_uint hh
    obtain ⟨src, r2, rfl, hsrc, hh⟩ := valid_pair_uint hh
    obtain ⟨scope, rfl, hsc⟩ := valid_uint hh
    simp only [Val.snd, Val.fst, Val.toNat] at hsl ha
    cases addr <;> simp [validWith] at ha
    rename_i ab
    have post_eq : optItemPost (.pair (.nat 8) (.pair (.pair (.nat fam) (.pair (.nat src) (.nat scope))) (.bytes ab)))
        = .pair (.nat 8) (.pair (.pair (.nat fam) (.pair (.nat src) (.nat scope))) (.bytes (ecsMask src ab))) := by
      simp [optItemPost, optItemPostWith, Val.fst, Val.snd, Val.toNat, Val.toBytes]
    rw [post_eq]
    constructor
    · apply opt_item_valid o 8 _ (by omega)
      · rw [hs]
        simp only [optBody, ecsSchema, Schema.seq, valid, validWith, Bool.and_eq_true, decide_eq_true_eq,
          Val.snd, Val.fst, Val.toNat, ecsMask_length]
        refine ⟨⟨⟨⟨by simpa using hf, by simpa using hsrc, by simpa using hsc⟩, hsl⟩, ha⟩, ?_⟩
        rw [ecsOk_hdr _ _ ab]; exact hok
      · rw [hs]
        simp only [optBody, ecsSchema, Schema.seq, enc, List.length_append, ecsMask_length, Val.snd, Val.fst, Val.toNat] at hl ⊢
        exact hl
    · simp [optItemPost, optItemPostWith, Val.fst, Val.snd, Val.toNat, Val.toBytes, ecsMask_idem]
  · by_cases h15 : t = 15
    · subst h15
      have hs : optSel (.nat 15) = 1 := by simp [optSel, Val.toNat]
      rw [hs] at hv hl
      simp only [optBody, valid, validWith, Bool.and_eq_true] at hv
      cases body <;> simp [validWith] at hv
      rename_i cv tv
      obtain ⟨hc, htv⟩ := hv
      obtain ⟨code, rfl, hcode⟩ := valid_uint hc
      cases tv <;> simp [validWith] at htv
      rename_i txt
      simp only [Val.toBytes] at htv
      have post_eq : optItemPost (.pair (.nat 15) (.pair (.nat code) (.bytes txt)))
          = .pair (.nat 15) (.pair (.nat code) (.bytes (stripNulAll txt))) := by
        simp [optItemPost, optItemPostWith, Val.fst, Val.snd, Val.toNat, Val.toBytes]
      rw [post_eq]
      constructor
      · apply opt_item_valid o 15 _ (by omega)
        · rw [hs]
          simp only [optBody, valid, validWith, Bool.and_eq_true, decide_eq_true_eq, Val.toBytes]
          exact ⟨by simpa using hcode, trivial, utf8Ok_strip txt htv⟩
        · rw [hs]
          simp only [optBody, enc, List.length_append] at hl ⊢
          have := strip_length_le txt
          simp only [stripNulAll]; omega
      · simp [optItemPost, optItemPostWith, Val.fst, Val.snd, Val.toNat, Val.toBytes, stripNulAll, strip_idem]
    · have post_eq : optItemPost (.pair (.nat t) body) = .pair (.nat t) body := by
        simp [optItemPost, optItemPostWith, Val.fst, Val.toNat, h8, h15]
      rw [post_eq, post_eq]
      exact ⟨opt_item_valid o t body ht hv hl, rfl⟩

/-- the object-level view of a valid raw OPT record is a valid raw record and its own view -/
theorem opt_post_post (o : Option Name) (r w : Val) (h : valid optSchema o r = true) (hw : optPost r = some w) :
    valid optSchema o w = true ∧ optPost w = some w := by
  rw [optSchema_eq] at h ⊢
  cases r <;> simp [valid, validWith] at h
  rename_i rs
  simp only [optPost, Val.toList, Option.some.injEq] at hw
  subst hw
  constructor
  · simp only [valid, validWith, List.all_eq_true, List.mem_map]
    rintro x ⟨y, hy, rfl⟩
    have := (opt_item_fix o y (by simpa [valid] using h y hy)).1
    simpa [valid] using this
  · simp only [optPost, Val.toList, List.map_map, Option.some.injEq, Val.list.injEq]
    apply List.map_congr_left
    intro y hy
    exact (opt_item_fix o y (by simpa [valid] using h y hy)).2

end Model

import Model.ZoneFile
import Proofs.ZoneFileLine
/-!
An instance of the RDATA interface (`RdataReads`): the address of an A record, written as one identifier
without escapes after a blank, is read back by `dns.rdata.from_text` and the line is consumed.
-/
namespace Model

theorem get_eol_after (rest : List Nat) :
    (after 0 false (10 :: rest)).get = .ok ({ ttype := .eol, value := [10] }, after 0 false rest) := by
  rw [get_after, runSkip_eol]
  simp [liftOut, after]

theorem getIdentifier_ungotten (d : Nat) (pq : Bool) (T w : List Nat) (hesc : hasEsc w = false) :
    ({ after d pq T with ungotten := some (identToken w) } : TState).getIdentifier = .ok (w, after d pq T) := by
  have hgu : ({ after d pq T with ungotten := some (identToken w) } : TState).get =
      .ok (identToken w, after d pq T) := by
    simp [TState.get, identToken, after]
  have hun : (identToken w).unescape = .ok (identToken w) := by
    simp [Token.unescape, identToken, hesc]
  simp only [TState.getIdentifier, bind, Except.bind, hgu, hun]
  simp [identToken, Token.isIdentifier, pure, Except.pure]

theorem typedA_ungotten (rest w addr : List Nat) (co : Option Name) (rel : Bool) (zo : Option Name)
    (hesc : hasEsc w = false) (hval : inetAton (w.flatMap utf8) = some addr) :
    rdataFromTextTyped tA { after 0 false (10 :: rest) with ungotten := some (identToken w) } co rel zo =
      .ok (.a addr, after 0 false (10 :: rest)) := by
  unfold rdataFromTextTyped
  simp only [if_true, bind, Except.bind, liftT, getIdentifier_ungotten 0 false (10 :: rest) w hesc, hval, pure,
    Except.pure]

theorem rdataReads_A (w addr : List Nat) (co : Option Name) (rel : Bool) (zo : Option Name) (gfix : Bool)
    (hw : identOK w = true) (hne : w ≠ []) (hnot : w ≠ [92, 35]) (hesc : hasEsc w = false)
    (hval : inetAton (w.flatMap utf8) = some addr) :
    RdataReads tA (32 :: (w ++ [10])) (.a addr) none co rel zo gfix := by
  refine ⟨⟨32, _, rfl, by decide⟩, ?_⟩
  intro rest
  have hg : (after 0 false (32 :: (w ++ 10 :: rest))).get = .ok (identToken w, after 0 false (10 :: rest)) := by
    have := get_word [SepItem.sp] (.ident w) (10 :: rest) 0 0 false rfl (by simp [Word.ok, hw, hne]) ⟨10, rest, rfl, by decide⟩
    simpa [renderSep, SepItem.render, Word.text, Word.token, Word.isQuoted, identToken] using this
  have hgen : isGenericType tA = false := by decide
  have hmod : isModelledType tA = true := by decide
  have hin : ¬ ((identToken w).isIdentifier = true ∧ (identToken w).value = [92, 35]) := by
    simp [identToken, hnot]
  unfold rdataFromText
  simp only [hgen, hmod, Bool.false_eq_true, if_false, Bool.not_true, bind, Except.bind, liftT]
  have e : (32 :: (w ++ [10])) ++ rest = 32 :: (w ++ 10 :: rest) := by simp
  rw [e, hg]
  simp only [unget_after, hin, if_false, typedA_ungotten rest w addr co rel zo hesc hval]
  simp only [TState.getEol, bind, Except.bind, get_eol_after, Token.isEolOrEof]
  simp [wrapSyntax, pure, Except.pure]

end Model

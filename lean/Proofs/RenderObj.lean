import Proofs.RenderPad
/-! The `Renderer` object route: `add_opt(opt, pad, opt_size, tsig_size)` then `write_header`, then `add_tsig` /
`add_multi_tsig` (`_write_tsig`). -/
namespace Model

theorem addRRset_wasPadded {s : RState} {sec : Nat} {r : RRset} {s' : RState} (h : s.addRRset sec r = .ok s') :
    s'.wasPadded = s.wasPadded ∧ s.out.length ≤ s'.out.length := by
  unfold RState.addRRset at h
  split at h
  · simp at h
  · rename_i s1 hs1
    obtain ⟨rfl, _⟩ := setSection_ok hs1
    split at h
    · simp at h
    · rename_i o t n hw
      have ha := rrsetToWire_appends hw
      unfold RState.endTrack at h
      split at h
      · simp at h
      · simp at h
        rw [← h]
        exact ⟨rfl, ha.len⟩

/-- padding + TSIG through the Renderer object: when the caller hands `add_opt` the exact sizes (the OPT record with an
empty PADDING option, the TSIG record with an uncompressed owner), the signed message is a multiple of the block —
whatever the compression table holds, in particular when the key name shares a suffix with a rendered name, and
whether or not the unpadded size was already aligned -/
theorem addOpt_writeTsig_multiple (s : RState) (hk : KeysLong s.tbl) (hlen : 12 ≤ s.out.length) (o : EOpt) (t : Tsig)
    (pad a b : Nat) (hpad : pad ≠ 0) (ha : a = 11 + (o.options.map fun p => p.2.length + 4).sum + 4)
    (habs : isAbs t.name = true) (hb : b = (toWire t.name).length + 10 + (tsigRdataWire t).length)
    (s1 s2 : RState) (h1 : s.addOpt o pad a b = .ok s1) (h2 : s1.writeHeader.writeTsig t = .ok s2) :
    s2.out.length % pad = 0 ∧ s2.tbl = s1.tbl := by
  have h1' : stepToExcept (s.addOpt o pad a b) = .ok s1 := by rw [h1]; rfl
  obtain ⟨hmod, hle⟩ := addOpt_pad_length s hk o pad a b hpad s1 ha h1'
  have hwp : s1.wasPadded = true := by
    replace h1 := addOpt_core_of_ok' h1
    unfold RState.addOptCore at h1
    simp only [hpad, ne_eq, not_false_eq_true, if_true] at h1
    exact (addRRset_wasPadded h1).1
  have hwp' : s1.writeHeader.wasPadded = true := hwp
  have hl1 : 12 ≤ s1.out.length := Nat.le_trans hlen hle
  unfold RState.writeTsig at h2
  simp only [hwp', if_true] at h2
  split at h2
  · cases h2
  · cases h2
  · rename_i r hr
    simp only [Step.ok.injEq] at h2
    have hres : (match (some t : Option Tsig) with
      | none => (Except.ok 0 : Except RErr Nat)
      | some t => if isAbs t.name then .ok ((toWire t.name).length + 10 + (tsigRdataWire t).length) else .error .needAbsolute) = .ok b := by
      simp [habs, hb]
    have hrl := addRRset_tsig_length _ t r b rfl hres hr
    have e1 : s1.writeHeader.out.length = s1.out.length := writeHeader_length s1 hl1
    simp only [e1] at hrl
    rw [← h2]
    refine ⟨?_, rfl⟩
    simp only [List.length_append, List.length_take, List.length_drop, u16_length]
    have : min 10 r.out.length + 2 + (r.out.length - 12) = s1.out.length + b := by omega
    rw [this]
    exact hmod

end Model

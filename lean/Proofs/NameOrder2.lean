import Proofs.NameOrder
/-!
Helper lemmas for C06, part 2: order laws of the specification, hash, the reported relation and
common-label count, subdomain/superdomain, parent/split, relativize/derelativize.
-/
namespace Model
namespace NameOrder

/-! ## laws of the specification order -/

theorem canonLt_congr (a a' b b' : Name) (ha : lowerName a = lowerName a') (hb : lowerName b = lowerName b') :
    canonLt a b ↔ canonLt a' b' := by
  have e1 : isAbs a = isAbs a' := by rw [← isAbs_lowerName a, ha, isAbs_lowerName]
  have e2 : isAbs b = isAbs b' := by rw [← isAbs_lowerName b, hb, isAbs_lowerName]
  unfold canonLt revLower
  rw [e1, e2, ha, hb]

theorem canonLt_irrefl (a : Name) : ¬ canonLt a a := by
  unfold canonLt
  rintro (⟨h1, h2⟩ | ⟨_, h⟩)
  · rw [h1] at h2; cases h2
  · exact List.lt_irrefl _ h

theorem canonLt_trans {a b c : Name} (h1 : canonLt a b) (h2 : canonLt b c) : canonLt a c := by
  unfold canonLt at *
  rcases h1 with ⟨ha, hb⟩ | ⟨hab, hlt1⟩ <;> rcases h2 with ⟨hb', hc⟩ | ⟨hbc, hlt2⟩
  · rw [hb] at hb'; cases hb'
  · left; exact ⟨ha, hbc ▸ hb⟩
  · left; exact ⟨hab ▸ hb', hc⟩
  · right; exact ⟨hab.trans hbc, List.lt_trans hlt1 hlt2⟩

theorem canonLt_asymm {a b : Name} (h1 : canonLt a b) : ¬ canonLt b a :=
  fun h2 => canonLt_irrefl a (canonLt_trans h1 h2)

theorem cmpOrder_trichotomy (a b : Name) :
    canonLt a b ∨ lowerName a = lowerName b ∨ canonLt b a := by
  have h : cmpOrder a b < 0 ∨ cmpOrder a b = 0 ∨ cmpOrder a b > 0 := by omega
  rcases h with h | h | h
  · exact Or.inl ((cmpOrder_lt_iff a b).1 h)
  · exact Or.inr (Or.inl ((cmpOrder_eq_iff a b).1 h))
  · exact Or.inr (Or.inr ((cmpOrder_gt_iff a b).1 h))

/-! ## hash -/

def hashLower (n : Name) : Nat := n.foldl (fun h l => l.foldl (fun h c => h + h * 8 + c) h) 0

theorem nameHash_lower (n : Name) : nameHash n = hashLower (lowerName n) := by
  simp [nameHash, hashLower, lowerName, List.foldl_map]

/-! ## common labels and the relation -/

theorem cpl_nil_right (xs : List Label) : commonPrefixLen xs [] = 0 := by
  cases xs <;> simp [commonPrefixLen]

theorem cpl_nil_left (ys : List Label) : commonPrefixLen [] ys = 0 := by
  cases ys <;> simp [commonPrefixLen]

theorem cpl_le (xs ys : List Label) :
    commonPrefixLen xs ys ≤ xs.length ∧ commonPrefixLen xs ys ≤ ys.length := by
  induction xs generalizing ys with
  | nil => simp [cpl_nil_left]
  | cons x xs ih =>
    cases ys with
    | nil => simp [cpl_nil_right]
    | cons y ys =>
      simp only [commonPrefixLen, List.length_cons]
      have := ih ys
      split <;> omega

theorem cpl_comm (xs ys : List Label) : commonPrefixLen xs ys = commonPrefixLen ys xs := by
  induction xs generalizing ys with
  | nil => simp [cpl_nil_left, cpl_nil_right]
  | cons x xs ih =>
    cases ys with
    | nil => simp [cpl_nil_left, cpl_nil_right]
    | cons y ys =>
      simp only [commonPrefixLen]
      by_cases h : lowerLabel x = lowerLabel y
      · simp [h, ih ys]
      · have h' : ¬ lowerLabel y = lowerLabel x := fun e => h e.symm
        simp [h, h']

/-- all labels of `ys` are common exactly when (lower-cased) `ys` is a prefix of `xs` -/
theorem cpl_eq_right_iff (xs ys : List Label) :
    commonPrefixLen xs ys = ys.length ↔ ys.map lowerLabel <+: xs.map lowerLabel := by
  induction xs generalizing ys with
  | nil => cases ys <;> simp [cpl_nil_left]
  | cons x xs ih =>
    cases ys with
    | nil => simp [cpl_nil_right]
    | cons y ys =>
      simp only [commonPrefixLen, List.length_cons, List.map_cons, List.cons_prefix_cons]
      by_cases h : lowerLabel x = lowerLabel y
      · simp [h, ih ys]
      · have h' : ¬ lowerLabel y = lowerLabel x := fun e => h e.symm
        simp [h, h']

theorem relCode_sub (c la lb : Nat) : (relCode c la lb = 2 ∨ relCode c la lb = 3) ↔ c = lb := by
  unfold relCode
  repeat' split
  all_goals omega

theorem relCode_sup (c la lb : Nat) : (relCode c la lb = 1 ∨ relCode c la lb = 3) ↔ c = la := by
  unfold relCode
  repeat' split
  all_goals omega

/-- the relation and the common-label count reported by `fullcompare` are the specified ones -/
theorem fullcompare_reln (a b : Name) :
    (fullcompare a b).1 = relationSpec a b ∧ (fullcompare a b).2.2 = commonLabels a b := by
  by_cases h : isAbs a = isAbs b
  · rw [fullcompare_same a b h]
    unfold relationSpec commonLabels relCode
    simp only [h, if_true]
    cases hl : fcLoop a.reverse b.reverse 0 with
    | some p =>
      obtain ⟨o, j⟩ := p
      obtain ⟨_, _, h3, h4, h5⟩ := fcLoop_some _ _ _ _ _ hl
      simp only [List.length_reverse] at h4 h5
      simp only [h3, Nat.zero_add, and_true]
      repeat' split
      all_goals omega
    | none =>
      have h2 := (fcLoop_none _ _ _ hl).2
      simp only [List.length_reverse] at h2
      simp only [h2, and_true]
      repeat' split
      all_goals omega
  · rw [fullcompare_diff a b h]
    unfold relationSpec commonLabels
    simp only [h, if_false]
    split <;> simp

theorem relationSpec_sub_iff (a b : Name) :
    (relationSpec a b = 2 ∨ relationSpec a b = 3) ↔
      isAbs a = isAbs b ∧ commonPrefixLen a.reverse b.reverse = b.length := by
  unfold relationSpec
  by_cases h : isAbs a = isAbs b
  · simp only [h, if_true, true_and]
    exact relCode_sub _ _ _
  · simp [h]

theorem relationSpec_sup_iff (a b : Name) :
    (relationSpec a b = 1 ∨ relationSpec a b = 3) ↔
      isAbs a = isAbs b ∧ commonPrefixLen a.reverse b.reverse = a.length := by
  unfold relationSpec
  by_cases h : isAbs a = isAbs b
  · simp only [h, if_true, true_and]
    exact relCode_sup _ _ _
  · simp [h]

theorem isSubdomain_iff (a b : Name) :
    isSubdomain a b = true ↔ isAbs a = isAbs b ∧ lowerName b <:+ lowerName a := by
  have h1 : isSubdomain a b = true ↔ (relationSpec a b = 2 ∨ relationSpec a b = 3) := by
    unfold isSubdomain
    rw [(fullcompare_reln a b).1]
    simp
  have h2 := cpl_eq_right_iff a.reverse b.reverse
  simp only [List.length_reverse] at h2
  rw [h1, relationSpec_sub_iff, h2, List.map_reverse, List.map_reverse, List.reverse_prefix]
  rfl

theorem isSuperdomain_iff (a b : Name) : isSuperdomain a b = isSubdomain b a := by
  have h1 : isSuperdomain a b = true ↔ (relationSpec a b = 1 ∨ relationSpec a b = 3) := by
    unfold isSuperdomain
    rw [(fullcompare_reln a b).1]
    simp
  have h2 : isSubdomain b a = true ↔ (relationSpec b a = 2 ∨ relationSpec b a = 3) := by
    unfold isSubdomain
    rw [(fullcompare_reln b a).1]
    simp
  have h3 : isSuperdomain a b = true ↔ isSubdomain b a = true := by
    rw [h1, h2, relationSpec_sup_iff, relationSpec_sub_iff, cpl_comm]
    constructor <;> rintro ⟨x, y⟩ <;> exact ⟨x.symm, y⟩
  cases hA : isSuperdomain a b <;> cases hB : isSubdomain b a <;> simp_all

/-- `fullcompare a b` when `b` is (byte for byte) a suffix of `a` of the same relativity -/
theorem fullcompare_suffix (a b : Name) (h : isAbs a = isAbs b) (hs : b <:+ a) :
    fullcompare a b = (if a.length = b.length then 3 else 2, (a.length : Int) - b.length, b.length) := by
  have hlen : b.length ≤ a.length := hs.length_le
  have hc : commonPrefixLen a.reverse b.reverse = b.length := by
    have := (cpl_eq_right_iff a.reverse b.reverse).2
      (by rw [List.map_reverse, List.map_reverse, List.reverse_prefix]; exact hs.map _)
    simpa using this
  rw [fullcompare_same a b h]
  cases hl : fcLoop a.reverse b.reverse 0 with
  | some p =>
    obtain ⟨o, j⟩ := p
    obtain ⟨_, _, _, _, h5⟩ := fcLoop_some _ _ _ _ _ hl
    simp only [List.length_reverse] at h5
    omega
  | none =>
    simp only
    have e : min a.length b.length = b.length := by omega
    rw [e]
    by_cases c : a.length = b.length
    · rw [if_neg (by omega), if_neg (by omega), if_pos c]
    · rw [if_neg (by omega), if_pos (by omega), if_neg c]

/-! ## validate -/

theorem firstEmpty_none (n : List Label) (j : Nat) (h : ∀ l ∈ n, l ≠ []) : firstEmpty n j = none := by
  induction n generalizing j with
  | nil => rfl
  | cons x xs ih =>
    simp only [firstEmpty]
    rw [if_neg (h x (by simp))]
    exact ih (j + 1) (fun l hl => h l (by simp [hl]))

theorem firstEmpty_some (n : List Label) (j i : Nat) (h : firstEmpty n j = some i) :
    j ≤ i ∧ i - j < n.length ∧ (∀ k, k < i - j → ∀ hk : k < n.length, n[k] ≠ []) ∧
      ∀ hk : i - j < n.length, n[i - j] = [] := by
  induction n generalizing j with
  | nil => simp [firstEmpty] at h
  | cons x xs ih =>
    simp only [firstEmpty] at h
    split at h
    · rename_i hx
      simp only [Option.some.injEq] at h
      subst h
      simp [hx]
    · rename_i hx
      obtain ⟨h1, h2, h3, h4⟩ := ih (j + 1) h
      refine ⟨by omega, by simp only [List.length_cons]; omega, ?_, ?_⟩
      · intro k hk hk'
        cases k with
        | zero => simpa using hx
        | succ k =>
          simp only [List.getElem_cons_succ]
          exact h3 k (by omega) (by simp only [List.length_cons] at hk'; omega)
      · intro hk
        have e : i - j = (i - (j + 1)) + 1 := by omega
        simp only [e, List.getElem_cons_succ]
        exact h4 (by omega)

/-- `Name(labels)` accepts every well-formed label list -/
theorem validate_ok (n : Name) (h : WfName n) : validate n = .ok n := by
  obtain ⟨h1, h2, h3⟩ := h
  unfold validate
  have e1 : (n.any fun l => decide (l.length > Consts.maxLabel)) = false := by
    rw [List.any_eq_false]
    intro l hl
    have := h1 l hl
    simp; omega
  rw [e1]
  simp only [Bool.false_eq_true, if_false]
  rw [if_neg (by omega)]
  cases hf : firstEmpty n 0 with
  | none => rfl
  | some i =>
    obtain ⟨_, g2, _, g4⟩ := firstEmpty_some n 0 i hf
    simp only [Nat.sub_zero] at g2 g4
    simp only
    by_cases hi : i = n.length - 1
    · simp [hi]
    · exfalso
      have hi' : i < n.dropLast.length := by simp only [List.length_dropLast]; omega
      have hm : n.dropLast[i] ∈ n.dropLast := List.getElem_mem hi'
      have := h3 _ hm
      rw [List.getElem_dropLast] at this
      exact this (g4 g2)

/-- whenever `Name(labels)` succeeds, the result has exactly those labels -/
theorem validate_eq (n r : Name) (h : validate n = .ok r) : r = n := by
  unfold validate at h
  split at h
  · cases h
  · split at h
    · cases h
    · split at h
      · split at h
        · cases h
        · simp only [Except.ok.injEq] at h; exact h.symm
      · simp only [Except.ok.injEq] at h; exact h.symm

theorem firstEmpty_none_mem (n : List Label) (j : Nat) (h : firstEmpty n j = none) : ∀ l ∈ n, l ≠ [] := by
  induction n generalizing j with
  | nil => intro l hl; cases hl
  | cons x xs ih =>
    simp only [firstEmpty] at h
    split at h
    · cases h
    · rename_i hx
      intro l hl
      rcases List.mem_cons.1 hl with e | e
      · subst e; exact hx
      · exact ih (j + 1) h l e

/-- `Name(labels)` accepts only well-formed label lists -/
theorem wf_of_validate (n r : Name) (h : validate n = .ok r) : WfName n := by
  unfold validate at h
  split at h
  · cases h
  · rename_i h1
    split at h
    · cases h
    · rename_i h2
      have hw1 : ∀ l ∈ n, l.length ≤ Consts.maxLabel := by
        intro l hl
        have h1' : (n.any fun l => decide (l.length > Consts.maxLabel)) = false := by
          cases hh : (n.any fun l => decide (l.length > Consts.maxLabel))
          · rfl
          · exact absurd hh h1
        rw [List.any_eq_false] at h1'
        have := h1' l hl
        simp at this; omega
      refine ⟨hw1, by omega, ?_⟩
      cases hf : firstEmpty n 0 with
      | none =>
        intro l hl
        exact firstEmpty_none_mem n 0 hf l (List.dropLast_subset _ hl)
      | some i =>
        rw [hf] at h
        simp only at h
        split at h
        · cases h
        · rename_i hi
          have hi' : i = n.length - 1 := Classical.byContradiction fun x => hi x
          obtain ⟨_, _, g3, _⟩ := firstEmpty_some n 0 i hf
          simp only [Nat.sub_zero] at g3
          intro l hl
          obtain ⟨k, hk, rfl⟩ := List.getElem_of_mem hl
          rw [List.getElem_dropLast]
          simp only [List.length_dropLast] at hk
          exact g3 k (by omega) (by omega)

end NameOrder
end Model

import Model.Tsig
import Proofs.NameWire
import Proofs.NameOrder
import Proofs.NameOrder2
/-! The fuel-driven name decoder of the TSIG reader model is C01's `fromWireAux` (given enough fuel, which
`nameFuel` always is), so the reader's name decoding rests on C01's theorems about `Dec`. -/
namespace Model.Tsig
open Model Model.NameOrder

theorem getD_getElem (w : Bytes) (i : Nat) (h : i < w.length) : w.getD i 0 = w[i] := by
  simp [List.getD, List.getElem?_eq_getElem h]

/-- with `bp*(endp+1) + (endp - cur) + 1` steps of fuel the two decoders agree: every label step raises `cur`,
every pointer step lowers `bp` (and resets `cur` below it) -/
theorem nameAt_eq_fromWireAux (w : Bytes) (endp cur bp f : Nat) (acc : List Label) :
    ∀ fuel, bp * (endp + 1) + (endp - cur) + 1 ≤ fuel →
      nameAt w endp fuel cur bp f acc = fromWireAux w endp cur bp f acc := by
  fun_induction fromWireAux w endp cur bp f acc with
  | case1 cur bp f acc h h0 =>
    intro fuel hf
    cases fuel with
    | zero => omega
    | succ fuel =>
      unfold nameAt
      have hg := getD_getElem w cur (by omega)
      simp only [h, and_self, if_true, hg, h0]
  | case2 cur bp f acc h h0 h1 h2 =>
    intro fuel hf
    cases fuel with
    | zero => omega
    | succ fuel =>
      unfold nameAt
      have hg := getD_getElem w cur (by omega)
      simp only [h, and_self, if_true, hg, h0, if_false, h1, h2]
  | case3 cur bp f acc h h0 h1 h2 ih =>
    intro fuel hf
    cases fuel with
    | zero => omega
    | succ fuel =>
      unfold nameAt
      have hg := getD_getElem w cur (by omega)
      simp only [h, and_self, if_true, hg, h0, if_false, h1, h2]
      apply ih
      have : 0 < w[cur] := by omega
      omega
  | case4 cur bp f acc h h0 h1 h2 h3 h4 =>
    intro fuel hf
    cases fuel with
    | zero => omega
    | succ fuel =>
      unfold nameAt
      have hg := getD_getElem w cur (by omega)
      have hg1 := getD_getElem w (cur + 1) (by omega)
      simp only [h, and_self, if_true, hg, hg1, h0, if_false, h1, h2, ge_iff_le, h3, h4]
  | case5 cur bp f acc h h0 h1 h2 h3 h4 ih =>
    intro fuel hf
    cases fuel with
    | zero => omega
    | succ fuel =>
      unfold nameAt
      have hg := getD_getElem w cur (by omega)
      have hg1 := getD_getElem w (cur + 1) (by omega)
      simp only [h, and_self, if_true, hg, hg1, h0, if_false, h1, h2, ge_iff_le, h3, h4]
      apply ih
      have hm : (w[cur] % 64 * 256 + w[cur + 1] + 1) * (endp + 1) ≤ bp * (endp + 1) :=
        Nat.mul_le_mul_right _ (by omega)
      rw [Nat.add_mul] at hm
      omega
  | case6 cur bp f acc h h0 h1 h2 h3 =>
    intro fuel hf
    cases fuel with
    | zero => omega
    | succ fuel =>
      unfold nameAt
      have hg := getD_getElem w cur (by omega)
      simp only [h, and_self, if_true, hg, h0, if_false, h1, h2, ge_iff_le, h3]
  | case7 cur bp f acc h h0 h1 h2 =>
    intro fuel hf
    cases fuel with
    | zero => omega
    | succ fuel =>
      unfold nameAt
      have hg := getD_getElem w cur (by omega)
      simp only [h, and_self, if_true, hg, h0, if_false, h1, h2, ge_iff_le]
  | case8 cur bp f acc h =>
    intro fuel hf
    cases fuel with
    | zero => omega
    | succ fuel =>
      unfold nameAt
      simp [h]

/-- `nameFuel` is always enough -/
theorem nameAt_fuel (w : Bytes) (endp cur f : Nat) (acc : List Label) :
    nameAt w endp (nameFuel w) cur cur f acc = fromWireAux w endp cur cur f acc := by
  by_cases h : cur < endp ∧ endp ≤ w.length
  · apply nameAt_eq_fromWireAux
    unfold nameFuel
    generalize w.length = L at *
    have h1 : cur * (endp + 1) ≤ L * (L + 1) := Nat.mul_le_mul (by omega) (by omega)
    have h2 : (L + 1) * (L + 2) = L * (L + 1) + 2 * L + 2 := by
      rw [Nat.mul_add (L + 1) L 2, Nat.mul_comm (L + 1) L]; omega
    omega
  · have hf : nameFuel w = (nameFuel w - 1) + 1 := by
      unfold nameFuel
      have : 0 < (w.length + 1) * (w.length + 2) := Nat.mul_pos (by omega) (by omega)
      omega
    rw [hf, fromWireAux]
    unfold nameAt
    simp only [h, if_false, dite_false]

/-- the reader's owner-name decoding, in C01's function -/
theorem decodeName_eq (w : Bytes) (cur : Nat) :
    decodeName w cur = match fromWireAux w w.length cur cur cur [] with
      | .error e => .error e
      | .ok (n, _) => Model.validate n := by
  unfold decodeName
  rw [nameAt_fuel]
  rfl

/-- what a successful owner-name decode is, in C01's terms: a derivation of `Dec` with strictly backward
pointers, and a well-formed name ending in the root label -/
theorem decodeName_ok (w : Bytes) (cur : Nat) (n : Name) (h : decodeName w cur = .ok n) :
    ∃ ls fwd, Dec w cur cur ls fwd ∧ n = ls ++ [[]] ∧ WfName n := by
  rw [decodeName_eq] at h
  split at h; · cases h
  rename_i n' f' hrun
  obtain ⟨ls, fwd, hd, hn, _⟩ := Dec_of_fromWireAux w cur cur cur [] n' f' hrun
  have := validate_eq n' n h
  subst this
  exact ⟨ls, fwd, hd, by simpa using hn, (wf_of_validate _ _ h).2⟩

/-- conversely a `Dec` derivation of a well-formed name is what the reader decodes -/
theorem decodeName_of_Dec (w : Bytes) (cur : Nat) (ls : List Label) (fwd : Nat) (hd : Dec w cur cur ls fwd)
    (hw : WfName (ls ++ [[]])) : decodeName w cur = .ok (ls ++ [[]]) := by
  rw [decodeName_eq, fromWireAux_of_Dec hd cur []]
  simp only [List.nil_append]
  exact validate_ok _ hw

/-- an uncompressed absolute name in the buffer is decoded back (C01's `Dec_plain`) -/
theorem decodeName_toWire (n : Name) (hw : WfName n) (ha : isAbs n = true) (pre post : Bytes) :
    decodeName (pre ++ toWire n ++ post) pre.length = .ok n := by
  obtain ⟨ls, rfl, hp⟩ := abs_split n hw ha
  exact decodeName_of_Dec _ _ ls _ (Dec_plain ls hp pre post pre.length) hw

/-- the library's name equality is equality of the canonical (lower-cased) names (C06) -/
theorem nameEq_iff (a b : Name) : nameEq a b = true ↔ lowerName a = lowerName b := by
  unfold nameEq
  rw [beq_iff_eq]
  exact cmpOrder_eq_iff a b

/-- decoding up to `endp` never looks at octets from `endp` on -/
theorem fromWireAux_take (w : Bytes) (endp cur bp f : Nat) (acc : List Label) (he : endp ≤ w.length) :
    fromWireAux w endp cur bp f acc = fromWireAux (w.take endp) endp cur bp f acc := by
  have hlen : (w.take endp).length = endp := by simp; omega
  fun_induction fromWireAux w endp cur bp f acc with
  | case1 cur bp f acc h h0 =>
    conv => rhs; rw [fromWireAux]
    have hc : cur < endp ∧ endp ≤ (w.take endp).length := ⟨h.1, by omega⟩
    have hg : (w.take endp)[cur]'(by omega) = w[cur]'(by omega) := by simp
    simp only [hc, and_self, dite_true, hg, h0, if_true]
  | case2 cur bp f acc h h0 h1 h2 =>
    conv => rhs; rw [fromWireAux]
    have hc : cur < endp ∧ endp ≤ (w.take endp).length := ⟨h.1, by omega⟩
    have hg : (w.take endp)[cur]'(by omega) = w[cur]'(by omega) := by simp
    simp only [hc, and_self, dite_true, hg, h0, if_false, h1, if_true, h2]
  | case3 cur bp f acc h h0 h1 h2 ih =>
    conv => rhs; rw [fromWireAux]
    have hc : cur < endp ∧ endp ≤ (w.take endp).length := ⟨h.1, by omega⟩
    have hg : (w.take endp)[cur]'(by omega) = w[cur]'(by omega) := by simp
    have hs : ((w.take endp).drop (cur + 1)).take (w[cur]'(by omega)) = (w.drop (cur + 1)).take (w[cur]'(by omega)) := by
      rw [List.drop_take, List.take_take]
      congr 1
      omega
    simp only [hc, and_self, dite_true, hg, h0, if_false, h1, if_true, h2, hs]
    exact ih
  | case4 cur bp f acc h h0 h1 h2 h3 h4 =>
    conv => rhs; rw [fromWireAux]
    have hc : cur < endp ∧ endp ≤ (w.take endp).length := ⟨h.1, by omega⟩
    have hg : (w.take endp)[cur]'(by omega) = w[cur]'(by omega) := by simp
    have hg1 : (w.take endp)[cur + 1]'(by omega) = w[cur + 1]'(by omega) := by simp
    simp only [hc, and_self, dite_true, hg, hg1, h0, if_false, h1, h2, ge_iff_le, if_true, h3, h4]
  | case5 cur bp f acc h h0 h1 h2 h3 h4 ih =>
    conv => rhs; rw [fromWireAux]
    have hc : cur < endp ∧ endp ≤ (w.take endp).length := ⟨h.1, by omega⟩
    have hg : (w.take endp)[cur]'(by omega) = w[cur]'(by omega) := by simp
    have hg1 : (w.take endp)[cur + 1]'(by omega) = w[cur + 1]'(by omega) := by simp
    simp only [hc, and_self, dite_true, hg, hg1, h0, if_false, h1, h2, ge_iff_le, if_true, h3, h4]
    exact ih
  | case6 cur bp f acc h h0 h1 h2 h3 =>
    conv => rhs; rw [fromWireAux]
    have hc : cur < endp ∧ endp ≤ (w.take endp).length := ⟨h.1, by omega⟩
    have hg : (w.take endp)[cur]'(by omega) = w[cur]'(by omega) := by simp
    simp only [hc, and_self, dite_true, hg, h0, if_false, h1, h2, ge_iff_le, if_true, h3, dite_false]
  | case7 cur bp f acc h h0 h1 h2 =>
    conv => rhs; rw [fromWireAux]
    have hc : cur < endp ∧ endp ≤ (w.take endp).length := ⟨h.1, by omega⟩
    have hg : (w.take endp)[cur]'(by omega) = w[cur]'(by omega) := by simp
    simp only [hc, and_self, dite_true, hg, h0, if_false, h1, h2, ge_iff_le]
  | case8 cur bp f acc h =>
    conv => rhs; rw [fromWireAux]
    have hc : ¬ (cur < endp ∧ endp ≤ (w.take endp).length) := by
      intro hh; exact h ⟨hh.1, he⟩
    simp only [hc, dite_false]

/-! ### absolute names are a prefix-free code on the wire -/

/-- non-empty labels followed by the root label -/
def AbsLabels (n : Name) : Prop := ∃ ls : List Label, n = ls ++ [[]] ∧ ∀ l ∈ ls, l ≠ []

theorem absLabels_of_wf (ls : List Label) (h : WfName (ls ++ [[]])) : AbsLabels (ls ++ [[]]) := by
  refine ⟨ls, rfl, fun l hl => h.2.2 l ?_⟩
  simpa using hl

theorem absLabels_of_decode (w : Bytes) (cur : Nat) (n : Name) (h : decodeName w cur = .ok n) : AbsLabels n := by
  obtain ⟨ls, _, _, hn, hw⟩ := decodeName_ok w cur n h
  subst hn
  exact absLabels_of_wf ls hw

theorem absLabels_lower (n : Name) (h : AbsLabels n) : AbsLabels (lowerName n) := by
  obtain ⟨ls, rfl, hne⟩ := h
  refine ⟨ls.map lowerLabel, by simp [lowerName, lowerLabel], ?_⟩
  intro l hl
  obtain ⟨l0, hl0, rfl⟩ := List.mem_map.mp hl
  have := hne l0 hl0
  intro e
  apply this
  unfold lowerLabel at e
  simpa using e

theorem toWire_prefix_free (a b : Name) (ha : AbsLabels a) (hb : AbsLabels b) (x y : Bytes)
    (h : toWire a ++ x = toWire b ++ y) : a = b ∧ x = y := by
  obtain ⟨la, rfl, hna⟩ := ha
  obtain ⟨lb, rfl, hnb⟩ := hb
  induction la generalizing lb with
  | nil =>
    cases lb with
    | nil => simpa [toWire] using h
    | cons l rest =>
      exfalso
      have := hnb l (by simp)
      simp [toWire] at h
      have := h.1
      cases l with
      | nil => exact absurd rfl ‹[] ≠ []›
      | cons => simp at this
  | cons l rest ih =>
    cases lb with
    | nil =>
      exfalso
      have := hna l (by simp)
      simp [toWire] at h
      have := h.1
      cases l with
      | nil => exact absurd rfl ‹[] ≠ []›
      | cons => simp at this
    | cons l' rest' =>
      simp only [toWire, List.cons_append, List.flatMap_cons, List.append_assoc, List.cons.injEq] at h
      obtain ⟨hlen, h⟩ := h
      obtain ⟨hl, h⟩ := List.append_inj h hlen
      subst hl
      have := ih (fun x hx => hna x (by simp [hx])) rest' (fun x hx => hnb x (by simp [hx]))
        (by simpa [toWire] using h)
      obtain ⟨e1, e2⟩ := this
      refine ⟨?_, e2⟩
      have : rest = rest' := by
        have := congrArg List.dropLast e1
        simpa using this
      rw [this]

/-- the algorithm name of a TSIG RDATA that was parsed up to the end of the message -/
theorem rdataParse_alg_abs (w : Bytes) (a : Nat) (rd : Rdata) (h : rdataParse w a w.length = .ok rd) :
    AbsLabels rd.algorithm := by
  unfold rdataParse at h
  rw [nameAt_fuel] at h
  split at h; · cases h
  rename_i alg0 p hrun
  split at h; · cases h
  rename_i alg hv
  obtain ⟨ls, fwd, _, hn, _⟩ := Dec_of_fromWireAux w a a a [] alg0 p hrun
  have e := validate_eq alg0 alg hv
  have hwf := (wf_of_validate _ _ hv).2
  have halg : rd.algorithm = alg := by
    split at h; · cases h
    dsimp only at h
    split at h; · cases h
    split at h; · cases h
    split at h; · cases h
    split at h; · cases h
    split at h; · cases h
    cases h; rfl
  rw [halg, e]
  simp only [List.nil_append] at hn
  rw [hn] at hwf ⊢
  exact absLabels_of_wf ls hwf

end Model.Tsig

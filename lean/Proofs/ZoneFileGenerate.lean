import Model.ZoneFile
import Proofs.ZoneFileLine
import Proofs.ZoneFileRoundTrip
/-!
`$GENERATE` versus its expansion: one index of the `for` loop of `_generate_line` hands `txn.add` the same record
as the explicit line `owner SP ttl SP class SP type SP rdata NL` built from the substituted owner and RDATA text; the
loop as a whole denotes the same fold of `txn.add` as the file of those lines.
-/
namespace Model

theorem derelativize_abs (n o : Name) (h : isAbs n = true) : derelativize n o = .ok n := by
  simp [derelativize, h]

/-- the owner text resolves the same way in `_generate_line` (`dns.name.from_text(name, origin)`) and in `_rr_line`
(`tok.as_name(token, origin)`) -/
theorem asName_of_fromText (w : List Nat) (zo n : Name) (h : fromText w (some zo) = .ok n) (habs : isAbs n = true) :
    (identToken w).asName (some zo) false none = .ok n := by
  unfold Token.asName
  simp only [identToken, Token.isIdentifier, beq_self_eq_true, Bool.not_true, Bool.false_eq_true, if_false, h]
  unfold chooseRelativity
  by_cases hz : zo = []
  · simp [hz]
  · simp [hz, derelativize_abs n zo habs]

/-- one index of the `$GENERATE` loop -/
theorem genItem_record (r : PState) (nameT rdT : List Nat) (co zo n m : Name) (ttl ty : Nat) (rd : Rdata)
    (comment : Option (List Nat)) (s' : TState)
    (hco : r.currentOrigin = some co) (hzo : r.zoneOrigin = some zo)
    (hname : fromText nameT (some co) = .ok n) (hin : isSubdomain n zo = true)
    (hm : ownerInZone r.relativize n zo = .ok m)
    (hfresh : rdataFromText ty (TState.init rdT) (some co) r.relativize (some zo) r.gfix = .ok (rd, comment, s')) :
    genItem ttl ty (nameT, rdT) r = .ok (some ⟨m, ttl, ty, ⟨rd, comment⟩⟩, { r with lastName := some n }) := by
  unfold genItem
  simp only [hco, hname, hzo, hin, Bool.not_true, Bool.false_eq_true, if_false]
  unfold ownerInZone at hm
  cases hr : r.relativize with
  | false =>
    simp only [hr, Bool.false_eq_true, if_false, Except.ok.injEq] at hm ⊢
    subst hm
    rw [hr] at hfresh
    simp [hfresh, pure, Except.pure]
  | true =>
    simp only [hr, if_true] at hm ⊢
    cases hrel : relativize n zo with
    | error e => simp [hrel] at hm
    | ok m' =>
      simp only [hrel, Except.ok.injEq] at hm
      subst hm
      rw [hr] at hfresh
      simp [hfresh, pure, Except.pure]

/-- the event of a record -/
def evEntry : LineEv → Option Entry
  | .entry e => some e
  | _ => none

/-- **one `$GENERATE` index = the explicit record line of its expansion**: same record handed to `txn.add` -/
theorem generate_item_eq_line (r : PState) (nameT ttlT clsT tyT rdT rest : List Nat) (co zo n m : Name) (ttl ty : Nat)
    (rd : Rdata) (comment : Option (List Nat)) (s' : TState)
    (hco : r.currentOrigin = some co) (hzo : r.zoneOrigin = some zo)
    (hname : fromText nameT (some co) = .ok n) (habs : isAbs n = true)
    (hl : LineOK nameT ttlT clsT tyT co zo n ttl ty)
    (hm : ownerInZone r.relativize n zo = .ok m)
    (hline : RdataReads ty (32 :: (rdT ++ [10])) rd comment (some co) r.relativize (some zo) r.gfix)
    (hfresh : rdataFromText ty (TState.init rdT) (some co) r.relativize (some zo) r.gfix = .ok (rd, comment, s')) :
    (genItem ttl ty (nameT, rdT) r).map (·.1) =
    (lineStep { r with tok := after 0 false (nameT ++ (32 :: (ttlT ++ (32 :: (clsT ++ (32 :: (tyT ++ ((32 :: (rdT ++ [10])) ++ rest)))))))) }).map
      (fun x => evEntry x.1) := by
  have _ := asName_of_fromText nameT co n hname habs
  rw [genItem_record r nameT rdT co zo n m ttl ty rd comment s' hco hzo hname hl.in_zone hm hfresh]
  rw [lineStep_record
    { r with tok := after 0 false (nameT ++ (32 :: (ttlT ++ (32 :: (clsT ++ (32 :: (tyT ++ ((32 :: (rdT ++ [10])) ++ rest)))))))) }
    nameT ttlT clsT tyT (32 :: (rdT ++ [10])) rest co zo n m ttl ty rd comment hco hzo rfl hl hm hline]
  rfl

/-- an index whose owner is outside the zone yields no record (`continue`) -/
theorem genItem_out_of_zone (r : PState) (nameT rdT : List Nat) (co zo n : Name) (ttl ty : Nat)
    (hco : r.currentOrigin = some co) (hzo : r.zoneOrigin = some zo)
    (hname : fromText nameT (some co) = .ok n) (hout : isSubdomain n zo = false) :
    genItem ttl ty (nameT, rdT) r = .ok (none, { r with lastName := some n }) := by
  unfold genItem
  simp [hco, hname, hzo, hout, pure, Except.pure]

/-- the loop: what it does to the zone is the fold of `txn.add` over the records of the indices that yield one — the
indices whose owner is outside the zone (`e item = none`) are skipped, the others are added in index order -/
theorem genTrace_records (ttl ty : Nat) (items : List (List Nat × List Nat)) (r : PState)
    (e : List Nat × List Nat → Option Entry) (nOf : List Nat × List Nat → Name) (k : PState → Trace)
    (h : ∀ item ∈ items, ∀ ln, genItem ttl ty item { r with lastName := ln } =
      .ok (e item, { r with lastName := some (nOf item) }))
    (z : ZoneMap) :
    ∃ ln, interpTrace (genTrace ttl ty items r k) z =
      (addAll r.effOrigin z (items.filterMap e)).bind fun z' => interpTrace (k { r with lastName := ln }) z' := by
  induction items generalizing r z with
  | nil => exact ⟨r.lastName, by simp [genTrace, addAll, Except.bind]⟩
  | cons item rest ih =>
    have h0 := h item (by simp) r.lastName
    have hr : ({ r with lastName := r.lastName } : PState) = r := rfl
    rw [hr] at h0
    have heff : ({ r with lastName := some (nOf item) } : PState).effOrigin = r.effOrigin := rfl
    have h' : ∀ it ∈ rest, ∀ ln, genItem ttl ty it { ({ r with lastName := some (nOf item) } : PState) with lastName := ln } =
        .ok (e it, { ({ r with lastName := some (nOf item) } : PState) with lastName := some (nOf it) }) := by
      intro it hit ln
      exact h it (by simp [hit]) ln
    cases he : e item with
    | none =>
      rw [he] at h0
      simp only [genTrace, h0, List.filterMap_cons, he]
      obtain ⟨ln, hln⟩ := ih { r with lastName := some (nOf item) } h' z
      exact ⟨ln, by rw [hln]; rfl⟩
    | some en =>
      rw [he] at h0
      simp only [genTrace, h0, interpTrace, List.filterMap_cons, he, addAll]
      rw [heff]
      cases ha : addEntry z r.effOrigin en with
      | error err => exact ⟨none, by simp [Except.bind]⟩
      | ok z1 =>
        simp only
        obtain ⟨ln, hln⟩ := ih { r with lastName := some (nOf item) } h' z1
        exact ⟨ln, by rw [hln]; rfl⟩

end Model

import Proofs.RdataTextBitmap
/-! WKS service bitmaps (C05): setting the bits of the printed ports rebuilds the bitmap. -/
namespace Model
open Dnssec

theorem getD_append_zeros (bm : Bytes) (n k : Nat) : (bm ++ List.replicate n 0).getD k 0 = bm.getD k 0 := by
  by_cases hk : k < bm.length
  · simp [List.getD_eq_getElem?_getD, List.getElem?_append_left hk]
  · rw [getD_len_le bm k (by omega)]
    simp only [List.getD_eq_getElem?_getD, List.getElem?_append_right (by omega : bm.length ≤ k)]
    have := getD_replicate0 n (k - bm.length)
    simpa [List.getD_eq_getElem?_getD] using this

theorem wksSet_length (bm : Bytes) (s : Nat) : (wksSet bm s).length = max bm.length (s / 8 + 1) := by
  unfold wksSet
  simp only [List.length_set]
  split
  · simp; omega
  · omega

theorem wksSet_getD (bm : Bytes) (s k : Nat) :
    (wksSet bm s).getD k 0 = if k = s / 8 then bm.getD k 0 ||| (0x80 >>> (s % 8)) else bm.getD k 0 := by
  unfold wksSet
  simp only
  split
  · rename_i h
    rw [getD_set' _ _ _ _ (by simp; omega)]
    simp only [getD_append_zeros]
    by_cases hk : k = s / 8 <;> simp [hk]
  · rename_i h
    rw [getD_set' _ _ _ _ (by omega)]
    by_cases hk : k = s / 8 <;> simp [hk]

theorem wksFold_len_ge (ps : List Nat) (acc : Bytes) : acc.length ≤ (ps.foldl wksSet acc).length := by
  induction ps generalizing acc with
  | nil => simp
  | cons p r ih =>
    have := ih (wksSet acc p)
    rw [wksSet_length] at this
    simp only [List.foldl_cons]; omega

theorem wksFold_len_mem (ps : List Nat) (acc : Bytes) : ∀ p ∈ ps, p / 8 < (ps.foldl wksSet acc).length := by
  induction ps generalizing acc with
  | nil => intro p hp; cases hp
  | cons q r ih =>
    intro p hp
    simp only [List.foldl_cons]
    rcases List.mem_cons.mp hp with rfl | hp
    · have := wksFold_len_ge r (wksSet acc p)
      rw [wksSet_length] at this
      omega
    · exact ih _ p hp

theorem wksFold_len_le (ps : List Nat) (acc : Bytes) :
    (ps.foldl wksSet acc).length ≤ acc.length ∨ ∃ p ∈ ps, (ps.foldl wksSet acc).length = p / 8 + 1 := by
  induction ps generalizing acc with
  | nil => left; simp
  | cons q r ih =>
    simp only [List.foldl_cons]
    rcases ih (wksSet acc q) with h | ⟨p, hp, h⟩
    · rw [wksSet_length] at h
      by_cases hq : acc.length ≥ q / 8 + 1
      · left; omega
      · right
        refine ⟨q, by simp, ?_⟩
        have := wksFold_len_ge r (wksSet acc q)
        rw [wksSet_length] at this
        omega
    · exact Or.inr ⟨p, by simp [hp], h⟩

theorem wksFold_bits (ps : List Nat) (acc : Bytes) (k j : Nat) (hj : j < 8) :
    msbBit ((ps.foldl wksSet acc).getD k 0) j = (msbBit (acc.getD k 0) j || decide (k * 8 + j ∈ ps)) := by
  induction ps generalizing acc with
  | nil => simp
  | cons p r ih =>
    simp only [List.foldl_cons]
    rw [ih (wksSet acc p), wksSet_getD]
    by_cases hk : k = p / 8
    · simp only [hk, if_true]
      rw [msbBit_or_bit _ _ _ hj (by omega)]
      have e : decide (p / 8 * 8 + j ∈ p :: r) = (decide (j = p % 8) || decide (p / 8 * 8 + j ∈ r)) := by
        by_cases hjp : j = p % 8
        · have : p / 8 * 8 + j = p := by omega
          rw [this]; simp [hjp]
        · have : p / 8 * 8 + j ≠ p := by omega
          simp [hjp, this]
      rw [e, Bool.or_assoc]
    · simp only [hk, if_false]
      have : k * 8 + j ≠ p := by omega
      simp [this]

theorem wksSet_bytes (acc : Bytes) (p : Nat) (h : ∀ x ∈ acc, x < 256) : ∀ x ∈ wksSet acc p, x < 256 := by
  unfold wksSet
  simp only
  have hz : ∀ n, ∀ x ∈ acc ++ List.replicate n 0, x < 256 := by
    intro n x hx
    rcases List.mem_append.mp hx with h1 | h1
    · exact h x h1
    · have := List.eq_of_mem_replicate h1; omega
  split
  · exact mem_set_lt _ _ _ (hz _) (or_lt_256 _ _ (getD_lt _ _ (hz _)) (shift80_lt _))
  · exact mem_set_lt _ _ _ h (or_lt_256 _ _ (getD_lt _ _ h) (shift80_lt _))

theorem wksFold_bytes (ps : List Nat) (acc : Bytes) (h : ∀ x ∈ acc, x < 256) : ∀ x ∈ ps.foldl wksSet acc, x < 256 := by
  induction ps generalizing acc with
  | nil => exact h
  | cons p r ih => exact ih _ (wksSet_bytes acc p h)

theorem ext_getD (a b : Bytes) (hl : a.length = b.length) (h : ∀ i, a.getD i 0 = b.getD i 0) : a = b := by
  apply List.ext_getElem hl
  intro i h1 h2
  have := h i
  simpa [List.getD_eq_getElem?_getD, List.getElem?_eq_getElem h1, List.getElem?_eq_getElem h2] using this

theorem mem_wksPorts (bm : Bytes) (t : Nat) :
    t ∈ wksPorts bm ↔ ∃ k j, k < bm.length ∧ j < 8 ∧ msbBit (bm.getD k 0) j = true ∧ t = k * 8 + j := by
  unfold wksPorts
  rw [mem_windowTypesFrom]
  simp

/-- the bits of the printed ports rebuild the bitmap -/
theorem wks_ports_fold (bm : Bytes) (hb : ∀ x ∈ bm, x < 256) (hl : bm.getLast? ≠ some 0) :
    (wksPorts bm).foldl wksSet [] = bm := by
  have hbits : ∀ k j, j < 8 → msbBit (((wksPorts bm).foldl wksSet []).getD k 0) j = msbBit (bm.getD k 0) j := by
    intro k j hj
    rw [wksFold_bits _ _ _ _ hj]
    simp only [List.getD_nil, msbBit_zero, Bool.false_or]
    cases hm : msbBit (bm.getD k 0) j with
    | true =>
      have hk : k < bm.length := by
        apply Classical.byContradiction
        intro hc
        rw [getD_len_le _ _ (by omega), msbBit_zero] at hm
        cases hm
      exact decide_eq_true ((mem_wksPorts bm _).mpr ⟨k, j, hk, hj, hm, rfl⟩)
    | false =>
      apply decide_eq_false
      intro hmem
      obtain ⟨k', j', _, hj', hb', e⟩ := (mem_wksPorts bm _).mp hmem
      have : k = k' ∧ j = j' := by omega
      rw [← this.1, ← this.2, hm] at hb'
      cases hb'
  have hlen : ((wksPorts bm).foldl wksSet []).length = bm.length := by
    by_cases he : bm = []
    · subst he; rfl
    · -- the last octet has a bit
      have hlast : bm.getD (bm.length - 1) 0 ≠ 0 := by
        intro h0
        apply hl
        rw [List.getLast?_eq_getElem?]
        have hpos : 0 < bm.length := List.length_pos_iff.mpr he
        rw [List.getD_eq_getElem?_getD, List.getElem?_eq_getElem (by omega)] at h0
        rw [List.getElem?_eq_getElem (by omega)]
        simpa using h0
      have hpos : 0 < bm.length := List.length_pos_iff.mpr he
      have hlt : bm.getD (bm.length - 1) 0 < 256 := getD_lt _ _ hb
      obtain ⟨j, hj, hbit⟩ := exists_bit _ hlt hlast
      have hmem : (bm.length - 1) * 8 + j ∈ wksPorts bm := (mem_wksPorts bm _).mpr ⟨bm.length - 1, j, by omega, hj, hbit, rfl⟩
      have h1 := wksFold_len_mem (wksPorts bm) [] _ hmem
      have hd : ((bm.length - 1) * 8 + j) / 8 = bm.length - 1 := by omega
      rw [hd] at h1
      rcases wksFold_len_le (wksPorts bm) [] with h2 | ⟨p, hp, h2⟩
      · have h2' : ((wksPorts bm).foldl wksSet []).length ≤ 0 := h2
        omega
      · obtain ⟨k', j', hk', hj', _, e⟩ := (mem_wksPorts bm _).mp hp
        have hd' : p / 8 = k' := by omega
        omega
  apply ext_getD _ _ hlen
  intro i
  exact byte_ext _ _ (getD_lt _ _ (wksFold_bytes _ _ (by simp))) (getD_lt _ _ hb) (fun j hj => hbits i j hj)

theorem truncateBitmap_id (bm : Bytes) (hl : bm.getLast? ≠ some 0) : truncateBitmap bm = bm := by
  unfold truncateBitmap
  cases h : bm.reverse with
  | nil =>
    have : bm = [] := by simpa using h
    subst this; rfl
  | cons x xs =>
    have hx : x ≠ 0 := by
      intro e
      apply hl
      have : bm = (x :: xs).reverse := by rw [← h]; simp
      rw [this, e]; simp
    have : (x == 0) = false := by simpa using hx
    simp only [List.dropWhile_cons, this, Bool.false_eq_true, if_false, reduceCtorEq]
    rw [← h]; simp

theorem parseWksPorts_print (ps : List Nat) (acc : Bytes) (h : ∀ p ∈ ps, p ≤ 65535) :
    parseWksPorts (identToks (ps.map natToDec)) acc = some (ps.foldl wksSet acc) := by
  induction ps generalizing acc with
  | nil => rfl
  | cons p r ih =>
    have hp := h p (by simp)
    have e : identToks ((p :: r).map natToDec) = ⟨.ident, natToDec p⟩ :: identToks (r.map natToDec) := by
      simp [identToks]
    rw [e]
    have hgt : ¬ p > 65535 := by omega
    simp only [parseWksPorts, unescapeCP_plain_all _ (natToDec_plain p), natToDec_ne_nil p, natToDec_all_isDigit p,
      decVal_natToDec, ne_eq, not_false_eq_true, and_self, if_true, hgt, if_false, List.foldl_cons]
    exact ih _ (fun q hq => h q (by simp [hq]))

theorem wksPorts_le (bm : Bytes) (hl : bm.length ≤ 8192) : ∀ p ∈ wksPorts bm, p ≤ 65535 := by
  intro p hp
  obtain ⟨k, j, hk, hj, _, e⟩ := (mem_wksPorts bm p).mp hp
  omega

end Model

import Proofs.ZoneTxnStep
import Proofs.ZoneTxnName
/-! Frame properties of the transaction model (C10): the published map changes only at a commit; ended and
read-only transactions refuse use; the spelling of an owner name is irrelevant. -/
namespace Model.ZT
open Model

def Op.isCommit : Op → Bool
  | .commit => true
  | _ => false

/-! ### the published map is untouched by everything but a commit -/

theorem checkedPut_zone (cfg : Cfg) (s : Txn) (n : Name) (r : Rdataset) (veto : Bool) :
    (checkedPut cfg s n r veto).1.zone = s.zone ∧ (checkedPut cfg s n r veto).1.ended = s.ended ∧
      (checkedPut cfg s n r veto).1.readOnly = s.readOnly := by
  unfold checkedPut
  split
  · exact ⟨rfl, rfl, rfl⟩
  · split <;> exact ⟨rfl, rfl, rfl⟩

theorem checkedDeleteRdataset_zone (cfg : Cfg) (s : Txn) (n : Name) (t c : Nat) (veto : Bool) :
    (checkedDeleteRdataset cfg s n t c veto).1.zone = s.zone ∧ (checkedDeleteRdataset cfg s n t c veto).1.ended = s.ended ∧
      (checkedDeleteRdataset cfg s n t c veto).1.readOnly = s.readOnly := by
  unfold checkedDeleteRdataset
  split
  · exact ⟨rfl, rfl, rfl⟩
  · split
    · exact ⟨rfl, rfl, rfl⟩
    · split <;> exact ⟨rfl, rfl, rfl⟩

theorem checkedDeleteName_zone (cfg : Cfg) (s : Txn) (n : Name) (veto : Bool) :
    (checkedDeleteName cfg s n veto).1.zone = s.zone ∧ (checkedDeleteName cfg s n veto).1.ended = s.ended ∧
      (checkedDeleteName cfg s n veto).1.readOnly = s.readOnly := by
  unfold checkedDeleteName
  split
  · exact ⟨rfl, rfl, rfl⟩
  · split <;> exact ⟨rfl, rfl, rfl⟩

theorem addCore_zone (cfg : Cfg) (s : Txn) (rep : Bool) (n : Name) (r : Rdataset) (extra veto : Bool) :
    (addCore cfg s rep n r extra veto).1.zone = s.zone ∧ (addCore cfg s rep n r extra veto).1.ended = s.ended ∧
      (addCore cfg s rep n r extra veto).1.readOnly = s.readOnly := by
  unfold addCore
  split
  · exact ⟨rfl, rfl, rfl⟩
  split
  · exact ⟨rfl, rfl, rfl⟩
  split
  · exact ⟨rfl, rfl, rfl⟩
  split
  · exact checkedPut_zone ..
  split
  · exact ⟨rfl, rfl, rfl⟩
  · exact checkedPut_zone ..
  · exact checkedPut_zone ..

theorem txnAdd_zone (cfg : Cfg) (s : Txn) (rep : Bool) (args : List Arg) (veto : Bool) :
    (txnAdd cfg s rep args veto).1.zone = s.zone ∧ (txnAdd cfg s rep args veto).1.ended = s.ended ∧
      (txnAdd cfg s rep args veto).1.readOnly = s.readOnly := by
  unfold txnAdd
  split
  · exact ⟨rfl, rfl, rfl⟩
  · exact addCore_zone ..

theorem deleteAll_zone (cfg : Cfg) (s : Txn) (exact : Bool) (n : Name) (veto : Bool) :
    (deleteAll cfg s exact n veto).1.zone = s.zone ∧ (deleteAll cfg s exact n veto).1.ended = s.ended ∧
      (deleteAll cfg s exact n veto).1.readOnly = s.readOnly := by
  unfold deleteAll
  split
  · split
    · exact ⟨rfl, rfl, rfl⟩
    · exact ⟨rfl, rfl, rfl⟩
    · exact checkedDeleteName_zone ..
  · exact checkedDeleteName_zone ..

theorem deleteCore_zone (cfg : Cfg) (s : Txn) (exact : Bool) (n : Name) (sel : Sel) (veto : Bool) :
    (deleteCore cfg s exact n sel veto).1.zone = s.zone ∧ (deleteCore cfg s exact n sel veto).1.ended = s.ended ∧
      (deleteCore cfg s exact n sel veto).1.readOnly = s.readOnly := by
  unfold deleteCore
  split
  · exact deleteAll_zone ..
  · split
    · exact ⟨rfl, rfl, rfl⟩
    · split <;> exact ⟨rfl, rfl, rfl⟩
    · exact checkedDeleteRdataset_zone ..
  · split
    · exact deleteAll_zone ..
    split
    · exact ⟨rfl, rfl, rfl⟩
    split
    · exact ⟨rfl, rfl, rfl⟩
    · split <;> exact ⟨rfl, rfl, rfl⟩
    · split
      · exact ⟨rfl, rfl, rfl⟩
      · dsimp only
        split
        · exact checkedDeleteRdataset_zone ..
        · exact checkedPut_zone ..

theorem txnDelete_zone (cfg : Cfg) (s : Txn) (exact : Bool) (args : List Arg) (veto : Bool) :
    (txnDelete cfg s exact args veto).1.zone = s.zone ∧ (txnDelete cfg s exact args veto).1.ended = s.ended ∧
      (txnDelete cfg s exact args veto).1.readOnly = s.readOnly := by
  unfold txnDelete
  split
  · exact ⟨rfl, rfl, rfl⟩
  · exact deleteCore_zone ..

theorem txnUpdateSerial_zone (cfg : Cfg) (s : Txn) (value : Int) (rel : Bool) (n : Name) (veto : Bool) :
    (txnUpdateSerial cfg s value rel n veto).1.zone = s.zone ∧ (txnUpdateSerial cfg s value rel n veto).1.ended = s.ended ∧
      (txnUpdateSerial cfg s value rel n veto).1.readOnly = s.readOnly := by
  unfold txnUpdateSerial
  split
  · exact ⟨rfl, rfl, rfl⟩
  split
  · exact ⟨rfl, rfl, rfl⟩
  · exact ⟨rfl, rfl, rfl⟩
  · split
    · exact ⟨rfl, rfl, rfl⟩
    · split
      · exact ⟨rfl, rfl, rfl⟩
      · dsimp only
        split
        · exact ⟨rfl, rfl, rfl⟩
        · exact txnAdd_zone ..

theorem endTxn_false_zone (s : Txn) : (endTxn s false).1.zone = s.zone := by
  unfold endTxn
  by_cases h1 : s.ended = true
  · rw [if_pos h1]
  rw [if_neg h1]
  by_cases h2 : s.readOnly = true
  · rw [if_pos h2]
  rw [if_neg h2]
  simp

/-- every call except `commit()` leaves the published map alone -/
theorem step_zone (cfg : Cfg) (s : Txn) (op : Op) (h : op.isCommit = false) : (step cfg s op).1.zone = s.zone := by
  cases op with
  | commit => simp [Op.isCommit] at h
  | rollback => simp only [step]; exact endTxn_false_zone s
  | commitRaise =>
    simp only [step, endTxnRaise]
    split
    · rfl
    · split
      · rfl
      · split <;> rfl
  | add args veto =>
    simp only [step]
    by_cases h1 : s.ended = true
    · rw [if_pos h1]
    rw [if_neg h1]
    by_cases h2 : s.readOnly = true
    · rw [if_pos h2]
    rw [if_neg h2]; exact (txnAdd_zone ..).1
  | replace args veto =>
    simp only [step]
    by_cases h1 : s.ended = true
    · rw [if_pos h1]
    rw [if_neg h1]
    by_cases h2 : s.readOnly = true
    · rw [if_pos h2]
    rw [if_neg h2]; exact (txnAdd_zone ..).1
  | delete args veto =>
    simp only [step]
    by_cases h1 : s.ended = true
    · rw [if_pos h1]
    rw [if_neg h1]
    by_cases h2 : s.readOnly = true
    · rw [if_pos h2]
    rw [if_neg h2]; exact (txnDelete_zone ..).1
  | deleteExact args veto =>
    simp only [step]
    by_cases h1 : s.ended = true
    · rw [if_pos h1]
    rw [if_neg h1]
    by_cases h2 : s.readOnly = true
    · rw [if_pos h2]
    rw [if_neg h2]; exact (txnDelete_zone ..).1
  | updateSerial v r n veto =>
    simp only [step]
    by_cases h1 : s.ended = true
    · rw [if_pos h1]
    rw [if_neg h1]; exact (txnUpdateSerial_zone ..).1
  | get n t c =>
    simp only [step]
    by_cases h1 : s.ended = true
    · rw [if_pos h1]
    rw [if_neg h1]; split <;> rfl
  | nameExists n =>
    simp only [step]
    by_cases h1 : s.ended = true
    · rw [if_pos h1]
    rw [if_neg h1]; split <;> rfl
  | getNode n =>
    simp only [step]
    split
    · rfl
    · split <;> rfl
  | changed => simp only [step]; split <;> rfl
  | dump => simp only [step]; split <;> rfl

theorem run_zone (cfg : Cfg) (ops : List Op) (s : Txn) (h : ∀ op ∈ ops, op.isCommit = false) :
    (run cfg s ops).1.zone = s.zone := by
  induction ops generalizing s with
  | nil => rfl
  | cons op rest ih =>
    simp only [run]
    rw [ih (step cfg s op).1 (fun o ho => h o (List.mem_cons_of_mem _ ho))]
    exact step_zone cfg s op (h op (List.mem_cons_self ..))

theorem exit_exc_zone (s : Txn) : (exitTxn s true).zone = s.zone := by
  unfold exitTxn
  by_cases h : s.ended = true
  · rw [if_pos h]
  · rw [if_neg h]; exact endTxn_false_zone s

/-! ### ended transactions -/

def Op.isGetNode : Op → Bool
  | .getNode _ => true
  | _ => false

theorem step_ended (cfg : Cfg) (s : Txn) (op : Op) (h : s.ended = true) (hgn : cfg.gn = false ∨ op.isGetNode = false) :
    step cfg s op = (s, .error .alreadyEnded) := by
  cases op with
  | getNode n =>
    rcases hgn with hgn | hgn
    · simp [step, h, hgn]
    · simp [Op.isGetNode] at hgn
  | _ => simp [step, endTxn, endTxnRaise, h]

/-- whatever the guard of `get_node`, an ended transaction never changes again -/
theorem step_ended_state (cfg : Cfg) (s : Txn) (op : Op) (h : s.ended = true) : (step cfg s op).1 = s := by
  cases op with
  | getNode n =>
    simp only [step]
    split
    · rfl
    · split <;> rfl
  | _ => simp [step, endTxn, endTxnRaise, h]

theorem run_ended (cfg : Cfg) (ops : List Op) (s : Txn) (h : s.ended = true) : (run cfg s ops).1 = s := by
  induction ops with
  | nil => simp [run]
  | cons op rest ih =>
    simp only [run, step_ended_state cfg s op h]
    exact ih

theorem rollback_ends (s : Txn) : (endTxn s false).1.ended = true ∧ (endTxn s false).1.zone = s.zone := by
  unfold endTxn
  split
  · rename_i h; exact ⟨h, rfl⟩
  · split
    · exact ⟨rfl, rfl⟩
    · simp

theorem commitRaise_ends (s : Txn) : (endTxnRaise s).1.ended = true ∧ (endTxnRaise s).1.zone = s.zone := by
  unfold endTxnRaise
  split
  · rename_i h; exact ⟨h, rfl⟩
  · split
    · exact ⟨rfl, rfl⟩
    · split <;> exact ⟨rfl, rfl⟩

theorem exit_ended (s : Txn) (exc : Bool) (h : s.ended = true) : exitTxn s exc = s := by
  unfold exitTxn; simp [h]

theorem run_append (cfg : Cfg) (a b : List Op) (s : Txn) :
    (run cfg s (a ++ b)).1 = (run cfg (run cfg s a).1 b).1 := by
  induction a generalizing s with
  | nil => rfl
  | cons op rest ih => simp only [List.cons_append, run]; exact ih _

/-! ### read-only transactions -/

theorem step_readOnly_frame (cfg : Cfg) (s : Txn) (op : Op) (h : s.readOnly = true) :
    (step cfg s op).1.zone = s.zone ∧ (step cfg s op).1.readOnly = true := by
  have hend : ∀ c, (endTxn s c).1.zone = s.zone ∧ (endTxn s c).1.readOnly = true := by
    intro c
    unfold endTxn
    by_cases h1 : s.ended = true
    · rw [if_pos h1]; exact ⟨rfl, h⟩
    rw [if_neg h1, if_pos h]; exact ⟨rfl, h⟩
  cases op with
  | commit => simp only [step]; exact hend true
  | rollback => simp only [step]; exact hend false
  | commitRaise =>
    simp only [step, endTxnRaise]
    by_cases h1 : s.ended = true
    · rw [if_pos h1]; exact ⟨rfl, h⟩
    rw [if_neg h1, if_pos h]; exact ⟨rfl, h⟩
  | add args veto =>
    simp only [step]
    by_cases h1 : s.ended = true
    · rw [if_pos h1]; exact ⟨rfl, h⟩
    rw [if_neg h1, if_pos h]; exact ⟨rfl, h⟩
  | replace args veto =>
    simp only [step]
    by_cases h1 : s.ended = true
    · rw [if_pos h1]; exact ⟨rfl, h⟩
    rw [if_neg h1, if_pos h]; exact ⟨rfl, h⟩
  | delete args veto =>
    simp only [step]
    by_cases h1 : s.ended = true
    · rw [if_pos h1]; exact ⟨rfl, h⟩
    rw [if_neg h1, if_pos h]; exact ⟨rfl, h⟩
  | deleteExact args veto =>
    simp only [step]
    by_cases h1 : s.ended = true
    · rw [if_pos h1]; exact ⟨rfl, h⟩
    rw [if_neg h1, if_pos h]; exact ⟨rfl, h⟩
  | updateSerial v r n veto =>
    simp only [step]
    by_cases h1 : s.ended = true
    · rw [if_pos h1]; exact ⟨rfl, h⟩
    rw [if_neg h1]
    have := txnUpdateSerial_zone cfg s v r n veto
    exact ⟨this.1, by rw [this.2.2]; exact h⟩
  | get n t c =>
    simp only [step]
    by_cases h1 : s.ended = true
    · rw [if_pos h1]; exact ⟨rfl, h⟩
    rw [if_neg h1]; split <;> exact ⟨rfl, h⟩
  | nameExists n =>
    simp only [step]
    by_cases h1 : s.ended = true
    · rw [if_pos h1]; exact ⟨rfl, h⟩
    rw [if_neg h1]; split <;> exact ⟨rfl, h⟩
  | getNode n =>
    simp only [step]
    split
    · exact ⟨rfl, h⟩
    · split <;> exact ⟨rfl, h⟩
  | changed => simp only [step]; split <;> exact ⟨rfl, h⟩
  | dump => simp only [step]; split <;> exact ⟨rfl, h⟩

theorem run_readOnly_zone (cfg : Cfg) (ops : List Op) (s : Txn) (h : s.readOnly = true) :
    (run cfg s ops).1.zone = s.zone ∧ (run cfg s ops).1.readOnly = true := by
  induction ops generalizing s with
  | nil => exact ⟨rfl, h⟩
  | cons op rest ih =>
    simp only [run]
    have h1 := step_readOnly_frame cfg s op h
    have h2 := ih (step cfg s op).1 h1.2
    exact ⟨h2.1.trans h1.1, h2.2⟩

theorem exit_readOnly_zone (s : Txn) (exc : Bool) (h : s.readOnly = true) : (exitTxn s exc).zone = s.zone := by
  unfold exitTxn endTxn
  split
  · rfl
  · simp [h]

/-! ### the spelling of an owner name -/

theorem addCore_spelling (cfg : Cfg) (s : Txn) (n n' : Name)
    (hv : validateName cfg n = validateName cfg n') (hs : soaNameOk cfg n = soaNameOk cfg n')
    (rep : Bool) (r : Rdataset) (extra veto : Bool) :
    addCore cfg s rep n r extra veto = addCore cfg s rep n' r extra veto := by
  unfold addCore checkedPut putRdataset getRdataset
  simp only [hv, hs]

theorem deleteCore_spelling (cfg : Cfg) (hd : cfg.d09 = false) (s : Txn) (n n' : Name)
    (hv : validateName cfg n = validateName cfg n') (exact : Bool) (sel : Sel) (veto : Bool) :
    deleteCore cfg s exact n sel veto = deleteCore cfg s exact n' sel veto := by
  unfold deleteCore deleteAll checkedDeleteName checkedDeleteRdataset checkedPut deleteNode deleteRdataset
    putRdataset getRdataset getNode
  simp only [hv, hd, Bool.false_eq_true, if_false]

theorem updateSerial_spelling (cfg : Cfg) (s : Txn) (n n' : Name)
    (hv : validateName cfg n = validateName cfg n') (hs : soaNameOk cfg n = soaNameOk cfg n')
    (value : Int) (rel veto : Bool) :
    txnUpdateSerial cfg s value rel n veto = txnUpdateSerial cfg s value rel n' veto := by
  unfold txnUpdateSerial txnAdd
  have hp : ∀ (m : Name) (r : Rdataset), parseAddArgs [.name m, .rds r] = .ok (m, r, false) := by
    intro m r; simp [parseAddArgs, rdsFromArgs]
  simp only [hp, getRdataset, hv, addCore_spelling cfg s n n' hv hs]

end Model.ZT

import Proofs.BTreeCursor4
/-!
Layer L5, part 5: parked cursors.  Unparking re-seeks the anchor (`parking_key`, `parking_key_read`,
`increasing`) on the tree as it is now; `next()` / `prev()` leave the anchor that describes their new position.
-/
namespace Model.BTree

/-- `seek` always ends in a leaf -/
theorem seek_leaf {t : Nat} {root : Node} (hw : Wf t root) (key : Nat) (before : Bool) :
    ∃ ls, (Cursor.seek root key before).node = some (.leaf ls) := by
  obtain ⟨Hr, hr⟩ := hw.shape
  obtain ⟨ls, i', ps', s1, _, _, _⟩ := seekLoop_spec (t := t) (root := root) key before (height root + 1) Hr root []
    (by have := height_of_shape hr; omega) ⟨rfl, hr⟩ hw.sorted (by simp [ctx]) (by simp [ctx])
  exact ⟨ls, by unfold Cursor.seek; rw [s1]⟩

/-- at a leaf the direction hint does not matter for the position -/
theorem curInv_leaf_hint {t : Nat} {root : Node} {c c' : Cursor} {ls : List Elt} {D R : List Elt}
    (hl : c.node = some (.leaf ls)) (h1 : c'.node = c.node) (h2 : c'.idx = c.idx) (h3 : c'.recurse = c.recurse)
    (h5 : c'.parents = c.parents) (h : CurInv t root c D R) : CurInv t root c' D R := by
  unfold CurInv at h ⊢
  rw [h1, h2, h3, h5, hl] at *
  obtain ⟨hh, hp, hi, hr, hd, hrs⟩ := h
  exact ⟨hh, hp, hi, hr, hd, hrs⟩

/-- the hint with which `_maybe_unpark` seeks the parking key: after it if the key was returned by `next()`,
before it if it was returned by `prev()`, and as sought if it was not returned yet -/
def unparkBefore (c : Cursor) : Bool := if c.pread then !c.increasing else c.increasing

/-- `_maybe_unpark` of a parked cursor with a parking key: the cursor rests at the bound of that key in the
tree as it is now, whatever happened to the tree since the cursor was parked -/
theorem maybeUnpark_key {t : Nat} {root : Node} (hw : Wf t root) (c : Cursor) (K : Nat)
    (hp : c.parked = true) (hk : c.pkey = some K) :
    ∃ D R, CurInv t root (c.maybeUnpark root) D R ∧ SplitAt K (unparkBefore c) D R ∧
      (c.maybeUnpark root).parked = false := by
  obtain ⟨D, R, hinv, hsplit, _, _, _, _⟩ := seek_spec hw K (unparkBefore c)
  obtain ⟨ls, hls⟩ := seek_leaf hw K (unparkBefore c)
  refine ⟨D, R, ?_, hsplit, ?_⟩
  · have : c.maybeUnpark root =
        { Cursor.seek root K (unparkBefore c) with increasing := c.increasing, parked := false, pkey := none } := by
      simp [Cursor.maybeUnpark, hp, hk, unparkBefore]
    rw [this]
    exact curInv_leaf_hint hls rfl rfl rfl rfl hinv
  · simp [Cursor.maybeUnpark, hp, hk]

/-- `_maybe_unpark` of a parked cursor without a parking key (it rests on a boundary) only clears the flag -/
theorem maybeUnpark_nokey {t : Nat} {root : Node} (c : Cursor) {D R : List Elt} (hp : c.parked = true)
    (hk : c.pkey = none) (h : CurInv t root c D R) :
    CurInv t root (c.maybeUnpark root) D R ∧ (c.maybeUnpark root).parked = false := by
  have : c.maybeUnpark root = { c with parked := false, pkey := none } := by
    simp [Cursor.maybeUnpark, hp, hk]
  rw [this]
  exact ⟨curInv_congr rfl rfl rfl rfl rfl h, rfl⟩

/-- a boundary position is a position of every tree -/
theorem boundary_inv (t : Nat) (root : Node) (c : Cursor) (hn : c.node = none) (hps : c.parents = [])
    (hrec : c.recurse = false) :
    (c.idx = 0 → CurInv t root c [] (flat root)) ∧ (c.idx = 1 → CurInv t root c (flat root) []) := by
  constructor
  · intro h0
    simp only [CurInv, hn]
    exact ⟨hps, hrec, by simp, Or.inl ⟨h0, trivial⟩⟩
  · intro h1
    simp only [CurInv, hn]
    exact ⟨hps, hrec, by simp, Or.inr ⟨h1, trivial⟩⟩

/-! ## the anchor left by `next()` and `prev()` -/

theorem nextLoop_anchor (H : Nat) : ∀ (k : Nat) (c : Cursor) (n : Node),
    (∀ e, (nextLoop H k c n).2 = some e →
      (nextLoop H k c n).1.pkey = some e.1 ∧ (nextLoop H k c n).1.pread = true ∧
      (nextLoop H k c n).1.increasing = true) ∧
    ((nextLoop H k c n).2 = none → (nextLoop H k c n).1.pkey = c.pkey) := by
  intro k
  induction k with
  | zero => intro c n; simp [nextLoop]
  | succ k ih =>
    intro c n
    unfold nextLoop
    generalize (if c.recurse = true ∧ c.increasing = true then seekLeast H n c.idx c.parents
      else (n, c.idx, c.parents)) = st
    obtain ⟨n1, i1, ps1⟩ := st
    simp only []
    by_cases hlt : i1 < n1.elts.length
    · simp [hlt]
    · simp only [hlt, if_false]
      cases ps1 with
      | nil => simp
      | cons pj ps' =>
        obtain ⟨pn, pi⟩ := pj
        simp only []
        have := ih { c with node := some pn, idx := pi, parents := ps', recurse := false, increasing := true } pn
        simpa using this

theorem prevLoop_anchor (H : Nat) : ∀ (k : Nat) (c : Cursor) (n : Node),
    (∀ e, (prevLoop H k c n).2 = some e →
      (prevLoop H k c n).1.pkey = some e.1 ∧ (prevLoop H k c n).1.pread = true ∧
      (prevLoop H k c n).1.increasing = false) ∧
    ((prevLoop H k c n).2 = none → (prevLoop H k c n).1.pkey = c.pkey) := by
  intro k
  induction k with
  | zero => intro c n; simp [prevLoop]
  | succ k ih =>
    intro c n
    unfold prevLoop
    generalize (if c.recurse = true ∧ (!c.increasing) = true then seekGreatest H n c.idx c.parents
      else (n, c.idx, c.parents)) = st
    obtain ⟨n1, i1, ps1⟩ := st
    simp only []
    by_cases hge : i1 ≥ 1
    · simp [hge]
    · simp only [hge, if_false]
      cases ps1 with
      | nil => simp
      | cons pj ps' =>
        obtain ⟨pn, pi⟩ := pj
        simp only []
        have := ih { c with node := some pn, idx := pi, parents := ps', recurse := false, increasing := false } pn
        simpa using this

/-- the anchor after `next()`: the returned key, read, increasing; or no key when `None` was returned -/
theorem next_anchor (c : Cursor) (root : Node) :
    (∀ e, (c.next root).2 = some e →
      (c.next root).1.pkey = some e.1 ∧ (c.next root).1.pread = true ∧ (c.next root).1.increasing = true) ∧
    ((c.next root).2 = none → (c.next root).1.pkey = none) := by
  rw [next_eq_body]
  generalize hc1 : ({ c.maybeUnpark root with pkey := none } : Cursor) = c1
  have hk1 : c1.pkey = none := by rw [← hc1]
  unfold nextBody
  split
  · split
    · simp [hk1]
    · have := nextLoop_anchor (height root + 1)
        ((seekLeast (height root + 1) root 0 c1.parents).2.2.length + 2)
        { c1 with node := some (seekLeast (height root + 1) root 0 c1.parents).1,
                  idx := (seekLeast (height root + 1) root 0 c1.parents).2.1,
                  parents := (seekLeast (height root + 1) root 0 c1.parents).2.2 }
        (seekLeast (height root + 1) root 0 c1.parents).1
      simpa [hk1] using this
  · rename_i n hn
    have := nextLoop_anchor (height root + 1) (c1.parents.length + (height root + 1) + 2) c1 n
    simpa [hk1] using this

/-- the anchor after `prev()`: the returned key, read, decreasing; or no key when `None` was returned -/
theorem prev_anchor (c : Cursor) (root : Node) :
    (∀ e, (c.prev root).2 = some e →
      (c.prev root).1.pkey = some e.1 ∧ (c.prev root).1.pread = true ∧ (c.prev root).1.increasing = false) ∧
    ((c.prev root).2 = none → (c.prev root).1.pkey = none) := by
  rw [prev_eq_body]
  generalize hc1 : ({ c.maybeUnpark root with pkey := none } : Cursor) = c1
  have hk1 : c1.pkey = none := by rw [← hc1]
  unfold prevBody
  split
  · split
    · simp [hk1]
    · have := prevLoop_anchor (height root + 1)
        ((seekGreatest (height root + 1) root root.elts.length c1.parents).2.2.length + 2)
        { c1 with node := some (seekGreatest (height root + 1) root root.elts.length c1.parents).1,
                  idx := (seekGreatest (height root + 1) root root.elts.length c1.parents).2.1,
                  parents := (seekGreatest (height root + 1) root root.elts.length c1.parents).2.2 }
        (seekGreatest (height root + 1) root root.elts.length c1.parents).1
      simpa [hk1] using this
  · rename_i n hn
    have := prevLoop_anchor (height root + 1) (c1.parents.length + (height root + 1) + 2) c1 n
    simpa [hk1] using this

/-! ## the bound of a key is unique -/

theorem splitAt_unique {key : Nat} {b : Bool} {D R D' R' : List Elt} (hs : Sorted (D ++ R))
    (heq : D ++ R = D' ++ R') (h : SplitAt key b D R) (h' : SplitAt key b D' R') : D = D' ∧ R = R' := by
  -- compare lengths: an element in the longer prefix but the other suffix is on both sides of the bound
  have key_fact : ∀ (A B A' B' : List Elt), A ++ B = A' ++ B' → A.length < A'.length →
      ∃ x, x ∈ B ∧ x ∈ A' := by
    intro A B A' B' he hl
    have h1 : (A ++ B)[A.length]? = B[0]? := by
      rw [List.getElem?_append_right (Nat.le_refl _)]; simp
    have h2 : (A' ++ B')[A.length]? = A'[A.length]? := List.getElem?_append_left hl
    rw [he, h2] at h1
    rw [List.getElem?_eq_getElem hl] at h1
    cases B with
    | nil => simp at h1
    | cons y B =>
      simp at h1
      exact ⟨y, by simp, by rw [← h1]; exact List.getElem_mem _⟩
  have hlen : D.length = D'.length := by
    rcases Nat.lt_trichotomy D.length D'.length with hl | hl | hl
    · exfalso
      obtain ⟨x, hx1, hx2⟩ := key_fact D R D' R' heq hl
      unfold SplitAt at h h'
      cases b
      · simp only [Bool.false_eq_true, if_false] at h h'
        have := h.2 x hx1; have := h'.1 x hx2; omega
      · simp only [if_true] at h h'
        have := h.2 x hx1; have := h'.1 x hx2; omega
    · exact hl
    · exfalso
      obtain ⟨x, hx1, hx2⟩ := key_fact D' R' D R heq.symm hl
      unfold SplitAt at h h'
      cases b
      · simp only [Bool.false_eq_true, if_false] at h h'
        have := h'.2 x hx1; have := h.1 x hx2; omega
      · simp only [if_true] at h h'
        have := h'.2 x hx1; have := h.1 x hx2; omega
  exact List.append_inj heq hlen

end Model.BTree

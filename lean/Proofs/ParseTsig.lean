import Proofs.ParseMessageOpt
/-! Parsing back the TSIG record (MAC abstract: whatever octets it holds; validation is C14's business). -/
namespace Model

variable {Rs : RelSpec}

structure TsigOk (Rs : RelSpec) (t : Tsig) : Prop where
  name : NameOk Rs none t.name
  algWf : WfName t.alg
  algAbs : isAbs t.alg = true
  time : t.time < 281474976710656
  fudge : t.fudge < 65536
  mac : t.mac.length < 65536
  origId : t.origId < 65536
  error : t.error < 65536
  other : t.other.length < 65536
  total : (tsigRdataWire t).length < 65536

/-- equal up to the ASCII case of the (compressible) owner name -/
def Tsig.sim (Rs : RelSpec) (a b : Tsig) : Prop :=
  Rs.R a.name b.name ∧ a.alg = b.alg ∧ a.time = b.time ∧ a.fudge = b.fudge ∧ a.mac = b.mac ∧ a.origId = b.origId ∧
    a.error = b.error ∧ a.other = b.other

theorem u48_length (n : Nat) : (u48 n).length = 6 := by simp [u48, u16, u32]

/-- TSIG RDATA is parsed back exactly -/
theorem parseTsigRData_wire (A post : Bytes) (t : Tsig) (owner : Name) (ht : TsigOk Rs t) :
    parseTsigRData (A ++ tsigRdataWire t ++ post) A.length (A.length + (tsigRdataWire t).length) owner =
      .ok { t with name := owner } := by
  obtain ⟨ls, halg, hpl⟩ := abs_split t.alg ht.algWf ht.algAbs
  obtain ⟨na, hna⟩ : ∃ na, na = (toWire t.alg).length := ⟨_, rfl⟩
  have hW : A ++ tsigRdataWire t ++ post =
      A ++ toWire t.alg ++ (u48 t.time ++ u16 t.fudge ++ u16 t.mac.length ++ t.mac ++ u16 t.origId ++ u16 t.error
        ++ u16 t.other.length ++ t.other ++ post) := by simp [tsigRdataWire, List.append_assoc]
  have hlen : (tsigRdataWire t).length = na + 10 + t.mac.length + 6 + t.other.length := by
    simp [tsigRdataWire, u48_length, u16, hna]; omega
  have hlW : (A ++ tsigRdataWire t ++ post).length = A.length + (tsigRdataWire t).length + post.length := by simp; omega
  -- the algorithm name
  have hd := Dec_plain ls hpl A (u48 t.time ++ u16 t.fudge ++ u16 t.mac.length ++ t.mac ++ u16 t.origId ++ u16 t.error
        ++ u16 t.other.length ++ t.other ++ post) A.length
  rw [← halg, ← hW] at hd
  have hg := getName_of_Dec hd (A.length + (tsigRdataWire t).length) (by rw [hlen]; omega) (by rw [hlW]; omega)
    (by rw [← halg]; exact ht.algWf)
  rw [← halg, ← hna] at hg
  -- the fixed fields
  have s1 : slice (A ++ tsigRdataWire t ++ post) (A.length + na) 6 = u48 t.time :=
    slice_at _ (A ++ toWire t.alg) _ (u16 t.fudge ++ u16 t.mac.length ++ t.mac ++ u16 t.origId ++ u16 t.error
        ++ u16 t.other.length ++ t.other ++ post) (by rw [hW]; simp [List.append_assoc]) _ _ (by simp [hna]) (by simp [u48_length])
  have s2 : slice (A ++ tsigRdataWire t ++ post) (A.length + na + 6) 2 = u16 t.fudge :=
    slice_at _ (A ++ toWire t.alg ++ u48 t.time) _ (u16 t.mac.length ++ t.mac ++ u16 t.origId ++ u16 t.error
        ++ u16 t.other.length ++ t.other ++ post) (by rw [hW]; simp [List.append_assoc]) _ _ (by simp [hna, u48_length]; omega) rfl
  have s3 : slice (A ++ tsigRdataWire t ++ post) (A.length + na + 8) 2 = u16 t.mac.length :=
    slice_at _ (A ++ toWire t.alg ++ u48 t.time ++ u16 t.fudge) _ (t.mac ++ u16 t.origId ++ u16 t.error
        ++ u16 t.other.length ++ t.other ++ post) (by rw [hW]; simp [List.append_assoc]) _ _ (by simp [hna, u48_length, u16]; omega) rfl
  have s4 : slice (A ++ tsigRdataWire t ++ post) (A.length + na + 10) t.mac.length = t.mac :=
    slice_at _ (A ++ toWire t.alg ++ u48 t.time ++ u16 t.fudge ++ u16 t.mac.length) _ (u16 t.origId ++ u16 t.error
        ++ u16 t.other.length ++ t.other ++ post) (by rw [hW]; simp [List.append_assoc]) _ _ (by simp [hna, u48_length, u16]; omega) rfl
  have s5 : slice (A ++ tsigRdataWire t ++ post) (A.length + na + 10 + t.mac.length) 2 = u16 t.origId :=
    slice_at _ (A ++ toWire t.alg ++ u48 t.time ++ u16 t.fudge ++ u16 t.mac.length ++ t.mac) _ (u16 t.error
        ++ u16 t.other.length ++ t.other ++ post) (by rw [hW]; simp [List.append_assoc]) _ _ (by simp [hna, u48_length, u16]; omega) rfl
  have s6 : slice (A ++ tsigRdataWire t ++ post) (A.length + na + 10 + t.mac.length + 2) 2 = u16 t.error :=
    slice_at _ (A ++ toWire t.alg ++ u48 t.time ++ u16 t.fudge ++ u16 t.mac.length ++ t.mac ++ u16 t.origId) _
      (u16 t.other.length ++ t.other ++ post) (by rw [hW]; simp [List.append_assoc]) _ _ (by simp [hna, u48_length, u16]; omega) rfl
  have s7 : slice (A ++ tsigRdataWire t ++ post) (A.length + na + 10 + t.mac.length + 4) 2 = u16 t.other.length :=
    slice_at _ (A ++ toWire t.alg ++ u48 t.time ++ u16 t.fudge ++ u16 t.mac.length ++ t.mac ++ u16 t.origId ++ u16 t.error) _
      (t.other ++ post) (by rw [hW]; simp [List.append_assoc]) _ _ (by simp [hna, u48_length, u16]; omega) rfl
  have s8 : slice (A ++ tsigRdataWire t ++ post) (A.length + na + 10 + t.mac.length + 4 + 2) t.other.length = t.other :=
    slice_at _ (A ++ toWire t.alg ++ u48 t.time ++ u16 t.fudge ++ u16 t.mac.length ++ t.mac ++ u16 t.origId ++ u16 t.error
      ++ u16 t.other.length) _ post (by rw [hW]; simp [List.append_assoc]) _ _ (by simp [hna, u48_length, u16]; omega) rfl
  unfold parseTsigRData
  rw [hg]
  have c1 : ¬ (A.length + (tsigRdataWire t).length - (A.length + na) < 10) := by rw [hlen]; omega
  simp only [c1, if_false, s1, s2, s3, beVal_u48 _ ht.time, beVal_u16 _ ht.fudge, beVal_u16 _ ht.mac]
  have c2 : ¬ (t.mac.length > A.length + (tsigRdataWire t).length - (A.length + na + 10)) := by rw [hlen]; omega
  simp only [c2, if_false, s4]
  have c3 : ¬ (A.length + (tsigRdataWire t).length - (A.length + na + 10 + t.mac.length) < 4) := by rw [hlen]; omega
  simp only [c3, if_false, s5, s6, beVal_u16 _ ht.origId, beVal_u16 _ ht.error]
  have c4 : ¬ (A.length + (tsigRdataWire t).length - (A.length + na + 10 + t.mac.length + 4) < 2) := by rw [hlen]; omega
  simp only [c4, if_false, s7, beVal_u16 _ ht.other]
  have c5 : ¬ (t.other.length > A.length + (tsigRdataWire t).length - (A.length + na + 10 + t.mac.length + 4 + 2)) := by
    rw [hlen]; omega
  have c6 : ¬ (A.length + na + 10 + t.mac.length + 4 + 2 + t.other.length ≠ A.length + (tsigRdataWire t).length) := by
    rw [hlen]; omega
  simp only [c5, c6, if_false, s8]

end Model

namespace Model

variable {Rs : RelSpec}

theorem tsigRRset_namesOk' (t : Tsig) (h : TsigOk Rs t) : (tsigRRset t).namesOk Rs none :=
  tsigRRset_namesOk none t h.name

/-- the TSIG record written last is parsed into `Message.tsig` (a key being available) -/
theorem parseRR_tsig (cfg : PCfg) (horg : cfg.origin = none) (hkey : cfg.hasKey = true) (upd : Bool) (A post : Bytes) (t : CTable)
    (ts : Tsig) (q : Bytes × CTable × Nat) (count i : Nat) (st : PState) (hcur : st.cur = A.length)
    (hs : TableSound Rs.R A t) (ht : TsigOk Rs ts) (hpos : i = count - 1)
    (h : rrsetExt A.length t none (tsigRRset ts) = .ok q) :
    ∃ ts', ts'.sim Rs ts ∧
      parseRR cfg upd (A ++ q.1 ++ post) ConstsC03.secADDITIONAL count i st =
        .ok { st with cur := A.length + q.1.length, tsig := some ts' } ∧ q.2.2 = 1 := by
  obtain ⟨qe, qn, qk⟩ := q
  unfold rrsetExt at h
  simp only [tsigRRset, List.length_cons, List.length_nil] at h
  simp only [Nat.add_eq_zero_iff, rdsExt, rrExt] at h
  simp only [show ¬ (True ∧ 1 = 0) by simp, if_false] at h
  cases h1 : nameExt A.length t ts.name none with
  | none => rw [h1] at h; simp at h
  | some q1 =>
    rw [h1] at h
    simp only [rdataExt, RRset.wireClass] at h
    have hnb : ¬ (tsigRdataWire ts).length > 65535 := by have := ht.total; omega
    simp only [hnb, if_false, List.append_nil, Nat.zero_add] at h
    cases h
    obtain ⟨_, hat, hwf⟩ := nameExt_at A t ts.name q1 ht.name hs h1
    have hW1 : A ++ (q1.1 ++ u16 ConstsC03.typeTSIG ++ u16 ConstsC03.classANY ++ u32 0 ++ u16 (tsigRdataWire ts).length ++ tsigRdataWire ts) ++ post
        = (A ++ q1.1) ++ (u16 ConstsC03.typeTSIG ++ u16 ConstsC03.classANY ++ u32 0 ++ u16 (tsigRdataWire ts).length ++ tsigRdataWire ts ++ post) := by
      simp [List.append_assoc]
    have hlW : (A ++ (q1.1 ++ u16 ConstsC03.typeTSIG ++ u16 ConstsC03.classANY ++ u32 0 ++ u16 (tsigRdataWire ts).length ++ tsigRdataWire ts) ++ post).length
        = A.length + q1.1.length + 10 + (tsigRdataWire ts).length + post.length := by simp [u16, u32]; omega
    have hat' := hat.mono (u16 ConstsC03.typeTSIG ++ u16 ConstsC03.classANY ++ u32 0 ++ u16 (tsigRdataWire ts).length ++ tsigRdataWire ts ++ post)
    rw [← hW1] at hat'
    obtain ⟨n', hg, hn'⟩ := getName_of_NameAt hat' hwf _ (by rw [hlW]; omega) (Nat.le_refl _)
    have st1 : slice (A ++ (q1.1 ++ u16 ConstsC03.typeTSIG ++ u16 ConstsC03.classANY ++ u32 0 ++ u16 (tsigRdataWire ts).length ++ tsigRdataWire ts) ++ post)
        (A.length + q1.1.length) 2 = u16 ConstsC03.typeTSIG :=
      slice_at _ (A ++ q1.1) _ (u16 ConstsC03.classANY ++ u32 0 ++ u16 (tsigRdataWire ts).length ++ tsigRdataWire ts ++ post)
        (by simp [List.append_assoc]) _ _ (by simp) rfl
    have st2 : slice (A ++ (q1.1 ++ u16 ConstsC03.typeTSIG ++ u16 ConstsC03.classANY ++ u32 0 ++ u16 (tsigRdataWire ts).length ++ tsigRdataWire ts) ++ post)
        (A.length + q1.1.length + 2) 2 = u16 ConstsC03.classANY :=
      slice_at _ (A ++ q1.1 ++ u16 ConstsC03.typeTSIG) _ (u32 0 ++ u16 (tsigRdataWire ts).length ++ tsigRdataWire ts ++ post)
        (by simp [List.append_assoc]) _ _ (by simp [u16]; omega) rfl
    have st3 : slice (A ++ (q1.1 ++ u16 ConstsC03.typeTSIG ++ u16 ConstsC03.classANY ++ u32 0 ++ u16 (tsigRdataWire ts).length ++ tsigRdataWire ts) ++ post)
        (A.length + q1.1.length + 4) 4 = u32 0 :=
      slice_at _ (A ++ q1.1 ++ u16 ConstsC03.typeTSIG ++ u16 ConstsC03.classANY) _ (u16 (tsigRdataWire ts).length ++ tsigRdataWire ts ++ post)
        (by simp [List.append_assoc]) _ _ (by simp [u16]; omega) rfl
    have st4 : slice (A ++ (q1.1 ++ u16 ConstsC03.typeTSIG ++ u16 ConstsC03.classANY ++ u32 0 ++ u16 (tsigRdataWire ts).length ++ tsigRdataWire ts) ++ post)
        (A.length + q1.1.length + 8) 2 = u16 (tsigRdataWire ts).length :=
      slice_at _ (A ++ q1.1 ++ u16 ConstsC03.typeTSIG ++ u16 ConstsC03.classANY ++ u32 0) _ (tsigRdataWire ts ++ post)
        (by simp [List.append_assoc]) _ _ (by simp [u16, u32]; omega) rfl
    have h16a : ConstsC03.typeTSIG < 65536 := by decide
    have h16b : ConstsC03.classANY < 65536 := by decide
    -- the RDATA
    have hW2 : A ++ (q1.1 ++ u16 ConstsC03.typeTSIG ++ u16 ConstsC03.classANY ++ u32 0 ++ u16 (tsigRdataWire ts).length ++ tsigRdataWire ts) ++ post
        = (A ++ q1.1 ++ u16 ConstsC03.typeTSIG ++ u16 ConstsC03.classANY ++ u32 0 ++ u16 (tsigRdataWire ts).length) ++ tsigRdataWire ts ++ post := by
      simp [List.append_assoc]
    have hlA' : (A ++ q1.1 ++ u16 ConstsC03.typeTSIG ++ u16 ConstsC03.classANY ++ u32 0 ++ u16 (tsigRdataWire ts).length).length
        = A.length + q1.1.length + 10 := by simp [u16, u32]; omega
    have hpt := parseTsigRData_wire (A ++ q1.1 ++ u16 ConstsC03.typeTSIG ++ u16 ConstsC03.classANY ++ u32 0 ++ u16 (tsigRdataWire ts).length)
      post ts n' ht
    rw [← hW2, hlA'] at hpt
    refine ⟨{ ts with name := n' }, ⟨hn', rfl, rfl, rfl, rfl, rfl, rfl, rfl⟩, ?_, rfl⟩
    unfold parseRR
    rw [hcur, hg]
    simp only [horg]
    have c10 : ¬ ((A ++ (q1.1 ++ u16 ConstsC03.typeTSIG ++ u16 ConstsC03.classANY ++ u32 0 ++ u16 (tsigRdataWire ts).length ++ tsigRdataWire ts) ++ post).length
        - (A.length + q1.1.length) < 10) := by rw [hlW]; omega
    simp only [c10, if_false, st1, st2, st3, st4, beVal_u16 _ h16a, beVal_u16 _ h16b, beVal_u32 0 (by omega),
      beVal_u16 _ ht.total]
    have hne : ConstsC03.typeTSIG ≠ ConstsC03.typeOPT := by decide
    simp only [or_true, if_true, parseSpecialHeader, hne, if_false, ne_eq, not_true_eq_false, false_or, hpos]
    have clen : ¬ ((tsigRdataWire ts).length > (A ++ (q1.1 ++ u16 ConstsC03.typeTSIG ++ u16 ConstsC03.classANY ++ u32 0 ++ u16 (tsigRdataWire ts).length ++ tsigRdataWire ts) ++ post).length
        - (A.length + q1.1.length + 10)) := by rw [hlW]; omega
    simp only [clen, if_false, hpt, hkey, if_true, Bool.false_eq_true]
    have hfin : A.length + (q1.1 ++ u16 ConstsC03.typeTSIG ++ u16 ConstsC03.classANY ++ u32 0 ++ u16 (tsigRdataWire ts).length ++ tsigRdataWire ts).length
        = A.length + q1.1.length + 10 + (tsigRdataWire ts).length := by simp [u16, u32]; omega
    rw [hfin]

end Model

namespace Model

variable {Rs : RelSpec}

/-- `add_rrset(ADDITIONAL, rr)` that succeeded, in relative form -/
theorem addRRset3_shape (s : RState) (rr : RRset) (s' : RState)
    (h : stepToExcept (s.addRRset ConstsC03.secADDITIONAL rr) = .ok s') :
    ∃ p, rrsetExt s.out.length s.tbl s.origin rr = .ok p ∧
      s' = { s with sec := ConstsC03.secADDITIONAL, out := s.out ++ p.1, tbl := s.tbl ++ p.2.1,
                    counts := s.counts.bump ConstsC03.secADDITIONAL p.2.2 } := by
  have hrel := addItem_rel s (.rr ConstsC03.secADDITIONAL rr)
  simp only [RState.addItem, Item.sec, itemExt] at hrel
  rw [hrel] at h
  cases hsec : s.setSection ConstsC03.secADDITIONAL with
  | error e => rw [hsec] at h; simp [stepToExcept] at h
  | ok s0 =>
    obtain ⟨rfl, _⟩ := setSection_ok hsec
    rw [hsec] at h
    simp only at h
    cases hx : rrsetExt s.out.length s.tbl s.origin rr with
    | error e => rw [hx] at h; simp [stepToExcept] at h
    | ok p =>
      rw [hx] at h
      simp only at h
      exact ⟨p, rfl, endTrack_stepOk h⟩

/-- what the OPT step of the tail appends -/
def OptPart (len : Nat) (tbl : CTable) (origin : Option Name) (opt : Option EOpt) (eo : Bytes) (to : CTable) (bo : Nat) : Prop :=
  match opt with
  | none => eo = [] ∧ to = [] ∧ bo = 0
  | some o => ∃ p, rrsetExt len tbl origin (optRRset o) = .ok p ∧ eo = p.1 ∧ to = p.2.1 ∧ bo = 1 ∧ p.2.2 = 1

def TsigPart (len : Nat) (tbl : CTable) (origin : Option Name) (tsig : Option Tsig) (et : Bytes) (bt : Nat) : Prop :=
  match tsig with
  | none => et = [] ∧ bt = 0
  | some t => ∃ p, rrsetExt len tbl origin (tsigRRset t) = .ok p ∧ et = p.1 ∧ bt = 1 ∧ p.2.2 = 1

theorem rrsetExt_one_count {off : Nat} {t : CTable} {origin : Option Name} {r : RRset} {p : Bytes × CTable × Nat}
    (hlen : r.rdatas.length = 1) (h : rrsetExt off t origin r = .ok p) : p.2.2 = 1 := by
  unfold rrsetExt at h
  simp only [hlen, show ¬ (1 = 0) by omega, if_false] at h
  split at h
  · simp at h
  · simp at h; rw [← h]

/-- the tail of `to_wire` (no padding) in relative form -/
theorem finish_shape (r : RState) (opt : Option EOpt) (tsig : Option Tsig) (a b : Nat) (r' : RState)
    (h12 : 12 ≤ r.out.length) (h : r.finish opt tsig 0 a b = .ok r') :
    ∃ eo to bo et bt, OptPart r.out.length r.tbl r.origin opt eo to bo ∧
      TsigPart (r.out.length + eo.length) [] r.origin tsig et bt ∧
      r'.out = u16 r.id ++ u16 r.flags ++ u16 r.counts.c0 ++ u16 r.counts.c1 ++ u16 r.counts.c2
        ++ u16 (r.counts.c3 + bo + bt) ++ r.out.drop 12 ++ eo ++ et := by
  unfold RState.finish at h
  simp only at h
  -- the OPT step
  have key : ∀ r5 : RState, (match opt with
      | none => (Except.ok r.releaseReserved : Except RErr RState)
      | some o => stepToExcept (r.releaseReserved.addOpt o 0 a b)) = .ok r5 →
      ∃ eo to bo, OptPart r.out.length r.tbl r.origin opt eo to bo ∧ r5.out = r.out ++ eo ∧ r5.tbl = r.tbl ++ to ∧
        r5.origin = r.origin ∧ r5.id = r.id ∧ r5.flags = r.flags ∧
        r5.counts = { r.counts with c3 := r.counts.c3 + bo } := by
    intro r5 h5
    cases opt with
    | none =>
      simp at h5; subst h5
      exact ⟨[], [], 0, ⟨rfl, rfl, rfl⟩, by simp [RState.releaseReserved], by simp [RState.releaseReserved], rfl, rfl, rfl, rfl⟩
    | some o =>
      simp only [addOpt_zero, RState.addOptCore, ne_eq, not_true_eq_false, if_false] at h5
      obtain ⟨p, hp, hs5⟩ := addRRset3_shape r.releaseReserved (optRRset o) r5 h5
      have hp1 := rrsetExt_one_count (by simp [optRRset]) hp
      subst hs5
      refine ⟨p.1, p.2.1, 1, ⟨p, hp, rfl, rfl, rfl, hp1⟩, rfl, rfl, rfl, rfl, rfl, ?_⟩
      simp [Counts.bump, secADD, hp1, RState.releaseReserved]
  split at h
  · simp at h
  · rename_i r5 h5
    obtain ⟨eo, to, bo, hopart, ho5, ht5, hor5, hi5, hf5, hc5⟩ := key r5 h5
    have hl5 : 12 ≤ r5.out.length := by rw [ho5]; simp; omega
    cases tsig with
    | none =>
      simp at h; subst h
      refine ⟨eo, to, bo, [], 0, hopart, ⟨rfl, rfl⟩, ?_⟩
      simp only [RState.writeHeader, hi5, hf5, hc5, ho5]
      rw [List.drop_append_of_le_length h12]
      simp
    | some t =>
      simp only at h
      cases h6 : stepToExcept (({ r5.writeHeader with tbl := [] } : RState).addRRset ConstsC03.secADDITIONAL (tsigRRset t)) with
      | error e => rw [h6] at h; simp at h
      | ok r6 =>
        rw [h6] at h
        simp at h; subst h
        obtain ⟨p, hp, hs6⟩ := addRRset3_shape ({ r5.writeHeader with tbl := [] } : RState) (tsigRRset t) r6 h6
        have hp1 := rrsetExt_one_count (by simp [tsigRRset]) hp
        have hwl : ({ r5.writeHeader with tbl := [] } : RState).out.length = r.out.length + eo.length := by
          show r5.writeHeader.out.length = _
          rw [writeHeader_length r5 hl5, ho5]; simp
        have hwt : ({ r5.writeHeader with tbl := [] } : RState).tbl = [] := rfl
        have hwo : ({ r5.writeHeader with tbl := [] } : RState).origin = r.origin := by simp [RState.writeHeader, hor5]
        rw [hwl, hwt, hwo] at hp
        refine ⟨eo, to, bo, p.1, 1, hopart, ⟨p, hp, rfl, rfl, hp1⟩, ?_⟩
        subst hs6
        simp only [RState.writeHeader, hi5, hf5, hc5, ho5, Counts.bump, secADD, hp1]
        simp
        rw [List.drop_append_of_le_length h12]
        simp [u16]

end Model

namespace Model

variable {Rs : RelSpec}

/-- wire form of any message rendered without padding: header, items, OPT record, TSIG record -/
theorem toWire_shape_full (m : Message) (lim : Nat) (w : Bytes) (hpad : m.pad = 0) (h : m.toWire lim false = .ok w) :
    ∃ q, itemsExt m.origin 12 [] m.items = .ok q ∧ ∃ eo to bo et bt,
      OptPart (12 + q.1.length) q.2 m.origin m.opt eo to bo ∧
      TsigPart (12 + q.1.length + eo.length) [] m.origin m.tsig et bt ∧
      w = hdrBytes m (rrCount m.ad + bo + bt) ++ q.1 ++ eo ++ et := by
  rw [toWire_eq] at h
  cases hb : m.tsigReserve with
  | error e => rw [hb] at h; simp at h
  | ok b =>
    rw [hb] at h
    simp only at h
    rw [renderSections_eq] at h
    cases hbase : m.base (clampSize lim m.requestPayload) m.optReserve b with
    | error e => rw [hbase] at h; simp at h
    | ok r2 =>
      rw [hbase] at h
      simp only at h
      obtain ⟨c0, i0, f0⟩ := base_fields m _ _ _ r2 hbase
      obtain ⟨hi2, _, _⟩ := base_inv m _ _ _ r2 hbase
      obtain ⟨o2, t2, og2⟩ := base_out m _ _ _ r2 hbase
      cases hit : r2.addItems m.items with
      | error e => rw [hit] at h; simp at h
      | ok p =>
        obtain ⟨r3, big⟩ := p
        rw [hit] at h
        simp only at h
        cases big with
        | true => simp [RState.afterItems] at h
        | false =>
          simp only [RState.afterItems, Bool.false_eq_true, if_false] at h
          obtain ⟨q, hq, ho, htb, hor⟩ := addItems_rel _ _ _ hit
          have hc := addItems_counts _ _ _ hit
          obtain ⟨_, _, _, i3, f3, _, _⟩ := addItems_inv _ _ _ _ hi2 hit
          rw [c0, countItems_message] at hc
          rw [o2, t2, og2] at hq
          simp only [List.length_replicate] at hq
          refine ⟨q, hq, ?_⟩
          unfold finishOut at h
          rw [hpad] at h
          cases hf : r3.finish m.opt m.tsig 0 m.optReserve b with
          | error e => rw [hf] at h; simp at h
          | ok r' =>
            rw [hf] at h
            simp at h
            have h12 : 12 ≤ r3.out.length := by rw [ho, o2]; simp <;> omega
            obtain ⟨eo, to, bo, et, bt, hop, htp, hout⟩ := finish_shape r3 m.opt m.tsig _ _ r' h12 hf
            have hl3 : r3.out.length = 12 + q.1.length := by rw [ho, o2]; simp <;> omega
            have ht3 : r3.tbl = q.2 := by rw [htb, t2]; simp
            have ho3 : r3.origin = m.origin := by rw [hor, og2]
            rw [hl3, ht3, ho3] at hop
            rw [hl3, ho3] at htp
            refine ⟨eo, to, bo, et, bt, hop, htp, ?_⟩
            rw [← h, hout, hc, i3, i0, f3, f0, ho, o2]
            simp only [hdrBytes]
            rw [List.drop_append_of_le_length (by simp)]
            simp [List.append_assoc]

/-- well-formed message, absolute names, not an update, no padding; with or without OPT, with or without TSIG -/
structure MsgOkT (Rs : RelSpec) (m : Message) : Prop where
  origin : m.origin = none
  id : m.id < 65536
  flags : m.flags < 65536
  notUpdate : isUpdate m.flags = false
  opt : ∀ o, m.opt = some o → OptOk o
  pad : m.pad = 0
  tsig : ∀ t, m.tsig = some t → TsigOk Rs t
  q : ∀ r ∈ m.q, QOk Rs r
  an : ∀ r ∈ m.an, RRsetOk Rs r
  au : ∀ r ∈ m.au, RRsetOk Rs r
  ad : ∀ r ∈ m.ad, RRsetOk Rs r
  keysAn : m.an.Pairwise (fun a b => keyMatch b.name b.rdclass b.rdtype b.covers none a = false)
  keysAu : m.au.Pairwise (fun a b => keyMatch b.name b.rdclass b.rdtype b.covers none a = false)
  keysAd : m.ad.Pairwise (fun a b => keyMatch b.name b.rdclass b.rdtype b.covers none a = false)
  counts : m.q.length < 65536 ∧ rrCount m.an < 65536 ∧ rrCount m.au < 65536 ∧ rrCount m.ad + 2 < 65536

def optSim (Rs : RelSpec) : Option Tsig → Option Tsig → Prop
  | none, none => True
  | some a, some b => a.sim Rs b
  | _, _ => False

/-- equal up to the ASCII case of names (owner of the TSIG record included) -/
def Message.simT (Rs : RelSpec) (a b : Message) : Prop :=
  a.id = b.id ∧ a.flags = b.flags ∧ SimList (RRset.sim Rs) a.q b.q ∧ SimList (RRset.sim Rs) a.an b.an ∧
    SimList (RRset.sim Rs) a.au b.au ∧ SimList (RRset.sim Rs) a.ad b.ad ∧ a.opt = b.opt ∧ optSim Rs a.tsig b.tsig

/-- the records after the last record set of ADDITIONAL: the OPT record, then the TSIG record -/
theorem parse_tail (cfg : PCfg) (horg : cfg.origin = none) (hkey : cfg.hasKey = true) (upd : Bool) (A : Bytes) (t : CTable)
    (opt : Option EOpt) (tsig : Option Tsig) (eo et : Bytes) (to : CTable) (bo bt nad : Nat) (st : PState)
    (hcur : st.cur = A.length) (hs : TableSound Rs.R A t) (hso : st.opt = none) (hst : st.tsig = none)
    (hoo : ∀ o, opt = some o → OptOk o) (hto : ∀ ts, tsig = some ts → TsigOk Rs ts)
    (hop : OptPart A.length t none opt eo to bo) (htp : TsigPart (A.length + eo.length) [] none tsig et bt) :
    ∃ ts', optSim Rs ts' tsig ∧
      parseSection cfg upd (A ++ eo ++ et) ConstsC03.secADDITIONAL (nad + bo + bt) (bo + bt) nad st =
        .ok { st with cur := A.length + eo.length + et.length, opt := opt, tsig := ts' } := by
  -- the OPT record, if any
  have step1 : ∃ st1 : PState, parseSection cfg upd (A ++ eo ++ et) ConstsC03.secADDITIONAL (nad + bo + bt) bo nad st = .ok st1 ∧
      st1 = { st with cur := A.length + eo.length, opt := opt } ∧ TableSound Rs.R (A ++ eo) (t ++ to) := by
    cases opt with
    | none =>
      obtain ⟨rfl, rfl, rfl⟩ := hop
      refine ⟨st, by simp [parseSection], ?_, by simpa using hs⟩
      cases st; simp at hcur hso ⊢; exact ⟨hcur, hso⟩
    | some o =>
      obtain ⟨p, hp, rfl, rfl, rfl, _⟩ := hop
      obtain ⟨hpo, hsnd, _⟩ := parseRR_opt cfg horg upd A et t o p (nad + 1 + bt) nad st hcur hs (hoo o rfl) hso hp
      exact ⟨_, by simp only [parseSection]; rw [hpo], rfl, hsnd⟩
  obtain ⟨st1, hp1, hst1, hs1⟩ := step1
  rw [parseSection_add, hp1]
  simp only
  subst hst1
  cases tsig with
  | none =>
    obtain ⟨rfl, rfl⟩ := htp
    exact ⟨st.tsig, by rw [hst]; trivial, by simp [parseSection]⟩
  | some ts =>
    obtain ⟨p, hp, rfl, rfl, _⟩ := htp
    have hl : (A ++ eo).length = A.length + eo.length := by simp
    rw [← hl] at hp
    obtain ⟨ts', hsim, hpt, _⟩ := parseRR_tsig cfg horg hkey upd (A ++ eo) [] [] ts p (nad + bo + 1) (nad + bo)
      { st with cur := A.length + eo.length, opt := opt } (by simp) (tableSound_nil _) (hto ts rfl) (by omega) hp
    refine ⟨some ts', hsim, ?_⟩
    simp only [parseSection]
    simp only [List.append_nil] at hpt
    rw [hpt]
    simp [Nat.add_assoc]

end Model

namespace Model

variable {Rs : RelSpec}

/-- render-then-parse: absolute names, any opcode but UPDATE, with or without OPT, with or without TSIG -/
theorem parse_toWire_full (m : Message) (lim : Nat) (w : Bytes) (hok : MsgOkT Rs m) (h : m.toWire lim false = .ok w)
    (cfg : PCfg) (horg : cfg.origin = none) (hnorr : cfg.oneRRPerRRset = false) (hkey : cfg.hasKey = true) :
    ∃ m', parseMessage cfg w = .ok m' ∧ m'.simT Rs m := by
  obtain ⟨q, hq, eo, to, bo, et, bt, hop, htp, hw⟩ := toWire_shape_full m lim w hok.pad h
  rw [hok.origin] at hq hop htp
  obtain ⟨cq, can, cau, cad⟩ := hok.counts
  have hbo : bo ≤ 1 := by
    unfold OptPart at hop
    cases hmo : m.opt with
    | none => rw [hmo] at hop; have := hop.2.2; omega
    | some o => rw [hmo] at hop; obtain ⟨p, _, _, _, hb, _⟩ := hop; omega
  have hbt : bt ≤ 1 := by
    unfold TsigPart at htp
    cases hmt : m.tsig with
    | none => rw [hmt] at htp; have := htp.2; omega
    | some t => rw [hmt] at htp; obtain ⟨p, _, _, hb, _⟩ := htp; omega
  obtain ⟨qs', an', au', ad', hsq, hsa, hsu, hsd, hsnd, k1, k2, k3, hp0, hp1, hp2, hp3⟩ :=
    parse_body cfg horg hnorr m hok.q hok.an hok.au hok.ad hok.keysAn hok.keysAu hok.keysAd
      (hdrBytes m (rrCount m.ad + bo + bt)) (hdrBytes_length _ _) q hq (eo ++ et) (rrCount m.an) (rrCount m.au)
      (rrCount m.ad + bo + bt)
  have hw1 : hdrBytes m (rrCount m.ad + bo + bt) ++ q.1 ++ (eo ++ et) = w := by rw [hw]; simp [List.append_assoc]
  rw [hw1] at hp0 hp1 hp2 hp3
  obtain ⟨s0, s2, s4, s6, s8, s10⟩ := parse_header m (rrCount m.ad + bo + bt) (q.1 ++ eo ++ et)
  have hw2 : hdrBytes m (rrCount m.ad + bo + bt) ++ (q.1 ++ eo ++ et) = w := by rw [hw]; simp [List.append_assoc]
  rw [hw2] at s0 s2 s4 s6 s8 s10
  -- the tail
  have hlA : (hdrBytes m (rrCount m.ad + bo + bt) ++ q.1).length = 12 + q.1.length := by simp [hdrBytes_length]
  rw [← hlA] at hop htp
  obtain ⟨ts', hts, hpt⟩ := parse_tail cfg horg hkey false (hdrBytes m (rrCount m.ad + bo + bt) ++ q.1) q.2 m.opt m.tsig eo et to
    bo bt (rrCount m.ad) { cur := 12 + q.1.length, q := qs', an := an', au := au', ad := ad' }
    (by simp [hdrBytes_length]) hsnd rfl rfl hok.opt hok.tsig hop htp
  have hw3 : hdrBytes m (rrCount m.ad + bo + bt) ++ q.1 ++ eo ++ et = w := by rw [hw]
  rw [hw3] at hpt
  refine ⟨{ id := m.id, flags := m.flags, origin := cfg.origin, q := qs', an := an', au := au', ad := ad', opt := m.opt,
            tsig := ts' }, ?_, rfl, rfl, hsq, hsa, hsu, hsd, rfl, hts⟩
  unfold parseMessage
  have hwl : ¬ w.length < 12 := by rw [hw]; simp [hdrBytes_length] <;> omega
  simp only [hwl, if_false, s0, s2, s4, s6, s8, s10, beVal_u16 _ hok.id, beVal_u16 _ hok.flags, beVal_u16 _ cq,
    beVal_u16 _ can, beVal_u16 _ cau, beVal_u16 _ (show rrCount m.ad + bo + bt < 65536 by omega), hok.notUpdate, hp0, hp1, hp2]
  have hsplit : rrCount m.ad + bo + bt = rrCount m.ad + (bo + bt) := by omega
  rw [show parseSection cfg false w 3 (rrCount m.ad + bo + bt) (rrCount m.ad + bo + bt) 0 { cur := k3, q := qs', an := an', au := au' }
      = parseSection cfg false w 3 (rrCount m.ad + bo + bt) (rrCount m.ad + (bo + bt)) 0 { cur := k3, q := qs', an := an', au := au' } by rw [hsplit]]
  rw [parseSection_add, hp3]
  simp only [secADD, Nat.zero_add] at hpt ⊢
  rw [hpt]
  simp
  intro _
  rw [hw]; simp only [List.length_append, hdrBytes_length]; omega

end Model

import Proofs.RenderSize
/-! Truncation: with `prefer_truncation` the rendering is exactly the untruncated rendering of the message cut
to its first `k` record sets (TC added iff the first dropped set lies before ADDITIONAL). -/
namespace Model

/-! ### the header flags do not influence the section loops -/

def Step.withFlags (f : Nat) : Step → Step
  | .ok s => .ok { s with flags := f }
  | .tooBig s => .tooBig { s with flags := f }
  | .err e => .err e

theorem setSection_flags (s : RState) (f sec : Nat) :
    ({ s with flags := f } : RState).setSection sec =
      match s.setSection sec with
      | .ok s1 => .ok { s1 with flags := f }
      | .error e => .error e := by
  unfold RState.setSection
  simp only
  split
  · split <;> rfl
  · rfl

theorem endTrack_flags (s : RState) (f start : Nat) (o : Bytes) (t : CTable) (sec n : Nat) :
    ({ s with flags := f } : RState).endTrack start o t sec n = (s.endTrack start o t sec n).withFlags f := by
  unfold RState.endTrack
  simp only
  split <;> rfl

theorem addItem_flags (s : RState) (f : Nat) (it : Item) :
    ({ s with flags := f } : RState).addItem it = (s.addItem it).withFlags f := by
  cases it with
  | q n t c =>
    simp only [RState.addItem, RState.addQuestion]
    rw [setSection_flags]
    cases s.setSection 0 with
    | error e => rfl
    | ok s1 =>
      simp only
      cases toWireC s1.out s1.tbl n s1.origin with
      | error e => rfl
      | ok p =>
        obtain ⟨o, t'⟩ := p
        simp only
        exact endTrack_flags s1 f _ _ _ _ _
  | rr sec r =>
    simp only [RState.addItem, RState.addRRset]
    rw [setSection_flags]
    cases s.setSection sec with
    | error e => rfl
    | ok s1 =>
      simp only
      cases rrsetToWire s1.out s1.tbl s1.origin r with
      | error e => rfl
      | ok p =>
        obtain ⟨o, t', n⟩ := p
        simp only
        exact endTrack_flags s1 f _ _ _ _ _

theorem addItems_flags (items : List Item) : ∀ (s : RState) (f : Nat),
    ({ s with flags := f } : RState).addItems items =
      match s.addItems items with
      | .ok (s', b) => .ok ({ s' with flags := f }, b)
      | .error e => .error e := by
  induction items with
  | nil => intro s f; rfl
  | cons it rest ih =>
    intro s f
    unfold RState.addItems
    rw [addItem_flags]
    cases s.addItem it with
    | err e => rfl
    | tooBig s1 => rfl
    | ok s1 =>
      simp only [Step.withFlags]
      exact ih s1 f

/-! ### where the loops stop -/

theorem addItems_append (a b : List Item) : ∀ (s : RState),
    s.addItems (a ++ b) =
      match s.addItems a with
      | .ok (s1, false) => s1.addItems b
      | .ok (s1, true) => .ok (s1, true)
      | .error e => .error e := by
  induction a with
  | nil => intro s; simp [RState.addItems]
  | cons it rest ih =>
    intro s
    simp only [List.cons_append, RState.addItems]
    cases s.addItem it with
    | err e => rfl
    | tooBig s1 => rfl
    | ok s1 => exact ih s1

/-- a `TooBig` in the loops: the first `k` items were added, item `k` was rolled back -/
theorem addItems_big (items : List Item) : ∀ (s s' : RState), TblBelow s → s.addItems items = .ok (s', true) →
    ∃ k s'', ∃ hk : k < items.length,
      s.addItems (items.take k) = .ok (s'', false) ∧ s''.addItem items[k] = .tooBig s' ∧
      s' = { s'' with sec := items[k].sec } ∧ s''.sec ≤ items[k].sec := by
  induction items with
  | nil => intro s s' _ h; simp [RState.addItems] at h
  | cons it rest ih =>
    intro s s' hb h
    unfold RState.addItems at h
    have hspec := addItem_spec s it hb
    cases hs : s.addItem it with
    | err e => rw [hs] at h; simp at h
    | tooBig s1 =>
      rw [hs] at h hspec
      simp at h; subst h
      obtain ⟨e, hle⟩ := hspec.tooBig_eq
      exact ⟨0, s, by simp, by simp [RState.addItems], by simpa using hs, by simpa using e, by simpa using hle⟩
    | ok s1 =>
      rw [hs] at h hspec
      simp only at h
      have hb1 : TblBelow s1 := by
        cases hspec with
        | ok o t n ha hsz hle => exact tblBelow_appends (s := { s with sec := it.sec }) ha hb _
      obtain ⟨k, s'', hk, h1, h2, h3, h4⟩ := ih s1 s' hb1 h
      refine ⟨k + 1, s'', by simp; omega, ?_, by simpa using h2, by simpa using h3, by simpa using h4⟩
      simp only [List.take_succ_cons, RState.addItems, hs]
      exact h1

/-! ### the tail does not depend on the current section (as long as it is a legal one) -/

theorem setSection3_of_le (x : RState) (a : Nat) (hx : x.sec ≤ 3) (ha : a ≤ 3) :
    ({ x with sec := a } : RState).setSection 3 = x.setSection 3 := by
  have key : ∀ y : RState, y.sec ≤ 3 → y.setSection 3 = .ok { y with sec := 3 } := by
    intro y hy
    unfold RState.setSection
    by_cases h : y.sec = 3
    · simp [h]
      cases y; simp at h; subst h; rfl
    · have : ¬ y.sec > 3 := by omega
      simp [h, this]
  rw [key x hx, key _ ha]

theorem addRRset3_sec (x : RState) (a : Nat) (r : RRset) (hx : x.sec ≤ 3) (ha : a ≤ 3) :
    ({ x with sec := a } : RState).addRRset 3 r = x.addRRset 3 r := by
  unfold RState.addRRset
  rw [setSection3_of_le x a hx ha]

theorem secADD : ConstsC03.secADDITIONAL = 3 := by decide

/-- octets produced by the tail of `to_wire` -/
def finishOut (r : RState) (opt : Option EOpt) (tsig : Option Tsig) (pad a b : Nat) : Except RErr Bytes :=
  match r.finish opt tsig pad a b with
  | .ok r' => .ok r'.out
  | .error e => .error e

theorem finish_sec (x : RState) (a' : Nat) (opt : Option EOpt) (tsig : Option Tsig) (pad a b : Nat)
    (hx : x.sec ≤ 3) (ha : a' ≤ 3) :
    finishOut { x with sec := a' } opt tsig pad a b = finishOut x opt tsig pad a b := by
  unfold finishOut RState.finish
  simp only
  cases opt with
  | some o =>
    -- the OPT is added in section 3 on both sides: identical states from there on
    have e : stepToExcept (({ x with sec := a' } : RState).releaseReserved.addOpt o pad a b)
        = stepToExcept (x.releaseReserved.addOpt o pad a b) := by
      unfold RState.addOpt
      have hl : ({ x with sec := a' } : RState).releaseReserved.out.length = x.releaseReserved.out.length := rfl
      rw [hl]
      by_cases hg : pad ≠ 0 ∧ padLen x.releaseReserved.out.length pad a b > 65535
      · rw [if_pos hg, if_pos hg]; rfl
      · rw [if_neg hg, if_neg hg]
        unfold RState.addOptCore
        rw [secADD]
        split
        · exact congrArg stepToExcept (addRRset3_sec { x.releaseReserved with wasPadded := true } a' _ hx ha)
        · exact congrArg stepToExcept (addRRset3_sec x.releaseReserved a' _ hx ha)
    simp only [e]
  | none =>
    simp only
    cases tsig with
    | none => rfl
    | some t =>
      simp only
      have e : ({ ({ x with sec := a' } : RState).releaseReserved.writeHeader with tbl := [] } : RState).addRRset
            ConstsC03.secADDITIONAL (tsigRRset t)
          = ({ x.releaseReserved.writeHeader with tbl := [] } : RState).addRRset ConstsC03.secADDITIONAL (tsigRRset t) := by
        rw [secADD]
        exact addRRset3_sec ({ x.releaseReserved.writeHeader with tbl := [] } : RState) a' _ hx ha
      rw [e]

/-! ### cutting a message to its first `k` record sets -/

def Message.cut (m : Message) (k : Nat) (tc : Bool) : Message :=
  { m with
    q := m.q.take k
    an := m.an.take (k - m.q.length)
    au := m.au.take (k - m.q.length - m.an.length)
    ad := m.ad.take (k - m.q.length - m.an.length - m.au.length)
    flags := if tc then m.flags ||| ConstsC03.tcFlag else m.flags }

theorem items_cut (m : Message) (k : Nat) (tc : Bool) : (m.cut k tc).items = m.items.take k := by
  simp only [Message.items, Message.cut, List.take_append, List.map_take, List.length_append, List.length_map]
  simp [Nat.sub_sub]

theorem items_sec_le (m : Message) : ∀ it ∈ m.items, it.sec ≤ 3 := by
  intro it h
  simp only [Message.items, List.mem_append, List.mem_map] at h
  rcases h with ((⟨r, _, rfl⟩ | ⟨r, _, rfl⟩) | ⟨r, _, rfl⟩) | ⟨r, _, rfl⟩ <;> simp [Item.sec]

/-- TC is set iff the first dropped record set lies before ADDITIONAL -/
def Message.tcAt (m : Message) (k : Nat) : Bool :=
  match m.items[k]? with
  | some it => decide (it.sec < ConstsC03.secADDITIONAL)
  | none => false

end Model

namespace Model

/-- renderer state when the section loops start: header placeholder written, reserves taken -/
def Message.base (m : Message) (L a b : Nat) : Except RErr RState :=
  if a + b > L then .error .tooBig else
  match (RState.init m.id m.flags L m.origin).reserve a with
  | .error e => .error e
  | .ok r => r.reserve b

/-- the two `reserve` calls alone -/
def Message.base0 (m : Message) (L a b : Nat) : Except RErr RState :=
  match (RState.init m.id m.flags L m.origin).reserve a with
  | .error e => .error e
  | .ok r => r.reserve b

theorem base_ok {m : Message} {L a b : Nat} {r : RState} (h : m.base L a b = .ok r) : m.base0 L a b = .ok r := by
  by_cases hfit : a + b > L
  · simp [Message.base, hfit] at h
  · simp only [Message.base, hfit, if_false] at h
    exact h

theorem renderSections_eq (m : Message) (L : Nat) (pt : Bool) (a b : Nat) :
    m.renderSections L pt a b =
      match m.base L a b with
      | .error e => .error e
      | .ok r =>
        match r.addItems m.items with
        | .error e => .error e
        | .ok (r, big) => r.afterItems big pt := by
  unfold Message.renderSections Message.base
  by_cases hfit : a + b > L
  · simp [hfit]
  simp only [hfit, if_false]
  cases (RState.init m.id m.flags L m.origin).reserve a with
  | error e => rfl
  | ok r =>
    simp only
    cases r.reserve b with
    | error e => rfl
    | ok r2 => rfl

theorem toWire_eq (m : Message) (lim : Nat) (pt : Bool) :
    m.toWire lim pt =
      match m.tsigReserve with
      | .error e => .error e
      | .ok b =>
        match m.renderSections (clampSize lim m.requestPayload) pt m.optReserve b with
        | .error e => .error e
        | .ok r => finishOut r m.opt m.tsig m.pad m.optReserve b := by
  unfold Message.toWire Message.render finishOut
  cases m.tsigReserve with
  | error e => rfl
  | ok b =>
    simp only
    cases m.renderSections (clampSize lim m.requestPayload) pt m.optReserve b with
    | error e => rfl
    | ok r =>
      simp only
      cases r.finish m.opt m.tsig m.pad m.optReserve b <;> rfl

theorem base_inv (m : Message) (L a b : Nat) (r : RState) (h : m.base L a b = .ok r) :
    RInv r ∧ r.flags = m.flags ∧ r.sec = 0 := by
  have h := base_ok h
  unfold Message.base0 at h
  split at h
  · simp at h
  · rename_i r1 h1
    obtain ⟨rfl, _⟩ := reserve_ok h1
    obtain ⟨rfl, _⟩ := reserve_ok h
    refine ⟨⟨?_, Or.inr ?_, ?_⟩, rfl, rfl⟩
    · intro p hp; simp [RState.init] at hp
    · simp [RState.init]
    · simp [RState.init]

theorem base_cut (m : Message) (k : Nat) (tc : Bool) (L a b : Nat) :
    (m.cut k tc).base L a b =
      match m.base L a b with
      | .ok r => .ok { r with flags := (m.cut k tc).flags }
      | .error e => .error e := by
  unfold Message.base
  by_cases hfit : a + b > L
  · simp [hfit]
  simp only [hfit, if_false]
  unfold RState.reserve RState.init
  simp only [Message.cut]
  by_cases h1 : a > L
  · simp [h1]
  · simp only [h1, if_false]
    by_cases h2 : b > L - a
    · simp [h2]
    · simp [h2]

theorem addItem_flags_pres (s : RState) (it : Item) (hb : TblBelow s) :
    match s.addItem it with
    | .ok s' => s'.flags = s.flags
    | .tooBig s' => s'.flags = s.flags
    | .err _ => True := by
  have := addItem_spec s it hb
  generalize s.addItem it = st at this
  cases this with
  | ok o t n ha hsz hle => rfl
  | tooBig hle => rfl
  | err e => trivial

theorem addItems_sec_le (items : List Item) : ∀ (s s' : RState) (big : Bool), TblBelow s →
    (∀ it ∈ items, it.sec ≤ 3) → s.sec ≤ 3 → s.addItems items = .ok (s', big) → s'.sec ≤ 3 := by
  induction items with
  | nil => intro s s' big _ _ hs h; simp [RState.addItems] at h; rw [← h.1]; exact hs
  | cons it rest ih =>
    intro s s' big hb hall hs h
    unfold RState.addItems at h
    have hspec := addItem_spec s it hb
    have hit : it.sec ≤ 3 := hall it (by simp)
    cases hr : s.addItem it with
    | err e => rw [hr] at h; simp at h
    | tooBig s1 =>
      rw [hr] at h hspec
      simp at h
      obtain ⟨e, _⟩ := hspec.tooBig_eq
      rw [← h.1, e]; exact hit
    | ok s1 =>
      rw [hr] at h hspec
      simp only at h
      have hb1 : TblBelow s1 ∧ s1.sec = it.sec := by
        cases hspec with
        | ok o t n ha hsz hle => exact ⟨tblBelow_appends (s := { s with sec := it.sec }) ha hb _, rfl⟩
      exact ih s1 s' big hb1.1 (fun x hx => hall x (by simp [hx])) (by rw [hb1.2]; exact hit) h

end Model

namespace Model

theorem tcAt_of_lt (m : Message) (k : Nat) (hk : k < m.items.length) :
    m.tcAt k = decide (m.items[k].sec < ConstsC03.secADDITIONAL) := by
  unfold Message.tcAt
  rw [List.getElem?_eq_getElem hk]

/-- the rendering with `prefer_truncation`: either nothing overflowed and it is the plain rendering, or the
loops stopped at item `k`, and the result is the plain rendering of the message cut before item `k`. -/
theorem toWire_truncation (m : Message) (lim : Nat) (w : Bytes) (h : m.toWire lim true = .ok w) :
    m.toWire lim false = .ok w ∨
    ∃ k, k < m.items.length ∧ (m.cut k (m.tcAt k)).toWire lim false = .ok w := by
  rw [toWire_eq] at h
  cases hb : m.tsigReserve with
  | error e => rw [hb] at h; simp at h
  | ok b =>
    rw [hb] at h
    simp only at h
    rw [renderSections_eq] at h
    cases hbase : m.base (clampSize lim m.requestPayload) m.optReserve b with
    | error e => rw [hbase] at h; simp at h
    | ok r2 =>
      rw [hbase] at h
      simp only at h
      obtain ⟨hi2, hfl2, hsec2⟩ := base_inv m _ _ _ r2 hbase
      cases hit : r2.addItems m.items with
      | error e => rw [hit] at h; simp at h
      | ok p =>
        obtain ⟨r3, big⟩ := p
        rw [hit] at h
        simp only at h
        cases big with
        | false =>
          left
          rw [toWire_eq, hb]
          simp only
          rw [renderSections_eq, hbase]
          simp only
          rw [hit]
          exact h
        | true =>
          right
          obtain ⟨k, s'', hk, h1, _, h3, h4⟩ := addItems_big m.items r2 r3 hi2.below hit
          refine ⟨k, hk, ?_⟩
          have hsk : m.items[k].sec ≤ 3 := items_sec_le m _ (List.getElem_mem hk)
          obtain ⟨hi'', _, _, _, hfl'', _, _⟩ := addItems_inv _ _ _ _ hi2 h1
          -- the cut message
          rw [toWire_eq]
          have e1 : (m.cut k (m.tcAt k)).tsigReserve = m.tsigReserve := rfl
          have e2 : (m.cut k (m.tcAt k)).optReserve = m.optReserve := rfl
          have e3 : (m.cut k (m.tcAt k)).requestPayload = m.requestPayload := rfl
          have e4 : (m.cut k (m.tcAt k)).opt = m.opt := rfl
          have e5 : (m.cut k (m.tcAt k)).tsig = m.tsig := rfl
          have e6 : (m.cut k (m.tcAt k)).pad = m.pad := rfl
          rw [e1, hb, e2, e3, e4, e5, e6]
          simp only
          rw [renderSections_eq, base_cut, hbase]
          simp only
          rw [items_cut, addItems_flags, h1]
          simp only [RState.afterItems, Bool.false_eq_true, if_false]
          -- compare the two states handed to the tail
          simp only [RState.afterItems, if_true] at h
          have hflag : (m.cut k (m.tcAt k)).flags =
              if m.items[k].sec < ConstsC03.secADDITIONAL then m.flags ||| ConstsC03.tcFlag else m.flags := by
            simp only [Message.cut, tcAt_of_lt m k hk]
            by_cases hc : m.items[k].sec < ConstsC03.secADDITIONAL <;> simp [hc]
          have hr3 : (if r3.sec < ConstsC03.secADDITIONAL then { r3 with flags := r3.flags ||| ConstsC03.tcFlag } else r3)
              = ({ ({ s'' with flags := (m.cut k (m.tcAt k)).flags } : RState) with sec := m.items[k].sec } : RState) := by
            rw [hflag, h3]
            simp only
            rw [hfl'', hfl2]
            by_cases hc : m.items[k].sec < ConstsC03.secADDITIONAL
            · simp [hc]
            · simp [hc]
          rw [hr3] at h
          have hfs := finish_sec ({ s'' with flags := (m.cut k (m.tcAt k)).flags } : RState) m.items[k].sec
            m.opt m.tsig m.pad m.optReserve b (Nat.le_trans h4 hsk) hsk
          exact hfs.symm.trans h

end Model

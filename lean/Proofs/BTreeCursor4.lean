import Proofs.BTreeCursor3
/-!
Layer L5, part 4: `seek(key, before)` positions the cursor at the lower bound (`before`) or the upper bound
(`not before`) of the key in the in-order listing; unparking re-seeks the anchor.
-/
namespace Model.BTree

/-- the listing is split at the bound of `key`: strictly smaller keys before and keys at least `key` after
(`before = true`), or keys at most `key` before and strictly larger keys after (`before = false`) -/
def SplitAt (key : Nat) (before : Bool) (D R : List Elt) : Prop :=
  if before then (∀ x ∈ D, x.1 < key) ∧ (∀ x ∈ R, key ≤ x.1)
  else (∀ x ∈ D, x.1 ≤ key) ∧ (∀ x ∈ R, key < x.1)

theorem splitAt_of_strict {key : Nat} {D R : List Elt} (before : Bool) (hD : ∀ x ∈ D, x.1 < key)
    (hR : ∀ x ∈ R, key < x.1) : SplitAt key before D R := by
  unfold SplitAt
  cases before
  · exact ⟨fun x hx => Nat.le_of_lt (hD x hx), hR⟩
  · exact ⟨hD, fun x hx => Nat.le_of_lt (hR x hx)⟩

theorem upTo_leaf (es : List Elt) (i : Nat) (b : Bool) : upTo (.leaf es) i b = es.take i := rfl
theorem fromPos_leaf (es : List Elt) (i : Nat) (b : Bool) : fromPos (.leaf es) i b = es.drop i := rfl

theorem mem_append3 {x : Elt} {A B C : List Elt} (h : x ∈ A ++ B ++ C) : x ∈ A ∨ x ∈ B ∨ x ∈ C := by
  rcases List.mem_append.mp h with h | h
  · rcases List.mem_append.mp h with h | h
    · exact Or.inl h
    · exact Or.inr (Or.inl h)
  · exact Or.inr (Or.inr h)

/-- the descent of `seek` -/
theorem seekLoop_spec {t : Nat} {root : Node} (key : Nat) (before : Bool) :
    ∀ (f h : Nat) (n : Node) (ps : List (Node × Nat)), h ≤ f → PathOk t root h n ps → Sorted (flat n) →
    (∀ x ∈ (ctx ps).1, x.1 < key) → (∀ x ∈ (ctx ps).2, key < x.1) →
    ∃ ls i' ps', seekLoop key before f n ps = (.leaf ls, i', ps') ∧ PathOk t root 0 (.leaf ls) ps' ∧
      i' ≤ ls.length ∧
      SplitAt key before ((ctx ps').1 ++ ls.take i') (ls.drop i' ++ (ctx ps').2) := by
  intro f
  induction f with
  | zero =>
    intro h n ps hf hp hs hb ha
    have : h = 0 := by omega
    subst this
    obtain ⟨es, rfl⟩ := shape_zero (pathOk_shape hp)
    simp only [flat_leaf] at hs
    unfold seekLoop
    simp only [Node.elts]
    rcases search_cases key hs with ⟨el, er, rfl, hl, hr, hres⟩ | ⟨el, e, er, rfl, he, hl, hr, hres⟩
    · refine ⟨el ++ er, el.length, ps, by simp [hres], hp, by simp, ?_⟩
      rw [take_at, drop_at]
      apply splitAt_of_strict
      · intro x hx; rcases List.mem_append.mp hx with hx | hx
        · exact hb x hx
        · exact hl x hx
      · intro x hx; rcases List.mem_append.mp hx with hx | hx
        · exact hr x hx
        · exact ha x hx
    · cases before with
      | true =>
        refine ⟨el ++ e :: er, el.length, ps, by simp [hres], hp, by simp, ?_⟩
        rw [take_at, drop_at]
        simp only [SplitAt, if_true]
        refine ⟨?_, ?_⟩
        · intro x hx; rcases List.mem_append.mp hx with hx | hx
          · exact hb x hx
          · exact hl x hx
        · intro x hx
          rcases List.mem_append.mp hx with hx | hx
          · rcases List.mem_cons.mp hx with rfl | hx
            · omega
            · exact Nat.le_of_lt (hr x hx)
          · exact Nat.le_of_lt (ha x hx)
      | false =>
        refine ⟨el ++ e :: er, el.length + 1, ps, by simp [hres], hp, by simp, ?_⟩
        rw [take_at_succ, drop_at_succ]
        simp only [SplitAt, Bool.false_eq_true, if_false]
        refine ⟨?_, ?_⟩
        · intro x hx
          rcases List.mem_append.mp hx with hx | hx
          · exact Nat.le_of_lt (hb x hx)
          · rcases List.mem_append.mp hx with hx | hx
            · exact Nat.le_of_lt (hl x hx)
            · simp at hx; subst hx; omega
        · intro x hx; rcases List.mem_append.mp hx with hx | hx
          · exact hr x hx
          · exact ha x hx
  | succ f ih =>
    intro h n ps hf hp hs hb ha
    cases h with
    | zero =>
      -- a leaf: the same as above
      obtain ⟨es, rfl⟩ := shape_zero (pathOk_shape hp)
      simp only [flat_leaf] at hs
      unfold seekLoop
      simp only [Node.elts]
      rcases search_cases key hs with ⟨el, er, rfl, hl, hr, hres⟩ | ⟨el, e, er, rfl, he, hl, hr, hres⟩
      · refine ⟨el ++ er, el.length, ps, by simp [hres], hp, by simp, ?_⟩
        rw [take_at, drop_at]
        apply splitAt_of_strict
        · intro x hx; rcases List.mem_append.mp hx with hx | hx
          · exact hb x hx
          · exact hl x hx
        · intro x hx; rcases List.mem_append.mp hx with hx | hx
          · exact hr x hx
          · exact ha x hx
      · cases before with
        | true =>
          refine ⟨el ++ e :: er, el.length, ps, by simp [hres], hp, by simp, ?_⟩
          rw [take_at, drop_at]
          simp only [SplitAt, if_true]
          refine ⟨?_, ?_⟩
          · intro x hx; rcases List.mem_append.mp hx with hx | hx
            · exact hb x hx
            · exact hl x hx
          · intro x hx
            rcases List.mem_append.mp hx with hx | hx
            · rcases List.mem_cons.mp hx with rfl | hx
              · omega
              · exact Nat.le_of_lt (hr x hx)
            · exact Nat.le_of_lt (ha x hx)
        | false =>
          refine ⟨el ++ e :: er, el.length + 1, ps, by simp [hres], hp, by simp, ?_⟩
          rw [take_at_succ, drop_at_succ]
          simp only [SplitAt, Bool.false_eq_true, if_false]
          refine ⟨?_, ?_⟩
          · intro x hx
            rcases List.mem_append.mp hx with hx | hx
            · exact Nat.le_of_lt (hb x hx)
            · rcases List.mem_append.mp hx with hx | hx
              · exact Nat.le_of_lt (hl x hx)
              · simp at hx; subst hx; omega
          · intro x hx; rcases List.mem_append.mp hx with hx | hx
            · exact hr x hx
            · exact ha x hx
    | succ h =>
      have hsn := pathOk_shape hp
      obtain ⟨es, cs, rfl, hlen, hk⟩ := shape_succ hsn
      have hes := sorted_elts hs
      unfold seekLoop
      simp only [Node.elts]
      rcases search_cases key hes with ⟨el, er, rfl, hl, hr, hres⟩ | ⟨el, e, er, rfl, he, hl, hr, hres⟩
      · -- descend into the child at the search index
        obtain ⟨cl, c, cr, rfl, hcl, hcr⟩ := kids_split hlen
        simp only [hres, Bool.false_eq_true, if_false, kidAt_at hcl]
        have hp' := pathOk_push (i := el.length) hp (by simp; omega)
        rw [kidAt_at hcl] at hp'
        have hs' := hs
        rw [flat_node_split el er cl c cr hcl] at hs'
        have ⟨hs1, hsR, _⟩ := sorted_append_iff.mp hs'
        have ⟨hsL, hsc, _⟩ := sorted_append_iff.mp hs1
        have hA := LF_lt hcl hsL hl
        have hB := RF_gt hcr hsR hr
        have hnb : nodeBefore (el ++ er) (cl ++ c :: cr) el.length = LF cl el := by
          simp only [nodeBefore]; rw [take_at, ← hcl, take_at]
        have hna : nodeAfter (el ++ er) (cl ++ c :: cr) el.length = RF cr er := by
          simp only [nodeAfter]; rw [drop_at, ← hcl, drop_at_succ]
        apply ih h c _ (by omega) hp' hsc
        · intro x hx
          simp only [ctx, Node.elts, Node.children, hnb] at hx
          rcases List.mem_append.mp hx with hx | hx
          · exact hb x hx
          · exact hA x hx
        · intro x hx
          simp only [ctx, Node.elts, Node.children, hna] at hx
          rcases List.mem_append.mp hx with hx | hx
          · exact hB x hx
          · exact ha x hx
      · -- found in this internal node
        have hi : el.length < (el ++ e :: er).length := by simp
        have hi' : el.length ≤ (Node.node (el ++ e :: er) cs).elts.length := by simp [Node.elts]
        obtain ⟨r1, r2⟩ := read_step hsn (i := el.length) (by simpa [Node.elts] using hi)
        simp only [Node.elts, eltAt_at rfl] at r1 r2
        have hfl := upTo_fromPos hsn el.length true hi'
        rw [r1] at hfl
        have hs' := hs
        rw [← hfl] at hs'
        have hlt := (sorted_append_iff.mp hs').2.2
        have hgt := (sorted_cons_iff.mp (sorted_append_iff.mp hs').2.1).1
        simp only [hres, if_true]
        cases before with
        | true =>
          simp only [if_true]
          obtain ⟨l, ps', s1, s2, s3, s4, _, _⟩ :=
            seekGreatest_spec (t := t) (root := root) (f + 1) (h + 1) (.node (el ++ e :: er) cs) el.length ps hf hp hi'
          simp only [Nat.add_one_ne_zero, if_false] at s1 s3 s4
          obtain ⟨ls, rfl⟩ := shape_zero (pathOk_shape s2)
          refine ⟨ls, ls.length, ps', by simpa [Node.elts] using s1, s2, Nat.le_refl _, ?_⟩
          simp only [upTo_leaf, fromPos_leaf, Node.elts] at s3 s4
          rw [s3, s4, r1]
          simp only [SplitAt, if_true]
          refine ⟨?_, ?_⟩
          · intro x hx
            rcases List.mem_append.mp hx with hx | hx
            · exact hb x hx
            · have := hlt x hx e (by simp); omega
          · intro x hx
            rcases List.mem_append.mp hx with hx | hx
            · rcases List.mem_cons.mp hx with rfl | hx
              · omega
              · have := hgt x hx; omega
            · exact Nat.le_of_lt (ha x hx)
        | false =>
          simp only [Bool.false_eq_true, if_false]
          obtain ⟨l, ps', s1, s2, s3, s4, _, _⟩ :=
            seekLeast_spec (t := t) (root := root) (f + 1) (h + 1) (.node (el ++ e :: er) cs) (el.length + 1) ps hf hp
              (by simp [Node.elts])
          simp only [Nat.add_one_ne_zero, if_false] at s1 s3 s4
          obtain ⟨ls, rfl⟩ := shape_zero (pathOk_shape s2)
          refine ⟨ls, 0, ps', s1, s2, Nat.zero_le _, ?_⟩
          simp only [upTo_leaf, fromPos_leaf] at s3 s4
          rw [s3, s4, r2]
          simp only [SplitAt, Bool.false_eq_true, if_false]
          refine ⟨?_, ?_⟩
          · intro x hx
            rcases List.mem_append.mp hx with hx | hx
            · exact Nat.le_of_lt (hb x hx)
            · rcases List.mem_append.mp hx with hx | hx
              · have := hlt x hx e (by simp); omega
              · simp at hx; subst hx; omega
          · intro x hx
            rcases List.mem_append.mp hx with hx | hx
            · have := hgt x hx; omega
            · exact ha x hx

/-- `seek(key, before)` on a well-formed tree: the cursor rests at the bound of `key` -/
theorem seek_spec {t : Nat} {root : Node} (hw : Wf t root) (key : Nat) (before : Bool) :
    ∃ D R, CurInv t root (Cursor.seek root key before) D R ∧ SplitAt key before D R ∧
      (Cursor.seek root key before).parked = false ∧ (Cursor.seek root key before).pkey = some key ∧
      (Cursor.seek root key before).pread = false ∧ (Cursor.seek root key before).increasing = before := by
  obtain ⟨Hr, hr⟩ := hw.shape
  obtain ⟨ls, i', ps', s1, s2, s3, s4⟩ := seekLoop_spec (t := t) (root := root) key before (height root + 1) Hr root []
    (by have := height_of_shape hr; omega) ⟨rfl, hr⟩ hw.sorted (by simp [ctx]) (by simp [ctx])
  refine ⟨(ctx ps').1 ++ ls.take i', ls.drop i' ++ (ctx ps').2, ?_, s4, ?_⟩
  · unfold Cursor.seek
    rw [s1]
    simp only [CurInv]
    exact ⟨0, s2, by simpa [Node.elts] using s3, by simp [Node.isLeaf], by simp [upTo], by simp [fromPos]⟩
  · unfold Cursor.seek
    rw [s1]
    simp

end Model.BTree

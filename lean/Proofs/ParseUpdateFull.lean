import Proofs.ParseUpdate
import Proofs.ParseTsig
/-! Dynamic update messages with OPT and TSIG; the general statement through `canonUpdate`. -/
namespace Model

variable {Rs : RelSpec}

/-- zone entry and the record sets of the three other sections of an update, read from `H ++ items ++ post` -/
theorem parse_body_update (cfg : PCfg) (horg : cfg.origin = none) (m : Message) (z : RRset) (hmq : m.q = [z])
    (hzq : QOk Rs z) (hsoa : z.rdtype = ConstsC03.typeSOA) (hmeta : z.rdclass ∉ ConstsC03.metaclasses)
    (han : ∀ r ∈ m.an, URRsetOk Rs z.rdclass 1 r) (hau : ∀ r ∈ m.au, URRsetOk Rs z.rdclass 2 r)
    (had : ∀ r ∈ m.ad, URRsetOk Rs z.rdclass 3 r)
    (H : Bytes) (hH : H.length = 12) (q : Bytes × CTable) (hq : itemsExt none 12 [] m.items = .ok q)
    (post : Bytes) (c1 c2 c3 : Nat) :
    ∃ z' an' au' ad', z'.sim Rs z ∧ SimList (RRset.sim Rs) an' m.an ∧ SimList (RRset.sim Rs) au' m.au ∧
      SimList (RRset.sim Rs) ad' m.ad ∧ TableSound Rs.R (H ++ q.1) q.2 ∧
      ∃ k1 k2 k3 : Nat,
        parseQuestions cfg true (H ++ q.1 ++ post) 1 { cur := 12 } = .ok { cur := k1, q := [z'] } ∧
        parseSection cfg true (H ++ q.1 ++ post) 1 c1 m.an.length 0 { cur := k1, q := [z'] }
          = .ok { cur := k2, q := [z'], an := an' } ∧
        parseSection cfg true (H ++ q.1 ++ post) 2 c2 m.au.length 0 { cur := k2, q := [z'], an := an' }
          = .ok { cur := k3, q := [z'], an := an', au := au' } ∧
        parseSection cfg true (H ++ q.1 ++ post) 3 c3 m.ad.length 0 { cur := k3, q := [z'], an := an', au := au' }
          = .ok { cur := 12 + q.1.length, q := [z'], an := an', au := au', ad := ad' } := by
  simp only [Message.items, hmq, List.map_cons, List.map_nil] at hq
  rw [itemsExt_append, itemsExt_append, itemsExt_append] at hq
  cases hqq : itemsExt none 12 [] [Item.q z.name z.rdtype z.rdclass] with
  | error e => rw [hqq] at hq; simp at hq
  | ok qq =>
    rw [hqq] at hq; simp only at hq
    cases hqa : itemsExt none (12 + qq.1.length) ([] ++ qq.2) (m.an.map (Item.rr 1)) with
    | error e => rw [hqa] at hq; simp at hq
    | ok qa =>
      rw [hqa] at hq; simp only at hq
      cases hqu : itemsExt none (12 + (qq.1 ++ qa.1).length) ([] ++ (qq.2 ++ qa.2)) (m.au.map (Item.rr 2)) with
      | error e => rw [hqu] at hq; simp at hq
      | ok qu =>
        rw [hqu] at hq; simp only at hq
        cases hqd : itemsExt none (12 + (qq.1 ++ qa.1 ++ qu.1).length) ([] ++ (qq.2 ++ qa.2 ++ qu.2)) (m.ad.map (Item.rr 3)) with
        | error e => rw [hqd] at hq; simp at hq
        | ok qd =>
          rw [hqd] at hq; simp only at hq; cases hq
          simp only
          rw [← hH] at hqq
          obtain ⟨z', hpz, hsz, hzc, hsndq⟩ := parseQuestions_zone cfg horg z hzq hsoa hmeta H (qa.1 ++ qu.1 ++ qd.1 ++ post) [] qq
            { cur := 12 } (by simp [hH]) rfl (tableSound_nil H) hqq
          have hwq : H ++ qq.1 ++ (qa.1 ++ qu.1 ++ qd.1 ++ post) = H ++ (qq.1 ++ qa.1 ++ qu.1 ++ qd.1) ++ post := by
            simp [List.append_assoc]
          rw [hwq] at hpz
          have hlA1 : (H ++ qq.1).length = 12 + qq.1.length := by simp [hH]
          rw [← hlA1] at hqa
          obtain ⟨an', hpa, hsa, hsnda⟩ := parseSection_urrsets cfg horg z.rdclass 1 (by omega) z' hzc m.an (H ++ qq.1)
            (qu.1 ++ qd.1 ++ post) ([] ++ qq.2) qa c1 0
            { cur := H.length + qq.1.length, q := [z'] } [] (by simp) hsndq rfl (by simp [PState.section]) han hqa
          have hwa : H ++ qq.1 ++ qa.1 ++ (qu.1 ++ qd.1 ++ post) = H ++ (qq.1 ++ qa.1 ++ qu.1 ++ qd.1) ++ post := by
            simp [List.append_assoc]
          rw [hwa] at hpa
          have hlA2 : (H ++ qq.1 ++ qa.1).length = 12 + (qq.1 ++ qa.1).length := by simp [hH] <;> omega
          rw [← hlA2] at hqu
          have hsnda' : TableSound Rs.R (H ++ qq.1 ++ qa.1) ([] ++ (qq.2 ++ qa.2)) := by
            simpa [List.append_assoc] using hsnda
          obtain ⟨au', hpu, hsu, hsndu⟩ := parseSection_urrsets cfg horg z.rdclass 2 (by omega) z' hzc m.au (H ++ qq.1 ++ qa.1)
            (qd.1 ++ post) ([] ++ (qq.2 ++ qa.2)) qu c2 0
            { cur := (H ++ qq.1).length + qa.1.length, q := [z'], an := [] ++ an' } [] (by simp <;> omega) hsnda' rfl
            (by simp [PState.section]) hau hqu
          have hwu : H ++ qq.1 ++ qa.1 ++ qu.1 ++ (qd.1 ++ post) = H ++ (qq.1 ++ qa.1 ++ qu.1 ++ qd.1) ++ post := by
            simp [List.append_assoc]
          rw [hwu] at hpu
          have hlA3 : (H ++ qq.1 ++ qa.1 ++ qu.1).length = 12 + (qq.1 ++ qa.1 ++ qu.1).length := by simp [hH] <;> omega
          rw [← hlA3] at hqd
          have hsndu' : TableSound Rs.R (H ++ qq.1 ++ qa.1 ++ qu.1) ([] ++ (qq.2 ++ qa.2 ++ qu.2)) := by
            simpa [List.append_assoc] using hsndu
          obtain ⟨ad', hpd, hsd, hsndd⟩ := parseSection_urrsets cfg horg z.rdclass 3 (by omega) z' hzc m.ad (H ++ qq.1 ++ qa.1 ++ qu.1)
            post ([] ++ (qq.2 ++ qa.2 ++ qu.2)) qd c3 0
            { cur := (H ++ qq.1 ++ qa.1).length + qu.1.length, q := [z'], an := [] ++ an', au := [] ++ au' } []
            (by simp <;> omega) hsndu' rfl (by simp [PState.section]) had hqd
          have hwd : H ++ qq.1 ++ qa.1 ++ qu.1 ++ qd.1 ++ post = H ++ (qq.1 ++ qa.1 ++ qu.1 ++ qd.1) ++ post := by
            simp [List.append_assoc]
          rw [hwd] at hpd
          refine ⟨z', an', au', ad', hsz, hsa, hsu, hsd, ?_, H.length + qq.1.length, (H ++ qq.1).length + qa.1.length,
            (H ++ qq.1 ++ qa.1).length + qu.1.length, ?_, ?_, ?_, ?_⟩
          · simpa [List.append_assoc] using hsndd
          · simpa using hpz
          · simpa [PState.setSection] using hpa
          · simpa [PState.setSection] using hpu
          · have : (H ++ qq.1 ++ qa.1 ++ qu.1).length + qd.1.length = 12 + (qq.1 ++ qa.1 ++ qu.1 ++ qd.1).length := by
              simp [hH]; omega
            rw [this] at hpd
            simpa [PState.setSection] using hpd

/-- well-formed dynamic update in the parser's representation, with or without OPT and TSIG, no padding -/
structure UMsgOkT (Rs : RelSpec) (m : Message) : Prop where
  origin : m.origin = none
  id : m.id < 65536
  flags : m.flags < 65536
  isUpd : isUpdate m.flags = true
  opt : ∀ o, m.opt = some o → OptOk o
  pad : m.pad = 0
  tsig : ∀ t, m.tsig = some t → TsigOk Rs t
  zone : ∃ z, m.q = [z] ∧ QOk Rs z ∧ z.rdtype = ConstsC03.typeSOA ∧ z.rdclass ∉ ConstsC03.metaclasses ∧
    (∀ r ∈ m.an, URRsetOk Rs z.rdclass 1 r) ∧ (∀ r ∈ m.au, URRsetOk Rs z.rdclass 2 r) ∧ (∀ r ∈ m.ad, URRsetOk Rs z.rdclass 3 r)
  counts : m.an.length < 65536 ∧ m.au.length < 65536 ∧ m.ad.length + 2 < 65536

/-- render-then-parse of a dynamic update message, OPT and TSIG included -/
theorem parse_toWire_update_full (m : Message) (lim : Nat) (w : Bytes) (hok : UMsgOkT Rs m) (h : m.toWire lim false = .ok w)
    (cfg : PCfg) (horg : cfg.origin = none) (hkey : cfg.hasKey = true) :
    ∃ m', parseMessage cfg w = .ok m' ∧ m'.simT Rs m := by
  obtain ⟨z, hmq, hzq, hsoa, hmeta, han, hau, had⟩ := hok.zone
  obtain ⟨can, cau, cad⟩ := hok.counts
  obtain ⟨q, hq, eo, to, bo, et, bt, hop, htp, hw⟩ := toWire_shape_full m lim w hok.pad h
  rw [hok.origin] at hq hop htp
  have hca := rrCount_urrsets z.rdclass 1 m.an han
  have hcu := rrCount_urrsets z.rdclass 2 m.au hau
  have hcd := rrCount_urrsets z.rdclass 3 m.ad had
  have hbo : bo ≤ 1 := by
    unfold OptPart at hop
    cases hmo : m.opt with
    | none => rw [hmo] at hop; have := hop.2.2; omega
    | some o => rw [hmo] at hop; obtain ⟨p, _, _, _, hb, _⟩ := hop; omega
  have hbt : bt ≤ 1 := by
    unfold TsigPart at htp
    cases hmt : m.tsig with
    | none => rw [hmt] at htp; have := htp.2; omega
    | some t => rw [hmt] at htp; obtain ⟨p, _, _, hb, _⟩ := htp; omega
  obtain ⟨z', an', au', ad', hsz, hsa, hsu, hsd, hsnd, k1, k2, k3, hp0, hp1, hp2, hp3⟩ :=
    parse_body_update cfg horg m z hmq hzq hsoa hmeta han hau had
      (hdrBytes m (rrCount m.ad + bo + bt)) (hdrBytes_length _ _) q hq (eo ++ et) m.an.length m.au.length
      (m.ad.length + bo + bt)
  have hw1 : hdrBytes m (rrCount m.ad + bo + bt) ++ q.1 ++ (eo ++ et) = w := by rw [hw]; simp [List.append_assoc]
  rw [hw1] at hp0 hp1 hp2 hp3
  obtain ⟨s0, s2, s4, s6, s8, s10⟩ := parse_header m (rrCount m.ad + bo + bt) (q.1 ++ eo ++ et)
  have hw2 : hdrBytes m (rrCount m.ad + bo + bt) ++ (q.1 ++ eo ++ et) = w := by rw [hw]; simp [List.append_assoc]
  rw [hw2] at s0 s2 s4 s6 s8 s10
  rw [hmq] at s4
  rw [hca] at s6
  rw [hcu] at s8
  rw [hcd] at s10
  simp only [List.length_cons, List.length_nil, Nat.zero_add] at s4
  have hlA : (hdrBytes m (rrCount m.ad + bo + bt) ++ q.1).length = 12 + q.1.length := by simp [hdrBytes_length]
  rw [← hlA] at hop htp
  obtain ⟨ts', hts, hpt⟩ := parse_tail cfg horg hkey true (hdrBytes m (rrCount m.ad + bo + bt) ++ q.1) q.2 m.opt m.tsig eo et to
    bo bt m.ad.length { cur := 12 + q.1.length, q := [z'], an := an', au := au', ad := ad' }
    (by simp [hdrBytes_length]) hsnd rfl rfl hok.opt hok.tsig hop htp
  have hw3 : hdrBytes m (rrCount m.ad + bo + bt) ++ q.1 ++ eo ++ et = w := by rw [hw]
  rw [hw3] at hpt
  refine ⟨{ id := m.id, flags := m.flags, origin := cfg.origin, q := [z'], an := an', au := au', ad := ad', opt := m.opt,
            tsig := ts' }, ?_, rfl, rfl, by rw [hmq]; exact SimList.cons hsz SimList.nil, hsa, hsu, hsd, rfl, hts⟩
  unfold parseMessage
  have hwl : ¬ w.length < 12 := by rw [hw]; simp [hdrBytes_length] <;> omega
  simp only [hwl, if_false, s0, s2, s4, s6, s8, s10, beVal_u16 _ hok.id, beVal_u16 _ hok.flags, beVal_u16 1 (by omega),
    beVal_u16 _ can, beVal_u16 _ cau, beVal_u16 _ (show m.ad.length + bo + bt < 65536 by omega), hok.isUpd, hp0, hp1, hp2]
  rw [show parseSection cfg true w 3 (m.ad.length + bo + bt) (m.ad.length + bo + bt) 0 { cur := k3, q := [z'], an := an', au := au' }
      = parseSection cfg true w 3 (m.ad.length + bo + bt) (m.ad.length + (bo + bt)) 0 { cur := k3, q := [z'], an := an', au := au' } by
        rw [Nat.add_assoc]]
  rw [parseSection_add, hp3]
  simp only [secADD, Nat.zero_add] at hpt ⊢
  rw [hpt]
  simp
  intro _
  rw [hw]; simp only [List.length_append, hdrBytes_length]; omega

/-- any update message — in the API's or in the parser's representation of the delete/prerequisite forms — whose
canonical form is well formed: the round trip yields the canonical form -/
theorem parse_toWire_update_canon (m : Message) (zc lim : Nat) (w : Bytes) (hok : UMsgOkT Rs (m.canonUpdate zc))
    (h : m.toWire lim false = .ok w) (cfg : PCfg) (horg : cfg.origin = none) (hkey : cfg.hasKey = true) :
    ∃ m', parseMessage cfg w = .ok m' ∧ m'.simT Rs (m.canonUpdate zc) := by
  rw [← toWire_canonUpdate m zc lim false] at h
  exact parse_toWire_update_full _ lim w hok h cfg horg hkey

end Model

namespace Model

variable {Rs : RelSpec}

theorem canon_of_ok (zc sec : Nat) (r : RRset) (h : URRsetOk Rs zc sec r) : r.canon zc = r := by
  obtain ⟨cany, cnone⟩ := class_consts
  unfold RRset.canon
  rcases h.form with ⟨rd, _, _, _, _, _, hcl⟩ | ⟨_, _, _, hrc, hdel⟩
  · rcases hcl with ⟨hd, _, h2, h3⟩ | ⟨hd, hc, _⟩
    · have hw : r.wireClass = r.rdclass := by simp [RRset.wireClass, hd]
      rw [hw]
      simp only [h2, h3, or_self, if_false]
      cases r; simp at hd ⊢; exact hd.symm
    · have hw : r.wireClass = ConstsC03.classNONE := by simp [RRset.wireClass, hd]
      rw [hw]
      simp only [or_true, if_true]
      cases r; simp at hd hc ⊢; exact ⟨hc.symm, hd.symm⟩
  · rcases hdel with hd | ⟨hd, _⟩
    · have hw : r.wireClass = ConstsC03.classANY := by simp [RRset.wireClass, hd]
      rw [hw]
      simp only [true_or, if_true]
      cases r; simp at hd hrc ⊢; exact ⟨hrc.symm, hd.symm⟩
    · have hw : r.wireClass = ConstsC03.classNONE := by simp [RRset.wireClass, hd]
      rw [hw]
      simp only [or_true, if_true]
      cases r; simp at hd hrc ⊢; exact ⟨hrc.symm, hd.symm⟩

theorem map_canon_of_ok (zc sec : Nat) (l : List RRset) (h : ∀ r ∈ l, URRsetOk Rs zc sec r) : l.map (RRset.canon zc) = l := by
  induction l with
  | nil => rfl
  | cons r rest ih =>
    simp only [List.map_cons]
    rw [canon_of_ok zc sec r (h r (by simp)), ih (fun x hx => h x (by simp [hx]))]

/-- a message already in the parser's representation is its own canonical form -/
theorem canonUpdate_of_ok (m : Message) (z : RRset) (han : ∀ r ∈ m.an, URRsetOk Rs z.rdclass 1 r)
    (hau : ∀ r ∈ m.au, URRsetOk Rs z.rdclass 2 r) (had : ∀ r ∈ m.ad, URRsetOk Rs z.rdclass 3 r) :
    m.canonUpdate z.rdclass = m := by
  unfold Message.canonUpdate
  rw [map_canon_of_ok _ 1 _ han, map_canon_of_ok _ 2 _ hau, map_canon_of_ok _ 3 _ had]

end Model

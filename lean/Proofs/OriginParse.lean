import Proofs.OriginRender
import Proofs.NameOrder5
/-! Parsing with an origin = parsing without, then relativizing every name of the sections (the OPT and TSIG owners
are never relativized).  Holds for every wire, accepted or not. -/
namespace Model

/-- `name.relativize(origin)` for a legal name: cut the origin off when it is a suffix (up to case), else keep -/
def relF (o n : Name) : Name := if isSubdomain n o then n.take (n.length - o.length) else n

/-- what the wire decoder hands out: legal and absolute -/
def AbsWf (n : Name) : Prop := WfName n ∧ isAbs n = true

theorem relativize_relF (o n : Name) (hn : WfName n) :
    (match relativize n o with | .ok r => r | .error _ => n) = relF o n := by
  unfold relativize relF sliceToNeg
  by_cases hs : isSubdomain n o = true
  · simp only [hs, if_true]
    have : validate (n.take (n.length - o.length)) = .ok (n.take (n.length - o.length)) :=
      NameOrder.validate_ok _ (NameOrder.wf_take n hn _)
    by_cases hz : o.length = 0
    · simp only [hz, if_true, Nat.sub_zero] at this ⊢
      rw [this]
    · simp only [hz, if_false]
      rw [this]
  · simp [hs]

theorem relTo_relF (o n : Name) (ho : o ≠ []) (hn : WfName n) : relTo (some o) n = relF o n := by
  unfold relTo
  simp only [ho, if_false]
  exact relativize_relF o n hn

theorem lowerName_take (n : Name) (k : Nat) : lowerName (n.take k) = (lowerName n).take k := by
  simp [lowerName, List.map_take]

theorem lowerName_length (n : Name) : (lowerName n).length = n.length := by simp [lowerName]

theorem isSubdomain_congr (a b o : Name) (h : lowerName a = lowerName b) : isSubdomain a o = isSubdomain b o := by
  have hab : isAbs a = isAbs b := by rw [← NameOrder.isAbs_lowerName a, h, NameOrder.isAbs_lowerName]
  have := NameOrder.isSubdomain_iff a o
  have := NameOrder.isSubdomain_iff b o
  rw [Bool.eq_iff_iff]
  rw [NameOrder.isSubdomain_iff a o, NameOrder.isSubdomain_iff b o, h, hab]

/-- relativizing respects the library's name equality -/
theorem relF_congr (o a b : Name) (h : lowerName a = lowerName b) : lowerName (relF o a) = lowerName (relF o b) := by
  unfold relF
  rw [isSubdomain_congr a b o h]
  have hl : a.length = b.length := by rw [← lowerName_length a, h, lowerName_length]
  split
  · rw [lowerName_take, lowerName_take, h, hl]
  · exact h

theorem relF_sub_rel (o a : Name) (ho : isAbs o = true) (ha : WfName a) (hs : isSubdomain a o = true) :
    isAbs (relF o a) = false ∧ lowerName (relF o a ++ o) = lowerName a := by
  have hone : o ≠ [] := NameOrder.ne_nil_of_isAbs ho
  have hpos : 0 < o.length := List.length_pos_iff.mpr hone
  obtain ⟨_, hsuf⟩ := (NameOrder.isSubdomain_iff a o).1 hs
  have hlen : o.length ≤ a.length := by
    have := hsuf.length_le; simpa [lowerName] using this
  unfold relF
  simp only [hs, if_true]
  exact ⟨NameOrder.isAbs_take_false a ha _ (by omega), NameOrder.take_append_lower a o hsuf⟩

/-- … and on absolute legal names it is injective up to case: the index of a parsed section does not care whether the
names were relativized -/
theorem relF_lower_iff (o a b : Name) (ho : isAbs o = true) (ha : AbsWf a) (hb : AbsWf b) :
    lowerName (relF o a) = lowerName (relF o b) ↔ lowerName a = lowerName b := by
  refine ⟨fun h => ?_, relF_congr o a b⟩
  by_cases hsa : isSubdomain a o = true
  · obtain ⟨ra, ea⟩ := relF_sub_rel o a ho ha.1 hsa
    by_cases hsb : isSubdomain b o = true
    · obtain ⟨rb, eb⟩ := relF_sub_rel o b ho hb.1 hsb
      rw [← ea, ← eb]
      simp only [lowerName, List.map_append] at h ⊢
      rw [h]
    · exfalso
      have e : relF o b = b := by simp [relF, hsb]
      rw [e] at h
      have : isAbs (relF o a) = isAbs b := by rw [← NameOrder.isAbs_lowerName, h, NameOrder.isAbs_lowerName]
      rw [ra, hb.2] at this
      cases this
  · have e : relF o a = a := by simp [relF, hsa]
    by_cases hsb : isSubdomain b o = true
    · exfalso
      obtain ⟨rb, eb⟩ := relF_sub_rel o b ho hb.1 hsb
      rw [e] at h
      have : isAbs a = isAbs (relF o b) := by rw [← NameOrder.isAbs_lowerName, h, NameOrder.isAbs_lowerName]
      rw [rb, ha.2] at this
      cases this
    · have e' : relF o b = b := by simp [relF, hsb]
      rw [e, e'] at h
      exact h

/-- a relative name put under the origin and relativized again is the name -/
theorem relF_absN_rel (o n : Name) (ho : isAbs o = true) (hn : isAbs n = false) : relF o (absN o n) = n := by
  have e : absN o n = n ++ o := by simp [absN, hn]
  obtain ⟨_, hsub, _⟩ := NameOrder.below_of_append n o ho
  rw [e]
  unfold relF
  simp [hsub]

/-- an absolute name not below the origin is kept -/
theorem relF_absN_abs (o n : Name) (hn : isAbs n = true) (hs : isSubdomain n o = false) : relF o (absN o n) = n := by
  have e : absN o n = n := by simp [absN, hn]
  rw [e]
  simp [relF, hs]

/-! ### names of the decoder -/

theorem fromWireAux_abs (w : Bytes) (endp cur bp f : Nat) (acc : List Label) :
    ∀ n f', fromWireAux w endp cur bp f acc = .ok (n, f') → ∃ ls, n = ls ++ [[]] := by
  fun_induction fromWireAux w endp cur bp f acc with
  | case1 cur bp f acc h h0 =>
    intro n f' e
    simp at e
    exact ⟨acc, e.1.symm⟩
  | case2 => intro n f' e; simp at e
  | case3 cur bp f acc h h0 h1 h2 ih => intro n f' e; exact ih n f' e
  | case4 => intro n f' e; simp at e
  | case5 cur bp f acc h h0 h1 h2 h3 h4 ih => intro n f' e; exact ih n f' e
  | case6 => intro n f' e; simp at e
  | case7 => intro n f' e; simp at e
  | case8 => intro n f' e; simp at e

theorem getName_absWf {w : Bytes} {endp cur : Nat} {n : Name} {c : Nat} (h : getName w endp cur = .ok (n, c)) :
    AbsWf n := by
  unfold getName at h
  split at h
  · cases h
  · rename_i n0 f hf
    split at h
    · cases h
    · rename_i n1 hv
      cases h
      obtain ⟨rfl, hw⟩ := wf_of_validate _ _ hv
      obtain ⟨ls, rfl⟩ := fromWireAux_abs _ _ _ _ _ _ _ _ hf
      exact ⟨hw, by simp [isAbs]⟩

end Model

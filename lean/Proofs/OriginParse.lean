import Proofs.OriginRender
import Proofs.NameOrder5
import Proofs.ParseBasic
/-! Parsing with an origin = parsing without, then relativizing every name of the sections (the OPT and TSIG owners
are never relativized).  Holds for every wire, accepted or not. -/
namespace Model

/-- `name.relativize(origin)` for a legal name: cut the origin off when it is a suffix (up to case), else keep -/
def relF (o n : Name) : Name := if isSubdomain n o then n.take (n.length - o.length) else n

/-- what the wire decoder hands out: legal and absolute -/
def AbsWf (n : Name) : Prop := WfName n ∧ isAbs n = true

theorem relativize_ok (o n : Name) (hn : WfName n) : relativize n o = .ok (relF o n) := by
  unfold relativize relF sliceToNeg
  by_cases hs : isSubdomain n o = true
  · simp only [hs, if_true]
    have : validate (n.take (n.length - o.length)) = .ok (n.take (n.length - o.length)) :=
      NameOrder.validate_ok _ (NameOrder.wf_take n hn _)
    by_cases hz : o.length = 0
    · simp only [hz, if_true, Nat.sub_zero] at this ⊢
      rw [this]
    · simp only [hz, if_false]
      rw [this]
  · simp [hs]

theorem relativize_relF (o n : Name) (hn : WfName n) :
    (match relativize n o with | .ok r => r | .error _ => n) = relF o n := by
  rw [relativize_ok o n hn]

theorem relTo_relF (o n : Name) (ho : o ≠ []) (hn : WfName n) : relTo (some o) n = relF o n := by
  unfold relTo
  simp only [ho, if_false]
  exact relativize_relF o n hn

theorem relTo_none (n : Name) : relTo none n = n := rfl

theorem lowerName_take (n : Name) (k : Nat) : lowerName (n.take k) = (lowerName n).take k := by
  simp [lowerName, List.map_take]

theorem lowerName_len (n : Name) : (lowerName n).length = n.length := by simp [lowerName]

theorem isSubdomain_congr (a b o : Name) (h : lowerName a = lowerName b) : isSubdomain a o = isSubdomain b o := by
  have hab : isAbs a = isAbs b := by rw [← NameOrder.isAbs_lowerName a, h, NameOrder.isAbs_lowerName]
  have := NameOrder.isSubdomain_iff a o
  have := NameOrder.isSubdomain_iff b o
  rw [Bool.eq_iff_iff]
  rw [NameOrder.isSubdomain_iff a o, NameOrder.isSubdomain_iff b o, h, hab]

/-- relativizing respects the library's name equality -/
theorem relF_congr (o a b : Name) (h : lowerName a = lowerName b) : lowerName (relF o a) = lowerName (relF o b) := by
  unfold relF
  rw [isSubdomain_congr a b o h]
  have hl : a.length = b.length := by rw [← lowerName_len a, h, lowerName_len]
  split
  · rw [lowerName_take, lowerName_take, h, hl]
  · exact h

theorem relF_sub_rel (o a : Name) (ho : isAbs o = true) (ha : WfName a) (hs : isSubdomain a o = true) :
    isAbs (relF o a) = false ∧ lowerName (relF o a ++ o) = lowerName a := by
  have hone : o ≠ [] := NameOrder.ne_nil_of_isAbs ho
  have hpos : 0 < o.length := List.length_pos_iff.mpr hone
  obtain ⟨_, hsuf⟩ := (NameOrder.isSubdomain_iff a o).1 hs
  have hlen : o.length ≤ a.length := by
    have := hsuf.length_le; simpa [lowerName] using this
  unfold relF
  simp only [hs, if_true]
  exact ⟨NameOrder.isAbs_take_false a ha _ (by omega), NameOrder.take_append_lower a o hsuf⟩

/-- … and on absolute legal names it is injective up to case: the index of a parsed section does not care whether the
names were relativized -/
theorem relF_lower_iff (o a b : Name) (ho : isAbs o = true) (ha : AbsWf a) (hb : AbsWf b) :
    lowerName (relF o a) = lowerName (relF o b) ↔ lowerName a = lowerName b := by
  refine ⟨fun h => ?_, relF_congr o a b⟩
  by_cases hsa : isSubdomain a o = true
  · obtain ⟨ra, ea⟩ := relF_sub_rel o a ho ha.1 hsa
    by_cases hsb : isSubdomain b o = true
    · obtain ⟨rb, eb⟩ := relF_sub_rel o b ho hb.1 hsb
      rw [← ea, ← eb]
      simp only [lowerName, List.map_append] at h ⊢
      rw [h]
    · exfalso
      have e : relF o b = b := by simp [relF, hsb]
      rw [e] at h
      have : isAbs (relF o a) = isAbs b := by rw [← NameOrder.isAbs_lowerName, h, NameOrder.isAbs_lowerName]
      rw [ra, hb.2] at this
      cases this
  · have e : relF o a = a := by simp [relF, hsa]
    by_cases hsb : isSubdomain b o = true
    · exfalso
      obtain ⟨rb, eb⟩ := relF_sub_rel o b ho hb.1 hsb
      rw [e] at h
      have : isAbs a = isAbs (relF o b) := by rw [← NameOrder.isAbs_lowerName, h, NameOrder.isAbs_lowerName]
      rw [rb, ha.2] at this
      cases this
    · have e' : relF o b = b := by simp [relF, hsb]
      rw [e, e'] at h
      exact h

/-- a relative name put under the origin and relativized again is the name -/
theorem relF_absN_rel (o n : Name) (ho : isAbs o = true) (hn : isAbs n = false) : relF o (absN o n) = n := by
  have e : absN o n = n ++ o := by simp [absN, hn]
  obtain ⟨_, hsub, _⟩ := NameOrder.below_of_append n o ho
  rw [e]
  unfold relF
  simp [hsub]

/-- an absolute name not below the origin is kept -/
theorem relF_absN_abs (o n : Name) (hn : isAbs n = true) (hs : isSubdomain n o = false) : relF o (absN o n) = n := by
  have e : absN o n = n := by simp [absN, hn]
  rw [e]
  simp [relF, hs]

/-! ### names of the decoder -/

theorem fromWireAux_abs (w : Bytes) (endp cur bp f : Nat) (acc : List Label) :
    ∀ n f', fromWireAux w endp cur bp f acc = .ok (n, f') → ∃ ls, n = ls ++ [[]] := by
  fun_induction fromWireAux w endp cur bp f acc with
  | case1 cur bp f acc h h0 =>
    intro n f' e
    simp at e
    exact ⟨acc, e.1.symm⟩
  | case2 => intro n f' e; simp at e
  | case3 cur bp f acc h h0 h1 h2 ih => intro n f' e; exact ih n f' e
  | case4 => intro n f' e; simp at e
  | case5 cur bp f acc h h0 h1 h2 h3 h4 ih => intro n f' e; exact ih n f' e
  | case6 => intro n f' e; simp at e
  | case7 => intro n f' e; simp at e
  | case8 => intro n f' e; simp at e

theorem getName_absWf {w : Bytes} {endp cur : Nat} {n : Name} {c : Nat} (h : getName w endp cur = .ok (n, c)) :
    AbsWf n := by
  unfold getName at h
  split at h
  · cases h
  · rename_i n0 f hf
    split at h
    · cases h
    · rename_i n1 hv
      cases h
      obtain ⟨rfl, hw⟩ := wf_of_validate _ _ hv
      obtain ⟨ls, rfl⟩ := fromWireAux_abs _ _ _ _ _ _ _ _ hf
      exact ⟨hw, by simp [isAbs]⟩

/-! ### the section index and `Rdataset.add` do not care -/

def RData.names : RData → List Name
  | .raw _ => []
  | .name1 n => [n]
  | .mx _ n => [n]
  | .soa m r _ _ _ _ _ => [m, r]

def RData.AbsWf (rd : RData) : Prop := ∀ n ∈ rd.names, Model.AbsWf n

def RRset.AbsWf (r : RRset) : Prop := Model.AbsWf r.name ∧ ∀ rd ∈ r.rdatas, rd.AbsWf

theorem beq_congr_iff {α : Type} [BEq α] [LawfulBEq α] {a b c d : α} (h : a = b ↔ c = d) : (a == b) = (c == d) := by
  rw [Bool.eq_iff_iff, beq_iff_eq, beq_iff_eq]; exact h

theorem RData.eqv_relF (o : Name) (ho : isAbs o = true) (a b : RData) (ha : a.AbsWf) (hb : b.AbsWf) :
    (a.mapNames (relF o)).eqv (b.mapNames (relF o)) = a.eqv b := by
  cases a <;> cases b <;> simp only [RData.mapNames, RData.eqv]
  · rename_i x y
    exact beq_congr_iff (relF_lower_iff o x y ho (ha x (by simp [RData.names])) (hb y (by simp [RData.names])))
  · rename_i p x q y
    rw [beq_congr_iff (relF_lower_iff o x y ho (ha x (by simp [RData.names])) (hb y (by simp [RData.names])))]
  · rename_i m r _ _ _ _ _ m' r' _ _ _ _ _
    rw [beq_congr_iff (relF_lower_iff o m m' ho (ha m (by simp [RData.names])) (hb m' (by simp [RData.names]))),
      beq_congr_iff (relF_lower_iff o r r' ho (ha r (by simp [RData.names])) (hb r' (by simp [RData.names])))]

theorem rdCovers_mapNames (f : Name → Name) (rdtype : Nat) (rd : RData) : rdCovers rdtype (rd.mapNames f) = rdCovers rdtype rd := by
  cases rd <;> rfl

theorem any_congr_mem {α : Type} (l : List α) (f g : α → Bool) (h : ∀ a ∈ l, f a = g a) : l.any f = l.any g := by
  induction l with
  | nil => rfl
  | cons x rest ih =>
    simp only [List.any_cons]
    rw [h x (by simp), ih (fun a ha => h a (by simp [ha]))]

theorem rrsetAdd_relF (o : Name) (ho : isAbs o = true) (rd : RData) (ttl : Nat) (r : RRset) (hr : r.AbsWf) (hrd : rd.AbsWf) :
    rrsetAdd (rd.mapNames (relF o)) ttl (r.mapNames (relF o)) = (rrsetAdd rd ttl r).mapNames (relF o) := by
  unfold rrsetAdd RRset.mapNames
  simp only [List.length_map]
  by_cases hsing : r.rdtype ∈ ConstsC03.singletons ∧ r.rdatas.length > 0
  · simp only [hsing, and_self, if_true, List.any_nil, Bool.false_eq_true, if_false, List.nil_append, List.map_cons, List.map_nil]
  · simp only [hsing, if_false]
    have hany : (r.rdatas.map (RData.mapNames (relF o))).any (fun x => x.eqv (rd.mapNames (relF o))) =
        r.rdatas.any (fun x => x.eqv rd) := by
      rw [List.any_map]
      exact any_congr_mem _ _ _ (fun a ha => RData.eqv_relF o ho a rd (hr.2 a ha) hrd)
    rw [hany]
    by_cases hh : r.rdatas.any (fun x => x.eqv rd) = true
    · simp only [hh, if_true]
    · simp [hh]

theorem rrsetAdd_absWf (rd : RData) (ttl : Nat) (r : RRset) (hr : r.AbsWf) (hrd : rd.AbsWf) : (rrsetAdd rd ttl r).AbsWf := by
  unfold rrsetAdd
  refine ⟨hr.1, ?_⟩
  simp only
  intro x hx
  by_cases hsing : r.rdtype ∈ ConstsC03.singletons ∧ r.rdatas.length > 0
  · simp only [hsing, and_self, if_true, List.any_nil, Bool.false_eq_true, if_false, List.nil_append, List.mem_singleton] at hx
    rw [hx]; exact hrd
  · simp only [hsing, if_false] at hx
    split at hx
    · exact hr.2 x hx
    · rcases List.mem_append.mp hx with h | h
      · exact hr.2 x h
      · simp at h; rw [h]; exact hrd

theorem keyMatch_relF (o : Name) (ho : isAbs o = true) (name : Name) (c t cov : Nat) (del : Option Nat) (r : RRset)
    (hn : Model.AbsWf name) (hr : Model.AbsWf r.name) :
    keyMatch (relF o name) c t cov del (r.mapNames (relF o)) = keyMatch name c t cov del r := by
  unfold keyMatch RRset.mapNames
  simp only
  rw [beq_congr_iff (relF_lower_iff o r.name name ho hr hn)]

theorem updLast_map (g : RRset → RRset) (p p' : RRset → Bool) (f f' : RRset → RRset) (sec : List RRset)
    (hp : ∀ r ∈ sec, p' (g r) = p r) (hf : ∀ r ∈ sec, f' (g r) = g (f r)) :
    updLast p' f' (sec.map g) = (updLast p f sec).map (List.map g) := by
  induction sec with
  | nil => rfl
  | cons r rest ih =>
    simp only [List.map_cons, updLast]
    rw [ih (fun x hx => hp x (by simp [hx])) (fun x hx => hf x (by simp [hx]))]
    cases updLast p f rest with
    | some rest' => rfl
    | none =>
      simp only [Option.map_none]
      rw [hp r (by simp)]
      by_cases h : p r = true
      · simp [h, hf r (by simp)]
      · simp [h]

theorem updLast_all (P : RRset → Prop) (p : RRset → Bool) (f : RRset → RRset) (sec sec' : List RRset)
    (h : updLast p f sec = some sec') (hs : ∀ r ∈ sec, P r) (hf : ∀ r, P r → P (f r)) : ∀ r ∈ sec', P r := by
  induction sec generalizing sec' with
  | nil => simp [updLast] at h
  | cons x rest ih =>
    simp only [updLast] at h
    cases hu : updLast p f rest with
    | some rest' =>
      rw [hu] at h
      simp only [Option.some.injEq] at h
      subst h
      intro r hr
      rcases List.mem_cons.mp hr with e | e
      · rw [e]; exact hs x (by simp)
      · exact ih rest' hu (fun r hr => hs r (by simp [hr])) r e
    | none =>
      rw [hu] at h
      simp only at h
      split at h
      · simp only [Option.some.injEq] at h
        subst h
        intro r hr
        rcases List.mem_cons.mp hr with e | e
        · rw [e]; exact hf x (hs x (by simp))
        · exact hs r (by simp [e])
      · cases h

/-- `find_rrset` + `add` on a section whose names have been relativized -/
theorem sectionAdd_relF (o : Name) (ho : isAbs o = true) (sec : List RRset) (name : Name) (c t cov : Nat)
    (del : Option Nat) (fu : Bool) (rd : Option (RData × Nat)) (hs : ∀ r ∈ sec, r.AbsWf) (hn : Model.AbsWf name)
    (hrd : ∀ x, rd = some x → x.1.AbsWf) :
    sectionAdd (sec.map (RRset.mapNames (relF o))) (relF o name) c t cov del fu
        (rd.map fun x => (x.1.mapNames (relF o), x.2)) =
      (sectionAdd sec name c t cov del fu rd).map (RRset.mapNames (relF o)) ∧
    ∀ r ∈ sectionAdd sec name c t cov del fu rd, r.AbsWf := by
  have hfresh0 : (RRset.AbsWf { name := name, rdclass := c, rdtype := t, covers := cov, deleting := del }) :=
    ⟨hn, by intro rd h; simp at h⟩
  cases rd with
  | none =>
    simp only [sectionAdd, Option.map_none, id]
    cases fu with
    | true =>
      simp only [if_true, List.map_append, List.map_cons, List.map_nil]
      refine ⟨rfl, ?_⟩
      intro r hr
      rcases List.mem_append.mp hr with h | h
      · exact hs r h
      · simp at h; rw [h]; exact hfresh0
    | false =>
      simp only [Bool.false_eq_true, if_false]
      rw [updLast_map (RRset.mapNames (relF o)) (keyMatch name c t cov del) _ id id sec
        (fun r hr => keyMatch_relF o ho name c t cov del r hn (hs r hr).1) (fun r _ => rfl)]
      cases hu : updLast (keyMatch name c t cov del) id sec with
      | some sec' =>
        refine ⟨rfl, updLast_all RRset.AbsWf _ _ sec sec' hu hs (fun r h => h)⟩
      | none =>
        simp only [Option.map_none, List.map_append, List.map_cons, List.map_nil]
        refine ⟨rfl, ?_⟩
        intro r hr
        rcases List.mem_append.mp hr with h | h
        · exact hs r h
        · simp at h; rw [h]; exact hfresh0
  | some x =>
    obtain ⟨rd, ttl⟩ := x
    have hrd' : rd.AbsWf := hrd (rd, ttl) rfl
    simp only [sectionAdd, Option.map_some]
    have hfr := rrsetAdd_relF o ho rd ttl { name := name, rdclass := c, rdtype := t, covers := cov, deleting := del } hfresh0 hrd'
    have hfrw := rrsetAdd_absWf rd ttl _ hfresh0 hrd'
    cases fu with
    | true =>
      simp only [if_true, List.map_append, List.map_cons, List.map_nil]
      refine ⟨?_, ?_⟩
      · rw [← hfr]; rfl
      · intro r hr
        rcases List.mem_append.mp hr with h | h
        · exact hs r h
        · simp at h; rw [h]; exact hfrw
    | false =>
      simp only [Bool.false_eq_true, if_false]
      rw [updLast_map (RRset.mapNames (relF o)) (keyMatch name c t cov del) _ (rrsetAdd rd ttl) _ sec
        (fun r hr => keyMatch_relF o ho name c t cov del r hn (hs r hr).1)
        (fun r hr => rrsetAdd_relF o ho rd ttl r (hs r hr) hrd')]
      cases hu : updLast (keyMatch name c t cov del) (rrsetAdd rd ttl) sec with
      | some sec' =>
        refine ⟨rfl, updLast_all RRset.AbsWf _ _ sec sec' hu hs (fun r h => rrsetAdd_absWf rd ttl r h hrd')⟩
      | none =>
        simp only [Option.map_none, List.map_append, List.map_cons, List.map_nil]
        refine ⟨?_, ?_⟩
        · rw [← hfr]; rfl
        · intro r hr
          rcases List.mem_append.mp hr with h | h
          · exact hs r h
          · simp at h; rw [h]; exact hfrw

/-! ### the reader -/

theorem parseRData_relF (o : Name) (ho : o ≠ []) (w : Bytes) (start endp rdtype : Nat) :
    parseRData w start endp (some o) rdtype =
      (match parseRData w start endp none rdtype with
       | .ok rd => .ok (rd.mapNames (relF o))
       | .error e => .error e) ∧
    ∀ rd, parseRData w start endp none rdtype = .ok rd → rd.AbsWf := by
  unfold parseRData
  cases shapeOf rdtype with
  | raw =>
    simp only
    refine ⟨rfl, ?_⟩
    intro rd h; cases h; intro n hn; simp [RData.names] at hn
  | name1 =>
    simp only
    cases hg : getName w endp start with
    | error e => simp
    | ok p =>
      obtain ⟨n, c⟩ := p
      have hw := getName_absWf hg
      simp only
      by_cases hc : c ≠ endp
      · simp [hc]
      · simp only [hc, if_false, relTo_relF o n ho hw.1, relTo_none, RData.mapNames, true_and]
        intro rd h; cases h; intro x hx; simp [RData.names] at hx; rw [hx]; exact hw
  | mx =>
    simp only
    by_cases hl : endp - start < 2
    · simp [hl]
    · simp only [hl, if_false]
      cases hg : getName w endp (start + 2) with
      | error e => simp
      | ok p =>
        obtain ⟨n, c⟩ := p
        have hw := getName_absWf hg
        simp only
        by_cases hc : c ≠ endp
        · simp [hc]
        · simp only [hc, if_false, relTo_relF o n ho hw.1, relTo_none, RData.mapNames, true_and]
          intro rd h; cases h; intro x hx; simp [RData.names] at hx; rw [hx]; exact hw
  | soa =>
    simp only
    cases hg : getName w endp start with
    | error e => simp
    | ok p =>
      obtain ⟨m, c1⟩ := p
      have hwm := getName_absWf hg
      simp only
      cases hg2 : getName w endp c1 with
      | error e => simp
      | ok p2 =>
        obtain ⟨r, c2⟩ := p2
        have hwr := getName_absWf hg2
        simp only
        by_cases h1 : endp - c2 < 20
        · simp [h1]
        · by_cases h2 : c2 + 20 ≠ endp
          · simp [h1, h2]
          · simp only [h1, h2, if_false, relTo_relF o m ho hwm.1, relTo_relF o r ho hwr.1, relTo_none, RData.mapNames, true_and]
            intro rd h; cases h; intro x hx; simp [RData.names] at hx
            rcases hx with hx | hx
            · rw [hx]; exact hwm
            · rw [hx]; exact hwr

theorem parseRRHeader_map (g : RRset → RRset) (hg : ∀ r, (g r).rdclass = r.rdclass) (upd : Bool) (zone : List RRset)
    (sec c t : Nat) : parseRRHeader upd (zone.map g) sec c t = parseRRHeader upd zone sec c t := by
  cases zone with
  | nil => rfl
  | cons z rest =>
    simp only [parseRRHeader, List.map_cons, hg]
    simp

def PState.mapNames (f : Name → Name) (st : PState) : PState :=
  { st with q := st.q.map (RRset.mapNames f), an := st.an.map (RRset.mapNames f),
            au := st.au.map (RRset.mapNames f), ad := st.ad.map (RRset.mapNames f) }

def PState.AbsWf (st : PState) : Prop :=
  (∀ r ∈ st.q, r.AbsWf) ∧ (∀ r ∈ st.an, r.AbsWf) ∧ (∀ r ∈ st.au, r.AbsWf) ∧ (∀ r ∈ st.ad, r.AbsWf)

theorem PState.section_mapNames (f : Name → Name) (st : PState) (sec : Nat) :
    (st.mapNames f).section sec = (st.section sec).map (RRset.mapNames f) := by
  unfold PState.section PState.mapNames
  split
  · rfl
  · split
    · rfl
    · split <;> rfl

theorem PState.section_absWf (st : PState) (h : st.AbsWf) (sec : Nat) : ∀ r ∈ st.section sec, r.AbsWf := by
  unfold PState.section
  split
  · exact h.1
  · split
    · exact h.2.1
    · split
      · exact h.2.2.1
      · exact h.2.2.2

theorem PState.setSection_mapNames (f : Name → Name) (st : PState) (sec : Nat) (l : List RRset) :
    (st.setSection sec l).mapNames f = (st.mapNames f).setSection sec (l.map (RRset.mapNames f)) := by
  unfold PState.setSection PState.mapNames
  split
  · rfl
  · split
    · rfl
    · split <;> rfl

theorem PState.setSection_absWf (st : PState) (h : st.AbsWf) (sec : Nat) (l : List RRset) (hl : ∀ r ∈ l, r.AbsWf) :
    (st.setSection sec l).AbsWf := by
  unfold PState.setSection
  split
  · exact ⟨hl, h.2⟩
  · split
    · exact ⟨h.1, hl, h.2.2⟩
    · split
      · exact ⟨h.1, h.2.1, hl, h.2.2.2⟩
      · exact ⟨h.1, h.2.1, h.2.2.1, hl⟩

theorem parseQuestion_relF (cfg : PCfg) (o : Name) (ho : isAbs o = true) (hc : cfg.origin = none) (upd : Bool) (w : Bytes)
    (st : PState) (hst : st.AbsWf) :
    parseQuestion { cfg with origin := some o } upd w (st.mapNames (relF o)) =
      (match parseQuestion cfg upd w st with
       | .ok s => .ok (s.mapNames (relF o))
       | .error e => .error e) ∧
    ∀ s, parseQuestion cfg upd w st = .ok s → s.AbsWf := by
  have hone : o ≠ [] := NameOrder.ne_nil_of_isAbs ho
  unfold parseQuestion
  have e1 : (st.mapNames (relF o)).cur = st.cur := rfl
  have e2 : (st.mapNames (relF o)).q = st.q.map (RRset.mapNames (relF o)) := rfl
  simp only [e1, e2, hc]
  cases hg : getName w w.length st.cur with
  | error e => simp
  | ok p =>
    obtain ⟨n, c⟩ := p
    have hw := getName_absWf hg
    simp only
    by_cases hl : w.length - c < 4
    · simp [hl]
    · simp only [hl, if_false]
      rw [parseRRHeader_map (RRset.mapNames (relF o)) (fun r => rfl)]
      cases parseRRHeader upd st.q 0 (beVal (slice w (c + 2) 2)) (beVal (slice w c 2)) with
      | error e => simp
      | ok t =>
        obtain ⟨rc, _, _⟩ := t
        simp only
        obtain ⟨h1, h2⟩ := sectionAdd_relF o ho st.q n rc (beVal (slice w c 2)) 0 none true none hst.1 hw
          (by intro x hx; cases hx)
        rw [relTo_relF o n hone hw.1]
        simp only [Option.map_none] at h1
        refine ⟨?_, ?_⟩
        · simp only [relTo_none, PState.mapNames]
          rw [h1]
        · intro s hs
          cases hs
          exact ⟨h2, hst.2⟩

theorem parseRR_relF (cfg : PCfg) (o : Name) (ho : isAbs o = true) (hc : cfg.origin = none) (upd : Bool) (w : Bytes)
    (sec count i : Nat) (st : PState) (hst : st.AbsWf) :
    parseRR { cfg with origin := some o } upd w sec count i (st.mapNames (relF o)) =
      (match parseRR cfg upd w sec count i st with
       | .ok s => .ok (s.mapNames (relF o))
       | .error e => .error e) ∧
    ∀ s, parseRR cfg upd w sec count i st = .ok s → s.AbsWf := by
  have hone : o ≠ [] := NameOrder.ne_nil_of_isAbs ho
  unfold parseRR
  have e1 : (st.mapNames (relF o)).cur = st.cur := rfl
  have e2 : (st.mapNames (relF o)).q = st.q.map (RRset.mapNames (relF o)) := rfl
  have e3 : (st.mapNames (relF o)).opt = st.opt := rfl
  simp only [e1, e2, e3, hc, PState.section_mapNames]
  cases hg : getName w w.length st.cur with
  | error e => simp
  | ok p =>
    obtain ⟨n, c⟩ := p
    have hw := getName_absWf hg
    simp only
    rw [relativize_ok o n hw.1]
    simp only
    by_cases hl : w.length - c < 10
    · simp [hl]
    · simp only [hl, if_false]
      rw [parseRRHeader_map (RRset.mapNames (relF o)) (fun r => rfl)]
      generalize (if beVal (slice w c 2) = ConstsC03.typeOPT ∨ beVal (slice w c 2) = ConstsC03.typeTSIG then
          match parseSpecialHeader sec count i n (beVal (slice w (c + 2) 2)) (beVal (slice w c 2)) st.opt.isSome with
          | Except.error e => Except.error e
          | Except.ok _ => Except.ok (beVal (slice w (c + 2) 2), none, false)
        else parseRRHeader upd st.q sec (beVal (slice w (c + 2) 2)) (beVal (slice w c 2))) = hdr
      cases hdr with
      | error e => simp
      | ok t =>
        obtain ⟨rc, del, empty⟩ := t
        simp only
        cases empty with
        | true =>
          simp only [if_true]
          by_cases hr : beVal (slice w (c + 8) 2) > 0
          · simp [hr]
          · simp only [hr, if_false]
            obtain ⟨h1, h2⟩ := sectionAdd_relF o ho (st.section sec) n rc (beVal (slice w c 2)) 0 del
              (cfg.oneRRPerRRset || upd) none (st.section_absWf hst sec) hw (by intro x hx; cases hx)
            simp only [Option.map_none] at h1
            refine ⟨?_, ?_⟩
            · rw [h1]
              exact congrArg Except.ok (PState.setSection_mapNames (relF o) { st with cur := c + 10 } sec _).symm
            · intro s hs
              cases hs
              exact PState.setSection_absWf { st with cur := c + 10 } hst sec _ h2
        | false =>
          simp only [Bool.false_eq_true, if_false]
          by_cases hr : beVal (slice w (c + 8) 2) > w.length - (c + 10)
          · simp [hr]
          · simp only [hr, if_false]
            by_cases hopt : beVal (slice w c 2) = ConstsC03.typeOPT
            · simp only [hopt, if_true]
              cases parseOptions w (c + 10 + beVal (slice w (c + 8) 2)) (beVal (slice w (c + 8) 2)) (c + 10) with
              | error e => simp
              | ok opts =>
                refine ⟨rfl, ?_⟩
                intro s hs; cases hs; exact hst
            · simp only [hopt, if_false]
              by_cases hts : beVal (slice w c 2) = ConstsC03.typeTSIG
              · simp only [hts, if_true]
                cases parseTsigRData w (c + 10) (c + 10 + beVal (slice w (c + 8) 2)) n with
                | error e => simp
                | ok t =>
                  simp only
                  by_cases httl : beVal (slice w (c + 4) 4) ≠ 0
                  · simp [httl]
                  · simp only [httl, if_false]
                    cases cfg.hasKey with
                    | false => simp
                    | true =>
                      refine ⟨rfl, ?_⟩
                      intro s hs; cases hs; exact hst
              · simp only [hts, if_false]
                obtain ⟨p1, p2⟩ := parseRData_relF o hone w (c + 10) (c + 10 + beVal (slice w (c + 8) 2)) (beVal (slice w c 2))
                rw [p1]
                cases hp : parseRData w (c + 10) (c + 10 + beVal (slice w (c + 8) 2)) none (beVal (slice w c 2)) with
                | error e => simp
                | ok rd =>
                  simp only
                  have hrd := p2 rd hp
                  obtain ⟨h1, h2⟩ := sectionAdd_relF o ho (st.section sec) n rc (beVal (slice w c 2))
                    (rdCovers (beVal (slice w c 2)) rd) del (cfg.oneRRPerRRset || upd)
                    (some (rd, if beVal (slice w (c + 4) 4) > ConstsC03.ttlClampAbove then 0 else beVal (slice w (c + 4) 4)))
                    (st.section_absWf hst sec) hw (by intro x hx; cases hx; exact hrd)
                  simp only [Option.map_some] at h1
                  refine ⟨?_, ?_⟩
                  · rw [rdCovers_mapNames, h1]
                    exact congrArg Except.ok (PState.setSection_mapNames (relF o) { st with cur := c + 10 + beVal (slice w (c + 8) 2) } sec _).symm
                  · intro s hs
                    cases hs
                    exact PState.setSection_absWf { st with cur := c + 10 + beVal (slice w (c + 8) 2) } hst sec _ h2

theorem parseQuestions_relF (cfg : PCfg) (o : Name) (ho : isAbs o = true) (hc : cfg.origin = none) (upd : Bool) (w : Bytes)
    (k : Nat) : ∀ (st : PState), st.AbsWf →
    parseQuestions { cfg with origin := some o } upd w k (st.mapNames (relF o)) =
      (match parseQuestions cfg upd w k st with
       | .ok s => .ok (s.mapNames (relF o))
       | .error e => .error e) ∧
    ∀ s, parseQuestions cfg upd w k st = .ok s → s.AbsWf := by
  induction k with
  | zero =>
    intro st hst
    refine ⟨rfl, ?_⟩
    intro s hs; cases hs; exact hst
  | succ k ih =>
    intro st hst
    simp only [parseQuestions]
    obtain ⟨h1, h2⟩ := parseQuestion_relF cfg o ho hc upd w st hst
    rw [h1]
    cases hp : parseQuestion cfg upd w st with
    | error e => simp
    | ok s1 => exact ih s1 (h2 s1 hp)

theorem parseSection_relF (cfg : PCfg) (o : Name) (ho : isAbs o = true) (hc : cfg.origin = none) (upd : Bool) (w : Bytes)
    (sec count k : Nat) : ∀ (i : Nat) (st : PState), st.AbsWf →
    parseSection { cfg with origin := some o } upd w sec count k i (st.mapNames (relF o)) =
      (match parseSection cfg upd w sec count k i st with
       | .ok s => .ok (s.mapNames (relF o))
       | .error e => .error e) ∧
    ∀ s, parseSection cfg upd w sec count k i st = .ok s → s.AbsWf := by
  induction k with
  | zero =>
    intro i st hst
    refine ⟨rfl, ?_⟩
    intro s hs; cases hs; exact hst
  | succ k ih =>
    intro i st hst
    simp only [parseSection]
    obtain ⟨h1, h2⟩ := parseRR_relF cfg o ho hc upd w sec count i st hst
    rw [h1]
    cases hp : parseRR cfg upd w sec count i st with
    | error e => simp
    | ok s1 => exact ih (i + 1) s1 (h2 s1 hp)

def Message.mapNames (f : Name → Name) (m : Message) : Message :=
  { m with q := m.q.map (RRset.mapNames f), an := m.an.map (RRset.mapNames f),
           au := m.au.map (RRset.mapNames f), ad := m.ad.map (RRset.mapNames f) }

/-- `from_wire(origin=o)` is `from_wire()` followed by relativizing the owner names and the names inside the RDATA of
the four sections — for every wire, accepted or not; the OPT and TSIG owner names are left absolute -/
theorem parseMessage_relF (cfg : PCfg) (o : Name) (ho : isAbs o = true) (hc : cfg.origin = none) (w : Bytes) :
    parseMessage { cfg with origin := some o } w =
      match parseMessage cfg w with
      | .ok m => .ok { m.mapNames (relF o) with origin := some o }
      | .error e => .error e := by
  unfold parseMessage
  by_cases hl : w.length < 12
  · simp [hl]
  simp only [hl, if_false]
  have h0 : PState.AbsWf { cur := 12 } := by
    refine ⟨?_, ?_, ?_, ?_⟩ <;> intro r hr <;> cases hr
  obtain ⟨a1, a2⟩ := parseQuestions_relF cfg o ho hc (isUpdate (beVal (slice w 2 2))) w (beVal (slice w 4 2)) _ h0
  have e0 : PState.mapNames (relF o) { cur := 12 } = ({ cur := 12 } : PState) := rfl
  rw [e0] at a1
  rw [a1]
  cases hq : parseQuestions cfg (isUpdate (beVal (slice w 2 2))) w (beVal (slice w 4 2)) { cur := 12 } with
  | error e => rfl
  | ok s1 =>
    simp only
    obtain ⟨b1, b2⟩ := parseSection_relF cfg o ho hc (isUpdate (beVal (slice w 2 2))) w 1 (beVal (slice w 6 2))
      (beVal (slice w 6 2)) 0 s1 (a2 s1 hq)
    rw [b1]
    cases h1 : parseSection cfg (isUpdate (beVal (slice w 2 2))) w 1 (beVal (slice w 6 2)) (beVal (slice w 6 2)) 0 s1 with
    | error e => rfl
    | ok s2 =>
      simp only
      obtain ⟨c1, c2⟩ := parseSection_relF cfg o ho hc (isUpdate (beVal (slice w 2 2))) w 2 (beVal (slice w 8 2))
        (beVal (slice w 8 2)) 0 s2 (b2 s2 h1)
      rw [c1]
      cases h2 : parseSection cfg (isUpdate (beVal (slice w 2 2))) w 2 (beVal (slice w 8 2)) (beVal (slice w 8 2)) 0 s2 with
      | error e => rfl
      | ok s3 =>
        simp only
        obtain ⟨d1, d2⟩ := parseSection_relF cfg o ho hc (isUpdate (beVal (slice w 2 2))) w 3 (beVal (slice w 10 2))
          (beVal (slice w 10 2)) 0 s3 (c2 s3 h2)
        rw [d1]
        cases h3 : parseSection cfg (isUpdate (beVal (slice w 2 2))) w 3 (beVal (slice w 10 2)) (beVal (slice w 10 2)) 0 s3 with
        | error e => rfl
        | ok s4 =>
          simp only
          have ecur : (s4.mapNames (relF o)).cur = s4.cur := rfl
          rw [ecur]
          by_cases ht : (!cfg.ignoreTrailing) = true ∧ w.length - s4.cur ≠ 0
          · rw [if_pos ht, if_pos ht]
          · rw [if_neg ht, if_neg ht]
            simp only [hc]
            rfl

end Model

import Model.SetAlg
/-!
Helper lemmas for C07, part 1: `dns.set.Set` refines finite sets.
Each loop of the code (a fold of `add` / `erase`) is shown equal to the obvious `filter`/append
expression on duplicate-free lists; membership laws, preservation of `Nodup`, first-insertion order and
the `self is other` branches follow from those closed forms.
-/
namespace Model
namespace SetAlg

variable {α : Type} [DecidableEq α]
set_option linter.unusedSectionVars false

/-! ## add / update / union -/

theorem mem_add (s : List α) (x y : α) : y ∈ add s x ↔ y ∈ s ∨ y = x := by
  unfold add
  split
  · rename_i h
    constructor
    · exact Or.inl
    · rintro (h' | rfl) <;> assumption
  · simp

theorem nodup_add (s : List α) (x : α) (h : s.Nodup) : (add s x).Nodup := by
  unfold add
  split
  · exact h
  · rename_i hx
    rw [List.nodup_append]
    refine ⟨h, by simp, ?_⟩
    intro a ha b hb
    simp at hb
    subst hb
    intro e; subst e; exact hx ha

/-- the union loop in closed form: `self`'s items in their order, then the new items of `other` in
`other`'s order (first-insertion order) -/
theorem unionUpdate_eq (s o : List α) (ho : o.Nodup) :
    unionUpdate s o = s ++ o.filter (fun x => decide (x ∉ s)) := by
  unfold unionUpdate
  induction o generalizing s with
  | nil => simp
  | cons x xs ih =>
    rw [List.nodup_cons] at ho
    simp only [List.foldl_cons]
    rw [ih _ ho.2]
    unfold add
    by_cases hx : x ∈ s
    · simp [hx]
    · simp only [hx, if_false, List.append_assoc, List.singleton_append]
      rw [List.filter_cons]
      simp only [hx, not_false_eq_true, decide_true, if_true]
      congr 2
      apply List.filter_congr
      intro y hy
      have : y ≠ x := fun e => ho.1 (e ▸ hy)
      simp [this]

theorem update_eq_unionUpdate (s xs : List α) : update s xs = unionUpdate s xs := rfl

theorem mem_unionUpdate (s o : List α) (x : α) : x ∈ unionUpdate s o ↔ x ∈ s ∨ x ∈ o := by
  unfold unionUpdate
  induction o generalizing s with
  | nil => simp
  | cons y ys ih =>
    simp only [List.foldl_cons]
    rw [ih, mem_add]
    simp only [List.mem_cons]
    constructor
    · rintro ((h | h) | h)
      · exact Or.inl h
      · exact Or.inr (Or.inl h)
      · exact Or.inr (Or.inr h)
    · rintro (h | h | h)
      · exact Or.inl (Or.inl h)
      · exact Or.inl (Or.inr h)
      · exact Or.inr h

theorem nodup_unionUpdate (s o : List α) (h : s.Nodup) : (unionUpdate s o).Nodup := by
  unfold unionUpdate
  induction o generalizing s with
  | nil => exact h
  | cons y ys ih => exact ih _ (nodup_add s y h)

theorem nodup_ofList (xs : List α) : (ofList xs).Nodup :=
  nodup_unionUpdate [] xs List.nodup_nil

/-! ## erase folds: discard / difference / intersection / delete -/

theorem erase_eq_filter (s : List α) (h : s.Nodup) (x : α) : s.erase x = s.filter (fun y => decide (y ≠ x)) := by
  rw [List.Nodup.erase_eq_filter h]
  apply List.filter_congr
  intro y _
  by_cases e : y = x <;> simp [e]

theorem nodup_filter (s : List α) (p : α → Bool) (h : s.Nodup) : (s.filter p).Nodup :=
  List.Nodup.sublist List.filter_sublist h

theorem foldl_erase_eq (o acc : List α) (h : acc.Nodup) :
    o.foldl (fun a x => a.erase x) acc = acc.filter (fun y => decide (y ∉ o)) := by
  induction o generalizing acc with
  | nil => simp; exact (List.filter_eq_self.2 (fun _ _ => rfl)).symm
  | cons x xs ih =>
    simp only [List.foldl_cons]
    rw [ih _ (List.Nodup.erase x h), erase_eq_filter acc h, List.filter_filter]
    apply List.filter_congr
    intro y _
    simp only [List.mem_cons, not_or]
    by_cases e : y = x <;> simp [e]

/-- the difference loop in closed form -/
theorem diffUpdate_eq (s o : List α) (h : s.Nodup) :
    diffUpdate s o = s.filter (fun y => decide (y ∉ o)) := by
  unfold diffUpdate discard
  exact foldl_erase_eq o s h

theorem foldl_inter_eq (o l acc : List α) (h : acc.Nodup) :
    l.foldl (fun a x => if x ∈ o then a else a.erase x) acc =
      acc.filter (fun y => decide (y ∈ o ∨ y ∉ l)) := by
  induction l generalizing acc with
  | nil => simp; exact (List.filter_eq_self.2 (fun _ _ => rfl)).symm
  | cons x xs ih =>
    simp only [List.foldl_cons]
    by_cases hx : x ∈ o
    · simp only [hx, if_true]
      rw [ih _ h]
      apply List.filter_congr
      intro y _
      by_cases e : y = x
      · subst e; simp [hx]
      · simp [e]
    · simp only [hx, if_false]
      rw [ih _ (List.Nodup.erase x h), erase_eq_filter acc h, List.filter_filter]
      apply List.filter_congr
      intro y _
      by_cases e : y = x
      · subst e; simp [hx]
      · simp [e]

/-- the intersection loop in closed form -/
theorem interUpdate_eq (s o : List α) (h : s.Nodup) :
    interUpdate s o = s.filter (fun y => decide (y ∈ o)) := by
  unfold interUpdate
  rw [foldl_inter_eq o s s h]
  apply List.filter_congr
  intro y hy
  simp [hy]

/-- the symmetric-difference sequence (intersection of a clone, union, difference) in closed form -/
theorem symDiffUpdate_eq (s o : List α) (hs : s.Nodup) (ho : o.Nodup) :
    symDiffUpdate s o = s.filter (fun y => decide (y ∉ o)) ++ o.filter (fun y => decide (y ∉ s)) := by
  unfold symDiffUpdate clone
  simp only
  rw [diffUpdate_eq _ _ (nodup_unionUpdate s o hs), unionUpdate_eq s o ho, interUpdate_eq s o hs,
    List.filter_append, List.filter_filter]
  congr 1
  · apply List.filter_congr
    intro y hy
    simp [hy]
  · apply List.filter_congr
    intro y _
    by_cases e : y ∈ s <;> simp [e]

/-! ## the `self is other` branches equal the general definition at `other = self` -/

theorem unionUpdate_self (s : List α) (h : s.Nodup) : unionUpdate s s = unionUpdateSelf s := by
  rw [unionUpdate_eq s s h]
  unfold unionUpdateSelf
  have : s.filter (fun x => decide (x ∉ s)) = [] := by
    rw [List.filter_eq_nil_iff]; intro a ha; simp [ha]
  rw [this, List.append_nil]

theorem interUpdate_self (s : List α) (h : s.Nodup) : interUpdate s s = interUpdateSelf s := by
  rw [interUpdate_eq s s h]
  unfold interUpdateSelf
  rw [List.filter_eq_self]; intro a ha; simp [ha]

theorem diffUpdate_self (s : List α) (h : s.Nodup) : diffUpdate s s = diffUpdateSelf s := by
  rw [diffUpdate_eq s s h]
  unfold diffUpdateSelf
  rw [List.filter_eq_nil_iff]; intro a ha; simp [ha]

theorem symDiffUpdate_self (s : List α) (h : s.Nodup) : symDiffUpdate s s = symDiffUpdateSelf s := by
  rw [symDiffUpdate_eq s s h h]
  unfold symDiffUpdateSelf
  have : s.filter (fun x => decide (x ∉ s)) = [] := by
    rw [List.filter_eq_nil_iff]; intro a ha; simp [ha]
  rw [this, List.append_nil]

/-! ## Nodup is preserved by every operation -/

theorem nodup_interUpdate (s o : List α) (h : s.Nodup) : (interUpdate s o).Nodup := by
  rw [interUpdate_eq s o h]; exact nodup_filter _ _ h

theorem nodup_diffUpdate (s o : List α) (h : s.Nodup) : (diffUpdate s o).Nodup := by
  rw [diffUpdate_eq s o h]; exact nodup_filter _ _ h

theorem nodup_symDiffUpdate (s o : List α) (h : s.Nodup) : (symDiffUpdate s o).Nodup := by
  unfold symDiffUpdate
  exact nodup_diffUpdate _ _ (nodup_unionUpdate s o h)

theorem nodup_discard (s : List α) (x : α) (h : s.Nodup) : (discard s x).Nodup := List.Nodup.erase x h

theorem nodup_remove (s r : List α) (x : α) (h : s.Nodup) (hr : remove s x = some r) : r.Nodup := by
  unfold remove at hr
  split at hr
  · simp only [Option.some.injEq] at hr; subst hr; exact List.Nodup.erase x h
  · cases hr

theorem nodup_pop (s r : List α) (x : α) (h : s.Nodup) (hr : pop s = some (x, r)) : r.Nodup := by
  unfold pop at hr
  split at hr
  · simp only [Option.some.injEq, Prod.mk.injEq] at hr
    rw [← hr.2]; exact List.Nodup.sublist (List.dropLast_sublist s) h
  · cases hr

theorem nodup_delItem (s r : List α) (i : Nat) (h : s.Nodup) (hr : delItem s i = some r) : r.Nodup := by
  unfold delItem at hr
  split at hr
  · simp only [Option.some.injEq] at hr; subst hr; exact List.Nodup.erase _ h
  · cases hr

theorem nodup_delSlice (s : List α) (a : Nat) (b : Option Nat) (st : Nat) (h : s.Nodup) :
    (delSlice s a b st).Nodup := by
  unfold delSlice
  rw [foldl_erase_eq _ s h]
  exact nodup_filter _ _ h

/-! ## element-level laws of the small mutators -/

theorem mem_discard (s : List α) (x y : α) (h : s.Nodup) : y ∈ discard s x ↔ y ∈ s ∧ y ≠ x := by
  unfold discard
  rw [List.Nodup.mem_erase_iff h]
  exact ⟨fun ⟨a, b⟩ => ⟨b, a⟩, fun ⟨a, b⟩ => ⟨b, a⟩⟩

theorem remove_iff (s : List α) (x : α) : (remove s x).isSome ↔ x ∈ s := by
  unfold remove; split <;> simp_all

/-- `pop` removes exactly the most recently inserted item -/
theorem pop_spec (s r : List α) (x : α) (hr : pop s = some (x, r)) : s = r ++ [x] := by
  unfold pop at hr
  split at hr
  · rename_i y hy
    simp only [Option.some.injEq, Prod.mk.injEq] at hr
    obtain ⟨rfl, rfl⟩ := hr
    obtain ⟨ys, rfl⟩ := List.getLast?_eq_some_iff.1 hy
    simp
  · cases hr

/-! ## predicates and equality -/

theorem isSubset_iff (s o : List α) : isSubset s o = true ↔ ∀ x ∈ s, x ∈ o := by
  simp [isSubset]

theorem isSuperset_iff (s o : List α) : isSuperset s o = true ↔ ∀ x ∈ o, x ∈ s := by
  simp [isSuperset]

theorem isDisjoint_iff (s o : List α) : isDisjoint s o = true ↔ ∀ x, ¬ (x ∈ s ∧ x ∈ o) := by
  simp only [isDisjoint, List.all_eq_true, Bool.not_eq_true', decide_eq_false_iff_not]
  constructor
  · intro h x ⟨h1, h2⟩; exact h x h2 h1
  · intro h x h2 h1; exact h x ⟨h1, h2⟩

/-- pigeonhole for duplicate-free lists: a duplicate-free list included in another is not longer, and
if it is as long the inclusion is an equality of sets -/
theorem subset_length (s o : List α) (hs : s.Nodup) (hsub : ∀ x ∈ s, x ∈ o) :
    s.length ≤ o.length ∧ (s.length = o.length → ∀ x ∈ o, x ∈ s) := by
  induction s generalizing o with
  | nil =>
    refine ⟨Nat.zero_le _, ?_⟩
    intro h x hx
    have : o = [] := List.length_eq_zero_iff.1 h.symm
    subst this; cases hx
  | cons a s ih =>
    rw [List.nodup_cons] at hs
    have hao : a ∈ o := hsub a (by simp)
    have hsub' : ∀ x ∈ s, x ∈ o.erase a := by
      intro x hx
      have hne : x ≠ a := fun e => hs.1 (e ▸ hx)
      exact (List.mem_erase_of_ne hne).2 (hsub x (by simp [hx]))
    obtain ⟨h1, h2⟩ := ih (o.erase a) hs.2 hsub'
    have hlen : (o.erase a).length = o.length - 1 := List.length_erase_of_mem hao
    have hpos : 0 < o.length := List.length_pos_of_mem hao
    simp only [List.length_cons]
    refine ⟨by omega, ?_⟩
    intro he x hx
    by_cases e : x = a
    · subst e; simp
    · have := h2 (by omega) x ((List.mem_erase_of_ne e).2 hx)
      simp [this]

/-- `Set.__eq__` (dict equality) is equality of the sets of members: insertion order is ignored -/
theorem setEq_iff (s o : List α) (hs : s.Nodup) (ho : o.Nodup) :
    setEq s o = true ↔ ∀ x, x ∈ s ↔ x ∈ o := by
  unfold setEq
  simp only [Bool.and_eq_true, beq_iff_eq, List.all_eq_true, decide_eq_true_eq]
  constructor
  · rintro ⟨hl, hsub⟩ x
    exact ⟨hsub x, (subset_length s o hs hsub).2 hl x⟩
  · intro h
    have h1 := (subset_length s o hs (fun x hx => (h x).1 hx)).1
    have h2 := (subset_length o s ho (fun x hx => (h x).2 hx)).1
    exact ⟨by omega, fun x hx => (h x).1 hx⟩

end SetAlg
end Model

import Proofs.BTreeCowSteal
/-!
Mechanism-level proofs, part 8: `try_left_steal` and `merge` on the heap.
-/
namespace Model.BTreeCow
open Model.BTree

theorem kidA_concat_last (l : List Nat) (x : Nat) : kidA (l ++ [x]) ((l ++ [x]).length - 1) = x := by
  have : (l ++ [x]).length - 1 = l.length := by simp
  rw [this]; exact kidA_at rfl

theorem node_children_absN (H : Heap) (h a : Nat) :
    (absN H (h + 1) a).children = (rd H a).kids.map (absN H h) := rfl

/-! ## `try_left_steal` -/

theorem leftSteal_sim {c t : Nat} {H : Heap} {h p l0 s : Nat} {kl kr : List Nat}
    (g : Good c H (h + 1) p) (hk : (rd H p).kids = kl ++ l0 :: s :: kr) (hsown : (rd H s).creator = c)
    (hocc : minKeys t ≤ (rd H l0).elts.length) (ht1 : 1 ≤ minKeys t) :
    (isMinimalC t (rd H l0) = true → hTryLeftSteal t H s p (kl.length + 1) = (H, false) ∧
        tryLeftSteal t (rd H p).elts ((rd H p).kids.map (absN H h)) (kl.length + 1) = none) ∧
    (isMinimalC t (rd H l0) = false → ∃ es' cs' l1,
        tryLeftSteal t (rd H p).elts ((rd H p).kids.map (absN H h)) (kl.length + 1) = some (es', cs') ∧
        (hTryLeftSteal t H s p (kl.length + 1)).2 = true ∧
        Upd c H (hTryLeftSteal t H s p (kl.length + 1)).1 (h + 1) p (.node es' cs') ∧
        (rd (hTryLeftSteal t H s p (kl.length + 1)).1 p).kids = kl ++ l1 :: s :: kr) := by
  have hlen := g.ht.2.2.1
  rw [hk] at hlen
  have hidx : kl.length < (rd H p).elts.length := by simp at hlen; omega
  obtain ⟨el, pe, er, hes, hel⟩ := split_at_lt (rd H p).elts kl.length hidx
  have hcs : (rd H p).kids.map (absN H h) = kl.map (absN H h) ++ absN H h l0 :: absN H h s :: kr.map (absN H h) := by
    rw [hk]; simp
  have hmin : isMinimal t (absN H h l0) = isMinimalC t (rd H l0) := by
    simp [isMinimal, isMinimalC, absN_elts]
  have hpers := tryLeftSteal_eq t el er pe (kl.map (absN H h)) (absN H h l0) (absN H h s) (kr.map (absN H h))
    (by simp [hel])
  rw [hel, ← hes, ← hcs, hmin] at hpers
  have hne0 : kl.length + 1 ≠ 0 := by omega
  have hkid0 : kidA (rd H p).kids kl.length = l0 := by
    rw [hk]; exact kidA_at rfl
  constructor
  · intro hm
    refine ⟨by simp [hTryLeftSteal, Nat.add_sub_cancel, hkid0, hm], by rw [hpers]; simp [hm]⟩
  · intro hm
    obtain ⟨l1, hcw, ucow, hkids1, helts1, gl1, habs1, hle, hlk, hll, so1, _⟩ := cowChild_spec g hk
    generalize hH1 : (cowChild H p kl.length).1 = H1 at hcw ucow hkids1 helts1 gl1 habs1 hle hlk hll so1
    have g1 : Good c H1 (h + 1) p := good_of_upd g ucow
    have hsmem : s ∈ (rd H p).kids := by rw [hk]; simp
    obtain ⟨hs1, hs2, hs3, hs4⟩ := kid_same_off so1 g.nodup g.ht hsmem
    have hkids1' : (rd H1 p).kids = (kl ++ [l1]) ++ s :: kr := by rw [hkids1]; simp
    have gs1 : Good c H1 h s := good_kid g1 hkids1' (by rw [hs4]; exact hsown)
    have hnemin : (rd H l0).elts.length ≠ minKeys t := by simpa [isMinimalC] using hm
    obtain ⟨lini, llast, hlelts⟩ : ∃ lini llast, (rd H1 l1).elts = lini ++ [llast] := by
      rw [hle]
      exact snoc_of_pos _ (by omega)
    let P1 := rd H1 p
    let L1 := rd H1 l1
    let S1 := rd H1 s
    let P' : Cell := { P1 with elts := setAt P1.elts kl.length (eltAt L1.elts (L1.elts.length - 1)) }
    let A' : Cell := { L1 with elts := L1.elts.dropLast, kids := if L1.leaf then L1.kids else L1.kids.dropLast }
    let B' : Cell := { S1 with elts := eltAt P1.elts kl.length :: S1.elts,
                               kids := if L1.leaf then S1.kids else kidA L1.kids (L1.kids.length - 1) :: S1.kids }
    let H4 := wr (wr (wr H1 p P') l1 A') s B'
    have hpl1 : p ≠ l1 := fun e => by
      have := self_notin_kid g1.nodup (show l1 ∈ (rd H1 p).kids by rw [hkids1]; simp)
      exact this (e ▸ self_mem_reach H1 h l1)
    have hps : p ≠ s := fun e => by
      have := self_notin_kid g1.nodup (show s ∈ (rd H1 p).kids by rw [hkids1]; simp)
      exact this (e ▸ self_mem_reach H1 h s)
    have hl1s : l1 ≠ s := fun e => by
      have nd := g1.nodup
      rw [reach_succ, hkids1] at nd
      simp only [List.flatMap_append, List.flatMap_cons, List.nodup_cons, List.nodup_append, List.mem_append] at nd
      exact nd.2.2.1.2.2 l1 (self_mem_reach H1 h l1) l1 (Or.inl (e ▸ self_mem_reach H1 h s)) rfl
    have hplt1 := HT_lt g1.ht
    have hslt1 := HT_lt gs1.ht
    have hllt1 := HT_lt gl1.ht
    have hH4 : hTryLeftSteal t H s p (kl.length + 1) = (H4, true) := by
      have hm1 : isMinimalC t (rd H l0) = false := hm
      simp only [hTryLeftSteal, hne0, ne_eq, not_false_eq_true, if_true, Nat.add_sub_cancel, hkid0, hm1,
        Bool.not_false, hcw]
      have e1 : rd (wr (wr H1 p P') l1 A') s = S1 := by
        rw [rd_wr_other _ hl1s, rd_wr_other _ hps]
      show (wr (wr (wr H1 p P') l1 A') s _, true) = _
      rw [e1]
    have hsz4 : H4.size = H1.size := by simp [H4]
    have hrd4p : rd H4 p = P' := by
      show rd (wr (wr (wr H1 p P') l1 A') s B') p = _
      rw [rd_wr_other _ (Ne.symm hps), rd_wr_other _ (Ne.symm hpl1), rd_wr_same _ hplt1]
    have hrd4s : rd H4 s = B' := rd_wr_same _ (by simpa using hslt1)
    have hrd4l : rd H4 l1 = A' := by
      show rd (wr (wr (wr H1 p P') l1 A') s B') l1 = _
      rw [rd_wr_other _ (Ne.symm hl1s), rd_wr_same _ (by simpa using hllt1)]
    have so4 : SameOff ([p, l1] ++ if true then [s] else []) H1 H4 := by
      have := (((SameOff.refl H1).wr p P').wr l1 A').wr s B'
      exact this.mono (by intro x hx; simp at hx ⊢; omega)
    have hup := upd_pair (c := c) (H := H1) (H' := H4) (h := h) (p := p) (a := l1) (b := s) (kl := kl) (kr := kr)
      true (P' := P') (A' := A') (B' := B') g1 hkids1 gl1 (fun _ => gs1.own) hsz4 so4 hrd4p hrd4l (fun _ => hrd4s)
      g1.own g1.ht.2.1 (by simp [P', P1, hkids1])
      (by
        have := g1.ht.2.2.1
        simp only [P', P1, setAt, List.length_append, List.length_cons, List.length_take, List.length_drop]
        rw [helts1]; rw [helts1] at this; omega)
      gl1.own rfl (fun _ => ⟨gs1.own, rfl⟩)
      (by
        intro h0
        obtain ⟨h', rfl⟩ : ∃ h', h = h' + 1 := ⟨h - 1, by omega⟩
        have hlleaf : L1.leaf = false := gl1.ht.2.1
        have hlkl := gl1.ht.2.2.1
        obtain ⟨lkini, lklast, hlkids⟩ : ∃ a b, L1.kids = a ++ [b] := snoc_of_pos _ (by
          show 0 < (rd H1 l1).kids.length; omega)
        simp only [A', B', hlleaf, Bool.false_eq_true, if_false, hlkids, List.dropLast_concat, kidA_concat_last, if_true]
        rw [show (rd H1 l1).kids = lkini ++ [lklast] from hlkids]
        simp [S1])
      (by
        intro h0
        obtain ⟨h', rfl⟩ : ∃ h', h = h' + 1 := ⟨h - 1, by omega⟩
        have hlleaf : L1.leaf = false := gl1.ht.2.1
        have hlkl := gl1.ht.2.2.1
        simp only [A', hlleaf, Bool.false_eq_true, if_false, List.length_dropLast, L1]
        rw [hlelts] at hlkl ⊢
        simp at hlkl ⊢; omega)
      (by
        intro h0 _
        obtain ⟨h', rfl⟩ : ∃ h', h = h' + 1 := ⟨h - 1, by omega⟩
        have hlleaf : L1.leaf = false := gl1.ht.2.1
        have := gs1.ht.2.2.1
        simp only [B', hlleaf, Bool.false_eq_true, if_false, List.length_cons, S1]
        omega)
    have hnm : isMinimalC t (rd H l0) = false := hm
    rw [hnm] at hpers
    simp only [Bool.false_eq_true, if_false] at hpers
    refine ⟨_, _, l1, hpers, by rw [hH4], ?_, by rw [hH4]; simp only []; rw [hrd4p]; simp [P', P1, hkids1]⟩
    rw [hH4]
    simp only []
    refine (Upd.trans ucow hup).congr_abs ?_
    have hp1e : P1.elts = el ++ pe :: er := by simp only [P1]; rw [helts1, hes]
    have hL1e : L1.elts = lini ++ [llast] := hlelts
    have e_elt : eltAt P1.elts kl.length = pe := by rw [hp1e]; exact eltAt_at hel
    have e_up : eltAt L1.elts (L1.elts.length - 1) = llast := by rw [hL1e]; exact eltAt_concat_last _ _
    have e_set : setAt P1.elts kl.length llast = el ++ llast :: er := by rw [hp1e]; exact setAt_at hel
    have hmapl : kl.map (absN H1 h) = kl.map (absN H h) :=
      List.map_congr_left (fun j hj => (kid_same_off so1 g.nodup g.ht (by rw [hk]; simp [hj])).1)
    have hmapr : kr.map (absN H1 h) = kr.map (absN H h) :=
      List.map_congr_left (fun j hj => (kid_same_off so1 g.nodup g.ht (by rw [hk]; simp [hj])).1)
    have hS1 : S1 = rd H s := hs4
    have hl0e : (rd H l0).elts = lini ++ [llast] := by rw [← hle]; exact hlelts
    cases h with
    | zero =>
      have ha_s : absN H 0 s = .leaf (rd H s).elts := rfl
      have ha_l : absN H 0 l0 = .leaf (lini ++ [llast]) := by simp [absN, hl0e]
      have hlleaf : L1.leaf = true := gl1.ht.2
      have hne : (lini ++ [llast]).isEmpty = false := by simp
      simp only [P', A', B', e_elt, e_up, cabs_leaf, hlleaf, if_true, hL1e, hS1, ha_s, ha_l, hmapl, hmapr,
        stealFromLeft, hne, Bool.false_eq_true, if_false, List.dropLast_concat, eltAt_concat_last]
      simp [e_set]
    | succ h =>
      have hlleaf : L1.leaf = false := gl1.ht.2.1
      have hlkl := gl1.ht.2.2.1
      obtain ⟨lkini, lklast, hlkids⟩ : ∃ a b, L1.kids = a ++ [b] := snoc_of_pos _ (by
        show 0 < (rd H1 l1).kids.length; omega)
      have hl0k : (rd H l0).kids = lkini ++ [lklast] := by rw [← hlk]; exact hlkids
      have ha_s : absN H (h + 1) s = .node (rd H s).elts ((rd H s).kids.map (absN H h)) := rfl
      have ha_l : absN H (h + 1) l0 = .node (lini ++ [llast]) (lkini.map (absN H h) ++ [absN H h lklast]) := by
        simp [absN_succ, hl0e, hl0k]
      have hl0mem : l0 ∈ (rd H p).kids := by rw [hk]; simp
      have hgs : ∀ g' ∈ (rd H s).kids, absN H1 h g' = absN H h g' := by
        intro g' hg'
        have hsub : ∀ x ∈ reach H h g', x ∈ reach H (h + 1) s := reach_kid_sub hg'
        exact (frame_off so1 (HT_kid (HT_kid g.ht hsmem) hg') (by
          intro x hx hxp; simp at hxp; subst hxp
          exact self_notin_kid g.nodup hsmem (hsub x hx))).1
      have hgl : ∀ g' ∈ (rd H l0).kids, absN H1 h g' = absN H h g' := by
        intro g' hg'
        have hsub : ∀ x ∈ reach H h g', x ∈ reach H (h + 1) l0 := reach_kid_sub hg'
        exact (frame_off so1 (HT_kid (HT_kid g.ht hl0mem) hg') (by
          intro x hx hxp; simp at hxp; subst hxp
          exact self_notin_kid g.nodup hl0mem (hsub x hx))).1
      have hms : (rd H s).kids.map (absN H1 h) = (rd H s).kids.map (absN H h) := List.map_congr_left hgs
      have hmli : lkini.map (absN H1 h) = lkini.map (absN H h) :=
        List.map_congr_left (fun g' hg' => hgl g' (by rw [hl0k]; simp [hg']))
      have hlast : absN H1 h lklast = absN H h lklast := hgl lklast (by rw [hl0k]; simp)
      have hne1 : (lini ++ [llast]).isEmpty = false := by simp
      have hne2 : (lkini.map (absN H h) ++ [absN H h lklast]).isEmpty = false := by simp
      simp only [P', A', B', e_elt, e_up, cabs_node, hlleaf, Bool.false_eq_true, if_false, hL1e, hlkids, hS1, ha_s,
        ha_l, hmapl, hmapr, stealFromLeft, hne1, hne2, or_self, List.dropLast_concat, eltAt_concat_last,
        kidA_concat_last, kidAt_concat_last, List.map_cons, hms, hmli, hlast]
      simp [e_set]

/-! ## `merge` -/

theorem merge_sim {c : Nat} {H : Heap} {h p a b : Nat} {kl kr : List Nat}
    (g : Good c H (h + 1) p) (hk : (rd H p).kids = kl ++ a :: b :: kr) (haown : (rd H a).creator = c) :
    ∃ H2 es' cs', hMerge H a p kl.length = some H2 ∧
      merge (rd H p).elts ((rd H p).kids.map (absN H h)) kl.length = some (es', cs') ∧
      Upd c H H2 (h + 1) p (.node es' cs') ∧ (rd H2 p).kids = kl ++ a :: kr := by
  have hlen := g.ht.2.2.1
  rw [hk] at hlen
  have hidx : kl.length < (rd H p).elts.length := by simp at hlen; omega
  obtain ⟨el, pe, er, hes, hel⟩ := split_at_lt (rd H p).elts kl.length hidx
  have hcs : (rd H p).kids.map (absN H h) = kl.map (absN H h) ++ absN H h a :: absN H h b :: kr.map (absN H h) := by
    rw [hk]; simp
  have hpers := merge_eq el er pe (kl.map (absN H h)) (absN H h a) (absN H h b) (kr.map (absN H h)) (by simp [hel])
  rw [hel, ← hes, ← hcs] at hpers
  have ga : Good c H h a := good_kid g hk haown
  have hamem : a ∈ (rd H p).kids := by rw [hk]; simp
  have hbmem : b ∈ (rd H p).kids := by rw [hk]; simp
  have htb := HT_kid g.ht hbmem
  have hpa : p ≠ a := fun e => self_notin_kid g.nodup hamem (e ▸ self_mem_reach H h a)
  have hplt := HT_lt g.ht
  have halt := HT_lt ga.ht
  let P0 := rd H p
  let A0 := rd H a
  let B0 := rd H b
  let P' : Cell := { P0 with elts := popAt P0.elts kl.length, kids := popAt P0.kids (kl.length + 1) }
  let A' : Cell := { A0 with elts := A0.elts ++ eltAt P0.elts kl.length :: B0.elts,
                             kids := if A0.leaf then A0.kids else A0.kids ++ B0.kids }
  let H2 := wr (wr H p P') a A'
  have hlt : kl.length + 1 < (rd H p).kids.length := by rw [hk]; simp
  have hkidb : kidA (rd H p).kids (kl.length + 1) = b := by
    rw [hk]
    have : kl ++ a :: b :: kr = (kl ++ [a]) ++ b :: kr := by simp
    rw [this]; exact kidA_at (by simp)
  have hH2 : hMerge H a p kl.length = some H2 := by
    simp only [hMerge, hlt, if_true, hkidb]
    have : rd (wr H p P') a = A0 := rd_wr_other _ hpa
    show some (wr (wr H p P') a _) = _
    rw [this]
  have hsz2 : H2.size = H.size := by simp [H2]
  have hrd2p : rd H2 p = P' := by
    show rd (wr (wr H p P') a A') p = _
    rw [rd_wr_other _ (Ne.symm hpa), rd_wr_same _ hplt]
  have hrd2a : rd H2 a = A' := rd_wr_same _ (by simpa using halt)
  have so2 : SameOff ([p, a] ++ if false then [b] else []) H H2 := by
    have := ((SameOff.refl H).wr p P').wr a A'
    exact this.mono (by intro x hx; simp at hx ⊢; omega)
  have hleafeq : (rd H a).leaf = (rd H b).leaf := by
    cases h with
    | zero => rw [ga.ht.2, htb.2]
    | succ h => rw [ga.ht.2.1, htb.2.1]
  have hkids' : P'.kids = kl ++ a :: kr := by
    simp only [P', P0, hk]; exact popAt_at_succ rfl
  have hup := upd_pair (c := c) (H := H) (H' := H2) (h := h) (p := p) (a := a) (b := b) (kl := kl) (kr := kr)
    false (P' := P') (A' := A') (B' := default) g hk ga (fun hf => by cases hf) hsz2 so2 hrd2p hrd2a
    (fun hf => by cases hf) g.own g.ht.2.1 (by simp [hkids'])
    (by
      rw [hkids']
      simp only [P', P0, popAt, List.length_append, List.length_cons, List.length_take, List.length_drop]
      simp at hlen; omega)
    ga.own rfl (fun hf => by cases hf)
    (by
      intro h0
      obtain ⟨h', rfl⟩ : ∃ h', h = h' + 1 := ⟨h - 1, by omega⟩
      have : A0.leaf = false := ga.ht.2.1
      simp [A', this, A0, B0])
    (by
      intro h0
      obtain ⟨h', rfl⟩ : ∃ h', h = h' + 1 := ⟨h - 1, by omega⟩
      have hl : A0.leaf = false := ga.ht.2.1
      have h1 := ga.ht.2.2.1
      have h2 := htb.2.2.1
      simp only [A', hl, Bool.false_eq_true, if_false, List.length_append, List.length_cons, A0, B0]
      omega)
    (fun _ hf => by cases hf)
  refine ⟨H2, _, _, hH2, hpers, hup.congr_abs ?_, by rw [hrd2p]; exact hkids'⟩
  have e_elt : eltAt P0.elts kl.length = pe := by simp only [P0]; rw [hes]; exact eltAt_at hel
  have e_pop : popAt P0.elts kl.length = el ++ er := by simp only [P0]; rw [hes]; exact popAt_at hel
  cases h with
  | zero =>
    simp only [P', A', e_elt, e_pop, cabs_leaf, Bool.false_eq_true, if_false, List.append_nil]
    simp [absN, mergeNodes, Node.elts, A0, B0]
  | succ h =>
    have hl : A0.leaf = false := ga.ht.2.1
    simp only [P', A', e_elt, e_pop, cabs_node, hl, Bool.false_eq_true, if_false, List.append_nil]
    simp [absN_succ, mergeNodes, Node.elts, Node.children, A0, B0]

end Model.BTreeCow

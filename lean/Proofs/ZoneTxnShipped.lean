import Proofs.ZoneTxnFrame
/-! (i) The LEGACY variant of the model (D09/D10, the code before repairs 48a5b1a / 32c445c) coincides with the
repaired one on owner names given in the zone's own spelling.  (ii) The one decision point still open in the code
as it is, `get_node` without `_check_ended()`, only matters for a `get_node` call on an ended transaction. -/
namespace Model.ZT
open Model

/-- the decision points `d09`/`d10` at their repaired setting, `gn` untouched -/
def modernCfg (cfg : Cfg) : Cfg := { cfg with d09 := false, d10 := false }

/-- the owner is valid and is given in the spelling the zone stores (relative in a relativized zone, absolute
otherwise): `_validate_name` returns it unchanged (up to case) -/
def NativeName (cfg : Cfg) (n : Name) : Prop := validateName cfg n = .ok (lowerName n)

/-- the owner name a mutating call is about (after argument parsing) -/
def Op.owner : Op → Option Name
  | .add args _ => match parseAddArgs args with
    | .ok (n, _, _) => some n
    | .error _ => none
  | .replace args _ => match parseAddArgs args with
    | .ok (n, _, _) => some n
    | .error _ => none
  | .delete args _ => match parseDeleteArgs args with
    | .ok (n, _) => some n
    | .error _ => none
  | .deleteExact args _ => match parseDeleteArgs args with
    | .ok (n, _) => some n
    | .error _ => none
  | .updateSerial _ _ n _ => some n
  | _ => none

theorem validate_ok_eq (n m : Name) (h : validate n = .ok m) : m = n := by
  unfold validate at h
  split at h
  · simp at h
  · split at h
    · simp at h
    · split at h
      · split at h
        · simp at h
        · simp at h; exact h.symm
      · simp at h; exact h.symm

theorem lowerName_eq_nil (n : Name) : lowerName n = [] ↔ n = [] := by
  unfold lowerName; simp

theorem lowerName_length (n : Name) : (lowerName n).length = n.length := by
  unfold lowerName; simp

theorem soaNameOk_native (cfg : Cfg) (ho : WfOrigin cfg) (n : Name) (hn : NativeName cfg n) :
    soaNameOk cfg n = soaNameOk (modernCfg cfg) n := by
  have horig : cfg.origin ≠ [] := by
    intro e; have := ho.abs; rw [e] at this; simp [isAbs] at this
  have hlo : lowerName cfg.origin ≠ [] := by
    intro e; exact horig ((lowerName_eq_nil _).mp e)
  cases hd : cfg.d10 with
  | false => unfold soaNameOk modernCfg effectiveOrigin; simp [hd]
  | true =>
    unfold soaNameOk modernCfg effectiveOrigin
    simp only [hd, if_true, Bool.false_eq_true, if_false]
    cases hrel : cfg.relativize with
    | false =>
      simp only [Bool.false_eq_true, if_false]
      by_cases h1 : lowerName n = lowerName cfg.origin
      · simp [h1]
      · have hnil : n ≠ [] := by
          intro e; subst e
          unfold NativeName validateName at hn
          have hd' : derelativize [] cfg.origin = .ok cfg.origin := by
            unfold derelativize concatenate; simp [isAbs, ho.valid]
          simp [isAbs, hd', hrel, lowerName] at hn
          exact horig hn
        simp [h1, hnil]
    | true =>
      simp only [if_true]
      by_cases hnil : n = []
      · subst hnil; simp [lowerName]
      · have h2 : ¬ lowerName n = lowerName cfg.origin := by
          intro e
          have habs : isAbs n = true := by
            cases h : isAbs n with
            | true => rfl
            | false => exact absurd e (isAbs_lower_ne n cfg.origin h ho.abs)
          have hlen : n.length = cfg.origin.length := by
            have := congrArg List.length e; simpa [lowerName_length] using this
          unfold NativeName validateName at hn
          simp only [habs, if_true, hrel] at hn
          by_cases hsub : isSubdomain n cfg.origin = true
          · simp only [hsub, Bool.not_true, Bool.false_eq_true, if_false] at hn
            unfold relativize sliceToNeg at hn
            have hne : ¬ cfg.origin.length = 0 := by
              intro e0; exact horig (List.eq_nil_of_length_eq_zero e0)
            simp only [hsub, if_true, hne, if_false, hlen, Nat.sub_self, List.take_zero] at hn
            cases hv : validate ([] : Name) with
            | error e' => rw [hv] at hn; simp at hn
            | ok m =>
              rw [hv] at hn
              have hm := validate_ok_eq _ _ hv
              subst hm
              simp [lowerName] at hn
              exact hnil ((lowerName_eq_nil n).mp (by simpa [lowerName] using hn.symm))
          · simp [hsub] at hn
        have h3 : ¬ lowerName n = lowerName ([] : Name) := by
          intro e; exact hnil ((lowerName_eq_nil n).mp (by simpa [lowerName] using e))
        have e1 : (lowerName n == lowerName ([] : Name)) = false := by rw [beq_eq_false_iff_ne]; exact h3
        have e2 : (lowerName n == lowerName cfg.origin) = false := by rw [beq_eq_false_iff_ne]; exact h2
        have e3 : (n == ([] : Name)) = false := by rw [beq_eq_false_iff_ne]; exact hnil
        rw [e1, e2, e3]; rfl

theorem deleteRdataset_native (cfg : Cfg) (v : Nodes) (n : Name) (t c : Nat) (hn : NativeName cfg n) :
    deleteRdataset cfg v n t c = deleteRdataset (modernCfg cfg) v n t c := by
  have hv2 : validateName (modernCfg cfg) n = .ok (lowerName n) := hn
  unfold deleteRdataset
  rw [hn, hv2]
  show _ = (if _ then (if (modernCfg cfg).d09 = true then _ else _) else _)
  have : (modernCfg cfg).d09 = false := rfl
  rw [this]
  cases hd : cfg.d09 with
  | false => rfl
  | true =>
    simp only [if_true, Bool.false_eq_true, if_false, nodesGet_set, Option.isSome_some]
    rfl

theorem checkedDeleteRdataset_native (cfg : Cfg) (s : Txn) (n : Name) (t c : Nat) (veto : Bool) (hn : NativeName cfg n) :
    checkedDeleteRdataset cfg s n t c veto = checkedDeleteRdataset (modernCfg cfg) s n t c veto := by
  unfold checkedDeleteRdataset
  rw [deleteRdataset_native cfg s.ver n t c hn]
  rfl

theorem addCore_native (cfg : Cfg) (s : Txn) (rep : Bool) (n : Name) (r : Rdataset) (extra veto : Bool)
    (h : soaNameOk cfg n = soaNameOk (modernCfg cfg) n) :
    addCore cfg s rep n r extra veto = addCore (modernCfg cfg) s rep n r extra veto := by
  unfold addCore
  rw [h]
  rfl

theorem deleteCore_native (cfg : Cfg) (s : Txn) (exact : Bool) (n : Name) (sel : Sel) (veto : Bool)
    (hn : NativeName cfg n) :
    deleteCore cfg s exact n sel veto = deleteCore (modernCfg cfg) s exact n sel veto := by
  unfold deleteCore
  simp only [checkedDeleteRdataset_native cfg s n _ _ veto hn]
  rfl

theorem txnUpdateSerial_native (cfg : Cfg) (s : Txn) (value : Int) (rel : Bool) (n : Name) (veto : Bool)
    (h : soaNameOk cfg n = soaNameOk (modernCfg cfg) n) :
    txnUpdateSerial cfg s value rel n veto = txnUpdateSerial (modernCfg cfg) s value rel n veto := by
  unfold txnUpdateSerial txnAdd
  have hp : ∀ (m : Name) (r : Rdataset), parseAddArgs [.name m, .rds r] = .ok (m, r, false) := by
    intro m r; simp [parseAddArgs, rdsFromArgs]
  simp only [hp, addCore_native cfg s true n _ false veto h]
  rfl

/-- on calls whose owner is native, the as-shipped code and the intended variant are the same function -/
theorem step_native (cfg : Cfg) (ho : WfOrigin cfg) (s : Txn) (op : Op)
    (h : ∀ n, op.owner = some n → NativeName cfg n) : step cfg s op = step (modernCfg cfg) s op := by
  cases op with
  | commit => rfl
  | rollback => rfl
  | commitRaise => rfl
  | get n t c => rfl
  | nameExists n => rfl
  | getNode n => rfl
  | changed => rfl
  | dump => rfl
  | add args veto =>
    simp only [step, txnAdd]
    cases hp : parseAddArgs args with
    | error e => rfl
    | ok x =>
      obtain ⟨n, r, extra⟩ := x
      have hn := h n (by simp [Op.owner, hp])
      simp only [addCore_native cfg s false n r extra veto (soaNameOk_native cfg ho n hn)]
  | replace args veto =>
    simp only [step, txnAdd]
    cases hp : parseAddArgs args with
    | error e => rfl
    | ok x =>
      obtain ⟨n, r, extra⟩ := x
      have hn := h n (by simp [Op.owner, hp])
      simp only [addCore_native cfg s true n r extra veto (soaNameOk_native cfg ho n hn)]
  | delete args veto =>
    simp only [step, txnDelete]
    cases hp : parseDeleteArgs args with
    | error e => rfl
    | ok x =>
      obtain ⟨n, sel⟩ := x
      have hn := h n (by simp [Op.owner, hp])
      simp only [deleteCore_native cfg s false n sel veto hn]
  | deleteExact args veto =>
    simp only [step, txnDelete]
    cases hp : parseDeleteArgs args with
    | error e => rfl
    | ok x =>
      obtain ⟨n, sel⟩ := x
      have hn := h n (by simp [Op.owner, hp])
      simp only [deleteCore_native cfg s true n sel veto hn]
  | updateSerial value rel n veto =>
    simp only [step]
    have hn := h n (by simp [Op.owner])
    rw [txnUpdateSerial_native cfg s value rel n veto (soaNameOk_native cfg ho n hn)]

theorem run_native (cfg : Cfg) (ho : WfOrigin cfg) (ops : List Op) (s : Txn)
    (h : ∀ op ∈ ops, ∀ n, op.owner = some n → NativeName cfg n) : run cfg s ops = run (modernCfg cfg) s ops := by
  induction ops generalizing s with
  | nil => rfl
  | cons op rest ih =>
    simp only [run]
    rw [step_native cfg ho s op (h op (List.mem_cons_self ..))]
    rw [ih _ (fun o ho' => h o (List.mem_cons_of_mem _ ho'))]

/-! ### `get_node` and the ended guard -/

def closedCfg (cfg : Cfg) : Cfg := { cfg with gn := false }

/-- does the history call `get_node` on an already ended transaction? -/
def lateGetNode (cfg : Cfg) : Txn → List Op → Bool
  | _, [] => false
  | s, op :: rest => (op.isGetNode && s.ended) || lateGetNode cfg (step cfg s op).1 rest

theorem step_gn (cfg : Cfg) (s : Txn) (op : Op) (h : (op.isGetNode && s.ended) = false) :
    step cfg s op = step (closedCfg cfg) s op := by
  cases op with
  | getNode n =>
    have he : s.ended = false := by simpa [Op.isGetNode] using h
    simp only [step, he]
    rfl
  | _ => rfl

theorem run_gn (cfg : Cfg) (ops : List Op) (s : Txn) (h : lateGetNode cfg s ops = false) :
    run cfg s ops = run (closedCfg cfg) s ops := by
  induction ops generalizing s with
  | nil => rfl
  | cons op rest ih =>
    simp only [lateGetNode, Bool.or_eq_false_iff] at h
    simp only [run]
    rw [← step_gn cfg s op h.1, ih _ h.2]

end Model.ZT

import Model.Versioned
/-! Helper lemmas for C11: the copy-on-write mechanism keeps committed versions untouched and fully frozen. -/
namespace Model.Versioned

def FrozenAt (heap : List Cell) (id : Nat) : Prop := ∃ c, heap[id]? = some c ∧ c.frozen = true

/-- `heap'` extends `heap` and agrees with it on every cell below `b` -/
def Below (b : Nat) (heap heap' : List Cell) : Prop :=
  heap.length ≤ heap'.length ∧ ∀ id, id < b → heap'[id]? = heap[id]?

theorem below_refl (b : Nat) (heap : List Cell) : Below b heap heap := ⟨Nat.le_refl _, fun _ _ => by first | rfl | trivial⟩

theorem below_trans {b : Nat} {h1 h2 h3 : List Cell} (a : Below b h1 h2) (c : Below b h2 h3) : Below b h1 h3 :=
  ⟨Nat.le_trans a.1 c.1, fun id hid => (c.2 id hid).trans (a.2 id hid)⟩

theorem below_append (b : Nat) (heap t : List Cell) (hb : b ≤ heap.length) : Below b heap (heap ++ t) :=
  ⟨by simp, fun id hid => List.getElem?_append_left (by omega)⟩

theorem below_write (b : Nat) (heap : List Cell) (id c : Nat) (hid : b ≤ id) : Below b heap (writeCell heap id c) := by
  refine ⟨by simp [writeCell], fun j hj => ?_⟩
  unfold writeCell
  rw [List.getElem?_set_ne (by omega)]

theorem frozenAt_below {b : Nat} {heap heap' : List Cell} (h : Below b heap heap') {id : Nat} (hid : id < b)
    (hf : FrozenAt heap id) : FrozenAt heap' id := by
  obtain ⟨c, hc, hfc⟩ := hf
  exact ⟨c, by rw [h.2 id hid]; exact hc, hfc⟩

theorem cellContent_below {b : Nat} {heap heap' : List Cell} (h : Below b heap heap') {id : Nat} (hid : id < b) :
    cellContent heap' id = cellContent heap id := by
  unfold cellContent; rw [h.2 id hid]

theorem view_below {b : Nat} {heap heap' : List Cell} (h : Below b heap heap') (m : NMap) (hm : ∀ p ∈ m, p.2 < b) :
    view heap' m = view heap m := by
  unfold view
  apply List.map_congr_left
  intro p hp
  rw [cellContent_below h (hm p hp)]

/-! ### name maps -/

theorem mem_nerase {m : NMap} {name : Nat} {p : Nat × Nat} : p ∈ nerase m name ↔ p ∈ m ∧ p.1 ≠ name := by
  simp [nerase]

theorem mem_nset {m : NMap} {name id : Nat} {p : Nat × Nat} :
    p ∈ nset m name id ↔ p = (name, id) ∨ (p ∈ m ∧ p.1 ≠ name) := by
  simp [nset, mem_nerase]

theorem nlookup_some {m : NMap} {name id : Nat} (h : nlookup m name = some id) : (name, id) ∈ m := by
  unfold nlookup at h
  cases hf : m.find? (fun p => decide (p.1 = name)) with
  | none => rw [hf] at h; cases h
  | some p =>
    rw [hf] at h
    have hm := List.mem_of_find?_eq_some hf
    have hp : p.1 = name := by simpa using List.find?_some hf
    simp only [Option.map_some, Option.some.injEq] at h
    have : p = (name, id) := by cases p; simp_all
    rw [← this]; exact hm

theorem nlookup_none {m : NMap} {name : Nat} (h : nlookup m name = none) : ∀ p ∈ m, p.1 ≠ name := by
  unfold nlookup at h
  cases hf : m.find? (fun p => decide (p.1 = name)) with
  | some p => rw [hf] at h; cases h
  | none =>
    intro p hp
    have := List.find?_eq_none.mp hf p hp
    simpa using this

/-! ### the writer's invariant -/

/-- the nodes of an open write transaction: a changed name has a node of its own, created in this transaction
(cell id ≥ `b`); an unchanged name still points to the frozen node of the version it was copied from -/
def WOk (b : Nat) (heap : List Cell) (x : Writer) : Prop :=
  b ≤ heap.length ∧ ∀ p ∈ x.nodes, p.2 < heap.length ∧
    ((p.1 ∈ x.changed ∧ b ≤ p.2) ∨ (p.1 ∉ x.changed ∧ p.2 < b ∧ FrozenAt heap p.2))

theorem wok_below {b : Nat} {heap heap' : List Cell} {x : Writer} (h : WOk b heap x) (hb : Below b heap heap') :
    WOk b heap' x := by
  refine ⟨Nat.le_trans h.1 hb.1, fun p hp => ?_⟩
  have := h.2 p hp
  refine ⟨Nat.lt_of_lt_of_le this.1 hb.1, ?_⟩
  rcases this.2 with h1 | ⟨h1, h2, h3⟩
  · exact Or.inl h1
  · exact Or.inr ⟨h1, h2, frozenAt_below hb h2 h3⟩

theorem cowName_ok (b : Nat) (heap : List Cell) (x : Writer) (name : Nat) (h : WOk b heap x) :
    Below b heap (cowName heap x name).1 ∧ WOk b (cowName heap x name).1 (cowName heap x name).2.1 ∧
      b ≤ (cowName heap x name).2.2 ∧ (cowName heap x name).2.2 < (cowName heap x name).1.length ∧
      (cowName heap x name).2.1.base = x.base := by
  have fresh : ∀ c : Cell, Below b heap (heap ++ [c]) ∧
      WOk b (heap ++ [c]) { x with nodes := nset x.nodes name heap.length, changed := name :: x.changed } := by
    intro c
    have hb := below_append b heap [c] h.1
    refine ⟨hb, Nat.le_trans h.1 hb.1, fun p hp => ?_⟩
    rcases mem_nset.mp hp with e | ⟨hm, hne⟩
    · subst e; exact ⟨by simp, Or.inl ⟨by simp, h.1⟩⟩
    · have := (wok_below h hb).2 p hm
      refine ⟨this.1, ?_⟩
      rcases this.2 with ⟨h1, h2⟩ | ⟨h1, h2, h3⟩
      · exact Or.inl ⟨List.mem_cons_of_mem _ h1, h2⟩
      · exact Or.inr ⟨by simp [hne, h1], h2, h3⟩
  unfold cowName
  cases hl : nlookup x.nodes name with
  | none =>
    simp only
    exact ⟨(fresh _).1, (fresh _).2, h.1, by simp, by first | rfl | trivial⟩
  | some id =>
    simp only
    by_cases hc : name ∈ x.changed
    · simp only [hc, if_true]
      have := h.2 _ (nlookup_some hl)
      rcases this.2 with ⟨_, h2⟩ | ⟨h1, _⟩
      · exact ⟨below_refl _ _, h, h2, this.1, by first | rfl | trivial⟩
      · exact absurd hc h1
    · simp only [hc, if_false]
      exact ⟨(fresh _).1, (fresh _).2, h.1, by simp, by first | rfl | trivial⟩

theorem write_ok (b : Nat) (heap : List Cell) (x : Writer) (id c : Nat) (h : WOk b heap x) (hid : b ≤ id) :
    Below b heap (writeCell heap id c) ∧ WOk b (writeCell heap id c) x :=
  ⟨below_write b heap id c hid, wok_below h (below_write b heap id c hid)⟩

theorem flipOne_ok (b c : Nat) (hx : List Cell × Writer) (ename : Nat) (h : WOk b hx.1 hx.2) :
    Below b hx.1 (flipOne c hx ename).1 ∧ WOk b (flipOne c hx ename).1 (flipOne c hx ename).2 ∧
      (flipOne c hx ename).2.base = hx.2.base := by
  unfold flipOne
  cases hl : nlookup hx.2.nodes ename with
  | none => exact ⟨below_refl _ _, h, by first | rfl | trivial⟩
  | some id =>
    simp only
    have hp := h.2 _ (nlookup_some hl)
    by_cases hc : ename ∈ hx.2.changed
    · simp only [hc, if_true]
      rcases hp.2 with ⟨_, h2⟩ | ⟨h1, _⟩
      · exact ⟨(write_ok b hx.1 hx.2 id c h h2).1, (write_ok b hx.1 hx.2 id c h h2).2, by first | rfl | trivial⟩
      · exact absurd hc h1
    · simp only [hc, if_false]
      have hb := below_append b hx.1 [⟨false, c⟩] h.1
      refine ⟨hb, ⟨Nat.le_trans h.1 hb.1, fun p hp' => ?_⟩, by first | rfl | trivial⟩
      rcases mem_nset.mp hp' with e | ⟨hm, hne⟩
      · subst e; exact ⟨by simp, Or.inl ⟨by simp, h.1⟩⟩
      · have := (wok_below h hb).2 p hm
        refine ⟨this.1, ?_⟩
        rcases this.2 with ⟨h1, h2⟩ | ⟨h1, h2, h3⟩
        · exact Or.inl ⟨List.mem_cons_of_mem _ h1, h2⟩
        · exact Or.inr ⟨by simp [hne, h1], h2, h3⟩

theorem flipAll_ok (b c : Nat) (names : List Nat) (hx : List Cell × Writer) (h : WOk b hx.1 hx.2) :
    Below b hx.1 (names.foldl (flipOne c) hx).1 ∧ WOk b (names.foldl (flipOne c) hx).1 (names.foldl (flipOne c) hx).2 ∧
      (names.foldl (flipOne c) hx).2.base = hx.2.base := by
  induction names generalizing hx with
  | nil => exact ⟨below_refl _ _, h, rfl⟩
  | cons n rest ih =>
    simp only [List.foldl_cons]
    have h1 := flipOne_ok b c hx n h
    have h2 := ih (flipOne c hx n) h1.2.1
    exact ⟨below_trans h1.1 h2.1, h2.2.1, h2.2.2.trans h1.2.2⟩

/-- while freezing: every node is frozen already or its name is still to be frozen -/
def FreezeInv (todo : List Nat) (hm : List Cell × NMap) : Prop :=
  ∀ p ∈ hm.2, p.2 < hm.1.length ∧ (FrozenAt hm.1 p.2 ∨ p.1 ∈ todo)

theorem frozenAt_append (heap t : List Cell) (id : Nat) (h : FrozenAt heap id) : FrozenAt (heap ++ t) id := by
  obtain ⟨c, hc, hf⟩ := h
  have hlt : id < heap.length := by
    apply Classical.byContradiction; intro hn
    rw [List.getElem?_eq_none (by omega)] at hc; cases hc
  exact ⟨c, by rw [List.getElem?_append_left hlt]; exact hc, hf⟩

theorem freezeAll_ok (b : Nat) (todo : List Nat) (hm : List Cell × NMap) (hb : b ≤ hm.1.length) (h : FreezeInv todo hm) :
    Below b hm.1 (todo.foldl freezeOne hm).1 ∧ FreezeInv [] (todo.foldl freezeOne hm) := by
  induction todo generalizing hm with
  | nil => exact ⟨below_refl _ _, h⟩
  | cons n rest ih =>
    simp only [List.foldl_cons]
    have step : Below b hm.1 (freezeOne hm n).1 ∧ FreezeInv rest (freezeOne hm n) := by
      unfold freezeOne
      cases hl : nlookup hm.2 n with
      | none =>
        refine ⟨below_refl _ _, fun p hp => ?_⟩
        have := h p hp
        refine ⟨this.1, ?_⟩
        rcases this.2 with h1 | h1
        · exact Or.inl h1
        · rcases List.mem_cons.mp h1 with e | h2
          · exact absurd e (nlookup_none hl p hp)
          · exact Or.inr h2
      | some id =>
        simp only
        refine ⟨below_append b hm.1 _ hb, fun p hp => ?_⟩
        rcases mem_nset.mp hp with e | ⟨hmem, hne⟩
        · subst e
          exact ⟨by simp, Or.inl ⟨⟨true, cellContent hm.1 id⟩, by simp, rfl⟩⟩
        · have := h p hmem
          refine ⟨by simp; omega, ?_⟩
          rcases this.2 with h1 | h1
          · exact Or.inl (frozenAt_append _ _ _ h1)
          · rcases List.mem_cons.mp h1 with e | h2
            · exact absurd e hne
            · exact Or.inr h2
    have h2 := ih (freezeOne hm n) (Nat.le_trans hb step.1.1) step.2
    exact ⟨below_trans step.1 h2.1, h2.2⟩

/-! ### the global invariant -/

structure CowInv (s : CowState) : Prop where
  /-- every node of every committed version is frozen -/
  frozen : ∀ m ∈ s.versions, ∀ p ∈ m, p.2 < s.heap.length ∧ FrozenAt s.heap p.2
  /-- committed versions only point to cells older than the open transaction -/
  writer : ∀ x, s.w = some x → WOk x.base s.heap x ∧ ∀ m ∈ s.versions, ∀ p ∈ m, p.2 < x.base

theorem cowInv_init : CowInv cowInit where
  frozen := by
    intro m hm p hp
    simp [cowInit] at hm
    subst hm
    cases hp
  writer := by
    intro x hx
    simp [cowInit] at hx

/-- one step: the invariant is kept, no committed version is dropped or reordered, and **what every committed
version shows is unchanged** -/
theorem cow_step (s : CowState) (op : CowOp) (h : CowInv s) :
    CowInv (cowStep s op) ∧ s.versions <+: (cowStep s op).versions ∧
      ∀ m ∈ s.versions, view (cowStep s op).heap m = view s.heap m := by
  have keep : ∀ (heap' : List Cell) (x x' : Writer), s.w = some x → x'.base = x.base →
      Below x.base s.heap heap' → WOk x.base heap' x' →
      CowInv { s with heap := heap', w := some x' } ∧ s.versions <+: s.versions ∧
        ∀ m ∈ s.versions, view heap' m = view s.heap m := by
    intro heap' x x' hx hbase hb hw
    have hwr := h.writer x hx
    refine ⟨⟨fun m hm p hp => ?_, fun y hy => ?_⟩, List.prefix_refl _, fun m hm => view_below hb m (hwr.2 m hm)⟩
    · have := h.frozen m hm p hp
      exact ⟨Nat.lt_of_lt_of_le this.1 hb.1, frozenAt_below hb (hwr.2 m hm p hp) this.2⟩
    · simp only [Option.some.injEq] at hy; subst hy
      rw [hbase]; exact ⟨hw, hwr.2⟩
  cases op with
  | begin repl =>
    simp only [cowStep]
    cases hw : s.w with
    | some x => exact ⟨h, List.prefix_refl _, fun _ _ => by first | rfl | trivial⟩
    | none =>
      simp only
      refine ⟨⟨h.frozen, fun y hy => ?_⟩, List.prefix_refl _, fun _ _ => by first | rfl | trivial⟩
      simp only [Option.some.injEq] at hy; subst hy
      refine ⟨⟨Nat.le_refl _, fun p hp => ?_⟩, fun m hm p hp => (h.frozen m hm p hp).1⟩
      simp only at hp
      by_cases hr : repl
      · simp [hr] at hp
      · simp only [hr, Bool.false_eq_true, if_false] at hp
        cases hl : s.versions.getLast? with
        | none => rw [hl] at hp; simp at hp
        | some m =>
          rw [hl] at hp
          have hm : m ∈ s.versions := List.mem_of_getLast? hl
          have := h.frozen m hm p hp
          exact ⟨this.1, Or.inr ⟨by simp, this.1, this.2⟩⟩
  | put name c =>
    simp only [cowStep]
    cases hw : s.w with
    | none => exact ⟨h, List.prefix_refl _, fun _ _ => by first | rfl | trivial⟩
    | some x =>
      simp only
      have hwr := h.writer x hw
      have h1 := cowName_ok x.base s.heap x name hwr.1
      have h2 := write_ok x.base (cowName s.heap x name).1 (cowName s.heap x name).2.1 (cowName s.heap x name).2.2 c h1.2.1 h1.2.2.1
      exact keep _ x _ hw h1.2.2.2.2 (below_trans h1.1 h2.1) h2.2
  | del name =>
    simp only [cowStep]
    cases hw : s.w with
    | none => exact ⟨h, List.prefix_refl _, fun _ _ => by first | rfl | trivial⟩
    | some x =>
      simp only
      cases hl : nlookup x.nodes name with
      | none => exact ⟨h, List.prefix_refl _, fun _ _ => by first | rfl | trivial⟩
      | some id =>
        simp only
        have hwr := h.writer x hw
        have hk := keep s.heap x { x with nodes := nerase x.nodes name, changed := name :: x.changed } hw rfl (below_refl _ _)
          ⟨hwr.1.1, fun p hp => by
            have hm := mem_nerase.mp hp
            have := hwr.1.2 p hm.1
            refine ⟨this.1, ?_⟩
            rcases this.2 with ⟨h1, h2⟩ | ⟨h1, h2, h3⟩
            · exact Or.inl ⟨List.mem_cons_of_mem _ h1, h2⟩
            · exact Or.inr ⟨by simp [hm.2, h1], h2, h3⟩⟩
        simpa using hk
  | flip names c =>
    simp only [cowStep]
    cases hw : s.w with
    | none => exact ⟨h, List.prefix_refl _, fun _ _ => by first | rfl | trivial⟩
    | some x =>
      simp only
      have hwr := h.writer x hw
      have h1 := flipAll_ok x.base c names (s.heap, x) hwr.1
      exact keep _ x _ hw h1.2.2 h1.1 h1.2.1
  | commit =>
    simp only [cowStep]
    cases hw : s.w with
    | none => exact ⟨h, List.prefix_refl _, fun _ _ => by first | rfl | trivial⟩
    | some x =>
      simp only
      have hwr := h.writer x hw
      by_cases hc : x.changed = []
      · simp only [hc, if_true]
        exact ⟨⟨h.frozen, fun y hy => by simp at hy⟩, List.prefix_refl _, fun _ _ => by first | rfl | trivial⟩
      · simp only [hc, if_false]
        have hfi : FreezeInv x.changed (s.heap, x.nodes) := by
          intro p hp
          have := hwr.1.2 p hp
          refine ⟨this.1, ?_⟩
          rcases this.2 with ⟨h1, _⟩ | ⟨_, _, h3⟩
          · exact Or.inr h1
          · exact Or.inl h3
        have hf := freezeAll_ok x.base x.changed (s.heap, x.nodes) hwr.1.1 hfi
        refine ⟨⟨fun m hm p hp => ?_, fun y hy => by simp at hy⟩, List.prefix_append _ _, fun m hm => view_below hf.1 m (hwr.2 m hm)⟩
        rcases List.mem_append.mp hm with hm | hm
        · have := h.frozen m hm p hp
          exact ⟨Nat.lt_of_lt_of_le this.1 hf.1.1, frozenAt_below hf.1 (hwr.2 m hm p hp) this.2⟩
        · simp only [List.mem_singleton] at hm; subst hm
          have := hf.2 p hp
          rcases this.2 with h1 | h1
          · exact ⟨this.1, h1⟩
          · cases h1
  | rollback =>
    simp only [cowStep]
    exact ⟨⟨h.frozen, fun y hy => by simp at hy⟩, List.prefix_refl _, fun _ _ => by first | rfl | trivial⟩

theorem cow_run (s : CowState) (ops : List CowOp) (h : CowInv s) :
    CowInv (cowRun s ops) ∧ s.versions <+: (cowRun s ops).versions ∧
      ∀ m ∈ s.versions, view (cowRun s ops).heap m = view s.heap m := by
  induction ops generalizing s with
  | nil => exact ⟨h, List.prefix_refl _, fun _ _ => by first | rfl | trivial⟩
  | cons op rest ih =>
    simp only [cowRun]
    have h1 := cow_step s op h
    have h2 := ih (cowStep s op) h1.1
    refine ⟨h2.1, h1.2.1.trans h2.2.1, fun m hm => ?_⟩
    rw [h2.2.2 m (h1.2.1.subset hm), h1.2.2 m hm]

end Model.Versioned

import Proofs.BTreeInsert
/-!
Layer L3, part 1: `balance` (try_left_steal / try_right_steal / merge) applied to a minimal child keeps the
parent's shape and flattening, and the child found by searching again is not minimal.
-/
namespace Model.BTree

theorem mem_flat_of_mem_elts {n : Node} {x : Elt} (h : x ∈ n.elts) : x ∈ flat n := by
  cases n with
  | leaf es => simpa [Node.elts] using h
  | node es cs =>
    rw [flat_node]
    exact (elts_sublist _ _).subset (by simpa [Node.elts] using h)

theorem stealFromRight_mem {t h : Nat} {s r : Node} (p : Elt) (hs : Shape t h s) (hr : Shape t h r)
    (hne : 0 < r.elts.length) : p ∈ flat (stealFromRight s r p).1 := by
  apply mem_flat_of_mem_elts
  cases h with
  | zero =>
    obtain ⟨se, rfl⟩ := shape_zero hs
    obtain ⟨re, rfl⟩ := shape_zero hr
    cases re with
    | nil => simp [Node.elts] at hne
    | cons r0 re => simp [stealFromRight, Node.elts]
  | succ h =>
    obtain ⟨se, sc, rfl, _, _⟩ := shape_succ hs
    obtain ⟨re, rc, rfl, hrlen, _⟩ := shape_succ hr
    cases re with
    | nil => simp [Node.elts] at hne
    | cons r0 re =>
      cases rc with
      | nil => simp at hrlen
      | cons c rc => simp [stealFromRight, Node.elts]

theorem stealFromLeft_mem {t h : Nat} {l s : Node} (p : Elt) (hl : Shape t h l) (hs : Shape t h s)
    (hne : 0 < l.elts.length) : p ∈ flat (stealFromLeft l s p).2.2 := by
  apply mem_flat_of_mem_elts
  cases h with
  | zero =>
    obtain ⟨le, rfl⟩ := shape_zero hl
    obtain ⟨se, rfl⟩ := shape_zero hs
    simp only [Node.elts] at hne
    obtain ⟨le', x, rfl⟩ := snoc_of_pos le hne
    simp [stealFromLeft, Node.elts]
  | succ h =>
    obtain ⟨le, lc, rfl, hllen, _⟩ := shape_succ hl
    obtain ⟨se, sc, rfl, _, _⟩ := shape_succ hs
    simp only [Node.elts] at hne
    obtain ⟨le', x, rfl⟩ := snoc_of_pos le hne
    obtain ⟨lc', z, rfl⟩ := snoc_of_pos lc (by omega)
    simp [stealFromLeft, Node.elts]

/-! ## the three steps computed on a decomposed parent -/

theorem tryLeftSteal_zero (t : Nat) (es : List Elt) (cs : List Node) : tryLeftSteal t es cs 0 = none := by
  simp [tryLeftSteal]

theorem tryLeftSteal_eq (t : Nat) (el er : List Elt) (p : Elt) (cl : List Node) (l s : Node) (cr : List Node)
    (h : cl.length = el.length) :
    tryLeftSteal t (el ++ p :: er) (cl ++ l :: s :: cr) (el.length + 1) =
      if isMinimal t l then none
      else some (el ++ (stealFromLeft l s p).2.1 :: er,
                 cl ++ (stealFromLeft l s p).1 :: (stealFromLeft l s p).2.2 :: cr) := by
  simp only [tryLeftSteal, Nat.add_sub_cancel, kidAt_at h, kidAt_at_succ h, eltAt_at rfl, setAt_at rfl,
    setAt_at h]
  cases isMinimal t l
  · simp [setAt_at_succ h]
  · simp

theorem merge_eq (el er : List Elt) (p : Elt) (cl : List Node) (a b : Node) (cr : List Node)
    (h : cl.length = el.length) :
    merge (el ++ p :: er) (cl ++ a :: b :: cr) el.length = some (el ++ er, cl ++ mergeNodes a p b :: cr) := by
  have hlt : el.length + 1 < (cl ++ a :: b :: cr).length := by simp; omega
  simp only [merge, hlt, if_true, kidAt_at h, kidAt_at_succ h, eltAt_at rfl, popAt_at rfl, popAt_at_succ h,
    setAt_at h]

/-- what `balance` + searching again deliver to `delete` -/
def BalOut (t h : Nat) (key : Nat) (es : List Elt) (cs : List Node) (r : List Elt × List Node) : Prop :=
  ∃ el1 er1 cl1 c1 cr1, r = (el1 ++ er1, cl1 ++ c1 :: cr1) ∧ cl1.length = el1.length ∧
    Kids t h (el1 ++ er1) (cl1 ++ c1 :: cr1) ∧
    flat (.node (el1 ++ er1) (cl1 ++ c1 :: cr1)) = flat (.node es cs) ∧
    (∀ x ∈ el1, x.1 < key) ∧ (∀ x ∈ er1, key < x.1) ∧ minKeys t < c1.elts.length ∧
    es.length ≤ (el1 ++ er1).length + 1 ∧ (el1 ++ er1).length ≤ es.length

/-- `BalOut` together with the index of the child to continue in -/
def BalOutAt (j : Nat) (t h : Nat) (key : Nat) (es : List Elt) (cs : List Node) (r : List Elt × List Node) : Prop :=
  ∃ el1 er1 cl1 c1 cr1, r = (el1 ++ er1, cl1 ++ c1 :: cr1) ∧ cl1.length = el1.length ∧
    Kids t h (el1 ++ er1) (cl1 ++ c1 :: cr1) ∧
    flat (.node (el1 ++ er1) (cl1 ++ c1 :: cr1)) = flat (.node es cs) ∧
    (∀ x ∈ el1, x.1 < key) ∧ (∀ x ∈ er1, key < x.1) ∧ minKeys t < c1.elts.length ∧
    es.length ≤ (el1 ++ er1).length + 1 ∧ (el1 ++ er1).length ≤ es.length ∧ el1.length = j

theorem BalOutAt.toBalOut {j t h key : Nat} {es : List Elt} {cs : List Node} {r : List Elt × List Node}
    (b : BalOutAt j t h key es cs r) : BalOut t h key es cs r := by
  obtain ⟨el1, er1, cl1, c1, cr1, h1, h2, h3, h4, h5, h6, h7, h8, h9, _⟩ := b
  exact ⟨el1, er1, cl1, c1, cr1, h1, h2, h3, h4, h5, h6, h7, h8, h9⟩

theorem bal_left_steal {t h key : Nat} {el er : List Elt} {p : Elt} {cl cr : List Node} {l c : Node}
    (hk : Kids t h (el ++ p :: er) (cl ++ l :: c :: cr)) (hcl : cl.length = el.length)
    (hs : Sorted (flat (.node (el ++ p :: er) (cl ++ l :: c :: cr))))
    (hlmin : l.elts.length ≠ minKeys t) (hcmax : c.elts.length < maxKeys t)
    (hwl : ∀ x ∈ el, x.1 < key) (hp : p.1 < key) (hwr : ∀ x ∈ er, key < x.1) :
    BalOutAt (el.length + 1) t h key (el ++ p :: er) (cl ++ l :: c :: cr)
      (el ++ (stealFromLeft l c p).2.1 :: er, cl ++ (stealFromLeft l c p).1 :: (stealFromLeft l c p).2.2 :: cr) := by
  have hl := hk.2 l (by simp)
  have hc := hk.2 c (by simp)
  have hlpos : 0 < l.elts.length := by have := hl.2.1; omega
  obtain ⟨h1, h2, h3, h4, h5⟩ := stealFromLeft_spec p hl.1 hc.1 hlpos
  have hmem := stealFromLeft_mem p hl.1 hc.1 hlpos
  generalize stealFromLeft l c p = st at *
  obtain ⟨l', up, c'⟩ := st
  simp only at h1 h2 h3 h4 h5 hmem ⊢
  have hflat : flat (.node (el ++ up :: er) (cl ++ l' :: c' :: cr)) =
      flat (.node (el ++ p :: er) (cl ++ l :: c :: cr)) := by
    rw [flat_node_split2 _ _ _ _ _ _ _ hcl, flat_node_split2 _ _ _ _ _ _ _ hcl, h5]
  have hs' : Sorted (flat (.node (el ++ up :: er) (cl ++ l' :: c' :: cr))) := by rw [hflat]; exact hs
  have hup : up.1 < p.1 := by
    rw [flat_node_split2 _ _ _ _ _ _ _ hcl] at hs'
    have hmid := (sorted_append_iff.mp (sorted_append_iff.mp hs').1).2.1
    have := (sorted_append_iff.mp hmid).2.1
    exact (sorted_cons_iff.mp this).1 p hmem
  refine ⟨el ++ [up], er, cl ++ [l'], c', cr, by simp, by simp [hcl], ?_, by simpa using hflat, ?_, hwr, ?_, ?_, ?_, by simp⟩
  · have hol' : Occ t l' := by have := hl.2; simp only [Occ] at this ⊢; omega
    have hoc' : Occ t c' := by have := hc.2; simp only [Occ] at this ⊢; omega
    have := kids_replace2 (up := up) hk ⟨h1, hol'⟩ ⟨h2, hoc'⟩
    simpa using this
  · intro x hx
    rcases List.mem_append.mp hx with hx | hx
    · exact hwl x hx
    · simp at hx; subst hx; omega
  · have := hc.2.1; omega
  · simp
  · simp

theorem bal_right_steal {t h key : Nat} {el er : List Elt} {q : Elt} {cl cr : List Node} {c r : Node}
    (hk : Kids t h (el ++ q :: er) (cl ++ c :: r :: cr)) (hcl : cl.length = el.length)
    (hs : Sorted (flat (.node (el ++ q :: er) (cl ++ c :: r :: cr))))
    (hrmin : r.elts.length ≠ minKeys t) (hcmax : c.elts.length < maxKeys t)
    (hwl : ∀ x ∈ el, x.1 < key) (hq : key < q.1) (hwr : ∀ x ∈ er, key < x.1) :
    BalOutAt el.length t h key (el ++ q :: er) (cl ++ c :: r :: cr)
      (el ++ (stealFromRight c r q).2.1 :: er, cl ++ (stealFromRight c r q).1 :: (stealFromRight c r q).2.2 :: cr) := by
  have hc := hk.2 c (by simp)
  have hr := hk.2 r (by simp)
  have hrpos : 0 < r.elts.length := by have := hr.2.1; omega
  obtain ⟨h1, h2, h3, h4, h5⟩ := stealFromRight_spec q hc.1 hr.1 hrpos
  have hmem := stealFromRight_mem q hc.1 hr.1 hrpos
  generalize stealFromRight c r q = st at *
  obtain ⟨c', up, r'⟩ := st
  simp only at h1 h2 h3 h4 h5 hmem ⊢
  have hflat : flat (.node (el ++ up :: er) (cl ++ c' :: r' :: cr)) =
      flat (.node (el ++ q :: er) (cl ++ c :: r :: cr)) := by
    rw [flat_node_split2 _ _ _ _ _ _ _ hcl, flat_node_split2 _ _ _ _ _ _ _ hcl, h5]
  have hs' : Sorted (flat (.node (el ++ up :: er) (cl ++ c' :: r' :: cr))) := by rw [hflat]; exact hs
  have hup : q.1 < up.1 := by
    rw [flat_node_split2 _ _ _ _ _ _ _ hcl] at hs'
    have hmid := (sorted_append_iff.mp (sorted_append_iff.mp hs').1).2.1
    exact (sorted_append_iff.mp hmid).2.2 q hmem up (by simp)
  refine ⟨el, up :: er, cl, c', r' :: cr, rfl, hcl, ?_, hflat, hwl, ?_, ?_, by simp, by simp, rfl⟩
  · refine kids_replace2 hk ⟨h1, ?_⟩ ⟨h2, ?_⟩
    · have := hc.2; simp only [Occ] at this ⊢; omega
    · have := hr.2; simp only [Occ] at this ⊢; omega
  · intro x hx
    rcases List.mem_cons.mp hx with rfl | hx
    · omega
    · exact hwr x hx
  · have := hc.2.1; omega

theorem bal_merge {t h key : Nat} {el er : List Elt} {p : Elt} {cl cr : List Node} {a b : Node} (ht : 1 ≤ t)
    (hk : Kids t h (el ++ p :: er) (cl ++ a :: b :: cr)) (hcl : cl.length = el.length)
    (ha : a.elts.length = minKeys t) (hb : b.elts.length = minKeys t)
    (hwl : ∀ x ∈ el, x.1 < key) (hwr : ∀ x ∈ er, key < x.1) :
    BalOutAt el.length t h key (el ++ p :: er) (cl ++ a :: b :: cr) (el ++ er, cl ++ mergeNodes a p b :: cr) := by
  obtain ⟨h1, h2, h3⟩ := mergeNodes_spec p (hk.2 a (by simp)).1 (hk.2 b (by simp)).1
  refine ⟨el, er, cl, mergeNodes a p b, cr, rfl, hcl, ?_, ?_, hwl, hwr, ?_, by simp <;> omega, by simp, rfl⟩
  · refine kids_merge2 hk ⟨h1, ?_⟩
    simp only [Occ, h2, ha, hb, minKeys, maxKeys]; omega
  · rw [flat_node_split _ _ _ _ _ hcl, flat_node_split2 _ _ _ _ _ _ _ hcl, h3]
  · rw [h2, ha, hb]; omega

/-- `balance` of the minimal child at the search window of `key` -/
theorem balance_spec {t h key : Nat} {el er : List Elt} {cl cr : List Node} {c : Node} (ht : 2 ≤ t)
    (hk : Kids t h (el ++ er) (cl ++ c :: cr)) (hcl : cl.length = el.length)
    (hs : Sorted (flat (.node (el ++ er) (cl ++ c :: cr))))
    (hmin : c.elts.length = minKeys t) (hne : 1 ≤ (el ++ er).length)
    (hwl : ∀ x ∈ el, x.1 < key) (hwr : ∀ x ∈ er, key < x.1) :
    ∃ r, balance t (el ++ er) (cl ++ c :: cr) el.length = some r ∧ BalOut t h key (el ++ er) (cl ++ c :: cr) r := by
  have hcr : cr.length = er.length := by have := hk.1; simp at this; omega
  have hcmax : c.elts.length < maxKeys t := by rw [hmin]; simp only [minKeys, maxKeys]; omega
  -- the right-hand alternatives (right steal, or merge with the right sibling), available when `er ≠ []`
  by_cases hel : el = []
  · -- leftmost child
    subst hel
    have : cl = [] := by cases cl <;> simp_all
    subst this
    cases er with
    | nil => simp at hne
    | cons q er =>
      cases cr with
      | nil => simp at hcr
      | cons r cr =>
        have hq := hwr q (by simp)
        have hwr' : ∀ x ∈ er, key < x.1 := fun x hx => hwr x (by simp [hx])
        have hrs := tryRightSteal_eq t [] er q [] c r cr rfl
        simp only [List.nil_append, List.length_nil] at hrs hk hs ⊢
        simp only [balance, tryLeftSteal_zero, hrs]
        by_cases hrmin : r.elts.length = minKeys t
        · have : isMinimal t r = true := by simp [isMinimal, hrmin]
          simp only [this, if_true]
          have hm := merge_eq [] er q [] c r cr rfl
          simp only [List.nil_append, List.length_nil] at hm
          rw [hm]
          have := bal_merge (key := key) (el := []) (cl := []) (by omega) hk rfl hmin hrmin (by simp) hwr'
          exact ⟨_, rfl, by simpa using this.toBalOut⟩
        · have : isMinimal t r = false := by simp [isMinimal, hrmin]
          simp only [this, Bool.false_eq_true, if_false]
          have := bal_right_steal (key := key) (el := []) (cl := []) hk rfl hs hrmin hcmax (by simp) hq hwr'
          exact ⟨_, rfl, by simpa using this.toBalOut⟩
  · -- there is a left sibling
    obtain ⟨el', p, rfl⟩ := snoc_of_pos el (by cases el <;> simp_all)
    obtain ⟨cl', l, rfl⟩ := snoc_of_pos cl (by simp at hcl; omega)
    have hcl' : cl'.length = el'.length := by simpa using hcl
    have hp := hwl p (by simp)
    have hwl' : ∀ x ∈ el', x.1 < key := fun x hx => hwl x (by simp [hx])
    simp only [List.append_assoc, List.singleton_append, List.length_append, List.length_cons,
      List.length_nil, Nat.zero_add] at hk hs hne ⊢
    have hls := tryLeftSteal_eq t el' er p cl' l c cr hcl'
    simp only [balance, hls]
    by_cases hlmin : l.elts.length = minKeys t
    · have : isMinimal t l = true := by simp [isMinimal, hlmin]
      simp only [this, if_true]
      -- no left steal; try the right sibling
      have hmerge : ∃ r, merge (el' ++ p :: er) (cl' ++ l :: c :: cr) (el'.length + 1 - 1) = some r ∧
          BalOut t h key (el' ++ p :: er) (cl' ++ l :: c :: cr) r := by
        rw [Nat.add_sub_cancel, merge_eq el' er p cl' l c cr hcl']
        exact ⟨_, rfl, (bal_merge (by omega) hk hcl' hlmin hmin hwl' hwr).toBalOut⟩
      cases er with
      | nil =>
        have : cr = [] := by cases cr <;> simp_all
        subst this
        have hshort : ¬ el'.length + 1 + 1 < (cl' ++ [l, c]).length := by simp; omega
        rw [tryRightSteal_none_of_short _ _ _ _ hshort]
        simpa using hmerge
      | cons q er =>
        cases cr with
        | nil => simp at hcr
        | cons r cr =>
          have hq := hwr q (by simp)
          have hwr' : ∀ x ∈ er, key < x.1 := fun x hx => hwr x (by simp [hx])
          have hrs := tryRightSteal_eq t (el' ++ [p]) er q (cl' ++ [l]) c r cr (by simp [hcl'])
          simp only [List.append_assoc, List.singleton_append, List.length_append, List.length_cons,
            List.length_nil, Nat.zero_add] at hrs
          rw [hrs]
          by_cases hrmin : r.elts.length = minKeys t
          · have : isMinimal t r = true := by simp [isMinimal, hrmin]
            simp only [this, if_true]
            simpa using hmerge
          · have : isMinimal t r = false := by simp [isMinimal, hrmin]
            simp only [this, Bool.false_eq_true, if_false]
            have hk2 : Kids t h ((el' ++ [p]) ++ q :: er) ((cl' ++ [l]) ++ c :: r :: cr) := by simpa using hk
            have hs2 : Sorted (flat (.node ((el' ++ [p]) ++ q :: er) ((cl' ++ [l]) ++ c :: r :: cr))) := by
              simpa using hs
            have := bal_right_steal (key := key) hk2 (by simp [hcl']) hs2 hrmin hcmax hwl hq hwr'
            exact ⟨_, rfl, by simpa using this.toBalOut⟩
    · have : isMinimal t l = false := by simp [isMinimal, hlmin]
      simp only [this, Bool.false_eq_true, if_false]
      exact ⟨_, rfl, (bal_left_steal hk hcl' hs hlmin hcmax hwl' hp hwr).toBalOut⟩

/-- `balance_spec` with the index of the child to continue in: the same index after a steal or a merge of the
leftmost child, one less after a merge with the left sibling -/
theorem balance_spec_at {t h key : Nat} {el er : List Elt} {cl cr : List Node} {c : Node} (ht : 2 ≤ t)
    (hk : Kids t h (el ++ er) (cl ++ c :: cr)) (hcl : cl.length = el.length)
    (hs : Sorted (flat (.node (el ++ er) (cl ++ c :: cr))))
    (hmin : c.elts.length = minKeys t) (hne : 1 ≤ (el ++ er).length)
    (hwl : ∀ x ∈ el, x.1 < key) (hwr : ∀ x ∈ er, key < x.1) :
    ∃ r j, balance t (el ++ er) (cl ++ c :: cr) el.length = some r ∧ BalOutAt j t h key (el ++ er) (cl ++ c :: cr) r ∧
      (r.1.length = (el ++ er).length → j = el.length) ∧
      (r.1.length + 1 = (el ++ er).length → el = [] → j = 0) ∧
      (r.1.length + 1 = (el ++ er).length → el ≠ [] → j + 1 = el.length) := by
  have hcr : cr.length = er.length := by have := hk.1; simp at this; omega
  have hcmax : c.elts.length < maxKeys t := by rw [hmin]; simp only [minKeys, maxKeys]; omega
  -- the right-hand alternatives (right steal, or merge with the right sibling), available when `er ≠ []`
  by_cases hel : el = []
  · -- leftmost child
    subst hel
    have : cl = [] := by cases cl <;> simp_all
    subst this
    cases er with
    | nil => simp at hne
    | cons q er =>
      cases cr with
      | nil => simp at hcr
      | cons r cr =>
        have hq := hwr q (by simp)
        have hwr' : ∀ x ∈ er, key < x.1 := fun x hx => hwr x (by simp [hx])
        have hrs := tryRightSteal_eq t [] er q [] c r cr rfl
        simp only [List.nil_append, List.length_nil] at hrs hk hs ⊢
        simp only [balance, tryLeftSteal_zero, hrs]
        by_cases hrmin : r.elts.length = minKeys t
        · have : isMinimal t r = true := by simp [isMinimal, hrmin]
          simp only [this, if_true]
          have hm := merge_eq [] er q [] c r cr rfl
          simp only [List.nil_append, List.length_nil] at hm
          rw [hm]
          have := bal_merge (key := key) (el := []) (cl := []) (by omega) hk rfl hmin hrmin (by simp) hwr'
          exact ⟨_, 0, rfl, by simpa using this, by simp, by simp, by simp⟩
        · have : isMinimal t r = false := by simp [isMinimal, hrmin]
          simp only [this, Bool.false_eq_true, if_false]
          have := bal_right_steal (key := key) (el := []) (cl := []) hk rfl hs hrmin hcmax (by simp) hq hwr'
          exact ⟨_, 0, rfl, by simpa using this, by simp, by simp, by simp⟩
  · -- there is a left sibling
    obtain ⟨el', p, rfl⟩ := snoc_of_pos el (by cases el <;> simp_all)
    obtain ⟨cl', l, rfl⟩ := snoc_of_pos cl (by simp at hcl; omega)
    have hcl' : cl'.length = el'.length := by simpa using hcl
    have hp := hwl p (by simp)
    have hwl' : ∀ x ∈ el', x.1 < key := fun x hx => hwl x (by simp [hx])
    simp only [List.append_assoc, List.singleton_append, List.length_append, List.length_cons,
      List.length_nil, Nat.zero_add] at hk hs hne ⊢
    have hls := tryLeftSteal_eq t el' er p cl' l c cr hcl'
    simp only [balance, hls]
    by_cases hlmin : l.elts.length = minKeys t
    · have : isMinimal t l = true := by simp [isMinimal, hlmin]
      simp only [this, if_true]
      -- no left steal; try the right sibling
      have hmerge : ∃ r j, merge (el' ++ p :: er) (cl' ++ l :: c :: cr) (el'.length + 1 - 1) = some r ∧
          BalOutAt j t h key (el' ++ p :: er) (cl' ++ l :: c :: cr) r ∧
          (r.1.length = el'.length + (er.length + 1) → j = el'.length + 1) ∧
          (r.1.length + 1 = el'.length + (er.length + 1) → el' ++ [p] = [] → j = 0) ∧
          (r.1.length + 1 = el'.length + (er.length + 1) → el' ++ [p] ≠ [] → j + 1 = el'.length + 1) := by
        rw [Nat.add_sub_cancel, merge_eq el' er p cl' l c cr hcl']
        exact ⟨_, el'.length, rfl, bal_merge (by omega) hk hcl' hlmin hmin hwl' hwr,
          by simp <;> omega, by simp, by simp⟩
      cases er with
      | nil =>
        have : cr = [] := by cases cr <;> simp_all
        subst this
        have hshort : ¬ el'.length + 1 + 1 < (cl' ++ [l, c]).length := by simp; omega
        rw [tryRightSteal_none_of_short _ _ _ _ hshort]
        simpa using hmerge
      | cons q er =>
        cases cr with
        | nil => simp at hcr
        | cons r cr =>
          have hq := hwr q (by simp)
          have hwr' : ∀ x ∈ er, key < x.1 := fun x hx => hwr x (by simp [hx])
          have hrs := tryRightSteal_eq t (el' ++ [p]) er q (cl' ++ [l]) c r cr (by simp [hcl'])
          simp only [List.append_assoc, List.singleton_append, List.length_append, List.length_cons,
            List.length_nil, Nat.zero_add] at hrs
          rw [hrs]
          by_cases hrmin : r.elts.length = minKeys t
          · have : isMinimal t r = true := by simp [isMinimal, hrmin]
            simp only [this, if_true]
            simpa using hmerge
          · have : isMinimal t r = false := by simp [isMinimal, hrmin]
            simp only [this, Bool.false_eq_true, if_false]
            have hk2 : Kids t h ((el' ++ [p]) ++ q :: er) ((cl' ++ [l]) ++ c :: r :: cr) := by simpa using hk
            have hs2 : Sorted (flat (.node ((el' ++ [p]) ++ q :: er) ((cl' ++ [l]) ++ c :: r :: cr))) := by
              simpa using hs
            have := bal_right_steal (key := key) hk2 (by simp [hcl']) hs2 hrmin hcmax hwl hq hwr'
            exact ⟨_, el'.length + 1, rfl, by simpa using this, by simp, by simp, by simp⟩
    · have : isMinimal t l = false := by simp [isMinimal, hlmin]
      simp only [this, Bool.false_eq_true, if_false]
      exact ⟨_, el'.length + 1, rfl, bal_left_steal hk hcl' hs hlmin hcmax hwl' hp hwr, by simp, by simp, by simp⟩


end Model.BTree

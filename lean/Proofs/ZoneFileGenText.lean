import Model.ZoneFile
import Proofs.TokenizerTTL
/-!
`$GENERATE` text substitution: `_format_index` (decimal base, zero fill to a width, negative indices), `_parse_modify`
on the two usual shapes of a side (`…$…` and `…${offset,width,base}…`), and `str.replace`.
-/
namespace Model

/-! ## `_format_index` -/

theorem toBaseAux_dec (f n : Nat) (acc : List Nat) : toBaseAux 10 false f n acc = decAux f n acc := by
  induction f generalizing n acc with
  | zero => rfl
  | succ f ih =>
    unfold toBaseAux decAux
    by_cases h : n < 10
    · simp [h, digitChar]
    · have h2 : n % 10 < 10 := Nat.mod_lt _ (by decide)
      simp [h, digitChar, h2, ih]

/-- `format(n, "d")` for a non-negative index is its decimal text -/
theorem formatInt_dec (n : Nat) : formatInt (n : Int) 100 = natToDec n := by
  unfold formatInt natToDec
  have h : ¬ ((n : Int) < 0) := by omega
  simp [h, toBaseAux_dec]

theorem formatInt_dec_neg (n : Nat) : formatInt (-((n : Int) + 1)) 100 = 45 :: natToDec (n + 1) := by
  unfold formatInt natToDec
  have h : (-((n : Int) + 1)) < 0 := by omega
  have ha : (-((n : Int) + 1)).natAbs = n + 1 := by omega
  simp [h, ha, toBaseAux_dec]

theorem natToDec_head (n : Nat) : (natToDec n).head? ≠ some 45 ∧ (natToDec n).head? ≠ some 43 := by
  have hall := natToDec_all n
  cases hd : natToDec n with
  | nil => simp
  | cons d r =>
    have : isDecimal d = true := (List.all_eq_true.mp hall) d (by rw [hd]; simp)
    simp [isDecimal] at this
    simp; omega

/-- `str.zfill` on an unsigned string -/
theorem zfill_unsigned (s : List Nat) (w : Nat) (h1 : s.head? ≠ some 45) (h2 : s.head? ≠ some 43) :
    zfill s w = List.replicate (w - s.length) 48 ++ s := by
  unfold zfill
  by_cases hl : s.length ≥ w
  · have : w - s.length = 0 := by omega
    simp [hl, this]
  · simp only [hl, if_false]
    split
    · rename_i r; simp at h1
    · rename_i r; simp at h2
    · rfl

/-- **width**: a non-negative index in base `d` is its decimal text, left-filled with `0` up to the width -/
theorem formatIndex_dec (n w : Nat) :
    formatIndex (n : Int) 100 w = List.replicate (w - (natToDec n).length) 48 ++ natToDec n := by
  unfold formatIndex
  have : [100, 111, 120, 88].contains 100 = true := by decide
  simp only [this, if_true, formatInt_dec]
  exact zfill_unsigned _ _ (natToDec_head n).1 (natToDec_head n).2

/-- a negative index keeps its sign in front of the zero fill (`"-5".zfill(4) = "-005"`) -/
theorem formatIndex_dec_neg (n w : Nat) :
    formatIndex (-((n : Int) + 1)) 100 w =
      45 :: (List.replicate (w - ((natToDec (n + 1)).length + 1)) 48 ++ natToDec (n + 1)) := by
  unfold formatIndex
  have : [100, 111, 120, 88].contains 100 = true := by decide
  simp only [this, if_true, formatInt_dec_neg]
  unfold zfill
  by_cases hl : (45 :: natToDec (n + 1)).length ≥ w
  · have : w - ((natToDec (n + 1)).length + 1) = 0 := by simp at hl; omega
    simp [hl, this]
  · have hl' : ¬ (natToDec (n + 1)).length + 1 ≥ w := by simpa using hl
    simp only [List.length_cons, hl', if_false]

theorem digitsVal_zeros (k : Nat) (ds : List Nat) (a : Nat) :
    digitsVal (List.replicate k 48 ++ ds) 0 = digitsVal ds 0 := by
  induction k with
  | zero => rfl
  | succ k ih => simpa [List.replicate_succ, digitsVal] using ih

/-- the zero-filled text still denotes the index, and is at least `width` long -/
theorem formatIndex_dec_value (n w : Nat) :
    digitsVal (formatIndex (n : Int) 100 w) 0 = n ∧ w ≤ (formatIndex (n : Int) 100 w).length ∧
    (formatIndex (n : Int) 100 w).all isDecimal = true := by
  rw [formatIndex_dec]
  refine ⟨by rw [digitsVal_zeros _ _ 0, digitsVal_natToDec], by simp; omega, ?_⟩
  simp only [List.all_append, natToDec_all, Bool.and_true, List.all_replicate]
  simp [isDecimal]

/-- **offset**: the index of counter `i` is `i + offset` or `i - offset` -/
theorem substIndex_index (side : List Nat) (m : Modify) (i : Nat) :
    substIndex side m i =
      replaceAll (36 :: m.mod)
        (formatIndex (if m.sign = 45 then (i : Int) - m.offset else (i : Int) + m.offset) m.base m.width)
        (side.length + 1) side := rfl

/-! ## `str.replace` with a single occurrence -/

theorem take_ne_of_head (old : List Nat) (c : Nat) (cs : List Nat) (h : c ≠ 36) :
    ¬ ((36 :: old) ≠ [] ∧ (c :: cs).take (36 :: old).length = 36 :: old) := by
  intro ⟨_, h2⟩
  simp only [List.length_cons, List.take_succ_cons, List.cons.injEq] at h2
  exact h h2.1

theorem replaceAll_none (old new : List Nat) (fuel : Nat) (l : List Nat) (h : 36 ∉ l) :
    replaceAll (36 :: old) new fuel l = l := by
  induction fuel generalizing l with
  | zero => rfl
  | succ f ih =>
    cases l with
    | nil => rfl
    | cons c cs =>
      have hc : c ≠ 36 := fun e => h (by simp [e])
      have hcs : 36 ∉ cs := fun e => h (by simp [e])
      simp only [replaceAll, take_ne_of_head old c cs hc, if_false, ih cs hcs]

/-- the only occurrence of `$mod` is replaced -/
theorem replaceAll_one (old new pre post : List Nat) (fuel : Nat) (hpre : 36 ∉ pre) (hpost : 36 ∉ post)
    (hf : pre.length < fuel) :
    replaceAll (36 :: old) new fuel (pre ++ ((36 :: old) ++ post)) = pre ++ (new ++ post) := by
  induction pre generalizing fuel with
  | nil =>
    cases fuel with
    | zero => simp at hf
    | succ f =>
      have ht : ((36 :: old) ++ post).take (36 :: old).length = 36 :: old := by simp
      have hd : ((36 :: old) ++ post).drop (36 :: old).length = post := by simp
      simp only [List.nil_append, List.cons_append] at ht hd ⊢
      simp only [replaceAll, ne_eq, reduceCtorEq, not_false_eq_true, ht, and_self, if_true, hd,
        replaceAll_none old new f post hpost]
  | cons c r ih =>
    cases fuel with
    | zero => simp at hf
    | succ f =>
      have hc : c ≠ 36 := fun e => hpre (by simp [e])
      have hr : 36 ∉ r := fun e => hpre (by simp [e])
      simp only [List.cons_append, replaceAll, take_ne_of_head old c _ hc, if_false]
      have := ih f hr (by simpa using hf)
      simp only [List.cons_append] at this
      rw [this]

/-! ## `_parse_modify` -/

theorem lastMod_none (shape : Nat) (l : List Nat) (h : 36 ∉ l) : lastMod shape l = none := by
  induction l with
  | nil => rfl
  | cons c cs ih =>
    have hc : c ≠ 36 := fun e => h (by simp [e])
    simp [lastMod, ih (fun e => h (by simp [e])), hc]

/-- with a single `$` in the side, the regular expression can only match right after it -/
theorem lastMod_single (shape : Nat) (pre tail : List Nat) (hpre : 36 ∉ pre) (htail : 36 ∉ tail) :
    lastMod shape (pre ++ 36 :: tail) = modAt shape tail := by
  induction pre with
  | nil => simp [lastMod, lastMod_none shape tail htail]
  | cons c r ih =>
    have hc : c ≠ 36 := fun e => hpre (by simp [e])
    simp only [List.cons_append, lastMod, ih (fun e => hpre (by simp [e]))]
    cases modAt shape tail <;> simp [hc]

theorem modAt_no_brace (shape : Nat) (l : List Nat) (h : l.head? ≠ some 123) : modAt shape l = none := by
  unfold modAt modHead
  cases l with
  | nil => rfl
  | cons c cs =>
    have : c ≠ 123 := by simpa using h
    split
    · rename_i heq
      split at heq
      · rename_i h2; simp at h2; exact absurd h2.1 this
      · rfl
    · rename_i heq
      split at heq
      · rename_i h2; simp at h2; exact absurd h2.1 this
      · cases heq

/-- **the plain shape `…$…`**: no modifier, and the single `$` is replaced by the decimal index -/
theorem substIndex_plain (pre post : List Nat) (i : Nat) (hpre : 36 ∉ pre) (hpost : 36 ∉ post)
    (hbrace : post.head? ≠ some 123) :
    parseModify (pre ++ 36 :: post) = some {} ∧
    substIndex (pre ++ 36 :: post) {} i = pre ++ (natToDec i ++ post) := by
  have h1 := lastMod_single 1 pre post hpre hpost
  have h2 := lastMod_single 2 pre post hpre hpost
  have h3 := lastMod_single 3 pre post hpre hpost
  rw [modAt_no_brace _ _ hbrace] at h1 h2 h3
  constructor
  · unfold parseModify
    simp only [h1, h2, h3]
    decide
  · rw [substIndex_index]
    have hidx : (if ({} : Modify).sign = 45 then (i : Int) - ({} : Modify).offset else (i : Int) + ({} : Modify).offset) = (i : Int) := by
      simp
    rw [hidx]
    have hfmt : formatIndex (i : Int) ({} : Modify).base ({} : Modify).width = natToDec i := by
      have := formatIndex_dec i 0
      simpa using this
    rw [hfmt]
    have := replaceAll_one [] (natToDec i) pre post ((pre ++ 36 :: post).length + 1) hpre hpost (by simp; omega)
    simpa using this

/-! ## the modifier shape `…${[-]offset,width,base}…` -/

def signText (neg : Bool) : List Nat := if neg then [45] else []

/-- text of the group after the `$` -/
def modText (neg : Bool) (o w b : Nat) : List Nat :=
  123 :: (signText neg ++ (natToDec o ++ (44 :: (natToDec w ++ [44, b, 125]))))

theorem span_loop_decimal (ds : List Nat) (c : Nat) (X acc : List Nat) (hds : ds.all isDecimal = true)
    (hc : isDecimal c = false) :
    List.span.loop isDecimal (ds ++ c :: X) acc = (acc.reverse ++ ds, c :: X) := by
  induction ds generalizing acc with
  | nil => simp [List.span.loop, hc]
  | cons d r ih =>
    simp only [List.all_cons, Bool.and_eq_true] at hds
    simp only [List.cons_append, List.span.loop, hds.1, ih (d :: acc) hds.2]
    simp

theorem span_decimal (ds : List Nat) (c : Nat) (X : List Nat) (hds : ds.all isDecimal = true) (hc : isDecimal c = false) :
    (ds ++ c :: X).span isDecimal = (ds, c :: X) := by
  unfold List.span
  rw [span_loop_decimal ds c X [] hds hc]
  simp

theorem modHead_text (neg : Bool) (o : Nat) (c : Nat) (X : List Nat) (hc : isDecimal c = false) :
    modHead (123 :: (signText neg ++ (natToDec o ++ c :: X))) = some (signText neg, natToDec o, c :: X) := by
  have hsp := span_decimal (natToDec o) c X (natToDec_all o) hc
  cases neg with
  | true => simp [modHead, signText, spanDigits, hsp, natToDec_ne_nil]
  | false =>
    have hne := natToDec_ne_nil o
    have hh := natToDec_head o
    cases hd : natToDec o with
    | nil => exact absurd hd hne
    | cons d r =>
      rw [hd] at hsp hh
      have h43 : d ≠ 43 := by simpa using hh.2
      have h45 : d ≠ 45 := by simpa using hh.1
      simp only [signText, Bool.false_eq_true, if_false, List.nil_append, List.cons_append, modHead]
      split
      · rename_i heq; simp at heq; exact absurd heq.1 h43
      · rename_i heq; simp at heq; exact absurd heq.1 h45
      · have hsp' : List.span isDecimal (d :: (r ++ c :: X)) = (d :: r, c :: X) := by simpa using hsp
        simp [spanDigits, hsp']

theorem modAt_full (neg : Bool) (o w b : Nat) (post : List Nat) (hb : b ≠ 10) :
    modAt 1 (modText neg o w b ++ post) =
      some { mod := modText neg o w b, sign := if neg then 45 else 43, offset := o, width := w, base := b } := by
  have h44 : isDecimal 44 = false := by decide
  have e : modText neg o w b ++ post = 123 :: (signText neg ++ (natToDec o ++ 44 :: (natToDec w ++ 44 :: b :: 125 :: post))) := by
    simp [modText, List.append_assoc]
  rw [e]
  unfold modAt
  rw [modHead_text neg o 44 _ h44]
  have hsp := span_decimal (natToDec w) 44 (b :: 125 :: post) (natToDec_all w) h44
  simp only [spanDigits, hsp, natToDec_ne_nil, if_false, hb, digitsVal_natToDec]
  cases neg <;> simp [signText, modText, List.append_assoc]

theorem modText_no_dollar (neg : Bool) (o w b : Nat) (hb : b ≠ 36) : 36 ∉ modText neg o w b := by
  intro h
  simp only [modText, signText, List.mem_cons, List.mem_append] at h
  have hd : ∀ n, 36 ∉ natToDec n := by
    intro n hm
    have := (List.all_eq_true.mp (natToDec_all n)) 36 hm
    simp [isDecimal] at this
  rcases h with h | h | h | h | h | h
  · omega
  · cases neg <;> simp at h
  · exact hd o h
  · omega
  · exact hd w h
  · simp at h; omega

/-- **the modifier shape**: offset, width and base are read off the group, and the single `${…}` is replaced by the
formatted index -/
theorem substIndex_modifier (pre post : List Nat) (neg : Bool) (o w b : Nat) (i : Nat)
    (hpre : 36 ∉ pre) (hpost : 36 ∉ post) (hb : [100, 111, 120, 88, 110, 78].contains b = true) :
    parseModify (pre ++ 36 :: (modText neg o w b ++ post)) =
      some { mod := modText neg o w b, sign := if neg then 45 else 43, offset := o, width := w, base := b } ∧
    substIndex (pre ++ 36 :: (modText neg o w b ++ post))
        { mod := modText neg o w b, sign := if neg then 45 else 43, offset := o, width := w, base := b } i =
      pre ++ (formatIndex (if neg then (i : Int) - o else (i : Int) + o) b w ++ post) := by
  have hb10 : b ≠ 10 := by intro e; subst e; simp at hb
  have hb36 : b ≠ 36 := by intro e; subst e; simp at hb
  have hnd := modText_no_dollar neg o w b hb36
  have htail : 36 ∉ modText neg o w b ++ post := by
    intro h; rcases List.mem_append.mp h with h | h
    · exact hnd h
    · exact hpost h
  have h1 := lastMod_single 1 pre (modText neg o w b ++ post) hpre htail
  rw [modAt_full neg o w b post hb10] at h1
  constructor
  · unfold parseModify
    simp only [h1, hb, if_true]
  · rw [substIndex_index]
    have hidx : (if (if neg = true then 45 else 43) = 45 then (i : Int) - (o : Int) else (i : Int) + (o : Int)) =
        (if neg = true then (i : Int) - o else (i : Int) + o) := by cases neg <;> simp
    simp only [hidx]
    have := replaceAll_one (modText neg o w b) (formatIndex (if neg = true then (i : Int) - o else (i : Int) + o) b w)
      pre post ((pre ++ 36 :: (modText neg o w b ++ post)).length + 1) hpre hpost (by simp; omega)
    simpa [List.append_assoc] using this

end Model

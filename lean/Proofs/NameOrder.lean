import Model.Name
/-!
Helper lemmas for C06, part 1: the RFC 4034 §6.1 canonical order written independently of
`fullcompare`, and the proof that `fullcompare` (as coded: relativity test, right-to-left loop over
lower-cased labels, `ldiff` tie-break) decides exactly that order.

Self-contained (imports only the model) so that it does not depend on the C01 proof files.
-/
namespace Model
namespace NameOrder

/-! ## The specification (RFC 4034 §6.1)

"sort the names according to their least significant (rightmost) labels … labels are compared as
unsigned left-justified octet strings, the absence of an octet sorts before a zero octet, uppercase
US-ASCII letters are treated as if they were lowercase".  `<` on `List Nat` and on
`List (List Nat)` is core Lean's lexicographic order `List.Lex (· < ·)` (a proper prefix is smaller).
dnspython adds: a relative name sorts before an absolute one. -/

/-- the labels of a name, most significant first, lower-cased -/
def revLower (n : Name) : List Label := (lowerName n).reverse

/-- RFC 4034 §6.1 canonical order (plus "relative before absolute") -/
def canonLt (a b : Name) : Prop :=
  (isAbs a = false ∧ isAbs b = true) ∨ (isAbs a = isAbs b ∧ revLower a < revLower b)

instance (a b : Name) : Decidable (canonLt a b) := by unfold canonLt; exact inferInstance

/-- number of common most-significant labels (up to ASCII case) of two label lists given most significant first -/
def commonPrefixLen : List Label → List Label → Nat
  | a :: as, b :: bs => if lowerLabel a = lowerLabel b then commonPrefixLen as bs + 1 else 0
  | _, _ => 0

/-- spec of `nlabels` -/
def commonLabels (a b : Name) : Nat :=
  if isAbs a = isAbs b then commonPrefixLen a.reverse b.reverse else 0

/-- relation code from the number `c` of common labels and the two label counts:
0 none, 1 superdomain, 2 subdomain, 3 equal, 4 commonancestor -/
def relCode (c la lb : Nat) : Nat :=
  if c = la ∧ c = lb then 3
  else if c = la then 1
  else if c = lb then 2
  else if c > 0 then 4 else 0

/-- spec of the reported relation -/
def relationSpec (a b : Name) : Nat :=
  if isAbs a = isAbs b then relCode (commonPrefixLen a.reverse b.reverse) a.length b.length else 0

/-! ## octet strings -/

theorem cmpBytes_range (a b : Bytes) : cmpBytes a b = -1 ∨ cmpBytes a b = 0 ∨ cmpBytes a b = 1 := by
  induction a generalizing b with
  | nil => cases b <;> simp [cmpBytes]
  | cons x xs ih =>
    cases b with
    | nil => simp [cmpBytes]
    | cons y ys =>
      simp only [cmpBytes]
      split
      · simp
      · split
        · simp
        · exact ih ys

theorem cmpBytes_lt (a b : Bytes) : cmpBytes a b < 0 ↔ a < b := by
  induction a generalizing b with
  | nil => cases b <;> simp [cmpBytes]
  | cons x xs ih =>
    cases b with
    | nil => simp [cmpBytes]
    | cons y ys =>
      simp only [cmpBytes, List.cons_lt_cons_iff]
      split
      · rename_i h; simp [h]
      · rename_i h
        split
        · rename_i h2
          constructor
          · intro h3; omega
          · rintro (h3 | ⟨h3, _⟩) <;> omega
        · rename_i h2
          have : x = y := by omega
          subst this
          simp [ih ys]

theorem cmpBytes_eq (a b : Bytes) : cmpBytes a b = 0 ↔ a = b := by
  induction a generalizing b with
  | nil => cases b <;> simp [cmpBytes]
  | cons x xs ih =>
    cases b with
    | nil => simp [cmpBytes]
    | cons y ys =>
      simp only [cmpBytes, List.cons.injEq]
      split
      · rename_i h
        constructor
        · intro h3; omega
        · rintro ⟨h3, _⟩; omega
      · split
        · rename_i h h2
          constructor
          · intro h3; omega
          · rintro ⟨h3, _⟩; omega
        · rename_i h h2
          have : x = y := by omega
          subst this
          simp [ih ys]

theorem cmpBytes_gt (a b : Bytes) : cmpBytes a b > 0 ↔ b < a := by
  induction a generalizing b with
  | nil => cases b <;> simp [cmpBytes]
  | cons x xs ih =>
    cases b with
    | nil => simp [cmpBytes]
    | cons y ys =>
      simp only [cmpBytes, List.cons_lt_cons_iff]
      split
      · rename_i h
        constructor
        · intro h3; omega
        · rintro (h3 | ⟨h3, _⟩) <;> omega
      · rename_i h
        split
        · rename_i h2; simp [h2]
        · rename_i h2
          have : x = y := by omega
          subst this
          simp [ih ys]

theorem cmpLabel_lt (a b : Label) : cmpLabel a b < 0 ↔ lowerLabel a < lowerLabel b := cmpBytes_lt _ _
theorem cmpLabel_eq (a b : Label) : cmpLabel a b = 0 ↔ lowerLabel a = lowerLabel b := cmpBytes_eq _ _
theorem cmpLabel_gt (a b : Label) : cmpLabel a b > 0 ↔ lowerLabel b < lowerLabel a := cmpBytes_gt _ _

/-! ## label lists, most significant first -/

/-- three-way lexicographic comparison of label lists, as the loop of `fullcompare` performs it -/
def lexCmp : List Label → List Label → Int
  | [], [] => 0
  | [], _ :: _ => -1
  | _ :: _, [] => 1
  | a :: as, b :: bs =>
    if cmpLabel a b < 0 then -1 else if cmpLabel a b > 0 then 1 else lexCmp as bs

theorem lexCmp_range (xs ys : List Label) : lexCmp xs ys = -1 ∨ lexCmp xs ys = 0 ∨ lexCmp xs ys = 1 := by
  induction xs generalizing ys with
  | nil => cases ys <;> simp [lexCmp]
  | cons x xs ih =>
    cases ys with
    | nil => simp [lexCmp]
    | cons y ys =>
      simp only [lexCmp]
      split
      · simp
      · split
        · simp
        · exact ih ys

theorem lexCmp_lt (xs ys : List Label) : lexCmp xs ys < 0 ↔ xs.map lowerLabel < ys.map lowerLabel := by
  induction xs generalizing ys with
  | nil => cases ys <;> simp [lexCmp]
  | cons x xs ih =>
    cases ys with
    | nil => simp [lexCmp]
    | cons y ys =>
      simp only [lexCmp, List.map_cons, List.cons_lt_cons_iff]
      split
      · rename_i h
        simp [(cmpLabel_lt x y).1 h]
      · rename_i h
        have hnlt : ¬ lowerLabel x < lowerLabel y := fun h' => h ((cmpLabel_lt x y).2 h')
        split
        · rename_i h2
          have hne : lowerLabel x ≠ lowerLabel y := by
            intro he; have := (cmpLabel_eq x y).2 he; omega
          simp [hnlt, hne]
        · rename_i h2
          have he : lowerLabel x = lowerLabel y := (cmpLabel_eq x y).1 (by omega)
          have hirr : ¬ lowerLabel y < lowerLabel y := List.lt_irrefl _
          simp [he, hirr, ih ys]

theorem lexCmp_eq (xs ys : List Label) : lexCmp xs ys = 0 ↔ xs.map lowerLabel = ys.map lowerLabel := by
  induction xs generalizing ys with
  | nil => cases ys <;> simp [lexCmp]
  | cons x xs ih =>
    cases ys with
    | nil => simp [lexCmp]
    | cons y ys =>
      simp only [lexCmp, List.map_cons, List.cons.injEq]
      split
      · rename_i h
        have hne : lowerLabel x ≠ lowerLabel y := by
          intro he; have := (cmpLabel_eq x y).2 he; omega
        simp [hne]
      · rename_i h
        split
        · rename_i h2
          have hne : lowerLabel x ≠ lowerLabel y := by
            intro he; have := (cmpLabel_eq x y).2 he; omega
          simp [hne]
        · rename_i h2
          have he : lowerLabel x = lowerLabel y := (cmpLabel_eq x y).1 (by omega)
          simp [he, ih ys]

theorem lexCmp_gt (xs ys : List Label) : lexCmp xs ys > 0 ↔ ys.map lowerLabel < xs.map lowerLabel := by
  induction xs generalizing ys with
  | nil => cases ys <;> simp [lexCmp]
  | cons x xs ih =>
    cases ys with
    | nil => simp [lexCmp]
    | cons y ys =>
      simp only [lexCmp, List.map_cons, List.cons_lt_cons_iff]
      split
      · rename_i h
        have hngt : ¬ lowerLabel y < lowerLabel x := by
          intro h'; have := (cmpLabel_gt x y).2 h'; omega
        have hne : lowerLabel y ≠ lowerLabel x := by
          intro he; have := (cmpLabel_eq x y).2 he.symm; omega
        simp [hngt, hne]
      · rename_i h
        split
        · rename_i h2
          simp [(cmpLabel_gt x y).1 h2]
        · rename_i h2
          have he : lowerLabel x = lowerLabel y := (cmpLabel_eq x y).1 (by omega)
          have hirr : ¬ lowerLabel y < lowerLabel y := List.lt_irrefl _
          simp [he, hirr, ih ys]

/-! ## the loop of `fullcompare` -/

theorem fcLoop_nil_left (ys : List Label) (k : Nat) : fcLoop [] ys k = none := by
  cases ys <;> simp [fcLoop]

theorem fcLoop_nil_right (xs : List Label) (k : Nat) : fcLoop xs [] k = none := by
  cases xs <;> simp [fcLoop]

/-- truncating both lists to the common length (as the code does through `l`) does not change the loop -/
theorem fcLoop_take (xs ys : List Label) (k : Nat) :
    fcLoop (xs.take (min xs.length ys.length)) (ys.take (min xs.length ys.length)) k = fcLoop xs ys k := by
  induction xs generalizing ys k with
  | nil => simp [fcLoop_nil_left]
  | cons x xs ih =>
    cases ys with
    | nil => simp [fcLoop_nil_right]
    | cons y ys =>
      have : min (x :: xs).length (y :: ys).length = min xs.length ys.length + 1 := by
        simp only [List.length_cons]; omega
      rw [this]
      simp only [List.take_succ_cons, fcLoop]
      rw [ih]

/-- the loop stopped at a differing label -/
theorem fcLoop_some (xs ys : List Label) (k : Nat) (o : Int) (j : Nat) (h : fcLoop xs ys k = some (o, j)) :
    lexCmp xs ys = o ∧ (o = -1 ∨ o = 1) ∧ j = k + commonPrefixLen xs ys ∧
      commonPrefixLen xs ys < xs.length ∧ commonPrefixLen xs ys < ys.length := by
  induction xs generalizing ys k with
  | nil => simp [fcLoop_nil_left] at h
  | cons x xs ih =>
    cases ys with
    | nil => simp [fcLoop_nil_right] at h
    | cons y ys =>
      simp only [fcLoop] at h
      simp only [lexCmp, commonPrefixLen, List.length_cons]
      split at h
      · rename_i hc
        have hne : lowerLabel x ≠ lowerLabel y := by
          intro he; have := (cmpLabel_eq x y).2 he; omega
        simp only [Option.some.injEq, Prod.mk.injEq] at h
        simp [hc, hne, ← h.1, ← h.2]
      · rename_i hc
        split at h
        · rename_i hc2
          have hne : lowerLabel x ≠ lowerLabel y := by
            intro he; have := (cmpLabel_eq x y).2 he; omega
          simp only [Option.some.injEq, Prod.mk.injEq] at h
          simp [hc, hc2, hne, ← h.1, ← h.2]
        · rename_i hc2
          have he : lowerLabel x = lowerLabel y := (cmpLabel_eq x y).1 (by omega)
          obtain ⟨h1, h2, h3, h4, h5⟩ := ih ys (k + 1) h
          simp only [hc, hc2, he, if_true, if_false]
          refine ⟨h1, h2, by omega, by omega, by omega⟩

/-- the loop ran through the shorter list: all of its labels are common -/
theorem fcLoop_none (xs ys : List Label) (k : Nat) (h : fcLoop xs ys k = none) :
    lexCmp xs ys = (if xs.length < ys.length then -1 else if xs.length > ys.length then 1 else 0) ∧
      commonPrefixLen xs ys = min xs.length ys.length := by
  induction xs generalizing ys k with
  | nil => cases ys <;> simp [lexCmp, commonPrefixLen]
  | cons x xs ih =>
    cases ys with
    | nil => simp [lexCmp, commonPrefixLen]
    | cons y ys =>
      simp only [fcLoop] at h
      simp only [lexCmp, commonPrefixLen, List.length_cons]
      split at h
      · simp at h
      · rename_i hc
        split at h
        · simp at h
        · rename_i hc2
          have he : lowerLabel x = lowerLabel y := (cmpLabel_eq x y).1 (by omega)
          obtain ⟨h1, h2⟩ := ih ys (k + 1) h
          simp only [hc, hc2, he, if_true, if_false, h1, h2]
          have e1 : (xs.length + 1 < ys.length + 1) = (xs.length < ys.length) := by simp
          have e2 : (xs.length + 1 > ys.length + 1) = (xs.length > ys.length) := by simp
          simp only [e1, e2]
          exact ⟨trivial, by omega⟩

/-! ## `fullcompare` -/

/-- `fullcompare` unfolded for names of different relativity -/
theorem fullcompare_diff (a b : Name) (h : isAbs a ≠ isAbs b) :
    fullcompare a b = if isAbs a then (0, 1, 0) else (0, -1, 0) := by
  unfold fullcompare
  simp [h]

/-- `fullcompare` for names of equal relativity, with the truncation to `l` removed -/
theorem fullcompare_same (a b : Name) (h : isAbs a = isAbs b) :
    fullcompare a b =
      match fcLoop a.reverse b.reverse 0 with
      | some (o, k) => (if k > 0 then 4 else 0, o, k)
      | none =>
        let ldiff : Int := (a.length : Int) - (b.length : Int)
        (if ldiff < 0 then 1 else if ldiff > 0 then 2 else 3, ldiff, min a.length b.length) := by
  unfold fullcompare
  have := fcLoop_take a.reverse b.reverse 0
  simp only [List.length_reverse] at this
  simp only [h, bne_self_eq_false, Bool.false_eq_true, if_false, this]
  cases fcLoop a.reverse b.reverse 0 <;> rfl

/-- the three outcomes of the order component, same relativity -/
theorem cmpOrder_same (a b : Name) (h : isAbs a = isAbs b) :
    (cmpOrder a b < 0 ↔ lexCmp a.reverse b.reverse < 0) ∧
    (cmpOrder a b = 0 ↔ lexCmp a.reverse b.reverse = 0) ∧
    (cmpOrder a b > 0 ↔ lexCmp a.reverse b.reverse > 0) := by
  unfold cmpOrder
  rw [fullcompare_same a b h]
  cases hl : fcLoop a.reverse b.reverse 0 with
  | some p =>
    obtain ⟨o, j⟩ := p
    obtain ⟨h1, _, _⟩ := fcLoop_some _ _ _ _ _ hl
    simp [h1]
  | none =>
    have h1 := (fcLoop_none _ _ _ hl).1
    simp only [List.length_reverse] at h1
    simp only [h1]
    by_cases c1 : a.length < b.length
    · simp only [c1, if_true]; omega
    · by_cases c2 : a.length > b.length
      · simp only [c1, c2, if_true, if_false]; omega
      · have hab : (a.length : Int) = b.length := by omega
        simp [c1, c2, hab]

theorem revLower_eq (a : Name) : revLower a = a.reverse.map lowerLabel := by
  simp [revLower, lowerName, List.map_reverse]

theorem isAbs_eq_bool (a b : Name) : isAbs a ≠ isAbs b → (isAbs a = true ∧ isAbs b = false) ∨ (isAbs a = false ∧ isAbs b = true) := by
  cases isAbs a <;> cases isAbs b <;> simp

/-- **fullcompare decides RFC 4034 §6.1**: the order component is negative exactly when `a` precedes `b`. -/
theorem cmpOrder_lt_iff (a b : Name) : cmpOrder a b < 0 ↔ canonLt a b := by
  by_cases h : isAbs a = isAbs b
  · rw [(cmpOrder_same a b h).1, lexCmp_lt, canonLt, revLower_eq, revLower_eq]
    constructor
    · intro hl; exact Or.inr ⟨h, hl⟩
    · rintro (⟨h1, h2⟩ | ⟨_, h2⟩)
      · rw [h1, h2] at h; cases h
      · exact h2
  · unfold cmpOrder
    rw [fullcompare_diff a b h, canonLt]
    rcases isAbs_eq_bool a b h with ⟨h1, h2⟩ | ⟨h1, h2⟩ <;> simp [h1, h2]

theorem cmpOrder_gt_iff (a b : Name) : cmpOrder a b > 0 ↔ canonLt b a := by
  by_cases h : isAbs a = isAbs b
  · rw [(cmpOrder_same a b h).2.2, lexCmp_gt, canonLt, revLower_eq, revLower_eq]
    constructor
    · intro hl; exact Or.inr ⟨h.symm, hl⟩
    · rintro (⟨h1, h2⟩ | ⟨_, h2⟩)
      · rw [h1, h2] at h; cases h
      · exact h2
  · unfold cmpOrder
    rw [fullcompare_diff a b h, canonLt]
    rcases isAbs_eq_bool a b h with ⟨h1, h2⟩ | ⟨h1, h2⟩ <;> simp [h1, h2]

theorem lowerLabel_eq_nil (l : Label) : lowerLabel l = [] ↔ l = [] := by
  simp [lowerLabel]

theorem isAbs_lowerName (a : Name) : isAbs (lowerName a) = isAbs a := by
  unfold isAbs lowerName
  rw [List.getLast?_map]
  cases h : a.getLast? with
  | none => simp
  | some l =>
    cases l with
    | nil => simp [lowerLabel]
    | cons x xs => simp [lowerLabel]

theorem cmpOrder_eq_iff (a b : Name) : cmpOrder a b = 0 ↔ lowerName a = lowerName b := by
  by_cases h : isAbs a = isAbs b
  · rw [(cmpOrder_same a b h).2.1, lexCmp_eq, List.map_reverse, List.map_reverse]
    constructor
    · intro hl
      have := congrArg List.reverse hl
      simpa [lowerName] using this
    · intro hl
      simp only [lowerName] at hl
      rw [hl]
  · constructor
    · intro h0
      unfold cmpOrder at h0
      rw [fullcompare_diff a b h] at h0
      split at h0 <;> simp at h0
    · intro hl
      exfalso; apply h
      rw [← isAbs_lowerName a, ← isAbs_lowerName b, hl]

end NameOrder
end Model

import Model.ZoneFile
import Proofs.ZoneFileCodecs2
/-!
TXT: quoted `<character-string>`s escaped by `dns.rdata._escapify` go through the tokenizer's quoting mode and
`unescape_to_bytes` back to the same octets.
-/
namespace Model

/-- what the round trip needs from `dns.rdata._escaped` (checked on the generated constant) -/
def RdEscOK (esc : List Nat) : Prop := 34 ∈ esc ∧ 92 ∈ esc ∧ ∀ d ∈ esc, d < 128 ∧ isDecimal d = false

instance (esc : List Nat) : Decidable (RdEscOK esc) := by unfold RdEscOK; exact inferInstance

theorem rdEscOK_generated : RdEscOK ConstsC09.rdataEscaped := by decide

theorem utf8_ascii (c : Nat) (h : c < 128) : utf8 c = [c] := by simp [utf8, h]

theorem unescape_rdEscOctet (c : Nat) (hc : c < 256) (rest r : List Nat)
    (hr : unescapeWith utf8 rest = .ok r) : unescapeWith utf8 (rdEscOctet c ++ rest) = .ok (c :: r) := by
  obtain ⟨h34, h92, hall⟩ := rdEscOK_generated
  unfold rdEscOctet
  split
  · rename_i hm
    have hm' : c ∈ ConstsC09.rdataEscaped := by simpa using hm
    obtain ⟨h1, h2⟩ := hall c hm'
    rw [unescapeWith.eq_def]
    simp [h2, hr, utf8_ascii c h1]
  · rename_i hm
    have hm' : c ∉ ConstsC09.rdataEscaped := by simpa using hm
    split
    · rename_i hp
      have hne : c ≠ 92 := fun e => hm' (e ▸ h92)
      rw [unescapeWith.eq_def]
      simp [hne, hr, utf8_ascii c (by omega)]
    · have d1 : isDecimal (48 + c / 100) = true := by simp [isDecimal]; omega
      have d2 : isDecimal (48 + c / 10 % 10) = true := by simp [isDecimal]; omega
      have d3 : isDecimal (48 + c % 10) = true := by simp [isDecimal]; omega
      have e : (48 + c / 100 - 48) * 100 + (48 + c / 10 % 10 - 48) * 10 + (48 + c % 10 - 48) = c := by omega
      have hle : ¬ c > 255 := by omega
      have e2 : c / 100 * 100 + c / 10 % 10 * 10 + c % 10 = c := by omega
      have hle2 : ¬ 255 < c := by omega
      simp [dec3, unescapeWith, d1, d2, d3, e, hle, hr, e2, hle2]

theorem unescape_rdEscapify (s : Bytes) (hs : ∀ c ∈ s, c < 256) : unescapeWith utf8 (rdEscapify s) = .ok s := by
  induction s with
  | nil => rfl
  | cons c r ih =>
    have : rdEscapify (c :: r) = rdEscOctet c ++ rdEscapify r := by simp [rdEscapify]
    rw [this]
    exact unescape_rdEscOctet c (hs c (by simp)) _ _ (ih (fun x hx => hs x (by simp [hx])))

theorem quotedOK_esc (c : Nat) (rest : List Nat) : quotedOK (92 :: c :: rest) = quotedOK rest := by
  simp [quotedOK]

theorem quotedOK_plain (c : Nat) (rest : List Nat) (h : c ≠ 92) :
    quotedOK (c :: rest) = (decide (c ≠ 34) && decide (c ≠ 10) && quotedOK rest) := by
  rw [quotedOK.eq_def]
  split
  · rename_i heq; cases heq
  · rename_i heq; simp at heq; exact absurd heq.1 h
  · rename_i heq; simp at heq; exact absurd heq.1 h
  · rename_i heq
    simp only [List.cons.injEq] at heq
    obtain ⟨rfl, rfl⟩ := heq
    rfl

theorem quotedOK_rdEscOctet (c : Nat) (hc : c < 256) (rest : List Nat) :
    quotedOK (rdEscOctet c ++ rest) = quotedOK rest := by
  obtain ⟨h34, h92, _⟩ := rdEscOK_generated
  unfold rdEscOctet
  split
  · simp [quotedOK_esc]
  · rename_i hm
    have hm' : c ∉ ConstsC09.rdataEscaped := by simpa using hm
    split
    · rename_i hp
      have hne : c ≠ 92 := fun e => hm' (e ▸ h92)
      have h34' : c ≠ 34 := fun e => hm' (e ▸ h34)
      have h10 : c ≠ 10 := by omega
      simp [quotedOK_plain c _ hne, h34', h10]
    · simp only [dec3, List.cons_append, List.nil_append, quotedOK_esc]
      rw [quotedOK_plain _ _ (by omega), quotedOK_plain _ _ (by omega)]
      have a1 : 48 + c / 10 % 10 ≠ 34 := by omega
      have a2 : 48 + c / 10 % 10 ≠ 10 := by omega
      have a3 : 48 + c % 10 ≠ 34 := by omega
      have a4 : 48 + c % 10 ≠ 10 := by omega
      simp [a1, a2, a3, a4]

theorem quotedOK_rdEscapify (s : Bytes) (hs : ∀ c ∈ s, c < 256) : quotedOK (rdEscapify s) = true := by
  induction s with
  | nil => rfl
  | cons c r ih =>
    have : rdEscapify (c :: r) = rdEscOctet c ++ rdEscapify r := by simp [rdEscapify]
    rw [this, quotedOK_rdEscOctet c (hs c (by simp))]
    exact ih (fun x hx => hs x (by simp [hx]))

/-- the quoted word of one string -/
def txtWord (s : Bytes) : Word := .quoted (rdEscapify s)

theorem txtString_word (s : Bytes) (hs : ∀ c ∈ s, c < 256) (hl : s.length ≤ 255) :
    txtString (txtWord s).token = .ok s := by
  have hl' : ¬ s.length > 255 := by omega
  simp [txtString, txtWord, Word.token, Token.unescapeToBytes, unescape_rdEscapify s hs, liftT, bind, Except.bind, hl',
    pure, Except.pure]

theorem mapM_txt (ss : List Bytes) (hs : ∀ s ∈ ss, (∀ c ∈ s, c < 256) ∧ s.length ≤ 255) :
    (ss.map fun s => (txtWord s).token).mapM txtString = .ok ss := by
  induction ss with
  | nil => rfl
  | cons s r ih =>
    obtain ⟨h1, h2⟩ := hs s (by simp)
    simp only [List.map_cons, List.mapM_cons, bind, Except.bind, txtString_word s h1 h2,
      ih (fun x hx => hs x (by simp [hx])), pure, Except.pure]

/-! ## the TXT instance -/

def txtQuote (s : Bytes) : List Nat := [34] ++ rdEscapify s ++ [34]

theorem txtWord_text (s : Bytes) : (txtWord s).text = txtQuote s := by
  simp [txtWord, Word.text, txtQuote]

def txtMore (more : List Bytes) : List (List Nat × Word) := more.map fun s => ([32], txtWord s)

theorem txtMore_text (s1 : Bytes) (more : List Bytes) (X : List Nat) :
    joinWith [32] ((s1 :: more).map txtQuote) ++ X = txtQuote s1 ++ itemsText (txtMore more) X := by
  induction more generalizing s1 with
  | nil => simp [joinWith, txtMore, itemsText]
  | cons s2 r ih =>
    have := ih s2
    simp only [List.map_cons, joinWith, txtMore, itemsText, txtWord_text, List.append_assoc, List.cons_append,
      List.nil_append] at this ⊢
    rw [← this]

theorem txtMore_ok (more : List Bytes) (hs : ∀ s ∈ more, ∀ c ∈ s, c < 256) : ItemsOK (txtMore more) := by
  intro p hp
  simp only [txtMore, List.mem_map] at hp
  obtain ⟨s, hsm, rfl⟩ := hp
  exact ⟨⟨sp_blank, by simp⟩, by simp [txtWord, Word.ok, quotedOK_rdEscapify s (hs s hsm)]⟩

/-- TXT: one or more quoted strings -/
theorem rdataReads_TXT (b : List Nat) (s1 : Bytes) (more : List Bytes) (kc : Option (List Nat))
    (co : Option Name) (rel : Bool) (zo : Option Name) (gfix : Bool)
    (hb : Blank b) (hbn : b ≠ []) (hkc : ∀ x ∈ kc, 10 ∉ x)
    (hs : ∀ s ∈ s1 :: more, (∀ c ∈ s, c < 256) ∧ s.length ≤ 255) :
    RdataReads tTXT (b ++ (joinWith [32] ((s1 :: more).map txtQuote) ++ lineEnd kc)) (.txt (s1 :: more)) kc co rel zo gfix := by
  refine ⟨blank_startsDelim _ _ hb hbn, ?_⟩
  intro rest
  have hmore : ItemsOK (txtMore more) := txtMore_ok more (fun s hsm => (hs s (by simp [hsm])).1)
  have e : (b ++ (joinWith [32] ((s1 :: more).map txtQuote) ++ lineEnd kc)) ++ rest =
      b ++ ((txtWord s1).text ++ itemsText (txtMore more) ([] ++ (lineEnd kc ++ rest))) := by
    rw [txtWord_text, List.nil_append, ← txtMore_text s1 more (lineEnd kc ++ rest)]
    simp [List.append_assoc]
  rw [e]
  have hw1 : (txtWord s1).ok = true := by
    simp [txtWord, Word.ok, quotedOK_rdEscapify s1 (hs s1 (by simp)).1]
  have hT := itemsText_startsDelim (txtMore more) hmore [] blank_nil kc rest
  have hg := get_blank_word_pq b (txtWord s1) _ false hb hw1 hT
  have hq : (txtWord s1).isQuoted = true := rfl
  rw [hq] at hg
  have hnot : ¬ ((txtWord s1).token.isIdentifier = true ∧ (txtWord s1).token.value = [92, 35]) := by
    simp [txtWord, Word.token, Token.isIdentifier]
  -- `get_remaining()`: the ungotten first string, then the others
  have hrem : ({ after 0 true (itemsText (txtMore more) ([] ++ (lineEnd kc ++ rest))) with
        ungotten := some (txtWord s1).token } : TState).getRemaining =
      .ok ((s1 :: more).map (fun s => (txtWord s).token), { after 0 false rest with ungotten := some (eolToken kc) }) := by
    unfold TState.getRemaining
    have hlen := itemsText_length (txtMore more) hmore ([] ++ (lineEnd kc ++ rest))
    have hinp : ({ after 0 true (itemsText (txtMore more) ([] ++ (lineEnd kc ++ rest))) with
        ungotten := some (txtWord s1).token } : TState).input.length + 2 =
        ((itemsText (txtMore more) ([] ++ (lineEnd kc ++ rest))).length + 2) + 1 := by
      simp [after]
    rw [hinp]
    generalize hF : (itemsText (txtMore more) ([] ++ (lineEnd kc ++ rest))).length + 2 = F
    have hgu := get_ungot (after 0 true (itemsText (txtMore more) ([] ++ (lineEnd kc ++ rest)))) (txtWord s1).token rfl
      (by simp [txtWord, Word.token]) (by simp [txtWord, Word.token])
    simp only [getRemainingAux, bind, Except.bind, hgu, Word.token_not_eol, Bool.false_eq_true, if_false]
    rw [getRemaining_items (txtMore more) hmore [] blank_nil kc hkc rest true F (by omega)]
    simp [txtMore, List.map_map, Function.comp_def]
  have := rdataFromText_typed tTXT _ _ { after 0 false rest with ungotten := some (eolToken kc) } (after 0 false rest) _
    (eolToken kc) (.txt (s1 :: more)) co rel zo gfix (by decide) (by decide) hg hnot
    (by
      unfold rdataFromTextTyped
      have h1 : tTXT ≠ tA := by decide
      have h2 : isName1Type tTXT = false := by decide
      have h3 : tTXT ≠ tMX := by decide
      simp only [h1, h2, h3, if_false, if_true, Bool.false_eq_true, bind, Except.bind, liftT, hrem, mapM_txt _ hs]
      simp [pure, Except.pure])
    (getEol_ungot_eol rest kc)
  simpa [eolToken_comment] using this

end Model

import Model.Dnssec
/-! Helper lemmas for C15: stable sort, octet order, key tag, NSEC3 iteration, base32hex. -/
namespace Model
namespace Dnssec

instance instDecEqExcept {ε α} [DecidableEq ε] [DecidableEq α] : DecidableEq (Except ε α) := fun a b =>
  match a, b with
  | .ok x, .ok y => if h : x = y then isTrue (by rw [h]) else isFalse (by intro e; cases e; exact h rfl)
  | .error x, .error y => if h : x = y then isTrue (by rw [h]) else isFalse (by intro e; cases e; exact h rfl)
  | .ok _, .error _ => isFalse (by intro e; cases e)
  | .error _, .ok _ => isFalse (by intro e; cases e)

/-! ## insertion sort -/

theorem insertBy_perm {α} (le : α → α → Bool) (x : α) (l : List α) : (insertBy le x l).Perm (x :: l) := by
  induction l with
  | nil => simp [insertBy]
  | cons y ys ih =>
    unfold insertBy
    split
    · exact List.Perm.refl _
    · exact (List.Perm.cons y ih).trans (List.Perm.swap x y ys)

theorem insSort_perm {α} (le : α → α → Bool) (l : List α) : (insSort le l).Perm l := by
  induction l with
  | nil => simp [insSort]
  | cons x xs ih =>
    unfold insSort
    exact (insertBy_perm le x _).trans (List.Perm.cons x ih)

theorem insertBy_pairwise {α} (le : α → α → Bool)
    (htot : ∀ a b, le a b = true ∨ le b a = true)
    (htr : ∀ a b c, le a b = true → le b c = true → le a c = true)
    (x : α) (l : List α) (hl : l.Pairwise (fun a b => le a b = true)) :
    (insertBy le x l).Pairwise (fun a b => le a b = true) := by
  induction l with
  | nil => simp [insertBy]
  | cons y ys ih =>
    unfold insertBy
    rw [List.pairwise_cons] at hl
    split
    · rename_i hxy
      refine List.pairwise_cons.mpr ⟨?_, List.pairwise_cons.mpr hl⟩
      intro z hz
      rcases List.mem_cons.mp hz with rfl | hz
      · exact hxy
      · exact htr x y z hxy (hl.1 z hz)
    · rename_i hxy
      have hyx : le y x = true := by
        rcases htot x y with h | h
        · exact absurd h hxy
        · exact h
      refine List.pairwise_cons.mpr ⟨?_, ih hl.2⟩
      intro z hz
      have := (insertBy_perm le x ys).mem_iff.mp hz
      rcases List.mem_cons.mp this with rfl | hz
      · exact hyx
      · exact hl.1 z hz

theorem insSort_pairwise {α} (le : α → α → Bool)
    (htot : ∀ a b, le a b = true ∨ le b a = true)
    (htr : ∀ a b c, le a b = true → le b c = true → le a c = true)
    (l : List α) : (insSort le l).Pairwise (fun a b => le a b = true) := by
  induction l with
  | nil => simp [insSort]
  | cons x xs ih =>
    unfold insSort
    exact insertBy_pairwise le htot htr x _ ih

/-! ## octet order (RFC 4034 §6.3) -/

/-- "left-justified unsigned octet sequence in which the absence of an octet sorts before a zero octet" -/
def octetLe : Bytes → Bytes → Prop
  | [], _ => True
  | _ :: _, [] => False
  | a :: as, b :: bs => a < b ∨ (a = b ∧ octetLe as bs)

theorem cmpBytes_le_iff (a b : Bytes) : cmpBytes a b ≤ 0 ↔ octetLe a b := by
  induction a generalizing b with
  | nil => cases b <;> simp [cmpBytes, octetLe]
  | cons x xs ih =>
    cases b with
    | nil => simp [cmpBytes, octetLe]
    | cons y ys =>
      simp only [cmpBytes, octetLe]
      split
      · rename_i h; simp [h]
      · split
        · rename_i h1 h2
          constructor
          · intro h; omega
          · rintro (h | ⟨h, _⟩) <;> omega
        · rename_i h1 h2
          have : x = y := by omega
          rw [ih]; simp [this]

theorem bytesLe_iff (a b : Bytes) : bytesLe a b = true ↔ octetLe a b := by
  simp [bytesLe, cmpBytes_le_iff]

theorem octetLe_total (a b : Bytes) : octetLe a b ∨ octetLe b a := by
  induction a generalizing b with
  | nil => left; simp [octetLe]
  | cons x xs ih =>
    cases b with
    | nil => right; simp [octetLe]
    | cons y ys =>
      simp only [octetLe]
      rcases Nat.lt_trichotomy x y with h | h | h
      · left; left; exact h
      · rcases ih ys with h' | h'
        · left; right; exact ⟨h, h'⟩
        · right; right; exact ⟨h.symm, h'⟩
      · right; left; exact h

theorem octetLe_trans (a b c : Bytes) : octetLe a b → octetLe b c → octetLe a c := by
  induction a generalizing b c with
  | nil => intros; simp [octetLe]
  | cons x xs ih =>
    cases b with
    | nil => simp [octetLe]
    | cons y ys =>
      cases c with
      | nil => simp [octetLe]
      | cons z zs =>
        simp only [octetLe]
        rintro (h1 | ⟨h1, h1'⟩) (h2 | ⟨h2, h2'⟩)
        · left; omega
        · left; omega
        · left; omega
        · right; exact ⟨by omega, ih ys zs h1' h2'⟩

theorem bytesLe_total (a b : Bytes) : bytesLe a b = true ∨ bytesLe b a = true := by
  simp only [bytesLe_iff]; exact octetLe_total a b

theorem bytesLe_trans (a b c : Bytes) : bytesLe a b = true → bytesLe b c = true → bytesLe a c = true := by
  simp only [bytesLe_iff]; exact octetLe_trans a b c

/-! ## key tag -/

/-- RFC 4034 Appendix B, the loop `for (ac = 0, i = 0; i < keysize; ++i) ac += (i & 1) ? key[i] : key[i] << 8;`
as a recursion on the index `i` and the octets from `i` on. -/
def rfcKeyTagAcc : Nat → Bytes → Nat
  | _, [] => 0
  | i, b :: rest => (if i % 2 = 1 then b else b * 256) + rfcKeyTagAcc (i + 1) rest

theorem keyIdSum_eq_acc (l : Bytes) (i : Nat) (hi : i % 2 = 0) : keyIdSum l = rfcKeyTagAcc i l := by
  induction l using keyIdSum.induct generalizing i with
  | case1 a b rest ih =>
    have h1 : (i + 1) % 2 = 1 := by omega
    have h2 : (i + 1 + 1) % 2 = 0 := by omega
    simp only [keyIdSum, rfcKeyTagAcc, hi, h1]
    rw [ih (i + 1 + 1) h2]
    simp; omega
  | case2 a => simp [keyIdSum, rfcKeyTagAcc, hi]
  | case3 => simp [keyIdSum, rfcKeyTagAcc]

/-! ## NSEC3 -/

/-- RFC 5155 §5: `IH(salt, x, 0) = H(x || salt)`, `IH(salt, x, k) = H(IH(salt, x, k-1) || salt)` -/
def IH (H : Bytes → Bytes) (salt x : Bytes) : Nat → Bytes
  | 0 => H (x ++ salt)
  | k + 1 => H (IH H salt x k ++ salt)

theorem nsec3Iter_IH (H : Bytes → Bytes) (salt x : Bytes) (k j : Nat) :
    nsec3Iter H salt k (IH H salt x j) = IH H salt x (j + k) := by
  induction k generalizing j with
  | zero => simp [nsec3Iter]
  | succ k ih =>
    simp only [nsec3Iter]
    have : H (IH H salt x j ++ salt) = IH H salt x (j + 1) := rfl
    rw [this, ih (j + 1)]
    congr 1; omega

theorem b32Translate_std (x : Nat) : b32Translate (b32Std (x % 32)) = b32Hex (x % 32) := by
  have h : ∀ i, i < 32 → b32Translate (b32Std i) = b32Hex i := by decide
  exact h _ (Nat.mod_lt _ (by decide))

theorem b32Group_translate (a b c d e : Nat) :
    (b32Group b32Std a b c d e).map b32Translate = b32Group b32Hex a b c d e := by
  simp [b32Group, b32Translate_std]

theorem b32encode_translate (bs : Bytes) :
    (b32encode b32Std bs).map b32Translate = b32encode b32Hex bs := by
  induction bs using b32encode.induct with
  | case1 a b c d e rest ih =>
    simp only [b32encode, List.map_append, b32Group_translate, ih]
  | case2 a b c d =>
    simp only [b32encode, List.map_append, List.map_take, b32Group_translate]; rfl
  | case3 a b c =>
    simp only [b32encode, List.map_append, List.map_take, b32Group_translate]; rfl
  | case4 a b =>
    simp only [b32encode, List.map_append, List.map_take, b32Group_translate]; rfl
  | case5 a =>
    simp only [b32encode, List.map_append, List.map_take, b32Group_translate]; rfl
  | case6 => simp [b32encode]

end Dnssec
end Model

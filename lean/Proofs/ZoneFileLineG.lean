import Model.ZoneFile
import Proofs.ZoneFileLine
/-!
Record lines in every shape the writer produces under a lossless style: explicit or inherited (blank) owner,
TTL and class present or omitted, fields separated by any positive number of blanks (justification padding).
-/
namespace Model

/-! ## blanks -/

/-- a run of spaces -/
def Blank (l : List Nat) : Prop := ∀ c ∈ l, c = 32

theorem blank_nil : Blank [] := by simp [Blank]
theorem blank_append {a b : List Nat} (ha : Blank a) (hb : Blank b) : Blank (a ++ b) := by
  intro c hc; rcases List.mem_append.mp hc with h | h
  · exact ha c h
  · exact hb c h
theorem blank_cons {b : List Nat} (hb : Blank b) : Blank (32 :: b) := by
  intro c hc; rcases List.mem_cons.mp hc with h | h
  · exact h
  · exact hb c h
theorem blank_replicate (n : Nat) : Blank (List.replicate n 32) := by
  intro c hc; exact (List.mem_replicate.mp hc).2

theorem blank_eq_replicate (b : List Nat) (h : Blank b) : b = List.replicate b.length 32 := by
  induction b with
  | nil => rfl
  | cons c r ih =>
    have hc : c = 32 := h c (by simp)
    have hr : Blank r := fun x hx => h x (by simp [hx])
    rw [hc, List.length_cons, List.replicate_succ, ← ih hr]

theorem sepDepth_spaces (n : Nat) : sepDepth 0 (List.replicate n SepItem.sp) = some 0 := by
  induction n with
  | zero => rfl
  | succ k ih => simpa [List.replicate_succ, sepDepth] using ih

theorem renderSep_spaces (n : Nat) : renderSep (List.replicate n SepItem.sp) = List.replicate n 32 := by
  induction n with
  | zero => rfl
  | succ k ih => simp [List.replicate_succ, renderSep, SepItem.render] at ih ⊢; exact ih

theorem blank_startsDelim (b T : List Nat) (hb : Blank b) (hne : b ≠ []) : startsDelim (b ++ T) := by
  cases b with
  | nil => exact absurd rfl hne
  | cons c r => exact ⟨c, r ++ T, rfl, by rw [hb c (by simp)]; decide⟩

/-- `_get_identifier` after any run of blanks -/
theorem getIdent_blank (b w T : List Nat) (hb : Blank b) (hw : identOK w = true) (hne : w ≠ []) (hT : startsDelim T) :
    getIdent (after 0 false (b ++ (w ++ T))) = .ok (identToken w, after 0 false T) := by
  have := getIdent_word (List.replicate b.length SepItem.sp) w T 0 0 false (sepDepth_spaces _) hw hne hT
  rw [renderSep_spaces, ← blank_eq_replicate b hb] at this
  exact this

/-- plain `get()` after any run of blanks, for any word -/
theorem get_blank_word (b : List Nat) (w : Word) (T : List Nat) (hb : Blank b) (hw : w.ok = true) (hT : startsDelim T) :
    (after 0 false (b ++ (w.text ++ T))).get = .ok (w.token, after 0 w.isQuoted T) := by
  have := get_word (List.replicate b.length SepItem.sp) w T 0 0 false (sepDepth_spaces _) hw hT
  rw [renderSep_spaces, ← blank_eq_replicate b hb] at this
  exact this

/-! ## the header, given what `_get_identifier` returns token by token -/

theorem unget_ok (s : TState) (t : Token) (h : s.ungotten = none) : s.unget t = .ok { s with ungotten := some t } := by
  simp [TState.unget, h]

theorem getIdent_ungot (s : TState) (w : List Nat) (h : s.ungotten = none) :
    getIdent { s with ungotten := some (identToken w) } = .ok (identToken w, s) := by
  cases s
  simp only at h
  subst h
  simp [getIdent, liftT, TState.get, identToken, bind, Except.bind, Token.isIdentifier, pure, Except.pure]

theorem getIdent_state (s s' : TState) (t : Token) (h : getIdent s = .ok (t, s')) : s'.ungotten = none := by
  unfold getIdent at h
  simp only [bind, Except.bind, liftT] at h
  cases hg : s.get with
  | error e => simp [hg] at h
  | ok v =>
    simp only [hg] at h
    split at h
    · cases h
    · simp only [pure, Except.pure, Except.ok.injEq, Prod.mk.injEq] at h
      rw [← h.2]; exact get_ungotten_none s v.2 v.1 false false (by rw [hg])

/-- `<ttl> <class> <type>` -/
theorem rrHeaderA_ttl_class (r : PState) (ttlT clsT tyT : List Nat) (s1 s2 s3 : TState) (v ty : Nat)
    (h1 : getIdent r.tok = .ok (identToken ttlT, s1)) (h2 : getIdent s1 = .ok (identToken clsT, s2))
    (h3 : getIdent s2 = .ok (identToken tyT, s3))
    (hv : ttlOf ttlT = some v) (hc : classFromText clsT = some 1) (hty : typeFromText tyT = some ty) :
    rrHeader r = .ok ((some v, ty), { r with tok := s3, lastTTL := v, lastTTLKnown := true }) := by
  unfold rrHeader
  simp only [bind, Except.bind, h1]
  simp only [identToken, hv, pure, Except.pure] at h2 h3 ⊢
  simp only [h2, hc, ne_eq, not_true_eq_false, if_false, h3, hty]

/-- `<ttl> <type>` -/
theorem rrHeaderA_ttl_only (r : PState) (ttlT tyT : List Nat) (s1 s2 : TState) (v ty : Nat)
    (h1 : getIdent r.tok = .ok (identToken ttlT, s1)) (h2 : getIdent s1 = .ok (identToken tyT, s2))
    (hv : ttlOf ttlT = some v) (hnc : classFromText tyT = none) (hty : typeFromText tyT = some ty) :
    rrHeader r = .ok ((some v, ty), { r with tok := s2, lastTTL := v, lastTTLKnown := true }) := by
  have hu := getIdent_state s1 s2 _ h2
  have hg := getIdent_ungot s2 tyT hu
  unfold rrHeader
  simp only [bind, Except.bind, h1]
  simp only [identToken, hv, pure, Except.pure] at h2 hg ⊢
  simp only [h2, hnc, liftT, unget_ok s2 _ hu, ne_eq, not_true_eq_false, if_false, hg, hty]

/-- `<class> <type>` -/
theorem rrHeaderA_class_only (r : PState) (clsT tyT : List Nat) (s1 s2 : TState) (ty : Nat)
    (h1 : getIdent r.tok = .ok (identToken clsT, s1)) (h2 : getIdent s1 = .ok (identToken tyT, s2))
    (hc : classFromText clsT = some 1) (hcv : ttlOf clsT = none)
    (hnv : ttlOf tyT = none) (hty : typeFromText tyT = some ty) :
    rrHeader r = .ok ((r.inheritedTTL, ty), { r with tok := s2 }) := by
  have hu1 := getIdent_state r.tok s1 _ h1
  have hg1 := getIdent_ungot s1 clsT hu1
  have hu2 := getIdent_state s1 s2 _ h2
  have hg2 := getIdent_ungot s2 tyT hu2
  unfold rrHeader
  simp only [bind, Except.bind, h1]
  simp only [identToken, hcv, pure, Except.pure, liftT, unget_ok s1 _ hu1] at h2 hg1 hg2 ⊢
  simp only [hg1, hc, ne_eq, not_true_eq_false, if_false, h2, hnv, unget_ok s2 _ hu2, hg2, hty]
  simp [PState.inheritedTTL]

/-- `<type>` -/
theorem rrHeaderA_type_only (r : PState) (tyT : List Nat) (s1 : TState) (ty : Nat)
    (h1 : getIdent r.tok = .ok (identToken tyT, s1))
    (hnv : ttlOf tyT = none) (hnc : classFromText tyT = none) (hty : typeFromText tyT = some ty) :
    rrHeader r = .ok ((r.inheritedTTL, ty), { r with tok := s1 }) := by
  have hu1 := getIdent_state r.tok s1 _ h1
  have hg1 := getIdent_ungot s1 tyT hu1
  unfold rrHeader
  simp only [bind, Except.bind, h1]
  simp only [identToken, hnv, pure, Except.pure, liftT, unget_ok s1 _ hu1] at hg1 ⊢
  simp only [hg1, hnc, ne_eq, not_true_eq_false, if_false, hnv, unget_ok s1 _ hu1, hty]
  simp [PState.inheritedTTL]

/-! ## the owner field -/

def wsToken : Token := { ttype := .whitespace, value := [32] }

theorem skipWs_blank (b X : List Nat) (hb : Blank b) (c : Nat) (cs : List Nat) (hX : X = c :: cs)
    (hc : ¬ (c = 32 ∨ c = 9)) : skipWs false (b ++ X) = (b.length, X) := by
  induction b with
  | nil =>
    subst hX
    simp only [List.nil_append, skipWs, List.length_nil]
    simp [hc]
  | cons a r ih =>
    have ha : a = 32 := hb a (by simp)
    have hr : Blank r := fun x hx => hb x (by simp [hx])
    simp only [List.cons_append, skipWs, ha, true_or, if_true, ih hr, List.length_cons]

/-- a line that starts with blanks: the first `get(want_leading=True, want_comment=True)` is a WHITESPACE token -/
theorem get_leading_blank (b w T : List Nat) (hb : Blank b) (hne : b ≠ []) (hw : identOK w = true) (hwn : w ≠ []) :
    (after 0 false (b ++ (w ++ T))).get true true = .ok (wsToken, after 0 false (w ++ T)) := by
  cases w with
  | nil => exact absurd rfl hwn
  | cons c r =>
    have hnw := identOK_head_not_ws c r hw 0
    have hc : ¬ (c = 32 ∨ c = 9) := by
      intro h; apply hnw; rcases h with h | h
      · exact Or.inl h
      · exact Or.inr (Or.inl h)
    have hlen : b.length > 0 := by
      cases b with
      | nil => exact absurd rfl hne
      | cons _ _ => simp
    unfold TState.get
    simp only [after, Bool.false_eq_true, if_false]
    have hs : skipWs (decide (0 > 0)) (b ++ (c :: r ++ T)) = (b.length, c :: r ++ T) := by
      simpa using skipWs_blank b (c :: r ++ T) hb c (r ++ T) rfl hc
    simp only [hs, hlen, and_self, if_true, wsToken]

/-- `Reader.read` up to `_rr_line`: a first token that is no EOF / EOL / comment / directive is ungotten and
the line is handed to `_rr_line` -/
theorem lineStep_to_rrParse (r : PState) (t : Token) (s : TState)
    (hA : r.tok.get true true = .ok (t, s))
    (ht1 : t.ttype ≠ .eof) (ht2 : t.ttype ≠ .eol) (ht3 : t.ttype ≠ .comment) (hd : t.value.head? ≠ some 36) :
    lineStep r = (rrParse { r with tok := { s with ungotten := some t } }).map fun x =>
      match x.1 with
      | none => (LineEv.nothing, x.2)
      | some e => (LineEv.entry e, x.2) := by
  have hu := get_ungotten_none r.tok s t true true hA
  unfold lineStep
  simp only [bind, Except.bind, liftT, hA, ht1, ht2, ht3, hd, if_false, unget_ok s t hu]
  cases rrParse { r with tok := { s with ungotten := some t } } with
  | error e => rfl
  | ok v =>
    obtain ⟨e, r'⟩ := v
    cases e <;> rfl

theorem rrParse_steps (r r1 r2 r3 : PState) (m : Name) (tt : Option Nat) (ty : Nat) (e : Entry)
    (hB : rrOwner r = .ok (some m, r1)) (hC : rrHeader r1 = .ok ((tt, ty), r2))
    (hD : rrFinish m tt ty r2 = .ok (some e, r3)) : rrParse r = .ok (some e, r3) := by
  unfold rrParse
  simp only [bind, Except.bind, hB, hC, hD]

/-- explicit owner: the state in which the header is read -/
theorem owner_explicit_stage (r : PState) (ow T : List Nat) (co zo n m : Name)
    (hco : r.currentOrigin = some co) (hzo : r.zoneOrigin = some zo)
    (htok : r.tok = after 0 false (ow ++ T)) (hT : startsDelim T)
    (h1 : identOK ow = true) (h2 : ow ≠ []) (h3 : ow.head? ≠ some 36)
    (h4 : (identToken ow).asName (some co) false none = .ok n) (h5 : isSubdomain n zo = true)
    (hm : ownerInZone r.relativize n zo = .ok m) :
    lineStep r = (((rrHeader { r with tok := after 0 false T, lastName := some n }).bind fun x =>
        rrFinish m x.1.1 x.1.2 x.2).map fun x =>
      match x.1 with
      | none => (LineEv.nothing, x.2)
      | some e => (LineEv.entry e, x.2)) := by
  have hg := get_first_ident ow T h1 h2 hT
  rw [lineStep_to_rrParse r (identToken ow) (after 0 false T) (by rw [htok]; exact hg)
    (by simp [identToken]) (by simp [identToken]) (by simp [identToken]) h3]
  have hgl := get_leading_ungotten 0 false T ow
  have hown := rrOwner_explicit { r with tok := { after 0 false T with ungotten := some (identToken ow) } }
    (identToken ow) (after 0 false T) co zo n hco hzo hgl (by simp [identToken]) h4 h5
  simp only [hm, Except.map] at hown
  unfold rrParse
  simp only [bind, Except.bind, hown]

/-- inherited owner (the line starts with blanks): the state in which the header is read -/
theorem owner_inherited_stage (r : PState) (b w1 T1 : List Nat) (co zo n m : Name)
    (hco : r.currentOrigin = some co) (hzo : r.zoneOrigin = some zo) (hln : r.lastName = some n)
    (htok : r.tok = after 0 false (b ++ (w1 ++ T1))) (hb : Blank b) (hbn : b ≠ [])
    (hw : identOK w1 = true) (hwn : w1 ≠ []) (hT : startsDelim T1)
    (h5 : isSubdomain n zo = true) (hm : ownerInZone r.relativize n zo = .ok m) :
    lineStep r = (((rrHeader { r with tok := { after 0 false T1 with ungotten := some (identToken w1) } }).bind fun x =>
        rrFinish m x.1.1 x.1.2 x.2).map fun x =>
      match x.1 with
      | none => (LineEv.nothing, x.2)
      | some e => (LineEv.entry e, x.2)) := by
  have hg := get_leading_blank b w1 T1 hb hbn hw hwn
  rw [lineStep_to_rrParse r wsToken (after 0 false (w1 ++ T1)) (by rw [htok]; exact hg)
    (by simp [wsToken]) (by simp [wsToken]) (by simp [wsToken]) (by simp [wsToken])]
  have hg1 : ({ after 0 false (w1 ++ T1) with ungotten := some wsToken } : TState).get (wantLeading := true) =
      .ok (wsToken, after 0 false (w1 ++ T1)) := by
    simp [TState.get, wsToken, after]
  have hg2 : (after 0 false (w1 ++ T1)).get = .ok (identToken w1, after 0 false T1) := by
    have := get_blank_word [] (.ident w1) T1 blank_nil (by simp [Word.ok, hw, hwn]) hT
    simpa [Word.text, Word.token, Word.isQuoted, identToken] using this
  have hown := rrOwner_inherited { r with tok := { after 0 false (w1 ++ T1) with ungotten := some wsToken } }
    wsToken (identToken w1) (after 0 false (w1 ++ T1)) (after 0 false T1) co zo n hco hzo hln hg1 (by simp [wsToken]) hg2
    (by simp [identToken, Token.isEolOrEof]) h5
  simp only [hm, Except.map] at hown
  unfold rrParse
  simp only [bind, Except.bind, hown]

/-! ## the four header shapes -/

/-- TTL / class / type fields as written on the line (`b…` are the blanks after a field) -/
inductive Hdr where
  | tc (ttlT b1 clsT b2 tyT : List Nat)
  | t (ttlT b1 tyT : List Nat)
  | c (clsT b1 tyT : List Nat)
  | y (tyT : List Nat)

def Hdr.first : Hdr → List Nat
  | .tc ttlT _ _ _ _ => ttlT
  | .t ttlT _ _ => ttlT
  | .c clsT _ _ => clsT
  | .y tyT => tyT

/-- text after the first token, up to and including the type token -/
def Hdr.rest : Hdr → List Nat
  | .tc _ b1 clsT b2 tyT => b1 ++ (clsT ++ (b2 ++ tyT))
  | .t _ b1 tyT => b1 ++ tyT
  | .c _ b1 tyT => b1 ++ tyT
  | .y _ => []

def Hdr.text (h : Hdr) : List Nat := h.first ++ h.rest

structure TokOK (w : List Nat) : Prop where
  ok : identOK w = true
  ne : w ≠ []

structure SepOK (b : List Nat) : Prop where
  blank : Blank b
  ne : b ≠ []

/-- side conditions: the tokens are tokens, the blanks are non-empty runs of spaces, the TTL token (if any) reads
as `ttl`, the class token (if any) as IN, the type token as `ty` and as nothing else -/
def Hdr.OK : Hdr → (ttl ty : Nat) → Prop
  | .tc ttlT b1 clsT b2 tyT, ttl, ty =>
    TokOK ttlT ∧ SepOK b1 ∧ TokOK clsT ∧ SepOK b2 ∧ TokOK tyT ∧
    ttlOf ttlT = some ttl ∧ classFromText clsT = some 1 ∧ typeFromText tyT = some ty
  | .t ttlT b1 tyT, ttl, ty =>
    TokOK ttlT ∧ SepOK b1 ∧ TokOK tyT ∧ ttlOf ttlT = some ttl ∧ classFromText tyT = none ∧ typeFromText tyT = some ty
  | .c clsT b1 tyT, _, ty =>
    TokOK clsT ∧ SepOK b1 ∧ TokOK tyT ∧ classFromText clsT = some 1 ∧ ttlOf clsT = none ∧ ttlOf tyT = none ∧
    typeFromText tyT = some ty
  | .y tyT, _, ty => TokOK tyT ∧ ttlOf tyT = none ∧ classFromText tyT = none ∧ typeFromText tyT = some ty

/-- is the TTL written on the line? -/
def Hdr.hasTTL : Hdr → Bool
  | .tc .. => true
  | .t .. => true
  | _ => false

theorem Hdr.first_ok (h : Hdr) (ttl ty : Nat) (hok : h.OK ttl ty) : TokOK h.first := by
  cases h <;> simp only [Hdr.OK] at hok <;> simp only [Hdr.first]
  · exact hok.1
  · exact hok.1
  · exact hok.1
  · exact hok.1

theorem Hdr.rest_startsDelim (h : Hdr) (ttl ty : Nat) (hok : h.OK ttl ty) (R : List Nat) (hR : startsDelim R) :
    startsDelim (h.rest ++ R) := by
  cases h <;> simp only [Hdr.OK] at hok <;> simp only [Hdr.rest, List.append_assoc, List.nil_append]
  · exact blank_startsDelim _ _ hok.2.1.blank hok.2.1.ne
  · exact blank_startsDelim _ _ hok.2.1.blank hok.2.1.ne
  · exact blank_startsDelim _ _ hok.2.1.blank hok.2.1.ne
  · exact hR

/-- the header stage: whatever the shape, the TTL is the written one or the inherited one, the type is `ty`, and the
reader stands at the RDATA -/
theorem header_stage (r1 : PState) (h : Hdr) (R : List Nat) (ttl ty : Nat) (hR : startsDelim R)
    (hfirst : getIdent r1.tok = .ok (identToken h.first, after 0 false (h.rest ++ R)))
    (hok : h.OK ttl ty) :
    rrHeader r1 = .ok ((if h.hasTTL then some ttl else r1.inheritedTTL, ty),
      if h.hasTTL then { r1 with tok := after 0 false R, lastTTL := ttl, lastTTLKnown := true }
      else { r1 with tok := after 0 false R }) := by
  cases h with
  | tc ttlT b1 clsT b2 tyT =>
    obtain ⟨_, s1, k2, s2, k3, v1, v2, v3⟩ := hok
    simp only [Hdr.first, Hdr.rest, List.append_assoc] at hfirst
    have h2 := getIdent_blank b1 clsT (b2 ++ (tyT ++ R)) s1.blank k2.ok k2.ne (blank_startsDelim _ _ s2.blank s2.ne)
    have h3 := getIdent_blank b2 tyT R s2.blank k3.ok k3.ne hR
    simpa [Hdr.hasTTL] using rrHeaderA_ttl_class r1 ttlT clsT tyT _ _ _ ttl ty hfirst h2 h3 v1 v2 v3
  | t ttlT b1 tyT =>
    obtain ⟨_, s1, k3, v1, v2, v3⟩ := hok
    simp only [Hdr.first, Hdr.rest, List.append_assoc] at hfirst
    have h2 := getIdent_blank b1 tyT R s1.blank k3.ok k3.ne hR
    simpa [Hdr.hasTTL] using rrHeaderA_ttl_only r1 ttlT tyT _ _ ttl ty hfirst h2 v1 v2 v3
  | c clsT b1 tyT =>
    obtain ⟨_, s1, k3, v1, v2, v3, v4⟩ := hok
    simp only [Hdr.first, Hdr.rest, List.append_assoc] at hfirst
    have h2 := getIdent_blank b1 tyT R s1.blank k3.ok k3.ne hR
    simpa [Hdr.hasTTL] using rrHeaderA_class_only r1 clsT tyT _ _ ty hfirst h2 v1 v2 v3 v4
  | y tyT =>
    obtain ⟨_, v1, v2, v3⟩ := hok
    simp only [Hdr.first, Hdr.rest, List.nil_append] at hfirst
    simpa [Hdr.hasTTL] using rrHeaderA_type_only r1 tyT _ ty hfirst v1 v2 v3

/-! ## the RDATA stage and whole record lines -/

/-- the SOA-minimum default: picked up from the first SOA when no default TTL is known yet -/
def soaDefault (r : PState) (ty : Nat) (rd : Rdata) : PState :=
  if !r.defaultTTLKnown ∧ ty = tSOA then
    match rd with
    | .soa _ _ _ _ _ _ minimum => { r with defaultTTL := minimum, defaultTTLKnown := true }
    | _ => r
  else r

theorem finish_stage (r2 : PState) (m co zo : Name) (ttl ty : Nat) (rdText rest : List Nat) (rd : Rdata)
    (comment : Option (List Nat))
    (hco : r2.currentOrigin = some co) (hzo : r2.zoneOrigin = some zo)
    (htok : r2.tok = after 0 false (rdText ++ rest))
    (hrd : RdataReads ty rdText rd comment (some co) r2.relativize (some zo) r2.gfix) :
    rrFinish m (some ttl) ty r2 =
      .ok (some ⟨m, ttl, ty, ⟨rd, comment⟩⟩, soaDefault { r2 with tok := after 0 false rest } ty rd) := by
  unfold rrFinish
  simp only [bind, Except.bind, hco, hzo, htok, hrd.2 rest]
  unfold soaDefault
  by_cases hc : r2.defaultTTLKnown = false ∧ ty = tSOA
  · cases rd <;> simp [hc, pure, Except.pure]
  · simp [hc, pure, Except.pure]

/-- a record line: owner written or inherited, blanks, header, RDATA text (from the delimiter after the type token to
the end of the line), and what it denotes -/
structure GLine where
  owner : Option (List Nat)
  b0 : List Nat
  hdr : Hdr
  rdText : List Nat
  n : Name
  m : Name
  ttl : Nat
  ty : Nat
  rd : Rdata
  comment : Option (List Nat)

def GLine.text (l : GLine) : List Nat := l.owner.getD [] ++ (l.b0 ++ (l.hdr.text ++ l.rdText))

def GLine.entry (l : GLine) : Entry := ⟨l.m, l.ttl, l.ty, ⟨l.rd, l.comment⟩⟩

/-- `co` is the current origin (`$ORIGIN`), `zo` the zone origin: relative names are completed with `co`; membership,
the stored owner and the relativization of RDATA names are taken against `zo` (the argument triple
`(current_origin, relativize, zone_origin)` of both `_rr_line` and `_generate_line`). -/
structure GLine.Good (l : GLine) (co zo : Name) (rel gfix : Bool) : Prop where
  b0 : SepOK l.b0
  owner : ∀ ow, l.owner = some ow →
    identOK ow = true ∧ ow ≠ [] ∧ ow.head? ≠ some 36 ∧ (identToken ow).asName (some co) false none = .ok l.n
  in_zone : isSubdomain l.n zo = true
  stored : ownerInZone rel l.n zo = .ok l.m
  hdr : l.hdr.OK l.ttl l.ty
  rdata : RdataReads l.ty l.rdText l.rd l.comment (some co) rel (some zo) gfix

/-- parser state after the line -/
def afterG (r : PState) (l : GLine) (rest : List Nat) : PState :=
  soaDefault
    (if l.hdr.hasTTL then
      { r with tok := after 0 false rest, lastName := some l.n, lastTTL := l.ttl, lastTTLKnown := true }
    else { r with tok := after 0 false rest, lastName := some l.n }) l.ty l.rd

/-- **any record line the writer can produce is read as its record** -/
theorem lineStep_G (r : PState) (l : GLine) (rest : List Nat) (co zo : Name)
    (hco : r.currentOrigin = some co) (hzo : r.zoneOrigin = some zo)
    (htok : r.tok = after 0 false (l.text ++ rest))
    (hg : l.Good co zo r.relativize r.gfix)
    (hown : l.owner = none → r.lastName = some l.n)
    (httl : l.hdr.hasTTL = false → r.inheritedTTL = some l.ttl) :
    lineStep r = .ok (.entry l.entry, afterG r l rest) := by
  have hfo := Hdr.first_ok l.hdr l.ttl l.ty hg.hdr
  have hRd : startsDelim (l.rdText ++ rest) := by
    obtain ⟨c, cs, h1, h2⟩ := hg.rdata.1
    exact ⟨c, cs ++ rest, by simp [h1], h2⟩
  have hT1 := Hdr.rest_startsDelim l.hdr l.ttl l.ty hg.hdr (l.rdText ++ rest) hRd
  -- text after the owner field
  have htxt : l.text ++ rest = l.owner.getD [] ++ (l.b0 ++ (l.hdr.first ++ (l.hdr.rest ++ (l.rdText ++ rest)))) := by
    simp [GLine.text, Hdr.text, List.append_assoc]
  rw [htxt] at htok
  -- the two owner cases lead to a state whose first `_get_identifier` is the first header token
  have key : ∀ (r1 : PState), r1.relativize = r.relativize → r1.gfix = r.gfix → r1.currentOrigin = some co →
      r1.zoneOrigin = some zo → r1.inheritedTTL = r.inheritedTTL → r1.defaultTTLKnown = r.defaultTTLKnown →
      getIdent r1.tok = .ok (identToken l.hdr.first, after 0 false (l.hdr.rest ++ (l.rdText ++ rest))) →
      ((rrHeader r1).bind fun x => rrFinish l.m x.1.1 x.1.2 x.2) =
        .ok (some l.entry, soaDefault
          (if l.hdr.hasTTL then { r1 with tok := after 0 false rest, lastTTL := l.ttl, lastTTLKnown := true }
           else { r1 with tok := after 0 false rest }) l.ty l.rd) := by
    intro r1 e1 e2 e3 e4 e5 e6 hfirst
    rw [header_stage r1 l.hdr (l.rdText ++ rest) l.ttl l.ty hRd hfirst hg.hdr]
    simp only [Except.bind]
    cases hh : l.hdr.hasTTL with
    | true =>
      simp only [if_true]
      have := finish_stage { r1 with tok := after 0 false (l.rdText ++ rest), lastTTL := l.ttl, lastTTLKnown := true }
        l.m co zo l.ttl l.ty l.rdText rest l.rd l.comment e3 e4 rfl (by simpa [e1, e2] using hg.rdata)
      simpa [GLine.entry] using this
    | false =>
      simp only [Bool.false_eq_true, if_false]
      rw [e5, httl hh]
      have := finish_stage { r1 with tok := after 0 false (l.rdText ++ rest) }
        l.m co zo l.ttl l.ty l.rdText rest l.rd l.comment e3 e4 rfl (by simpa [e1, e2] using hg.rdata)
      simpa [GLine.entry] using this
  cases hown' : l.owner with
  | some ow =>
    obtain ⟨o1, o2, o3, o4⟩ := hg.owner ow hown'
    simp only [hown', Option.getD_some] at htok
    rw [owner_explicit_stage r ow _ co zo l.n l.m hco hzo htok (blank_startsDelim _ _ hg.b0.blank hg.b0.ne)
      o1 o2 o3 o4 hg.in_zone hg.stored]
    rw [key { r with tok := after 0 false (l.b0 ++ (l.hdr.first ++ (l.hdr.rest ++ (l.rdText ++ rest)))), lastName := some l.n }
      rfl rfl hco hzo rfl rfl (getIdent_blank l.b0 _ _ hg.b0.blank hfo.ok hfo.ne hT1)]
    simp only [Except.map, afterG]
  | none =>
    simp only [hown', Option.getD_none, List.nil_append] at htok
    rw [owner_inherited_stage r l.b0 l.hdr.first _ co zo l.n l.m hco hzo (hown hown') htok hg.b0.blank hg.b0.ne
      hfo.ok hfo.ne hT1 hg.in_zone hg.stored]
    rw [key { r with tok := { after 0 false (l.hdr.rest ++ (l.rdText ++ rest)) with ungotten := some (identToken l.hdr.first) } }
      rfl rfl hco hzo rfl rfl (getIdent_ungot _ _ rfl)]
    simp only [Except.map, afterG]
    have hl := hown hown'
    cases hh : l.hdr.hasTTL
    · simp only [Bool.false_eq_true, if_false]
      congr 2
      cases r; simp only at hl; subst hl; rfl
    · simp only [if_true]
      congr 2
      cases r; simp only at hl; subst hl; rfl

/-! ## the two directives the writer emits -/

theorem get_eol_after' (rest : List Nat) :
    (after 0 false (10 :: rest)).get = .ok ({ ttype := .eol, value := [10] }, after 0 false rest) := by
  rw [get_after, runSkip_eol]
  simp [liftOut, after]

/-- `$TTL <n>` -/
theorem lineStep_ttl_dir (r : PState) (d : Nat) (rest : List Nat) (hd : d ≤ Consts.maxTTL)
    (htok : r.tok = after 0 false (s2l "$TTL " ++ (natToDec d ++ 10 :: rest))) :
    lineStep r = .ok (.nothing, { r with tok := after 0 false rest, defaultTTL := d, defaultTTLKnown := true }) := by
  have hdec : identOK (natToDec d) = true ∧ natToDec d ≠ [] := by
    refine ⟨?_, ?_⟩
    · have hall := natToDec_all d
      have : ∀ ds : List Nat, ds.all isDecimal = true → identOK ds = true := by
        intro ds
        induction ds with
        | nil => intro _; rfl
        | cons c cs ih =>
          intro h
          simp only [List.all_cons, Bool.and_eq_true] at h
          have hc : 48 ≤ c ∧ c ≤ 57 := by simpa [isDecimal] using h.1
          have h92 : c ≠ 92 := by omega
          have hdl : isDelim false c = false := by simp [isDelim, delimiters]; omega
          rw [identOK.eq_def]
          split
          · rfl
          · rename_i heq; simp at heq; exact absurd heq.1 h92
          · rename_i heq; simp at heq; exact absurd heq.1 h92
          · rename_i heq
            simp only [List.cons.injEq] at heq
            obtain ⟨rfl, rfl⟩ := heq
            simp [hdl, ih h.2]
      exact this _ hall
    · exact natToDec_ne_nil d
  have hv : ttlOf (natToDec d) = some d := by
    unfold ttlOf ttlFromText
    simp only [natToDec_ne_nil, ne_eq, not_false_eq_true, natToDec_all, and_self, if_true, digitsVal_natToDec]
    have : ¬ d > Consts.maxTTL := by omega
    simp [this]
  have e : s2l "$TTL " ++ (natToDec d ++ 10 :: rest) = s2l "$TTL" ++ (32 :: (natToDec d ++ 10 :: rest)) := by
    simp [s2l]
  rw [e] at htok
  have hg := get_first_ident (s2l "$TTL") (32 :: (natToDec d ++ 10 :: rest)) (by decide) (by decide) ⟨32, _, rfl, by decide⟩
  have hg2 : (after 0 false (32 :: (natToDec d ++ 10 :: rest))).get = .ok (identToken (natToDec d), after 0 false (10 :: rest)) := by
    have := get_blank_word [32] (.ident (natToDec d)) (10 :: rest) (blank_cons blank_nil)
      (by simp [Word.ok, hdec.1, hdec.2]) ⟨10, rest, rfl, by decide⟩
    simpa [Word.text, Word.token, Word.isQuoted, identToken] using this
  unfold lineStep
  simp only [bind, Except.bind, liftT, htok, hg]
  have h1 : (identToken (s2l "$TTL")).ttype ≠ .eof := by simp [identToken]
  have h2 : (identToken (s2l "$TTL")).ttype ≠ .eol := by simp [identToken]
  have h3 : (identToken (s2l "$TTL")).ttype ≠ .comment := by simp [identToken]
  have h4 : (s2l "$TTL").head? = some 36 := by decide
  have h5 : directiveOf (s2l "$TTL") = s2l "$TTL" := by decide
  simp only [h1, h2, h3, h4, h5, if_false, if_true, hg2, identToken, Token.isIdentifier, beq_self_eq_true, Bool.not_true,
    Bool.false_eq_true, hv, TState.getEol, bind, Except.bind, get_eol_after', Token.isEolOrEof, pure, Except.pure]
  simp

/-- the zone origin after a `$ORIGIN` directive: set only when none was known -/
def originAfter (z : Option Name) (o : Name) : Option Name :=
  match z with
  | none => some o
  | some z => some z

/-- `$ORIGIN <name>`: the name is completed with the current origin (commit c444c98) and must then be absolute -/
theorem lineStep_origin_dir (r : PState) (ot : List Nat) (o : Name) (rest : List Nat)
    (hot : identOK ot = true) (hne : ot ≠ []) (hn : (identToken ot).asName r.currentOrigin false none = .ok o)
    (habs : isAbs o = true)
    (htok : r.tok = after 0 false (s2l "$ORIGIN " ++ (ot ++ 10 :: rest))) :
    lineStep r = .ok (.nothing, { r with tok := after 0 false rest, currentOrigin := some o,
                                         zoneOrigin := originAfter r.zoneOrigin o }) := by
  have e : s2l "$ORIGIN " ++ (ot ++ 10 :: rest) = s2l "$ORIGIN" ++ (32 :: (ot ++ 10 :: rest)) := by
    simp [s2l]
  rw [e] at htok
  have hg := get_first_ident (s2l "$ORIGIN") (32 :: (ot ++ 10 :: rest)) (by decide) (by decide) ⟨32, _, rfl, by decide⟩
  have hg2 : (after 0 false (32 :: (ot ++ 10 :: rest))).get = .ok (identToken ot, after 0 false (10 :: rest)) := by
    have := get_blank_word [32] (.ident ot) (10 :: rest) (blank_cons blank_nil)
      (by simp [Word.ok, hot, hne]) ⟨10, rest, rfl, by decide⟩
    simpa [Word.text, Word.token, Word.isQuoted, identToken] using this
  unfold lineStep
  simp only [bind, Except.bind, liftT, htok, hg]
  have h1 : (identToken (s2l "$ORIGIN")).ttype ≠ .eof := by simp [identToken]
  have h2 : (identToken (s2l "$ORIGIN")).ttype ≠ .eol := by simp [identToken]
  have h3 : (identToken (s2l "$ORIGIN")).ttype ≠ .comment := by simp [identToken]
  have h4 : (s2l "$ORIGIN").head? = some 36 := by decide
  have h5 : directiveOf (s2l "$ORIGIN") = s2l "$ORIGIN" := by decide
  have h6 : s2l "$ORIGIN" ≠ s2l "$TTL" := by decide
  have hval : (identToken (s2l "$ORIGIN")).value = s2l "$ORIGIN" := rfl
  simp only [h1, h2, h3, hval, h4, h5, h6, if_false, if_true, TState.getName, bind, Except.bind, hg2, hn, TState.getEol,
    get_eol_after', Token.isEolOrEof, pure, Except.pure, habs, Bool.not_true, Bool.false_eq_true]
  simp only [originAfter]
  cases r.zoneOrigin <;> rfl

end Model

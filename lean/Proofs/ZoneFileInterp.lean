import Model.ZoneFile
/-!
The reader as a denotation.  `parseTrace` runs only the zone-independent parser and records the
sequence of records it hands to `txn.add` (with the effective origin in force); `interpTrace` gives the
zone-level meaning of such a sequence.  `readLoop = interpTrace ∘ parseTrace`.
-/
namespace Model

/-- what the parser emits: records in file order, ended by EOF (`done`) or by the first parse error -/
inductive Trace where
  | done (p : PState)
  | err (e : RErr)
  | entry (eff : Option Name) (e : Entry) (rest : Trace)

/-- denotation of a trace: fold `txn.add` over the records; the first failing step decides the outcome -/
def interpTrace : Trace → ZoneMap → RM (PState × ZoneMap)
  | .done p, z => .ok (p, z)
  | .err e, _ => .error e
  | .entry eff e rest, z =>
    match addEntry z eff e with
    | .ok z' => interpTrace rest z'
    | .error err => .error err

/-- the `for` loop of `_generate_line` as a trace; `k r` is what follows the loop -/
def genTrace (ttl ty : Nat) : List (List Nat × List Nat) → PState → (PState → Trace) → Trace
  | [], r, k => k r
  | item :: rest, r, k =>
    match genItem ttl ty item r with
    | .error e => .err e
    | .ok (none, r') => genTrace ttl ty rest r' k
    | .ok (some e, r') => .entry r'.effOrigin e (genTrace ttl ty rest r' k)

/-- the records a text denotes, by running the parser alone -/
def parseTrace : Nat → PState → Trace
  | 0, _ => .err (.other "fuel")
  | f + 1, r =>
    match lineStep r with
    | .error e => .err e
    | .ok (.eof, _) => .done r
    | .ok (.nothing, r') => parseTrace f r'
    | .ok (.entry e, r') => .entry r'.effOrigin e (parseTrace f r')
    | .ok (.generate, r') =>
      match generateParse r' with
      | .error e => .err e
      | .ok (h, r'') =>
        genTrace h.ttl h.rdtype h.items r'' fun r3 => parseTrace f r3

theorem generateLoop_trace (ttl ty : Nat) (items : List (List Nat × List Nat)) (r : PState) (z : ZoneMap)
    (k : PState → Trace) (K : PState × ZoneMap → RM (PState × ZoneMap))
    (hK : ∀ r' z', K (r', z') = interpTrace (k r') z') :
    (generateLoop ttl ty items r z >>= K) = interpTrace (genTrace ttl ty items r k) z := by
  induction items generalizing r z with
  | nil => simp [generateLoop, genTrace, pure, Except.pure, bind, Except.bind, hK]
  | cons item rest ih =>
    simp only [generateLoop, genTrace, bind, Except.bind]
    cases hg : genItem ttl ty item r with
    | error e => simp [interpTrace]
    | ok v =>
      obtain ⟨e, r1⟩ := v
      cases e with
      | none =>
        have := ih r1 z
        simp only [bind, Except.bind] at this
        exact this
      | some e =>
        simp only [interpTrace]
        cases ha : addEntry z r1.effOrigin e with
        | error err => simp
        | ok z1 =>
          simp only
          have := ih r1 z1
          simp only [bind, Except.bind] at this
          exact this

/-- `zoneFromText` without `$INCLUDE` support (the defaults: no files, `allow_include=False`) -/
theorem zoneFromText_def (text : List Nat) (origin : Option Name) (rel chk gfix : Bool) :
    zoneFromText text origin rel chk gfix =
      (do
        let (r, z) ← readLoop (text.length + 2) (PState.init text origin rel gfix) []
        let zorigin := if z.isEmpty then origin else r.zoneOrigin
        if chk then checkOrigin z zorigin rel
        pure (z, zorigin) : RM (ZoneMap × Option Name)) := rfl

/-- **the reader equals the denotation of the parser's trace** -/
theorem readLoop_eq_interp (fuel : Nat) (r : PState) (z : ZoneMap) :
    readLoop fuel r z = interpTrace (parseTrace fuel r) z := by
  induction fuel generalizing r z with
  | zero => simp [readLoop, parseTrace, interpTrace]
  | succ f ih =>
    simp only [readLoop, parseTrace, readStep, bind, Except.bind]
    cases hl : lineStep r with
    | error e => simp [interpTrace]
    | ok v =>
      obtain ⟨ev, r1⟩ := v
      cases ev with
      | eof => simp [pure, Except.pure, interpTrace]
      | nothing => simp [pure, Except.pure, ih]
      | entry e =>
        simp only [interpTrace]
        cases ha : addEntry z r1.effOrigin e with
        | error err => simp
        | ok z1 => simp [pure, Except.pure, ih]
      | generate =>
        simp only [generateLine, bind, Except.bind]
        cases hp : generateParse r1 with
        | error e => simp [interpTrace]
        | ok w =>
          obtain ⟨h, r2⟩ := w
          simp only
          have := generateLoop_trace h.ttl h.rdtype h.items r2 z (fun r3 => parseTrace f r3)
            (fun x => readLoop f x.1 x.2) (by intro r' z'; simp [ih])
          rw [← this]
          simp only [bind, Except.bind, pure, Except.pure]
          cases hgl : generateLoop h.ttl h.rdtype h.items r2 z with
          | error e => rfl
          | ok x => rfl

end Model

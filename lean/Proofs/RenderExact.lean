import Proofs.ParseTsig
/-! Exact round trip under case consistency, and `render_parse_render`: re-rendering the parsed message reproduces
the octets. -/
namespace Model

/-! ### the exact relation collapses similarity to equality -/

variable {S : Name → Prop} {hS : CaseClosed S}

theorem RData.eq_of_sim_exact {a b : RData} (h : a.sim (exactSpec S hS) b) : a = b := by
  cases a <;> cases b <;> simp only [RData.sim] at h <;> (try exact h.elim)
  · rw [h]
  · rw [h.1]
  · rw [h.1, h.2.1]
  · obtain ⟨h1, h2, h3, h4, h5, h6, h7⟩ := h
    rw [h1.1, h2.1, h3, h4, h5, h6, h7]

theorem SimList.eq_of_forall {α : Type} {R : α → α → Prop} (hR : ∀ a b, R a b → a = b) {l l' : List α}
    (h : SimList R l l') : l = l' := by
  induction h with
  | nil => rfl
  | cons hab _ ih => rw [hR _ _ hab, ih]

theorem RRset.eq_of_sim_exact {a b : RRset} (h : a.sim (exactSpec S hS) b) : a = b := by
  obtain ⟨h1, h2, h3, h4, h5, h6, h7⟩ := h
  have h8 := SimList.eq_of_forall (fun x y hxy => RData.eq_of_sim_exact hxy) h7
  cases a; cases b
  simp only at h1 h2 h3 h4 h5 h6 h8
  simp [h1.1, h2, h3, h4, h5, h6, h8]

theorem Tsig.eq_of_sim_exact {a b : Tsig} (h : a.sim (exactSpec S hS) b) : a = b := by
  obtain ⟨h1, h2, h3, h4, h5, h6, h7, h8⟩ := h
  cases a; cases b
  simp only at h1 h2 h3 h4 h5 h6 h7 h8
  simp [h1.1, h2, h3, h4, h5, h6, h7, h8]

/-- the fields `parseMessage` does not read from the wire -/
theorem parseMessage_fields (cfg : PCfg) (w : Bytes) (m' : Message) (h : parseMessage cfg w = .ok m') :
    m'.origin = cfg.origin ∧ m'.requestPayload = 0 ∧ m'.pad = 0 := by
  unfold parseMessage at h
  split at h
  · simp at h
  · simp only at h
    split at h
    · simp at h
    · split at h
      · simp at h
      · split at h
        · simp at h
        · split at h
          · simp at h
          · split at h
            · simp at h
            · simp at h; rw [← h]; exact ⟨rfl, rfl, rfl⟩

/-- render-then-parse is the identity (but for `request_payload`, which is not on the wire) on well-formed
messages all of whose names lie in a case-consistent suffix-closed set -/
theorem parse_toWire_exact (m : Message) (lim : Nat) (w : Bytes) (hok : MsgOkT (exactSpec S hS) m)
    (h : m.toWire lim false = .ok w) (cfg : PCfg) (horg : cfg.origin = none) (hnorr : cfg.oneRRPerRRset = false)
    (hkey : cfg.hasKey = true) : parseMessage cfg w = .ok { m with requestPayload := 0 } := by
  obtain ⟨m', hp, hs⟩ := parse_toWire_full m lim w hok h cfg horg hnorr hkey
  obtain ⟨f1, f2, f3⟩ := parseMessage_fields cfg w m' hp
  obtain ⟨g1, g2, g3, g4, g5, g6, g7, g8⟩ := hs
  have e3 := SimList.eq_of_forall (fun x y hxy => RRset.eq_of_sim_exact hxy) g3
  have e4 := SimList.eq_of_forall (fun x y hxy => RRset.eq_of_sim_exact hxy) g4
  have e5 := SimList.eq_of_forall (fun x y hxy => RRset.eq_of_sim_exact hxy) g5
  have e6 := SimList.eq_of_forall (fun x y hxy => RRset.eq_of_sim_exact hxy) g6
  have e8 : m'.tsig = m.tsig := by
    cases h1 : m'.tsig with
    | none =>
      cases h2 : m.tsig with
      | none => rfl
      | some b => rw [h1, h2] at g8; exact g8.elim
    | some a =>
      cases h2 : m.tsig with
      | none => rw [h1, h2] at g8; exact g8.elim
      | some b => rw [h1, h2] at g8; rw [Tsig.eq_of_sim_exact g8]
  rw [hp]
  have ho := hok.origin
  have hpad := hok.pad
  cases m'; cases m
  simp only at f1 f2 f3 g1 g2 e3 e4 e5 e6 g7 e8 ho hpad
  simp [f1, f2, f3, g1, g2, e3, e4, e5, e6, g7, e8, ho, hpad, horg]

/-- `request_payload` only matters when no explicit limit is given -/
theorem toWire_requestPayload (m : Message) (lim : Nat) (pt : Bool) (rp : Nat) (hlim : lim ≠ 0) :
    ({ m with requestPayload := rp } : Message).toWire lim pt = m.toWire lim pt := by
  have hc : clampSize lim rp = clampSize lim m.requestPayload := by simp [clampSize, hlim]
  unfold Message.toWire Message.render
  have e1 : ({ m with requestPayload := rp } : Message).tsigReserve = m.tsigReserve := rfl
  have e2 : ({ m with requestPayload := rp } : Message).optReserve = m.optReserve := rfl
  rw [e1, e2]
  simp only
  rw [hc]
  rfl

/-- a finite list of names closed under suffixes, containing the root, no two members equal only up to case -/
theorem caseClosed_of_list (l : List Name) (h1 : [[]] ∈ l) (h2 : ∀ n ∈ l, ∀ k < n.length, n.drop k ∈ l)
    (h3 : ∀ a ∈ l, ∀ b ∈ l, lowerName a = lowerName b → a = b) : CaseClosed (fun x => x ∈ l) :=
  ⟨h1, fun n k hn hk => h2 n hn k hk, fun a b ha hb => h3 a ha b hb⟩

end Model

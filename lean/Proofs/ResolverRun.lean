import Model.Resolver
import Proofs.Resolver
import Proofs.ResolverStep
/-!
Helper lemmas for C16, part 3: the `resolve` loop — one pass (`afterPick`), proof principles for `run`,
and the potential function behind termination.
-/
set_option linter.unusedSimpArgs false
namespace Model.Resolver
open Model

/-! ## one pass of the inner loop -/

theorem afterPick_cont {env : Env} {q : Name} {ns : Server} {tcp : Bool} {b : Nat} {st1 : St} {evs : List Event}
    {st' : St} (h : afterPick env q ns tcp b st1 = .cont evs st') :
    (st1.now + sleepFor env b st1.now) - env.start < env.lifetime ∧
    st1.now + sleepFor env b st1.now ≤ st'.now ∧
    st'.qnames = st1.qnames ∧ st'.qname = st1.qname ∧ st'.current = st1.current ∧ st'.backoff = st1.backoff ∧
    st'.nameserver = st1.nameserver ∧ st'.tcpAttempt = st1.tcpAttempt ∧
    st'.nameservers.length ≤ st1.nameservers.length ∧
    (st'.retryWithTcp = true → st1.retryWithTcp = true ∨ st1.tcpAttempt = false) ∧
    (st'.phase = .needRequest ∨ st'.phase = st1.phase) := by
  unfold afterPick at h
  simp only at h
  split at h
  · cases h
  · rename_i timeout hto
    have hlt : (st1.now + sleepFor env b st1.now) - env.start < env.lifetime := by
      unfold computeTimeout at hto
      simp only at hto
      split at hto
      · cases hto
      · omega
    split at h
    · cases h
    · cases h
    · rename_i done st4 hq
      obtain ⟨hf, hl, hr⟩ := queryResult_ret_frame hq
      obtain ⟨f1, f2, f3, f4, f5, f6, f7, f8, f9⟩ := hf
      simp only at f1 f2 f3 f4 f5 f6 f7 f8 f9 hl hr
      cases h
      cases done <;> simp_all <;> omega

/-! ## proof principles for `run` -/

/-- safety: an invariant kept by every continuing iteration yields its consequence for the final result -/
theorem run_post (env : Env) (Inv : St → Prop) (Post : List Event → Result → St → Prop)
    (hcont : ∀ st evs st', Inv st → step env st = .cont evs st' → Inv st')
    (hdone : ∀ st evs r st', Inv st → step env st = .done evs r st' → ∀ pre, Post (pre ++ evs) r st') :
    ∀ fuel st pre, Inv st →
      (run env fuel st).2.1 = .outOfFuel ∨ Post (pre ++ (run env fuel st).1) (run env fuel st).2.1 (run env fuel st).2.2
  | 0, st, pre, _ => by simp [run]
  | fuel + 1, st, pre, hinv => by
    unfold run
    split
    · rename_i evs r st' hs
      right
      exact hdone st evs r st' hinv hs pre
    · rename_i evs st' hs
      have ih := run_post env Inv Post hcont hdone fuel st' (pre ++ evs) (hcont st evs st' hinv hs)
      simpa [List.append_assoc] using ih

/-- termination: a potential that strictly decreases on every continuing iteration bounds the iterations -/
theorem run_terminates (env : Env) (Inv : St → Prop) (phi : St → Nat)
    (hcont : ∀ st evs st', Inv st → step env st = .cont evs st' → Inv st' ∧ phi st' < phi st)
    (hdone : ∀ st evs r st', step env st = .done evs r st' → r ≠ .outOfFuel) :
    ∀ fuel st, Inv st → phi st < fuel → (run env fuel st).2.1 ≠ .outOfFuel
  | 0, st, _, h => by omega
  | fuel + 1, st, hinv, h => by
    unfold run
    split
    · rename_i evs r st' hs
      exact hdone st evs r st' hs
    · rename_i evs st' hs
      obtain ⟨h1, h2⟩ := hcont st evs st' hinv hs
      exact run_terminates env Inv phi hcont hdone fuel st' h1 (by omega)

/-! ## results a single iteration can produce -/

theorem afterPick_done_ne {env : Env} {q : Name} {ns : Server} {tcp : Bool} {b : Nat} {st1 : St} {evs : List Event}
    {r : Result} {st' : St} (h : afterPick env q ns tcp b st1 = .done evs r st') :
    r = .lifetimeTimeout ∨ r = .noAnswer ∨ r = .yxdomain ∨ ∃ a, r = .answer a := by
  unfold afterPick at h
  simp only at h
  split at h
  · cases h; simp
  · split at h
    · rename_i r' st4 hq
      cases h
      have := (queryResult_raise hq).2.2.2.2
      rcases this with rfl | rfl <;> simp
    · cases h; right; right; right; exact ⟨_, rfl⟩
    · cases h

theorem step_done_ne_outOfFuel {env : Env} {st : St} {evs : List Event} {r : Result} {st' : St}
    (h : step env st = .done evs r st') : r ≠ .outOfFuel := by
  unfold step at h
  split at h
  · have hs := nextRequest_spec env st.qnames st
    split at h
    · rename_i r' hr
      cases h
      rw [hr] at hs
      rcases hs with hs | ⟨nx, h1, _⟩
      · rw [hs.1]; simp
      · rw [h1]; simp
    · cases h; simp
    · cases h
  · split at h
    · rename_i r' hr
      cases h
      rw [(nextNameserver_raise hr).1]; simp
    · rcases afterPick_done_ne h with rfl | rfl | rfl | ⟨a, rfl⟩ <;> simp

/-! ## the potential -/

theorem roundsLeft_mono (bo : Backoff) (L e e' : Nat) (h : e ≤ e') : roundsLeft bo L e' ≤ roundsLeft bo L e := by
  unfold roundsLeft
  exact Nat.div_le_div_right (by omega)

theorem roundsLeft_dec (bo : Backoff) (L e e' : Nat) (hpos : 0 < bo.init) (h : e + bo.init ≤ e') (hlt : e' < L) :
    roundsLeft bo L e' + 1 ≤ roundsLeft bo L e := by
  unfold roundsLeft
  rw [← Nat.add_div_right _ hpos]
  exact Nat.div_le_div_right (by omega)

/-- upper bound on the number of further iterations: `2n+2` per untried candidate, `2n` per re-arming the
remaining lifetime still allows, two per server left in this round, one for a pending TCP retry -/
def phi (env : Env) (st : St) : Nat :=
  (2 * env.cfg.servers.length + 2) * st.qnames.length
    + 2 * env.cfg.servers.length * roundsLeft env.bo env.lifetime (st.now - env.start)
    + (match st.phase with
       | .needRequest => 0
       | .querying => 2 * st.current.length + (if st.retryWithTcp then 1 else 0))

/-- what the potential argument needs of a reachable state -/
def InvT (env : Env) (st : St) : Prop :=
  env.start ≤ st.now ∧
  (st.phase = .querying → st.nameservers.length ≤ env.cfg.servers.length ∧ env.bo.init ≤ st.backoff)

theorem backoff_next_ge (bo : Backoff) (b : Nat) (h1 : bo.init ≤ bo.cap) (h2 : 1 ≤ bo.factor) (hb : bo.init ≤ b) :
    bo.init ≤ min (b * bo.factor) bo.cap := by
  have : b ≤ b * bo.factor := Nat.le_mul_of_pos_right b h2
  rw [Nat.min_def]
  split <;> omega

theorem sleepFor_ge {env : Env} {b now : Nat} (hb : env.bo.init ≤ b)
    (hlt : (now + sleepFor env b now) - env.start < env.lifetime) (hs : env.start ≤ now) :
    env.bo.init ≤ sleepFor env b now := by
  unfold sleepFor at *
  split
  · rename_i hc
    simp only [hc, if_true] at hlt
    rw [Nat.min_def] at hlt ⊢
    split
    · omega
    · rename_i hle
      simp only [hle, if_false] at hlt
      omega
  · exact hb

theorem step_cont_phi (env : Env) (hpos : 0 < env.bo.init) (hcap : env.bo.init ≤ env.bo.cap)
    (hfac : 1 ≤ env.bo.factor) (st : St) (evs : List Event) (st' : St)
    (hinv : InvT env st) (h : step env st = .cont evs st') : InvT env st' ∧ phi env st' < phi env st := by
  obtain ⟨hstart, hq⟩ := hinv
  unfold step at h
  split at h
  · -- next_request
    rename_i hphase
    have hs := nextRequest_spec env st.qnames st
    split at h
    · cases h
    · cases h
    · rename_i st2 hr
      cases h
      rw [hr] at hs
      obtain ⟨⟨skipped, e1, _⟩, _, p1, p2, p3, p4, p5, p6, _, _, _, _⟩ := hs
      have hlen : st'.qnames.length + 1 ≤ st.qnames.length := by
        rw [e1]; simp
      refine ⟨⟨by omega, fun _ => by simp [p2, p5]⟩, ?_⟩
      unfold phi
      simp only [hphase, p1, p3, p4, p6]
      have hm := Nat.mul_le_mul_left (2 * env.cfg.servers.length + 2) hlen
      rw [Nat.mul_succ] at hm
      simp
      omega
  · -- one pass of the inner loop
    rename_i hphase
    obtain ⟨hn, hb⟩ := hq hphase
    split at h
    · cases h
    · rename_i ns tcp b st1 hns
      obtain ⟨⟨g1, g2, g3, g4, g5, g6, g7, g8⟩, r1, r2, r3, hcase⟩ := nextNameserver_ok hns
      obtain ⟨a1, a2, a3, a4, a5, a6, a7, a8, a9, a10, a11⟩ := afterPick_cont h
      have hnow : st.now ≤ st'.now := by omega
      have hlen1 : st1.nameservers.length = st.nameservers.length := by rw [g5]
      have hmono := roundsLeft_mono env.bo env.lifetime (st.now - env.start) (st'.now - env.start) (by omega)
      have hR := Nat.mul_le_mul_left (2 * env.cfg.servers.length) hmono
      have hinv' : InvT env st' := by
        refine ⟨by omega, fun _ => ⟨by omega, ?_⟩⟩
        rw [a6]
        rcases hcase with c | c | c
        · rw [c.2.2.2.2.2]; exact hb
        · rw [c.2.2.2.1]; exact hb
        · rw [c.2.2.2.2.1]; exact backoff_next_ge env.bo st.backoff hcap hfac hb
      refine ⟨hinv', ?_⟩
      unfold phi
      rw [a3, g2]
      rcases hcase with c | c | c
      · -- the TCP retry
        obtain ⟨c1, c2, c3, c4, c5, c6⟩ := c
        have hretry : st'.retryWithTcp = false := by
          cases hx : st'.retryWithTcp
          · rfl
          · rcases a10 hx with h1 | h1
            · rw [r1] at h1; cases h1
            · rw [r2, c3] at h1; cases h1
        rcases a11 with hp | hp
        · simp only [hp, hphase, c1, if_true]; omega
        · rw [g1] at hp
          simp only [hp, hphase, c1, hretry, a5, c5, if_true]
          simp
          omega
      · -- the next server of this round
        obtain ⟨c1, c2, c3, c4, c5⟩ := c
        have hlen : st.current.length = st1.current.length + 1 := by rw [c2]; simp
        rcases a11 with hp | hp
        · simp only [hp, hphase, c1]; omega
        · rw [g1] at hp
          simp only [hp, hphase, c1, a5, hlen]
          split <;> simp <;> omega
      · -- re-arming: the sleep is at least the first back-off and the lifetime test passed
        obtain ⟨c1, c2, c3, c4, c5, c6⟩ := c
        have hsl := sleepFor_ge (env := env) (b := b) (now := st1.now) (by rw [c4]; exact hb) a1 (by omega)
        have hdec := roundsLeft_dec env.bo env.lifetime (st.now - env.start)
          (st1.now + sleepFor env b st1.now - env.start) hpos (by omega) a1
        have hmono2 := roundsLeft_mono env.bo env.lifetime (st1.now + sleepFor env b st1.now - env.start)
          (st'.now - env.start) (by omega)
        have hR' : roundsLeft env.bo env.lifetime (st'.now - env.start) + 1
            ≤ roundsLeft env.bo env.lifetime (st.now - env.start) := by omega
        have hm := Nat.mul_le_mul_left (2 * env.cfg.servers.length) hR'
        rw [Nat.mul_succ] at hm
        have hlen : st1.current.length + 1 = st.nameservers.length := by rw [c3]; simp
        rcases a11 with hp | hp
        · simp only [hp, hphase, c1, c2]; simp; omega
        · rw [g1] at hp
          simp only [hp, hphase, c1, c2, a5]
          split <;> simp <;> omega

/-! ## time -/

theorem doQuery_dur_le (script : List ScriptStep) (t : Nat) : (doQuery script t).2.1 ≤ t := by
  unfold doQuery
  split
  · simp
  · split
    · split <;> simp <;> omega
    · simp

/-- where the clock may stand after one pass: inside the lifetime if the loop goes on; at most one back-off
beyond it (as shipped) or still inside it (sleep clipped) if it ends -/
def TimeOK (env : Env) (b : Nat) : StepR → Prop
  | .cont _ st' => st'.now ≤ env.start + env.lifetime
  | .done _ _ st' => st'.now ≤ env.start + env.lifetime + (if env.clipSleep then 0 else b)

theorem afterPick_time (env : Env) (q : Name) (ns : Server) (tcp : Bool) (b : Nat) (st1 : St)
    (hs : env.start ≤ st1.now) (hle : st1.now ≤ env.start + env.lifetime) :
    TimeOK env b (afterPick env q ns tcp b st1) := by
  have hms : st1.now + sleepFor env b st1.now ≤ env.start + env.lifetime + (if env.clipSleep then 0 else b) := by
    unfold sleepFor
    split
    · rw [Nat.min_def]; split <;> omega
    · omega
  unfold afterPick
  simp only
  split
  · exact hms
  · rename_i timeout hto
    have hq := doQuery_dur_le st1.script timeout
    have hto' : st1.now + sleepFor env b st1.now + timeout ≤ env.start + env.lifetime := by
      unfold computeTimeout at hto
      simp only at hto
      split at hto
      · cases hto
      · cases hto
        rw [Nat.min_def]; split <;> omega
    split
    · rename_i r st4 hqr
      have := (queryResult_raise hqr).1.2.2.2.2.2.2.2.1
      simp only [TimeOK, this]; omega
    · rename_i a d st4 hqr
      have := (queryResult_ret_frame hqr).1.2.2.2.2.2.2.2.1
      simp only [TimeOK, this]; omega
    · rename_i d st4 hqr
      have := (queryResult_ret_frame hqr).1.2.2.2.2.2.2.2.1
      cases d <;> simp only [TimeOK] <;> simp [this] <;> omega

def InvTime (env : Env) (st : St) : Prop :=
  env.start ≤ st.now ∧ st.now ≤ env.start + env.lifetime ∧ (st.phase = .querying → st.backoff ≤ env.bo.cap)

def StepTimeOK (env : Env) : StepR → Prop
  | .cont _ st' => InvTime env st'
  | .done _ _ st' => st'.now ≤ env.start + env.lifetime + (if env.clipSleep then 0 else env.bo.cap)

theorem step_time (env : Env) (hcap : env.bo.init ≤ env.bo.cap) (st : St) (hinv : InvTime env st) :
    StepTimeOK env (step env st) := by
  obtain ⟨h1, h2, h3⟩ := hinv
  unfold step
  split
  · have hs := nextRequest_spec env st.qnames st
    split
    · simp only [StepTimeOK]; omega
    · simp only [StepTimeOK]; omega
    · rename_i st2 hr
      rw [hr] at hs
      obtain ⟨_, _, p1, p2, p3, p4, p5, p6, _⟩ := hs
      exact ⟨by omega, by omega, fun _ => by omega⟩
  · rename_i hphase
    have hb := h3 hphase
    split
    · simp only [StepTimeOK]; omega
    · rename_i ns tcp b st1 hns
      obtain ⟨⟨g1, g2, g3, g4, g5, g6, g7, g8⟩, r1, r2, r3, hcase⟩ := nextNameserver_ok hns
      have ht := afterPick_time env st.qname ns tcp b st1 (by omega) (by omega)
      have hb' : b ≤ env.bo.cap := by
        rcases hcase with c | c | c
        · omega
        · omega
        · omega
      have hb1 : st1.backoff ≤ env.bo.cap := by
        rcases hcase with c | c | c
        · omega
        · omega
        · rw [c.2.2.2.2.1, Nat.min_def]; split <;> omega
      generalize hap : afterPick env st.qname ns tcp b st1 = res at ht
      cases res with
      | cont evs st' =>
        obtain ⟨a1, a2, a3, a4, a5, a6, a7, a8, a9, a10, a11⟩ := afterPick_cont hap
        exact ⟨by omega, ht, fun _ => by omega⟩
      | done evs r st' =>
        simp only [TimeOK, StepTimeOK] at ht ⊢
        split at ht <;> simp_all <;> omega

/-! ## number of queries -/

def isQuery : Event → Bool
  | .query .. => true
  | _ => false

def StepR.evs : StepR → List Event
  | .cont evs _ => evs
  | .done evs _ _ => evs

theorem afterPick_queries (env : Env) (q : Name) (ns : Server) (tcp : Bool) (b : Nat) (st1 : St) :
    (afterPick env q ns tcp b st1).evs.countP isQuery ≤ 1 := by
  unfold afterPick
  simp only
  split
  · split <;> simp [StepR.evs, isQuery]
  · split <;> (simp only [StepR.evs, List.countP_append]; split <;> simp [isQuery])

theorem step_queries (env : Env) (st : St) : (step env st).evs.countP isQuery ≤ 1 := by
  unfold step
  split
  · split <;> simp [StepR.evs, isQuery]
  · split
    · simp [StepR.evs]
    · exact afterPick_queries ..

theorem run_query_count (env : Env) : ∀ fuel st, (run env fuel st).1.countP isQuery ≤ fuel
  | 0, st => by simp [run]
  | fuel + 1, st => by
    have hs := step_queries env st
    unfold run
    split
    · rename_i evs r st' h
      rw [h] at hs
      simp only [StepR.evs] at hs
      simp only; omega
    · rename_i evs st' h
      rw [h] at hs
      simp only [StepR.evs] at hs
      have ih := run_query_count env fuel st'
      simp only [List.countP_append]
      omega

/-- safety with the events so far: an invariant over (events emitted so far, state) kept by every continuing
iteration yields its consequence for the whole event list, the result and the final state -/
theorem run_post' (env : Env) (Inv : List Event → St → Prop) (Post : List Event → Result → St → Prop)
    (hcont : ∀ pre st evs st', Inv pre st → step env st = .cont evs st' → Inv (pre ++ evs) st')
    (hdone : ∀ pre st evs r st', Inv pre st → step env st = .done evs r st' → Post (pre ++ evs) r st') :
    ∀ fuel st pre, Inv pre st →
      (run env fuel st).2.1 = .outOfFuel ∨ Post (pre ++ (run env fuel st).1) (run env fuel st).2.1 (run env fuel st).2.2
  | 0, st, pre, _ => by simp [run]
  | fuel + 1, st, pre, hinv => by
    unfold run
    split
    · rename_i evs r st' hs
      right
      exact hdone pre st evs r st' hinv hs
    · rename_i evs st' hs
      have ih := run_post' env Inv Post hcont hdone fuel st' (pre ++ evs) (hcont pre st evs st' hinv hs)
      simpa [List.append_assoc] using ih

import Proofs.SetAlg2
/-!
Helper lemmas for C07, part 3 (deepening): rdataset objects with the `ImmutableRdataset` flag —
every in-place operation keeps the rdataset invariant on a mutable object and leaves an immutable object
exactly as it is, over whole histories.
-/
namespace Model
namespace RdsProofs
open SetAlg

theorem wf_of_sub (s s' : Rds) (h : WfRds s) (e2 : s'.cls = s.cls) (e3 : s'.typ = s.typ)
    (hn : s'.items.Nodup) (hsub : ∀ r ∈ s'.items, r ∈ s.items) : WfRds s' := by
  refine ⟨hn, ?_⟩
  intro r hr
  rw [e2, e3]
  exact h.2 r (hsub r hr)

theorem updateTtl_wf (s : Rds) (t : Nat) (h : WfRds s) : WfRds (updateTtl s t) := by
  obtain ⟨e1, e2, e3, _⟩ := updateTtl_fields s t
  exact wf_of_fields s _ h e1 e2 e3

/-- every in-place operation keeps a mutable rdataset duplicate-free with records of its own class and type,
whatever the other operand and whether or not the operation raises -/
theorem mutApply_wf (sing : List Nat) (s : Rds) (op : InPlace) (o : Rds) (alias : Bool) (h : WfRds s) :
    WfRds (mutApply sing s op o alias).1 := by
  have hu := updateTtl_wf s o.ttl h
  obtain ⟨u1, u2, u3, _⟩ := updateTtl_fields s o.ttl
  cases op with
  | add rd ttl => exact rdsAdd_wf sing s rd ttl h
  | updateTtl t => exact updateTtl_wf s t h
  | remove rd =>
    simp only [mutApply]
    cases hr : SetAlg.remove s.items rd with
    | none => exact h
    | some v =>
      refine wf_of_sub s _ h rfl rfl (nodup_remove s.items v rd h.1 hr) ?_
      intro r hm
      unfold SetAlg.remove at hr
      split at hr
      · simp only [Option.some.injEq] at hr; subst hr; exact List.mem_of_mem_erase hm
      · cases hr
  | discard rd =>
    exact wf_of_sub s _ h rfl rfl (nodup_discard s.items rd h.1) (fun r hm => List.mem_of_mem_erase hm)
  | pop =>
    simp only [mutApply]
    cases hp : SetAlg.pop s.items with
    | none => exact h
    | some p =>
      obtain ⟨x, v⟩ := p
      refine wf_of_sub s _ h rfl rfl (nodup_pop s.items v x h.1 hp) ?_
      intro r hm
      rw [pop_spec s.items v x hp]
      exact List.mem_append_left _ hm
  | clear => exact wf_of_sub s _ h rfl rfl List.nodup_nil (by intro r hm; cases hm)
  | delItem i =>
    simp only [mutApply]
    cases hd : SetAlg.delItem s.items i with
    | none => exact h
    | some v =>
      refine wf_of_sub s _ h rfl rfl (nodup_delItem s.items v i h.1 hd) ?_
      intro r hm
      unfold SetAlg.delItem at hd
      split at hd
      · simp only [Option.some.injEq] at hd; subst hd; exact List.mem_of_mem_erase hm
      · cases hd
  | delSlice a b st =>
    refine wf_of_sub s _ h rfl rfl (nodup_delSlice s.items a b st h.1) ?_
    intro r hm
    simp only [mutApply, SetAlg.delSlice] at hm
    rw [foldl_erase_eq _ s.items h.1] at hm
    exact (List.mem_filter.1 hm).1
  | unionUpdate =>
    simp only [mutApply, rdsUnionUpdate]
    split
    · exact hu
    · exact rdsAddAll_wf sing _ _ hu
  | interUpdate =>
    simp only [mutApply, rdsInterUpdate]
    split
    · exact hu
    · refine wf_of_sub s _ h u2 u3 (nodup_interUpdate _ _ hu.1) ?_
      intro r hm
      simp only at hm
      rw [interUpdate_eq _ _ hu.1] at hm
      rw [← u1]; exact (List.mem_filter.1 hm).1
  | update => exact rdsAddAll_wf sing _ _ hu
  | diffUpdate =>
    simp only [mutApply, rdsDiffUpdate]
    split
    · exact wf_of_sub s _ h rfl rfl List.nodup_nil (by intro r hm; cases hm)
    · refine wf_of_sub s _ h rfl rfl (nodup_diffUpdate _ _ h.1) ?_
      intro r hm
      simp only at hm
      rw [diffUpdate_eq _ _ h.1] at hm
      exact (List.mem_filter.1 hm).1
  | isub =>
    simp only [mutApply, rdsDiffUpdate]
    split
    · exact wf_of_sub s _ h rfl rfl List.nodup_nil (by intro r hm; cases hm)
    · refine wf_of_sub s _ h rfl rfl (nodup_diffUpdate _ _ h.1) ?_
      intro r hm
      simp only at hm
      rw [diffUpdate_eq _ _ h.1] at hm
      exact (List.mem_filter.1 hm).1
  | symDiffUpdate =>
    simp only [mutApply, rdsSymDiffUpdate]
    split
    · exact wf_of_sub s _ h rfl rfl List.nodup_nil (by intro r hm; cases hm)
    · have hw1 : WfRds (rdsUnionUpdate sing s o false).1 := by
        simp only [rdsUnionUpdate, Bool.false_eq_true, if_false]
        exact rdsAddAll_wf sing _ _ hu
      cases hh : rdsUnionUpdate sing s o false with
      | mk s1 err =>
        rw [hh] at hw1
        simp only at hw1
        cases err with
        | some e => exact hw1
        | none =>
          simp only [rdsDiffUpdate, Bool.false_eq_true, if_false]
          refine wf_of_sub s1 _ hw1 rfl rfl (nodup_diffUpdate _ _ hw1.1) ?_
          intro r hm
          simp only at hm
          rw [diffUpdate_eq _ _ hw1.1] at hm
          exact (List.mem_filter.1 hm).1

/-- an immutable rdataset object is never changed by an in-place operation -/
theorem regApply_imm_fst (sing : List Nat) (r : Reg) (hi : r.imm = true) (op : InPlace) (o : Rds) (alias : Bool) :
    (regApply sing r op o alias).1 = r := by
  unfold regApply
  rw [if_pos hi]
  cases op <;> try rfl
  show (if (!alias && o.items.isEmpty) = true then (r, none) else (r, some RdsErr.immutable)).1 = r
  split <;> rfl

theorem regApply_imm (sing : List Nat) (s : Rds) (op : InPlace) (o : Rds) (alias : Bool) :
    (regApply sing ⟨s, true⟩ op o alias).1 = ⟨s, true⟩ :=
  regApply_imm_fst sing ⟨s, true⟩ rfl op o alias

/-- a history of in-place operations (operation, other operand's value, aliased?) on one object -/
def regRun (sing : List Nat) : Reg → List (InPlace × Rds × Bool) → Reg
  | r, [] => r
  | r, (op, o, al) :: rest => regRun sing (regApply sing r op o al).1 rest

theorem regRun_imm (sing : List Nat) (s : Rds) (h : List (InPlace × Rds × Bool)) :
    regRun sing ⟨s, true⟩ h = ⟨s, true⟩ := by
  induction h with
  | nil => rfl
  | cons x rest ih =>
    obtain ⟨op, o, al⟩ := x
    simp only [regRun]
    rw [regApply_imm]
    exact ih

theorem regRun_wf (sing : List Nat) (h : List (InPlace × Rds × Bool)) (r : Reg) (hw : WfRds r.s) :
    WfRds (regRun sing r h).s := by
  induction h generalizing r with
  | nil => exact hw
  | cons x rest ih =>
    obtain ⟨op, o, al⟩ := x
    simp only [regRun]
    apply ih
    by_cases hi : r.imm = true
    · rw [regApply_imm_fst sing r hi]; exact hw
    · unfold regApply
      rw [if_neg hi]
      exact mutApply_wf sing r.s op o al hw

end RdsProofs
end Model

import Model.WireParser
import Proofs.ParseOffsets
/-! C04: bounds discipline of `dns.wirebase.Parser` — helper lemmas. -/
namespace Model.WP
open Model

/-- every byte string handed out lies inside the window `[.., bound]` -/
def OutsWithin (bound : Nat) (outs : List Out) : Prop :=
  ∀ a n, Out.bytes a n ∈ outs → a + n ≤ bound

theorem OutsWithin.nil (b : Nat) : OutsWithin b [] := by intro a n h; simp at h

theorem OutsWithin.append {b : Nat} {x y : List Out} (hx : OutsWithin b x) (hy : OutsWithin b y) :
    OutsWithin b (x ++ y) := by
  intro a n h
  rcases List.mem_append.mp h with h | h
  · exact hx a n h
  · exact hy a n h

theorem OutsWithin.mono {b c : Nat} {x : List Out} (hx : OutsWithin b x) (h : b ≤ c) : OutsWithin c x := by
  intro a n hm; have := hx a n hm; omega

theorem getBytes_spec (p : P) (n : Nat) :
    (getBytes p n).1.endp = p.endp ∧ OutsWithin p.endp (getBytes p n).2.2 ∧
    (getBytes p n).2.1 ≠ .assertion := by
  unfold getBytes remaining
  split
  · exact ⟨rfl, OutsWithin.nil _, by simp⟩
  · rename_i h
    refine ⟨rfl, ?_, by simp⟩
    intro a m hm
    simp at hm
    obtain ⟨rfl, rfl⟩ := hm
    omega

theorem step_spec (w : Bytes) (p : P) (op : Prim) :
    (step w p op).1.endp = p.endp ∧ OutsWithin p.endp (step w p op).2.2 := by
  cases op with
  | getBytes n => exact ⟨(getBytes_spec p n).1, (getBytes_spec p n).2.1⟩
  | getCounted lsz =>
    simp only [step]
    have h1 := getBytes_spec p lsz
    split
    · rename_i p1 _ heq
      have h2 := getBytes_spec p1 (be ((w.drop p.cur).take lsz))
      have he : p1.endp = p.endp := by rw [← h1.1, heq]
      exact ⟨by rw [h2.1, he], by rw [← he]; exact h2.2.1⟩
    · exact ⟨h1.1, h1.2.1⟩
  | getRemaining =>
    simp only [step]
    split
    · exact ⟨rfl, OutsWithin.nil _⟩
    · exact ⟨(getBytes_spec p _).1, (getBytes_spec p _).2.1⟩
  | seek wh =>
    simp only [step]
    split
    · exact ⟨rfl, OutsWithin.nil _⟩
    · exact ⟨rfl, OutsWithin.nil _⟩
  | seekFwd d =>
    simp only [step]
    split
    · exact ⟨rfl, OutsWithin.nil _⟩
    · exact ⟨rfl, OutsWithin.nil _⟩
  | getName =>
    simp only [step]
    split
    · refine ⟨rfl, ?_⟩
      intro a n h; simp at h
    · exact ⟨rfl, OutsWithin.nil _⟩

/-- `exec` never changes `end` across a whole routine (every `restrict_to` restores it, on exceptions too)
and never hands out octets beyond the `end` it started with. -/
theorem exec_window (w : Bytes) (prog : Prog) : ∀ p : P,
    (exec w p prog).p.endp = p.endp ∧ OutsWithin p.endp (exec w p prog).outs := by
  induction prog with
  | done => intro p; exact ⟨rfl, OutsWithin.nil _⟩
  | prim op k ih =>
    intro p
    have hs := step_spec w p op
    simp only [exec]
    split
    · rename_i p' outs heq
      have he : p'.endp = p.endp := by have := hs.1; rw [heq] at this; exact this
      have ho : OutsWithin p.endp outs := by have := hs.2; rw [heq] at this; exact this
      have := ih p'
      exact ⟨by simp only; rw [this.1, he], OutsWithin.append ho (by rw [← he]; exact this.2)⟩
    · rename_i p' o outs _ heq
      have he : p'.endp = p.endp := by have := hs.1; rw [heq] at this; exact this
      have ho : OutsWithin p.endp outs := by have := hs.2; rw [heq] at this; exact this
      exact ⟨he, ho⟩
  | restrict n body k ihb ihk =>
    intro p
    simp only [exec]
    split
    · exact ⟨rfl, OutsWithin.nil _⟩
    · rename_i hn
      have hle : p.cur + n ≤ p.endp := by unfold remaining at hn; omega
      have hb := ihb { p with endp := p.cur + n }
      have hbo : OutsWithin p.endp (exec w { p with endp := p.cur + n } body).outs :=
        OutsWithin.mono hb.2 hle
      split
      · split
        · exact ⟨rfl, hbo⟩
        · have hk := ihk { (exec w { p with endp := p.cur + n } body).p with endp := p.endp }
          exact ⟨hk.1, OutsWithin.append hbo hk.2⟩
      · exact ⟨rfl, hbo⟩
  | restoreFurthest body k ihb ihk =>
    intro p
    simp only [exec]
    have hb := ihb p
    split
    · have hk := ihk { (exec w p body).p with cur := (exec w p body).p.fur }
      exact ⟨by rw [hk.1]; exact hb.1, OutsWithin.append hb.2 (OutsWithin.mono hk.2 (Nat.le_of_eq hb.1))⟩
    · exact ⟨hb.1, hb.2⟩
  | try_ body k ihb ihk =>
    intro p
    simp only [exec]
    have hb := ihb p
    split
    · exact hb
    · have hk := ihk (exec w p body).p
      refine ⟨by rw [hk.1]; exact hb.1, OutsWithin.append hb.2 ?_⟩
      have := hk.2; rw [hb.1] at this; exact this

/-- the discipline the library keeps outside `get_name`: nothing has been read beyond the current position,
and the current position is inside the window -/
def Disc (p : P) : Prop := p.fur ≤ p.cur ∧ p.cur ≤ p.endp

theorem getBytes_disc (p : P) (n : Nat) (hd : Disc p) :
    Disc (getBytes p n).1 ∧ (getBytes p n).2.1 ≠ .assertion := by
  unfold getBytes remaining Disc at *
  split
  · exact ⟨hd, by simp⟩
  · rename_i h
    refine ⟨?_, by simp⟩
    simp only
    omega

theorem step_disc (w : Bytes) (p : P) (op : Prim) (hd : Disc p) (hop : ∀ wh, op ≠ .seek wh) :
    Disc (step w p op).1 ∧ (step w p op).2.1 ≠ .assertion := by
  cases op with
  | getBytes n => exact getBytes_disc p n hd
  | getCounted lsz =>
    simp only [step]
    have h1 := getBytes_disc p lsz hd
    split
    · rename_i p1 _ heq
      have : Disc p1 := by have := h1.1; rw [heq] at this; exact this
      exact getBytes_disc p1 _ this
    · exact h1
  | getRemaining =>
    simp only [step]
    split
    · rename_i h; unfold remaining Disc at *; omega
    · exact getBytes_disc p _ hd
  | seek wh => exact absurd rfl (hop wh)
  | seekFwd d =>
    simp only [step]
    split
    · exact ⟨hd, by simp⟩
    · rename_i h
      refine ⟨?_, by simp⟩
      unfold Disc at *; simp only; omega
  | getName =>
    simp only [step]
    have hb := pGetName_bounds w p.endp p.cur p.fur
    split
    · rename_i n f heq
      have := hb.2 n f heq
      refine ⟨?_, by simp⟩
      unfold Disc at *; simp only; omega
    · rename_i e f heq
      have := hb.1 e f heq
      refine ⟨?_, by simp⟩
      unfold Disc at *; simp only; omega

theorem exec_disc (w : Bytes) (prog : Prog) : ∀ p : P, Lib prog → Disc p →
    Disc (exec w p prog).p ∧ (exec w p prog).o ≠ .assertion := by
  induction prog with
  | done => intro p _ hd; exact ⟨hd, by simp [exec]⟩
  | prim op k ih =>
    intro p hl hd
    have hop : ∀ wh, op ≠ .seek wh := by
      intro wh h; subst h; simp [Lib] at hl
    have hk : Lib k := by
      cases op <;> simp [Lib] at hl ⊢ <;> exact hl
    have hs := step_disc w p op hd hop
    simp only [exec]
    split
    · rename_i p' outs heq
      have : Disc p' := by have := hs.1; rw [heq] at this; exact this
      exact ih p' hk this
    · rename_i p' o outs _ heq
      have h1 : Disc p' := by have := hs.1; rw [heq] at this; exact this
      have h2 : o ≠ .assertion := by have := hs.2; rw [heq] at this; exact this
      exact ⟨h1, h2⟩
  | restrict n body k ihb ihk =>
    intro p hl hd
    simp only [Lib] at hl
    simp only [exec]
    split
    · exact ⟨hd, by simp⟩
    · rename_i hn
      have hle : p.cur + n ≤ p.endp := by unfold remaining at hn; omega
      have hd0 : Disc { p with endp := p.cur + n } := by unfold Disc at *; simp only; omega
      have hb := ihb _ hl.1 hd0
      have hend := (exec_window w body { p with endp := p.cur + n }).1
      generalize exec w { p with endp := p.cur + n } body = rb at hb hend ⊢
      obtain ⟨bp, bo, bouts⟩ := rb
      have hd1 : Disc { bp with endp := p.endp } := by
        have := hb.1; unfold Disc at *; simp only at *; omega
      cases bo with
      | ok =>
        simp only
        split
        · exact ⟨hd1, by simp⟩
        · exact ihk _ hl.2 hd1
      | formError => exact ⟨hd1, by simp⟩
      | assertion => exact absurd rfl hb.2
  | restoreFurthest body k _ _ => intro p hl; simp [Lib] at hl
  | try_ body k ihb ihk =>
    intro p hl hd
    simp only [Lib] at hl
    simp only [exec]
    have hb := ihb p hl.1 hd
    split
    · rename_i heq; exact absurd heq hb.2
    · exact ihk _ hl.2 hb.1

end Model.WP

import Model.Resolver
import Proofs.Resolver
import Proofs.ResolverStep
import Proofs.ResolverRun
/-!
Helper lemmas for C16, part 4: NXDOMAIN aggregation over the candidate names.
-/
set_option linter.unusedSimpArgs false
namespace Model.Resolver
open Model

theorem afterPick_cont_nx {env : Env} {q : Name} {ns : Server} {tcp : Bool} {b : Nat} {st1 : St} {evs : List Event}
    {st' : St} (h : afterPick env q ns tcp b st1 = .cont evs st') :
    (∀ p, covered st1.nxNames p → covered st'.nxNames p) ∧
    (st1.phase = .querying → st'.phase = .needRequest → covered st'.nxNames st1.qname) := by
  unfold afterPick at h
  simp only at h
  split at h
  · cases h
  · split at h
    · cases h
    · cases h
    · rename_i done st4 hq
      obtain ⟨n1, n2⟩ := queryResult_nx hq
      obtain ⟨hf, _, _⟩ := queryResult_ret_frame hq
      obtain ⟨f1, f2, f3, _⟩ := hf
      simp only at f1 f2 f3
      cases h
      cases done
      · simp only [Bool.false_eq_true, if_false]
        refine ⟨n1, ?_⟩
        intro h1 h2
        rw [f1, h1] at h2
        cases h2
      · simp only [if_true]
        exact ⟨n1, fun _ _ => n2 rfl rfl⟩

/-- candidates not yet dealt with -/
def pending (st : St) : List Name :=
  match st.phase with
  | .needRequest => st.qnames
  | .querying => st.qname :: st.qnames

/-- every candidate already left behind has NXDOMAIN evidence -/
def InvN (env : Env) (st : St) : Prop :=
  ∃ done, env.qnamesToTry = done ++ pending st ∧ ∀ q ∈ done, covered st.nxNames q

def PostN (env : Env) (r : Result) : Prop :=
  ∀ qs rs, r = .nxdomain qs rs → qs = env.qnamesToTry ∧ ∀ q ∈ env.qnamesToTry, covered rs q

theorem step_nx (env : Env) (st : St) (hinv : InvN env st) :
    (∀ evs st', step env st = .cont evs st' → InvN env st') ∧
    (∀ evs r st', step env st = .done evs r st' → PostN env r) := by
  obtain ⟨done, hd1, hd2⟩ := hinv
  unfold step
  split
  · rename_i hphase
    simp only [pending, hphase] at hd1
    have hs := nextRequest_spec env st.qnames st
    split
    · rename_i r hr
      rw [hr] at hs
      refine ⟨(fun _ _ h => by cases h), ?_⟩
      intro evs r' st' h
      cases h
      intro qs rs hrs
      rcases hs with hs | ⟨nx, h1, h2, h3⟩
      · rw [hs.1] at hrs; cases hrs
      · rw [h1] at hrs
        cases hrs
        refine ⟨rfl, ?_⟩
        intro q hq
        rw [hd1] at hq
        rcases List.mem_append.mp hq with hq | hq
        · exact h2 q (hd2 q hq)
        · exact h3 q hq
    · refine ⟨(fun _ _ h => by cases h), ?_⟩
      intro evs r' st' h
      cases h
      intro qs rs hrs
      cases hrs
    · rename_i st2 hr
      rw [hr] at hs
      refine ⟨?_, (fun _ _ _ h => by cases h)⟩
      intro evs st' h
      cases h
      obtain ⟨⟨skipped, e1, e2⟩, hmono, p1, _⟩ := hs
      refine ⟨done ++ skipped, ?_, ?_⟩
      · simp only [pending, p1]
        rw [hd1, e1]; simp
      · intro q hq
        rcases List.mem_append.mp hq with hq | hq
        · exact hmono q (hd2 q hq)
        · exact e2 q hq
  · rename_i hphase
    simp only [pending, hphase] at hd1
    split
    · rename_i r hr
      refine ⟨(fun _ _ h => by cases h), ?_⟩
      intro evs r' st' h
      cases h
      intro qs rs hrs
      rw [(nextNameserver_raise hr).1] at hrs
      cases hrs
    · rename_i ns tcp b st1 hns
      obtain ⟨⟨g1, g2, g3, g4, g5, g6, g7, g8⟩, _⟩ := nextNameserver_ok hns
      refine ⟨?_, ?_⟩
      · intro evs st' h
        obtain ⟨n1, n2⟩ := afterPick_cont_nx h
        obtain ⟨_, _, a3, a4, _, _, _, _, _, _, a11⟩ := afterPick_cont h
        rw [g4] at n1
        rcases a11 with hp | hp
        · refine ⟨done ++ [st.qname], ?_, ?_⟩
          · simp only [pending, hp, a3, g2]
            rw [hd1]; simp
          · intro q hq
            rcases List.mem_append.mp hq with hq | hq
            · exact n1 q (hd2 q hq)
            · simp only [List.mem_singleton] at hq
              subst hq
              have := n2 (by rw [g1]; exact hphase) hp
              rw [g3] at this
              exact this
        · rw [g1, hphase] at hp
          refine ⟨done, ?_, fun q hq => n1 q (hd2 q hq)⟩
          simp only [pending, hp, a3, a4, g2, g3]
          exact hd1
      · intro evs r st' h
        intro qs rs hrs
        rcases afterPick_done_ne h with rfl | rfl | rfl | ⟨a, rfl⟩ <;> cases hrs

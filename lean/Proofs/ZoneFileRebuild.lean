import Model.ZoneFile
import Proofs.ZoneFileCname
/-!
Feeding a well-formed zone's own records, in the order the writer prints them, to `txn.add` rebuilds exactly
that zone (same names in the same order, same rdatasets in the same order, same rdatas, same TTLs).
-/
namespace Model

/-! ## `nameEq` is reflexive -/

theorem cmpBytes_self (b : Bytes) : cmpBytes b b = 0 := by
  induction b with
  | nil => rfl
  | cons a as ih => simp [cmpBytes, ih]

theorem fcLoop_self (l : List Label) (k : Nat) : fcLoop l l k = none := by
  induction l generalizing k with
  | nil => rfl
  | cons a as ih => simp [fcLoop, cmpLabel, cmpBytes_self, ih]

theorem nameEq_refl (n : Name) : nameEq n n = true := by
  simp [nameEq, cmpOrder, fullcompare, fcLoop_self]

/-! ## records of a zone, in writer order -/

def entriesOfRdataset (name : Name) (rds : Rdataset) : List Entry :=
  rds.rrs.map fun rr => ⟨name, rds.ttl, rds.rdtype, rr⟩

def entriesOfNode (name : Name) (nd : Node) : List Entry := nd.flatMap (entriesOfRdataset name)

def entriesOfZone (z : ZoneMap) : List Entry := z.flatMap fun p => entriesOfNode p.1 p.2

/-- fold `txn.add` over a list of records -/
def addAll (eff : Option Name) : ZoneMap → List Entry → RM ZoneMap
  | z, [] => .ok z
  | z, e :: rest =>
    match addEntry z eff e with
    | .ok z' => addAll eff z' rest
    | .error err => .error err

theorem addAll_append (eff : Option Name) (z : ZoneMap) (a b : List Entry) :
    addAll eff z (a ++ b) = (addAll eff z a).bind fun z' => addAll eff z' b := by
  induction a generalizing z with
  | nil => rfl
  | cons e r ih =>
    simp only [List.cons_append, addAll]
    cases addEntry z eff e with
    | error err => rfl
    | ok z' => exact ih z'

/-! ## well-formed zones -/

def RdatasetWF (rds : Rdataset) : Prop :=
  rds.rrs ≠ [] ∧
  rds.rrs.Pairwise (fun a b => (rdKey a.rd == rdKey b.rd) = false) ∧
  (Consts.singletons.contains rds.rdtype = true → rds.rrs.length = 1)

def NodeWF (nd : Node) : Prop :=
  nd ≠ [] ∧ (∀ r ∈ nd, RdatasetWF r) ∧ nd.Pairwise (fun a b => a.rdtype ≠ b.rdtype) ∧ NodeOK nd

def ZoneWF (eff : Option Name) (z : ZoneMap) : Prop :=
  (∀ p ∈ z, NodeWF p.2) ∧
  z.Pairwise (fun p q => nameEq p.1 q.1 = false) ∧
  (∀ p ∈ z, ∀ r ∈ p.2, soaElsewhere eff p.1 r.rdtype = false)

/-! ## lookups in a zone whose last node is the one being built -/

theorem zoneFind_last (pre : ZoneMap) (name : Name) (nd : Node)
    (hpre : ∀ p ∈ pre, nameEq p.1 name = false) : zoneFind (pre ++ [(name, nd)]) name = some nd := by
  unfold zoneFind
  rw [List.find?_append]
  have : pre.find? (fun p => nameEq p.1 name) = none := by
    rw [List.find?_eq_none]; intro p hp; simp [hpre p hp]
  simp [this, nameEq_refl]

theorem zoneFind_absent (pre : ZoneMap) (name : Name)
    (hpre : ∀ p ∈ pre, nameEq p.1 name = false) : zoneFind pre name = none := by
  unfold zoneFind
  have : pre.find? (fun p => nameEq p.1 name) = none := by
    rw [List.find?_eq_none]; intro p hp; simp [hpre p hp]
  simp [this]

theorem zonePut_last (pre : ZoneMap) (name : Name) (nd nd' : Node)
    (hpre : ∀ p ∈ pre, nameEq p.1 name = false) :
    zonePut (pre ++ [(name, nd)]) name nd' = pre ++ [(name, nd')] := by
  unfold zonePut
  have hany : (pre ++ [(name, nd)]).any (fun p => nameEq p.1 name) = true := by
    simp [nameEq_refl]
  simp only [hany, if_true, List.map_append, List.map_cons, List.map_nil, nameEq_refl]
  congr 1
  rw [List.map_congr_left (g := id)]
  · simp
  · intro p hp; simp [hpre p hp]

theorem zonePut_absent (pre : ZoneMap) (name : Name) (nd' : Node)
    (hpre : ∀ p ∈ pre, nameEq p.1 name = false) :
    zonePut pre name nd' = pre ++ [(name, nd')] := by
  unfold zonePut
  have hany : pre.any (fun p => nameEq p.1 name) = false := by
    rw [List.any_eq_false]; intro p hp; simp [hpre p hp]
  simp [hany]

/-! ## `Node.classify` and the CNAME check on a well-formed node -/

theorem classifyNode_mem (nd : Node) (k : NodeKind) (hk : k ≠ .neutral) (h : classifyNode nd = k) :
    ∃ r ∈ nd, classifyType r.rdtype = k := by
  induction nd with
  | nil => simp [classifyNode] at h; exact absurd h.symm hk
  | cons a as ih =>
    unfold classifyNode at h
    split at h
    · obtain ⟨r, hr, hrk⟩ := ih h
      exact ⟨r, by simp [hr], hrk⟩
    · rename_i k' hk'
      exact ⟨a, by simp, by rw [← h]⟩

/-- no CNAME conflict arises while a sub-list `cur` of a conflict-free node `nd` receives a type of `nd` -/
theorem cnameConflict_false (nd cur : Node) (ty : Nat) (hok : NodeOK nd)
    (hsub : ∀ r ∈ cur, ∃ r' ∈ nd, r'.rdtype = r.rdtype) (hty : ∃ r' ∈ nd, r'.rdtype = ty) :
    cnameConflict (some cur) ty = false := by
  unfold cnameConflict
  simp only
  obtain ⟨t, ht, hte⟩ := hty
  cases hk : classifyNode cur with
  | neutral => simp
  | cname =>
    obtain ⟨r, hr, hrk⟩ := classifyNode_mem cur .cname (by simp) hk
    obtain ⟨r', hr', hre⟩ := hsub r hr
    cases hrk2 : classifyType ty with
    | regular =>
      exfalso
      exact hok ⟨⟨r', hr', by rw [hre]; exact hrk⟩, ⟨t, ht, by rw [hte]; exact hrk2⟩⟩
    | _ => simp
  | regular =>
    obtain ⟨r, hr, hrk⟩ := classifyNode_mem cur .regular (by simp) hk
    obtain ⟨r', hr', hre⟩ := hsub r hr
    cases hrk2 : classifyType ty with
    | cname =>
      exfalso
      exact hok ⟨⟨t, ht, by rw [hte]; exact hrk2⟩, ⟨r', hr', by rw [hre]; exact hrk⟩⟩
    | _ => simp

theorem filter_eq_self_of {α} (l : List α) (p : α → Bool) (h : ∀ a ∈ l, p a = true) : l.filter p = l :=
  List.filter_eq_self.mpr h

/-- `replace_rdataset` on `cur ++ [old]` (or on `cur`) where `cur` has no rdataset of the type and no CNAME
conflict with it: the new rdataset ends up last, everything else stays -/
theorem nodeReplace_append (nd cur : Node) (old : List Rdataset) (rds : Rdataset) (hok : NodeOK nd)
    (hsub : ∀ r ∈ cur, ∃ r' ∈ nd, r'.rdtype = r.rdtype) (hty : ∃ r' ∈ nd, r'.rdtype = rds.rdtype)
    (hcur : ∀ r ∈ cur, r.rdtype ≠ rds.rdtype) (hold : ∀ r ∈ old, r.rdtype = rds.rdtype) :
    nodeReplace (cur ++ old) rds = cur ++ [rds] := by
  unfold nodeReplace
  have h1 : (cur ++ old).filter (fun r => decide (r.rdtype ≠ rds.rdtype)) = cur := by
    rw [List.filter_append, filter_eq_self_of cur _ (fun r hr => by simpa using hcur r hr)]
    have : old.filter (fun r => decide (r.rdtype ≠ rds.rdtype)) = [] := by
      rw [List.filter_eq_nil_iff]; intro r hr; simpa using hold r hr
    rw [this]; simp
  simp only [h1]
  obtain ⟨t, ht, hte⟩ := hty
  by_cases hc : cur = []
  · simp [hc]
  · simp only [hc, if_false]
    cases hk : classifyType rds.rdtype with
    | neutral => rfl
    | cname =>
      simp only
      rw [filter_eq_self_of]
      intro r hr
      obtain ⟨r', hr', hre⟩ := hsub r hr
      cases hrk : classifyType r.rdtype with
      | regular =>
        exfalso
        exact hok ⟨⟨t, ht, by rw [hte]; exact hk⟩, ⟨r', hr', by rw [hre]; exact hrk⟩⟩
      | _ => simp
    | regular =>
      simp only
      rw [filter_eq_self_of]
      intro r hr
      obtain ⟨r', hr', hre⟩ := hsub r hr
      cases hrk : classifyType r.rdtype with
      | cname =>
        exfalso
        exact hok ⟨⟨r', hr', by rw [hre]; exact hrk⟩, ⟨t, ht, by rw [hte]; exact hk⟩⟩
      | _ => simp

/-! ## adding the records of one rdataset -/

/-- the part of the zone list that holds the node under construction (absent while it is still empty) -/
def nodeEntry (name : Name) (cur : Node) : ZoneMap := if cur = [] then [] else [(name, cur)]

theorem find_type_none (cur : Node) (ty : Nat) (h : ∀ r ∈ cur, r.rdtype ≠ ty) :
    cur.find? (fun r => decide (r.rdtype = ty)) = none := by
  rw [List.find?_eq_none]; intro r hr; simpa using h r hr

theorem find_type_last (cur : Node) (old : Rdataset) (h : ∀ r ∈ cur, r.rdtype ≠ old.rdtype) :
    (cur ++ [old]).find? (fun r => decide (r.rdtype = old.rdtype)) = some old := by
  rw [List.find?_append, find_type_none cur _ h]; simp

/-- first record of an rdataset whose type the node does not hold yet -/
theorem zoneAdd_first (eff : Option Name) (pre : ZoneMap) (name : Name) (nd cur : Node) (ty ttl : Nat) (rr : RR)
    (hpre : ∀ p ∈ pre, nameEq p.1 name = false) (hok : NodeOK nd)
    (hsub : ∀ r ∈ cur, ∃ r' ∈ nd, r'.rdtype = r.rdtype) (hty : ∃ r' ∈ nd, r'.rdtype = ty)
    (hcur : ∀ r ∈ cur, r.rdtype ≠ ty) (hsoa : soaElsewhere eff name ty = false) :
    zoneAdd (pre ++ nodeEntry name cur) eff name ttl ty rr = .ok (pre ++ [(name, cur ++ [⟨ty, ttl, [rr]⟩])]) := by
  unfold zoneAdd
  simp only [hsoa, Bool.false_eq_true, if_false]
  by_cases hc : cur = []
  · subst hc
    simp only [nodeEntry, if_true, List.append_nil, zoneFind_absent pre name hpre]
    simp [cnameConflict, rdsUnion, nodeReplace, zonePut_absent pre name _ hpre]
  · simp only [nodeEntry, hc, if_false, zoneFind_last pre name cur hpre]
    rw [cnameConflict_false nd cur ty hok hsub hty]
    simp only [Bool.false_eq_true, if_false, Option.bind_some, find_type_none cur ty hcur, rdsUnion, Option.getD_some]
    have := nodeReplace_append nd cur [] ⟨ty, ttl, [rr]⟩ hok hsub hty hcur (by simp)
    simp only [List.append_nil] at this
    rw [this, zonePut_last pre name cur _ hpre]

/-- a further record of the rdataset that is being built (last in the node) -/
theorem zoneAdd_more (eff : Option Name) (pre : ZoneMap) (name : Name) (nd cur : Node) (ty ttl : Nat)
    (done : List RR) (rr : RR)
    (hpre : ∀ p ∈ pre, nameEq p.1 name = false) (hok : NodeOK nd)
    (hsub : ∀ r ∈ cur, ∃ r' ∈ nd, r'.rdtype = r.rdtype) (hty : ∃ r' ∈ nd, r'.rdtype = ty)
    (hcur : ∀ r ∈ cur, r.rdtype ≠ ty) (hsoa : soaElsewhere eff name ty = false)
    (hdone : done ≠ []) (hsing : Consts.singletons.contains ty = false)
    (hnew : ∀ x ∈ done, (rdKey x.rd == rdKey rr.rd) = false) :
    zoneAdd (pre ++ [(name, cur ++ [⟨ty, ttl, done⟩])]) eff name ttl ty rr =
      .ok (pre ++ [(name, cur ++ [⟨ty, ttl, done ++ [rr]⟩])]) := by
  unfold zoneAdd
  simp only [hsoa, Bool.false_eq_true, if_false, zoneFind_last pre name _ hpre]
  have hsub' : ∀ r ∈ cur ++ [(⟨ty, ttl, done⟩ : Rdataset)], ∃ r' ∈ nd, r'.rdtype = r.rdtype := by
    intro r hr
    simp only [List.mem_append, List.mem_singleton] at hr
    rcases hr with hr | hr
    · exact hsub r hr
    · subst hr; exact hty
  rw [cnameConflict_false nd _ ty hok hsub' hty]
  simp only [Bool.false_eq_true, if_false, Option.bind_some, Option.getD_some]
  have hf := find_type_last cur ⟨ty, ttl, done⟩ (by simpa using hcur)
  simp only at hf
  rw [hf]
  have hany : done.any (fun x => rdKey x.rd == rdKey rr.rd) = false := by
    rw [List.any_eq_false]; intro x hx; simp [hnew x hx]
  simp only [rdsUnion, hdone, if_false, Nat.lt_irrefl, hsing, Bool.false_eq_true, false_and, hany]
  have := nodeReplace_append nd cur [⟨ty, ttl, done⟩] ⟨ty, ttl, done ++ [rr]⟩ hok hsub hty hcur (by simp)
  rw [this, zonePut_last pre name _ _ hpre]

theorem addAll_more (eff : Option Name) (pre : ZoneMap) (name : Name) (nd cur : Node) (ty ttl : Nat)
    (done more : List RR)
    (hpre : ∀ p ∈ pre, nameEq p.1 name = false) (hok : NodeOK nd)
    (hsub : ∀ r ∈ cur, ∃ r' ∈ nd, r'.rdtype = r.rdtype) (hty : ∃ r' ∈ nd, r'.rdtype = ty)
    (hcur : ∀ r ∈ cur, r.rdtype ≠ ty) (hsoa : soaElsewhere eff name ty = false)
    (hdone : done ≠ []) (hsing : more ≠ [] → Consts.singletons.contains ty = false)
    (hpw : (done ++ more).Pairwise (fun a b => (rdKey a.rd == rdKey b.rd) = false)) :
    addAll eff (pre ++ [(name, cur ++ [⟨ty, ttl, done⟩])]) (more.map fun rr => ⟨name, ttl, ty, rr⟩) =
      .ok (pre ++ [(name, cur ++ [⟨ty, ttl, done ++ more⟩])]) := by
  induction more generalizing done with
  | nil => simp [addAll]
  | cons rr rest ih =>
    have hs := hsing (by simp)
    have hnew : ∀ x ∈ done, (rdKey x.rd == rdKey rr.rd) = false := by
      intro x hx
      rw [List.pairwise_append] at hpw
      exact hpw.2.2 x hx rr (by simp)
    simp only [List.map_cons, addAll, addEntry]
    rw [zoneAdd_more eff pre name nd cur ty ttl done rr hpre hok hsub hty hcur hsoa hdone hs hnew]
    simp only
    have := ih (done ++ [rr]) (by simp) (fun _ => hs) (by simpa [List.append_assoc] using hpw)
    simpa [List.append_assoc] using this

/-- all records of one well-formed rdataset -/
theorem addAll_rdataset (eff : Option Name) (pre : ZoneMap) (name : Name) (nd cur : Node) (rds : Rdataset)
    (hpre : ∀ p ∈ pre, nameEq p.1 name = false) (hok : NodeOK nd)
    (hsub : ∀ r ∈ cur, ∃ r' ∈ nd, r'.rdtype = r.rdtype) (hmem : rds ∈ nd)
    (hcur : ∀ r ∈ cur, r.rdtype ≠ rds.rdtype) (hsoa : soaElsewhere eff name rds.rdtype = false)
    (hwf : RdatasetWF rds) :
    addAll eff (pre ++ nodeEntry name cur) (entriesOfRdataset name rds) = .ok (pre ++ [(name, cur ++ [rds])]) := by
  obtain ⟨ty, ttl, rrs⟩ := rds
  obtain ⟨hne, hpw, hsing⟩ := hwf
  simp only at hne hpw hsing hcur hsoa
  cases rrs with
  | nil => exact absurd rfl hne
  | cons rr more =>
    have hty : ∃ r' ∈ nd, r'.rdtype = ty := ⟨_, hmem, rfl⟩
    simp only [entriesOfRdataset, List.map_cons, addAll, addEntry]
    rw [zoneAdd_first eff pre name nd cur ty ttl rr hpre hok hsub hty hcur hsoa]
    simp only
    have hs : more ≠ [] → Consts.singletons.contains ty = false := by
      intro hm
      cases hc : Consts.singletons.contains ty with
      | false => rfl
      | true =>
        have := hsing hc
        simp at this
        exact absurd this hm
    have := addAll_more eff pre name nd cur ty ttl [rr] more hpre hok hsub hty hcur hsoa (by simp) hs
      (by simpa using hpw)
    simpa using this

/-! ## whole nodes and whole zones -/

theorem nodeEntry_ne (name : Name) (cur : Node) (h : cur ≠ []) : nodeEntry name cur = [(name, cur)] := by
  simp [nodeEntry, h]

theorem addAll_node (eff : Option Name) (pre : ZoneMap) (name : Name) (nd cur rem : Node)
    (hpre : ∀ p ∈ pre, nameEq p.1 name = false) (hnd : nd = cur ++ rem)
    (hwf : ∀ r ∈ nd, RdatasetWF r) (hpw : nd.Pairwise (fun a b => a.rdtype ≠ b.rdtype)) (hok : NodeOK nd)
    (hsoa : ∀ r ∈ nd, soaElsewhere eff name r.rdtype = false) :
    addAll eff (pre ++ nodeEntry name cur) (entriesOfNode name rem) = .ok (pre ++ nodeEntry name (cur ++ rem)) := by
  induction rem generalizing cur with
  | nil => simp [entriesOfNode, addAll]
  | cons rds rest ih =>
    have hmem : rds ∈ nd := by rw [hnd]; simp
    have hsub : ∀ r ∈ cur, ∃ r' ∈ nd, r'.rdtype = r.rdtype := fun r hr => ⟨r, by rw [hnd]; simp [hr], rfl⟩
    have hcur : ∀ r ∈ cur, r.rdtype ≠ rds.rdtype := by
      intro r hr
      rw [hnd, List.pairwise_append] at hpw
      exact hpw.2.2 r hr rds (by simp)
    simp only [entriesOfNode, List.flatMap_cons]
    rw [addAll_append, addAll_rdataset eff pre name nd cur rds hpre hok hsub hmem hcur (hsoa rds hmem) (hwf rds hmem)]
    simp only [Except.bind]
    have := ih (cur ++ [rds]) (by rw [hnd]; simp)
    rw [nodeEntry_ne name (cur ++ [rds]) (by simp)] at this
    simpa [entriesOfNode, List.append_assoc] using this

theorem addAll_zone (eff : Option Name) (pre rem : ZoneMap) (hwf : ZoneWF eff (pre ++ rem)) :
    addAll eff pre (entriesOfZone rem) = .ok (pre ++ rem) := by
  induction rem generalizing pre with
  | nil => simp [entriesOfZone, addAll]
  | cons p rest ih =>
    obtain ⟨name, nd⟩ := p
    obtain ⟨h1, h2, h3⟩ := hwf
    have hmem : (name, nd) ∈ pre ++ (name, nd) :: rest := by simp
    obtain ⟨hne, hrw, hpw, hok⟩ := h1 (name, nd) hmem
    have hpre : ∀ q ∈ pre, nameEq q.1 name = false := by
      intro q hq
      rw [List.pairwise_append] at h2
      exact h2.2.2 q hq (name, nd) (by simp)
    simp only [entriesOfZone, List.flatMap_cons]
    rw [addAll_append]
    have hn := addAll_node eff pre name nd [] nd hpre (by simp) hrw hpw hok (fun r hr => h3 (name, nd) hmem r hr)
    simp only [nodeEntry, if_true, List.append_nil, List.nil_append] at hn
    rw [hn]
    simp only [Except.bind, hne, if_false]
    have hwf' : ZoneWF eff ((pre ++ [(name, nd)]) ++ rest) := by
      have e : (pre ++ [(name, nd)]) ++ rest = pre ++ (name, nd) :: rest := by simp
      rw [e]; exact ⟨h1, h2, h3⟩
    have := ih (pre ++ [(name, nd)]) hwf'
    simpa [entriesOfZone, List.append_assoc] using this

/-- **a well-formed zone is rebuilt exactly from its own records** -/
theorem addAll_rebuild (eff : Option Name) (z : ZoneMap) (hwf : ZoneWF eff z) :
    addAll eff [] (entriesOfZone z) = .ok z := by
  simpa using addAll_zone eff [] z (by simpa using hwf)

end Model

import Proofs.ParseMessageOpt
/-! Dynamic update messages: the delete / prerequisite forms round-trip through the ANY / NONE classes. -/
namespace Model

variable {Rs : RelSpec}

/-- `parseRR_of_rrExt` for either kind of message: whatever `_parse_rr_header` makes of the wire class -/
theorem parseRR_of_rrExt_gen (cfg : PCfg) (horg : cfg.origin = none) (upd : Bool) (A post : Bytes) (t : CTable)
    (owner : Name) (rdtype rdclass ttl : Nat) (rd : RData) (q : Bytes × CTable) (sec count i : Nat) (st : PState)
    (rdclass' : Nat) (deleting' : Option Nat)
    (hhdr : parseRRHeader upd st.q sec rdclass rdtype = .ok (rdclass', deleting', false))
    (hcur : st.cur = A.length) (hs : TableSound Rs.R A t) (hown : NameOk Rs none owner) (hv : rd.valid Rs)
    (hshape : shapeOf rdtype = rd.shape) (ht : rdtype < 65536) (hc : rdclass < 65536)
    (httl : ttl ≤ ConstsC03.ttlClampAbove) (hns : rdtype ≠ ConstsC03.typeOPT ∧ rdtype ≠ ConstsC03.typeTSIG)
    (h : rrExt owner rdtype rdclass ttl none A.length t rd = .ok q) :
    ∃ owner' rd', Rs.R owner' owner ∧ rd'.sim Rs rd ∧
      parseRR cfg upd (A ++ q.1 ++ post) sec count i st =
        .ok ({ st with cur := A.length + q.1.length }.setSection sec
          (sectionAdd (st.section sec) owner' rdclass' rdtype (rdCovers rdtype rd') deleting' (cfg.oneRRPerRRset || upd)
            (some (rd', ttl)))) := by
  obtain ⟨qe, qn⟩ := q
  unfold rrExt at h
  cases h1 : nameExt A.length t owner none with
  | none => rw [h1] at h; simp at h
  | some q1 =>
    rw [h1] at h; simp only at h
    cases h3 : rdataExt (A.length + q1.1.length + 10) (t ++ q1.2) none rd with
    | none => rw [h3] at h; simp at h
    | some q3 =>
      rw [h3] at h; simp only at h
      by_cases hbig : q3.1.length > 65535
      · simp [hbig] at h
      · simp only [hbig, if_false] at h
        cases h
        have hblen : q3.1.length < 65536 := by omega
        -- the owner
        obtain ⟨s1, hat, hwf⟩ := nameExt_at A t owner q1 hown hs h1
        -- the buffer in its various bracketings
        let hdr := u16 rdtype ++ u16 rdclass ++ u32 ttl ++ u16 q3.1.length
        have hhdr : hdr.length = 10 := by simp [hdr, u16, u32]
        have hW1 : A ++ (q1.1 ++ u16 rdtype ++ u16 rdclass ++ u32 ttl ++ u16 q3.1.length ++ q3.1) ++ post
            = (A ++ q1.1) ++ (hdr ++ q3.1 ++ post) := by simp [hdr, List.append_assoc]
        have hW2 : A ++ (q1.1 ++ u16 rdtype ++ u16 rdclass ++ u32 ttl ++ u16 q3.1.length ++ q3.1) ++ post
            = (A ++ q1.1 ++ hdr) ++ q3.1 ++ post := by simp [hdr, List.append_assoc]
        have hlW : (A ++ (q1.1 ++ u16 rdtype ++ u16 rdclass ++ u32 ttl ++ u16 q3.1.length ++ q3.1) ++ post).length
            = A.length + q1.1.length + 10 + q3.1.length + post.length := by
          rw [hW2]; simp [hhdr]; omega
        have hat' := hat.mono (hdr ++ q3.1 ++ post)
        rw [← hW1] at hat'
        obtain ⟨owner', hg, hown'⟩ := getName_of_NameAt hat' hwf _ (by rw [hlW]; omega) (Nat.le_refl _)
        -- the RDATA
        have hlA' : (A ++ q1.1 ++ hdr).length = A.length + q1.1.length + 10 := by simp [hhdr]; omega
        obtain ⟨rd', hprd, hsim⟩ := rdataExt_parse (A ++ q1.1 ++ hdr) (t ++ q1.2) rd q3 post rdtype hshape hv
          (s1.mono hdr) (by rw [hlA']; exact h3)
        rw [← hW2, hlA'] at hprd
        refine ⟨owner', rd', hown', hsim, ?_⟩
        -- the ten fixed octets
        have st1 : slice (A ++ (q1.1 ++ u16 rdtype ++ u16 rdclass ++ u32 ttl ++ u16 q3.1.length ++ q3.1) ++ post)
            (A.length + q1.1.length) 2 = u16 rdtype :=
          slice_at _ (A ++ q1.1) (u16 rdtype) (u16 rdclass ++ u32 ttl ++ u16 q3.1.length ++ q3.1 ++ post)
            (by simp [List.append_assoc]) _ _ (by simp) rfl
        have st2 : slice (A ++ (q1.1 ++ u16 rdtype ++ u16 rdclass ++ u32 ttl ++ u16 q3.1.length ++ q3.1) ++ post)
            (A.length + q1.1.length + 2) 2 = u16 rdclass :=
          slice_at _ (A ++ q1.1 ++ u16 rdtype) (u16 rdclass) (u32 ttl ++ u16 q3.1.length ++ q3.1 ++ post)
            (by simp [List.append_assoc]) _ _ (by simp [u16]; omega) rfl
        have st3 : slice (A ++ (q1.1 ++ u16 rdtype ++ u16 rdclass ++ u32 ttl ++ u16 q3.1.length ++ q3.1) ++ post)
            (A.length + q1.1.length + 4) 4 = u32 ttl :=
          slice_at _ (A ++ q1.1 ++ u16 rdtype ++ u16 rdclass) (u32 ttl) (u16 q3.1.length ++ q3.1 ++ post)
            (by simp [List.append_assoc]) _ _ (by simp [u16]; omega) rfl
        have st4 : slice (A ++ (q1.1 ++ u16 rdtype ++ u16 rdclass ++ u32 ttl ++ u16 q3.1.length ++ q3.1) ++ post)
            (A.length + q1.1.length + 8) 2 = u16 q3.1.length :=
          slice_at _ (A ++ q1.1 ++ u16 rdtype ++ u16 rdclass ++ u32 ttl) (u16 q3.1.length) (q3.1 ++ post)
            (by simp [List.append_assoc]) _ _ (by simp [u16, u32]; omega) rfl
        have httl' : ttl < 4294967296 := by have := ttlClamp_lt; omega
        unfold parseRR
        rw [hcur, hg]
        simp only [horg]
        have c10 : ¬ ((A ++ (q1.1 ++ u16 rdtype ++ u16 rdclass ++ u32 ttl ++ u16 q3.1.length ++ q3.1) ++ post).length
            - (A.length + q1.1.length) < 10) := by rw [hlW]; omega
        simp only [c10, if_false, st1, st2, st3, st4, beVal_u16 rdtype ht, beVal_u16 rdclass hc, beVal_u32 ttl httl',
          beVal_u16 _ hblen]
        have hsp : ¬ (rdtype = ConstsC03.typeOPT ∨ rdtype = ConstsC03.typeTSIG) := by
          intro hh; rcases hh with hh | hh
          · exact hns.1 hh
          · exact hns.2 hh
        have hhdr' := ‹parseRRHeader upd st.q sec rdclass rdtype = Except.ok (rdclass', deleting', false)›
        simp only [hsp, if_false, hhdr', Bool.false_eq_true]
        have clen : ¬ (q3.1.length > (A ++ (q1.1 ++ u16 rdtype ++ u16 rdclass ++ u32 ttl ++ u16 q3.1.length ++ q3.1) ++ post).length
            - (A.length + q1.1.length + 10)) := by rw [hlW]; omega
        simp only [clen, if_false, hns.1, hns.2, hprd]
        have hclamp : ¬ ttl > ConstsC03.ttlClampAbove := by omega
        simp only [hclamp, if_false]
        have hfin : A.length + (q1.1 ++ u16 rdtype ++ u16 rdclass ++ u32 ttl ++ u16 q3.1.length ++ q3.1).length
            = A.length + q1.1.length + 10 + q3.1.length := by simp [u16, u32]; omega
        rw [hfin]


end Model

namespace Model

variable {Rs : RelSpec}

theorem sectionAdd_force_none (L : List RRset) (name : Name) (rdclass rdtype covers : Nat) (d : Option Nat) :
    sectionAdd L name rdclass rdtype covers d true none =
      L ++ [{ name := name, rdclass := rdclass, rdtype := rdtype, covers := covers, deleting := d }] := by
  simp [sectionAdd]

theorem sectionAdd_force_some (L : List RRset) (name : Name) (rdclass rdtype covers : Nat) (d : Option Nat)
    (rd : RData) (ttl : Nat) :
    sectionAdd L name rdclass rdtype covers d true (some (rd, ttl)) =
      L ++ [{ name := name, rdclass := rdclass, rdtype := rdtype, covers := covers, deleting := d, ttl := ttl,
              rdatas := [rd] }] := by
  simp [sectionAdd, rrsetAdd]

theorem q_setSection (st : PState) (sec : Nat) (l : List RRset) (h : sec ≠ 0) : (st.setSection sec l).q = st.q := by
  unfold PState.setSection
  simp only [h, if_false]
  split
  · rfl
  · split <;> rfl

theorem optTsig_setSection (st : PState) (sec : Nat) (l : List RRset) :
    (st.setSection sec l).opt = st.opt ∧ (st.setSection sec l).tsig = st.tsig := by
  unfold PState.setSection
  split
  · exact ⟨rfl, rfl⟩
  · split
    · exact ⟨rfl, rfl⟩
    · split <;> exact ⟨rfl, rfl⟩

/-- a class/type-only record (RDLENGTH 0) of an update message: delete-rrset, delete-name, "absent"/"present" forms -/
theorem parseRR_empty (cfg : PCfg) (horg : cfg.origin = none) (A post : Bytes) (t : CTable) (r : RRset)
    (q : Bytes × CTable × Nat) (sec count i : Nat) (st : PState) (zc cls : Nat)
    (hhdr : parseRRHeader true st.q sec cls r.rdtype = .ok (zc, some cls, true))
    (hcur : st.cur = A.length) (hs : TableSound Rs.R A t) (hown : NameOk Rs none r.name) (ht : r.rdtype < 65536)
    (hns : r.rdtype ≠ ConstsC03.typeOPT ∧ r.rdtype ≠ ConstsC03.typeTSIG) (hrd : r.rdatas = [])
    (hdel : r.deleting = some cls) (hcls : cls < 65536)
    (h : rrsetExt A.length t none r = .ok q) :
    ∃ owner', Rs.R owner' r.name ∧
      parseRR cfg true (A ++ q.1 ++ post) sec count i st =
        .ok (({ st with cur := A.length + q.1.length } : PState).setSection sec
          (st.section sec ++ [{ name := owner', rdclass := zc, rdtype := r.rdtype, covers := 0, deleting := some cls }]))
      ∧ TableSound Rs.R (A ++ q.1) (t ++ q.2.1) ∧ q.2.2 = 1 := by
  obtain ⟨qe, qn, qk⟩ := q
  have hok : r.namesOk Rs none := ⟨hown, by intro rd hrd'; rw [hrd] at hrd'; simp at hrd'⟩
  have hsnd := rrsetExt_sound A t none r (qe, qn, qk) hok hs h
  unfold rrsetExt at h
  have hwc : r.wireClass = cls := by simp [RRset.wireClass, hdel]
  simp only [hrd, List.length_nil, if_true, hwc] at h
  cases h1 : nameExt A.length t r.name none with
  | none => rw [h1] at h; simp at h
  | some q1 =>
    rw [h1] at h; simp only at h; cases h
    obtain ⟨_, hat, hwf⟩ := nameExt_at A t r.name q1 hown hs h1
    have hW1 : A ++ (q1.1 ++ u16 r.rdtype ++ u16 cls ++ u32 0 ++ u16 0) ++ post
        = (A ++ q1.1) ++ (u16 r.rdtype ++ u16 cls ++ u32 0 ++ u16 0 ++ post) := by simp [List.append_assoc]
    have hlW : (A ++ (q1.1 ++ u16 r.rdtype ++ u16 cls ++ u32 0 ++ u16 0) ++ post).length
        = A.length + q1.1.length + 10 + post.length := by simp [u16, u32]; omega
    have hat' := hat.mono (u16 r.rdtype ++ u16 cls ++ u32 0 ++ u16 0 ++ post)
    rw [← hW1] at hat'
    obtain ⟨owner', hg, hown'⟩ := getName_of_NameAt hat' hwf _ (by rw [hlW]; omega) (Nat.le_refl _)
    refine ⟨owner', hown', ?_, by simpa using hsnd, rfl⟩
    have st1 : slice (A ++ (q1.1 ++ u16 r.rdtype ++ u16 cls ++ u32 0 ++ u16 0) ++ post) (A.length + q1.1.length) 2 = u16 r.rdtype :=
      slice_at _ (A ++ q1.1) _ (u16 cls ++ u32 0 ++ u16 0 ++ post) (by simp [List.append_assoc]) _ _ (by simp) rfl
    have st2 : slice (A ++ (q1.1 ++ u16 r.rdtype ++ u16 cls ++ u32 0 ++ u16 0) ++ post) (A.length + q1.1.length + 2) 2 = u16 cls :=
      slice_at _ (A ++ q1.1 ++ u16 r.rdtype) _ (u32 0 ++ u16 0 ++ post) (by simp [List.append_assoc]) _ _ (by simp [u16]; omega) rfl
    have st3 : slice (A ++ (q1.1 ++ u16 r.rdtype ++ u16 cls ++ u32 0 ++ u16 0) ++ post) (A.length + q1.1.length + 4) 4 = u32 0 :=
      slice_at _ (A ++ q1.1 ++ u16 r.rdtype ++ u16 cls) _ (u16 0 ++ post) (by simp [List.append_assoc]) _ _ (by simp [u16]; omega) rfl
    have st4 : slice (A ++ (q1.1 ++ u16 r.rdtype ++ u16 cls ++ u32 0 ++ u16 0) ++ post) (A.length + q1.1.length + 8) 2 = u16 0 :=
      slice_at _ (A ++ q1.1 ++ u16 r.rdtype ++ u16 cls ++ u32 0) _ post (by simp [List.append_assoc]) _ _ (by simp [u16, u32]; omega) rfl
    unfold parseRR
    rw [hcur, hg]
    simp only [horg]
    have c10 : ¬ ((A ++ (q1.1 ++ u16 r.rdtype ++ u16 cls ++ u32 0 ++ u16 0) ++ post).length - (A.length + q1.1.length) < 10) := by
      rw [hlW]; omega
    simp only [c10, if_false, st1, st2, st3, st4, beVal_u16 _ ht, beVal_u16 _ hcls, beVal_u32 0 (by omega),
      beVal_u16 0 (by omega)]
    have hsp : ¬ (r.rdtype = ConstsC03.typeOPT ∨ r.rdtype = ConstsC03.typeTSIG) := by
      intro hh; rcases hh with hh | hh
      · exact hns.1 hh
      · exact hns.2 hh
    simp only [hsp, if_false, hhdr, if_true, Nat.lt_irrefl, gt_iff_lt, Bool.or_true, sectionAdd_force_none]
    have hfin : A.length + (q1.1 ++ u16 r.rdtype ++ u16 cls ++ u32 0 ++ u16 0).length = A.length + q1.1.length + 10 := by
      simp [u16, u32]; omega
    rw [hfin]

end Model

namespace Model

variable {Rs : RelSpec}

/-- a record set of an update message in the representation the parser produces (`deleting` carries a wire class of
ANY/NONE, the RRset itself has the zone's class), one record (or one class/type-only record) per record set -/
structure URRsetOk (Rs : RelSpec) (zc sec : Nat) (r : RRset) : Prop where
  name : NameOk Rs none r.name
  rdtype : r.rdtype < 65536
  notSpecial : r.rdtype ≠ ConstsC03.typeOPT ∧ r.rdtype ≠ ConstsC03.typeTSIG
  form :
    (∃ rd, r.rdatas = [rd] ∧ rd.valid Rs ∧ shapeOf r.rdtype = rd.shape ∧ rdCovers r.rdtype rd = r.covers ∧
        r.ttl ≤ ConstsC03.ttlClampAbove ∧
        ((r.deleting = none ∧ r.rdclass < 65536 ∧ r.rdclass ≠ ConstsC03.classANY ∧ r.rdclass ≠ ConstsC03.classNONE) ∨
         (r.deleting = some ConstsC03.classNONE ∧ r.rdclass = zc ∧ sec ≠ 1)))
    ∨ (r.rdatas = [] ∧ r.ttl = 0 ∧ r.covers = 0 ∧ r.rdclass = zc ∧
        (r.deleting = some ConstsC03.classANY ∨ (r.deleting = some ConstsC03.classNONE ∧ sec = 1)))

theorem class_consts : ConstsC03.classANY = 255 ∧ ConstsC03.classNONE = 254 := by decide

/-- one record set (= one record) of an update message -/
theorem parseRR_urrset (cfg : PCfg) (horg : cfg.origin = none) (zc sec : Nat) (hsec : sec ≠ 0) (r : RRset)
    (hr : URRsetOk Rs zc sec r) (A post : Bytes) (t : CTable) (q : Bytes × CTable × Nat) (count i : Nat) (st : PState)
    (z : RRset) (hq : st.q = [z]) (hz : z.rdclass = zc) (hcur : st.cur = A.length) (hs : TableSound Rs.R A t)
    (h : rrsetExt A.length t none r = .ok q) :
    ∃ r', r'.sim Rs r ∧
      parseRR cfg true (A ++ q.1 ++ post) sec count i st =
        .ok (({ st with cur := A.length + q.1.length } : PState).setSection sec (st.section sec ++ [r']))
      ∧ TableSound Rs.R (A ++ q.1) (t ++ q.2.1) ∧ q.2.2 = 1 := by
  obtain ⟨cany, cnone⟩ := class_consts
  rcases hr.form with ⟨rd, hrd, hv, hshape, hcov, httl, hcl⟩ | ⟨hrd, httl, hcov, hrc, hdel⟩
  · -- a record
    have hok : r.namesOk Rs none := ⟨hr.name, by intro x hx; rw [hrd] at hx; simp at hx; subst hx; exact RData.valid_namesOk hv⟩
    have hsnd := rrsetExt_sound A t none r q hok hs h
    obtain ⟨qe, qn, qk⟩ := q
    unfold rrsetExt at h
    simp only [hrd, List.length_cons, List.length_nil] at h
    simp only [show ¬ (0 + 1 = 0) by omega, if_false, rdsExt] at h
    cases h1 : rrExt r.name r.rdtype r.wireClass r.ttl none A.length t rd with
    | error e => rw [h1] at h; simp at h
    | ok q1 =>
      rw [h1] at h; simp only at h; cases h
      have hwcl : r.wireClass < 65536 ∧ ∃ rc' d', parseRRHeader true st.q sec r.wireClass r.rdtype = .ok (rc', d', false) ∧
          rc' = r.rdclass ∧ d' = r.deleting := by
        rcases hcl with ⟨hd, hc1, hc2, hc3⟩ | ⟨hd, hc1, hc2⟩
        · have : r.wireClass = r.rdclass := by simp [RRset.wireClass, hd]
          rw [this]
          refine ⟨hc1, r.rdclass, none, ?_, rfl, hd.symm⟩
          simp [parseRRHeader, hsec, hq, hc2, hc3]
        · have : r.wireClass = ConstsC03.classNONE := by simp [RRset.wireClass, hd]
          rw [this]
          refine ⟨by rw [cnone]; omega, zc, some ConstsC03.classNONE, ?_, hc1.symm, hd.symm⟩
          simp [parseRRHeader, hsec, hq, hz, cany, cnone, hc2]
      obtain ⟨hwc, rc', d', hhdr, hrc', hd'⟩ := hwcl
      obtain ⟨owner', rd', hown', hsim, hp⟩ := parseRR_of_rrExt_gen cfg horg true A post t r.name r.rdtype r.wireClass r.ttl
        rd q1 sec count i st rc' d' hhdr hcur hs hr.name hv hshape hr.rdtype hwc httl hr.notSpecial h1
      refine ⟨{ name := owner', rdclass := rc', rdtype := r.rdtype, covers := rdCovers r.rdtype rd', deleting := d',
                ttl := r.ttl, rdatas := [rd'] }, ?_, ?_, by simpa using hsnd, rfl⟩
      · exact ⟨hown', hrc', rfl, by rw [rdCovers_of_sim hsim, hcov], hd', rfl, by rw [hrd]; exact SimList.cons hsim SimList.nil⟩
      · simp only [List.append_nil]
        rw [hp]
        simp [sectionAdd_force_some]
  · -- a class/type-only record
    have hcls : ∃ cls, r.deleting = some cls ∧ cls < 65536 ∧
        parseRRHeader true st.q sec cls r.rdtype = .ok (zc, some cls, true) := by
      rcases hdel with hd | ⟨hd, hs1⟩
      · refine ⟨ConstsC03.classANY, hd, by rw [cany]; omega, ?_⟩
        simp [parseRRHeader, hsec, hq, hz]
      · refine ⟨ConstsC03.classNONE, hd, by rw [cnone]; omega, ?_⟩
        simp [parseRRHeader, hsec, hq, hz, hs1]
    obtain ⟨cls, hd, hc, hhdr⟩ := hcls
    obtain ⟨owner', hown', hp, hsnd, hk⟩ := parseRR_empty cfg horg A post t r q sec count i st zc cls hhdr hcur hs hr.name
      hr.rdtype hr.notSpecial hrd hd hc h
    refine ⟨{ name := owner', rdclass := zc, rdtype := r.rdtype, covers := 0, deleting := some cls }, ?_, hp, hsnd, hk⟩
    exact ⟨hown', hrc.symm, rfl, hcov.symm, hd.symm, httl.symm, by rw [hrd]; exact SimList.nil⟩

/-- all record sets of one section of an update message -/
theorem parseSection_urrsets (cfg : PCfg) (horg : cfg.origin = none) (zc sec : Nat) (hsec : sec ≠ 0) (z : RRset)
    (hz : z.rdclass = zc) (rs : List RRset) :
    ∀ (A post : Bytes) (t : CTable) (q : Bytes × CTable) (count i : Nat) (st : PState) (L : List RRset),
      st.cur = A.length → TableSound Rs.R A t → st.q = [z] → st.section sec = L →
      (∀ r ∈ rs, URRsetOk Rs zc sec r) → itemsExt none A.length t (rs.map (Item.rr sec)) = .ok q →
      ∃ rs', parseSection cfg true (A ++ q.1 ++ post) sec count rs.length i st =
          .ok (({ st with cur := A.length + q.1.length } : PState).setSection sec (L ++ rs'))
        ∧ SimList (RRset.sim Rs) rs' rs ∧ TableSound Rs.R (A ++ q.1) (t ++ q.2) := by
  induction rs with
  | nil =>
    intro A post t q count i st L hcur hs _ hsecL _ h
    simp [itemsExt] at h
    subst h
    refine ⟨[], ?_, SimList.nil, by simpa using hs⟩
    simp only [parseSection, List.length_nil, Nat.add_zero, List.append_nil]
    rw [← hcur, ← hsecL, setSection_self]
  | cons r rest ih =>
    intro A post t q count i st L hcur hs hq hsecL hok h
    simp only [List.map_cons, itemsExt, itemExt] at h
    cases h1 : rrsetExt A.length t none r with
    | error e => rw [h1] at h; simp at h
    | ok q1 =>
      rw [h1] at h; simp only at h
      cases h2 : itemsExt none (A.length + q1.1.length) (t ++ q1.2.1) (rest.map (Item.rr sec)) with
      | error e => rw [h2] at h; simp at h
      | ok q2 =>
        rw [h2] at h; simp only at h; cases h
        have hW : A ++ (q1.1 ++ q2.1) ++ post = A ++ q1.1 ++ (q2.1 ++ post) := by simp [List.append_assoc]
        obtain ⟨r', hsim, hp1, hs1, _⟩ := parseRR_urrset cfg horg zc sec hsec r (hok r (by simp)) A (q2.1 ++ post) t q1
          count i st z hq hz hcur hs h1
        have hl : (A ++ q1.1).length = A.length + q1.1.length := by simp
        obtain ⟨rs', hp2, hsims, hs2⟩ := ih (A ++ q1.1) post (t ++ q1.2.1) q2 count (i + 1)
          (({ st with cur := A.length + q1.1.length } : PState).setSection sec (L ++ [r'])) (L ++ [r'])
          (by rw [cur_setSection, hl]) hs1 (by rw [q_setSection _ _ _ hsec]; exact hq) (section_setSection _ _ _)
          (fun x hx => hok x (by simp [hx])) (by rw [hl]; exact h2)
        refine ⟨r' :: rs', ?_, SimList.cons hsim hsims, by simpa [List.append_assoc] using hs2⟩
        simp only [List.length_cons, parseSection]
        rw [hW, hp1, hsecL]
        simp only
        have hW2 : A ++ q1.1 ++ (q2.1 ++ post) = A ++ q1.1 ++ q2.1 ++ post := by simp [List.append_assoc]
        rw [hW2, hp2, setSection_setSection]
        simp [hl, List.length_append, Nat.add_assoc, List.append_assoc]

theorem rrCount_urrsets (zc sec : Nat) (rs : List RRset) (h : ∀ r ∈ rs, URRsetOk Rs zc sec r) : rrCount rs = rs.length := by
  induction rs with
  | nil => rfl
  | cons r rest ih =>
    have h1 := ih (fun x hx => h x (by simp [hx]))
    have hr := (h r (by simp)).form
    have : max 1 r.rdatas.length = 1 := by
      rcases hr with ⟨rd, hrd, _⟩ | ⟨hrd, _⟩ <;> simp [hrd]
    simp only [rrCount, List.map_cons, List.sum_cons, List.length_cons] at h1 ⊢
    rw [this, h1]; omega

end Model

namespace Model

variable {Rs : RelSpec}

/-- the zone section of an update message: exactly one SOA-typed entry of a non-meta class -/
theorem parseQuestions_zone (cfg : PCfg) (horg : cfg.origin = none) (z : RRset) (hz : QOk Rs z)
    (hsoa : z.rdtype = ConstsC03.typeSOA) (hmeta : z.rdclass ∉ ConstsC03.metaclasses)
    (A post : Bytes) (t : CTable) (q : Bytes × CTable) (st : PState) (hcur : st.cur = A.length) (hq0 : st.q = [])
    (hs : TableSound Rs.R A t)
    (h : itemsExt none A.length t [Item.q z.name z.rdtype z.rdclass] = .ok q) :
    ∃ z', parseQuestions cfg true (A ++ q.1 ++ post) 1 st = .ok { st with cur := A.length + q.1.length, q := [z'] }
      ∧ z'.sim Rs z ∧ z'.rdclass = z.rdclass ∧ TableSound Rs.R (A ++ q.1) (t ++ q.2) := by
  simp only [itemsExt, itemExt] at h
  cases h1 : nameExt A.length t z.name none with
  | none => rw [h1] at h; simp at h
  | some q1 =>
    rw [h1] at h; simp only at h; cases h
    obtain ⟨s1, hat, hwf⟩ := nameExt_at A t z.name q1 hz.name hs h1
    have hW : A ++ (q1.1 ++ u16 z.rdtype ++ u16 z.rdclass ++ []) ++ post
        = (A ++ q1.1) ++ (u16 z.rdtype ++ u16 z.rdclass ++ post) := by simp [List.append_assoc]
    have hlW : (A ++ (q1.1 ++ u16 z.rdtype ++ u16 z.rdclass ++ []) ++ post).length
        = A.length + q1.1.length + 4 + post.length := by simp [u16]; omega
    have hat' := hat.mono (u16 z.rdtype ++ u16 z.rdclass ++ post)
    rw [← hW] at hat'
    obtain ⟨n', hg, hn'⟩ := getName_of_NameAt hat' hwf _ (by rw [hlW]; omega) (Nat.le_refl _)
    have st1 : slice (A ++ (q1.1 ++ u16 z.rdtype ++ u16 z.rdclass ++ []) ++ post) (A.length + q1.1.length) 2 = u16 z.rdtype :=
      slice_at _ (A ++ q1.1) _ (u16 z.rdclass ++ post) (by simp [List.append_assoc]) _ _ (by simp) rfl
    have st2 : slice (A ++ (q1.1 ++ u16 z.rdtype ++ u16 z.rdclass ++ []) ++ post) (A.length + q1.1.length + 2) 2 = u16 z.rdclass :=
      slice_at _ (A ++ q1.1 ++ u16 z.rdtype) _ post (by simp [List.append_assoc]) _ _ (by simp [u16]; omega) rfl
    refine ⟨{ name := n', rdclass := z.rdclass, rdtype := z.rdtype }, ?_,
      ⟨hn', rfl, rfl, hz.covers.symm, hz.deleting.symm, hz.ttl.symm, by rw [hz.rdatas]; exact SimList.nil⟩, rfl, ?_⟩
    · simp only [parseQuestions]
      unfold parseQuestion
      rw [hcur, hg]
      simp only [horg, relTo]
      have c4 : ¬ ((A ++ (q1.1 ++ u16 z.rdtype ++ u16 z.rdclass ++ []) ++ post).length - (A.length + q1.1.length) < 4) := by
        rw [hlW]; omega
      simp only [c4, if_false, st1, st2, beVal_u16 _ hz.rdtype, beVal_u16 _ hz.rdclass, parseRRHeader, hq0]
      simp [hmeta, hsoa, sectionAdd_force_none, u16]
      omega
    · have := s1.mono (u16 z.rdtype ++ u16 z.rdclass)
      simpa [List.append_assoc] using this

/-- well-formed dynamic update message in the parser's representation (absolute names, no OPT/TSIG) -/
structure UMsgOk (Rs : RelSpec) (m : Message) : Prop where
  origin : m.origin = none
  id : m.id < 65536
  flags : m.flags < 65536
  isUpd : isUpdate m.flags = true
  noOpt : m.opt = none
  noTsig : m.tsig = none
  zone : ∃ z, m.q = [z] ∧ QOk Rs z ∧ z.rdtype = ConstsC03.typeSOA ∧ z.rdclass ∉ ConstsC03.metaclasses ∧
    (∀ r ∈ m.an, URRsetOk Rs z.rdclass 1 r) ∧ (∀ r ∈ m.au, URRsetOk Rs z.rdclass 2 r) ∧ (∀ r ∈ m.ad, URRsetOk Rs z.rdclass 3 r)
  counts : m.an.length < 65536 ∧ m.au.length < 65536 ∧ m.ad.length < 65536

/-- render-then-parse of a dynamic update message -/
theorem parse_toWire_update (m : Message) (lim : Nat) (w : Bytes) (hok : UMsgOk Rs m) (h : m.toWire lim false = .ok w)
    (cfg : PCfg) (horg : cfg.origin = none) :
    ∃ m', parseMessage cfg w = .ok m' ∧ m'.sim Rs m := by
  obtain ⟨z, hmq, hzq, hsoa, hmeta, han, hau, had⟩ := hok.zone
  obtain ⟨can, cau, cad⟩ := hok.counts
  obtain ⟨q, hq, hw⟩ := toWire_shape m lim w hok.noOpt hok.noTsig h
  rw [hok.origin] at hq
  simp only [Message.items, hmq, List.map_cons, List.map_nil] at hq
  rw [itemsExt_append, itemsExt_append, itemsExt_append] at hq
  cases hqq : itemsExt none 12 [] [Item.q z.name z.rdtype z.rdclass] with
  | error e => rw [hqq] at hq; simp at hq
  | ok qq =>
    rw [hqq] at hq; simp only at hq
    cases hqa : itemsExt none (12 + qq.1.length) ([] ++ qq.2) (m.an.map (Item.rr 1)) with
    | error e => rw [hqa] at hq; simp at hq
    | ok qa =>
      rw [hqa] at hq; simp only at hq
      cases hqu : itemsExt none (12 + (qq.1 ++ qa.1).length) ([] ++ (qq.2 ++ qa.2)) (m.au.map (Item.rr 2)) with
      | error e => rw [hqu] at hq; simp at hq
      | ok qu =>
        rw [hqu] at hq; simp only at hq
        cases hqd : itemsExt none (12 + (qq.1 ++ qa.1 ++ qu.1).length) ([] ++ (qq.2 ++ qa.2 ++ qu.2)) (m.ad.map (Item.rr 3)) with
        | error e => rw [hqd] at hq; simp at hq
        | ok qd =>
          rw [hqd] at hq; simp only at hq; cases hq
          have hca := rrCount_urrsets z.rdclass 1 m.an han
          have hcu := rrCount_urrsets z.rdclass 2 m.au hau
          have hcd := rrCount_urrsets z.rdclass 3 m.ad had
          rw [hmq, hca, hcu, hcd] at hw
          simp only [List.length_cons, List.length_nil, Nat.zero_add] at hw
          let H := hdrBytes { m with q := [z], an := [], au := [], ad := [] } 0
          have hH : H.length = 12 := hdrBytes_length _ _
          -- header bytes (written with explicit counts)
          have hw' : w = (u16 m.id ++ u16 m.flags ++ u16 1 ++ u16 m.an.length ++ u16 m.au.length ++ u16 m.ad.length)
              ++ qq.1 ++ qa.1 ++ qu.1 ++ qd.1 := by rw [hw]; simp [List.append_assoc]
          generalize hHd : (u16 m.id ++ u16 m.flags ++ u16 1 ++ u16 m.an.length ++ u16 m.au.length ++ u16 m.ad.length) = Hd at hw'
          have hHdl : Hd.length = 12 := by rw [← hHd]; simp [u16]
          have s0 : slice w 0 2 = u16 m.id :=
            slice_at _ [] (u16 m.id) (u16 m.flags ++ u16 1 ++ u16 m.an.length ++ u16 m.au.length ++ u16 m.ad.length ++ (qq.1 ++ qa.1 ++ qu.1 ++ qd.1))
              (by rw [hw', ← hHd]; simp [List.append_assoc]) _ _ rfl rfl
          have s2 : slice w 2 2 = u16 m.flags :=
            slice_at _ (u16 m.id) (u16 m.flags) (u16 1 ++ u16 m.an.length ++ u16 m.au.length ++ u16 m.ad.length ++ (qq.1 ++ qa.1 ++ qu.1 ++ qd.1))
              (by rw [hw', ← hHd]; simp [List.append_assoc]) _ _ rfl rfl
          have s4 : slice w 4 2 = u16 1 :=
            slice_at _ (u16 m.id ++ u16 m.flags) (u16 1) (u16 m.an.length ++ u16 m.au.length ++ u16 m.ad.length ++ (qq.1 ++ qa.1 ++ qu.1 ++ qd.1))
              (by rw [hw', ← hHd]; simp [List.append_assoc]) _ _ rfl rfl
          have s6 : slice w 6 2 = u16 m.an.length :=
            slice_at _ (u16 m.id ++ u16 m.flags ++ u16 1) (u16 m.an.length) (u16 m.au.length ++ u16 m.ad.length ++ (qq.1 ++ qa.1 ++ qu.1 ++ qd.1))
              (by rw [hw', ← hHd]; simp [List.append_assoc]) _ _ rfl rfl
          have s8 : slice w 8 2 = u16 m.au.length :=
            slice_at _ (u16 m.id ++ u16 m.flags ++ u16 1 ++ u16 m.an.length) (u16 m.au.length) (u16 m.ad.length ++ (qq.1 ++ qa.1 ++ qu.1 ++ qd.1))
              (by rw [hw', ← hHd]; simp [List.append_assoc]) _ _ rfl rfl
          have s10 : slice w 10 2 = u16 m.ad.length :=
            slice_at _ (u16 m.id ++ u16 m.flags ++ u16 1 ++ u16 m.an.length ++ u16 m.au.length) (u16 m.ad.length) (qq.1 ++ qa.1 ++ qu.1 ++ qd.1)
              (by rw [hw', ← hHd]; simp [List.append_assoc]) _ _ rfl rfl
          -- zone
          rw [← hHdl] at hqq
          obtain ⟨z', hpz, hsz, hzc, hsndq⟩ := parseQuestions_zone cfg horg z hzq hsoa hmeta Hd (qa.1 ++ qu.1 ++ qd.1) [] qq
            { cur := 12 } (by simp [hHdl]) rfl (tableSound_nil Hd) hqq
          have hwq : Hd ++ qq.1 ++ (qa.1 ++ qu.1 ++ qd.1) = w := by rw [hw']; simp [List.append_assoc]
          rw [hwq] at hpz
          -- prerequisite
          have hlA1 : (Hd ++ qq.1).length = 12 + qq.1.length := by simp [hHdl]
          rw [← hlA1] at hqa
          obtain ⟨an', hpa, hsa, hsnda⟩ := parseSection_urrsets cfg horg z.rdclass 1 (by omega) z' hzc m.an (Hd ++ qq.1)
            (qu.1 ++ qd.1) ([] ++ qq.2) qa m.an.length 0
            { cur := Hd.length + qq.1.length, q := [z'] } [] (by simp) hsndq rfl (by simp [PState.section]) han hqa
          have hwa : Hd ++ qq.1 ++ qa.1 ++ (qu.1 ++ qd.1) = w := by rw [hw']; simp [List.append_assoc]
          rw [hwa] at hpa
          -- update
          have hlA2 : (Hd ++ qq.1 ++ qa.1).length = 12 + (qq.1 ++ qa.1).length := by simp [hHdl] <;> omega
          rw [← hlA2] at hqu
          have hsnda' : TableSound Rs.R (Hd ++ qq.1 ++ qa.1) ([] ++ (qq.2 ++ qa.2)) := by
            simpa [List.append_assoc] using hsnda
          obtain ⟨au', hpu, hsu, hsndu⟩ := parseSection_urrsets cfg horg z.rdclass 2 (by omega) z' hzc m.au (Hd ++ qq.1 ++ qa.1)
            qd.1 ([] ++ (qq.2 ++ qa.2)) qu m.au.length 0
            { cur := (Hd ++ qq.1).length + qa.1.length, q := [z'], an := [] ++ an' } [] (by simp <;> omega) hsnda' rfl
            (by simp [PState.section]) hau hqu
          have hwu : Hd ++ qq.1 ++ qa.1 ++ qu.1 ++ qd.1 = w := by rw [hw']
          rw [hwu] at hpu
          -- additional
          have hlA3 : (Hd ++ qq.1 ++ qa.1 ++ qu.1).length = 12 + (qq.1 ++ qa.1 ++ qu.1).length := by simp [hHdl] <;> omega
          rw [← hlA3] at hqd
          have hsndu' : TableSound Rs.R (Hd ++ qq.1 ++ qa.1 ++ qu.1) ([] ++ (qq.2 ++ qa.2 ++ qu.2)) := by
            simpa [List.append_assoc] using hsndu
          obtain ⟨ad', hpd, hsd, _⟩ := parseSection_urrsets cfg horg z.rdclass 3 (by omega) z' hzc m.ad (Hd ++ qq.1 ++ qa.1 ++ qu.1)
            [] ([] ++ (qq.2 ++ qa.2 ++ qu.2)) qd m.ad.length 0
            { cur := (Hd ++ qq.1 ++ qa.1).length + qu.1.length, q := [z'], an := [] ++ an', au := [] ++ au' } []
            (by simp <;> omega) hsndu' rfl (by simp [PState.section]) had hqd
          have hwd : Hd ++ qq.1 ++ qa.1 ++ qu.1 ++ qd.1 ++ [] = w := by rw [hw']; simp
          rw [hwd] at hpd
          refine ⟨{ id := m.id, flags := m.flags, origin := cfg.origin, q := [z'], an := an', au := au', ad := ad' }, ?_,
            rfl, rfl, by rw [hmq]; exact SimList.cons hsz SimList.nil, hsa, hsu, hsd, by simp [hok.noOpt], by simp [hok.noTsig]⟩
          unfold parseMessage
          have hwl : ¬ w.length < 12 := by rw [hw']; simp [hHdl] <;> omega
          simp only [hwl, if_false, s0, s2, s4, s6, s8, s10, beVal_u16 _ hok.id, beVal_u16 _ hok.flags, beVal_u16 1 (by omega),
            beVal_u16 _ can, beVal_u16 _ cau, beVal_u16 _ cad, hok.isUpd, hpz]
          simp only [PState.setSection] at hpa hpu hpd
          simp at hpa hpu hpd
          rw [hpa]
          simp only
          rw [hpu]
          simp only
          rw [hpd]
          simp
          intro _
          rw [hw']; simp only [List.length_append, hHdl]; omega

end Model

namespace Model

variable {Rs : RelSpec}

/-- the parser's representation of the record an RRset renders to in an update message whose zone class is `zc`:
a wire class of ANY/NONE is carried in `deleting` and the RRset takes the zone's class -/
def RRset.canon (zc : Nat) (r : RRset) : RRset :=
  if r.wireClass = ConstsC03.classANY ∨ r.wireClass = ConstsC03.classNONE then
    { r with rdclass := zc, deleting := some r.wireClass }
  else { r with rdclass := r.wireClass, deleting := none }

theorem canon_wireClass (zc : Nat) (r : RRset) : (r.canon zc).wireClass = r.wireClass := by
  unfold RRset.canon
  split <;> simp [RRset.wireClass]

theorem rrsetToWire_canon (out : Bytes) (t : CTable) (origin : Option Name) (zc : Nat) (r : RRset) :
    rrsetToWire out t origin (r.canon zc) = rrsetToWire out t origin r := by
  have h1 := canon_wireClass zc r
  have h2 : (r.canon zc).name = r.name ∧ (r.canon zc).rdtype = r.rdtype ∧ (r.canon zc).ttl = r.ttl ∧
      (r.canon zc).rdatas = r.rdatas := by
    unfold RRset.canon; split <;> exact ⟨rfl, rfl, rfl, rfl⟩
  unfold rrsetToWire
  rw [h1, h2.1, h2.2.1, h2.2.2.1, h2.2.2.2]

def Message.canonUpdate (m : Message) (zc : Nat) : Message :=
  { m with an := m.an.map (RRset.canon zc), au := m.au.map (RRset.canon zc), ad := m.ad.map (RRset.canon zc) }

theorem SimList.append' {α : Type} {R : α → α → Prop} {a b c d : List α} (h1 : SimList R a b) (h2 : SimList R c d) :
    SimList R (a ++ c) (b ++ d) := by
  induction h1 with
  | nil => exact h2
  | cons h _ ih => exact SimList.cons h ih

theorem SimList.refl' {α : Type} {R : α → α → Prop} (hR : ∀ x, R x x) (l : List α) : SimList R l l := by
  induction l with
  | nil => exact SimList.nil
  | cons x xs ih => exact SimList.cons (hR x) ih

theorem SimList.map_left {α β : Type} {R : β → β → Prop} (f g : α → β) (l : List α) (h : ∀ x ∈ l, R (f x) (g x)) :
    SimList R (l.map f) (l.map g) := by
  induction l with
  | nil => exact SimList.nil
  | cons x xs ih => exact SimList.cons (h x (by simp)) (ih (fun y hy => h y (by simp [hy])))

/-- items that the renderer treats alike -/
def ItemEq (x y : Item) : Prop := ∀ s : RState, s.addItem x = s.addItem y

theorem addItems_congr (a b : List Item) (h : SimList ItemEq a b) : ∀ s : RState, s.addItems a = s.addItems b := by
  induction h with
  | nil => intro s; rfl
  | cons hxy _ ih =>
    intro s
    simp only [RState.addItems]
    rw [hxy s]
    rename_i y _ _ _
    cases s.addItem y with
    | err e => rfl
    | tooBig s' => rfl
    | ok s' => exact ih s'

theorem itemEq_canon (zc sec : Nat) (r : RRset) : ItemEq (Item.rr sec (r.canon zc)) (Item.rr sec r) := by
  intro s
  simp [RState.addItem, RState.addRRset, rrsetToWire_canon]

/-- the UpdateMessage API's representation of the delete / prerequisite forms (`rdclass = ANY/NONE`) renders to
exactly the same octets as the parser's representation (`deleting = ANY/NONE`, zone class) -/
theorem toWire_canonUpdate (m : Message) (zc lim : Nat) (pt : Bool) : (m.canonUpdate zc).toWire lim pt = m.toWire lim pt := by
  have hitems : ∀ s : RState, s.addItems (m.canonUpdate zc).items = s.addItems m.items := by
    apply addItems_congr
    simp only [Message.items, Message.canonUpdate, List.map_map]
    refine SimList.append' (SimList.append' (SimList.append' (SimList.refl' (fun x s => rfl) _) ?_) ?_) ?_
    · exact SimList.map_left _ _ _ (fun r _ => itemEq_canon zc 1 r)
    · exact SimList.map_left _ _ _ (fun r _ => itemEq_canon zc 2 r)
    · exact SimList.map_left _ _ _ (fun r _ => itemEq_canon zc 3 r)
  have e1 : (m.canonUpdate zc).tsigReserve = m.tsigReserve := rfl
  have e2 : (m.canonUpdate zc).optReserve = m.optReserve := rfl
  have e3 : (m.canonUpdate zc).requestPayload = m.requestPayload := rfl
  rw [toWire_eq, toWire_eq, e1, e2, e3]
  cases m.tsigReserve with
  | error e => rfl
  | ok b =>
    simp only
    rw [renderSections_eq, renderSections_eq]
    have e4 : (m.canonUpdate zc).base (clampSize lim m.requestPayload) m.optReserve b
        = m.base (clampSize lim m.requestPayload) m.optReserve b := rfl
    rw [e4]
    cases m.base (clampSize lim m.requestPayload) m.optReserve b with
    | error e => rfl
    | ok r =>
      simp only
      rw [hitems]
      rfl

end Model

import Proofs.RdataTextIP6b
/-! IPv6 text codec, part 3: `inet_aton` on each shape of text that `inet_ntoa` produces (C05). -/
namespace Model

theorem ne_nil_split_last {α : Type} (L : List α) (h : L ≠ []) : ∃ init c, L = init ++ [c] :=
  ⟨L.dropLast, L.getLast h, (List.dropLast_concat_getLast h).symm⟩

theorem ccEndMatch_false (t : List Nat) (h : endsWith t [10] = false) (h2 : endsWith t [58, 58] = false) :
    ccEndMatch t = false := by
  simp [ccEndMatch, dropFinalNewline, h, h2]

/-- shape A: eight chunks, nothing compressed -/
theorem aton_plain (L : List (List Nat)) (hL : ∀ c ∈ L, HexChunk c) (hlen : L.length = 8) :
    ip6Aton (J L) = unhexlify (L.map pad4).flatten := by
  have hne : L ≠ [] := by intro e; subst e; simp at hlen
  obtain ⟨init, c, hLc⟩ := ne_nil_split_last L hne
  have hc : HexChunk c := hL c (by rw [hLc]; simp)
  have hstart : HexStart (J L) := by
    cases L with
    | nil => exact absurd rfl hne
    | cons x xs => exact J_cons_hexStart x (hL x (by simp)) xs
  have hend : HexStart (J L).reverse := by rw [hLc]; exact J_hexEnd init c hc
  obtain ⟨s1, s2, s3, _, s5⟩ := hexStart_facts _ hstart
  obtain ⟨e1, e2, e3⟩ := endsWith_false_of_hexEnd _ hend
  have hv := v4Ending_none L hne (hexChunks_clean L hL) e3
  have hsplit := splitOn_joinWith 58 L hne (fun c hc => (hexChunks_clean L hL c hc).1)
  have hcanon := ip6Canon_noempty 8 L false (hexChunks_padable L hL)
  unfold ip6Aton
  simp only [s1, e1, s2, s5, if_false, Bool.false_and, Bool.false_eq_true, hv, s3, ccEndMatch_false _ e3 e2]
  rw [show splitOn 58 (J L) = L from hsplit]
  simp [hlen, hcanon]

/-- shape B4: `H::T` with chunks on both sides -/
theorem aton_mid (P Q : List (List Nat)) (hP : ∀ c ∈ P, HexChunk c) (hQ : ∀ c ∈ Q, HexChunk c) (hPne : P ≠ []) (hQne : Q ≠ [])
    (hlen : P.length + Q.length ≤ 6) :
    ip6Aton (J (P ++ [] :: Q)) =
      unhexlify (P.map pad4 ++ (List.replicate (8 - (P.length + 1 + Q.length) + 1) [48, 48, 48, 48] ++ Q.map pad4)).flatten := by
  have hne : P ++ [] :: Q ≠ [] := by simp
  obtain ⟨qi, qc, hQc⟩ := ne_nil_split_last Q hQne
  have hqc : HexChunk qc := hQ qc (by rw [hQc]; simp)
  have hclean : CleanChunks (P ++ [] :: Q) := by
    intro c hc
    simp at hc
    rcases hc with h | h | h
    · exact hexChunk_clean c (hP c h)
    · subst h; exact nil_clean
    · exact hexChunk_clean c (hQ c h)
  have hstart : HexStart (J (P ++ [] :: Q)) := by
    cases P with
    | nil => exact absurd rfl hPne
    | cons x xs => exact J_cons_hexStart x (hP x (by simp)) _
  have hend : HexStart (J (P ++ [] :: Q)).reverse := by
    have : P ++ [] :: Q = (P ++ [] :: qi) ++ [qc] := by rw [hQc]; simp
    rw [this]; exact J_hexEnd _ qc hqc
  obtain ⟨s1, s2, s3, _, s5⟩ := hexStart_facts _ hstart
  obtain ⟨e1, e2, e3⟩ := endsWith_false_of_hexEnd _ hend
  have hv := v4Ending_none _ hne hclean e3
  have hsplit := splitOn_joinWith 58 _ hne (fun c hc => (hclean c hc).1)
  have hl : (P ++ [] :: Q).length = P.length + 1 + Q.length := by simp; omega
  have hcanon := ip6Canon_one_empty (P.length + 1 + Q.length) P Q (hexChunks_padable P hP) (hexChunks_padable Q hQ)
  unfold ip6Aton
  simp only [s1, e1, s2, s5, if_false, Bool.false_and, Bool.false_eq_true, hv, s3, ccEndMatch_false _ e3 e2]
  rw [show splitOn 58 (J (P ++ [] :: Q)) = P ++ [] :: Q from hsplit]
  have hle : ¬ (P.length + 1 + Q.length > 8) := by omega
  simp only [hl, hle, if_false, hcanon]
  simp

/-- shape B2: `::T` -/
theorem aton_lead (Q : List (List Nat)) (hQ : ∀ c ∈ Q, HexChunk c) (hQne : Q ≠ []) (hlen : Q.length ≤ 6) :
    ip6Aton (58 :: 58 :: J Q) =
      unhexlify (List.replicate (8 - (1 + Q.length) + 1) [48, 48, 48, 48] ++ Q.map pad4).flatten := by
  obtain ⟨qi, qc, hQc⟩ := ne_nil_split_last Q hQne
  have hqc : HexChunk qc := hQ qc (by rw [hQc]; simp)
  -- the raw text is the join of `["", "", …Q]`
  have hraw : (58 :: 58 :: J Q) = J ([] :: [] :: Q) := by
    cases Q with
    | nil => exact absurd rfl hQne
    | cons y ys => rfl
  have hclean2 : CleanChunks ([] :: [] :: Q) := by
    intro c hc; simp at hc
    rcases hc with h | h
    · subst h; exact nil_clean
    · exact hexChunk_clean c (hQ c h)
  have hclean1 : CleanChunks ([] :: Q) := fun c hc => hclean2 c (by simp at hc ⊢; exact hc)
  have hend : HexStart (J ([] :: [] :: Q)).reverse := by
    have : [] :: [] :: Q = ([] :: [] :: qi) ++ [qc] := by rw [hQc]; simp
    rw [this]; exact J_hexEnd _ qc hqc
  obtain ⟨e1, e2, e3⟩ := endsWith_false_of_hexEnd _ hend
  have hv := v4Ending_none _ (by simp) hclean2 e3
  have hdrop : (58 :: 58 :: J Q).drop 1 = J ([] :: Q) := by
    cases Q with
    | nil => exact absurd rfl hQne
    | cons y ys => rfl
  have hsplit := splitOn_joinWith 58 ([] :: Q) (by simp) (fun c hc => (hclean1 c hc).1)
  have hcanon := ip6Canon_one_empty (1 + Q.length) [] Q (by intro c hc; simp at hc) (hexChunks_padable Q hQ)
  have hne2 : (58 :: 58 :: J Q) ≠ [58, 58] := by
    intro e; simp at e
    cases Q with
    | nil => exact hQne rfl
    | cons y ys =>
      have := J_cons_hexStart y (hQ y (by simp)) ys
      rw [e] at this
      obtain ⟨_, _, h, _⟩ := this; simp at h
  unfold ip6Aton
  rw [hraw] at hne2 ⊢
  have hs1 : startsWith (J ([] :: [] :: Q)) [58] = true := by rw [← hraw]; simp [startsWith]
  have hs2 : startsWith (J ([] :: [] :: Q)) [58, 58] = true := by rw [← hraw]; simp [startsWith]
  have hnn : J ([] :: [] :: Q) ≠ [] := by rw [← hraw]; simp
  simp only [hnn, e1, hs1, hs2, hne2, if_false, if_true, Bool.false_and, Bool.false_eq_true, hv, Bool.not_true,
    Bool.and_false]
  rw [← hraw, hdrop, show splitOn 58 (J ([] :: Q)) = [] :: Q from hsplit]
  have hl : ([] :: Q : List (List Nat)).length = 1 + Q.length := by simp; omega
  have hle : ¬ (1 + Q.length > 8) := by omega
  simp only [hl, hle, if_false]
  have := hcanon
  simp only [List.nil_append, List.map_nil] at this
  simp [this]


/-- the part of `inet_aton` after the dotted-quad rewrite -/
def atonTail (t : Text) : Option Bytes :=
  let t := if startsWith t [58, 58] then t.drop 1
           else if ccEndMatch t then t.dropLast else t
  let chunks := splitOn 58 t
  let l := chunks.length
  if l > 8 then none
  else match ip6Canon l chunks false with
    | none => none
    | some canonical =>
      if l < 8 ∧ !chunks.contains [] then none
      else unhexlify canonical.flatten

theorem ip6Aton_eq_tail (t : Text) (h1 : t ≠ []) (h2 : (endsWith t [58] && !endsWith t [58, 58]) = false)
    (h3 : (startsWith t [58] && !startsWith t [58, 58]) = false) (h4 : t ≠ [58, 58]) :
    ip6Aton t = match v4Ending t with
      | .error _ => none
      | .ok m => atonTail (match m with | some t' => t' | none => t) := by
  unfold ip6Aton atonTail
  simp only [h1, h2, h3, h4, if_false, Bool.false_eq_true]
  cases v4Ending t with
  | error e => rfl
  | ok m => rfl

theorem atonTail_lead (Q : List (List Nat)) (hQ : ∀ c ∈ Q, HexChunk c) (hQne : Q ≠ []) (hlen : Q.length ≤ 6) :
    atonTail (58 :: 58 :: J Q) =
      unhexlify (List.replicate (8 - (1 + Q.length) + 1) [48, 48, 48, 48] ++ Q.map pad4).flatten := by
  have hclean1 : CleanChunks ([] :: Q) := by
    intro c hc; simp at hc
    rcases hc with h | h
    · subst h; exact nil_clean
    · exact hexChunk_clean c (hQ c h)
  have hdrop : (58 :: 58 :: J Q).drop 1 = J ([] :: Q) := by
    cases Q with
    | nil => exact absurd rfl hQne
    | cons y ys => rfl
  have hsplit := splitOn_joinWith 58 ([] :: Q) (by simp) (fun c hc => (hclean1 c hc).1)
  have hcanon := ip6Canon_one_empty (1 + Q.length) [] Q (by intro c hc; simp at hc) (hexChunks_padable Q hQ)
  unfold atonTail
  have hs2 : startsWith (58 :: 58 :: J Q) [58, 58] = true := by simp [startsWith]
  simp only [hs2, if_true]
  rw [hdrop, show splitOn 58 (J ([] :: Q)) = [] :: Q from hsplit]
  have hl : ([] :: Q : List (List Nat)).length = 1 + Q.length := by simp; omega
  have hle : ¬ (1 + Q.length > 8) := by omega
  simp only [hl, hle, if_false]
  have := hcanon
  simp only [List.nil_append, List.map_nil] at this
  simp [this]

/-- shape B3: `H::` -/
theorem aton_trail (P : List (List Nat)) (hP : ∀ c ∈ P, HexChunk c) (hPne : P ≠ []) (hlen : P.length ≤ 6) :
    ip6Aton (J P ++ [58, 58]) =
      unhexlify (P.map pad4 ++ List.replicate (8 - (P.length + 1) + 1) [48, 48, 48, 48]).flatten := by
  have hraw : J P ++ [58, 58] = J (P ++ [[], []]) := by
    rw [show J (P ++ [[], []]) = joinWith 58 (P ++ [[], []]) from rfl, joinWith_append 58 P [[], []] hPne (by simp)]
    rfl
  have hraw1 : J P ++ [58] = J (P ++ [[]]) := by
    rw [show J (P ++ [[]]) = joinWith 58 (P ++ [[]]) from rfl, joinWith_append 58 P [[]] hPne (by simp)]
    rfl
  have hclean2 : CleanChunks (P ++ [[], []]) := by
    intro c hc; simp at hc
    rcases hc with h | h
    · exact hexChunk_clean c (hP c h)
    · subst h; exact nil_clean
  have hclean1 : CleanChunks (P ++ [[]]) := by
    intro c hc; simp at hc
    rcases hc with h | h
    · exact hexChunk_clean c (hP c h)
    · subst h; exact nil_clean
  have hstart : HexStart (J P ++ [58, 58]) := by
    cases P with
    | nil => exact absurd rfl hPne
    | cons x xs =>
      obtain ⟨y, r, e, hy⟩ := J_cons_hexStart x (hP x (by simp)) xs
      exact ⟨y, r ++ [58, 58], by rw [e]; rfl, hy⟩
  obtain ⟨s1, s2, s3, _, s5⟩ := hexStart_facts _ hstart
  have e1 : endsWith (J P ++ [58, 58]) [58] = true := by simp [endsWith, startsWith]
  have e2 : endsWith (J P ++ [58, 58]) [58, 58] = true := by simp [endsWith, startsWith]
  have e3 : endsWith (J P ++ [58, 58]) [10] = false := by simp [endsWith, startsWith]
  have hv : v4Ending (J P ++ [58, 58]) = .ok none := by
    rw [hraw]; exact v4Ending_none _ (by simp) hclean2 (by rw [← hraw]; exact e3)
  have hcc : ccEndMatch (J P ++ [58, 58]) = true := by
    have h10 : (J P ++ [58, 58]).contains 10 = false := by rw [hraw]; exact J_contains10 _ hclean2
    simp only [ccEndMatch, dropFinalNewline, e3, e2, h10, Bool.false_eq_true, if_false]
    rfl
  have hdl : (J P ++ [58, 58]).dropLast = J (P ++ [[]]) := by
    rw [← hraw1]
    have : J P ++ [58, 58] = (J P ++ [58]) ++ [58] := by simp
    rw [this, List.dropLast_concat]
  have hsplit := splitOn_joinWith 58 (P ++ [[]]) (by simp) (fun c hc => (hclean1 c hc).1)
  have hcanon := ip6Canon_one_empty (P.length + 1) P [] (hexChunks_padable P hP) (by intro c hc; simp at hc)
  rw [ip6Aton_eq_tail _ s1 (by simp [e1, e2]) (by simp [s2]) s5, hv]
  unfold atonTail
  simp only [s3, Bool.false_eq_true, if_false, hcc, if_true]
  rw [hdl, show splitOn 58 (J (P ++ [[]])) = P ++ [[]] from hsplit]
  have hl : (P ++ [[]] : List (List Nat)).length = P.length + 1 := by simp
  have hle : ¬ (P.length + 1 > 8) := by omega
  simp only [hl, hle, if_false]
  have := hcanon
  simp only [List.map_nil, List.append_nil] at this
  simp [this]

/-- shape B1: `::` -/
theorem aton_all_zero : ip6Aton [58, 58] = some (List.replicate 16 0) := by decide

end Model

import Model.Tsig
import Proofs.TsigValidate
/-! The skeleton walk of the reader: it only looks at the octets it walks over. -/
namespace Model.Tsig
open Model

theorem skipName_bounds (w : Bytes) (e : Nat) : ∀ (f cur p : Nat), skipName w e f cur = some p → cur < p ∧ p ≤ e := by
  intro f
  induction f with
  | zero => intro cur p h; simp [skipName] at h
  | succ f ih =>
    intro cur p h
    unfold skipName at h
    split at h
    · dsimp only at h
      split at h
      · cases h; omega
      · split at h
        · split at h
          · have := ih _ _ h; omega
          · cases h
        · split at h
          · split at h
            · cases h; omega
            · cases h
          · cases h
    · cases h

/-- success transfers to any buffer that agrees on the octets walked over, has room, and enough fuel -/
theorem skipName_transfer (w w' : Bytes) (e e' : Nat) : ∀ (f f' cur p : Nat), skipName w e f cur = some p →
    p ≤ e' → (∀ i, cur ≤ i → i < p → w'.getD i 0 = w.getD i 0) → p - cur ≤ f' →
    skipName w' e' f' cur = some p := by
  intro f
  induction f with
  | zero => intro f' cur p h; simp [skipName] at h
  | succ f ih =>
    intro f' cur p h he hag hf
    have hb := skipName_bounds w e (f + 1) cur p h
    cases f' with
    | zero => omega
    | succ f' =>
      unfold skipName at h ⊢
      have hc : w'.getD cur 0 = w.getD cur 0 := hag cur (Nat.le_refl _) hb.1
      split at h
      · dsimp only at h ⊢
        have : cur < e' := by omega
        simp only [this, if_true, hc]
        split at h
        · rename_i hz0
          cases h
          rw [if_pos hz0]
        · rename_i hz
          simp only [hz, if_false]
          split at h
          · rename_i h64
            simp only [h64, if_true]
            split at h
            · have hb2 := skipName_bounds w e f _ p h
              have : cur + 1 + w.getD cur 0 ≤ e' := by omega
              simp only [this, if_true]
              exact ih f' _ p h he (fun i h1 h2 => hag i (by omega) h2) (by omega)
            · cases h
          · rename_i h64
            simp only [h64, if_false]
            split at h
            · rename_i h192
              simp only [h192, if_true]
              split at h
              · cases h
                have : cur + 2 ≤ e' := by omega
                simp [this]
              · cases h
            · cases h
      · cases h

/-! ### records -/

/-- one record skipped whatever its type: owner name, 10 octets of header, RDLENGTH octets -/
def skipRR (w : Bytes) (cur : Nat) : Option Nat :=
  match skipName w w.length (w.length + 1) cur with
  | none => none
  | some p =>
    if p + 10 > w.length then none
    else if p + 10 + rd16 w (p + 8) > w.length then none
    else some (p + 10 + rd16 w (p + 8))

def skipRRs (w : Bytes) : Nat → Nat → Option Nat
  | 0, cur => some cur
  | n + 1, cur =>
    match skipRR w cur with
    | none => none
    | some q => skipRRs w n q

theorem rd16_agree (w w' : Bytes) (i : Nat) (h0 : w'.getD i 0 = w.getD i 0) (h1 : w'.getD (i + 1) 0 = w.getD (i + 1) 0) :
    rd16 w' i = rd16 w i := by
  unfold rd16; rw [h0, h1]

theorem skipRR_bounds (w : Bytes) (cur q : Nat) (h : skipRR w cur = some q) : cur < q ∧ q ≤ w.length := by
  unfold skipRR at h
  split at h
  · cases h
  · rename_i p hp
    have := skipName_bounds _ _ _ _ _ hp
    split at h
    · cases h
    · split at h
      · cases h
      · cases h; omega

theorem skipRR_transfer (w w' : Bytes) (cur q : Nat) (h : skipRR w cur = some q) (hl : q ≤ w'.length)
    (hag : ∀ i, cur ≤ i → i < q → w'.getD i 0 = w.getD i 0) : skipRR w' cur = some q := by
  unfold skipRR at h ⊢
  split at h
  · cases h
  · rename_i p hp
    have hb := skipName_bounds _ _ _ _ _ hp
    split at h
    · cases h
    · split at h
      · cases h
      · cases h
        have hn : skipName w' w'.length (w'.length + 1) cur = some p :=
          skipName_transfer w w' _ _ _ _ cur p hp (by omega) (fun i h1 h2 => hag i h1 (by omega)) (by omega)
        have hr : rd16 w' (p + 8) = rd16 w (p + 8) := rd16_agree w w' _ (hag _ (by omega) (by omega)) (hag _ (by omega) (by omega))
        rw [hn]
        simp only [hr]
        have a : ¬ p + 10 > w'.length := by omega
        have b : ¬ p + 10 + rd16 w (p + 8) > w'.length := by omega
        simp [a, b]

theorem skipRRs_bounds (w : Bytes) : ∀ (n cur q : Nat), skipRRs w n cur = some q → cur ≤ q ∧ (q = cur ∨ q ≤ w.length) := by
  intro n
  induction n with
  | zero => intro cur q h; simp [skipRRs] at h; omega
  | succ n ih =>
    intro cur q h
    unfold skipRRs at h
    split at h
    · cases h
    · rename_i q1 h1
      have := skipRR_bounds w cur q1 h1
      have := ih q1 q h
      omega

theorem skipRRs_transfer (w w' : Bytes) : ∀ (n cur q : Nat), skipRRs w n cur = some q → q ≤ w'.length →
    (∀ i, cur ≤ i → i < q → w'.getD i 0 = w.getD i 0) → skipRRs w' n cur = some q := by
  intro n
  induction n with
  | zero => intro cur q h _ _; simpa [skipRRs] using h
  | succ n ih =>
    intro cur q h hl hag
    unfold skipRRs at h ⊢
    split at h
    · cases h
    · rename_i q1 h1
      have b1 := skipRR_bounds w cur q1 h1
      have b2 := skipRRs_bounds w n q1 q h
      rw [skipRR_transfer w w' cur q1 h1 (by omega) (fun i a b => hag i a (by omega))]
      exact ih q1 q h hl (fun i a b => hag i (by omega) b)

theorem skipQuestions_bounds (w : Bytes) : ∀ (n cur q : Nat), skipQuestions w n cur = some q → cur ≤ q ∧ (q = cur ∨ q ≤ w.length) := by
  intro n
  induction n with
  | zero => intro cur q h; simp [skipQuestions] at h; omega
  | succ n ih =>
    intro cur q h
    unfold skipQuestions at h
    split at h
    · cases h
    · rename_i p hp
      have := skipName_bounds _ _ _ _ _ hp
      split at h
      · have := ih _ _ h; omega
      · cases h

theorem skipQuestions_transfer (w w' : Bytes) : ∀ (n cur q : Nat), skipQuestions w n cur = some q → q ≤ w'.length →
    (∀ i, cur ≤ i → i < q → w'.getD i 0 = w.getD i 0) → skipQuestions w' n cur = some q := by
  intro n
  induction n with
  | zero => intro cur q h _ _; simpa [skipQuestions] using h
  | succ n ih =>
    intro cur q h hl hag
    unfold skipQuestions at h ⊢
    split at h
    · cases h
    · rename_i p hp
      have hb := skipName_bounds _ _ _ _ _ hp
      split at h
      · have b2 := skipQuestions_bounds w n _ q h
        have hn : skipName w' w'.length (w'.length + 1) cur = some p :=
          skipName_transfer w w' _ _ _ _ cur p hp (by omega) (fun i h1 h2 => hag i h1 (by omega)) (by omega)
        rw [hn]
        have : p + 4 ≤ w'.length := by omega
        simp only [this, if_true]
        exact ih _ q h hl (fun i a b => hag i (by omega) b)
      · cases h

end Model.Tsig

import Model.Parse
/-! C04: every offset recorded by continue_on_error lies inside the message. -/
namespace Model

theorem fwF_bounds (w : Bytes) (endp cur bp f : Nat) (acc : List Label) :
    (∀ e f', fromWireAuxF w endp cur bp f acc = .error (e, f') → f' ≤ max f endp) ∧
    (∀ n f', fromWireAuxF w endp cur bp f acc = .ok (n, f') → f' ≤ max f endp) := by
  fun_induction fromWireAuxF w endp cur bp f acc with
  | case1 cur bp f acc h h0 =>
    refine ⟨fun e f' he => by simp at he, fun n f' he => ?_⟩
    simp at he; omega
  | case2 cur bp f acc h h0 h1 h2 =>
    refine ⟨fun e f' he => ?_, fun n f' he => by simp at he⟩
    simp at he; omega
  | case3 cur bp f acc h h0 h1 h2 ih =>
    refine ⟨fun e f' he => ?_, fun n f' he => ?_⟩
    · have := ih.1 e f' he; omega
    · have := ih.2 n f' he; omega
  | case4 cur bp f acc h h0 h1 h2 h3 h4 =>
    refine ⟨fun e f' he => ?_, fun n f' he => by simp at he⟩
    simp at he; omega
  | case5 cur bp f acc h h0 h1 h2 h3 h4 ih =>
    refine ⟨fun e f' he => ?_, fun n f' he => ?_⟩
    · have := ih.1 e f' he; omega
    · have := ih.2 n f' he; omega
  | case6 cur bp f acc h h0 h1 h2 h3 =>
    refine ⟨fun e f' he => ?_, fun n f' he => by simp at he⟩
    simp at he; omega
  | case7 cur bp f acc h h0 h1 h2 =>
    refine ⟨fun e f' he => ?_, fun n f' he => by simp at he⟩
    simp at he; omega
  | case8 cur bp f acc h =>
    refine ⟨fun e f' he => ?_, fun n f' he => by simp at he⟩
    simp at he; omega

theorem pGetName_bounds (w : Bytes) (endp cur fur : Nat) :
    (∀ e f, pGetName w endp cur fur = .error (e, f) → f ≤ max fur endp) ∧
    (∀ n f, pGetName w endp cur fur = .ok (n, f) → f ≤ max fur endp) := by
  have hb := fwF_bounds w endp cur cur fur []
  unfold pGetName
  constructor
  · intro e f h
    split at h
    · rename_i e' f' he
      simp at h; obtain ⟨_, rfl⟩ := h; exact hb.1 e' f' he
    · rename_i n f' hn
      split at h
      · simp at h; obtain ⟨_, rfl⟩ := h; exact hb.2 n f' hn
      · simp at h
  · intro n f h
    split at h
    · simp at h
    · rename_i n' f' hn
      split at h
      · simp at h
      · simp at h; obtain ⟨_, rfl⟩ := h; exact hb.2 n' f' hn

theorem pGetBytes_bounds (w : Bytes) (endp cur k : Nat) :
    (∀ e f, pGetBytes w endp cur k = .error (e, f) → f = cur) ∧
    (∀ b c, pGetBytes w endp cur k = .ok (b, c) → c = cur + k ∧ c ≤ max cur endp) := by
  unfold pGetBytes
  constructor
  · intro e f h; split at h
    · simp at h; exact h.2.symm
    · simp at h
  · intro b c h; split at h
    · simp at h
    · simp at h; omega

theorem txtLoop_bounds (w : Bytes) (endp fuel cur count : Nat) (hc : cur ≤ endp) :
    (∀ e f, txtLoop w endp fuel cur count = .error (e, f) → f ≤ endp) ∧
    (∀ c, txtLoop w endp fuel cur count = .ok c → c ≤ endp) := by
  induction fuel generalizing cur count with
  | zero => simp [txtLoop]; omega
  | succ fuel ih =>
    unfold txtLoop
    split
    · split
      · simp; omega
      · simp; omega
    · split
      · rename_i e hb
        have := (pGetBytes_bounds w endp cur 1).1 e.1 e.2 (by simpa using hb)
        constructor
        · intro e' f h; simp at h; obtain ⟨_, rfl⟩ := h; omega
        · intro c h; simp at h
      · rename_i lb c1 hb1
        have h1 := (pGetBytes_bounds w endp cur 1).2 lb c1 hb1
        split
        · rename_i e hb
          have := (pGetBytes_bounds w endp c1 (be lb)).1 e.1 e.2 (by simpa using hb)
          constructor
          · intro e' f h; simp at h; obtain ⟨_, rfl⟩ := h; omega
          · intro c h; simp at h
        · rename_i x c2 hb2
          have h2 := (pGetBytes_bounds w endp c1 (be lb)).2 x c2 hb2
          exact ih c2 (count + 1) (by omega)

end Model

namespace Model

/-- failure positions of an rdata body lie inside its slice (or at the old furthest) -/
theorem pBody_bounds (w : Bytes) (kind : BodyKind) (cur rdlen : Nat) (e : String) (f : Nat)
    (h : pBody w kind cur rdlen = .error (e, f)) : f ≤ cur + rdlen := by
  unfold pBody at h
  simp only at h
  split at h
  · rename_i err herr
    simp at h; subst h
    split at herr
    · split at herr
      · simp at herr
      · simp at herr; omega
    · split at herr
      · rename_i err' hn
        simp at herr; subst herr
        have := (pGetName_bounds w (cur + rdlen) cur cur).1 e f (by simpa using hn)
        omega
      · simp at herr
    · have := (txtLoop_bounds w (cur + rdlen) (rdlen + 1) cur 0 (by omega)).1 e f (by simpa using herr)
      exact this
    · simp at herr
    · simp at herr; omega
  · rename_i c hc
    split at h
    · simp at h
      obtain ⟨_, rfl⟩ := h
      split at hc
      · split at hc <;> simp at hc; omega
      · split at hc
        · simp at hc
        · rename_i n c' hn
          simp at hc; subst hc
          have := (pGetName_bounds w (cur + rdlen) cur cur).2 n c' hn
          omega
      · exact (txtLoop_bounds w (cur + rdlen) (rdlen + 1) cur 0 (by omega)).2 c hc
      · simp at hc; omega
      · simp at hc
    · simp at h

/-- the invariant of the section loop: parser positions and every recorded offset are inside the message -/
def RInv (w : Bytes) (s : RState) : Prop :=
  s.cur ≤ w.length ∧ s.fur ≤ w.length ∧ ∀ p ∈ s.errs, p.2 ≤ w.length

def ROut.Inv (w : Bytes) : ROut → Prop
  | .ok s => RInv w s
  | .raised _ s => RInv w s
  | .unsupported => True

theorem readSection_inv (w : Bytes) (cont : Bool) (sec n : Nat) (s : RState) (hs : RInv w s) :
    (readSection w cont sec n s).Inv w := by
  induction n generalizing s with
  | zero => simpa [readSection, ROut.Inv] using hs
  | succ n ih =>
    obtain ⟨h1, h2, h3⟩ := hs
    unfold readSection
    split
    · rename_i e f hn
      have := (pGetName_bounds w w.length s.cur s.fur).1 e f hn
      exact ⟨by simp; omega, by simp; omega, h3⟩
    · rename_i nm c hn
      have hc := (pGetName_bounds w w.length s.cur s.fur).2 nm c hn
      split
      · rename_i e f hb
        have := (pGetBytes_bounds w w.length c 10).1 e f hb
        exact ⟨by simp; omega, by simp; omega, h3⟩
      · rename_i hdr c2 hb
        have hc2 := (pGetBytes_bounds w w.length c 10).2 hdr c2 hb
        simp only
        split
        · trivial
        · split
          · trivial
          · split
            · rename_i hbody
              apply ih
              split at hbody
              · simp at hbody
              · rename_i hlen
                exact ⟨by simp; omega, by simp; omega, h3⟩
            · rename_i e f hbody
              have hf : f ≤ w.length ∧ (c2 + be (List.take 2 (List.drop 8 hdr)) ≤ w.length → f ≤ c2 + be (List.take 2 (List.drop 8 hdr))) := by
                split at hbody
                · simp at hbody; obtain ⟨_, rfl⟩ := hbody; exact ⟨by omega, fun _ => by omega⟩
                · rename_i hlen
                  have := pBody_bounds w _ c2 _ e f hbody
                  exact ⟨by omega, fun _ => this⟩
              split
              · split
                · refine ⟨by simp; exact hf.1, by simp; exact hf.1, ?_⟩
                  intro p hp; simp at hp; rcases hp with hp | hp
                  · exact h3 p hp
                  · subst hp; exact hf.1
                · rename_i hle
                  apply ih
                  refine ⟨by simp; omega, by simp; exact hf.1, ?_⟩
                  intro p hp; simp at hp; rcases hp with hp | hp
                  · exact h3 p hp
                  · subst hp; exact hf.1
              · exact ⟨by simp; exact hf.1, by simp; exact hf.1, h3⟩

theorem readQuestions_inv (w : Bytes) (n : Nat) (s : RState) (hs : RInv w s) :
    (readQuestions w n s).Inv w := by
  induction n generalizing s with
  | zero => simpa [readQuestions, ROut.Inv] using hs
  | succ n ih =>
    obtain ⟨h1, h2, h3⟩ := hs
    unfold readQuestions
    split
    · rename_i e f hn
      have := (pGetName_bounds w w.length s.cur s.fur).1 e f hn
      exact ⟨by simp; omega, by simp; omega, h3⟩
    · rename_i nm c hn
      have hc := (pGetName_bounds w w.length s.cur s.fur).2 nm c hn
      split
      · rename_i e f hb
        have := (pGetBytes_bounds w w.length c 4).1 e f hb
        exact ⟨by simp; omega, by simp; omega, h3⟩
      · rename_i x c2 hb
        have hc2 := (pGetBytes_bounds w w.length c 4).2 x c2 hb
        apply ih
        exact ⟨by simp; omega, by simp; omega, h3⟩

end Model

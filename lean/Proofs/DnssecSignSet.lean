import Model.Dnssec
import Proofs.DnssecChain
import Proofs.DnssecOrder
/-! C15: the complete event sequence of `_sign_zone_nsec` (which RRsets are handed to the signer, which NSEC
records are added, in which order) equals a specification written over the secure names only. -/
namespace Model
namespace Dnssec

/-! ## specification (RFC 4035 §2.2: which RRsets of a zone are signed) -/

/-- the RRsets of a visited node that are handed to the signer: every RRset except RRSIGs; at a delegation point
only DS (the NS RRset and glue are not authoritative data of this zone) -/
def signSpec (c : NsecConsts) (origin : Name) (ws : Bool) (z : ZNode) : List Evt :=
  if ws then
    z.types.filterMap fun ty =>
      if ty = c.tRRSIG then none
      else if isCut c origin z && ty != c.tDS then none
      else some (Evt.sign z.name ty)
  else []

/-- the NSEC record of `p` pointing at `next`, and its signing -/
def linkSpec (c : NsecConsts) (origin : Name) (ws : Bool) (p : ZNode) (next : Name) : List Evt :=
  [Evt.nsec p.name next (bmOf c origin p)] ++ (if ws then [Evt.sign p.name c.tNSEC] else [])

def prevLink (c : NsecConsts) (origin : Name) (ws : Bool) (prev : Option ZNode) (next : Name) : List Evt :=
  match prev with
  | some p => linkSpec c origin ws p next
  | none => []

/-- the whole event sequence over the list of secure nodes: for each node its RRsets are signed, then the NSEC of
the previous secure node (now that its successor is known) is added and signed; at the end the last node's NSEC
points back to the origin -/
def eventsSpec (c : NsecConsts) (origin : Name) (ws : Bool) : Option ZNode → List ZNode → List Evt
  | prev, [] => prevLink c origin ws prev origin
  | prev, v :: vs => signSpec c origin ws v ++ prevLink c origin ws prev v.name ++ eventsSpec c origin ws (some v) vs

/-! ## the fold produces exactly that -/

def evE (c : NsecConsts) (origin : Name) (nodes : List ZNode) (ws : Bool) : Option Name → List ZNode → List Evt
  | _, [] => []
  | prev, v :: vs =>
    signEvts c ws (newDeleg c origin v) v ++ linkFrom c origin nodes ws prev v.name ++ evE c origin nodes ws (some v.name) vs

theorem fold_visit_full (c : NsecConsts) (origin : Name) (nodes : List ZNode) (ws : Bool) (L : List ZNode) :
    ∀ st : WalkSt,
      (L.foldl (walkStep c origin nodes ws) st).out =
        st.out ++ evE c origin nodes ws st.lastSecure (visit c origin (absDeleg st.delegation) L) := by
  induction L with
  | nil => intro st; simp [visit, evE]
  | cons z rest ih =>
    intro st
    simp only [List.foldl_cons]
    by_cases hs : beneath (absDeleg st.delegation) z.name = true
    · have hstep : walkStep c origin nodes ws st z = st := by
        unfold walkStep
        rw [skipTest_eq, hs]; rfl
      have hv : visit c origin (absDeleg st.delegation) (z :: rest) = visit c origin (absDeleg st.delegation) rest := by
        simp only [visit, hs, if_true]
      rw [hstep, hv]
      exact ih st
    · have hs' : beneath (absDeleg st.delegation) z.name = false := by simpa using hs
      have hv : visit c origin (absDeleg st.delegation) (z :: rest) =
          z :: visit c origin (if isCut c origin z then some z.name else none) rest := by
        simp only [visit, hs', Bool.false_eq_true, if_false]
      have hstep : walkStep c origin nodes ws st z =
          { delegation := newDeleg c origin z, lastSecure := some z.name,
            out := st.out ++ signEvts c ws (newDeleg c origin z) z ++ linkFrom c origin nodes ws st.lastSecure z.name } := by
        unfold walkStep
        rw [skipTest_eq, hs']; rfl
      rw [hstep, hv]
      have h1 := ih ⟨newDeleg c origin z, some z.name,
            st.out ++ signEvts c ws (newDeleg c origin z) z ++ linkFrom c origin nodes ws st.lastSecure z.name⟩
      simp only [absDeleg_newDeleg] at h1
      rw [h1]
      simp only [evE, List.append_assoc]

theorem optTruthy_newDeleg (c : NsecConsts) (origin : Name) (z : ZNode) :
    optTruthy (newDeleg c origin z) = isCut c origin z := by
  unfold newDeleg isCut optTruthy
  cases h1 : (z.types.contains c.tNS && !(nameEq z.name origin)) <;> simp

theorem signEvts_eq_spec (c : NsecConsts) (origin : Name) (ws : Bool) (z : ZNode) :
    signEvts c ws (newDeleg c origin z) z = signSpec c origin ws z := by
  unfold signEvts signSpec
  rw [optTruthy_newDeleg]

theorem addNsec_full (c : NsecConsts) (origin : Name) (nodes : List ZNode) (ws : Bool) (v : ZNode) (next : Name)
    (hl : lookupNode nodes v.name = some v) (ht : v.types ≠ []) (hn : next ≠ []) :
    addNsec c origin nodes ws v.name next = linkSpec c origin ws v next := by
  have h1 : (v.types.length != 0) = true := by
    cases hv : v.types with
    | nil => exact absurd hv ht
    | cons a as => simp
  have h2 : truthy next = true := by
    cases hnx : next with
    | nil => exact absurd hnx hn
    | cons a as => simp [truthy]
  unfold addNsec
  rw [hl]
  simp only [h1, h2, Bool.and_self, if_true, linkSpec, bmOf]

theorem evE_spec (c : NsecConsts) (origin : Name) (nodes : List ZNode) (ws : Bool) (ho : origin ≠ []) :
    ∀ (V : List ZNode) (prev : Option ZNode), (∀ p, prev = some p → Good nodes p) →
      (∀ v ∈ V, Good nodes v) → (∀ v ∈ V, prev ≠ none → v.name ≠ []) → (∀ v ∈ V.tail, v.name ≠ []) →
      evE c origin nodes ws (prev.map (·.name)) V ++
        (match lastName (prev.map (·.name)) V with
         | some l => addNsec c origin nodes ws l origin
         | none => []) = eventsSpec c origin ws prev V := by
  intro V
  induction V with
  | nil =>
    intro prev gp _ _ _
    cases prev with
    | none => simp [evE, lastName, eventsSpec, prevLink]
    | some p =>
      have g := gp p rfl
      simp only [evE, lastName, List.getLast?_nil, Option.map_some, List.nil_append, eventsSpec, prevLink]
      exact addNsec_full c origin nodes ws p origin g.look g.types ho
  | cons v vs ih =>
    intro prev gp gV hne htl
    have gv := gV v (by simp)
    have := ih (some v) (fun p hp => by cases hp; exact gv) (fun x hx => gV x (by simp [hx]))
      (fun x hx _ => htl x (by simpa using hx)) (fun x hx => htl x (by simp; exact List.mem_of_mem_tail hx))
    simp only [Option.map_some] at this
    simp only [evE, lastName_cons, eventsSpec, List.append_assoc, signEvts_eq_spec]
    rw [this]
    congr 1
    congr 1
    cases prev with
    | none => simp [linkFrom, prevLink]
    | some p =>
      have g := gp p rfl
      simp only [Option.map_some, linkFrom, prevLink]
      exact addNsec_full c origin nodes ws p v.name g.look g.types (hne v (by simp) (by simp))

/-- the walk over a sorted node list produces exactly the specified event sequence over the secure names -/
theorem walk_events (c : NsecConsts) (origin : Name) (nodes : List ZNode) (ws : Bool) (L : List ZNode)
    (hlook : ∀ z ∈ L, lookupNode nodes z.name = some z)
    (htypes : ∀ z ∈ L, z.types ≠ [])
    (htail : ∀ z ∈ L.tail, z.name ≠ [])
    (ho : origin ≠ [])
    (H1 : L.Pairwise (fun a b => subOf a b = false))
    (H3 : ∀ x ∈ L, ∀ y ∈ L, ∀ z ∈ L, subOf x y = true → subOf y z = true → subOf x z = true)
    (HC : contig L = true) :
    walkSorted c origin nodes ws L = eventsSpec c origin ws none (secure c origin L) := by
  have hvis := visit_eq_secure c origin L H1 H3 HC
  have hout := fold_visit_full c origin nodes ws L { delegation := none, lastSecure := none, out := [] }
  obtain ⟨_, hlast⟩ := fold_visit c origin nodes ws L { delegation := none, lastSecure := none, out := [] }
  simp only [absDeleg, hvis, List.nil_append] at hout hlast
  have hsub : ∀ z ∈ secure c origin L, z ∈ L := fun z hz => (List.mem_filter.mp hz).1
  have hgood : ∀ z ∈ secure c origin L, Good nodes z := fun z hz => ⟨hlook z (hsub z hz), htypes z (hsub z hz)⟩
  have htl : ∀ z ∈ (secure c origin L).tail, z.name ≠ [] := fun z hz => htail z (filter_tail_subset _ L z hz)
  have hspec := evE_spec c origin nodes ws ho (secure c origin L) none (by intro p hp; cases hp) hgood
    (by intro v _ h; exact absurd rfl h) htl
  simp only [Option.map_none] at hspec
  rw [← hspec]
  unfold walkSorted
  simp only
  rw [hlast, hout]
  cases lastName none (secure c origin L) <;> simp

/-- unconditional form for `sign_zone` (order facts from C06) -/
theorem signZone_events (c : NsecConsts) (origin : Name) (nodes : List ZNode) (ws : Bool)
    (hd : DistinctNames nodes) (ht : ∀ z ∈ nodes, z.types ≠ []) (ho : origin ≠ []) :
    signZoneNsec c origin nodes ws = eventsSpec c origin ws none (secure c origin (sortNodes nodes)) := by
  have hs := sortNodes_sorted nodes hd
  have hperm : (sortNodes nodes).Perm nodes := insSort_perm _ nodes
  unfold signZoneNsec
  exact walk_events c origin nodes ws (sortNodes nodes)
    (fun z hz => lookup_of_distinct nodes hd z (hperm.mem_iff.mp hz))
    (fun z hz => ht z (hperm.mem_iff.mp hz))
    (tail_nonempty_of_sorted _ hs) ho (H1_of_sorted _ hs)
    (fun x _ y _ z _ h1 h2 => sub_trans x.name y.name z.name h1 h2)
    (contig_of_sorted _ hs)

/-! ## which (owner, type) pairs are signed -/

theorem mem_signSpec (c : NsecConsts) (origin : Name) (z : ZNode) (n : Name) (ty : Nat) :
    Evt.sign n ty ∈ signSpec c origin true z ↔
      n = z.name ∧ ty ∈ z.types ∧ ty ≠ c.tRRSIG ∧ (isCut c origin z = true → ty = c.tDS) := by
  unfold signSpec
  simp only [if_true, List.mem_filterMap]
  constructor
  · rintro ⟨t, ht, h⟩
    split at h
    · simp at h
    · rename_i hne
      split at h
      · simp at h
      · rename_i hcut
        simp only [Option.some.injEq, Evt.sign.injEq] at h
        obtain ⟨rfl, rfl⟩ := h
        refine ⟨rfl, ht, hne, ?_⟩
        intro hc
        simp only [hc, Bool.true_and, bne_iff_ne, ne_eq, Decidable.not_not] at hcut
        exact hcut
  · rintro ⟨rfl, ht, hne, hcut⟩
    refine ⟨ty, ht, ?_⟩
    simp only [hne, if_false]
    cases hc : isCut c origin z with
    | false => simp
    | true => simp [hcut hc]

theorem mem_prevLink (c : NsecConsts) (origin : Name) (prev : Option ZNode) (next : Name) (n : Name) (ty : Nat) :
    Evt.sign n ty ∈ prevLink c origin true prev next ↔ ∃ p, prev = some p ∧ n = p.name ∧ ty = c.tNSEC := by
  cases prev with
  | none => simp [prevLink]
  | some p => simp [prevLink, linkSpec]

theorem mem_eventsSpec (c : NsecConsts) (origin : Name) (n : Name) (ty : Nat) :
    ∀ (V : List ZNode) (prev : Option ZNode),
      Evt.sign n ty ∈ eventsSpec c origin true prev V ↔
        (∃ p, prev = some p ∧ n = p.name ∧ ty = c.tNSEC) ∨
        (∃ z ∈ V, n = z.name ∧ (ty = c.tNSEC ∨
          (ty ∈ z.types ∧ ty ≠ c.tRRSIG ∧ (isCut c origin z = true → ty = c.tDS)))) := by
  intro V
  induction V with
  | nil => intro prev; simp [eventsSpec, mem_prevLink]
  | cons v vs ih =>
    intro prev
    simp only [eventsSpec, List.mem_append, mem_signSpec, mem_prevLink, ih (some v), List.mem_cons]
    constructor
    · rintro ((h | h) | (⟨p, hp, h⟩ | ⟨z, hz, h⟩))
      · exact Or.inr ⟨v, Or.inl rfl, h.1, Or.inr h.2⟩
      · exact Or.inl h
      · cases hp; exact Or.inr ⟨v, Or.inl rfl, h.1, Or.inl h.2⟩
      · exact Or.inr ⟨z, Or.inr hz, h⟩
    · rintro (h | ⟨z, hz | hz, hn, h | h⟩)
      · exact Or.inl (Or.inr h)
      · subst hz; exact Or.inr (Or.inl ⟨z, rfl, hn, h⟩)
      · subst hz; exact Or.inl (Or.inl ⟨hn, h⟩)
      · exact Or.inr (Or.inr ⟨z, hz, hn, Or.inl h⟩)
      · exact Or.inr (Or.inr ⟨z, hz, hn, Or.inr h⟩)

end Dnssec
end Model

import Proofs.ParseSection
/-! Render-then-parse of a whole message (absolute names, no OPT/TSIG, not an update): the parser returns the
message again, up to the ASCII case of names that were compressed against differently-cased earlier occurrences. -/
namespace Model

variable {Rs : RelSpec}

/-! ### the section loops of the renderer, relative form -/

theorem addItems_rel (items : List Item) : ∀ (s s' : RState), s.addItems items = .ok (s', false) →
    ∃ q, itemsExt s.origin s.out.length s.tbl items = .ok q ∧ s'.out = s.out ++ q.1 ∧ s'.tbl = s.tbl ++ q.2
      ∧ s'.origin = s.origin := by
  induction items with
  | nil =>
    intro s s' h
    simp [RState.addItems] at h
    subst h
    exact ⟨([], []), rfl, by simp, by simp, rfl⟩
  | cons it rest ih =>
    intro s s' h
    unfold RState.addItems at h
    cases hr : s.addItem it with
    | err e => rw [hr] at h; simp at h
    | tooBig s1 => rw [hr] at h; simp at h
    | ok s1 =>
      rw [hr] at h
      simp only at h
      rw [addItem_rel] at hr
      cases hsec : s.setSection it.sec with
      | error e => rw [hsec] at hr; simp at hr
      | ok s0 =>
        obtain ⟨rfl, _⟩ := setSection_ok hsec
        rw [hsec] at hr
        simp only at hr
        cases hext : itemExt s.out.length s.tbl s.origin it with
        | error e => rw [hext] at hr; simp at hr
        | ok p =>
          rw [hext] at hr
          simp only at hr
          unfold RState.endTrack at hr
          split at hr
          · simp at hr
          · simp at hr
            subst hr
            obtain ⟨q, hq, ho, ht, hor⟩ := ih _ s' h
            simp only at hq ho ht hor
            have hl : (s.out ++ p.1).length = s.out.length + p.1.length := by simp
            rw [hl] at hq
            refine ⟨(p.1 ++ q.1, p.2.1 ++ q.2), ?_, by rw [ho]; simp, by rw [ht]; simp, hor⟩
            simp only [itemsExt, hext, hq]

/-! ### questions -/

structure QOk (Rs : RelSpec) (r : RRset) : Prop where
  name : NameOk Rs none r.name
  rdtype : r.rdtype < 65536
  rdclass : r.rdclass < 65536
  covers : r.covers = 0
  deleting : r.deleting = none
  ttl : r.ttl = 0
  rdatas : r.rdatas = []

theorem parseQuestions_items (cfg : PCfg) (horg : cfg.origin = none) (qs : List RRset) :
    ∀ (A post : Bytes) (t : CTable) (q : Bytes × CTable) (st : PState), st.cur = A.length →
      TableSound Rs.R A t → (∀ r ∈ qs, QOk Rs r) →
      itemsExt none A.length t (qs.map fun r => Item.q r.name r.rdtype r.rdclass) = .ok q →
      ∃ qs', parseQuestions cfg false (A ++ q.1 ++ post) qs.length st =
          .ok { st with cur := A.length + q.1.length, q := st.q ++ qs' }
        ∧ SimList (RRset.sim Rs) qs' qs ∧ TableSound Rs.R (A ++ q.1) (t ++ q.2) := by
  induction qs with
  | nil =>
    intro A post t q st hcur hs _ h
    simp [itemsExt] at h
    subst h
    refine ⟨[], ?_, SimList.nil, by simpa using hs⟩
    simp only [parseQuestions, List.length_nil, Nat.add_zero, List.append_nil]
    rw [← hcur]
  | cons r rest ih =>
    intro A post t q st hcur hs hok h
    simp only [List.map_cons, itemsExt, itemExt] at h
    cases h1 : nameExt A.length t r.name none with
    | none => rw [h1] at h; simp at h
    | some q1 =>
      rw [h1] at h; simp only at h
      have hl1 : (q1.1 ++ u16 r.rdtype ++ u16 r.rdclass).length = q1.1.length + 4 := by simp [u16]
      rw [hl1] at h
      cases h2 : itemsExt none (A.length + (q1.1.length + 4)) (t ++ q1.2)
          (rest.map fun r => Item.q r.name r.rdtype r.rdclass) with
      | error e => rw [h2] at h; simp at h
      | ok q2 =>
        rw [h2] at h; simp only at h; cases h
        have hr := hok r (by simp)
        obtain ⟨s1, hat, hwf⟩ := nameExt_at A t r.name q1 hr.name hs h1
        have hW : A ++ (q1.1 ++ u16 r.rdtype ++ u16 r.rdclass ++ q2.1) ++ post
            = (A ++ q1.1) ++ (u16 r.rdtype ++ u16 r.rdclass ++ q2.1 ++ post) := by simp [List.append_assoc]
        have hlW : (A ++ (q1.1 ++ u16 r.rdtype ++ u16 r.rdclass ++ q2.1) ++ post).length
            = A.length + q1.1.length + 4 + q2.1.length + post.length := by simp [u16]; omega
        have hat' := hat.mono (u16 r.rdtype ++ u16 r.rdclass ++ q2.1 ++ post)
        rw [← hW] at hat'
        obtain ⟨n', hg, hn'⟩ := getName_of_NameAt hat' hwf _ (by rw [hlW]; omega) (Nat.le_refl _)
        have st1 : slice (A ++ (q1.1 ++ u16 r.rdtype ++ u16 r.rdclass ++ q2.1) ++ post) (A.length + q1.1.length) 2
            = u16 r.rdtype :=
          slice_at _ (A ++ q1.1) (u16 r.rdtype) (u16 r.rdclass ++ q2.1 ++ post) (by simp [List.append_assoc]) _ _
            (by simp) rfl
        have st2 : slice (A ++ (q1.1 ++ u16 r.rdtype ++ u16 r.rdclass ++ q2.1) ++ post) (A.length + q1.1.length + 2) 2
            = u16 r.rdclass :=
          slice_at _ (A ++ q1.1 ++ u16 r.rdtype) (u16 r.rdclass) (q2.1 ++ post) (by simp [List.append_assoc]) _ _
            (by simp [u16]; omega) rfl
        -- the remaining questions
        have hA' : (A ++ (q1.1 ++ u16 r.rdtype ++ u16 r.rdclass)).length = A.length + (q1.1.length + 4) := by
          simp [u16]
        have hs' : TableSound Rs.R (A ++ (q1.1 ++ u16 r.rdtype ++ u16 r.rdclass)) (t ++ q1.2) := by
          have := s1.mono (u16 r.rdtype ++ u16 r.rdclass)
          simpa [List.append_assoc] using this
        obtain ⟨qs', hp2, hsims, hs2⟩ := ih (A ++ (q1.1 ++ u16 r.rdtype ++ u16 r.rdclass)) post (t ++ q1.2) q2
          { st with cur := A.length + q1.1.length + 4,
                    q := st.q ++ [{ name := n', rdclass := r.rdclass, rdtype := r.rdtype }] }
          (by rw [hA']; simp; omega) hs' (fun x hx => hok x (by simp [hx])) (by rw [hA']; exact h2)
        refine ⟨{ name := n', rdclass := r.rdclass, rdtype := r.rdtype } :: qs', ?_, ?_, by simpa [List.append_assoc] using hs2⟩
        · simp only [List.length_cons, parseQuestions]
          unfold parseQuestion
          rw [hcur, hg]
          simp only [horg, relTo]
          have c4 : ¬ ((A ++ (q1.1 ++ u16 r.rdtype ++ u16 r.rdclass ++ q2.1) ++ post).length - (A.length + q1.1.length) < 4) := by
            rw [hlW]; omega
          simp only [c4, if_false, st1, st2, beVal_u16 _ hr.rdtype, beVal_u16 _ hr.rdclass, parseRRHeader,
            Bool.not_false, if_true, sectionAdd, id]
          have hW3 : A ++ (q1.1 ++ u16 r.rdtype ++ u16 r.rdclass ++ q2.1) ++ post
              = A ++ (q1.1 ++ u16 r.rdtype ++ u16 r.rdclass) ++ q2.1 ++ post := by simp [List.append_assoc]
          rw [hW3, hp2]
          simp [List.length_append, u16, Nat.add_assoc, List.append_assoc]
          omega
        · refine SimList.cons ?_ hsims
          exact ⟨hn', rfl, rfl, hr.covers.symm, hr.deleting.symm, hr.ttl.symm, by rw [hr.rdatas]; exact SimList.nil⟩

end Model

namespace Model

variable {Rs : RelSpec}

/-- well-formed message for the first render-then-parse theorem -/
structure MsgOk (Rs : RelSpec) (m : Message) : Prop where
  origin : m.origin = none
  id : m.id < 65536
  flags : m.flags < 65536
  notUpdate : isUpdate m.flags = false
  noOpt : m.opt = none
  noTsig : m.tsig = none
  q : ∀ r ∈ m.q, QOk Rs r
  an : ∀ r ∈ m.an, RRsetOk Rs r
  au : ∀ r ∈ m.au, RRsetOk Rs r
  ad : ∀ r ∈ m.ad, RRsetOk Rs r
  keysAn : m.an.Pairwise (fun a b => keyMatch b.name b.rdclass b.rdtype b.covers none a = false)
  keysAu : m.au.Pairwise (fun a b => keyMatch b.name b.rdclass b.rdtype b.covers none a = false)
  keysAd : m.ad.Pairwise (fun a b => keyMatch b.name b.rdclass b.rdtype b.covers none a = false)
  counts : m.q.length < 65536 ∧ rrCount m.an < 65536 ∧ rrCount m.au < 65536 ∧ rrCount m.ad < 65536

/-- equal up to the ASCII case of names -/
def Message.sim (Rs : RelSpec) (a b : Message) : Prop :=
  a.id = b.id ∧ a.flags = b.flags ∧ SimList (RRset.sim Rs) a.q b.q ∧ SimList (RRset.sim Rs) a.an b.an ∧
    SimList (RRset.sim Rs) a.au b.au ∧ SimList (RRset.sim Rs) a.ad b.ad ∧ a.opt = b.opt ∧ a.tsig = b.tsig

theorem base_out (m : Message) (L a b : Nat) (r : RState) (h : m.base L a b = .ok r) :
    r.out = List.replicate 12 0 ∧ r.tbl = [] ∧ r.origin = m.origin := by
  have h := base_ok h
  unfold Message.base0 at h
  split at h
  · simp at h
  · rename_i r1 h1
    obtain ⟨rfl, _⟩ := reserve_ok h1
    obtain ⟨rfl, _⟩ := reserve_ok h
    exact ⟨rfl, rfl, rfl⟩

/-- the wire form of a message without OPT/TSIG: the twelve header octets followed by the rendered items -/
theorem toWire_shape (m : Message) (lim : Nat) (w : Bytes) (hopt : m.opt = none) (hts : m.tsig = none)
    (h : m.toWire lim false = .ok w) :
    ∃ q, itemsExt m.origin 12 [] m.items = .ok q ∧
      w = u16 m.id ++ u16 m.flags ++ u16 m.q.length ++ u16 (rrCount m.an) ++ u16 (rrCount m.au) ++ u16 (rrCount m.ad) ++ q.1 := by
  rw [toWire_eq] at h
  have hb : m.tsigReserve = .ok 0 := by simp [Message.tsigReserve, hts]
  rw [hb] at h
  simp only at h
  rw [renderSections_eq] at h
  cases hbase : m.base (clampSize lim m.requestPayload) m.optReserve 0 with
  | error e => rw [hbase] at h; simp at h
  | ok r2 =>
    rw [hbase] at h
    simp only at h
    obtain ⟨c0, i0, f0⟩ := base_fields m _ _ _ r2 hbase
    obtain ⟨hi2, _, _⟩ := base_inv m _ _ _ r2 hbase
    obtain ⟨o2, t2, og2⟩ := base_out m _ _ _ r2 hbase
    cases hit : r2.addItems m.items with
    | error e => rw [hit] at h; simp at h
    | ok p =>
      obtain ⟨r3, big⟩ := p
      rw [hit] at h
      simp only at h
      cases big with
      | true => simp [RState.afterItems] at h
      | false =>
        simp only [RState.afterItems, Bool.false_eq_true, if_false] at h
        obtain ⟨q, hq, ho, _, _⟩ := addItems_rel _ _ _ hit
        have hc := addItems_counts _ _ _ hit
        obtain ⟨_, _, _, i3, f3, _, _⟩ := addItems_inv _ _ _ _ hi2 hit
        rw [c0, countItems_message] at hc
        rw [o2, t2, og2] at hq
        simp only [List.length_replicate] at hq
        refine ⟨q, hq, ?_⟩
        unfold finishOut RState.finish at h
        simp only [hopt, hts] at h
        simp at h
        rw [← h]
        simp only [RState.writeHeader, RState.releaseReserved, hc, i3, i0, f3, f0, ho, o2]
        rw [List.drop_append_of_le_length (by simp)]
        simp

end Model

namespace Model

variable {Rs : RelSpec}

theorem tableSound_nil (A : Bytes) : TableSound Rs.R A [] := by
  intro p hp; simp at hp

theorem keys_nil (rs : List RRset) : ∀ r ∈ rs, ∀ x ∈ ([] : List RRset), keyMatch r.name r.rdclass r.rdtype r.covers none x = false := by
  intro r _ x hx; simp at hx

/-- render-then-parse, absolute names, no OPT/TSIG, not an update -/
theorem parse_toWire (m : Message) (lim : Nat) (w : Bytes) (hok : MsgOk Rs m) (h : m.toWire lim false = .ok w)
    (cfg : PCfg) (horg : cfg.origin = none) (hnorr : cfg.oneRRPerRRset = false) :
    ∃ m', parseMessage cfg w = .ok m' ∧ m'.sim Rs m := by
  obtain ⟨q, hq, hw⟩ := toWire_shape m lim w hok.noOpt hok.noTsig h
  rw [hok.origin] at hq
  -- split the items by section
  simp only [Message.items] at hq
  rw [itemsExt_append, itemsExt_append, itemsExt_append] at hq
  cases hqq : itemsExt none 12 [] (m.q.map fun r => Item.q r.name r.rdtype r.rdclass) with
  | error e => rw [hqq] at hq; simp at hq
  | ok qq =>
    rw [hqq] at hq; simp only at hq
    cases hqa : itemsExt none (12 + qq.1.length) ([] ++ qq.2) (m.an.map (Item.rr 1)) with
    | error e => rw [hqa] at hq; simp at hq
    | ok qa =>
      rw [hqa] at hq; simp only at hq
      cases hqu : itemsExt none (12 + (qq.1 ++ qa.1).length) ([] ++ (qq.2 ++ qa.2)) (m.au.map (Item.rr 2)) with
      | error e => rw [hqu] at hq; simp at hq
      | ok qu =>
        rw [hqu] at hq; simp only at hq
        cases hqd : itemsExt none (12 + (qq.1 ++ qa.1 ++ qu.1).length) ([] ++ (qq.2 ++ qa.2 ++ qu.2)) (m.ad.map (Item.rr 3)) with
        | error e => rw [hqd] at hq; simp at hq
        | ok qd =>
          rw [hqd] at hq; simp only at hq; cases hq
          -- the header
          let H := u16 m.id ++ u16 m.flags ++ u16 m.q.length ++ u16 (rrCount m.an) ++ u16 (rrCount m.au) ++ u16 (rrCount m.ad)
          have hH : H.length = 12 := by simp [H, u16]
          have hw' : w = H ++ qq.1 ++ qa.1 ++ qu.1 ++ qd.1 := by rw [hw]; simp [H, List.append_assoc]
          obtain ⟨cq, can, cau, cad⟩ := hok.counts
          have s0 : slice w 0 2 = u16 m.id :=
            slice_at _ [] (u16 m.id) (u16 m.flags ++ u16 m.q.length ++ u16 (rrCount m.an) ++ u16 (rrCount m.au) ++ u16 (rrCount m.ad) ++ (qq.1 ++ qa.1 ++ qu.1 ++ qd.1))
              (by rw [hw]; simp [List.append_assoc]) _ _ rfl rfl
          have s2 : slice w 2 2 = u16 m.flags :=
            slice_at _ (u16 m.id) (u16 m.flags) (u16 m.q.length ++ u16 (rrCount m.an) ++ u16 (rrCount m.au) ++ u16 (rrCount m.ad) ++ (qq.1 ++ qa.1 ++ qu.1 ++ qd.1))
              (by rw [hw]; simp [List.append_assoc]) _ _ rfl rfl
          have s4 : slice w 4 2 = u16 m.q.length :=
            slice_at _ (u16 m.id ++ u16 m.flags) (u16 m.q.length) (u16 (rrCount m.an) ++ u16 (rrCount m.au) ++ u16 (rrCount m.ad) ++ (qq.1 ++ qa.1 ++ qu.1 ++ qd.1))
              (by rw [hw]; simp [List.append_assoc]) _ _ rfl rfl
          have s6 : slice w 6 2 = u16 (rrCount m.an) :=
            slice_at _ (u16 m.id ++ u16 m.flags ++ u16 m.q.length) (u16 (rrCount m.an)) (u16 (rrCount m.au) ++ u16 (rrCount m.ad) ++ (qq.1 ++ qa.1 ++ qu.1 ++ qd.1))
              (by rw [hw]; simp [List.append_assoc]) _ _ rfl rfl
          have s8 : slice w 8 2 = u16 (rrCount m.au) :=
            slice_at _ (u16 m.id ++ u16 m.flags ++ u16 m.q.length ++ u16 (rrCount m.an)) (u16 (rrCount m.au)) (u16 (rrCount m.ad) ++ (qq.1 ++ qa.1 ++ qu.1 ++ qd.1))
              (by rw [hw]; simp [List.append_assoc]) _ _ rfl rfl
          have s10 : slice w 10 2 = u16 (rrCount m.ad) :=
            slice_at _ (u16 m.id ++ u16 m.flags ++ u16 m.q.length ++ u16 (rrCount m.an) ++ u16 (rrCount m.au)) (u16 (rrCount m.ad)) (qq.1 ++ qa.1 ++ qu.1 ++ qd.1)
              (by rw [hw]) _ _ rfl rfl
          -- questions
          rw [← hH] at hqq
          obtain ⟨qs', hpq, hsq, hsndq⟩ := parseQuestions_items cfg horg m.q H (qa.1 ++ qu.1 ++ qd.1) [] qq
            { cur := 12 } (by simp [hH]) (tableSound_nil H) hok.q hqq
          have hwq : H ++ qq.1 ++ (qa.1 ++ qu.1 ++ qd.1) = w := by rw [hw']; simp [List.append_assoc]
          rw [hwq] at hpq
          -- answer
          have hlA1 : (H ++ qq.1).length = 12 + qq.1.length := by simp [hH]
          rw [← hlA1] at hqa
          obtain ⟨an', hpa, hsa, hsnda⟩ := parseSection_rrsets cfg horg hnorr 1 m.an (H ++ qq.1) (qu.1 ++ qd.1)
            ([] ++ qq.2) qa (rrCount m.an) 0
            { cur := H.length + qq.1.length, q := [] ++ qs' } [] (by simp) hsndq (by simp [PState.section])
            hok.an (keys_nil m.an) hok.keysAn hqa
          have hwa : H ++ qq.1 ++ qa.1 ++ (qu.1 ++ qd.1) = w := by rw [hw']; simp [List.append_assoc]
          rw [hwa] at hpa
          -- authority
          have hlA2 : (H ++ qq.1 ++ qa.1).length = 12 + (qq.1 ++ qa.1).length := by simp [hH] <;> omega
          rw [← hlA2] at hqu
          have hsnda' : TableSound Rs.R (H ++ qq.1 ++ qa.1) ([] ++ (qq.2 ++ qa.2)) := by
            simpa [List.append_assoc] using hsnda
          obtain ⟨au', hpu, hsu, hsndu⟩ := parseSection_rrsets cfg horg hnorr 2 m.au (H ++ qq.1 ++ qa.1) qd.1
            ([] ++ (qq.2 ++ qa.2)) qu (rrCount m.au) 0
            (({ ({ cur := H.length + qq.1.length, q := [] ++ qs' } : PState) with cur := (H ++ qq.1).length + qa.1.length } : PState).setSection 1 ([] ++ an'))
            [] (by simp [PState.setSection] <;> omega) hsnda' (by simp [PState.section, PState.setSection])
            hok.au (keys_nil m.au) hok.keysAu hqu
          have hwu : H ++ qq.1 ++ qa.1 ++ qu.1 ++ qd.1 = w := by rw [hw']
          rw [hwu] at hpu
          -- additional
          have hlA3 : (H ++ qq.1 ++ qa.1 ++ qu.1).length = 12 + (qq.1 ++ qa.1 ++ qu.1).length := by simp [hH] <;> omega
          rw [← hlA3] at hqd
          have hsndu' : TableSound Rs.R (H ++ qq.1 ++ qa.1 ++ qu.1) ([] ++ (qq.2 ++ qa.2 ++ qu.2)) := by
            simpa [List.append_assoc] using hsndu
          obtain ⟨ad', hpd, hsd, _⟩ := parseSection_rrsets cfg horg hnorr 3 m.ad (H ++ qq.1 ++ qa.1 ++ qu.1) []
            ([] ++ (qq.2 ++ qa.2 ++ qu.2)) qd (rrCount m.ad) 0
            (({ (({ ({ cur := H.length + qq.1.length, q := [] ++ qs' } : PState) with cur := (H ++ qq.1).length + qa.1.length } : PState).setSection 1 ([] ++ an')) with cur := (H ++ qq.1 ++ qa.1).length + qu.1.length } : PState).setSection 2 ([] ++ au'))
            [] (by simp [PState.setSection] <;> omega) hsndu' (by simp [PState.section, PState.setSection])
            hok.ad (keys_nil m.ad) hok.keysAd hqd
          have hwd : H ++ qq.1 ++ qa.1 ++ qu.1 ++ qd.1 ++ [] = w := by rw [hw']; simp
          rw [hwd] at hpd
          -- assemble
          refine ⟨{ id := m.id, flags := m.flags, origin := cfg.origin, q := qs', an := an', au := au', ad := ad' }, ?_,
            rfl, rfl, hsq, hsa, hsu, hsd, by simp [hok.noOpt], by simp [hok.noTsig]⟩
          unfold parseMessage
          have hwl : ¬ w.length < 12 := by rw [hw']; simp [hH] <;> omega
          simp only [hwl, if_false, s0, s2, s4, s6, s8, s10, beVal_u16 _ hok.id, beVal_u16 _ hok.flags, beVal_u16 _ cq,
            beVal_u16 _ can, beVal_u16 _ cau, beVal_u16 _ cad, hok.notUpdate, hpq, hpa, hpu, hpd]
          simp only [PState.setSection]
          simp
          intro _
          rw [hw']; simp only [List.length_append]; omega

end Model

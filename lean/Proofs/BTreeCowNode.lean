import Proofs.BTreeCowHeap
/-!
Mechanism-level proofs, part 2: an owned internal node seen through one of its children —
`maybe_cow_child`, and the composition lemma for an in-place update of that child.
-/
namespace Model.BTreeCow
open Model.BTree

/-- the subtree at `a` is well formed, shares nothing with itself, and its top cell is owned by `c` -/
structure Good (c : Nat) (H : Heap) (h a : Nat) : Prop where
  ht : HT H h a
  nodup : (reach H h a).Nodup
  own : (rd H a).creator = c

theorem kidA_at {l r : List Nat} {x : Nat} {n : Nat} (h : l.length = n) : kidA (l ++ x :: r) n = x := by
  subst h; simp [kidA, List.getD]

/-- heaps that agree outside the addresses `W` -/
structure SameOff (W : List Nat) (H H' : Heap) : Prop where
  size : H.size ≤ H'.size
  same : ∀ x, x < H.size → x ∉ W → rd H' x = rd H x

theorem SameOff.refl (H : Heap) : SameOff [] H H := ⟨Nat.le_refl _, fun _ _ _ => rfl⟩

theorem SameOff.wr {W : List Nat} {H H' : Heap} (s : SameOff W H H') (a : Nat) (c : Cell) :
    SameOff (a :: W) H (wr H' a c) := by
  refine ⟨by simpa using s.size, ?_⟩
  intro x hx hn
  simp only [List.mem_cons, not_or] at hn
  rw [rd_wr_other c (Ne.symm hn.1)]
  exact s.same x hx hn.2

theorem SameOff.alloc {W : List Nat} {H H' : Heap} (s : SameOff W H H') (c : Cell) :
    SameOff W H (alloc H' c).1 := by
  refine ⟨by have := s.size; simp; omega, ?_⟩
  intro x hx hn
  rw [rd_alloc_old c (by have := s.size; omega)]
  exact s.same x hx hn

theorem SameOff.mono {W W' : List Nat} {H H' : Heap} (s : SameOff W H H') (h : ∀ x ∈ W, x ∈ W') :
    SameOff W' H H' :=
  ⟨s.size, fun x hx hn => s.same x hx (fun hw => hn (h x hw))⟩

/-- a subtree that avoids the written addresses is unchanged -/
theorem frame_off {W : List Nat} {H H' : Heap} (s : SameOff W H H') {h a : Nat} (ht : HT H h a)
    (hdis : ∀ x ∈ reach H h a, x ∉ W) :
    absN H' h a = absN H h a ∧ reach H' h a = reach H h a ∧ HT H' h a := by
  have := frame s.size h a (fun x hx => s.same x (reach_lt ht x hx) (hdis x hx))
  exact ⟨this.1, this.2.1, this.2.2 ht⟩

/-! ## unfolding one level of an internal node -/

theorem reach_succ (H : Heap) (h a : Nat) : reach H (h + 1) a = a :: (rd H a).kids.flatMap (reach H h) := rfl
theorem absN_succ (H : Heap) (h a : Nat) :
    absN H (h + 1) a = .node (rd H a).elts ((rd H a).kids.map (absN H h)) := rfl

theorem HT_kid {H : Heap} {h a k : Nat} (ht : HT H (h + 1) a) (hk : k ∈ (rd H a).kids) : HT H h k :=
  ht.2.2.2 k hk

theorem reach_kid_sub {H : Heap} {h a k : Nat} (hk : k ∈ (rd H a).kids) :
    ∀ x ∈ reach H h k, x ∈ reach H (h + 1) a := by
  intro x hx
  simp only [reach_succ, List.mem_cons, List.mem_flatMap]
  exact Or.inr ⟨k, hk, hx⟩

/-- in a subtree without sharing, the top cell is not below any of its children -/
theorem self_notin_kid {H : Heap} {h a k : Nat} (nd : (reach H (h + 1) a).Nodup) (hk : k ∈ (rd H a).kids) :
    a ∉ reach H h k := by
  rw [reach_succ, List.nodup_cons] at nd
  intro hx
  exact nd.1 (List.mem_flatMap.mpr ⟨k, hk, hx⟩)

theorem nodup_kid {H : Heap} {h a : Nat} {kl kr : List Nat} {k : Nat}
    (nd : (reach H (h + 1) a).Nodup) (hk : (rd H a).kids = kl ++ k :: kr) :
    (reach H h k).Nodup ∧ (∀ x ∈ reach H h k, ∀ j ∈ kl ++ kr, x ∉ reach H h j) := by
  rw [reach_succ, List.nodup_cons, hk] at nd
  have nd2 := nd.2
  simp only [List.flatMap_append, List.flatMap_cons, List.nodup_append, List.mem_append] at nd2
  obtain ⟨_, ⟨hk1, _, hk3⟩, h3⟩ := nd2
  refine ⟨hk1, ?_⟩
  intro x hx j hj hxj
  rcases List.mem_append.mp hj with hj | hj
  · exact h3 x (List.mem_flatMap.mpr ⟨j, hj, hxj⟩) x (Or.inl hx) rfl
  · exact hk3 x hx x (List.mem_flatMap.mpr ⟨j, hj, hxj⟩) rfl

/-! ## `maybe_cow`, `maybe_cow_child` -/

/-- `parent.maybe_cow_child(i)`: afterwards the child at index `i` is owned by the parent's creator; the
parent represents the same persistent node and nothing else changed. -/
theorem cowChild_spec {c : Nat} {H : Heap} {h p : Nat} {kl kr : List Nat} {k : Nat} (g : Good c H (h + 1) p)
    (hk : (rd H p).kids = kl ++ k :: kr) :
    ∃ k1, cowChild H p kl.length = ((cowChild H p kl.length).1, k1) ∧
      Upd c H (cowChild H p kl.length).1 (h + 1) p (absN H (h + 1) p) ∧
      (rd (cowChild H p kl.length).1 p).kids = kl ++ k1 :: kr ∧
      (rd (cowChild H p kl.length).1 p).elts = (rd H p).elts ∧
      Good c (cowChild H p kl.length).1 h k1 ∧
      absN (cowChild H p kl.length).1 h k1 = absN H h k ∧
      (rd (cowChild H p kl.length).1 k1).elts = (rd H k).elts ∧
      (rd (cowChild H p kl.length).1 k1).kids = (rd H k).kids ∧
      (rd (cowChild H p kl.length).1 k1).leaf = (rd H k).leaf ∧
      SameOff [p] H (cowChild H p kl.length).1 ∧ (k1 = k ∨ k1 = H.size) := by
  have hkmem : k ∈ (rd H p).kids := by rw [hk]; simp
  have htk := HT_kid g.ht hkmem
  have hklt := HT_lt htk
  have hplt := HT_lt g.ht
  obtain ⟨ndk, ndis⟩ := nodup_kid g.nodup hk
  have hpk : p ∉ reach H h k := self_notin_kid g.nodup hkmem
  have hkid : kidA (rd H p).kids kl.length = k := by rw [hk]; exact kidA_at rfl
  unfold cowChild
  simp only [hkid, g.own]
  by_cases hown : (rd H k).creator = c
  · -- already owned: nothing happens
    simp only [cow, hown, if_true]
    refine ⟨k, ?_, Upd.refl g.ht g.nodup, hk, ?_, ⟨htk, ndk, hown⟩, ?_, ?_, ?_, ?_, (SameOff.refl H).mono (by simp), Or.inl rfl⟩ <;> first | rfl | trivial
  · -- copy the child into a fresh cell and store the copy in the parent
    have hne : H.size ≠ k := by omega
    simp only [cow, hown, if_false, alloc_snd, hne]
    let Ha := (alloc H { rd H k with creator := c }).1
    have hHa : Ha = (alloc H { rd H k with creator := c }).1 := rfl
    have hrdp : rd Ha p = rd H p := rd_alloc_old _ hplt
    have hnew : rd Ha H.size = { rd H k with creator := c } := rd_alloc_new _ _
    rw [← hHa, hrdp, hk, setAt_at rfl]
    let P' : Cell := { rd H p with kids := kl ++ H.size :: kr }
    let H1 := wr Ha p P'
    have hH1 : H1 = wr Ha p P' := rfl
    rw [← hH1]
    have hpa : p < Ha.size := by simp [Ha]; omega
    have so : SameOff [p] H H1 := (SameOff.alloc (SameOff.refl H) _).wr p P'
    have hrd1p : rd H1 p = P' := rd_wr_same _ hpa
    have hrd1n : rd H1 H.size = { rd H k with creator := c } := by
      rw [hH1, rd_wr_other _ (show p ≠ H.size by omega)]; exact hnew
    -- every subtree below `p` that does not contain `p` is unchanged
    have hfr : ∀ j, j ∈ (rd H p).kids → absN H1 h j = absN H h j ∧ reach H1 h j = reach H h j ∧ HT H1 h j := by
      intro j hj
      apply frame_off so (HT_kid g.ht hj)
      intro x hx hxp
      simp at hxp; subst hxp
      exact self_notin_kid g.nodup hj hx
    -- the copy has the same children, so it represents the same node and reaches the same cells below it
    have hcopy : absN H1 h H.size = absN H h k ∧
        (∀ x ∈ reach H1 h H.size, x = H.size ∨ x ∈ reach H h k) ∧ (reach H1 h H.size).Nodup ∧ HT H1 h H.size := by
      cases h with
      | zero =>
        refine ⟨by simp [absN, hrd1n], by simp [reach], by simp [reach], ?_⟩
        exact ⟨by simp [H1, Ha], by rw [hrd1n]; exact htk.2⟩
      | succ h =>
        have hgk : ∀ g' ∈ (rd H k).kids, absN H1 h g' = absN H h g' ∧ reach H1 h g' = reach H h g' ∧ HT H1 h g' := by
          intro g' hg'
          apply frame_off so (HT_kid htk hg')
          intro x hx hxp
          simp at hxp; subst hxp
          exact hpk (reach_kid_sub hg' x hx)
        have hmapa : (rd H k).kids.map (absN H1 h) = (rd H k).kids.map (absN H h) :=
          List.map_congr_left (fun g' hg' => (hgk g' hg').1)
        have hmapr : (rd H k).kids.flatMap (reach H1 h) = (rd H k).kids.flatMap (reach H h) := by
          rw [List.flatMap_def, List.flatMap_def]; congr 1
          exact List.map_congr_left (fun g' hg' => (hgk g' hg').2.1)
        refine ⟨by simp [absN_succ, hrd1n, hmapa], ?_, ?_, ?_⟩
        · intro x hx
          simp only [reach_succ, hrd1n, hmapr, List.mem_cons] at hx ⊢
          rcases hx with hx | hx
          · exact Or.inl hx
          · exact Or.inr (Or.inr hx)
        · simp only [reach_succ, hrd1n, hmapr, List.nodup_cons]
          have ndk' := ndk
          simp only [reach_succ, List.nodup_cons] at ndk'
          refine ⟨?_, ndk'.2⟩
          intro hx
          have := reach_lt htk H.size (by simp only [reach_succ, List.mem_cons]; exact Or.inr hx)
          omega
        · refine ⟨by simp [H1, Ha], by rw [hrd1n]; exact htk.2.1, by rw [hrd1n]; exact htk.2.2.1, ?_⟩
          rw [hrd1n]
          intro g' hg'
          exact (hgk g' hg').2.2
    obtain ⟨hc1, hc2, hc3, hc4⟩ := hcopy
    refine ⟨H.size, rfl, ?_, by rw [hrd1p], by rw [hrd1p], ⟨hc4, hc3, by rw [hrd1n]⟩, hc1, by rw [hrd1n],
      by rw [hrd1n], by rw [hrd1n], so, Or.inr rfl⟩
    -- the parent
    have hjl : ∀ j ∈ kl, j ∈ (rd H p).kids := fun j hj => by rw [hk]; simp [hj]
    have hjr : ∀ j ∈ kr, j ∈ (rd H p).kids := fun j hj => by rw [hk]; simp [hj]
    have hmapl : kl.flatMap (reach H1 h) = kl.flatMap (reach H h) := by
      rw [List.flatMap_def, List.flatMap_def]; congr 1
      exact List.map_congr_left (fun j hj => (hfr j (hjl j hj)).2.1)
    have hmapr : kr.flatMap (reach H1 h) = kr.flatMap (reach H h) := by
      rw [List.flatMap_def, List.flatMap_def]; congr 1
      exact List.map_congr_left (fun j hj => (hfr j (hjr j hj)).2.1)
    have hreach1 : reach H1 (h + 1) p =
        p :: (kl.flatMap (reach H h) ++ reach H1 h H.size ++ kr.flatMap (reach H h)) := by
      simp [reach_succ, hrd1p, P', hmapl, hmapr]
    have hreach0 : reach H (h + 1) p =
        p :: (kl.flatMap (reach H h) ++ reach H h k ++ kr.flatMap (reach H h)) := by
      simp [reach_succ, hk]
    have hfreshnot : ∀ x ∈ reach H (h + 1) p, x ≠ H.size := by
      intro x hx hxe
      have := reach_lt g.ht x hx
      omega
    refine ⟨so.size, ?_, ?_, ?_, ?_, ?_, ?_, ?_⟩
    · intro x hx hcond
      by_cases hxp : x = p
      · subst hxp
        rcases hcond with hc | hc
        · exact absurd (self_mem_reach H (h + 1) x) hc
        · exact absurd g.own hc
      · exact so.same x hx (by simp [hxp])
    · intro x hx
      by_cases hxp : x = p
      · subst hxp; rw [hrd1p]
      · rw [so.same x hx (by simp [hxp])]
    · intro x hx1 hx2
      have : x = H.size := by simp [H1, Ha] at hx2; omega
      subst this
      rw [hrd1n]
    · refine ⟨by have := so.size; omega, by rw [hrd1p]; exact g.ht.2.1, ?_, ?_⟩
      · rw [hrd1p]
        have := g.ht.2.2.1
        rw [hk] at this
        simpa [P'] using this
      · rw [hrd1p]
        intro j hj
        simp only [P', List.mem_append, List.mem_cons] at hj
        rcases hj with hj | rfl | hj
        · exact (hfr j (hjl j hj)).2.2
        · exact hc4
        · exact (hfr j (hjr j hj)).2.2
    · rw [hreach1]
      have nd0 := g.nodup
      rw [hreach0] at nd0
      simp only [List.nodup_cons, List.nodup_append, List.mem_append, not_or] at nd0 ⊢
      obtain ⟨⟨⟨hp1, hp2⟩, hp3⟩, ⟨⟨n1, n2, n3⟩, n4, n5⟩⟩ := nd0
      refine ⟨⟨⟨hp1, ?_⟩, hp3⟩, ⟨⟨n1, hc3, ?_⟩, n4, ?_⟩⟩
      · intro hx
        rcases hc2 p hx with h' | h'
        · omega
        · exact hp2 h'
      · intro a ha b hb hab
        subst hab
        rcases hc2 a hb with h' | h'
        · exact hfreshnot a (by rw [hreach0]; simp [ha]) h'
        · exact n3 a ha a h' rfl
      · intro a ha b hb hab
        subst hab
        rcases ha with ha | ha
        · exact n5 a (Or.inl ha) a hb rfl
        · rcases hc2 a ha with h' | h'
          · exact hfreshnot a (by rw [hreach0]; simp [hb]) h'
          · exact n5 a (Or.inr h') a hb rfl
    · intro x hx
      rw [hreach1] at hx
      rw [hreach0]
      simp only [List.mem_cons, List.mem_append] at hx ⊢
      rcases hx with hx | (hx | hx) | hx
      · exact Or.inl (Or.inl hx)
      · exact Or.inl (Or.inr (Or.inl (Or.inl hx)))
      · rcases hc2 x hx with h' | h'
        · right; omega
        · exact Or.inl (Or.inr (Or.inl (Or.inr h')))
      · exact Or.inl (Or.inr (Or.inr hx))
    · simp only [absN_succ, hrd1p, P', hk, List.map_append, List.map_cons, hc1]
      congr 2
      · exact List.map_congr_left (fun j hj => (hfr j (hjl j hj)).1)
      · congr 1
        exact List.map_congr_left (fun j hj => (hfr j (hjr j hj)).1)

/-- an in-place update of one child, seen from the (owned) parent: the parent now represents the same node
with that child replaced, and the footprint stays inside the parent's subtree -/
theorem upd_child {c : Nat} {H H2 : Heap} {h p : Nat} {kl kr : List Nat} {k : Nat} {n' : Node}
    (g : Good c H (h + 1) p) (hk : (rd H p).kids = kl ++ k :: kr) (u : Upd c H H2 h k n') :
    Upd c H H2 (h + 1) p (.node (rd H p).elts (kl.map (absN H h) ++ n' :: kr.map (absN H h))) ∧
    rd H2 p = rd H p := by
  have hkmem : k ∈ (rd H p).kids := by rw [hk]; simp
  have hplt := HT_lt g.ht
  obtain ⟨ndk, ndis⟩ := nodup_kid g.nodup hk
  have hpk : p ∉ reach H h k := self_notin_kid g.nodup hkmem
  have hrdp : rd H2 p = rd H p := u.same p hplt (Or.inl hpk)
  have hjl : ∀ j ∈ kl, j ∈ (rd H p).kids := fun j hj => by rw [hk]; simp [hj]
  have hjr : ∀ j ∈ kr, j ∈ (rd H p).kids := fun j hj => by rw [hk]; simp [hj]
  have hfr : ∀ j ∈ kl ++ kr, absN H2 h j = absN H h j ∧ reach H2 h j = reach H h j ∧ HT H2 h j := by
    intro j hj
    have hjm : j ∈ (rd H p).kids := by
      rcases List.mem_append.mp hj with hj | hj
      · exact hjl j hj
      · exact hjr j hj
    have htj := HT_kid g.ht hjm
    have := frame u.size h j (fun x hx => u.same x (reach_lt htj x hx) (Or.inl (fun hxk => ndis x hxk j hj hx)))
    exact ⟨this.1, this.2.1, this.2.2 htj⟩
  have hmapl : kl.flatMap (reach H2 h) = kl.flatMap (reach H h) := by
    rw [List.flatMap_def, List.flatMap_def]; congr 1
    exact List.map_congr_left (fun j hj => (hfr j (by simp [hj])).2.1)
  have hmapr : kr.flatMap (reach H2 h) = kr.flatMap (reach H h) := by
    rw [List.flatMap_def, List.flatMap_def]; congr 1
    exact List.map_congr_left (fun j hj => (hfr j (by simp [hj])).2.1)
  have hreach2 : reach H2 (h + 1) p =
      p :: (kl.flatMap (reach H h) ++ reach H2 h k ++ kr.flatMap (reach H h)) := by
    simp [reach_succ, hrdp, hk, hmapl, hmapr]
  have hreach0 : reach H (h + 1) p =
      p :: (kl.flatMap (reach H h) ++ reach H h k ++ kr.flatMap (reach H h)) := by
    simp [reach_succ, hk]
  have hold : ∀ x ∈ reach H (h + 1) p, x < H.size := reach_lt g.ht
  refine ⟨⟨u.size, ?_, u.creator, u.fresh, ?_, ?_, ?_, ?_⟩, hrdp⟩
  · intro x hx hcond
    apply u.same x hx
    rcases hcond with hc | hc
    · exact Or.inl (fun hxk => hc (reach_kid_sub hkmem x hxk))
    · exact Or.inr hc
  · refine ⟨by have := u.size; omega, by rw [hrdp]; exact g.ht.2.1, by rw [hrdp]; exact g.ht.2.2.1, ?_⟩
    rw [hrdp, hk]
    intro j hj
    simp only [List.mem_append, List.mem_cons] at hj
    rcases hj with hj | rfl | hj
    · exact (hfr j (by simp [hj])).2.2
    · exact u.ht
    · exact (hfr j (by simp [hj])).2.2
  · rw [hreach2]
    have nd0 := g.nodup
    rw [hreach0] at nd0
    simp only [List.nodup_cons, List.nodup_append, List.mem_append, not_or] at nd0 ⊢
    obtain ⟨⟨⟨hp1, hp2⟩, hp3⟩, ⟨⟨n1, n2, n3⟩, n4, n5⟩⟩ := nd0
    refine ⟨⟨⟨hp1, ?_⟩, hp3⟩, ⟨⟨n1, u.nodup, ?_⟩, n4, ?_⟩⟩
    · intro hx
      rcases u.sub p hx with h' | h'
      · exact hp2 h'
      · omega
    · intro a ha b hb hab
      subst hab
      rcases u.sub a hb with h' | h'
      · exact n3 a ha a h' rfl
      · have := hold a (by rw [hreach0]; simp [ha]); omega
    · intro a ha b hb hab
      subst hab
      rcases ha with ha | ha
      · exact n5 a (Or.inl ha) a hb rfl
      · rcases u.sub a ha with h' | h'
        · exact n5 a (Or.inr h') a hb rfl
        · have := hold a (by rw [hreach0]; simp [hb]); omega
  · intro x hx
    rw [hreach2] at hx
    rw [hreach0]
    simp only [List.mem_cons, List.mem_append] at hx ⊢
    rcases hx with hx | (hx | hx) | hx
    · exact Or.inl (Or.inl hx)
    · exact Or.inl (Or.inr (Or.inl (Or.inl hx)))
    · rcases u.sub x hx with h' | h'
      · exact Or.inl (Or.inr (Or.inl (Or.inr h')))
      · exact Or.inr h'
    · exact Or.inl (Or.inr (Or.inr hx))
  · simp only [absN_succ, hrdp, hk, List.map_append, List.map_cons, u.abs]
    congr 2
    · exact List.map_congr_left (fun j hj => (hfr j (by simp [hj])).1)
    · congr 1
      exact List.map_congr_left (fun j hj => (hfr j (by simp [hj])).1)

/-- rewriting only the elements of an owned cell -/
theorem upd_elts {c : Nat} {H : Heap} {h a : Nat} (g : Good c H h a) (es : List Elt)
    (hlen : h ≠ 0 → es.length = (rd H a).elts.length) :
    Upd c H (wr H a { rd H a with elts := es }) h a
      (match h with | 0 => .leaf es | h' + 1 => .node es ((rd H a).kids.map (absN H h'))) := by
  have halt := HT_lt g.ht
  let H' := wr H a { rd H a with elts := es }
  have so : SameOff [a] H H' := (SameOff.refl H).wr a _
  have hrda : rd H' a = { rd H a with elts := es } := rd_wr_same _ halt
  have hcommon : H.size ≤ H'.size ∧ (∀ x, x < H.size → (x ∉ reach H h a ∨ (rd H x).creator ≠ c) → rd H' x = rd H x) ∧
      (∀ x, x < H.size → (rd H' x).creator = (rd H x).creator) ∧
      (∀ x, H.size ≤ x → x < H'.size → (rd H' x).creator = c) := by
    refine ⟨so.size, ?_, ?_, ?_⟩
    · intro x hx hcond
      by_cases hxa : x = a
      · subst hxa
        rcases hcond with hc | hc
        · exact absurd (self_mem_reach H h x) hc
        · exact absurd g.own hc
      · exact so.same x hx (by simp [hxa])
    · intro x hx
      by_cases hxa : x = a
      · subst hxa; rw [hrda]
      · rw [so.same x hx (by simp [hxa])]
    · intro x h1 h2; simp [H'] at h2; omega
  obtain ⟨c1, c2, c3, c4⟩ := hcommon
  cases h with
  | zero =>
    exact ⟨c1, c2, c3, c4, ⟨by simpa [H'] using halt, by rw [hrda]; exact g.ht.2⟩, by simp [reach],
      fun x hx => Or.inl (by simpa [reach] using hx), by simp [absN, rd_wr_same _ halt]⟩
  | succ h =>
    have hfr : ∀ j ∈ (rd H a).kids, absN H' h j = absN H h j ∧ reach H' h j = reach H h j ∧ HT H' h j := by
      intro j hj
      apply frame_off so (HT_kid g.ht hj)
      intro x hx hxa
      simp at hxa; subst hxa
      exact self_notin_kid g.nodup hj hx
    have hmapr : (rd H a).kids.flatMap (reach H' h) = (rd H a).kids.flatMap (reach H h) := by
      rw [List.flatMap_def, List.flatMap_def]; congr 1
      exact List.map_congr_left (fun j hj => (hfr j hj).2.1)
    have hreach : reach H' (h + 1) a = reach H (h + 1) a := by simp [reach_succ, hrda, hmapr]
    refine ⟨c1, c2, c3, c4, ?_, by rw [hreach]; exact g.nodup, fun x hx => Or.inl (by rw [← hreach]; exact hx), ?_⟩
    · refine ⟨by simpa [H'] using halt, by rw [hrda]; exact g.ht.2.1, ?_, ?_⟩
      · rw [hrda]; simp only []; rw [hlen (by omega)]; exact g.ht.2.2.1
      · rw [hrda]; intro j hj; exact (hfr j hj).2.2
    · show absN H' (h + 1) a = _
      simp only [absN_succ, hrda]
      congr 1
      exact List.map_congr_left (fun j hj => (hfr j hj).1)

end Model.BTreeCow

import Proofs.BTreeDelete2
/-!
The root handling of `_delete` (both variants of the root collapse, see `Model.BTree.deleteRoot`), the
root condition `RootOk`, and the `size` bookkeeping of the tree handle.
-/
namespace Model.BTree

/-- an internal root holds at least one element -/
def RootOk (n : Node) : Prop := n.isLeaf = true ∨ 1 ≤ n.elts.length

theorem shape_isLeaf {t h : Nat} {n : Node} (hn : Shape t h n) : n.isLeaf = true ↔ h = 0 := by
  cases h with
  | zero => obtain ⟨es, rfl⟩ := shape_zero hn; simp [Node.isLeaf]
  | succ h => obtain ⟨es, cs, rfl, _, _⟩ := shape_succ hn; simp [Node.isLeaf]

/-! ## insertion keeps the root condition -/

theorem growRoot_rootOk {t : Nat} {n : Node} (h : RootOk n) : RootOk (growRoot t n) := by
  unfold growRoot
  by_cases hmax : isMaximal t n = true
  · simp only [hmax, if_true]
    generalize split t n = sp
    obtain ⟨l, m, r⟩ := sp
    simp [adopt, searchInNode_nil, insAt, RootOk, Node.elts]
  · simp only [hmax, Bool.false_eq_true, if_false]; exact h

theorem insertRoot_rootOk {t : Nat} (ht : 2 ≤ t) (io : Bool) (e : Elt) {n : Node} (hw : Wf t n) (hr : RootOk n) :
    RootOk (insertRoot t io n e).1 := by
  obtain ⟨h, hn⟩ := hw.shape
  obtain ⟨h', hg, hlt, hfl⟩ := growRoot_spec ht hn hw.top
  have hgr := growRoot_rootOk (t := t) hr
  unfold insertRoot
  simp only []
  rw [height_of_shape hg]
  have hsp := insertNonfull_spec ht io e h' (growRoot t n) hg (by rw [hfl]; exact hw.sorted) hlt
  rcases hgr with hleaf | hpos
  · left
    have := (shape_isLeaf hg).mp hleaf
    subst this
    exact (shape_isLeaf hsp.shape).mpr rfl
  · right
    have := hsp.len_lo
    omega

/-! ## root collapse -/

theorem collapse_spec {t h : Nat} {r : Node} (ht : 2 ≤ t) (hr : Shape t h r) (htop : r.elts.length ≤ maxKeys t) :
    (∃ h', Shape t h' (collapseRoot r)) ∧ flat (collapseRoot r) = flat r ∧
    (collapseRoot r).elts.length ≤ maxKeys t ∧ RootOk (collapseRoot r) := by
  cases h with
  | zero =>
    obtain ⟨es, rfl⟩ := shape_zero hr
    exact ⟨⟨0, by simp [collapseRoot]⟩, by simp [collapseRoot], by simpa [collapseRoot] using htop,
      Or.inl (by simp [collapseRoot, Node.isLeaf])⟩
  | succ h =>
    obtain ⟨es, cs, rfl, hlen, hkids⟩ := shape_succ hr
    cases es with
    | nil =>
      cases cs with
      | nil => simp at hlen
      | cons c cs =>
        have : cs = [] := by cases cs <;> simp_all
        subst this
        have hc := hkids c (by simp)
        refine ⟨⟨h, by simpa [collapseRoot] using hc.1⟩, by simp [collapseRoot, inter], ?_, ?_⟩
        · simpa [collapseRoot] using hc.2.2
        · simp only [collapseRoot]
          by_cases hl : c.isLeaf = true
          · exact Or.inl hl
          · right; have := hc.2.1; simp only [minKeys] at this; omega
    | cons e es =>
      refine ⟨⟨h + 1, by simpa [collapseRoot] using hr⟩, by simp [collapseRoot], by simpa [collapseRoot] using htop,
        Or.inr (by simp [collapseRoot, Node.elts])⟩

/-! ## `_delete` on the root -/

/-- For both variants of the root collapse and every well-formed root: the deletion either refines
removal from the sorted list and keeps the tree well-formed, or — only when the root is an internal node
without elements whose single child is minimal — raises `IndexError` and leaves the tree as it is. -/
theorem deleteRoot_weak {t : Nat} (ht : 2 ≤ t) (always : Bool) (k : Nat) {n : Node} (hw : Wf t n) :
    ((deleteRoot always t n k none).2 = .indexError ∧ (deleteRoot always t n k none).1 = n ∧
        ∃ c, n = .node [] [c] ∧ c.elts.length = minKeys t) ∨
    (Wf t (deleteRoot always t n k none).1 ∧
      flat (deleteRoot always t n k none).1 = delKey k (flat n) ∧
      (deleteRoot always t n k none).2 = .ok (lookup (flat n) k) ∧
      (always = true ∨ (lookup (flat n) k).isSome → RootOk (deleteRoot always t n k none).1) ∧
      (n.elts.length ≤ (deleteRoot always t n k none).1.elts.length + 1 ∨
        RootOk (deleteRoot always t n k none).1) ∧
      (n.isLeaf = true → (deleteRoot always t n k none).1.isLeaf = true)) := by
  obtain ⟨h, hn⟩ := hw.shape
  -- the one failing configuration
  by_cases hbad : ∃ c, n = .node [] [c] ∧ c.elts.length = minKeys t
  · left
    obtain ⟨c, rfl, hmin⟩ := hbad
    have hd : delete t (height (Node.node [] [c])) (.node [] [c]) k none = (.node [] [c], .indexError) := by
      cases h with
      | zero => simp at hn
      | succ h =>
        rw [height_of_shape hn]
        unfold delete
        simp [Node.elts, searchInNode_nil, delPrep_single_minimal k hmin]
    simp only [deleteRoot, hd]
    exact ⟨trivial, trivial, c, rfl, hmin⟩
  · right
    have hpos : h ≠ 0 → 1 ≤ n.elts.length ∨ ∀ c ∈ n.children, c.elts.length ≠ minKeys t := by
      intro h0
      obtain ⟨h', rfl⟩ : ∃ h', h = h' + 1 := ⟨h - 1, by omega⟩
      obtain ⟨es, cs, rfl, hlen, hkids⟩ := shape_succ hn
      cases es with
      | cons e es => left; simp [Node.elts]
      | nil =>
        right
        cases cs with
        | nil => simp at hlen
        | cons c cs =>
          have : cs = [] := by cases cs <;> simp_all
          subst this
          intro c' hc' hmin
          simp [Node.children] at hc'
          subst hc'
          exact hbad ⟨c', rfl, hmin⟩
    have hsp := delete_spec ht h n k hn hw.sorted hpos
    unfold deleteRoot
    rw [height_of_shape hn]
    rcases hd : delete t h n k none with ⟨r, res⟩
    rw [hd] at hsp
    have hres : res = .ok (lookup (flat n) k) := hsp.ret
    have hshape : Shape t h r := hsp.shape
    have hflat : flat r = delKey k (flat n) := hsp.flat_eq
    have hlo : n.elts.length ≤ r.elts.length + 1 := hsp.len_lo
    have hhi : r.elts.length ≤ n.elts.length := hsp.len_hi
    subst hres
    simp only []
    have htop : r.elts.length ≤ maxKeys t := by have := hw.top; omega
    obtain ⟨⟨h', c1⟩, c2, c3, c4⟩ := collapse_spec ht hshape htop
    have hleaf : n.isLeaf = true → r.isLeaf = true := fun hl => by
      have := (shape_isLeaf hn).mp hl
      subst this
      exact (shape_isLeaf hshape).mpr rfl
    have hcleaf : n.isLeaf = true → (collapseRoot r).isLeaf = true := fun hl => by
      have := (shape_isLeaf hn).mp hl
      subst this
      obtain ⟨es, rfl⟩ := shape_zero hshape
      simp [collapseRoot, Node.isLeaf]
    by_cases hc : (always || (lookup (flat n) k).isSome) = true
    · simp only [hc, if_true]
      refine ⟨⟨⟨h', c1⟩, c3, ?_⟩, by rw [c2, hflat], trivial, fun _ => c4, Or.inr c4, hcleaf⟩
      rw [c2, hflat]; exact delKey_sorted _ hw.sorted
    · simp only [hc, Bool.false_eq_true, if_false]
      refine ⟨⟨⟨h, hshape⟩, htop, ?_⟩, hflat, trivial, ?_, Or.inl hlo, hleaf⟩
      · rw [hflat]; exact delKey_sorted _ hw.sorted
      · intro hor
        exfalso
        apply hc
        rcases hor with ha | hs
        · simp [ha]
        · simp [hs]

/-- the intended `_delete` (root collapsed whenever it is left empty): full refinement, no failure -/
theorem deleteRoot_intended {t : Nat} (ht : 2 ≤ t) (k : Nat) {n : Node} (hw : Wf t n) (hr : RootOk n) :
    Wf t (deleteRoot true t n k none).1 ∧ RootOk (deleteRoot true t n k none).1 ∧
    flat (deleteRoot true t n k none).1 = delKey k (flat n) ∧
    (deleteRoot true t n k none).2 = .ok (lookup (flat n) k) := by
  rcases deleteRoot_weak ht true k hw with ⟨_, _, c, rfl, _⟩ | ⟨h1, h2, h3, h4, _, _⟩
  · rcases hr with hl | hp
    · simp [Node.isLeaf] at hl
    · simp [Node.elts] at hp
  · exact ⟨h1, h4 (Or.inl rfl), h2, h3⟩

/-- the shipped `_delete` (root collapsed only when an element was deleted): the same, outside the
trigger class "absent key and an internal root holding exactly one element" -/
theorem deleteRoot_asShipped_partial {t : Nat} (ht : 2 ≤ t) (k : Nat) {n : Node} (hw : Wf t n) (hr : RootOk n)
    (guard : (lookup (flat n) k).isSome ∨ n.elts.length ≠ 1 ∨ n.isLeaf = true) :
    Wf t (deleteRoot false t n k none).1 ∧ RootOk (deleteRoot false t n k none).1 ∧
    flat (deleteRoot false t n k none).1 = delKey k (flat n) ∧
    (deleteRoot false t n k none).2 = .ok (lookup (flat n) k) := by
  rcases deleteRoot_weak ht false k hw with ⟨_, _, c, rfl, _⟩ | ⟨h1, h2, h3, h4, h5, h6⟩
  · rcases hr with hl | hp
    · simp [Node.isLeaf] at hl
    · simp [Node.elts] at hp
  · refine ⟨h1, ?_, h2, h3⟩
    rcases guard with g | g | g
    · exact h4 (Or.inr g)
    · rcases h5 with h5 | h5
      · rcases hr with hl | hp
        · exact Or.inl (h6 hl)
        · right; omega
      · exact h5
    · exact Or.inl (h6 g)

/-! ## `size` -/

theorem size_insert {l : List Elt} {e : Elt} {size : Nat} (hs : Sorted l) (h : size = l.length) :
    (if (lookup l e.1).isNone then size + 1 else size) = (insSorted e l).length := by
  rw [length_insSorted hs, h]

theorem size_delete {l : List Elt} {k : Nat} {size : Nat} (hs : Sorted l) (h : size = l.length) :
    (if (lookup l k).isSome then size - 1 else size) = (delKey k l).length := by
  rw [length_delKey hs, h]

end Model.BTree

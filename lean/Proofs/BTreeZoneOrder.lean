import Model.BTreeZone
/-!
Order laws of the canonical name order as computed by `Model.fullcompare`, in the form the C20 proofs use
them (self-contained: does not depend on the C06 proof files).

A name is mapped to its *key* `lk n`: lower-cased labels, most significant first.  `fullcompare` is shown to
be: "relative before absolute", then lexicographic on keys (a proper prefix first), the relation
`subdomain` being "key is an extension" and `nlabels` the length of the common prefix.  All laws are then
statements about lists.
-/
namespace Model
namespace BTZ

/-! ## octet strings -/

theorem cmpBytes_self (a : Bytes) : cmpBytes a a = 0 := by
  induction a with
  | nil => rfl
  | cons x xs ih => simp [cmpBytes, ih]

theorem cmpBytes_eq_zero {a b : Bytes} : cmpBytes a b = 0 → a = b := by
  induction a generalizing b with
  | nil => cases b <;> simp [cmpBytes]
  | cons x xs ih =>
    cases b with
    | nil => simp [cmpBytes]
    | cons y ys =>
      simp only [cmpBytes]
      split
      · simp
      · split
        · simp
        · intro h
          have : x = y := by omega
          rw [this, ih h]

theorem cmpBytes_range (a b : Bytes) : cmpBytes a b = -1 ∨ cmpBytes a b = 0 ∨ cmpBytes a b = 1 := by
  induction a generalizing b with
  | nil => cases b <;> simp [cmpBytes]
  | cons x xs ih =>
    cases b with
    | nil => simp [cmpBytes]
    | cons y ys =>
      simp only [cmpBytes]
      split
      · simp
      · split
        · simp
        · exact ih ys

theorem cmpBytes_lt_swap {a b : Bytes} : cmpBytes a b < 0 ↔ cmpBytes b a > 0 := by
  induction a generalizing b with
  | nil => cases b <;> simp [cmpBytes]
  | cons x xs ih =>
    cases b with
    | nil => simp [cmpBytes]
    | cons y ys =>
      simp only [cmpBytes]
      by_cases h1 : x < y
      · have : ¬ y < x := by omega
        simp [h1, this]
      · by_cases h2 : x > y
        · simp [h1, h2]
        · have : ¬ y < x := by omega
          have h3 : ¬ y > x := by omega
          simp [h1, h2, this, h3]
          exact ih

theorem cmpBytes_trans {a b c : Bytes} : cmpBytes a b < 0 → cmpBytes b c < 0 → cmpBytes a c < 0 := by
  induction a generalizing b c with
  | nil =>
    cases b with
    | nil => simp [cmpBytes]
    | cons y ys => cases c <;> simp [cmpBytes]
  | cons x xs ih =>
    cases b with
    | nil => simp [cmpBytes]
    | cons y ys =>
      cases c with
      | nil =>
        intro _ h; simp [cmpBytes] at h
      | cons z zs =>
        simp only [cmpBytes]
        intro h1 h2
        by_cases hxy : x < y
        · by_cases hyz : y < z
          · have : x < z := by omega
            simp [this]
          · by_cases hyz' : y > z
            · simp [hyz, hyz'] at h2
            · have : x < z := by omega
              simp [this]
        · by_cases hxy' : x > y
          · simp [hxy, hxy'] at h1
          · simp [hxy, hxy'] at h1
            have hxe : x = y := by omega
            subst hxe
            by_cases hyz : x < z
            · simp [hyz]
            · by_cases hyz' : x > z
              · simp [hyz, hyz'] at h2
              · simp [hyz, hyz'] at h2 ⊢
                exact ih h1 h2

/-! ## keys -/

/-- lower-cased labels, most significant first -/
def lk (n : Name) : List Bytes := (n.map lowerLabel).reverse

/-- strict lexicographic order on keys (a proper prefix is smaller) -/
def klt : List Bytes → List Bytes → Bool
  | [], [] => false
  | [], _ :: _ => true
  | _ :: _, [] => false
  | x :: xs, y :: ys => if cmpBytes x y < 0 then true else if cmpBytes x y > 0 then false else klt xs ys

/-- length of the common prefix -/
def lcp : List Bytes → List Bytes → Nat
  | x :: xs, y :: ys => if x = y then lcp xs ys + 1 else 0
  | _, _ => 0

theorem cmpBytes_not_lt_self (a : Bytes) : ¬ cmpBytes a a < 0 := by simp [cmpBytes_self]

theorem cmpBytes_lt_asymm {a b : Bytes} : cmpBytes a b < 0 → ¬ cmpBytes b a < 0 := by
  intro h h'
  have := cmpBytes_lt_swap.mp h
  omega

theorem cmpBytes_trichotomy (a b : Bytes) : cmpBytes a b < 0 ∨ a = b ∨ cmpBytes b a < 0 := by
  by_cases h1 : cmpBytes a b < 0
  · exact Or.inl h1
  · by_cases h2 : cmpBytes a b > 0
    · exact Or.inr (Or.inr (cmpBytes_lt_swap.mpr h2))
    · exact Or.inr (Or.inl (cmpBytes_eq_zero (by omega)))

/-- unfolding of `klt` in propositional form -/
theorem klt_cons_cons {a b : Bytes} {as bs : List Bytes} :
    klt (a :: as) (b :: bs) = true ↔ cmpBytes a b < 0 ∨ (a = b ∧ klt as bs = true) := by
  simp only [klt]
  by_cases h1 : cmpBytes a b < 0
  · simp [h1]
  · by_cases h2 : cmpBytes a b > 0
    · have : a ≠ b := by
        intro h; subst h; simp [cmpBytes_self] at h2
      simp [h1, h2, this]
    · have hab : a = b := cmpBytes_eq_zero (by omega)
      subst hab
      simp [cmpBytes_self]

@[simp] theorem klt_nil_nil : klt [] [] = false := rfl
@[simp] theorem klt_nil_cons {b : Bytes} {bs : List Bytes} : klt [] (b :: bs) = true := rfl
@[simp] theorem klt_cons_nil {a : Bytes} {as : List Bytes} : klt (a :: as) [] = false := rfl

theorem klt_irrefl (x : List Bytes) : klt x x = false := by
  induction x with
  | nil => rfl
  | cons a as ih =>
    cases h : klt (a :: as) (a :: as) with
    | false => rfl
    | true =>
      rcases klt_cons_cons.mp h with h1 | ⟨_, h1⟩
      · exact absurd h1 (cmpBytes_not_lt_self a)
      · simp [ih] at h1

theorem klt_asymm {x y : List Bytes} : klt x y = true → klt y x = false := by
  induction x generalizing y with
  | nil => cases y <;> simp
  | cons a as ih =>
    cases y with
    | nil => simp
    | cons b bs =>
      intro h
      cases h' : klt (b :: bs) (a :: as) with
      | false => rfl
      | true =>
        rcases klt_cons_cons.mp h with h1 | ⟨h1, h2⟩
        · rcases klt_cons_cons.mp h' with h3 | ⟨h3, _⟩
          · exact absurd h3 (cmpBytes_lt_asymm h1)
          · subst h3; exact absurd h1 (cmpBytes_not_lt_self _)
        · subst h1
          rcases klt_cons_cons.mp h' with h3 | ⟨_, h4⟩
          · exact absurd h3 (cmpBytes_not_lt_self _)
          · have := ih h2; simp [h4] at this

theorem klt_trichotomy (x y : List Bytes) : klt x y = true ∨ x = y ∨ klt y x = true := by
  induction x generalizing y with
  | nil => cases y <;> simp
  | cons a as ih =>
    cases y with
    | nil => simp
    | cons b bs =>
      rcases cmpBytes_trichotomy a b with h | h | h
      · exact Or.inl (klt_cons_cons.mpr (Or.inl h))
      · subst h
        rcases ih bs with h' | h' | h'
        · exact Or.inl (klt_cons_cons.mpr (Or.inr ⟨rfl, h'⟩))
        · subst h'; exact Or.inr (Or.inl rfl)
        · exact Or.inr (Or.inr (klt_cons_cons.mpr (Or.inr ⟨rfl, h'⟩)))
      · exact Or.inr (Or.inr (klt_cons_cons.mpr (Or.inl h)))

theorem klt_trans {x y z : List Bytes} : klt x y = true → klt y z = true → klt x z = true := by
  induction x generalizing y z with
  | nil =>
    cases y with
    | nil => simp
    | cons b bs => cases z <;> simp
  | cons a as ih =>
    cases y with
    | nil => simp
    | cons b bs =>
      cases z with
      | nil => simp
      | cons c cs =>
        intro h1 h2
        apply klt_cons_cons.mpr
        rcases klt_cons_cons.mp h1 with h1 | ⟨h1, h1'⟩
        · rcases klt_cons_cons.mp h2 with h2 | ⟨h2, _⟩
          · exact Or.inl (cmpBytes_trans h1 h2)
          · subst h2; exact Or.inl h1
        · subst h1
          rcases klt_cons_cons.mp h2 with h2 | ⟨h2, h2'⟩
          · exact Or.inl h2
          · exact Or.inr ⟨h2, ih h1' h2'⟩

/-- `x ≤ y` on keys -/
def kle (x y : List Bytes) : Prop := klt x y = true ∨ x = y

theorem kle_refl (x : List Bytes) : kle x x := Or.inr rfl

theorem kle_trans {x y z : List Bytes} : kle x y → kle y z → kle x z := by
  intro h1 h2
  rcases h1 with h1 | h1
  · rcases h2 with h2 | h2
    · exact Or.inl (klt_trans h1 h2)
    · subst h2; exact Or.inl h1
  · subst h1; exact h2

theorem kle_antisymm {x y : List Bytes} : kle x y → kle y x → x = y := by
  intro h1 h2
  rcases h1 with h1 | h1
  · rcases h2 with h2 | h2
    · have := klt_asymm h1; simp [h2] at this
    · exact h2.symm
  · exact h1

theorem kle_total (x y : List Bytes) : kle x y ∨ kle y x := by
  rcases klt_trichotomy x y with h | h | h
  · exact Or.inl (Or.inl h)
  · exact Or.inl (Or.inr h)
  · exact Or.inr (Or.inl h)

theorem not_klt_iff_kle {x y : List Bytes} : klt x y = false ↔ kle y x := by
  constructor
  · intro h
    rcases klt_trichotomy x y with h' | h' | h'
    · simp [h] at h'
    · exact Or.inr h'.symm
    · exact Or.inl h'
  · intro h
    rcases h with h | h
    · exact klt_asymm h
    · subst h; exact klt_irrefl _

theorem kle_cons_cons {a b : Bytes} {as bs : List Bytes} :
    kle (a :: as) (b :: bs) ↔ cmpBytes a b < 0 ∨ (a = b ∧ kle as bs) := by
  unfold kle
  rw [klt_cons_cons]
  constructor
  · rintro ((h | ⟨h, h'⟩) | h)
    · exact Or.inl h
    · exact Or.inr ⟨h, Or.inl h'⟩
    · injection h with h1 h2; exact Or.inr ⟨h1, Or.inr h2⟩
  · rintro (h | ⟨h, h' | h'⟩)
    · exact Or.inl (Or.inl h)
    · exact Or.inl (Or.inr ⟨h, h'⟩)
    · subst h; subst h'; exact Or.inr rfl

theorem not_kle_cons_nil {a : Bytes} {as : List Bytes} : ¬ kle (a :: as) [] := by
  rintro (h | h) <;> simp at h

/-- two-sided squeeze on the first label -/
theorem kle_squeeze_head {a b c : Bytes} {as bs cs : List Bytes}
    (h1 : kle (a :: as) (b :: bs)) (h2 : kle (b :: bs) (c :: cs)) (hac : a = c) :
    b = a ∧ kle as bs ∧ kle bs cs := by
  subst hac
  rcases kle_cons_cons.mp h1 with h1 | ⟨h1, h1'⟩
  · rcases kle_cons_cons.mp h2 with h2 | ⟨h2, _⟩
    · exact absurd h2 (cmpBytes_lt_asymm h1)
    · subst h2; exact absurd h1 (cmpBytes_not_lt_self _)
  · subst h1
    rcases kle_cons_cons.mp h2 with h2 | ⟨_, h2'⟩
    · exact absurd h2 (cmpBytes_not_lt_self _)
    · exact ⟨rfl, h1', h2'⟩

/-- a prefix is smaller or equal -/
theorem prefix_kle {p x : List Bytes} : p <+: x → kle p x := by
  induction p generalizing x with
  | nil => cases x <;> simp [kle]
  | cons a as ih =>
    cases x with
    | nil => simp
    | cons b bs =>
      intro h
      obtain ⟨hab, hp⟩ := List.cons_prefix_cons.mp h
      exact kle_cons_cons.mpr (Or.inr ⟨hab, ih hp⟩)

/-- subtrees are convex: between a key and one of its extensions there are only extensions -/
theorem prefix_convex {p y z : List Bytes} : p <+: z → kle p y → kle y z → p <+: y := by
  induction p generalizing y z with
  | nil => intros; exact List.nil_prefix
  | cons a as ih =>
    intro hpz hpy hyz
    cases z with
    | nil => simp at hpz
    | cons c cs =>
      obtain ⟨hac, hp⟩ := List.cons_prefix_cons.mp hpz
      cases y with
      | nil => exact absurd hpy not_kle_cons_nil
      | cons b bs =>
        obtain ⟨hba, h1, h2⟩ := kle_squeeze_head hpy hyz hac
        exact List.cons_prefix_cons.mpr ⟨hba.symm, ih hp h1 h2⟩

/-- `lcp` and prefixes: a list of length `k` that is a prefix of `x` is a prefix of `y` iff `k ≤ lcp x y` -/
theorem take_prefix_iff_le_lcp {x y : List Bytes} {k : Nat} (hk : k ≤ x.length) :
    x.take k <+: y ↔ k ≤ lcp x y := by
  induction x generalizing y k with
  | nil => simp at hk; subst hk; simp [lcp]
  | cons a as ih =>
    cases k with
    | zero => simp
    | succ k =>
      cases y with
      | nil => simp [lcp]
      | cons b bs =>
        simp only [List.take_succ_cons, lcp, List.cons_prefix_cons]
        by_cases hab : a = b
        · simp [hab]
          exact ih (by simpa using hk)
        · simp [hab]

theorem lcp_le_left (x y : List Bytes) : lcp x y ≤ x.length := by
  induction x generalizing y with
  | nil => simp [lcp]
  | cons a as ih =>
    cases y with
    | nil => simp [lcp]
    | cons b bs =>
      simp only [lcp]; split
      · have := ih bs; simp; omega
      · simp

theorem lcp_comm (x y : List Bytes) : lcp x y = lcp y x := by
  induction x generalizing y with
  | nil => cases y <;> simp [lcp]
  | cons a as ih =>
    cases y with
    | nil => simp [lcp]
    | cons b bs =>
      simp only [lcp]
      by_cases hab : a = b
      · subst hab; simp [ih bs]
      · have : ¬ b = a := fun h => hab h.symm
        simp [hab, this]

theorem lcp_self (x : List Bytes) : lcp x x = x.length := by
  induction x with
  | nil => rfl
  | cons a as ih => simp [lcp, ih]

/-- going away from `q` in the order can only shorten the common prefix (left side) -/
theorem lcp_mono_left {v l q : List Bytes} : kle v l → kle l q → lcp v q ≤ lcp l q := by
  induction q generalizing v l with
  | nil => intros; simp [lcp_comm _ [], lcp]
  | cons c cs ih =>
    intro hvl hlq
    cases v with
    | nil => simp [lcp]
    | cons a as =>
      cases l with
      | nil => exact absurd hvl not_kle_cons_nil
      | cons b bs =>
        simp only [lcp]
        by_cases hac : a = c
        · obtain ⟨hba, h1, h2⟩ := kle_squeeze_head hvl hlq hac
          subst hac; subst hba
          simp
          exact ih h1 h2
        · simp [hac]

/-- … and on the right side -/
theorem lcp_mono_right {q r v : List Bytes} : kle q r → kle r v → lcp v q ≤ lcp r q := by
  induction q generalizing v r with
  | nil => intros; simp [lcp_comm _ [], lcp]
  | cons c cs ih =>
    intro hqr hrv
    cases v with
    | nil => simp [lcp]
    | cons a as =>
      cases r with
      | nil => exact absurd hqr not_kle_cons_nil
      | cons b bs =>
        simp only [lcp]
        by_cases hac : a = c
        · obtain ⟨hba, h1, h2⟩ := kle_squeeze_head hqr hrv hac.symm
          subst hac; subst hba
          simp
          exact ih h1 h2
        · simp [hac]

/-! ## `fullcompare` in terms of keys -/

/-- what `fullcompare` computes, as a structural recursion on the two keys (`k` = labels matched so far) -/
def kfc : List Bytes → List Bytes → Nat → Nat × Int × Nat
  | [], [], k => (3, 0, k)
  | [], _ :: ys, k => (1, -((ys.length : Int) + 1), k)
  | _ :: xs, [], k => (2, (xs.length : Int) + 1, k)
  | x :: xs, y :: ys, k =>
    if cmpBytes x y < 0 then (if k > 0 then 4 else 0, -1, k)
    else if cmpBytes x y > 0 then (if k > 0 then 4 else 0, 1, k)
    else kfc xs ys (k + 1)

theorem kfc_cons_lt {a b : Bytes} {as bs : List Bytes} {k : Nat} (h : cmpBytes a b < 0) :
    kfc (a :: as) (b :: bs) k = (if k > 0 then 4 else 0, -1, k) := by
  simp [kfc, h]

theorem kfc_cons_gt {a b : Bytes} {as bs : List Bytes} {k : Nat} (h : cmpBytes b a < 0) :
    kfc (a :: as) (b :: bs) k = (if k > 0 then 4 else 0, 1, k) := by
  have h1 : ¬ cmpBytes a b < 0 := cmpBytes_lt_asymm h
  have h2 : cmpBytes a b > 0 := cmpBytes_lt_swap.mp h
  simp [kfc, h1, h2]

theorem kfc_cons_eq {a : Bytes} {as bs : List Bytes} {k : Nat} :
    kfc (a :: as) (a :: bs) k = kfc as bs (k + 1) := by
  simp [kfc, cmpBytes_self]

/-- the result `fullcompare` assembles from `fcLoop` -/
def fcRes (r : Option (Int × Nat)) (ldiff : Int) (tot : Nat) : Nat × Int × Nat :=
  match r with
  | some (o, j) => (if j > 0 then 4 else 0, o, j)
  | none => (if ldiff < 0 then 1 else if ldiff > 0 then 2 else 3, ldiff, tot)

theorem fcRes_eq_kfc (X Y : List Label) (k : Nat) (m : Nat) (ldiff : Int) (tot : Nat)
    (hm : m = min X.length Y.length) (hl : ldiff = (X.length : Int) - (Y.length : Int)) (ht : tot = k + m) :
    fcRes (fcLoop (X.take m) (Y.take m) k) ldiff tot = kfc (X.map lowerLabel) (Y.map lowerLabel) k := by
  induction X generalizing Y k m tot with
  | nil =>
    cases Y with
    | nil =>
      simp at hm hl; subst hm; subst hl; subst ht
      simp [fcLoop, fcRes, kfc]
    | cons y ys =>
      simp at hm hl; subst hm; subst ht
      have h1 : ldiff < 0 := by omega
      simp only [List.take_zero, fcLoop, fcRes, h1, if_true, List.map_nil, List.map_cons, kfc, List.length_map]
      congr 2 <;> omega
  | cons x xs ih =>
    cases Y with
    | nil =>
      simp at hm hl; subst hm; subst ht
      have h1 : ¬ ldiff < 0 := by omega
      have h2 : ldiff > 0 := by omega
      simp only [List.take_zero, fcLoop, fcRes, h1, h2, if_true, if_false, List.map_nil, List.map_cons, kfc,
        List.length_map]
      congr 2 <;> omega
    | cons y ys =>
      have hm' : m = min xs.length ys.length + 1 := by
        simp only [List.length_cons] at hm; omega
      subst hm'
      simp only [List.take_succ_cons, fcLoop, List.map_cons, cmpLabel]
      rcases cmpBytes_trichotomy (lowerLabel x) (lowerLabel y) with h | h | h
      · simp only [h, if_true, fcRes, kfc_cons_lt h]
      · have h1 : ¬ cmpBytes (lowerLabel x) (lowerLabel y) < 0 := by rw [h]; exact cmpBytes_not_lt_self _
        have h2 : ¬ cmpBytes (lowerLabel x) (lowerLabel y) > 0 := by rw [h]; simp [cmpBytes_self]
        simp only [h1, h2, if_false]
        rw [h, kfc_cons_eq]
        apply ih
        · rfl
        · simp only [List.length_cons] at hl; omega
        · omega
      · have h1 : ¬ cmpBytes (lowerLabel x) (lowerLabel y) < 0 := cmpBytes_lt_asymm h
        have h2 : cmpBytes (lowerLabel x) (lowerLabel y) > 0 := cmpBytes_lt_swap.mp h
        simp only [h1, h2, if_true, if_false, fcRes, kfc_cons_gt h]

theorem lk_eq (n : Name) : lk n = n.reverse.map lowerLabel := by
  simp [lk, List.map_reverse]

theorem lk_length (n : Name) : (lk n).length = n.length := by simp [lk]

theorem fullcompare_eq_fcRes (a b : Name) (h : isAbs a = isAbs b) :
    fullcompare a b = fcRes (fcLoop (a.reverse.take (min a.length b.length)) (b.reverse.take (min a.length b.length)) 0)
      ((a.length : Int) - (b.length : Int)) (min a.length b.length) := by
  simp only [fullcompare, h, bne_self_eq_false, Bool.false_eq_true, if_false, fcRes]
  cases fcLoop (a.reverse.take (min a.length b.length)) (b.reverse.take (min a.length b.length)) 0 with
  | none => rfl
  | some p => rfl

theorem fullcompare_same {a b : Name} (h : isAbs a = isAbs b) :
    fullcompare a b = kfc (lk a) (lk b) 0 := by
  rw [fullcompare_eq_fcRes a b h, lk_eq, lk_eq]
  apply fcRes_eq_kfc
  · simp
  · simp
  · simp

theorem fullcompare_mixed {a b : Name} (h : isAbs a ≠ isAbs b) :
    fullcompare a b = if isAbs a then (0, 1, 0) else (0, -1, 0) := by
  have : (isAbs a != isAbs b) = true := by simpa using h
  simp [fullcompare, this]

/-! projections of `kfc` -/

theorem kfc_common (x y : List Bytes) (k : Nat) : (kfc x y k).2.2 = k + lcp x y := by
  induction x generalizing y k with
  | nil => cases y <;> simp [kfc, lcp]
  | cons a as ih =>
    cases y with
    | nil => simp [kfc, lcp]
    | cons b bs =>
      rcases cmpBytes_trichotomy a b with h | h | h
      · have : a ≠ b := by intro e; subst e; exact cmpBytes_not_lt_self _ h
        simp [kfc_cons_lt h, lcp, this]
      · subst h
        rw [kfc_cons_eq, ih]; simp [lcp]; omega
      · have : a ≠ b := by intro e; subst e; exact cmpBytes_not_lt_self _ h
        simp [kfc_cons_gt h, lcp, this]

theorem kfc_order_lt (x y : List Bytes) (k : Nat) : (kfc x y k).2.1 < 0 ↔ klt x y = true := by
  induction x generalizing y k with
  | nil =>
    cases y with
    | nil => simp [kfc]
    | cons b bs => simp [kfc] <;> omega
  | cons a as ih =>
    cases y with
    | nil => simp [kfc] <;> omega
    | cons b bs =>
      rw [klt_cons_cons]
      rcases cmpBytes_trichotomy a b with h | h | h
      · simp [kfc_cons_lt h, h]
      · subst h
        rw [kfc_cons_eq, ih]
        simp [cmpBytes_self]
      · have h1 : ¬ cmpBytes a b < 0 := cmpBytes_lt_asymm h
        have : a ≠ b := by intro e; subst e; exact cmpBytes_not_lt_self _ h
        simp [kfc_cons_gt h, h1, this]

theorem kfc_order_eq (x y : List Bytes) (k : Nat) : (kfc x y k).2.1 = 0 ↔ x = y := by
  induction x generalizing y k with
  | nil =>
    cases y with
    | nil => simp [kfc]
    | cons b bs => simp [kfc] <;> omega
  | cons a as ih =>
    cases y with
    | nil => simp [kfc] <;> omega
    | cons b bs =>
      rcases cmpBytes_trichotomy a b with h | h | h
      · have : a ≠ b := by intro e; subst e; exact cmpBytes_not_lt_self _ h
        simp [kfc_cons_lt h, this]
      · subst h
        rw [kfc_cons_eq, ih]; simp
      · have : a ≠ b := by intro e; subst e; exact cmpBytes_not_lt_self _ h
        simp [kfc_cons_gt h, this]

theorem kfc_rel_eq3 (x y : List Bytes) (k : Nat) : (kfc x y k).1 = 3 ↔ x = y := by
  induction x generalizing y k with
  | nil => cases y <;> simp [kfc]
  | cons a as ih =>
    cases y with
    | nil => simp [kfc]
    | cons b bs =>
      rcases cmpBytes_trichotomy a b with h | h | h
      · have : a ≠ b := by intro e; subst e; exact cmpBytes_not_lt_self _ h
        rw [kfc_cons_lt h]; simp [this]; split <;> simp
      · subst h
        rw [kfc_cons_eq, ih]; simp
      · have : a ≠ b := by intro e; subst e; exact cmpBytes_not_lt_self _ h
        rw [kfc_cons_gt h]; simp [this]; split <;> simp

theorem kfc_rel_eq2 (x y : List Bytes) (k : Nat) : (kfc x y k).1 = 2 ↔ (y <+: x ∧ y ≠ x) := by
  induction x generalizing y k with
  | nil => cases y <;> simp [kfc]
  | cons a as ih =>
    cases y with
    | nil => simp [kfc]
    | cons b bs =>
      rcases cmpBytes_trichotomy a b with h | h | h
      · have : ¬ b = a := by intro e; subst e; exact cmpBytes_not_lt_self _ h
        rw [kfc_cons_lt h]; simp [List.cons_prefix_cons, this]; split <;> simp
      · subst h
        rw [kfc_cons_eq, ih]; simp [List.cons_prefix_cons]
      · have : ¬ b = a := by intro e; subst e; exact cmpBytes_not_lt_self _ h
        rw [kfc_cons_gt h]; simp [List.cons_prefix_cons, this]; split <;> simp

/-! ## name-level characterisations -/

/-- lower-case names (all keys of the model are) -/
def LC (n : Name) : Prop := lowerName n = n

theorem lowerOctet_idem (c : Nat) : lowerOctet (lowerOctet c) = lowerOctet c := by
  unfold lowerOctet
  split
  · split <;> omega
  · rfl

theorem lowerLabel_idem (l : Label) : lowerLabel (lowerLabel l) = lowerLabel l := by
  simp [lowerLabel, lowerOctet_idem]

theorem lowerName_idem (n : Name) : lowerName (lowerName n) = lowerName n := by
  simp [lowerName, lowerLabel_idem]

theorem LC_lowerName (n : Name) : LC (lowerName n) := lowerName_idem n

theorem LC_nil : LC [] := rfl

theorem lk_lowerName (n : Name) : lk (lowerName n) = lk n := by
  simp [lk, lowerName, lowerLabel_idem]

theorem isAbs_lowerName (n : Name) : isAbs (lowerName n) = isAbs n := by
  unfold isAbs lowerName
  rw [List.getLast?_map]
  cases h : n.getLast? with
  | none => rfl
  | some l =>
    cases l with
    | nil => simp [lowerLabel]
    | cons c cs => simp [lowerLabel]

theorem lk_of_LC {n : Name} (h : LC n) : lk n = n.reverse := by
  unfold LC lowerName at h
  simp [lk, h]

theorem lk_inj {a b : Name} (ha : LC a) (hb : LC b) (h : lk a = lk b) : a = b := by
  rw [lk_of_LC ha, lk_of_LC hb] at h
  exact List.reverse_inj.mp h

theorem fullcompare_lowerName (a b : Name) : fullcompare (lowerName a) (lowerName b) = fullcompare a b := by
  by_cases h : isAbs a = isAbs b
  · have h' : isAbs (lowerName a) = isAbs (lowerName b) := by simp [isAbs_lowerName, h]
    rw [fullcompare_same h, fullcompare_same h', lk_lowerName, lk_lowerName]
  · have h' : isAbs (lowerName a) ≠ isAbs (lowerName b) := by simp [isAbs_lowerName, h]
    rw [fullcompare_mixed h, fullcompare_mixed h', isAbs_lowerName]

theorem cmpOrder_lt_iff {a b : Name} :
    cmpOrder a b < 0 ↔ (isAbs a = false ∧ isAbs b = true) ∨ (isAbs a = isAbs b ∧ klt (lk a) (lk b) = true) := by
  unfold cmpOrder
  by_cases h : isAbs a = isAbs b
  · rw [fullcompare_same h, kfc_order_lt]
    constructor
    · intro hk; exact Or.inr ⟨h, hk⟩
    · rintro (⟨h1, h2⟩ | ⟨_, hk⟩)
      · rw [h1, h2] at h; exact absurd h (by decide)
      · exact hk
  · rw [fullcompare_mixed h]
    cases ha : isAbs a <;> cases hb : isAbs b <;> simp_all

theorem cmpOrder_eq_iff {a b : Name} : cmpOrder a b = 0 ↔ isAbs a = isAbs b ∧ lk a = lk b := by
  unfold cmpOrder
  by_cases h : isAbs a = isAbs b
  · rw [fullcompare_same h, kfc_order_eq]; simp [h]
  · rw [fullcompare_mixed h]
    cases ha : isAbs a <;> cases hb : isAbs b <;> simp_all

theorem cmpOrder_gt_iff {a b : Name} : cmpOrder a b > 0 ↔ cmpOrder b a < 0 := by
  rw [cmpOrder_lt_iff]
  by_cases h : isAbs a = isAbs b
  · have hlt := @cmpOrder_lt_iff a b
    have heq := @cmpOrder_eq_iff a b
    constructor
    · intro hgt
      right
      refine ⟨h.symm, ?_⟩
      rcases klt_trichotomy (lk a) (lk b) with h1 | h1 | h1
      · have : cmpOrder a b < 0 := hlt.mpr (Or.inr ⟨h, h1⟩); omega
      · have : cmpOrder a b = 0 := heq.mpr ⟨h, h1⟩; omega
      · exact h1
    · rintro (⟨h1, h2⟩ | ⟨_, hk⟩)
      · rw [h1, h2] at h; exact absurd h (by decide)
      · have h1 : ¬ cmpOrder a b < 0 := by
          rw [hlt]; rintro (⟨h1, h2⟩ | ⟨_, hk'⟩)
          · rw [h1, h2] at h; exact absurd h (by decide)
          · have := klt_asymm hk; simp [hk'] at this
        have h2 : ¬ cmpOrder a b = 0 := by
          rw [heq]; rintro ⟨_, he⟩
          rw [he, klt_irrefl] at hk; exact absurd hk (by decide)
        omega
  · unfold cmpOrder
    rw [fullcompare_mixed h]
    cases ha : isAbs a <;> cases hb : isAbs b <;> simp_all

/-- `a ≤ b` in canonical order -/
theorem cmpOrder_le_iff {a b : Name} :
    cmpOrder a b ≤ 0 ↔ (isAbs a = false ∧ isAbs b = true) ∨ (isAbs a = isAbs b ∧ kle (lk a) (lk b)) := by
  have h1 := @cmpOrder_lt_iff a b
  have h2 := @cmpOrder_eq_iff a b
  constructor
  · intro h
    rcases Int.lt_or_eq_of_le h with h | h
    · rcases h1.mp h with h | ⟨h, h'⟩
      · exact Or.inl h
      · exact Or.inr ⟨h, Or.inl h'⟩
    · obtain ⟨h, h'⟩ := h2.mp h
      exact Or.inr ⟨h, Or.inr h'⟩
  · rintro (h | ⟨h, h' | h'⟩)
    · exact Int.le_of_lt (h1.mpr (Or.inl h))
    · exact Int.le_of_lt (h1.mpr (Or.inr ⟨h, h'⟩))
    · exact Int.le_of_eq (h2.mpr ⟨h, h'⟩)

theorem rel_eq3_iff {a b : Name} : (fullcompare a b).1 = 3 ↔ isAbs a = isAbs b ∧ lk a = lk b := by
  by_cases h : isAbs a = isAbs b
  · rw [fullcompare_same h, kfc_rel_eq3]; simp [h]
  · rw [fullcompare_mixed h]
    cases ha : isAbs a <;> cases hb : isAbs b <;> simp_all

theorem rel_eq2_iff {a b : Name} :
    (fullcompare a b).1 = 2 ↔ isAbs a = isAbs b ∧ lk b <+: lk a ∧ lk b ≠ lk a := by
  by_cases h : isAbs a = isAbs b
  · rw [fullcompare_same h, kfc_rel_eq2]; simp [h]
  · rw [fullcompare_mixed h]
    cases ha : isAbs a <;> cases hb : isAbs b <;> simp_all

theorem isSubdomain_iff {a b : Name} : isSubdomain a b = true ↔ isAbs a = isAbs b ∧ lk b <+: lk a := by
  unfold isSubdomain
  simp only [Bool.or_eq_true, beq_iff_eq]
  rw [rel_eq2_iff, rel_eq3_iff]
  constructor
  · rintro (⟨h, hp, _⟩ | ⟨h, he⟩)
    · exact ⟨h, hp⟩
    · exact ⟨h, by rw [he]; exact List.prefix_refl _⟩
  · rintro ⟨h, hp⟩
    by_cases he : lk b = lk a
    · exact Or.inr ⟨h, he.symm⟩
    · exact Or.inl ⟨h, hp, he⟩

theorem properSub_iff {a b : Name} :
    properSub a b = true ↔ isAbs a = isAbs b ∧ lk b <+: lk a ∧ lk b ≠ lk a := by
  unfold properSub
  simp only [beq_iff_eq]
  exact rel_eq2_iff

theorem nameEq_iff {a b : Name} : nameEq a b = true ↔ isAbs a = isAbs b ∧ lk a = lk b := by
  unfold nameEq
  simp only [beq_iff_eq]
  exact cmpOrder_eq_iff

theorem common_same {a b : Name} (h : isAbs a = isAbs b) : (fullcompare a b).2.2 = lcp (lk a) (lk b) := by
  rw [fullcompare_same h, kfc_common]; simp

/-! ## the laws, on names -/

theorem nameEq_eq {a b : Name} (ha : LC a) (hb : LC b) : nameEq a b = true ↔ a = b := by
  rw [nameEq_iff]
  constructor
  · rintro ⟨_, h⟩; exact lk_inj ha hb h
  · intro h; subst h; exact ⟨rfl, rfl⟩

theorem cmpOrder_eq_zero {a b : Name} (ha : LC a) (hb : LC b) : cmpOrder a b = 0 ↔ a = b := by
  rw [cmpOrder_eq_iff]
  constructor
  · rintro ⟨_, h⟩; exact lk_inj ha hb h
  · intro h; subst h; exact ⟨rfl, rfl⟩

theorem cmpOrder_self (a : Name) : cmpOrder a a = 0 := cmpOrder_eq_iff.mpr ⟨rfl, rfl⟩

theorem cmpOrder_lt_trans {a b c : Name} : cmpOrder a b < 0 → cmpOrder b c < 0 → cmpOrder a c < 0 := by
  simp only [cmpOrder_lt_iff]
  rintro (⟨h1, h2⟩ | ⟨h1, k1⟩) (⟨h3, h4⟩ | ⟨h3, k2⟩)
  · rw [h2] at h3; exact absurd h3 (by decide)
  · left; exact ⟨h1, by rw [← h3, h2]⟩
  · left; exact ⟨by rw [h1, h3], h4⟩
  · right; exact ⟨h1.trans h3, klt_trans k1 k2⟩

theorem cmpOrder_le_trans {a b c : Name} : cmpOrder a b ≤ 0 → cmpOrder b c ≤ 0 → cmpOrder a c ≤ 0 := by
  simp only [cmpOrder_le_iff]
  rintro (⟨h1, h2⟩ | ⟨h1, k1⟩) (⟨h3, h4⟩ | ⟨h3, k2⟩)
  · rw [h2] at h3; exact absurd h3 (by decide)
  · left; exact ⟨h1, by rw [← h3, h2]⟩
  · left; exact ⟨by rw [h1, h3], h4⟩
  · right; exact ⟨h1.trans h3, kle_trans k1 k2⟩

theorem cmpOrder_lt_of_lt_of_le {a b c : Name} : cmpOrder a b < 0 → cmpOrder b c ≤ 0 → cmpOrder a c < 0 := by
  intro h1 h2
  rcases Int.lt_or_eq_of_le h2 with h2 | h2
  · exact cmpOrder_lt_trans h1 h2
  · obtain ⟨e1, e2⟩ := cmpOrder_eq_iff.mp h2
    rw [cmpOrder_lt_iff] at h1 ⊢
    rw [← e1, ← e2]; exact h1

theorem cmpOrder_lt_of_le_of_lt {a b c : Name} : cmpOrder a b ≤ 0 → cmpOrder b c < 0 → cmpOrder a c < 0 := by
  intro h1 h2
  rcases Int.lt_or_eq_of_le h1 with h1 | h1
  · exact cmpOrder_lt_trans h1 h2
  · obtain ⟨e1, e2⟩ := cmpOrder_eq_iff.mp h1
    rw [cmpOrder_lt_iff] at h2 ⊢
    rw [e1, e2]; exact h2

theorem cmpOrder_not_lt {a b : Name} : ¬ cmpOrder a b < 0 ↔ cmpOrder b a ≤ 0 := by
  have := @cmpOrder_gt_iff b a
  have h2 := @cmpOrder_gt_iff a b
  constructor
  · intro h
    by_cases h' : cmpOrder b a > 0
    · exact absurd (this.mp h') h
    · omega
  · intro h h'
    have := h2.mpr  -- a > b from b < a ... not needed
    have h3 : cmpOrder b a > 0 := (@cmpOrder_gt_iff b a).mpr h'
    omega

theorem cmpOrder_total (a b : Name) : cmpOrder a b ≤ 0 ∨ cmpOrder b a ≤ 0 := by
  by_cases h : cmpOrder a b ≤ 0
  · exact Or.inl h
  · right
    have : cmpOrder a b > 0 := by omega
    exact Int.le_of_lt (cmpOrder_gt_iff.mp this)

theorem cmpOrder_le_antisymm {a b : Name} (ha : LC a) (hb : LC b) :
    cmpOrder a b ≤ 0 → cmpOrder b a ≤ 0 → a = b := by
  intro h1 h2
  have : ¬ cmpOrder a b < 0 := cmpOrder_not_lt.mpr h2
  exact (cmpOrder_eq_zero ha hb).mp (by omega)

theorem isSubdomain_refl (a : Name) : isSubdomain a a = true :=
  isSubdomain_iff.mpr ⟨rfl, List.prefix_refl _⟩

theorem isSubdomain_trans {a b c : Name} : isSubdomain a b = true → isSubdomain b c = true → isSubdomain a c = true := by
  simp only [isSubdomain_iff]
  rintro ⟨h1, p1⟩ ⟨h2, p2⟩
  exact ⟨h1.trans h2, List.IsPrefix.trans p2 p1⟩

theorem isSubdomain_antisymm {a b : Name} (ha : LC a) (hb : LC b) :
    isSubdomain a b = true → isSubdomain b a = true → a = b := by
  simp only [isSubdomain_iff]
  rintro ⟨_, p1⟩ ⟨_, p2⟩
  exact lk_inj ha hb (List.IsPrefix.eq_of_length_le p2 (List.IsPrefix.length_le p1))

/-- an ancestor is not greater than its descendants -/
theorem isSubdomain_le {a b : Name} : isSubdomain a b = true → cmpOrder b a ≤ 0 := by
  rw [isSubdomain_iff, cmpOrder_le_iff]
  rintro ⟨h, p⟩
  exact Or.inr ⟨h.symm, prefix_kle p⟩

theorem properSub_sub {a b : Name} : properSub a b = true → isSubdomain a b = true := by
  rw [properSub_iff, isSubdomain_iff]
  rintro ⟨h, p, _⟩; exact ⟨h, p⟩

theorem properSub_iff_sub_ne {a b : Name} (ha : LC a) (hb : LC b) :
    properSub a b = true ↔ isSubdomain a b = true ∧ a ≠ b := by
  rw [properSub_iff, isSubdomain_iff]
  constructor
  · rintro ⟨h, p, ne⟩
    exact ⟨⟨h, p⟩, fun e => ne (by rw [e])⟩
  · rintro ⟨⟨h, p⟩, ne⟩
    exact ⟨h, p, fun e => ne (lk_inj ha hb e.symm)⟩

theorem properSub_irrefl (a : Name) : properSub a a = false := by
  cases h : properSub a a with
  | false => rfl
  | true => have := properSub_iff.mp h; exact absurd rfl this.2.2

theorem properSub_lt {a b : Name} : properSub a b = true → cmpOrder b a < 0 := by
  rw [properSub_iff, cmpOrder_lt_iff]
  rintro ⟨h, p, ne⟩
  right
  refine ⟨h.symm, ?_⟩
  rcases prefix_kle p with h1 | h1
  · exact h1
  · exact absurd h1 ne

theorem properSub_length {a b : Name} : properSub a b = true → b.length < a.length := by
  rw [properSub_iff]
  rintro ⟨_, p, ne⟩
  have h1 := List.IsPrefix.length_le p
  rw [lk_length, lk_length] at h1
  rcases Nat.lt_or_eq_of_le h1 with h | h
  · exact h
  · exfalso; apply ne
    exact List.IsPrefix.eq_of_length p (by rw [lk_length, lk_length]; exact h)

theorem properSub_trans {a b c : Name} : properSub a b = true → properSub b c = true → properSub a c = true := by
  intro h1 h2
  have l1 := properSub_length h1
  have l2 := properSub_length h2
  have s := isSubdomain_trans (properSub_sub h1) (properSub_sub h2)
  rw [isSubdomain_iff] at s
  rw [properSub_iff]
  refine ⟨s.1, s.2, ?_⟩
  intro e
  have := congrArg List.length e
  rw [lk_length, lk_length] at this
  omega

theorem properSub_of_properSub_of_sub {a b c : Name} :
    properSub a b = true → isSubdomain b c = true → properSub a c = true := by
  intro h1 h2
  have l1 := properSub_length h1
  have s := isSubdomain_trans (properSub_sub h1) h2
  rw [isSubdomain_iff] at s h2
  rw [properSub_iff]
  refine ⟨s.1, s.2, ?_⟩
  intro e
  have e' := congrArg List.length e
  have l2 := List.IsPrefix.length_le h2.2
  rw [lk_length, lk_length] at e' l2
  omega

theorem properSub_of_sub_of_properSub {a b c : Name} :
    isSubdomain a b = true → properSub b c = true → properSub a c = true := by
  intro h1 h2
  have l1 := properSub_length h2
  have s := isSubdomain_trans h1 (properSub_sub h2)
  rw [isSubdomain_iff] at s h1
  rw [properSub_iff]
  refine ⟨s.1, s.2, ?_⟩
  intro e
  have e' := congrArg List.length e
  have l2 := List.IsPrefix.length_le h1.2
  rw [lk_length, lk_length] at e' l2
  omega

/-- subtrees are convex in canonical order -/
theorem isSubdomain_convex {a b c : Name} :
    isSubdomain c a = true → cmpOrder a b ≤ 0 → cmpOrder b c ≤ 0 → isSubdomain b a = true := by
  simp only [isSubdomain_iff, cmpOrder_le_iff]
  rintro ⟨h, p⟩ (⟨h1, h2⟩ | ⟨h1, k1⟩) (⟨h3, h4⟩ | ⟨h3, k2⟩)
  · rw [h2] at h3; exact absurd h3 (by decide)
  · rw [← h, ← h3, h2] at h1; exact absurd h1 (by decide)
  · rw [h1, h3] at h; rw [h] at h4; exact absurd h4 (by decide)
  · exact ⟨h1.symm, prefix_convex p k1 k2⟩

/-- the ancestors of a name form a chain -/
theorem isSubdomain_chain {m a b : Name} :
    isSubdomain m a = true → isSubdomain m b = true → isSubdomain a b = true ∨ isSubdomain b a = true := by
  simp only [isSubdomain_iff]
  rintro ⟨h1, p1⟩ ⟨h2, p2⟩
  rcases List.prefix_or_prefix_of_prefix p1 p2 with h | h
  · exact Or.inr ⟨h2.symm.trans h1, h⟩
  · exact Or.inl ⟨h1.symm.trans h2, h⟩

/-- what lies after a subtree lies after all of it -/
theorem lt_of_sub_of_lt_of_not_sub {q c w : Name} :
    isSubdomain q c = true → cmpOrder c w < 0 → isSubdomain w c = false → cmpOrder q w < 0 := by
  intro h1 h2 h3
  rcases cmpOrder_total w q with h | h
  · have := isSubdomain_convex h1 (Int.le_of_lt h2) h
    rw [this] at h3; exact absurd h3 (by decide)
  · rcases Int.lt_or_eq_of_le h with h | h
    · exact h
    · -- q and w have equal keys, so w is a subdomain of c as well
      obtain ⟨e1, e2⟩ := cmpOrder_eq_iff.mp h
      have : isSubdomain w c = true := by
        rw [isSubdomain_iff] at h1 ⊢
        rw [← e1, ← e2]; exact h1
      rw [this] at h3; exact absurd h3 (by decide)

end BTZ
end Model

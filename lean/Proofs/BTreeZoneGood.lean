import Proofs.BTreeZoneIndex
import Proofs.BTreeZoneSorted
/-!
The invariant `Good` of the C20 model (flags and index equal the specification), its pointwise introduction
rule, and what `_maybe_cow_with_name` returns in a `Good` version.
-/
namespace Model
namespace BTZ

/-- an rdataset list as `Node` keeps it: no duplicate key, and an NS key has covers = NONE -/
def RdsOK (rds : List RdKey) : Prop := rds.Nodup ∧ ∀ r ∈ rds, isNS r = true → r = (ConstsC20.nsType, 0)

/-- rdataset keys as dnspython builds them: only signature types have a non-zero `covers` -/
def KeyWf (k : RdKey) : Prop := isNS k = true → k = (ConstsC20.nsType, 0)

structure Good (cfg : Cfg) (ver : Ver) : Prop where
  wf : NWF ver.nodes
  dwf : DWF ver.delegs
  inzone : ∀ e ∈ ver.nodes, isSubdomain e.1 (apex cfg) = true
  rds : ∀ e ∈ ver.nodes, RdsOK e.2.rds
  flags : ∀ e ∈ ver.nodes, e.2.flags = flagsSpec cfg ver.nodes e.1
  index : ∀ n, LC n → (n ∈ ver.delegs ↔ isDelegSpec cfg ver.nodes n = true)

/-- pointwise introduction -/
theorem Good_intro {cfg : Cfg} {ver : Ver} (wf : NWF ver.nodes) (dwf : DWF ver.delegs)
    (hp : ∀ k nd, LC k → nget ver.nodes k = some nd →
      isSubdomain k (apex cfg) = true ∧ RdsOK nd.rds ∧ nd.flags = flagsSpec cfg ver.nodes k)
    (hi : ∀ n, LC n → (n ∈ ver.delegs ↔ isDelegSpec cfg ver.nodes n = true)) : Good cfg ver := by
  refine ⟨wf, dwf, ?_, ?_, ?_, hi⟩
  · intro e he; exact (hp e.1 e.2 (wf.2 e he) (mem_nget wf he)).1
  · intro e he; exact (hp e.1 e.2 (wf.2 e he) (mem_nget wf he)).2.1
  · intro e he; exact (hp e.1 e.2 (wf.2 e he) (mem_nget wf he)).2.2

theorem Good.pointwise {cfg : Cfg} {ver : Ver} (h : Good cfg ver) {k : Name} {nd : Node} (hk : LC k)
    (hg : nget ver.nodes k = some nd) :
    isSubdomain k (apex cfg) = true ∧ RdsOK nd.rds ∧ nd.flags = flagsSpec cfg ver.nodes k := by
  have hm := nget_some_mem h.wf.2 hk hg
  exact ⟨h.inzone _ hm, h.rds _ hm, h.flags _ hm⟩

theorem NS_inzone {cfg : Cfg} {ver : Ver} (h : Good cfg ver) {a : Name} (ha : LC a) (hns : NS ver.nodes a) :
    isSubdomain a (apex cfg) = true := by
  obtain ⟨nd, hg, _⟩ := hns
  exact (h.pointwise ha hg).1

/-- the apex is never glue -/
theorem apex_not_above {cfg : Cfg} {ver : Ver} (h : Good cfg ver) {name : Name} (ho : isOrigin cfg name = true)
    (hn : LC name) : ¬ NSAbove cfg ver.nodes name := by
  rintro ⟨a, ha, hns, hp, _⟩
  have e : name = apex cfg := (nameEq_eq hn (LC_apex cfg)).mp ho
  rw [e] at hp
  have := properSub_of_properSub_of_sub hp (NS_inzone h ha hns)
  rw [properSub_irrefl] at this
  exact absurd this (by decide)

theorem Good.antichain {cfg : Cfg} {ver : Ver} (h : Good cfg ver) : Antichain ver.delegs := by
  intro d hd d' hd'
  cases hp : properSub d d' with
  | false => rfl
  | true =>
    exfalso
    have h1 := (isDelegSpec_iff h.wf).mp ((h.index d (h.dwf.2 d hd)).mp hd)
    have h2 := (isDelegSpec_iff h.wf).mp ((h.index d' (h.dwf.2 d' hd')).mp hd')
    exact h1.2.2 ⟨d', h.dwf.2 d' hd', h2.2.1, hp, h2.1⟩

/-- the index answers the glue question as the specification does -/
theorem glueIdx_eq {cfg : Cfg} {ver : Ver} (h : Good cfg ver) {name : Name} (hn : LC name) :
    isGlueIdx ver.delegs name = isGlueSpec cfg ver.nodes name := by
  apply bool_eq_of_iff
  rw [isGlueIdx_iff h.dwf h.antichain hn]
  unfold isGlueSpec
  rw [List.any_eq_true]
  constructor
  · rintro ⟨d, hd, hp⟩
    have hdl := h.dwf.2 d hd
    have hdel := (h.index d hdl).mp hd
    obtain ⟨_, ⟨nd, hg, _⟩, _⟩ := (isDelegSpec_iff h.wf).mp hdel
    exact ⟨(d, nd), nget_some_mem h.wf.2 hdl hg, by simp [hp, hdel]⟩
  · rintro ⟨e, he, hp⟩
    simp only [Bool.and_eq_true] at hp
    exact ⟨e.1, (h.index e.1 (h.wf.2 e he)).mpr hp.2, hp.1⟩

theorem dmem_eq_deleg {cfg : Cfg} {ver : Ver} (h : Good cfg ver) {name : Name} (hn : LC name) :
    dmem ver.delegs name = isDelegSpec cfg ver.nodes name := by
  apply bool_eq_of_iff
  rw [dmem_iff h.dwf.2 hn, h.index name hn]

/-- `_maybe_cow_with_name` in a `Good` version: the node it returns carries the specified flags, except that
a *re-created* node loses DELEGATION unless the repair `fixCow` is in (D15). -/
theorem cow_spec {cfg : Cfg} {ver : Ver} (v : Variant) (h : Good cfg ver) {name : Name} (hn : LC name) :
    (maybeCow v cfg ver name).1.delegs = ver.delegs ∧
    (maybeCow v cfg ver name).1.nodes = nins ver.nodes name (maybeCow v cfg ver name).2 ∧
    (maybeCow v cfg ver name).2.rds = (match nget ver.nodes name with | some nd => nd.rds | none => []) ∧
    (maybeCow v cfg ver name).2.flags =
      { flagsSpec cfg ver.nodes name with
        deleg := isDelegSpec cfg ver.nodes name && (v.fixCow || dmem ver.changed name) } := by
  have hgl := glueIdx_eq h hn
  have hdm := dmem_eq_deleg h hn
  refine ⟨rfl, rfl, ?_, ?_⟩
  · unfold maybeCow
    cases hg : nget ver.nodes name with
    | none => simp
    | some nd => simp only; split <;> rfl
  · unfold maybeCow
    simp only [hgl, hdm]
    cases hg : nget ver.nodes name with
    | none =>
      -- a new node: no NS here, so not a delegation
      have hnd : isDelegSpec cfg ver.nodes name = false := by
        cases hh : isDelegSpec cfg ver.nodes name with
        | false => rfl
        | true =>
          obtain ⟨_, ⟨nd, hg', _⟩, _⟩ := (isDelegSpec_iff h.wf).mp hh
          rw [hg] at hg'; cases hg'
      simp only [Option.isNone_none, Bool.true_or, hnd, Bool.and_false, Bool.false_and]
      by_cases ho : isOrigin cfg name = true
      · have hgs : isGlueSpec cfg ver.nodes name = false := by
          cases hh : isGlueSpec cfg ver.nodes name with
          | false => rfl
          | true => exact absurd ((isGlueSpec_iff h.wf).mp hh) (apex_not_above h ho hn)
        simp [ho, flagsSpec, hnd, hgs]
      · have ho' : isOrigin cfg name = false := by simpa using ho
        cases hgs : isGlueSpec cfg ver.nodes name <;> simp [ho', flagsSpec, hnd, hgs]
    | some nd =>
      have hfl := (h.pointwise hn hg).2.2
      simp only [Option.isNone_some, Bool.false_or]
      by_cases hc : dmem ver.changed name = true
      · -- the node was already copied in this version: it keeps its flags, which are the specified ones
        simp only [hc, Bool.not_true, Bool.false_eq_true, if_false, Bool.or_true, Bool.and_true]
        rw [hfl]
        by_cases ho : isOrigin cfg name = true
        · simp [ho, flagsSpec]
        · have ho' : isOrigin cfg name = false := by simpa using ho
          cases hgs : isGlueSpec cfg ver.nodes name
          · cases hd : isDelegSpec cfg ver.nodes name <;> cases hf : v.fixCow <;> simp [ho', flagsSpec, hgs, hd]
          · simp [ho', flagsSpec, hgs]
      · have hc' : dmem ver.changed name = false := by simpa using hc
        simp only [hc', Bool.not_false, if_true, Bool.or_false]
        by_cases ho : isOrigin cfg name = true
        · have hgs : isGlueSpec cfg ver.nodes name = false := by
            cases hh : isGlueSpec cfg ver.nodes name with
            | false => rfl
            | true => exact absurd ((isGlueSpec_iff h.wf).mp hh) (apex_not_above h ho hn)
          have hd : isDelegSpec cfg ver.nodes name = false := by
            unfold isDelegSpec; simp [ho]
          simp [ho, flagsSpec, hgs, hd]
        · have ho' : isOrigin cfg name = false := by simpa using ho
          cases hgs : isGlueSpec cfg ver.nodes name
          · cases hd : isDelegSpec cfg ver.nodes name <;> cases hf : v.fixCow <;> simp [ho', flagsSpec, hgs, hd]
          · have hd : isDelegSpec cfg ver.nodes name = false := by
              cases hh : isDelegSpec cfg ver.nodes name with
              | false => rfl
              | true => exact absurd ((isGlueSpec_iff h.wf).mp hgs) ((isDelegSpec_iff h.wf).mp hh).2.2
            simp [ho', flagsSpec, hgs, hd]

end BTZ
end Model

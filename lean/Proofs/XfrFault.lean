import Proofs.XfrConv
/-!
# Faulty streams over TCP, for every division into messages: early end, bad headers, an rrset the
machine refuses, surplus after the final SOA
-/
namespace Model.Xfr

/-- conditions under which a state is "between messages" of a TCP transfer -/
structure Between (s : Inbound) : Prop where
  soa : s.soa.isSome = true
  txn : s.txn.isSome = true
  tcp : s.isUdp = false
  notDone : s.done = false

theorem Between.step {s s1 : Inbound} {l : List RRset} (b : Between s) (h : procAnswers false s l = .ok s1)
    (hd : s1.done = false) : Between s1 ∧ s1.sameStatic s ∧ s1.zone = s.zone := by
  have st := procAnswers_ok h
  have r := st.2 hd
  exact ⟨⟨by rw [st.1.2.2.2]; exact b.soa, r.2 b.txn, by rw [st.1.2.2.1]; exact b.tcp, hd⟩, st.1, r.1⟩

/-- messages that are processed without finishing the transfer can be skipped: the run continues from
the state the flat loop reaches on their concatenated answers -/
theorem runLoop_prefix : ∀ (pre : List Msg) (s s1 : Inbound) (X : List Msg), Between s →
    (∀ m ∈ pre, headerErr s m = none) → procAnswers false s (pre.flatMap (·.answer)) = .ok s1 → s1.done = false →
    runLoop false s (pre ++ X) = runLoop false s1 X := by
  intro pre
  induction pre with
  | nil => intro s s1 X _ _ h _; simp [procAnswers] at h; subst h; rfl
  | cons m ms ih =>
    intro s s1 X b hh h hd1
    simp only [List.flatMap_cons] at h
    obtain ⟨s2, h2, h3, h4⟩ := procAnswers_append_ok h
    have hd2 : s2.done = false := by
      cases hx : s2.done with
      | false => rfl
      | true => have := (h4 hx).2; subst this; rw [hx] at hd1; cases hd1
    have b2 := b.step h2 hd2
    simp only [List.cons_append]
    rw [runLoop]
    rw [procMessage_later b.soa b.txn (hh m (by simp)), h2]
    simp only [udpCheck, b2.1.tcp, Bool.false_and, Bool.false_eq_true, if_false, hd2]
    exact ih s2 s1 X b2.1 (fun m' hm' => by rw [headerErr_static b2.2.1]; exact hh m' (by simp [hm'])) h3 hd1

/-- the first message seen as a later one: after the first SOA has been taken, the rest of the first
message is processed like any other message -/
theorem first_as_later {s0 : Inbound} {m0 : Msg} {rr0 : RRset} {rest0 : List RRset} {s1 : Inbound} (ms : List Msg)
    (hsoa : s0.soa = none) (hu : s0.isUdp = false)
    (hh : headerErr s0 m0 = none) (ha : m0.answer = rr0 :: rest0)
    (h1 : firstSoa (openTxn s0) rr0 false = .ok s1) (hd : s1.done = false) :
    runLoop false s0 (m0 :: ms) = runLoop false s1 (⟨0, [], rest0⟩ :: ms) ∧ Between s1 ∧
      s1.origin = s0.origin ∧ s1.rdtype = s0.rdtype ∧ s1.zone = s0.zone := by
  have o := openTxn_props s0
  have f1 := firstSoa_ok h1
  have hu0 : (openTxn s0).isUdp = false := by rw [o.1.2.2.1]; exact hu
  have b1 : Between s1 := ⟨by rw [f1.2.2.2.2.2]; rfl, by rw [f1.2.1]; exact o.2.2.2.1, by rw [f1.2.2.2.2.1]; exact hu0, hd⟩
  refine ⟨?_, b1, by rw [f1.2.2.1, o.1.1], by rw [f1.2.2.2.1, o.1.2.1], by rw [f1.1, o.2.1]⟩
  have hl : procMessage false s1 ⟨0, [], rest0⟩ =
      match procAnswers false s1 rest0 with | .error e => .error e | .ok s2 => udpCheck s2 :=
    procMessage_later b1.soa b1.txn (by simp [headerErr, headerErrOf])
  have hf : procMessage false s0 m0 =
      match procAnswers false s1 rest0 with | .error e => .error e | .ok s2 => udpCheck s2 := by
    unfold procMessage
    rw [headerErr_static o.1, hh]
    simp only []
    unfold procBody
    rw [o.1.2.2.2, hsoa, ha]
    simp only []
    rw [firstSoa_tcp hu0 rr0 rest0.isEmpty false, h1]
    simp only []
    cases procAnswers false s1 rest0 <;> rfl
  rw [runLoop, runLoop, hl, hf]

/-! ## the stream ends early -/

/-- Over TCP, for every division into messages: if the flat run is still waiting for more when the
records end, the chunked run ends with the stream, the zone being the zone before. -/
theorem run_of_flat_eof {c : Config} {z0 : Zone} {recs : List RRset} {msgs : List Msg} {s' : Inbound}
    (hu : c.isUdp = false) (hc : Chunks c recs msgs) (hf : flatRun c z0 recs = .ok s') (hd : s'.done = false) :
    run false c z0 msgs = ⟨some .EOF, z0⟩ := by
  unfold flatRun at hf
  unfold run
  cases hi : Inbound.init c.origin z0 c.rdtype c.serial c.isUdp with
  | error e => rw [hi] at hf; cases hf
  | ok s0 =>
    rw [hi] at hf
    have ip := init_props hi
    simp only [] at hf ⊢
    cases recs with
    | nil => cases hf
    | cons rr0 rest =>
      simp only [] at hf
      cases msgs with
      | nil => have := hc.flat; simp at this
      | cons m0 ms =>
        cases hm0 : m0.answer with
        | nil => exact absurd hm0 (hc.first m0 (by simp))
        | cons a0 rest0 =>
          have hflat := hc.flat
          simp only [List.flatMap_cons, hm0, List.cons_append, List.cons.injEq] at hflat
          obtain ⟨ha0, hrest⟩ := hflat
          subst ha0
          cases h1 : firstSoa (openTxn s0) a0 false with
          | error e => rw [h1] at hf; cases hf
          | ok s1 =>
            rw [h1] at hf
            simp only [] at hf
            have hd1 : s1.done = false := by
              cases hx : s1.done with
              | false => rfl
              | true =>
                cases rest with
                | nil => simp [procAnswers] at hf; subst hf; rw [hx] at hd; cases hd
                | cons r rs => simp [procAnswers, procRRset, hx] at hf
            have hh0 : headerErr s0 m0 = none := headerErr_of_chunk ip.1 ip.2.1 (hc.hdr m0 (by simp))
            obtain ⟨hr, b1, ho, ht, hz⟩ := first_as_later ms ip.2.2.2.2.1 (by rw [ip.2.2.1]; exact hu)
              hh0 hm0 h1 hd1
            rw [hr]
            have := runLoop_flat_eof (⟨0, [], rest0⟩ :: ms) s1 s' b1.soa b1.txn b1.tcp hd1 (by
              intro m hm
              simp only [List.mem_cons] at hm
              rcases hm with rfl | hm
              · simp [headerErr, headerErrOf]
              · exact headerErr_of_chunk (by rw [ho]; exact ip.1) (by rw [ht]; exact ip.2.1) (hc.hdr m (by simp [hm])))
              (by simpa [hrest] using hf) hd
            rw [this, hz, ip.2.2.2.1]

/-- every proper prefix of a stream the flat run accepts leaves the flat run waiting -/
theorem flatRun_take {c : Config} {z0 : Zone} {recs : List RRset} {s' : Inbound} (k : Nat)
    (hf : flatRun c z0 recs = .ok s') (hk1 : 0 < k) (hk : k < recs.length) :
    ∃ s'', flatRun c z0 (recs.take k) = .ok s'' ∧ s''.done = false := by
  unfold flatRun at hf ⊢
  cases hi : Inbound.init c.origin z0 c.rdtype c.serial c.isUdp with
  | error e => rw [hi] at hf; cases hf
  | ok s0 =>
    rw [hi] at hf
    simp only [] at hf ⊢
    cases recs with
    | nil => cases hf
    | cons rr0 rest =>
      cases k with
      | zero => cases hk1
      | succ k =>
        simp only [List.take_succ_cons] at hf ⊢
        cases h1 : firstSoa (openTxn s0) rr0 false with
        | error e => rw [h1] at hf; cases hf
        | ok s1 =>
          rw [h1] at hf
          simp only [] at hf ⊢
          have hsplit : rest = rest.take k ++ rest.drop k := (List.take_append_drop k rest).symm
          rw [hsplit] at hf
          obtain ⟨s2, h2, _, h4⟩ := procAnswers_append_ok hf
          refine ⟨s2, h2, ?_⟩
          cases hx : s2.done with
          | false => rfl
          | true =>
            have := (h4 hx).1
            have hl : (rest.drop k).length = rest.length - k := List.length_drop
            rw [this] at hl
            simp only [List.length_cons] at hk
            simp at hl
            omega

/-! ## an rrset the machine refuses -/

/-- messages after the first: if the flat loop raises at an rrset reached in a state that is not done,
the chunked loop raises the same, wherever the message boundaries fall -/
theorem runLoop_flat_raises {e : XErr} {z : Zone} : ∀ (msgs : List Msg) (s s1 : Inbound) (a : List RRset) (r : RRset)
    (b : List RRset), Between s → (∀ m ∈ msgs, headerErr s m = none) → msgs.flatMap (·.answer) = a ++ r :: b →
    procAnswers false s a = .ok s1 → s1.done = false → procRRset false s1 r true = .error (e, z) →
    runLoop false s msgs = .error (e, z) := by
  intro msgs
  induction msgs with
  | nil => intro s s1 a r b _ _ hfl _ _ _; simp at hfl
  | cons m ms ih =>
    intro s s1 a r b bs hh hfl ha hd1 hr
    simp only [List.flatMap_cons] at hfl
    unfold runLoop
    rw [procMessage_later bs.soa bs.txn (hh m (by simp))]
    rcases List.append_eq_append_iff.mp hfl with ⟨a', h1, h2⟩ | ⟨c', h1, h2⟩
    · -- the refused rrset lies in a later message
      subst h1
      obtain ⟨s2, g2, g3, g4⟩ := procAnswers_append_ok ha
      have hd2 : s2.done = false := by
        cases hx : s2.done with
        | false => rfl
        | true => have := (g4 hx).2; subst this; rw [hx] at hd1; cases hd1
      have b2 := bs.step g2 hd2
      rw [g2]
      simp only [udpCheck, b2.1.tcp, Bool.false_and, Bool.false_eq_true, if_false, hd2]
      exact ih s2 s1 a' r b b2.1 (fun m' hm' => by rw [headerErr_static b2.2.1]; exact hh m' (by simp [hm'])) h2 g3 hd1 hr
    · -- it lies in this message
      cases c' with
      | nil =>
        simp only [List.append_nil] at h1
        simp only [List.nil_append] at h2
        subst h1
        rw [ha]
        simp only [udpCheck, (bs.step ha hd1).1.tcp, Bool.false_and, Bool.false_eq_true, if_false, hd1]
        have b1 := bs.step ha hd1
        exact ih s1 s1 [] r b b1.1 (fun m' hm' => by rw [headerErr_static b1.2.1]; exact hh m' (by simp [hm']))
          (by simpa using h2.symm) rfl hd1 hr
      | cons r' c'' =>
        simp only [List.cons_append, List.cons.injEq] at h2
        obtain ⟨rfl, _⟩ := h2
        rw [h1, procAnswers_append, ha]
        simp only [procAnswers]
        rw [procRRset_false_more s1 r (!c''.isEmpty) true, hr]

/-- Over TCP, for every division into messages: an rrset (after the first SOA) at which the flat run
raises, in a state that is not done, makes the chunked run raise the same. -/
theorem run_of_flat_raises {c : Config} {z0 : Zone} {msgs : List Msg} {rr0 : RRset} {a : List RRset} {r : RRset}
    {b : List RRset} {s1 : Inbound} {e : XErr} {z : Zone}
    (hu : c.isUdp = false) (hc : Chunks c (rr0 :: (a ++ r :: b)) msgs)
    (hf : flatRun c z0 (rr0 :: a) = .ok s1) (hd : s1.done = false)
    (hr : procRRset false s1 r true = .error (e, z)) :
    run false c z0 msgs = ⟨some e, z⟩ := by
  unfold flatRun at hf
  unfold run
  cases hi : Inbound.init c.origin z0 c.rdtype c.serial c.isUdp with
  | error e => rw [hi] at hf; cases hf
  | ok s0 =>
    rw [hi] at hf
    have ip := init_props hi
    simp only [] at hf ⊢
    cases msgs with
    | nil => have := hc.flat; simp at this
    | cons m0 ms =>
      cases hm0 : m0.answer with
      | nil => exact absurd hm0 (hc.first m0 (by simp))
      | cons a0 rest0 =>
        have hflat := hc.flat
        simp only [List.flatMap_cons, hm0, List.cons_append, List.cons.injEq] at hflat
        obtain ⟨ha0, hrest⟩ := hflat
        subst ha0
        cases h1 : firstSoa (openTxn s0) a0 false with
        | error e => rw [h1] at hf; cases hf
        | ok sf =>
          rw [h1] at hf
          simp only [] at hf
          have hdf : sf.done = false := by
            cases hx : sf.done with
            | false => rfl
            | true =>
              cases a with
              | nil => simp [procAnswers] at hf; subst hf; rw [hx] at hd; cases hd
              | cons r rs => simp [procAnswers, procRRset, hx] at hf
          have hh0 : headerErr s0 m0 = none := headerErr_of_chunk ip.1 ip.2.1 (hc.hdr m0 (by simp))
          obtain ⟨hrl, b1, ho, ht, _⟩ := first_as_later ms ip.2.2.2.2.1 (by rw [ip.2.2.1]; exact hu)
            hh0 hm0 h1 hdf
          rw [hrl]
          have := runLoop_flat_raises (e := e) (z := z) (⟨0, [], rest0⟩ :: ms) sf s1 a r b b1 (by
            intro m hm
            simp only [List.mem_cons] at hm
            rcases hm with rfl | hm
            · simp [headerErr, headerErrOf]
            · exact headerErr_of_chunk (by rw [ho]; exact ip.1) (by rw [ht]; exact ip.2.1) (hc.hdr m (by simp [hm])))
            (by simpa using hrest) hf hd hr
          rw [this]

/-! ## what the run looks like just before a given message of a valid division -/

/-- Over TCP, in a division `pre ++ tail` of an accepted stream where records are still to come in
`tail`: the run over `pre ++ X`, for any continuation `X` whose first message (if `pre` is empty) starts
like the original, continues from a state that is between messages, not done, with the zone untouched.
Stated for non-empty `pre`. -/
theorem run_before {c : Config} {z0 : Zone} {recs : List RRset} {m0 : Msg} {pre tail : List Msg} {s' : Inbound}
    (hu : c.isUdp = false) (hc : Chunks c recs (m0 :: pre ++ tail)) (hf : flatRun c z0 recs = .ok s')
    (htail : tail.flatMap (·.answer) ≠ []) :
    ∃ s0 s2, Inbound.init c.origin z0 c.rdtype c.serial c.isUdp = .ok s0 ∧ Between s2 ∧ s2.zone = z0 ∧
      c.origin = some s2.origin ∧ s2.rdtype = c.rdtype ∧
      (∀ X, runLoop false s0 (m0 :: pre ++ X) = runLoop false s2 X) ∧
      procAnswers false s2 (tail.flatMap (·.answer)) = .ok s' := by
  unfold flatRun at hf
  cases hi : Inbound.init c.origin z0 c.rdtype c.serial c.isUdp with
  | error e => rw [hi] at hf; cases hf
  | ok s0 =>
    rw [hi] at hf
    have ip := init_props hi
    simp only [] at hf
    cases hm0 : m0.answer with
    | nil => exact absurd hm0 (hc.first m0 (by simp))
    | cons a0 rest0 =>
      have hflat := hc.flat
      simp only [List.cons_append, List.flatMap_cons, hm0, List.flatMap_append] at hflat
      subst hflat
      simp only [] at hf
      cases h1 : firstSoa (openTxn s0) a0 false with
      | error e => rw [h1] at hf; cases hf
      | ok sf =>
        rw [h1] at hf
        simp only [] at hf
        have hsplit : rest0 ++ (pre.flatMap (·.answer) ++ tail.flatMap (·.answer)) =
            (rest0 ++ pre.flatMap (·.answer)) ++ tail.flatMap (·.answer) := by simp
        rw [hsplit] at hf
        obtain ⟨s2, g2, g3, g4⟩ := procAnswers_append_ok hf
        have hd2 : s2.done = false := by
          cases hx : s2.done with
          | false => rfl
          | true => exact absurd (g4 hx).1 htail
        have hdf : sf.done = false := by
          cases hx : sf.done with
          | false => rfl
          | true =>
            cases hl : rest0 ++ pre.flatMap (·.answer) with
            | nil => rw [hl] at g2; simp [procAnswers] at g2; subst g2; rw [hx] at hd2; cases hd2
            | cons r rs => rw [hl] at g2; simp [procAnswers, procRRset, hx] at g2
        have hh0 : headerErr s0 m0 = none := headerErr_of_chunk ip.1 ip.2.1 (hc.hdr m0 (by simp))
        refine ⟨s0, s2, rfl, ?_⟩
        have hfl := fun X => first_as_later (pre ++ X) ip.2.2.2.2.1 (by rw [ip.2.2.1]; exact hu) hh0 hm0 h1 hdf
        obtain ⟨_, b1, ho, ht, hz⟩ := hfl []
        have b2 := b1.step g2 hd2
        refine ⟨b2.1, by rw [b2.2.2, hz]; exact ip.2.2.2.1, by rw [b2.2.1.1, ho]; exact ip.1,
          by rw [b2.2.1.2.1, ht]; exact ip.2.1, ?_, g3⟩
        intro X
        rw [show m0 :: pre ++ X = m0 :: (pre ++ X) from rfl, (hfl X).1]
        rw [show (⟨0, [], rest0⟩ : Msg) :: (pre ++ X) = ((⟨0, [], rest0⟩ : Msg) :: pre) ++ X from rfl]
        exact runLoop_prefix _ sf s2 X b1 (by
          intro m hm
          simp only [List.mem_cons] at hm
          rcases hm with rfl | hm
          · simp [headerErr, headerErrOf]
          · exact headerErr_of_chunk (by rw [ho]; exact ip.1) (by rw [ht]; exact ip.2.1) (hc.hdr m (by simp [hm])))
          (by simpa using g2) hd2

/-! ## a message with a bad header -/

/-- Over TCP: in any division of an accepted stream, a message that is read (records are still to come
when it arrives) and whose header is refused makes the run raise that error, zone untouched. -/
theorem run_header_fault {c : Config} {z0 : Zone} {recs : List RRset} {pre post : List Msg} {m m' : Msg}
    {s' : Inbound} {o : Name} {e : XErr}
    (hu : c.isUdp = false) (ho : c.origin = some o) (hc : Chunks c recs (pre ++ m :: post))
    (hf : flatRun c z0 recs = .ok s') (htail : (m :: post).flatMap (·.answer) ≠ [])
    (he : headerErrOf o c.rdtype m' = some e) :
    run false c z0 (pre ++ m' :: post) = ⟨some e, z0⟩ := by
  cases pre with
  | nil =>
    unfold flatRun at hf
    unfold run
    cases hi : Inbound.init c.origin z0 c.rdtype c.serial c.isUdp with
    | error e => rw [hi] at hf; cases hf
    | ok s0 =>
      have ip := init_props hi
      have op := openTxn_props s0
      have hoo : s0.origin = o := by have := ip.1; rw [ho] at this; cases this; rfl
      have : headerErr (openTxn s0) m' = some e := by
        unfold headerErr; rw [op.1.1, op.1.2.1, hoo, ip.2.1]; exact he
      simp only [List.nil_append, runLoop, procMessage, this, ip.2.2.2.1]
  | cons m0 pre' =>
    obtain ⟨s0, s2, hi, b2, hz, ho2, ht2, hX, _⟩ := run_before (pre := pre') (tail := m :: post) hu hc hf htail
    have hoo : s2.origin = o := by rw [ho] at ho2; cases ho2; rfl
    have op := openTxn_props s2
    have : headerErr (openTxn s2) m' = some e := by
      unfold headerErr; rw [op.1.1, op.1.2.1, hoo, ht2]; exact he
    unfold run
    rw [hi]
    simp only []
    rw [show m0 :: pre' ++ m' :: post = m0 :: pre' ++ (m' :: post) from rfl, hX (m' :: post)]
    simp only [runLoop, procMessage, this, hz]

/-! ## surplus after the final SOA, in the same message -/

/-- Over TCP: in any division of an accepted stream, rrsets appended to the last message (which holds
the final SOA): the shipped code has committed when it raises `FormError`. -/
theorem run_surplus_shipped {c : Config} {z0 : Zone} {recs : List RRset} {pre : List Msg} {m : Msg}
    {extra : List RRset} {s' : Inbound}
    (hu : c.isUdp = false) (hc : Chunks c recs (pre ++ [m])) (hf : flatRun c z0 recs = .ok s') (hd : s'.done = true)
    (hm : m.answer ≠ []) (hx : extra ≠ []) :
    run false c z0 (pre ++ [{ m with answer := m.answer ++ extra }]) = ⟨some .FormError, s'.zone⟩ := by
  have hsur : ∀ (s : Inbound), procAnswers false s m.answer = .ok s' →
      procAnswers false s (m.answer ++ extra) = .error (.FormError, s'.zone) := by
    intro s h
    rw [procAnswers_append, h]
    cases extra with
    | nil => exact absurd rfl hx
    | cons x xs => simp [procAnswers, procRRset, hd]
  cases pre with
  | nil =>
    cases hma : m.answer with
    | nil => exact absurd hma hm
    | cons rr0 rest =>
      have hrecs : recs = rr0 :: rest := by have := hc.flat; simp [hma] at this; exact this.symm
      subst hrecs
      have hc' : Chunks c (rr0 :: (rest ++ extra)) [{ m with answer := rr0 :: rest ++ extra }] :=
        ⟨by simp, by intro x hx'; simp at hx'; subst hx'; exact hc.hdr m (by simp), by simp⟩
      rw [List.nil_append, run_single_tcp hu hc']
      unfold flatRun at hf ⊢
      cases hi : Inbound.init c.origin z0 c.rdtype c.serial c.isUdp with
      | error e => rw [hi] at hf; cases hf
      | ok s0 =>
        rw [hi] at hf
        simp only [] at hf ⊢
        cases h1 : firstSoa (openTxn s0) rr0 false with
        | error e => rw [h1] at hf; cases hf
        | ok sf =>
          rw [h1] at hf
          simp only [] at hf ⊢
          rw [procAnswers_append, hf]
          cases extra with
          | nil => exact absurd rfl hx
          | cons x xs => simp [procAnswers, procRRset, hd]
  | cons m0 pre' =>
    obtain ⟨s0, s2, hi, b2, hz, ho2, ht2, hX, hrest⟩ := run_before (pre := pre') (tail := [m]) hu hc hf (by simpa using hm)
    simp only [List.flatMap_cons, List.flatMap_nil, List.append_nil] at hrest
    have hh : headerErr s2 { m with answer := m.answer ++ extra } = none :=
      headerErr_of_chunk (m := { m with answer := m.answer ++ extra }) ho2 ht2 (hc.hdr m (by simp))
    unfold run
    rw [hi]
    simp only []
    rw [show m0 :: pre' ++ [{ m with answer := m.answer ++ extra }] = m0 :: pre' ++ [{ m with answer := m.answer ++ extra }] from rfl,
      hX]
    rw [runLoop, procMessage_later b2.soa b2.txn hh, hsur s2 hrest]

/-! ## accepted streams, both variants -/

/-- a stream the (shipped) machine accepts when fed flat over TCP; every valid AXFR, IXFR and
AXFR-style stream is one (`axfr_flat`, `ixfr_flat`, `axfr_style_flat`) -/
def Accepted (c : Config) (z0 : Zone) (recs : List RRset) : Prop :=
  ∃ s', flatRun c z0 recs = .ok s' ∧ s'.done = true

/-- a result that raised nothing is the same in both variants -/
theorem both_variants {c : Config} {z0 : Zone} {msgs : List Msg} {z : Zone}
    (h : run false c z0 msgs = ⟨none, z⟩) (fix : Bool) : run fix c z0 msgs = ⟨none, z⟩ := by
  cases fix with
  | false => exact h
  | true =>
    rcases run_variants c z0 msgs with e | ⟨e, _⟩
    · rw [← e]; exact h
    · rw [h] at e; cases e

/-- an error of the shipped code that left the zone untouched is the same in both variants -/
theorem both_variants_err {c : Config} {z0 : Zone} {msgs : List Msg} {e : XErr}
    (h : run false c z0 msgs = ⟨some e, z0⟩) (fix : Bool) : run fix c z0 msgs = ⟨some e, z0⟩ := by
  cases fix with
  | false => exact h
  | true =>
    rcases run_variants c z0 msgs with eq | ⟨hf, ht⟩
    · rw [← eq]; exact h
    · rw [h] at hf
      simp only [Option.some.injEq] at hf
      subst hf
      have hz := run_fix_atomic c z0 msgs _ ht
      cases hr : run true c z0 msgs with
      | mk err zone => rw [hr] at ht hz; simp at ht hz; rw [ht, hz]

/-- whatever the shipped code does, if it raises `FormError` the repaired code raises `FormError` and
leaves the zone untouched -/
theorem repaired_of_shipped_formError {c : Config} {z0 : Zone} {msgs : List Msg} {z : Zone}
    (h : run false c z0 msgs = ⟨some .FormError, z⟩) : run true c z0 msgs = ⟨some .FormError, z0⟩ := by
  have ht : (run true c z0 msgs).err = some .FormError := by
    rcases run_variants c z0 msgs with eq | ⟨_, ht⟩
    · rw [← eq, h]
    · exact ht
  have hz := run_fix_atomic c z0 msgs _ ht
  cases hr : run true c z0 msgs with
  | mk err zone => rw [hr] at ht hz; simp at ht hz; rw [ht, hz]

/-- the first rrset of the first message is refused (not the apex SOA, serial behind ours, …) -/
theorem run_first_err {fix : Bool} {c : Config} {z0 : Zone} {m0 : Msg} {ms : List Msg} {rr0 : RRset}
    {rest0 : List RRset} {s0 : Inbound} {e : XErr} {z : Zone}
    (hi : Inbound.init c.origin z0 c.rdtype c.serial c.isUdp = .ok s0) (hh : headerErr s0 m0 = none)
    (ha : m0.answer = rr0 :: rest0) (h1 : firstSoa (openTxn s0) rr0 rest0.isEmpty = .error (e, z)) :
    run fix c z0 (m0 :: ms) = ⟨some e, z0⟩ := by
  have ip := init_props hi
  have o := openTxn_props s0
  have hz : z = z0 := by rw [firstSoa_err h1, o.2.1]; exact ip.2.2.2.1
  unfold run
  rw [hi]
  simp only [runLoop, procMessage]
  rw [headerErr_static o.1, hh]
  simp only [procBody]
  rw [o.1.2.2.2, ip.2.2.2.2.1, ha]
  simp only []
  rw [h1, hz]

end Model.Xfr
